import IcyVerif.Props.C12
import IcyVerif.Model.ColorOptSixel
set_option linter.unusedSimpArgs false
set_option linter.unusedVariables false
/-! # C12 and the second loop of `render_to_rgba` (sixel images)

What the code does (Model/ColorOptSixel.lean): after the text picture, every sixel of every layer is copied row by row over
the pixel vector.  `Buffer::flat_clone(false)` starts from `Buffer::new` and copies cells only, so the optimised buffer
has NO sixel (tied: the harness observes `optimize(buf).layers[*].sixels` on documents with sixels).

What holds:
* `render_full_without_sixels` — a document without sixels: the full `render_to_rgba` is the text picture, so
  `optimize_preserves_full_render` is the property, for the complete function (both loops), inside the quantifier (the
  quantifier of C12 has no sixels).
* `optimised_full_render_is_text_picture` — for ANY document: the full rendering of the optimised buffer is the TEXT
  picture of the original.
* `full_render_preserved_iff` — hence the full renderings are equal EXACTLY when painting the original's sixels over its
  text picture changes nothing and does not panic (`overlaySixels … text = some text`, a computable guard);
  `sixel_changes_picture` is a witness that the guard can fail, `offscreen_sixel_invisible` one family where it holds.
Documents with sixels are outside C12's quantifier (layers of cells), so the dropped sixels are NOT recorded as a C12
finding; the observation (default saving in a sixel-capable format — ANSI, IcyDraw — writes none of the sixel images,
because the writer is handed the flat clone) is reported in HANDOFF.md. -/
namespace IcyVerif.C12
open IcyVerif.Comp IcyVerif.ColorOpt IcyVerif.Gen.Fonts

variable (fonts : Nat → Option ColorOpt.Font) (pal : Nat → Rgb) (w0 h0 : Nat)

/-- no sixels: the second loop does nothing -/
theorem render_full_without_sixels (cellAt : Int → Int → Cell) (W H : Nat) :
    renderFull fonts pal w0 h0 cellAt W H [] =
      if hasPanic (renderDoc fonts pal w0 h0 cellAt W H) then none
      else some (imageBytes (renderDoc fonts pal w0 h0 cellAt W H) h0) := by
  simp only [renderFull, overlaySixels]

/-- For every document (with or without sixels): the complete `render_to_rgba` of the optimised buffer — which has no
    sixels — is the text picture of the original. -/
theorem optimised_full_render_is_text_picture (norm : Bool) (hb : Cell → Nat × Nat) (isTerm : Bool) (S : List Layer)
    (W H : Nat) (cells' : List (List Cell)) (hok : FontsOk fonts)
    (hopt : optimizeDoc fonts norm hb isTerm S W H = some cells') :
    renderFull fonts pal w0 h0 (fun x y => getChar hb isTerm [flatLayer W H cells'] x y) W H [] =
      renderFull fonts pal w0 h0 (fun x y => getChar hb isTerm S x y) W H [] := by
  simp only [renderFull]
  rw [optimize_preserves_document fonts pal w0 h0 norm hb isTerm S W H cells' hok hopt]

/-- **The property for the complete `render_to_rgba`** on the documents of the quantifier (no sixels). -/
theorem optimize_preserves_full_render (norm : Bool) (hb : Cell → Nat × Nat) (isTerm : Bool) (S : List Layer)
    (W H : Nat) (cells' : List (List Cell)) (hok : FontsOk fonts)
    (hopt : optimizeDoc fonts norm hb isTerm S W H = some cells') :
    renderFull fonts pal w0 h0 (fun x y => getChar hb isTerm [flatLayer W H cells'] x y) W H [] =
      renderFull fonts pal w0 h0 (fun x y => getChar hb isTerm S x y) W H [] :=
  optimised_full_render_is_text_picture fonts pal w0 h0 norm hb isTerm S W H cells' hok hopt

/-- With sixels: the renderings agree EXACTLY when painting the sixels over the original's text picture is the identity
    (and does not panic).  (`hnp`: the text loop itself does not panic.) -/
theorem full_render_preserved_iff (norm : Bool) (hb : Cell → Nat × Nat) (isTerm : Bool) (S : List Layer)
    (W H : Nat) (cells' : List (List Cell)) (sixels : List SixelImg) (hok : FontsOk fonts)
    (hopt : optimizeDoc fonts norm hb isTerm S W H = some cells')
    (hnp : hasPanic (renderDoc fonts pal w0 h0 (fun x y => getChar hb isTerm S x y) W H) = false) :
    renderFull fonts pal w0 h0 (fun x y => getChar hb isTerm [flatLayer W H cells'] x y) W H [] =
      renderFull fonts pal w0 h0 (fun x y => getChar hb isTerm S x y) W H sixels ↔
    overlaySixels w0 h0 (W * w0 * 4) sixels (imageBytes (renderDoc fonts pal w0 h0 (fun x y => getChar hb isTerm S x y) W H) h0)
      = some (imageBytes (renderDoc fonts pal w0 h0 (fun x y => getChar hb isTerm S x y) W H) h0) := by
  rw [optimised_full_render_is_text_picture fonts pal w0 h0 norm hb isTerm S W H cells' hok hopt]
  simp only [renderFull, hnp, Bool.false_eq_true, if_false, overlaySixels]
  exact eq_comm

/-- a sixel of height 0, or one whose first visible row already lies beyond the pixel vector, paints nothing -/
theorem offscreen_sixel_invisible (fw fh lineBytes : Nat) (s : SixelImg) (pixels : List Nat)
    (hx : 0 ≤ s.lx + s.px) (hy : 0 ≤ s.ly + s.py)
    (hr : (inI32 (s.lx + s.px) && inI32 (s.ly + s.py)) = true)
    (hr2 : (inI32 ((s.lx + s.px) * fw) && inI32 ((s.ly + s.py) * fh) && inI32 ((s.ly + s.py) * fh + s.h) && inI32 ((s.w : Int) * 4)) = true)
    (hoff : s.h = 0 ∨ ((s.ly + s.py) * fh).toNat * lineBytes + ((s.lx + s.px) * fw).toNat * 4 + s.w * 4 > pixels.length) :
    overlaySixel fw fh lineBytes s pixels = some pixels := by
  simp only [overlaySixel, hr, hr2, Bool.not_true, Bool.false_eq_true, if_false]
  have hsy : 0 ≤ (s.ly + s.py) * fh := Int.mul_nonneg hy (Int.natCast_nonneg _)
  have hsx : ¬ ((s.lx + s.px) * fw < 0) := by
    have := Int.mul_nonneg hx (Int.natCast_nonneg fw); omega
  have hmax : max ((s.ly + s.py) * (fh : Int)) 0 = (s.ly + s.py) * fh := by omega
  rw [hmax]
  have hn : ((s.ly + s.py) * (fh : Int) + (s.h : Int) - (s.ly + s.py) * fh).toNat = s.h := by omega
  rw [hn]
  rcases hoff with h0 | hgt
  · rw [h0]; rfl
  · cases hh : s.h with
    | zero => rfl
    | succ n =>
      unfold sixelRows
      simp only [hsx, if_false]
      simp only [hgt, if_true]

/-! ## witness: a sixel inside the picture changes it (outside the property's quantifier) -/
section witness
/-- a 1x1 document (font `fA`, 8x2 pixels), one sixel of 1x1 pixel (255,0,0,255) at cell (0,0) -/
def sixRed : SixelImg := ⟨0, 0, 0, 0, 1, 1, [255, 0, 0, 255]⟩

theorem sixel_changes_picture :
    renderFull fontsN palW 8 2 (fun x y => getChar hbW false docN x y) 3 1 [sixRed] ≠
      renderFull fontsN palW 8 2 (fun x y => getChar hbW false docN x y) 3 1 [] := by
  decide +kernel

-- the quirks of the loop, by evaluation on a 2x2-pixel vector (`lineBytes` = 8):
-- a 1x2 sixel at pixel row -1: the row above the picture is skipped, but the FIRST source line is painted at row 0
example : sixelRows 8 4 0 [1, 1, 1, 1, 2, 2, 2, 2] 1 0 0 (List.replicate 16 0) =
    some ([1, 1, 1, 1] ++ List.replicate 12 0) := by decide
-- a 2-pixel-wide sixel at pixel column 1 of a 2-pixel-wide picture runs on into the next pixel line
example : sixelRows 8 8 1 [1, 1, 1, 1, 2, 2, 2, 2] 1 0 0 (List.replicate 16 0) =
    some ([0, 0, 0, 0, 1, 1, 1, 1, 2, 2, 2, 2, 0, 0, 0, 0]) := by decide
-- a negative pixel column panics; picture data shorter than a row panics
example : sixelRows 8 4 (-8) [1, 1, 1, 1] 1 0 0 (List.replicate 16 0) = none := by decide
example : sixelRows 8 4 0 [1, 1, 1] 1 0 0 (List.replicate 16 0) = none := by decide
-- non-vacuity of `offscreen_sixel_invisible`: a sixel one row below a 1-row picture
example : overlaySixel 8 2 96 ⟨0, 0, 0, 1, 1, 1, [255, 0, 0, 255]⟩ (List.replicate 192 0) = some (List.replicate 192 0) := by
  decide +kernel
end witness

end IcyVerif.C12
