import IcyVerif.Props.C20
import IcyVerif.Lemmas.IgsCanvas
import IcyVerif.Lemmas.RipCanvas
import IcyVerif.Lemmas.IgsLine
import IcyVerif.Lemmas.IgsFlood
set_option linter.unusedSimpArgs false
set_option linter.unusedVariables false
/-!
# C20, IGS DrawExecutor part — argument validation, the executor invariant, the exposed picture, `fill_rect`

Property sentences addressed here: "yields an action or an error for every character … truncated or over-long
parameter lists" (every command of `execute_command` rejects a parameter list of the wrong length with `Err`, the
poly-line / poly-fill commands exactly the lists that are not `points * 2 + 1` long), "never panics" (`set_pixel`,
`fill_rect`: no index out of range, no i32 overflow), "time bounded by the canvas size" (`fill_rect`: at most
width x height cells whatever the corners), and "the exposed pixel canvas is always a complete width x height image"
(`get_picture_data` indexes the 16 pens with every screen cell: the invariant `Good` — screen of exactly width x height
cells, every cell and every saved cell a pen number — holds initially and is kept by EVERY command with EVERY
parameter list, along every stream and every loop).

The model is of the REPAIRED executor (fix commits: line type 7, polymarker table cursor, i64 in `fill_poly` /
`fill_ellipse` / `draw_ellipse`, `blit_memory_to_screen` range).  Not covered by a theorem (correspondence + oracle
only): that `draw_line`, the ellipse loops and `flood_fill` end within their fuel (the model makes running out of fuel
the explicit outcome `stall`), and i32 overflow inside them for coordinates beyond the stated bounds.
-/
namespace IcyVerif.C20
open IcyVerif

-- ================================================================================================ argument validation
/-- the argument-count table regenerated from `execute_command`: 27 commands start with `if parameters.len() != N` -/
theorem igs_arg_table : Gen.IgsPaint.argCount.length = 27 ∧ (Gen.IgsPaint.argCount.map (·.2)).all (fun n => decide (1 ≤ n ∧ n ≤ 6)) = true := by
  decide

/-- EVERY command of that table answers `Err` — it does not panic and does not touch the executor — for EVERY parameter
list whose length is not the declared one (shorter, longer, empty), whatever the values. -/
theorem igs_arg_count_validated (p : IgsPaint.Paint) (name name' : String) (n : Nat) (ps : List Int)
    (ht : Gen.IgsPaint.argCount.find? (fun e => e.1 == name) = some (name', n)) (hl : ps.length ≠ n) :
    IgsPaint.exec p name ps = .err p := by
  unfold IgsPaint.exec
  simp only [ht, hl, ne_eq, not_false_eq_true, if_true]

/-- non-vacuity: `DrawLine` with three parameters -/
example : (match IgsPaint.exec IgsPaint.Paint.new "DrawLine" [1, 2, 3] with | .err _ => true | _ => false) = true := by
  rw [igs_arg_count_validated IgsPaint.Paint.new "DrawLine" "DrawLine" 4 [1, 2, 3] (by decide) (by decide)]

/-- PolyFill / PolyLine: a parameter list is painted ONLY when it is exactly `points * 2 + 1` long with `points >= 1`
(so the coordinate list handed to `fill_poly` / `draw_poly` / `draw_polyline` has an even, non-zero length); every other
list — empty, too short, too long by an odd or an even number of entries — is answered with `Err` and leaves the
executor untouched.  (`points` below 2^30: beyond that `points * 2 + 1` overflows i32, the model's explicit panic.) -/
theorem igs_poly_validation (p : IgsPaint.Paint) (name : String) (hn : name = "PolyFill" ∨ name = "PolyLine") (ps : List Int)
    (hsmall : ∀ v, ps.head? = some v → v < 1073741824) :
    (ps = [] ∨ (∃ v, ps.head? = some v ∧ (v < 1 ∨ v * 2 + 1 ≠ (ps.length : Int)))) → IgsPaint.exec p name ps = .err p := by
  intro hbad
  have hrej : IgsPaint.polyReject ps = some true := by
    unfold IgsPaint.polyReject
    cases ps with
    | nil => rfl
    | cons v t =>
      simp only []
      rcases hbad with h | ⟨w, hw, hb⟩
      · cases h
      · simp only [List.head?_cons, Option.some.injEq] at hw
        subst hw
        have hs := hsmall v rfl
        by_cases h1 : v < 1
        · simp [h1]
        · simp only [h1, if_false]
          have : ¬ v * 2 > IgsPaint.i32Max := by simp only [IgsPaint.i32Max]; omega
          simp only [this, if_false]
          have : ¬ v * 2 + 1 > IgsPaint.i32Max := by simp only [IgsPaint.i32Max]; omega
          simp only [this, if_false]
          rcases hb with hb | hb
          · exact absurd hb h1
          · have hlen : ((v :: t).length : Int) = (t.length : Int) + 1 := by simp
            rw [hlen] at hb
            simp
            omega
  rcases hn with h | h <;> subst h <;> unfold IgsPaint.exec <;> simp [Gen.IgsPaint.argCount, hrej]

/-- the seeded regression of round 3 as a closed instance: fill border on, `f>1,5,5,7` (one point announced, three
coordinates carried) is an error, not a painted polygon -/
example : (match IgsPaint.exec { IgsPaint.Paint.new with drawBorder := true } "PolyFill" [1, 5, 5, 7] with | .err _ => true | _ => false) = true := by
  rw [igs_poly_validation _ "PolyFill" (Or.inl rfl) [1, 5, 5, 7] (by intro v hv; simp at hv; omega) (Or.inr ⟨1, rfl, Or.inr (by decide)⟩)]

-- ================================================================================================ the executor invariant
/-- The invariant holds in the initial executor and is kept by `execute_command` for EVERY command name, EVERY parameter
list (any length, any values) — whether the command answers `Ok` or `Err`.  (Pen / colour index guards of ColorSet,
SetPenColor, VTColor; every painting primitive writes pen numbers only and keeps the length of the screen;
SetResolution / Initialize / ScreenClear size the screen to the resolution.) -/
theorem igs_exec_keeps_invariant (p p' : IgsPaint.Paint) (name : String) (ps : List Int) (hg : IgsPaint.Good p)
    (h : (IgsPaint.exec p name ps).state? = some p') : IgsPaint.Good p' := IgsPaint.exec_good hg h

example : IgsPaint.Good IgsPaint.Paint.new := IgsCanvas.paint_new_good

/-- `get_picture_data` in a state satisfying the invariant: no index panic (`pen_colors[cell]`), and exactly
width x height x 4 bytes. -/
theorem igs_picture_complete (p : IgsPaint.Paint) (hg : IgsPaint.Good p) :
    ∃ d, IgsPaint.pictureData p = some d ∧ d.length = (IgsPaint.resW p * IgsPaint.resH p).toNat * 4 :=
  IgsPaint.pictureData_good hg

/-- a whole stream through lexer + executor with the loop steps a terminal takes after every character (`k` per
character); `none` = a panic, a stall or a command outside the model (text output) -/
def igsCanvasRun (k : Nat) : IgsCanvas.St → List Nat → Option IgsCanvas.St
  | s, [] => some s
  | s, ch :: rest =>
    match IgsCanvas.step s ch with
    | .ok s1 _ =>
      match IgsCanvas.drain k s1 with
      | .ok s2 _ => igsCanvasRun k s2 rest
      | _ => none
    | _ => none

/-- Along EVERY character stream (any mixture of commands with any parameter lists, loops, text), with any number of
loop steps taken between the characters: as long as the model run continues, the executor invariant holds, and so the
exposed picture is a complete width x height image. -/
theorem igs_stream_picture_complete (k : Nat) (cs : List Nat) : ∀ (s s' : IgsCanvas.St), IgsPaint.Good s.paint →
    igsCanvasRun k s cs = some s' →
    ∃ d, IgsPaint.pictureData s'.paint = some d ∧ d.length = (IgsPaint.resW s'.paint * IgsPaint.resH s'.paint).toNat * 4 := by
  induction cs with
  | nil =>
    intro s s' hg h
    simp [igsCanvasRun] at h
    subst h
    exact igs_picture_complete _ hg
  | cons ch rest ih =>
    intro s s' hg h
    unfold igsCanvasRun at h
    split at h
    · rename_i s1 o1 h1
      split at h
      · rename_i s2 o2 h2
        exact ih s2 s' (IgsCanvas.drain_good _ _ _ _ (IgsCanvas.step_good hg h1) h2) h
      · cases h
    · cases h

/-- non-vacuity: "G#C>2,5:" sets the fill colour to pen 5; "G#C>2,40:" is rejected -/
example : ((igsCanvasRun 24 IgsCanvas.St.init ("G#C>2,5:".toList.map Char.toNat)).map fun s => s.paint.fillColor) = some 5 := by
  decide +kernel
example : ((igsCanvasRun 24 IgsCanvas.St.init ("G#C>2,40:".toList.map Char.toNat)).map fun s => s.paint.fillColor) = some 0 := by
  decide +kernel

-- ================================================================================================ set_pixel, fill_rect
/-- `set_pixel` for all coordinates within ±2^20 (every value of the property's quantifier, -50..=99999, and everything
the loop arithmetic makes of it): no i32 overflow in `y * width + x`, no index out of range; only that cell changes
hands and the screen keeps its length. -/
theorem igs_set_pixel_total (p : IgsPaint.Paint) (hr : p.res < 3) (x y : Int) (c : Nat) (hc : c < 16)
    (hx : -1048576 ≤ x ∧ x ≤ 1048576) (hy : -1048576 ≤ y ∧ y ≤ 1048576) :
    ∃ p', IgsPaint.setPixel p x y c = .ok p' ∧ p'.screen.size = p.screen.size := by
  obtain ⟨p', h⟩ := IgsPaint.setPixel_total p hr x y c hx hy
  exact ⟨p', h, (IgsPaint.setPixel_keeps hc h).1.2⟩

/-- `fill_rect` for ALL corner coordinates (also i32 extremes): it returns — no overflow, no index out of range — and
visits at most width x height cells: the rectangle is clipped to the screen before the loops start. -/
theorem igs_fill_rect_total (p : IgsPaint.Paint) (hg : IgsPaint.Good p) (hpat : p.fillPattern.length ≠ 0) (x0 y0 x1 y1 : Int) :
    (∃ p', IgsPaint.fillRect p x0 y0 x1 y1 = .ok p' ∧ IgsPaint.Good p') ∧
      IgsPaint.fillRectCost p x0 y0 x1 y1 ≤ (IgsPaint.resH p).toNat * (IgsPaint.resW p).toNat := by
  obtain ⟨p', h⟩ := IgsPaint.fillRect_total p hg.res hpat hg.fill x0 y0 x1 y1
  exact ⟨⟨p', h, hg.of_keeps (IgsPaint.fillRect_keeps hg.fill h)⟩, IgsPaint.fillRectCost_le p x0 y0 x1 y1⟩

example : IgsPaint.Paint.new.fillPattern.length ≠ 0 := by decide

end IcyVerif.C20

namespace IcyVerif.C20
open IcyVerif

/-- what the correspondence driver hashes — a fold over the screen that never builds the byte list — IS the fold over
the bytes of `pictureData` (RIP and IGS): the printed length and hash are those of the modelled picture -/
theorem picture_fold_eq {β : Type} (f : β → Nat → β) (init : β) :
    (∀ s : Bgi.Bgi, Bgi.picFold f init s = (Bgi.pictureData s).foldl f init) ∧
    (∀ p : IgsPaint.Paint, IgsPaint.picFold f init p = (IgsPaint.pictureData p).map fun d => d.foldl f init) :=
  ⟨fun s => Bgi.picFold_eq f init s, fun p => IgsPaint.picFold_eq f init p⟩

end IcyVerif.C20

namespace IcyVerif.C20
open IcyVerif

-- ================================================================================================ draw_line, poly-lines
/-- FULL statement wanted: `draw_line` returns for all end points with a cost bounded by the canvas size.  The code that
exists does not clip a line to the screen: it walks every point of the line.  Proved: for end points within ±2^20
(every value of the property's parameter range and everything the loop arithmetic makes of it) `draw_line` returns —
no i32 overflow (`-3*dy <= 2*err <= 3*dx` along the walk), no index out of range, and the Bresenham loop ENDS: the fuel
`|x0 - x1| + |y0 - y1| + 1` the model starts it with is never used up (no x step once x has arrived, no y step once y
has arrived, at least one step per iteration) — and the executor invariant is kept.  Missing for the full statement: a
bound independent of the coordinates (the cost is linear in the coordinate distance: at most 200 099 iterations for the
property's parameter range -50..=99999, about three times the 64000 cells of the low-resolution canvas). -/
theorem igs_draw_line_terminates_partial (p : IgsPaint.Paint) (hg : IgsPaint.Good p) (x0 y0 x1 y1 : Int) (color mask : Nat) (hc : color < 16)
    (hx0 : IgsPaint.Bd x0) (hy0 : IgsPaint.Bd y0) (hx1 : IgsPaint.Bd x1) (hy1 : IgsPaint.Bd y1) :
    ∃ p', IgsPaint.drawLine p x0 y0 x1 y1 color mask = .ok p' ∧ IgsPaint.Good p' := by
  obtain ⟨p', h⟩ := IgsPaint.drawLine_total p hg.res x0 y0 x1 y1 color mask hx0 hy0 hx1 hy1
  exact ⟨p', h, hg.of_keeps (IgsPaint.drawLine_keeps hc h)⟩

example : ∃ p', IgsPaint.drawLine IgsPaint.Paint.new 0 0 99999 (-50) 3 0 = .ok p' ∧ IgsPaint.Good p' :=
  igs_draw_line_terminates_partial _ IgsCanvas.paint_new_good 0 0 99999 (-50) 3 0 (by decide)
    (by unfold IgsPaint.Bd; omega) (by unfold IgsPaint.Bd; omega) (by unfold IgsPaint.Bd; omega) (by unfold IgsPaint.Bd; omega)

/-- The coordinate list a validated PolyLine / PolyFill command hands on (`points * 2` coordinates, `points >= 1`, see
`igs_poly_validation`) is drawn by `draw_polyline` and by `draw_poly` (the polygon border) without any index panic —
`parameters[i + 1]` exists for every segment — without overflow, and every segment ends (coordinates within ±2^20). -/
theorem igs_poly_lines_total (p : IgsPaint.Paint) (hg : IgsPaint.Good p) (points : Nat) (hp : 1 ≤ points) (cs : List Int)
    (hl : cs.length = 2 * points) (hb : ∀ v, v ∈ cs → IgsPaint.Bd v) :
    (∃ p', IgsPaint.drawPolyline p cs = .ok p' ∧ IgsPaint.Good p') ∧ (∃ p', IgsPaint.drawPoly p cs = .ok p' ∧ IgsPaint.Good p') := by
  have hl' : cs.length = 2 * (points - 1) + 2 := by omega
  obtain ⟨p1, h1⟩ := IgsPaint.drawPolyline_total p hg.res hg.fill (points - 1) cs hl' hb
  obtain ⟨p2, h2⟩ := IgsPaint.drawPoly_total p hg.res hg.fill (points - 1) cs hl' hb
  exact ⟨⟨p1, h1, hg.of_keeps (IgsPaint.drawPolyline_keeps hg.fill h1)⟩, ⟨p2, h2, hg.of_keeps (IgsPaint.drawPoly_keeps hg.fill h2)⟩⟩

example : ∃ p', IgsPaint.drawPoly IgsPaint.Paint.new [5, 5] = .ok p' ∧ IgsPaint.Good p' :=
  (igs_poly_lines_total _ IgsCanvas.paint_new_good 1 (by decide) [5, 5] rfl
    (by intro v hv; simp at hv; unfold IgsPaint.Bd; omega)).2

end IcyVerif.C20

namespace IcyVerif.C20
open IcyVerif

-- ================================================================================================ flood fill, blits
/-- IGS `flood_fill` for EVERY seed (all of ℤ × ℤ) in every state satisfying the invariant: it returns — no overflow,
no index out of range — and its stack loop ENDS within `4 * width * height + 2` pops (the fuel of the model is never
used up: 4 x the cells still holding the old colour + the stack size drops with every pop): a bound by the canvas
size alone.  The invariant is kept. -/
theorem igs_flood_fill_terminates (p : IgsPaint.Paint) (hg : IgsPaint.Good p) (x0 y0 : Int) :
    ∃ p', IgsPaint.floodFill p x0 y0 = .ok p' ∧ IgsPaint.Good p' := by
  obtain ⟨p', h⟩ := IgsPaint.floodFill_total p hg.res hg.size x0 y0
  exact ⟨p', h, hg.of_keeps (IgsPaint.floodFill_keeps hg.fill h)⟩

example : ∃ p', IgsPaint.floodFill { IgsPaint.Paint.new with fillColor := 5 } 10 10 = .ok p' ∧ IgsPaint.Good p' :=
  igs_flood_fill_terminates _ (IgsCanvas.paint_new_good.setFill 5 (by omega)) 10 10

/-- `blit_screen_to_screen` (GrabScreen mode 0) for corner coordinates within ±2^20: it returns — no overflow, no
index out of range — copies at most width x height cells (the source rectangle is clipped to the resolution), and keeps
the invariant. -/
theorem igs_blit_screen_total (p : IgsPaint.Paint) (hg : IgsPaint.Good p) (fx fy tx ty dx dy : Int)
    (hfx : IgsPaint.Bd fx) (hfy : IgsPaint.Bd fy) (htx : IgsPaint.Bd tx) (hty : IgsPaint.Bd ty) (hdx : IgsPaint.Bd dx) (hdy : IgsPaint.Bd dy) :
    (∃ p', IgsPaint.blitScreenToScreen p fx fy tx ty dx dy = .ok p' ∧ IgsPaint.Good p') ∧
      IgsPaint.blitCost p fx fy tx ty ≤ (IgsPaint.resW p).toNat * (IgsPaint.resH p).toNat := by
  obtain ⟨p', h⟩ := IgsPaint.blitScreenToScreen_total p hg.res fx fy tx ty dx dy hfx hfy htx hty hdx hdy
  exact ⟨⟨p', h, hg.of_keeps (IgsPaint.blitScreenToScreen_keeps h)⟩, IgsPaint.blitCost_le p fx fy tx ty⟩

end IcyVerif.C20
