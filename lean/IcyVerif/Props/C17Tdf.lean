import IcyVerif.Lemmas.TdfIff
/-! # C17 — TheDraw fonts: the round-trip domain is EXACT, all three font types, the glyph presence table

`Props/C17.lean: tdf_rt / tdf_bundle_rt` prove the round trip on `WfTdf` for every font type (`ftype` 0 outline, 1 block,
2 colour) and every bundle size.  Here: the converse (outside `WfTdf` the font does NOT come back), one theorem per font
type so that the statement per type is visible, the presence table `has_char` for every character code, and kernel-checked
witnesses for every clause of `WfTdf`. -/
namespace IcyVerif.C17
open IcyVerif.Font IcyVerif.Tdf IcyVerif.Uni

/-- **the domain is exact**: for every font whose name is a Rust `String` (valid UTF-8 — a typing fact, not a restriction),
    `from_tdf_bytes(as_tdf_bytes(f)) = [f]` **iff** `WfTdf f`: name ≤ 12 bytes without NUL, type 0..2, spacing 0..=40, 94
    table entries, glyph sizes 0..=255, outline/block data without 0 bytes, colour data made of CRs and (char ≠ 0, attribute)
    pairs, at most 65535 bytes of glyph data.  Every clause is necessary. -/
theorem tdf_rt_iff (f : TdfFont) (hv : validUtf8 f.name = true) :
    (∃ bytes, asTdf f = .ok bytes ∧ fromTdf bytes = .ok [f]) ↔ WfTdf f := by
  constructor
  · rintro ⟨bytes, h1, h2⟩
    exact tdf_only_if f hv bytes h1 h2
  · intro wf
    refine ⟨fileHeader ++ fontBytes f, ?_, ?_⟩
    · unfold asTdf; rw [addFontData_eq f wf]
    · have := fromTdf_bundle [f] (by simp) (by simpa using wf) [] (Or.inl rfl)
      simpa [bundleBytes] using this

/-- the decidable domain per font type: what `WfTdf` asks of the glyph data -/
def DataOk (ftype : Nat) (d : List Nat) : Prop :=
  if ftype = 2 then colorWfB d = true else ∀ b ∈ d, b ≠ 0

/-- `WfTdf` spelled out (so that the three font types can be read off) -/
theorem wfTdf_iff (f : TdfFont) :
    WfTdf f ↔ (f.name.length ≤ 12 ∧ validUtf8 f.name = true ∧ (∀ b ∈ f.name, b ≠ 0) ∧ f.ftype ≤ 2 ∧ 0 ≤ f.spaces ∧ f.spaces ≤ 40 ∧
      f.table.length = 94 ∧ (∀ g, some g ∈ f.table → 0 ≤ g.w ∧ g.w ≤ 255 ∧ 0 ≤ g.h ∧ g.h ≤ 255 ∧ DataOk f.ftype g.data) ∧
      (encData f.table).length ≤ 0xFFFF) := by
  unfold WfTdf wfTdfB
  simp only [Bool.and_eq_true, decide_eq_true_eq, List.all_eq_true, encLoop_eq, List.nil_append]
  constructor
  · rintro ⟨⟨⟨⟨⟨⟨⟨⟨h1, h2⟩, h3⟩, h4⟩, h5⟩, h6⟩, h7⟩, h8⟩, h9⟩
    refine ⟨h1, h2, fun b hb => by simpa using h3 b hb, h4, h5, h6, h7, ?_, h9⟩
    intro g hg
    have := h8 (some g) hg
    simp only [glyphWfB, Bool.and_eq_true, decide_eq_true_eq] at this
    obtain ⟨⟨⟨⟨a, b⟩, c⟩, d⟩, e⟩ := this
    refine ⟨a, b, c, d, ?_⟩
    unfold DataOk
    by_cases ht : f.ftype = 2
    · simpa [ht] using e
    · have : (f.ftype == 2) = false := by simp [ht]
      rw [this] at e
      simpa [ht] using e
  · rintro ⟨h1, h2, h3, h4, h5, h6, h7, h8, h9⟩
    refine ⟨⟨⟨⟨⟨⟨⟨⟨h1, h2⟩, fun b hb => by simpa using h3 b hb⟩, h4⟩, h5⟩, h6⟩, h7⟩, ?_⟩, h9⟩
    intro g hg
    cases g with
    | none => rfl
    | some g =>
      obtain ⟨a, b, c, d, e⟩ := h8 g hg
      simp only [glyphWfB, Bool.and_eq_true, decide_eq_true_eq]
      refine ⟨⟨⟨⟨a, b⟩, c⟩, d⟩, ?_⟩
      unfold DataOk at e
      by_cases ht : f.ftype = 2
      · simpa [ht] using e
      · have : (f.ftype == 2) = false := by simp [ht]
        rw [this]
        simpa [ht] using e

/-- **outline fonts** (type 0) and **block fonts** (type 1): glyph data is any byte string without a 0 byte — letters
    `A`..`R`, `@`, `O`, `&`, blanks for outline fonts, any CP437 character incl. 0xFF and 0x0D for block fonts; the reader
    copies it verbatim -/
theorem tdf_plain_rt (f : TdfFont) (hty : f.ftype = 0 ∨ f.ftype = 1) (hn : f.name.length ≤ 12) (hv : validUtf8 f.name = true)
    (hnul : ∀ b ∈ f.name, b ≠ 0) (hs0 : 0 ≤ f.spaces) (hs : f.spaces ≤ 40) (ht : f.table.length = 94)
    (hg : ∀ g, some g ∈ f.table → 0 ≤ g.w ∧ g.w ≤ 255 ∧ 0 ≤ g.h ∧ g.h ≤ 255 ∧ ∀ b ∈ g.data, b ≠ 0)
    (hsz : (encData f.table).length ≤ 0xFFFF) :
    ∃ bytes, asTdf f = .ok bytes ∧ fromTdf bytes = .ok [f] := by
  apply (tdf_rt_iff f hv).mpr
  rw [wfTdf_iff]
  refine ⟨hn, hv, hnul, by omega, hs0, hs, ht, ?_, hsz⟩
  intro g hgm
  obtain ⟨a, b, c, d, e⟩ := hg g hgm
  refine ⟨a, b, c, d, ?_⟩
  unfold DataOk
  rw [if_neg (by omega)]
  exact e

/-- **colour fonts** (type 2): glyph data is a sequence of CR bytes and (character ≠ 0, attribute) pairs — the attribute may
    be any byte incl. 0 and 13 -/
theorem tdf_color_rt (f : TdfFont) (hty : f.ftype = 2) (hn : f.name.length ≤ 12) (hv : validUtf8 f.name = true)
    (hnul : ∀ b ∈ f.name, b ≠ 0) (hs0 : 0 ≤ f.spaces) (hs : f.spaces ≤ 40) (ht : f.table.length = 94)
    (hg : ∀ g, some g ∈ f.table → 0 ≤ g.w ∧ g.w ≤ 255 ∧ 0 ≤ g.h ∧ g.h ≤ 255 ∧ colorWfB g.data = true)
    (hsz : (encData f.table).length ≤ 0xFFFF) :
    ∃ bytes, asTdf f = .ok bytes ∧ fromTdf bytes = .ok [f] := by
  apply (tdf_rt_iff f hv).mpr
  rw [wfTdf_iff]
  refine ⟨hn, hv, hnul, by omega, hs0, hs, ht, ?_, hsz⟩
  intro g hgm
  obtain ⟨a, b, c, d, e⟩ := hg g hgm
  refine ⟨a, b, c, d, ?_⟩
  unfold DataOk
  rw [if_pos hty]
  exact e

/-! ### the glyph presence table -/

/-- **`has_char` for every character code** of a font with the 94-entry table every constructor and the reader make:
    codes 33..=126 answer from the table, everything below 33 and above 127 is absent, and code 127 PANICS (the guard
    `char_offset > len` is off by one) -/
theorem has_char_table (f : TdfFont) (ht : f.table.length = 94) (code : Nat) (hc : code < 256) :
    hasChar f code =
      (if code < 33 then .ok false
       else if code ≤ 126 then .ok ((f.table.getD (code - 33) none).isSome)
       else if code = 127 then .panic else .ok false) := by
  unfold hasChar
  simp only [ht]
  by_cases h1 : code < 33
  · rw [if_pos (by omega), if_pos h1]
  · rw [if_neg h1]
    by_cases h2 : code ≤ 126
    · rw [if_neg (by omega), if_pos h2]
      have e : ((code : Int) - 32 - 1).toNat = code - 33 := by omega
      rw [e]
      have hlt : code - 33 < f.table.length := by omega
      rw [List.getElem?_eq_getElem hlt, List.getD_eq_getElem?_getD, List.getElem?_eq_getElem hlt]
      rfl
    · rw [if_neg h2]
      by_cases h3 : code = 127
      · subst h3
        rw [if_neg (by omega), if_pos rfl]
        have e : (((127 : Nat) : Int) - 32 - 1).toNat = 94 := by omega
        rw [e, List.getElem?_eq_none (by omega)]
      · rw [if_pos (by omega), if_neg h3]

/-- the presence table survives the round trip: after `from_tdf_bytes(as_tdf_bytes(f))`, `has_char` answers for every code
    what it answered before (a corollary of `tdf_rt`; stated because `has_char` is how the engine asks) -/
theorem tdf_presence_rt (f : TdfFont) (wf : WfTdf f) :
    ∃ bytes g, asTdf f = .ok bytes ∧ fromTdf bytes = .ok [g] ∧ ∀ code, hasChar g code = hasChar f code ∧
      fontHeight g = fontHeight f := by
  obtain ⟨bytes, h1, h2⟩ := (tdf_rt_iff f (wf_facts f wf).nameValid).mpr wf
  exact ⟨bytes, f, h1, h2, fun _ => ⟨rfl, rfl⟩⟩

/-! ### witnesses: every clause of `WfTdf` is necessary (kernel-checked executions of writer and reader) -/
set_option maxRecDepth 100000

def baseTable : List (Option TGlyph) := [some { w := 2, h := 1, data := [65, 66] }] ++ List.replicate 93 none
def rtB (f : TdfFont) : Bool :=
  match asTdf f with
  | .ok b => decide (fromTdf b = .ok [f])
  | _ => false

/-- one font per violated clause, none of them comes back; the same font with the clause repaired does -/
theorem tdf_outside_witnesses :
    rtB { name := [70], ftype := 1, spaces := 1, table := baseTable } = true ∧
    -- 13-byte name: refused by the writer
    rtB { name := List.replicate 13 70, ftype := 1, spaces := 1, table := baseTable } = false ∧
    -- NUL in the name: the reader stops at it
    rtB { name := [70, 0, 71], ftype := 1, spaces := 1, table := baseTable } = false ∧
    -- letter spacing 41 (writer refuses) and -1 (written as 255, reader refuses)
    rtB { name := [70], ftype := 1, spaces := 41, table := baseTable } = false ∧
    rtB { name := [70], ftype := 1, spaces := -1, table := baseTable } = false ∧
    -- a glyph 256 wide: written as 0
    rtB { name := [70], ftype := 1, spaces := 1, table := [some { w := 256, h := 1, data := [65] }] ++ List.replicate 93 none } = false ∧
    -- a 0 byte in block data: the reader stops at it
    rtB { name := [70], ftype := 1, spaces := 1, table := [some { w := 3, h := 1, data := [65, 0, 66] }] ++ List.replicate 93 none } = false ∧
    -- colour data with a character that has no attribute byte: the terminator is taken as attribute
    rtB { name := [70], ftype := 2, spaces := 1, table := [some { w := 2, h := 1, data := [65, 7, 66] }] ++ List.replicate 93 none } = false ∧
    rtB { name := [70], ftype := 2, spaces := 1, table := [some { w := 2, h := 1, data := [65, 7, 66, 0] }] ++ List.replicate 93 none } = true ∧
    -- 93 table entries: the reader always makes 94
    rtB { name := [70], ftype := 1, spaces := 1, table := List.replicate 93 none } = false := by
  decide +kernel

example : hasChar { name := [70], ftype := 1, spaces := 1, table := baseTable } 33 = .ok true ∧
    hasChar { name := [70], ftype := 1, spaces := 1, table := baseTable } 34 = .ok false ∧
    hasChar { name := [70], ftype := 1, spaces := 1, table := baseTable } 127 = .panic ∧
    hasChar { name := [70], ftype := 1, spaces := 1, table := baseTable } 128 = .ok false := by decide +kernel
example : WfTdf { name := [70], ftype := 0, spaces := 0, table := baseTable } := by unfold WfTdf; decide +kernel

end IcyVerif.C17
