import IcyVerif.Lemmas.XbCompressImage
set_option linter.unusedSimpArgs false
set_option linter.unusedVariables false
/-!
# C06 — XBin compression is transparent and conforms to the XBin specification

Property (properties.jsonl): for every buffer, the compressed and the uncompressed XBin encodings decode to
identical pictures, including the font page of every cell in 512-character mode; every compressed stream the
writer emits is valid for an independent decoder built from the XBin specification: each run covers 1 to 64
cells, runs never cross a row boundary, every row decodes to exactly the image width, and nothing but the
optional SAUCE record follows the last row.

Model: `Model/XbCompress.lean` (`compress_backtrack` incl. `count_length`, `encode_attr`, the spec decoder
`parseRun/parseRow/parseImage/expand`).  The model follows the tree AFTER the commit
`fix: XBin compressor must end a Full run when the font page changes`; on the pinned tree the property is
false (see `pinned_tree_violates` below for the witness).

All statements are at full strength (every attribute encoding, every row of every width, every image, any
trailing bytes): no `_partial` theorem.
-/
namespace IcyVerif.C06
open IcyVerif.XbCompress IcyVerif.Gen

/-! ## the generic lemma and its instance -/

/-- For ANY end-of-run decision function that fires whenever the forced conditions hold, the emitted stream decodes
    (with the specification decoder) to the row, every run has 1..=64 cells, and the stream ends at the row end:
    the decoder consumes exactly the emitted bytes and leaves any following bytes `tl` untouched. -/
theorem run_builder_sound (enc : Attr → Nat) (dec : Decision) (hd : Forced enc dec) (row : List Cell)
    (tl : List Nat) :
    ∃ runs : List Run,
      parseRow row.length row.length (compressRowWith enc dec row ++ tl) = some (runs, tl) ∧
      expand runs = row.map (encCell enc) ∧ (∀ r ∈ runs, 1 ≤ r.len ∧ r.len ≤ 64) :=
  run_builder_decodes enc dec hd row tl

/-- `compress_backtrack`'s own heuristic (look-ahead included) is such a decision function. -/
theorem real_heuristic_forced (enc : Attr → Nat) : Forced enc realEndRun := realEndRun_forced enc

/-- non-vacuity of `Forced`: a second, very different decision function (close every run at once) -/
example (enc : Attr → Nat) : Forced enc (fun _ _ _ _ _ => true) := by
  intro _ _ _ _ _ _ _ _; rfl

/-- **Transparency, one row.**  For every attribute encoding and every row of every width, the bytes the writer
    emits for the row decode to exactly the row's (character, attribute byte) pairs; every run covers 1..=64
    cells; no run crosses the row end; decoding stops exactly where the row's bytes stop. -/
theorem compress_transparent (enc : Attr → Nat) (row : List Cell) (tl : List Nat) :
    ∃ runs : List Run,
      parseRow row.length row.length (compressRow enc row ++ tl) = some (runs, tl) ∧
      expand runs = row.map (encCell enc) ∧ (∀ r ∈ runs, 1 ≤ r.len ∧ r.len ≤ 64) :=
  run_builder_decodes enc realEndRun (realEndRun_forced enc) row tl

/-! ## whole images -/

/-- **Conformance, whole image.**  For every image (rows of one width `w`), the compressed image data parses, row by
    row, with the specification decoder: every row decodes to exactly `w` cells which are the row's cells, every
    run covers 1..=64 cells, and the image data ends exactly with the last row — whatever follows (`tl`: nothing,
    or the SAUCE record) is not touched. -/
theorem compress_image_conforms (enc : Attr → Nat) (w : Nat) (rows : List (List Cell))
    (hw : ∀ row ∈ rows, row.length = w) (tl : List Nat) :
    ∃ rr : List (List Run),
      parseImage w rows.length (rows.flatMap (compressRow enc) ++ tl) = some (rr, tl) ∧
      rr.map expand = rows.map (fun row => row.map (encCell enc)) ∧
      (∀ rs ∈ rr, (expand rs).length = w) ∧
      (∀ rs ∈ rr, ∀ r ∈ rs, 1 ≤ r.len ∧ r.len ≤ 64) := by
  obtain ⟨rr, h1, h2, h3⟩ := rows_as_runs enc rows
  have hlen : rr.length = rows.length := by
    have := congrArg List.length h3; simpa using this
  have hwid : ∀ rs ∈ rr, (expand rs).length = w := by
    intro rs hrs
    have : expand rs ∈ rows.map (fun row => row.map (encCell enc)) := by
      rw [← h3]; exact List.mem_map.mpr ⟨rs, hrs, rfl⟩
    obtain ⟨row, hrow, he⟩ := List.mem_map.mp this
    rw [← he]; simp [hw row hrow]
  refine ⟨rr, ?_, h3, hwid, fun rs hrs r hr => ⟨r.len_pos, r.ok_len (h2 rs hrs r hr)⟩⟩
  rw [h1, ← hlen]
  exact parseImage_rows w rr h2 hwid tl

/-- the uncompressed image data is the plain sequence of the cells' pairs -/
theorem raw_image_decodes (enc : Attr → Nat) (rows : List (List Cell)) (tl : List Nat) :
    parseRaw rows.flatten.length (rows.flatMap (rawRow enc) ++ tl) = some (rows.flatten.map (encCell enc), tl) := by
  rw [raw_flat]
  exact takePairs_raw enc rows.flatten tl

/-- **Compressed = uncompressed.**  Whenever `XBin::to_bytes` succeeds (ice mode, fonts and cells arbitrary), the
    compressed image data — read by the specification decoder — and the uncompressed image data denote the same
    sequence of (character, attribute byte) pairs, and both are followed by the same tail.  Any loader that maps
    pairs to cells position by position (as `decode_char` does) therefore produces identical pictures. -/
theorem compressed_eq_uncompressed (im : IceMode) (w : Nat) (rows : List (List Cell))
    (hw : ∀ row ∈ rows, row.length = w) (c u tl : List Nat)
    (hc : imageData im true rows = some c) (hu : imageData im false rows = some u) :
    ∃ rr : List (List Run),
      parseImage w rows.length (c ++ tl) = some (rr, tl) ∧
      parseRaw rows.flatten.length (u ++ tl) = some (rr.flatMap expand, tl) ∧
      (∀ rs ∈ rr, (expand rs).length = w) ∧ (∀ rs ∈ rr, ∀ r ∈ rs, 1 ≤ r.len ∧ r.len ≤ 64) := by
  unfold imageData at hc hu
  by_cases hf : (analyzeFontUsage rows.flatten).length > 2
  · simp [hf] at hc
  · by_cases h8 : fits8 rows = true
    · simp only [hf, h8, if_false, Bool.not_true, Bool.false_eq_true, if_true, Option.some.injEq] at hc hu
      subst hc; subst hu
      obtain ⟨rr, p1, p2, p3, p4⟩ := compress_image_conforms (encodeAttr im (analyzeFontUsage rows.flatten)) w rows hw tl
      refine ⟨rr, p1, ?_, p3, p4⟩
      have hraw := raw_image_decodes (encodeAttr im (analyzeFontUsage rows.flatten)) rows tl
      have hflat : rr.flatMap expand = rows.flatten.map (encCell (encodeAttr im (analyzeFontUsage rows.flatten))) := by
        have := congrArg List.flatten p2
        simpa [List.flatMap_def, List.map_flatten] using this
      rw [hflat]; exact hraw
    · simp [hf, h8] at hc

/-- both save paths refuse the same buffers (a character above 255, more than two fonts) -/
theorem refusal_agrees (im : IceMode) (rows : List (List Cell)) :
    imageData im true rows = none ↔ imageData im false rows = none := by
  unfold imageData
  by_cases hf : (analyzeFontUsage rows.flatten).length > 2
  · simp [hf]
  · by_cases h8 : fits8 rows = true <;> simp [hf, h8]

/-! ## the font page in 512-character mode -/

/-- with two fonts `[p0, p1]` in use, bit 3 of the stored attribute byte is exactly "the cell uses `p1`" -/
theorem font_page_in_attribute_byte (im : IceMode) (p0 p1 : Nat) (a : Attr) :
    (encodeAttr im [p0, p1] a).testBit 3 = decide (a.page = p1) := by
  have h247 : Nat.testBit 247 3 = false := by decide
  have h8 : Nat.testBit 8 3 = true := by decide
  have hkeep : Xb.encKeepMask = 247 := by decide
  have hbit : Xb.encPageBit = 8 := by decide
  unfold encodeAttr
  simp only [List.length_cons, List.length_nil, if_true, List.getD_cons_succ, List.getD_cons_zero, hkeep, hbit,
    Nat.testBit_or, Nat.testBit_and, h247, Bool.and_false, Bool.false_or]
  by_cases h : a.page = p1 <;> simp [h, h8]

/-- hence two cells on different font pages never share their stored attribute byte (the pinned tree merged
    them into one run) -/
theorem distinct_pages_distinct_bytes (im : IceMode) (p0 p1 : Nat) (a b : Attr)
    (ha : a.page ≠ p1) (hb : b.page = p1) : encodeAttr im [p0, p1] a ≠ encodeAttr im [p0, p1] b := by
  intro h
  have h1 := font_page_in_attribute_byte im p0 p1 a
  have h2 := font_page_in_attribute_byte im p0 p1 b
  rw [h] at h1
  rw [h1] at h2
  simp [ha, hb] at h2

/-- **Font pages survive compression.**  In 512-character mode (`analyze_font_usage = [p0, p1]`) the pair decoded
    from the compressed data for cell number `i` carries the cell's font page in attribute bit 3. -/
theorem font_page_preserved (im : IceMode) (w : Nat) (rows : List (List Cell)) (hw : ∀ row ∈ rows, row.length = w)
    (p0 p1 : Nat) (hfonts : analyzeFontUsage rows.flatten = [p0, p1]) (c tl : List Nat)
    (hc : imageData im true rows = some c) :
    ∃ rr : List (List Run), parseImage w rows.length (c ++ tl) = some (rr, tl) ∧
      (rr.flatMap expand).length = rows.flatten.length ∧
      ∀ i (hi : i < rows.flatten.length) (hj : i < (rr.flatMap expand).length),
        ((rr.flatMap expand)[i]).1 = (rows.flatten[i]).ch ∧
        ((rr.flatMap expand)[i]).2.testBit 3 = decide ((rows.flatten[i]).attr.page = p1) := by
  unfold imageData at hc
  rw [hfonts] at hc
  by_cases h8 : fits8 rows = true
  · simp [h8] at hc
    subst hc
    obtain ⟨rr, p1', p2, p3, p4⟩ := compress_image_conforms (encodeAttr im [p0, p1]) w rows hw tl
    have hflat : rr.flatMap expand = rows.flatten.map (encCell (encodeAttr im [p0, p1])) := by
      have := congrArg List.flatten p2
      simpa [List.flatMap_def, List.map_flatten] using this
    refine ⟨rr, p1', by rw [hflat, List.length_map], ?_⟩
    intro i hi hj
    simp only [hflat, List.getElem_map, encCell, true_and]
    exact font_page_in_attribute_byte im p0 p1 _
  · simp [h8] at hc

/-! ## through the crate's own loader -/

/-- **Identical pictures, real loader.**  Whenever the save succeeds, the model of `read_data_compressed` on the
    compressed image data does not fail and hands `decode_char` exactly the pair sequence that
    `read_data_uncompressed` hands it on the uncompressed image data — the cells of the buffer, row-major. -/
theorem loader_reads_same_pairs (im : IceMode) (rows : List (List Cell)) (c u : List Nat)
    (hc : imageData im true rows = some c) (hu : imageData im false rows = some u) :
    readCompressed c = some (readUncompressed u) ∧
    readUncompressed u = rows.flatten.map (encCell (encodeAttr im (analyzeFontUsage rows.flatten))) := by
  unfold imageData at hc hu
  by_cases hf : (analyzeFontUsage rows.flatten).length > 2
  · simp [hf] at hc
  · by_cases h8 : fits8 rows = true
    · simp only [hf, h8, if_false, Bool.not_true, Bool.false_eq_true, if_true, Option.some.injEq] at hc hu
      subst hc; subst hu
      obtain ⟨rr, h1, h2, h3⟩ := rows_as_runs (encodeAttr im (analyzeFontUsage rows.flatten)) rows
      have hraw := raw_flat (encodeAttr im (analyzeFontUsage rows.flatten)) rows
      have hu' := readUncompressed_raw (encodeAttr im (analyzeFontUsage rows.flatten)) rows.flatten
      rw [hraw, hu']
      refine ⟨?_, rfl⟩
      have hflat : rr.flatMap (fun rs => rs.flatMap Run.ser) = rr.flatten.flatMap Run.ser :=
        flatMap_flatMap_eq Run.ser rr
      have hexp : expand rr.flatten = rows.flatten.map (encCell (encodeAttr im (analyzeFontUsage rows.flatten))) := by
        rw [expand_rows rr _ h3, List.map_flatten]
      rw [h1, hflat, readCompressed_sers rr.flatten (by
        intro r hr
        obtain ⟨rs, hrs, hr'⟩ := List.mem_flatten.mp hr
        exact h2 rs hrs r hr'), hexp]
    · simp [hf, h8] at hc

/-- … so both files load to the same cells, whatever the header's ice / 512-character flags are. -/
theorem loaded_pictures_identical (im : IceMode) (rows : List (List Cell)) (c u : List Nat)
    (hc : imageData im true rows = some c) (hu : imageData im false rows = some u) (ice ext : Bool) :
    (readCompressed c).map (fun ps => ps.map (decodeChar ice ext)) =
      some ((readUncompressed u).map (decodeChar ice ext)) := by
  rw [(loader_reads_same_pairs im rows c u hc hu).1]; rfl

/-- **What the loader makes of the font page in 512-character mode**: a cell saved from page `p1` (the larger
    of the two pages in use) is loaded on page 1, a cell saved from the other page on page 0 — distinct pages stay
    distinct; the slot NUMBERS are not kept (C05's business). -/
theorem loaded_font_page (im : IceMode) (p0 p1 : Nat) (cell : Cell) (ice : Bool) :
    (decodeChar ice true (encCell (encodeAttr im [p0, p1]) cell)).attr.page = if cell.attr.page = p1 then 1 else 0 := by
  unfold encCell
  rw [decodeChar_page _ (encodeAttr_lt im p0 p1 cell.attr) ice, font_page_in_attribute_byte]
  by_cases h : cell.attr.page = p1 <;> simp [h]

/-! ## non-vacuity: concrete buffers, and the pinned tree's defect -/

def cA0 : Cell := ⟨0x41, ⟨7, 0, 0, 0⟩⟩
def cA1 : Cell := ⟨0x41, ⟨7, 0, 0, 1⟩⟩
def cB0 : Cell := ⟨0x42, ⟨7, 0, 0, 0⟩⟩
def cAx : Cell := ⟨0x41, ⟨15, 1, 0, 0⟩⟩

/-- the witness row of the defect, after the fix: two runs, the second cell keeps page 1 (attribute 0x0F) -/
example : imageData .blink true [[cA0, cA1]] = some [0xC0, 0x41, 0x07, 0x00, 0x41, 0x0F] := by decide
example : imageData .blink false [[cA0, cA1]] = some [0x41, 0x07, 0x41, 0x0F] := by decide
example : parseImage 2 1 [0xC0, 0x41, 0x07, 0x00, 0x41, 0x0F] =
    some ([[⟨.full, (0x41, 0x07), []⟩, ⟨.off, (0x41, 0x0F), []⟩]], []) := by decide
/-- all four run types occur, and rows are compressed independently -/
example : imageData .blink true [[cA0, cA0, cA0, cB0, cAx], [cA0, cB0, cA0, cAx, cA0]] =
    some [0xC2, 0x41, 0x07, 0x01, 0x42, 0x07, 0x41, 0x1F,
          0x82, 0x07, 0x41, 0x42, 0x41, 0x41, 0x41, 0x1F, 0x07] := by decide
/-- a row of 130 equal cells: runs of 64, 64 and 2 -/
example : compressRow (encodeAttr .blink [0]) (List.replicate 130 cA0) =
    [0xFF, 0x41, 0x07, 0xFF, 0x41, 0x07, 0xC1, 0x41, 0x07] := by decide +kernel
/-- the hypotheses of `compressed_eq_uncompressed` / `font_page_preserved` are satisfiable -/
example : analyzeFontUsage [[cA0, cA1], [cA1, cB0]].flatten = [0, 1] := by decide
example : ∀ row ∈ [[cA0, cA1], [cA1, cB0]], row.length = 2 := by decide
example : (imageData .ice true [[cA0, cA1], [cA1, cB0]]).isSome = true := by decide
/-- refused saves -/
example : imageData .blink true [[cA0, ⟨0x263A, ⟨7, 0, 0, 0⟩⟩]] = none := by decide
example : imageData .blink true [[cA0, cA1, ⟨0x41, ⟨7, 0, 0, 2⟩⟩]] = none := by decide

/-- `end_run` as the pinned tree computes it for a Full run: `cur != run_ch` (Rust `PartialEq`, no font page) -/
def pinnedEndRun : Decision := fun mode runCh runCount row x =>
  match mode with
  | .full => if runCount ≥ Xb.runLimit then true else !((getChar row x).eqv runCh)
  | m => realEndRun m runCh runCount row x

/-- **The property is false on the pinned tree**: with the pinned decision function the row `A/page 0, A/page 1`
    becomes ONE Full run, which decodes to two cells of page 0 — not to the row. -/
theorem pinned_tree_violates :
    compressRowWith (encodeAttr .blink [0, 1]) pinnedEndRun [cA0, cA1] = [0xC1, 0x41, 0x07] ∧
    (parseRow 2 2 [0xC1, 0x41, 0x07]).map (fun p => expand p.1) = some [(0x41, 0x07), (0x41, 0x07)] ∧
    [cA0, cA1].map (encCell (encodeAttr .blink [0, 1])) = [(0x41, 0x07), (0x41, 0x0F)] ∧
    ¬ Forced (encodeAttr .blink [0, 1]) pinnedEndRun := by
  refine ⟨by decide, by decide, by decide, ?_⟩
  intro h
  have := h .full cA0 1 [cA0, cA1] 1 (by decide) (by decide) (Or.inr (Or.inr (Or.inr ⟨rfl, by decide⟩)))
  revert this
  decide

end IcyVerif.C06
