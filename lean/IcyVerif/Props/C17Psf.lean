import IcyVerif.Lemmas.FontPsf
import IcyVerif.Lemmas.FontRt
/-! # C17 — PSF1 / PSF2 files as the loader really reads them

The engine WRITES only PSF2 with a 32-byte header and flags 0 (`psf2_rt`).  It READS PSF1 (256 or 512 glyphs, mode bits),
and PSF2 with any `headersize` / `flags`.  These theorems say exactly what the loaders accept and what they ignore, and
that everything they accept inside the property's quantifier (width 8, 256 or 512 complete glyphs) survives the engine's
own encoding. -/
namespace IcyVerif.C17
open IcyVerif.Font

/-- **PSF1, exact**: for every mode byte and every char size ≥ 1, the file is accepted; the nominal length is 512 iff mode
    bit 0 is set (HASTAB = 2, HASSEQ = 4 and every other bit are ignored); the glyph table is EVERY complete chunk of
    `charsize` bytes behind the header — however many there are — and a shorter rest is dropped -/
theorem psf1_load_exact (mode cs : Nat) (hcs : 1 ≤ cs) (gs : List (Option Glyph)) (hr : AllRows cs gs)
    (hn : gs.length ≤ 55296) (t : List Nat) (ht : t.length < cs) :
    fromBytes (0x36 :: 0x04 :: mode :: cs :: (flat gs ++ t)) =
      .ok { w := 8, h := cs, length := if mode % 2 = 1 then 512 else 256, glyphs := gs } := by
  rw [fromBytes_psf1 mode cs (by omega), glyphsFromU8_flat_tail cs hcs gs hr hn t ht]

/-- char size 0: rejected for every mode byte and every rest (repair of `BitFont::from_bytes`: a font of height 0 in
    slot 0 made `parse_with_parser` divide by zero when it sized a sixel layer) -/
theorem psf1_charsize_zero (mode : Nat) (rest : List Nat) :
    fromBytes (0x36 :: 0x04 :: mode :: 0 :: rest) = .err := fromBytes_psf1_zero mode rest

/-- **PSF1 → the engine's encoding → back**: a PSF1 file that holds exactly the number of glyphs its mode byte announces
    (256, or 512 with mode bit 0) loads as a font that `to_psf2_bytes` / `from_bytes` give back unchanged: the 512-glyph
    fonts of the quantifier ("512 for PSF") enter through PSF1 and survive PSF2 -/
theorem psf1_to_psf2_rt (mode cs : Nat) (hcs : 1 ≤ cs) (h255 : cs ≤ 255) (gs : List (Option Glyph)) (hr : AllRows cs gs)
    (hn : gs.length = if mode % 2 = 1 then 512 else 256) :
    ∃ f, fromBytes (0x36 :: 0x04 :: mode :: cs :: flat gs) = .ok f ∧ f.glyphs = gs ∧ f.length = gs.length ∧
      ∃ bytes, f.toPsf2 = .ok bytes ∧ fromBytes bytes = .ok f := by
  have hn' : gs.length ≤ 55296 := by rw [hn]; split <;> omega
  have h := psf1_load_exact mode cs hcs gs hr hn' [] (by simp; omega)
  rw [List.append_nil] at h
  refine ⟨_, h, rfl, ?_, ?_⟩
  · simp only; rw [hn]; split <;> rfl
  · have wf : WfFont { w := 8, h := cs, length := if mode % 2 = 1 then 512 else 256, glyphs := gs } cs :=
      { w8 := rfl, hh := rfl, h1 := hcs, h255 := h255, n := hn', len := by simp only; rw [hn]; split <;> rfl, rows := hr }
    exact ⟨_, toPsf2_eq _ cs wf, psf2_roundtrip _ cs wf⟩

/-- **PSF2, exact**: the loader's decision and result for every value of every header field.  `flags` does not occur on
    the right-hand side except through `drop hs` (the loader never reads it; a unicode table is not skipped, it breaks the
    length equation); `headersize` is only the offset of the glyph data and a term of the length equation — values below
    32 are accepted (the glyph data then overlaps the header) -/
theorem psf2_load_exact (version hs flags len cs height width : Nat) (body : List Nat)
    (hv : version < 4294967296) (hhs : hs < 4294967296) (hl : len < 4294967296) (hc : cs < 4294967296)
    (hht : height < 4294967296) (hw : width < 4294967296) :
    fromBytes (psf2File version hs flags len cs height width body) =
      (if version > 0 then .err
       else if asI32 len < 0 ∨ asI32 cs ≤ 0 ∨ asI32 len * asI32 cs + (hs : Int) ≠ ((32 + body.length : Nat) : Int) ∨
           asI32 cs ≠ ((height * ((width + 7) / 8) : Nat) : Int) then .err
       else .ok { w := asI32 width, h := asI32 height, length := asI32 len,
                  glyphs := glyphsFromU8 height ((psf2File version hs flags len cs height width body).drop hs) }) :=
  fromBytes_psf2 version hs flags len cs height width body hv hhs hl hc hht hw

/-- **flags are ignored**: with a header size of at least 16 (so that the glyph data does not overlap the flags field) two
    files that differ only in `flags` load alike -/
theorem psf2_flags_ignored (version hs flags flags' len cs height width : Nat) (body : List Nat) (h16 : 16 ≤ hs)
    (hv : version < 4294967296) (hhs : hs < 4294967296) (hl : len < 4294967296) (hc : cs < 4294967296)
    (hht : height < 4294967296) (hw : width < 4294967296) :
    fromBytes (psf2File version hs flags len cs height width body) = fromBytes (psf2File version hs flags' len cs height width body) := by
  rw [fromBytes_psf2 version hs flags len cs height width body hv hhs hl hc hht hw,
      fromBytes_psf2 version hs flags' len cs height width body hv hhs hl hc hht hw]
  have hd : ∀ fl, (psf2File version hs fl len cs height width body).drop hs =
      (u32le len ++ u32le cs ++ u32le height ++ u32le width ++ body).drop (hs - 16) := by
    intro fl
    have e : psf2File version hs fl len cs height width body =
        (u32le psf2Magic ++ u32le version ++ u32le hs ++ u32le fl) ++ (u32le len ++ u32le cs ++ u32le height ++ u32le width ++ body) := by
      simp [psf2File, List.append_assoc]
    have l : (u32le psf2Magic ++ u32le version ++ u32le hs ++ u32le fl).length = 16 := by simp [u32le]
    rw [e, List.drop_append, l]
    have : List.drop hs (u32le psf2Magic ++ u32le version ++ u32le hs ++ u32le fl) = [] := by
      apply List.drop_eq_nil_of_le; omega
    rw [this, List.nil_append]
  rw [hd flags, hd flags']

/-- **header size**: a PSF2 file whose header announces `hs ≥ 32` bytes and has `hs - 32` bytes of anything between the
    32 fixed bytes and the glyphs (any flags) loads as the font -/
theorem psf2_headersize_rt (f : BitFont) (h : Nat) (wf : WfFont f h) (hs flags : Nat) (pad : List Nat)
    (h32 : 32 ≤ hs) (hhs : hs < 4294967296) (hp : pad.length = hs - 32) :
    fromBytes (psf2File 0 hs flags f.glyphs.length h h 8 (pad ++ flat f.glyphs)) = .ok f := by
  have hn := wf.n
  have h255 := wf.h255
  have h1 := wf.h1
  rw [fromBytes_psf2 0 hs flags f.glyphs.length h h 8 _ (by omega) hhs (by omega) (by omega) (by omega) (by omega)]
  rw [if_neg (by omega), asI32_small _ (by omega), asI32_small _ (by omega), asI32_small 8 (by omega)]
  have hlen := flat_length h _ wf.rows
  rw [if_neg (by
    simp only [List.length_append, hp, hlen]
    rw [← Int.natCast_mul]
    omega)]
  have hd : (psf2File 0 hs flags f.glyphs.length h h 8 (pad ++ flat f.glyphs)).drop hs = flat f.glyphs := by
    have e : psf2File 0 hs flags f.glyphs.length h h 8 (pad ++ flat f.glyphs) =
        (u32le psf2Magic ++ u32le 0 ++ u32le hs ++ u32le flags ++ u32le f.glyphs.length ++ u32le h ++ u32le h ++ u32le 8 ++ pad) ++
          flat f.glyphs := by simp [psf2File, List.append_assoc]
    have l : (u32le psf2Magic ++ u32le 0 ++ u32le hs ++ u32le flags ++ u32le f.glyphs.length ++ u32le h ++ u32le h ++ u32le 8 ++ pad).length = hs := by
      simp [u32le, hp]; omega
    rw [e]
    generalize u32le psf2Magic ++ u32le 0 ++ u32le hs ++ u32le flags ++ u32le f.glyphs.length ++ u32le h ++ u32le h ++ u32le 8 ++ pad = A at l
    subst l
    exact List.drop_left
  rw [hd, glyphsFromU8_flat h wf.h1 _ wf.rows wf.n]
  have := wf.len; have := wf.hh; have := wf.w8
  cases f
  simp_all

/-- **a unicode table is not understood**: what `to_psf2_bytes` writes, followed by anything (a PSF2 unicode table, with or
    without the HAS_UNICODE_TABLE flag), is rejected — the loader insists on `length * charsize + headersize = file size` -/
theorem psf2_unicode_table_rejected (f : BitFont) (h : Nat) (wf : WfFont f h) (flags : Nat) (t : List Nat) (ht : t ≠ []) :
    fromBytes (psf2File 0 32 flags f.glyphs.length h h 8 (flat f.glyphs ++ t)) = .err := by
  have hn := wf.n
  have h255 := wf.h255
  rw [fromBytes_psf2 0 32 flags f.glyphs.length h h 8 _ (by omega) (by omega) (by omega) (by omega) (by omega) (by omega)]
  rw [if_neg (by omega), asI32_small _ (by omega), asI32_small _ (by omega)]
  have hlen := flat_length h _ wf.rows
  have htl : 0 < t.length := by cases t with | nil => exact absurd rfl ht | cons _ _ => simp
  rw [if_pos (by
    right; right; left
    simp only [List.length_append, hlen]
    rw [← Int.natCast_mul]
    omega)]

/-- what `to_psf2_bytes` writes is the `psf2File` with header size 32 and flags 0 -/
theorem toPsf2_is_psf2File (f : BitFont) (h : Nat) (wf : WfFont f h) :
    f.toPsf2 = .ok (psf2File 0 32 0 f.glyphs.length h h 8 (flat f.glyphs)) := by
  rw [toPsf2_eq f h wf, psf2Header_eq f h wf]
  rfl

/-! ### non-vacuity and recorded quirks outside the quantifier -/
set_option maxRecDepth 100000

/-- a PSF1 file with HASTAB whose unicode table follows 256 one-row glyphs: the two table bytes become glyphs 256 and 257
    of a font whose nominal length is 256; `to_psf2_bytes` writes the nominal 256 glyphs, so the extra entries are gone
    after the engine's own encoding (such fonts are outside the quantifier: their glyph table is not 256 / 512 long) -/
theorem psf1_unicode_table_read_as_glyphs :
    let file : List Nat := [0x36, 0x04, 2, 1] ++ List.replicate 256 7 ++ [0xFF, 0xFF]
    (match fromBytes file with
     | .ok f => decide (f.length = 256) && decide (f.glyphs.length = 258) &&
        (match f.toPsf2 with
         | .ok b => (match fromBytes b with | .ok g => decide (g.glyphs.length = 256) && decide (g ≠ f) | _ => false)
         | _ => false)
     | _ => false) = true := by
  decide +kernel

/-- a PSF2 font 16 pixels wide: accepted with charsize = 2 * height, but the glyph loop cuts the data by `height`, not by
    `charsize` — one glyph of two bytes is read as two glyphs of one byte (width 8 is the only width in the quantifier) -/
theorem psf2_wide_font_quirk :
    fromBytes (psf2File 0 32 0 1 2 1 16 [0xAA, 0xBB]) =
      .ok { w := 16, h := 1, length := 1, glyphs := [some [0xAA], some [0xBB]] } := by
  decide +kernel

example : fromBytes ([0x36, 0x04, 5, 2] ++ (List.replicate 512 [1, 2]).flatten ++ [9]) =
    .ok { w := 8, h := 2, length := 512, glyphs := List.replicate 512 (some [1, 2]) } := by decide +kernel
example : fromBytes (psf2File 0 40 1 256 1 1 8 (List.replicate 8 0xEE ++ List.replicate 256 5)) =
    .ok { w := 8, h := 1, length := 256, glyphs := List.replicate 256 (some [5]) } := by decide +kernel
example : fromBytes (psf2File 0 32 1 256 1 1 8 (List.replicate 256 5 ++ [0xFF])) = .err := by decide +kernel

end IcyVerif.C17
