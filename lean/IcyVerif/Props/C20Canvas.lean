import IcyVerif.Props.C20
import IcyVerif.Lemmas.RipCanvas
import IcyVerif.Lemmas.RipExecTotal
set_option linter.unusedSimpArgs false
set_option linter.unusedVariables false
/-!
# C20, RIP canvas part — flood fill, the exposed picture, and the commands that draw with modelled primitives

Property sentences addressed here: "every command finishes in time bounded by the canvas size rather than by its
coordinate values" (flood fill: termination and step bound for EVERY seed, border colour and viewport a stream can set),
"it never panics" (flood fill: every index into the screen and into the span lists is in range, no i32 overflow), and
"the pixel canvas the emulation exposes is always a complete width x height image" (`get_picture_data`: four bytes per
screen cell for EVERY palette, and the screen stays 640 x 350 along every stream of modelled commands).

The model is of the REPAIRED flood fill (three `fix:` commits: seed / rows clipped to viewport ∩ window with exclusive
right and bottom edge, one span list per screen row, `find_line` bounded by the window width).
-/
namespace IcyVerif.C20
open IcyVerif

-- ================================================================================================ the exposed picture
/-- `get_picture_data` pushes exactly four bytes per screen cell — for every canvas content and EVERY palette (shorter
than the colour numbers on the screen, empty, longer than 256): a colour number without palette entry is black. -/
theorem picture_complete (s : Bgi.Bgi) : (Bgi.pictureData s).length = s.screen.size * 4 := Bgi.pictureData_length s

/-- on a complete canvas that is width x height x 4 = 640 x 350 x 4 bytes -/
theorem picture_complete_rip (s : Bgi.Bgi) (hc : Complete s) : (Bgi.pictureData s).length = 640 * 350 * 4 := by
  rw [picture_complete, hc.2.2]

/-- non-vacuity: a canvas with colour 9 on it and an EMPTY palette still yields a complete picture -/
example : (Bgi.pixelBytes [] 9) = [0, 0, 0, 255] := by decide
example : Complete Bgi.Bgi.new := complete_new

-- ================================================================================================ flood fill
/-- `flood_fill` on a complete canvas, for EVERY seed (all of ℤ × ℤ), every border colour, every fill colour / style and
every viewport a RIP stream can set (`StreamState`): the command returns — it neither panics (no screen or span-list
index out of range, no i32 overflow) nor stalls (both loops end within their fuel) — the collecting phase takes at most
`ffBound` steps (loop iterations + pixels read by `find_line`; a function of the canvas size 640 x 350 only), the
drawing pass issues at most one `bar` per collected span, at most 224001 of them (each bounded by `bar_rect_cost`),
and the canvas is complete afterwards. -/
theorem flood_fill_terminates (s : Bgi.Bgi) (hs : Bgi.StreamState s) (hc : Complete s) (x y : Int) (border : Nat) :
    ∃ s' n k, Bgi.floodFill s x y border = .ok (s', n, k) ∧ Complete s' ∧ Bgi.StreamState s' ∧
      n ≤ Bgi.ffBound ∧ k ≤ 224001 := by
  obtain ⟨s', n, k, h, hd, hn, hk⟩ := Bgi.floodFill_spec s ⟨hs, hc.2.1, hc.2.2⟩ x y border
  exact ⟨s', n, k, h, ⟨hd.1.1, hd.2.1, hd.2.2⟩, hd.1, hn, hk⟩

/-- the step bound spelled out: 1280 + (3·640·350 + 2)·(1 + 640·(1 + 1280)) -/
theorem flood_fill_bound_value : Bgi.ffBound = 1280 + (3 * (640 * 350) + 2) * (1 + 640 * (1 + 1280)) := by decide

/-- `find_line` at any pixel of the screen: no index out of range, at most 1280 pixels read, the span lies in its row
and inside the scanned range (used by `flood_fill_terminates`; stated separately because the real scan loop relies on
`li.x2 >= cx` to make progress). -/
theorem find_line_in_range (s : Bgi.Bgi) (hc : Bgi.FillCtx s) (x y : Int) (b : Nat)
    (hx : 0 ≤ x ∧ x ≤ 639) (hy : 0 ≤ y ∧ y < 350) :
    ∃ r c, Bgi.findLine s x y b = some (r, c) ∧ c ≤ 1280 ∧
      ∀ li, r = some li → li.y = y ∧ 0 ≤ li.x1 ∧ li.x1 ≤ x ∧ li.x2 ≤ 639 := by
  obtain ⟨r, c, h, hcl, hli⟩ := Bgi.findLine_spec hc x y b hx.1 hx.2 hy.1 hy.2
  refine ⟨r, c, h, hcl, fun li hr => ?_⟩
  obtain ⟨a1, a2, a3, a4, a5, _⟩ := hli li hr
  exact ⟨a1, a2, a3, by omega⟩

/-- whatever the state (also outside `StreamState`): if `flood_fill` returns at all, the canvas keeps its size -/
theorem flood_fill_keeps_canvas (s s' : Bgi.Bgi) (x y : Int) (b n k : Nat) (hc : Complete s)
    (h : Bgi.floodFill s x y b = .ok (s', n, k)) : Complete s' := by
  obtain ⟨a, b', c⟩ := Bgi.floodFill_size h
  exact ⟨by rw [b', hc.1], by rw [c, hc.2.1], by rw [a, hc.2.2]⟩

/-- non-vacuity: the fresh state satisfies the hypotheses -/
example : ∃ s' n k, Bgi.floodFill Bgi.Bgi.new 320 175 15 = .ok (s', n, k) ∧ Complete s' := by
  obtain ⟨s', n, k, h, hc, _⟩ := flood_fill_terminates Bgi.Bgi.new
    (by unfold Bgi.StreamState; refine ⟨by decide, by decide, by decide, by decide, by decide, by decide, by decide, by decide, by decide, by decide, by decide⟩)
    complete_new 320 175 15
  exact ⟨s', n, k, h, hc⟩

-- ================================================================================================ streams of modelled commands
/-- a whole stream through lexer + canvas; `none` = a panic, a stall or a command outside the modelled set -/
def ripCanvasRun (T : Rip.Table) : RipCanvas.St → List (Nat × Rip.Fb) → Option RipCanvas.St
  | s, [] => some s
  | s, (ch, fb) :: rest =>
    match RipCanvas.step T s ch fb with
    | .ok s' _ => ripCanvasRun T s' rest
    | _ => none

/-- Along EVERY character stream (any mixture of the modelled commands — viewport, colours, palettes of any length,
write mode, styles, pixel, line, rectangle, bar, polygon, poly-line, flood fill, erase view — with any parameters,
truncated or over-long lists, text, with any behaviour of the ANSI fallback), as long as the model run continues, the
canvas stays 640 x 350 and the picture `get_picture_data` exposes is complete: 640·350·4 bytes. -/
theorem rip_stream_picture_complete (cs : List (Nat × Rip.Fb)) : ∀ (s s' : RipCanvas.St), Bgi.Canvas s.bgi →
    ripCanvasRun Rip.genTable s cs = some s' → (Bgi.pictureData s'.bgi).length = 640 * 350 * 4 := by
  induction cs with
  | nil =>
    intro s s' hc h
    simp [ripCanvasRun] at h
    subst h
    rw [picture_complete, hc.2.2]
  | cons c rest ih =>
    intro s s' hc h
    obtain ⟨ch, fb⟩ := c
    unfold ripCanvasRun at h
    split at h
    · rename_i s1 o hs
      exact ih s1 s' (RipCanvas.step_canvas _ _ _ _ _ _ hc hs) h
    · cases h

/-- non-vacuity: the start state has a complete canvas, and "!|Q0102|c07|" (a two-entry palette, then a colour beyond
it) runs through the model -/
example : Bgi.Canvas RipCanvas.St.init.bgi := complete_new
example : ((ripCanvasRun Rip.genTable RipCanvas.St.init
    ("!|Q0102|c07|".toList.map fun c => (c.toNat, Rip.Fb.dflt))).map fun s => (s.bgi.pal.length, s.bgi.color, s.lex.counter)) = some (2, 7, 2) := by
  decide +kernel

end IcyVerif.C20

namespace IcyVerif.C20
open IcyVerif

-- ================================================================================================ every modelled command is total
/-- `Bgi::line` for ALL end points (all of ℤ^4 — the model of `line` has no arithmetic that can leave i32 for |coordinates|
<= 4000, see Model/BgiLine.lean) in a state whose viewport a stream can set: it returns; every `put_pixel` it issues is in
range. -/
theorem bgi_line_total (s : Bgi.Bgi) (hd : Bgi.DrawState s) (x1 y1 x2 y2 : Int) :
    ∃ s', Bgi.line s x1 y1 x2 y2 = some s' ∧ Bgi.DrawState s' := Bgi.line_draw s hd x1 y1 x2 y2

/-- EVERY modelled RIP command (viewport, erase view, colours, palette and single palette entry, write mode, move,
pixel, line, rectangle, bar, polygon, poly-line, flood fill, line style, fill style, fill pattern — kinds 1..=17 of the
regenerated `Gen.RipRun.runKind`), in every state a stream can reach, with parameters as the lexer delivers them
(`ParamsOk`: non-negative base-36 numbers, two digits per field, four for the user line pattern; ANY number of polygon
points / palette entries, also truncated lists): `Command::run` answers `Ok` or `Err` — it does not panic and does not
stall — and leaves a state of the same kind.  Together with `rip_lex_total` this is "an action or an error for every
character" for streams of these commands. -/
theorem rip_command_total (b : Bgi.Bgi) (hd : Bgi.DrawState b) (k : Nat) (hk : 1 ≤ k ∧ k ≤ 17) (c : Rip.CmdSt) (hp : RipCanvas.ParamsOk k c) :
    ∃ b', (RipCanvas.execCmd b k c).state? = some b' ∧ Bgi.DrawState b' := RipCanvas.execCmd_total b hd k hk c hp

/-- the kinds are exactly those of the regenerated table -/
theorem rip_run_kinds : (Gen.RipRun.runKind.map (·.2)) = [1, 2, 3, 4, 5, 6, 7, 8, 9, 10, 11, 12, 13, 14, 15, 16, 17] := by decide

/-- non-vacuity: the fresh state is a `DrawState` -/
example : Bgi.DrawState Bgi.Bgi.new := by
  refine ⟨?_, by decide, complete_new.2.2⟩
  unfold Bgi.StreamState
  refine ⟨by decide, by decide, by decide, by decide, by decide, by decide, by decide, by decide, by decide, by decide, by decide⟩

end IcyVerif.C20
