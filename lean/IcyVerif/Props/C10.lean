import IcyVerif.Lemmas.UnicodeSites
/-! # C10 — stored text is always valid Unicode

Safe Rust cannot create an invalid `char` or `String`; the only places that can are the unchecked conversions.
`Gen/Unsafe.lean` (regenerated from the source on every run) lists every one of them outside `#[cfg(test)]`.
For each listed site there is a theorem about the model of the value flowing into it (`site_*`); for each place
where an unchecked conversion was REPLACED by a checked one (`fix:` commits) there is a theorem about the model of the
replacement code (`*_scalar`, `lossy_*`), and the correspondence run ties these models to the implementation.
`all_sites_covered` fails as soon as a conversion is added, moved into another function, or its argument changes. -/
namespace IcyVerif.C10
open IcyVerif.Uni IcyVerif.Font IcyVerif.Gen.Unsafe

/-! ## the two unchecked conversions that exist in the (repaired) tree -/

/-- `parse_hex_macro_sequence`: `char::from_u32_unchecked((first * 16 + second) as u32)` where `first`, `second`
    are positions in the regenerated `HEX_TABLE`: always a byte value, hence a scalar value. -/
theorem site_parse_hex_macro_sequence_0 (x y first second : Nat)
    (h1 : position x hexTable = some first) (h2 : position y hexTable = some second) :
    first * 16 + second < 256 ∧ isScalar (first * 16 + second) = true := by
  have a := position_lt _ _ _ h1
  have b := position_lt _ _ _ h2
  have hl : hexTable.length ≤ 16 := by decide
  have : first * 16 + second < 256 := by omega
  exact ⟨this, lt256_scalar _ this⟩

/-- for ALL macro bodies (any characters, repeats, errors): every character of the stored macro is a byte value -/
theorem hex_macro_body_bytes (body m : List Nat) (h : hexMacro hexTable body = some m) :
    ∀ c ∈ m, c < 256 ∧ isScalar c = true := by
  intro c hc
  have := hexMacro_lt hexTable (by decide) body m h c hc
  exact ⟨this, lt256_scalar _ this⟩

/-- the macro space the model's `push_repeated` uses is the one in the source -/
theorem maxMacroLen_synced : IcyVerif.Gen.Unsafe.maxMacroLen = IcyVerif.Uni.maxMacroLen := by decide

/-- XBin `read_data_compressed`: `transmute::<u8, Compression>(b & mask)`: for every byte the masked value is one of the
    enum's declared discriminants (mask and discriminants regenerated) -/
theorem site_read_data_compressed_0 :
    xbinCompressionMasks ≠ [] ∧
    ∀ m ∈ xbinCompressionMasks, ∀ b, b < 256 → xbinTag m b ∈ xbinCompressionDiscriminants := by
  refine ⟨by decide, ?_⟩
  have h : (xbinCompressionMasks.all fun m => (List.range 256).all fun b =>
      xbinCompressionDiscriminants.contains (xbinTag m b)) = true := by decide +kernel
  intro m hm b hb
  have := List.all_eq_true.mp (List.all_eq_true.mp h m hm) b (List.mem_range.mpr hb)
  simpa using this

/-- the inventory the proofs above answer: (file, fn, kind, argument text) -/
def provenSites : List (String × String × String × String) := [
  ("src/parsers/ansi/dcs.rs", "parse_hex_macro_sequence", "from_u32_unchecked", "(first * 16 + second) as u32"),
  ("src/formats/xbinary.rs", "read_data_compressed", "transmute", "xbin_compression & 0b_1100_0000")]

/-- every unchecked conversion in the source is one of the proven sites, and there is no other `unsafe` block -/
theorem all_sites_covered :
    (unsafeSites.all fun s => provenSites.contains s) = true ∧ otherUnsafe = [] := by
  decide

/-! ## the repaired flows (checked conversions) -/

/-- `fill_rectangular_area`: for every parameter (any integer; streams reach 0..=2147483599) the fill character is
    either rejected or the scalar value with that number; exactly the non-scalar numbers are rejected -/
theorem fill_rect_scalar (pn1 : Int) :
    (∀ c, fillChar pn1 = some c → isScalar c = true ∧ c = asU32 pn1) ∧
    (fillChar pn1 = none ↔ isScalar (asU32 pn1) = false) := by
  constructor
  · intro c h; exact charFromU32_scalar _ _ h
  · unfold fillChar charFromU32; split <;> simp_all

/-- why the generator's block family is complete for this parameter (harness/src/unibounds.rs): over the whole parameter
    space 0..=2^31-1 the accept/reject decision for `v` is the decision for the first member of its 0x800-aligned block,
    and everything from 0x200000 on is rejected — so one member of each of the 1024 blocks below 0x200000 decides the
    correct answer for all of them, and an implementation that answers differently anywhere in a block (a hand-written
    range test with a wrong constant opens or closes whole blocks or their edges) is seen at the block's first, last or
    sampled member -/
theorem fill_rect_block_decides (v : Nat) (h : v < 2147483648) :
    (fillChar (v : Int) = none ↔ fillChar ((v / 2048 * 2048 : Nat) : Int) = none) ∧
    (2097152 ≤ v → fillChar (v : Int) = none) := by
  have hb : v / 2048 * 2048 < 4294967296 := by omega
  have e1 := asU32_nat v (by omega)
  have e2 := asU32_nat (v / 2048 * 2048) hb
  unfold fillChar charFromU32
  rw [e1, e2, ← scalar_block_constant v]
  constructor
  · cases isScalar v <;> simp
  · intro hv
    have : isScalar v = false := by
      have := isScalar_iff v
      cases hs : isScalar v
      · rfl
      · rw [hs] at this; have := this.mp rfl; omega
    simp [this]

/-- the same block structure for the 32-bit character fields of IcyDraw cells -/
theorem icy_char_block_decides (v : Nat) :
    (icyChar false v = none ↔ icyChar false (v / 2048 * 2048) = none) ∧ (2097152 ≤ v → icyChar false v = none) := by
  unfold icyChar charFromU32
  simp only [Bool.false_eq_true, if_false]
  rw [← scalar_block_constant v]
  constructor
  · cases isScalar v <;> simp
  · intro hv
    have : isScalar v = false := by
      have := isScalar_iff v
      cases hs : isScalar v
      · rfl
      · rw [hs] at this; have := this.mp rfl; omega
    simp [this]

/-- `Layer::from_clipboard_data`: every 16-bit character field yields a scalar value -/
theorem clipboard_cell_scalar (lo hi : Nat) : isScalar (clipChar lo hi) = true := clipChar_scalar lo hi

/-- … and so does every cell of every layer the function returns, for all clipboard byte strings -/
theorem clipboard_layer_scalar (data : List Nat) (w h : Nat) (cs : List Nat)
    (hr : fromClipboard data = .ok w h cs) : ∀ c ∈ cs, isScalar c = true := by
  unfold fromClipboard at hr
  split at hr
  · cases hr
  · split at hr
    · cases hr
    · split at hr
      · dsimp only at hr
        split at hr
        · cases hr
        · split at hr
          · rename_i cs' hcs
            injection hr with _ _ h3; subst h3
            exact clipCells_scalar _ _ _ hcs
          · cases hr
      · cases hr

/-- IcyDraw `load_buffer` (both decoders): every 32-bit character field is rejected or is that scalar value;
    8-bit cells are byte values -/
theorem icy_char_scalar (short : Bool) (v c : Nat) (h : icyChar short v = some c) : isScalar c = true := by
  unfold icyChar at h
  split at h
  · injection h with h; subst h; exact lt256_scalar _ (Nat.mod_lt _ (by decide))
  · exact (charFromU32_scalar _ _ h).1

/-- `String::from_utf8_lossy` (IcyDraw titles and font names, TDF font names): for ALL byte strings the result is the
    UTF-8 encoding of scalar values -/
theorem lossy_valid_utf8 (bs : List Nat) : ValidUtf8 (lossyBytes bs) :=
  ⟨lossy bs, lossyAux_scalar _ _, rfl⟩

/-- … and valid input is returned unchanged (the repair does not alter behaviour on valid files) -/
theorem lossy_id_on_valid (bs : List Nat) (h : ValidUtf8 bs) : lossyBytes bs = bs := by
  obtain ⟨cs, hcs, rfl⟩ := h
  unfold lossyBytes lossy
  rw [lossyAux_encodeAll cs hcs _ (Nat.le_refl _)]

/-- the executable validator (= `std::str::from_utf8(..).is_ok()`, tied by the correspondence run) decides validity -/
theorem valid_utf8_decidable (bs : List Nat) : validUtf8 bs = true ↔ ValidUtf8 bs := validUtf8_iff bs

/-- fonts: whatever bytes `BitFont::from_bytes` is given (PSF1, PSF2, raw; any glyph count), every key of the glyph
    table is a scalar value -/
theorem font_keys_scalar (data : List Nat) (f : BitFont) (h : fromBytes data = .ok f) : KeysScalar f := by
  apply keysScalar_of_from
  unfold fromBytes at h
  split at h
  · split at h
    · unfold loadPsf1 at h
      repeat' (split at h)
      all_goals first
        | (injection h with h; subst h; exact glyphsFromU8_keys _ _)
        | cases h
    · split at h
      · unfold loadPsf2 at h
        dsimp only at h
        repeat' (split at h)
        all_goals first
          | (injection h with h; subst h; exact glyphsFromU8_keys _ _)
          | cases h
      · unfold loadPlain at h
        dsimp only at h
        repeat' (split at h)
        all_goals first
          | (injection h with h; subst h; exact glyphsFromU8_keys _ _)
          | cases h
  · cases h

/-- `create_8` / `from_basic` (XBin, ADF, IDF loaders) likewise -/
theorem font_basic_keys_scalar (w h : Nat) (data : List Nat) : KeysScalar (fromBasic w h data) :=
  keysScalar_of_from _ (glyphsFromU8_keys _ _)

/-- the loops `for ch in 0..length` of `calculate_checksum`, `convert_to_u8_data`, `to_psf2_bytes` only ever read the
    table at indices `0..length`, and find a glyph only where the table has one: with scalar keys they never need a
    non-scalar `char` (the repaired code skips those indices), for every `length` -/
theorem font_loops_scalar (f : BitFont) (hk : KeysScalar f) (i : Nat) (g : Glyph)
    (h : f.loop[i]? = some (some g)) : isScalar i = true ∧ f.get i = some g := by
  have key : ∀ (n : Nat) (gs : List (Option Glyph)) (i : Nat), (lookups n gs)[i]? = some (some g) → gs[i]? = some (some g) := by
    intro n
    induction n with
    | zero => intro gs i h; simp [lookups] at h
    | succ n ih =>
      intro gs i h
      cases gs with
      | nil =>
        cases i with
        | zero => simp [lookups] at h
        | succ j => simp [lookups] at h; have := ih [] j h; simp at this
      | cons x xs =>
        cases i with
        | zero => simpa [lookups] using h
        | succ j => simp [lookups] at h; simpa using ih xs j h
  have hg := key _ _ _ h
  have : f.get i = some g := by unfold BitFont.get; rw [hg]; rfl
  exact ⟨hk i g this, this⟩

/-! ## non-vacuity -/
example : fillChar 65 = some 65 := by decide
example : fillChar 55296 = none := by decide
example : fillChar 1114112 = none := by decide
example : fillChar 2147483599 = none := by decide
example : fillChar 1169408 = none ∧ fillChar (1169408 / 2048 * 2048 : Nat) = none ∧ fillChar 1171455 = none := by decide
example : fillChar 0xE7FF = some 0xE7FF ∧ fillChar (0xE7FF / 2048 * 2048 : Nat) = some 0xE000 := by decide
example : icyChar false 0x11D800 = none ∧ icyChar false 0x10FFFF = some 0x10FFFF := by decide
example : clipChar 0x00 0xD8 = 0xFFFD := by decide
example : clipChar 0x41 0x00 = 0x41 := by decide
example : fromClipboard ([0, 0,0,0,0, 0,0,0,0, 1,0,0,0, 1,0,0,0] ++ [0x00, 0xDC, 0,0, 0,0, 0,0,0,0, 7,0,0,0]) = .ok 1 1 [0xFFFD] := by decide
example : icyChar false 0xDFFF = none := by decide
example : icyChar false 0x1F600 = some 0x1F600 := by decide
example : lossyBytes [0x41, 0xED, 0xA0, 0x80, 0xC3, 0xA9] = [0x41, 0xEF, 0xBF, 0xBD, 0xEF, 0xBF, 0xBD, 0xEF, 0xBF, 0xBD, 0xC3, 0xA9] := by decide
example : validUtf8 [0xF0, 0x9F, 0x98, 0x80] = true ∧ validUtf8 [0xF4, 0x90, 0x80, 0x80] = false := by decide
example : hexMacro hexTable [52, 49, 33, 50, 59, 52, 50, 59] = some [0x41, 0x42, 0x42] := by decide
example : hexMacro hexTable [102, 102] = none ∧ hexMacro hexTable [70, 102] = some [255] := by decide
example : unsafeSites.length = 2 := by decide

end IcyVerif.C10
