import IcyVerif.Lemmas.TermWrap
import IcyVerif.Lemmas.TermOther
import IcyVerif.Lemmas.TermSize
/-! # C09 — cursor and fixed-grid geometry stay consistent under any stream
Theorems for the ANSI emulation (all four music options, with or without BS as control character) on a terminal
buffer with scrollback.  `run` feeds a whole stream through `step`, one character at a time, so quantifying over
all streams covers every prefix.  A stream "requests a text-area resize" iff `resized` is set afterwards
(`CSI 8;h;w t`, also when executed from inside a macro).

Full statement of the property (every text-mode emulation; Viewdata/Mode 7 keep their 40x24 page):
the theorems below cover all ten text-mode emulations (ANSI with its wrappers Avatar, PCBoard, Ctrl-A, Renegade;
ASCII, ATASCII, PETSCII; Viewdata and Mode 7 with the fixed-grid clause). -/
namespace IcyVerif.C09
open IcyVerif.Term

/-- after every character of every resize-free stream the cursor is inside the visible screen -/
theorem cursor_in_screen (w h : Int) (hw1 : 1 ≤ w) (hw2 : w ≤ 132) (hh1 : 1 ≤ h) (hh2 : h ≤ 60)
    (cfg : Cfg) (o : Nat → Orc) (bytes : List Char) (st : St)
    (hrun : run cfg o (initSt w h) bytes = .ok st) (hres : st.p.resized = false) :
    0 ≤ st.c.x ∧ st.c.x < st.s.tw ∧ st.s.fv ≤ st.c.y ∧ st.c.y < st.s.fv + st.s.th := by
  have hg := run_good cfg o bytes (initSt w h) (initSt_good w h hw1 hw2 hh1 hh2)
  rw [hrun] at hg
  obtain ⟨_, hc, hi⟩ := hg
  obtain ⟨_, i2, i3, i4⟩ := hi hres
  exact ⟨hc.1, i2, i3, i4⟩

/-- the one-step form: from any good state, any character, any oracle -/
theorem cursor_in_screen_step (cfg : Cfg) (o : Nat → Orc) (st st' : St) (ch : Char) (out : Out)
    (hg : GoodSt st) (hstep : step cfg o st ch = .ok (st', out)) (hres : st'.p.resized = false) :
    0 ≤ st'.c.x ∧ st'.c.x < st'.s.tw ∧ st'.s.fv ≤ st'.c.y ∧ st'.c.y < st'.s.fv + st'.s.th := by
  have h := step_good cfg o st ch hg
  rw [hstep] at h
  obtain ⟨_, hc, hi⟩ := h
  obtain ⟨_, i2, i3, i4⟩ := hi hres
  exact ⟨hc.1, i2, i3, i4⟩

/-- a stream that does not resize keeps the terminal size; the buffer never gets shorter than the screen -/
theorem screen_not_below_buffer (w h : Int) (hw1 : 1 ≤ w) (hw2 : w ≤ 132) (hh1 : 1 ≤ h) (hh2 : h ≤ 60)
    (cfg : Cfg) (o : Nat → Orc) (bytes : List Char) (st : St)
    (hrun : run cfg o (initSt w h) bytes = .ok st) (hres : st.p.resized = false) : st.s.th ≤ st.s.bh := by
  have hg := run_good cfg o bytes (initSt w h) (initSt_good w h hw1 hw2 hh1 hh2)
  rw [hrun] at hg
  exact (hg.2.2 hres).1

/-- margins always lie inside the screen (what the repaired `set_margins_*` guarantees) -/
theorem margins_inside_screen (w h : Int) (hw1 : 1 ≤ w) (hw2 : w ≤ 132) (hh1 : 1 ≤ h) (hh2 : h ≤ 60)
    (cfg : Cfg) (o : Nat → Orc) (bytes : List Char) (st : St)
    (hrun : run cfg o (initSt w h) bytes = .ok st) :
    (∀ t b, st.s.mtb = some (t, b) → 0 ≤ t ∧ t ≤ b ∧ b < st.s.th) ∧
    (∀ l r, st.s.mlr = some (l, r) → 0 ≤ l ∧ l ≤ r ∧ r < st.s.tw) := by
  have hg := run_good cfg o bytes (initSt w h) (initSt_good w h hw1 hw2 hh1 hh2)
  rw [hrun] at hg
  exact ⟨hg.1.mtb, hg.1.mlr⟩

/-- the same for Avatar, PCBoard, Ctrl-A and Renegade (state machines in front of the ANSI parser) -/
theorem cursor_in_screen_wrapped (e : Emu) (w h : Int) (hw1 : 1 ≤ w) (hw2 : w ≤ 132) (hh1 : 1 ≤ h) (hh2 : h ≤ 60)
    (o : Nat → Orc) (bytes : List Char) (st : WSt)
    (hrun : wrun e o (initW w h) bytes = .ok st) (hres : st.inner.p.resized = false) :
    0 ≤ st.inner.c.x ∧ st.inner.c.x < st.inner.s.tw ∧ st.inner.s.fv ≤ st.inner.c.y ∧
      st.inner.c.y < st.inner.s.fv + st.inner.s.th := by
  have hg := wrun_good e o bytes (initW w h) (initSt_good w h hw1 hw2 hh1 hh2)
  rw [hrun] at hg
  obtain ⟨_, hc, hi⟩ := hg
  obtain ⟨_, i2, i3, i4⟩ := hi hres
  exact ⟨hc.1, i2, i3, i4⟩

/-- ASCII, ATASCII and PETSCII (scrolling terminals), Viewdata and Mode 7 (pages): cursor inside the screen after
    every character of every stream -/
theorem cursor_in_screen_bytes (e : Emu2) (w h : Int) (hw1 : 1 ≤ w) (hw2 : w ≤ 132) (hh1 : 1 ≤ h) (hh2 : h ≤ 60)
    (bytes : List Char) (st : OSt) (hrun : orun e (initO w h) bytes = .ok st) :
    0 ≤ st.c.x ∧ st.c.x < st.s.tw ∧ st.s.fv ≤ st.c.y ∧ st.c.y < st.s.fv + st.s.th := by
  have hi := initO_good w h hw1 hw2 hh1 hh2
  have hg := orun_good e bytes (initO w h) hi.1 (fun _ => hi.2)
  rw [hrun] at hg
  obtain ⟨⟨_, hc, ⟨_, i2, i3, i4⟩⟩, _⟩ := hg
  exact ⟨hc.1, i2, i3, i4⟩

/-- Viewdata and Mode 7 keep exactly their 40x24 page: terminal size, buffer size and hence "no scrollback" -/
theorem fixed_grid (e : Emu2) (he : e = .viewdata ∨ e = .mode7) (bytes : List Char) (st : OSt)
    (hrun : orun e (initO 40 24) bytes = .ok st) :
    st.s.tw = 40 ∧ st.s.th = 24 ∧ st.s.bw = 40 ∧ st.s.bh = 24 ∧ st.s.fv = 0 := by
  have hi := initO_good 40 24 (by decide) (by decide) (by decide) (by decide)
  have hg := orun_good e bytes (initO 40 24) hi.1 (fun _ => hi.2)
  have hs := page_run_same e he bytes (initO 40 24)
  rw [hrun] at hg hs
  obtain ⟨hgo, hf⟩ := hg
  obtain ⟨f1, f2⟩ := hf he
  have htw : st.s.tw = 40 := hs.1
  have hth : st.s.th = 24 := hs.2
  refine ⟨htw, hth, by rw [f2, htw], by rw [f1, hth], ?_⟩
  exact fixed_fv st ⟨hgo, ⟨f1, f2⟩⟩

/-- "the visible screen" is a fixed window: a stream that does not request a text-area resize never changes the
    terminal size — in particular not through a reset, form feed or clear screen while a scrollback exists (what
    `Buffer::reset_terminal` must guarantee by rebuilding the terminal state from the terminal size).  Together with
    `cursor_in_screen` this is the property with the *initial* width/height: column in `0..w-1`, row in the last
    `h` rows of the buffer. -/
theorem size_const (w h : Int) (cfg : Cfg) (o : Nat → Orc) (bytes : List Char) (st : St)
    (hrun : run cfg o (initSt w h) bytes = .ok st) (hres : st.p.resized = false) : st.s.tw = w ∧ st.s.th = h :=
  (run_size cfg o bytes (initSt w h) st hrun hres).2

/-- the same for Avatar, PCBoard, Ctrl-A and Renegade -/
theorem size_const_wrapped (e : Emu) (w h : Int) (o : Nat → Orc) (bytes : List Char) (st : WSt)
    (hrun : wrun e o (initW w h) bytes = .ok st) (hres : st.inner.p.resized = false) :
    st.inner.s.tw = w ∧ st.inner.s.th = h :=
  (wrun_size e o bytes (initW w h) st hrun hres).2

/-- ASCII, ATASCII, PETSCII, Viewdata and Mode 7 have no resize function: the size never changes -/
theorem size_const_bytes (e : Emu2) (w h : Int) (bytes : List Char) (st : OSt)
    (hrun : orun e (initO w h) bytes = .ok st) : st.s.tw = w ∧ st.s.th = h :=
  orun_same e bytes (initO w h) st hrun

/-- cursor clause with the initial size spelled out: after every character of every resize-free stream the column is
    in `0..w-1` and the row among the last `h` rows of the buffer (`bh - h ..= bh - 1`) -/
theorem cursor_in_initial_screen (w h : Int) (hw1 : 1 ≤ w) (hw2 : w ≤ 132) (hh1 : 1 ≤ h) (hh2 : h ≤ 60)
    (cfg : Cfg) (o : Nat → Orc) (bytes : List Char) (st : St)
    (hrun : run cfg o (initSt w h) bytes = .ok st) (hres : st.p.resized = false) (hbh : st.s.bh ≤ 2147483647) :
    0 ≤ st.c.x ∧ st.c.x < w ∧ st.s.bh - h ≤ st.c.y ∧ st.c.y < st.s.bh := by
  have hc := cursor_in_screen w h hw1 hw2 hh1 hh2 cfg o bytes st hrun hres
  have hb := screen_not_below_buffer w h hw1 hw2 hh1 hh2 cfg o bytes st hrun hres
  obtain ⟨hw, hh⟩ := size_const w h cfg o bytes st hrun hres
  have hg := run_good cfg o bytes (initSt w h) (initSt_good w h hw1 hw2 hh1 hh2)
  rw [hrun] at hg
  have hfv := fv_eq st.s hg.1 hbh
  rw [hw, hh] at hc
  rw [hh] at hb hfv
  omega

/-- non-vacuity of `size_const`: scrollback, then soft reset, form feed and RIS — the size stays 7x4 -/
example : (match run { musicOpt := 0, bsCtrl := true } (fun _ => { lineLen := 0, extOk := true }) (initSt 7 4)
      "\n\n\n\n\n\n\n\x1b[!p\n\n\n\n\n\n\x0c\n\n\n\n\n\n\x1bc\n\n\n\n\n\n".toList with
    | .ok st => (st.s.tw, st.s.th, st.s.bh, st.p.resized) | .error _ => (-1, -1, -1, true)) = (7, 4, 7, false) := by decide +kernel

/-! non-vacuity: a stream that fills the scrollback, sets margins, tabs beyond the last stop and restores a
    stale saved position ends on the screen (the pinned tree left the cursor outside in each of these) -/
def demo : List Char := "\x1b[s\n\n\n\n\n\n\x1b[2;3r\x1b[99Y\x1b[u\x1b[!pA".toList
example : (match wrun .avatar (fun _ => { lineLen := 0, extOk := true }) (initW 80 25) "\x16\x08\u00c8\u00c8".toList with
    | .ok w => (w.inner.c.x, w.inner.c.y) | .error _ => (-1, -1)) = (79, 24) := by decide +kernel
example : (match run { musicOpt := 0, bsCtrl := true } (fun _ => { lineLen := 0, extOk := true }) (initSt 7 4) demo with
    | .ok st => (st.c.x, st.c.y, st.s.fv, st.s.bh) | .error _ => (-1, -1, -1, -1)) = (1, 3, 3, 7) := by decide +kernel

end IcyVerif.C09
