import IcyVerif.Lemmas.IgsCost
/-! C20, "every command finishes in time bounded by the canvas size rather than by its coordinate values", for the
two-dimensional block operations of the IGS `DrawExecutor`: the cost (loop rounds, pixel accesses) is a function in
the model (`Model/IgsCost.lean`: every loop repeated with counters), and for ALL corner coordinates it is at most
`K * width * height` of the current resolution.

 * `igs_blit_screen_cost`  — `blit_screen_to_screen` (GrabScreen mode 0): counters erased = the model function; rounds
   = `blitCost` ≤ width x height; two pixel accesses per round.
 * `igs_grab_screen_cost`  — `blit_screen_to_memory` (GrabScreen mode 1): the same with one access per round.
 * `igs_fill_rect_cost`    — `fill_rect` (FilledRectangle, Box): rounds = `fillCost` ≤ width x height, pixel writes ≤ rounds.
NOT proved (cost function in the model, tied by correspondence with the hook counter and bounded by the oracle only):
`blit_memory_to_screen` (GrabScreen modes 2 / 3; rounds ≤ (width + 1) x (height + 1) for a destination on the screen —
the loops leave at the screen edge). -/
namespace IcyVerif.C20
open IcyVerif

/-- `blit_screen_to_screen` for ALL coordinates: the instrumented function is the model function plus counters, the
rounds are `blitCost` (both extents clamped to the resolution) — at most width x height — and the pixel accesses are
two per round. -/
theorem igs_blit_screen_cost (p : IgsPaint.Paint) (fx fy tx ty dx dy : Int) :
    IgsPaint.blitScreenToScreenC p fx fy tx ty dx dy
        = (IgsPaint.blitScreenToScreen p fx fy tx ty dx dy).bind
            (fun p' => .ok (p', (IgsPaint.blitCost p fx fy tx ty, 2 * IgsPaint.blitCost p fx fy tx ty))) ∧
      IgsPaint.blitCost p fx fy tx ty ≤ (IgsPaint.resW p).toNat * (IgsPaint.resH p).toNat :=
  ⟨IgsPaint.blitScreenToScreenC_eq p fx fy tx ty dx dy, IgsPaint.blitCost_le p fx fy tx ty⟩

/-- non-vacuity: both extents huge on the fresh 320x200 canvas cost exactly one canvas -/
example : IgsPaint.blitCost IgsPaint.Paint.new 0 0 99999 99999 = 320 * 200 := by decide

/-- `blit_screen_to_memory` for ALL coordinates: the same with one `get_pixel` per round. -/
theorem igs_grab_screen_cost (p : IgsPaint.Paint) (fx fy tx ty : Int) :
    IgsPaint.blitScreenToMemoryC p fx fy tx ty
        = (IgsPaint.blitScreenToMemory p fx fy tx ty).bind
            (fun p' => .ok (p', (IgsPaint.blitCost p fx fy tx ty, IgsPaint.blitCost p fx fy tx ty))) ∧
      IgsPaint.blitCost p fx fy tx ty ≤ (IgsPaint.resW p).toNat * (IgsPaint.resH p).toNat :=
  ⟨IgsPaint.blitScreenToMemoryC_eq p fx fy tx ty, IgsPaint.blitCost_le p fx fy tx ty⟩

example : IgsPaint.blitCost IgsPaint.Paint.new 5 5 99999 7 = 320 * 2 := by decide

/-- `fill_rect` for ALL corner coordinates: whenever the instrumented function returns, the model function returns
the same canvas, the rounds are `fillCost` (the clipped rectangle) — at most width x height — and the pixel writes are
at most the rounds. -/
theorem igs_fill_rect_cost (p : IgsPaint.Paint) (hg : IgsPaint.Good p) (x0 y0 x1 y1 : Int) (r : IgsPaint.Paint × IgsPaint.Cost)
    (h : IgsPaint.fillRectC p x0 y0 x1 y1 = .ok r) :
    IgsPaint.fillRect p x0 y0 x1 y1 = .ok r.1 ∧ r.2.1 = IgsPaint.fillCost p x0 y0 x1 y1 ∧ r.2.2 ≤ r.2.1 ∧
      r.2.1 ≤ (IgsPaint.resW p).toNat * (IgsPaint.resH p).toNat := by
  obtain ⟨h1, h2, h3⟩ := IgsPaint.fillRectC_ok h
  exact ⟨h1, h2, by omega, by rw [h2]; exact IgsPaint.fillCost_le p hg.res x0 y0 x1 y1⟩

example : IgsPaint.fillCost IgsPaint.Paint.new 0 0 99999 99999 = 320 * 200 := by decide

end IcyVerif.C20
