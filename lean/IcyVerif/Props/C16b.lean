import IcyVerif.Lemmas.PaletteNamed
import IcyVerif.Lemmas.PaletteFiles
import IcyVerif.Lemmas.PaletteFilesRt
/-! # C16, second part — colours AS STORED (with names), and the palette of whole files for every font count

Only property theorems and non-vacuity examples.

* The index laws of `Props/C16.lean` are about RGB triples.  `Color` has a fourth field, `name: Option<String>` (set by the
  ICE and GPL importers and by callers).  The theorems here are about palettes of `Color`s — EVERY palette, EVERY colour
  and name, EVERY history — over a model that compares exactly the fields the source compares (`Gen/PalColor.lean`).
* "The 6-bit VGA palette encoding used by XBin/IDF/ADF is idempotent" for WHOLE FILES written from a picture: whatever the
  number of fonts (XBin: one, or two = 512-character mode), the palette that comes back is the palette that was saved. -/
namespace IcyVerif.C16
open IcyVerif.Palette IcyVerif.Gen.Palette

/-! ## names play no role -/

/-- `Color == Color` (used by `is_default`, `are_colors_equal`, `Palette == Palette`) compares RGB only -/
theorem color_eq_ignores_name (a b : Color) : colorEq a b = true ↔ a.rgb = b.rgb := by
  rw [colorEq_rgb]; simp

/-- `insert_color` on stored colours is `insert_color` on their RGB values: same index, same RGB sequence afterwards -/
theorem named_insert_refines (p : List Color) (c : Color) :
    (rgbsOf (insertColorN p c).1, (insertColorN p c).2) = insertColor (rgbsOf p) c.rgb := insertColorN_erase p c

/-- ADDING A COLOUR THAT IS ALREADY PRESENT — present by its RGB value, under whatever name, or none — returns the index
    of the first entry with that RGB value and changes NOTHING (no entry added, no name touched) -/
theorem named_insert_existing (p : List Color) (c : Color) (h : c.rgb ∈ rgbsOf p) :
    insertColorN p c = (p, firstIdx c.rgb (rgbsOf p)) ∧ firstIdx c.rgb (rgbsOf p) < p.length ∧
      (rgbsOf p).getD (firstIdx c.rgb (rgbsOf p)) black = c.rgb := by
  have hlt : firstIdx c.rgb (rgbsOf p) < (rgbsOf p).length := (firstIdx_lt_iff _ _).mpr h
  have hlt' : firstIdx c.rgb (rgbsOf p) < p.length := by rw [rgbsOf_length] at hlt; exact hlt
  refine ⟨?_, hlt', getD_firstIdx c.rgb (rgbsOf p) black hlt⟩
  unfold insertColorN; rw [firstIdxN_eq]; simp [hlt']

/-- a colour whose RGB value is new goes to the end, WITH its name -/
theorem named_insert_new (p : List Color) (c : Color) (h : c.rgb ∉ rgbsOf p) : insertColorN p c = (p ++ [c], p.length) := by
  have hge : ¬ firstIdx c.rgb (rgbsOf p) < (rgbsOf p).length := fun hlt => h ((firstIdx_lt_iff _ _).mp hlt)
  rw [rgbsOf_length] at hge
  unfold insertColorN; rw [firstIdxN_eq]; simp [hge]

/-- … and the returned index resolves to the RGB value of the colour, every old index to what it resolved to -/
theorem named_insert_resolves (p : List Color) (c : Color) (hlen : p.length < 2147483648) :
    getRgbN (insertColorN p c).1 (insertColorN p c).2 = c.rgb ∧
    ∀ i, i < p.length → getRgbN (insertColorN p c).1 i = getRgbN p i := by
  have h := named_insert_refines p c
  have h1 : rgbsOf (insertColorN p c).1 = (insertColor (rgbsOf p) c.rgb).1 := by rw [← h]
  have h2 : (insertColorN p c).2 = (insertColor (rgbsOf p) c.rgb).2 := by rw [← h]
  unfold getRgbN
  rw [h1, h2]
  refine ⟨?_, fun i hi => ?_⟩
  · have hlt := insertColor_idx_lt (rgbsOf p) c.rgb
    have hle : (insertColor (rgbsOf p) c.rgb).2 ≤ (rgbsOf p).length := by
      unfold insertColor; split
      · simp only []; omega
      · exact Nat.le_refl _
    rw [rgbsOf_length] at hle
    rw [getRgb_of_lt _ _ (by omega)]
    exact insertColor_getD _ _
  · exact getRgb_congr _ _ i (insertColor_getD_lt _ _ i (by rw [rgbsOf_length]; exact hi))

/-- HISTORIES: every sequence of insert / set / lookup / push / is_default operations on a palette whose entries carry
    names — inserting, setting and pushing named and unnamed colours — gives the same indices, the same looked-up colours and
    the same final RGB sequence as the same history on the bare RGB values.  So every theorem of `Props/C16.lean` about
    histories (`history_stable`, `inserted_index_survives`, …) holds for stored colours with names. -/
theorem named_history_refines (dos : List Rgb) (p : List Color) (ops : List NOp) :
    ((traceN dos p ops).1.flatMap NOut.erase, rgbsOf (traceN dos p ops).2) = trace (rgbsOf p) (ops.flatMap NOp.erase) :=
  traceN_erase dos ops p

/-- `is_default` does not see names: a DOS palette whose entries were given names is still the default palette
    (the XBin / IcyDraw writers decide with it whether to write a palette block) -/
theorem named_is_default (p : List Color) : isDefaultN PalStream.dosDefault p = PalStream.isDefault (rgbsOf p) :=
  isDefaultN_rgb p

/-- `are_colors_equal` does not see names -/
theorem named_colors_equal (p q : List Color) : colorsEqual p q = true ↔ rgbsOf p = rgbsOf q := colorsEqual_rgb p q

/-- LOADED PALETTES: export a palette (any metadata, any colour names) in any of the five formats and import it — the ICE
    and GPL importers attach names to the colours — then add any colour of the original palette again, under ANY name or
    none: the answer is the index of the first entry with that RGB value in the ORIGINAL sequence, and the loaded palette
    does not change -/
theorem loaded_palette_insert_existing (f : Fmt) (p : Pal) (hv : p.ValidColors) :
    ∃ q, importM f (exportM f p) = some q ∧ q.rgbs = p.rgbs ∧
      ∀ c ∈ p.rgbs, ∀ nm : Option (List Nat), insertColorN q.colors ⟨nm, c⟩ = (q.colors, firstIdx c p.rgbs) := by
  obtain ⟨q, h1, h2⟩ := import_exportLines f p.flatten (flatten_clean p) (flatten_valid p hv)
  have h3 : q.rgbs = p.rgbs := h2.trans (flatten_rgbs p)
  refine ⟨q, h1, h3, fun c hc nm => ?_⟩
  have hq : rgbsOf q.colors = p.rgbs := h3
  have := (named_insert_existing q.colors ⟨nm, c⟩ (by rw [hq]; exact hc)).1
  rw [hq] at this
  exact this

/-! non-vacuity: an entry named "sky" and an unnamed one; the same RGB under another name, under none, a new one -/
def skyPal : List Color := [⟨some [115, 107, 121], ⟨10, 20, 30⟩⟩, ⟨none, ⟨40, 50, 60⟩⟩, ⟨some [120], ⟨10, 20, 30⟩⟩]
example : insertColorN skyPal ⟨none, ⟨10, 20, 30⟩⟩ = (skyPal, 0) := by decide
example : insertColorN skyPal ⟨some [98, 108, 117, 101], ⟨10, 20, 30⟩⟩ = (skyPal, 0) := by decide
example : insertColorN skyPal ⟨some [110], ⟨40, 50, 60⟩⟩ = (skyPal, 1) := by decide
example : insertColorN skyPal ⟨some [110], ⟨40, 50, 61⟩⟩ = (skyPal ++ [⟨some [110], ⟨40, 50, 61⟩⟩], 3) := by decide
example : (traceN [] skyPal [.insert ⟨none, ⟨10, 20, 30⟩⟩, .set 1 ⟨some [122], ⟨1, 1, 1⟩⟩, .insert ⟨some [113], ⟨1, 1, 1⟩⟩, .lookup 1]).1 =
    [.idx 0, .idx 1, .rgb ⟨1, 1, 1⟩] := by decide
example : isDefaultN PalStream.dosDefault (PalStream.dosDefault.map fun c => ⟨some [100], c⟩) = true := by decide +kernel
/-- what the check is there to exclude: were the name compared (field 3), the same RGB under another name would be "new" -/
example : eqOn [3, 0, 1, 2] ⟨some [97], ⟨1, 2, 3⟩⟩ ⟨none, ⟨1, 2, 3⟩⟩ = false := by decide
/-- an ICE palette with colour names: after export → import the entries carry the names; the same RGB unnamed is found -/
def icePal : Pal := ⟨[116], [], [100], [⟨some [115, 107, 121], ⟨1, 22, 133⟩⟩, ⟨some [110, 105, 103, 104, 116], ⟨0, 0, 0⟩⟩, ⟨none, ⟨255, 254, 9⟩⟩]⟩
example : (importM .ice (exportM .ice icePal)).map (fun q => (q.colors.map (·.name), insertColorN q.colors ⟨none, ⟨0, 0, 0⟩⟩ == (q.colors, 1))) =
    some ([some [115, 107, 121], some [110, 105, 103, 104, 116], none], true) := by
  decide +kernel

/-! ## the palette of whole files written from a picture, for every number of fonts -/
section files
open IcyVerif.BinFormats

/-- SAVE → LOAD OF WHOLE FILES (XBin, ArtWorx ADF, iCE Draw IDF): for EVERY representable picture — for XBin that includes
    the pictures with TWO fonts (512-character mode) as well as those with one, raw and compressed — the palette of the
    loaded buffer is exactly the 16-colour six-bit palette that was saved: all sixteen entries, whatever the fonts are.
    (`Representable` is the quantifier of C05: 16 colours whose channels are 6-bit values expanded to 8 bits.) -/
theorem file_palette_roundtrip (f : BinFormats.Fmt) (hf : f = .xb ∨ f = .adf ∨ f = .idf) (o : Opts) (date : List Nat) (p : Pic)
    (hs : o.sauce = true) (hrep : Representable f o p = true) (hdate : dateOk date = true) :
    ∃ bytes g, save f o date p = .ok bytes ∧ fromBytes f bytes = .ok g ∧ g.pal = p.pal := by
  have h16 := rep_pal16 f o p hf hrep
  have emb : f.embeds = true := by rcases hf with rfl | rfl | rfl <;> rfl
  have key : ∃ bytes, save f o date p = .ok bytes ∧
      ((o.sauce = true ∨ looksLikeSauce bytes = false) → ∃ g, fromBytes f bytes = .ok g ∧ SamePicture f p g) := by
    -- C05's theorems now carry the exact guard `tailReadsAsSauce`; the signature test implies it (`tail_of_looks`)
    have weaken : ∀ {f : BinFormats.Fmt}, (∃ bytes, save f o date p = .ok bytes ∧
        ((o.sauce = true ∨ tailReadsAsSauce bytes = false) → ∃ g, fromBytes f bytes = .ok g ∧ SamePicture f p g)) →
        ∃ bytes, save f o date p = .ok bytes ∧
          ((o.sauce = true ∨ looksLikeSauce bytes = false) → ∃ g, fromBytes f bytes = .ok g ∧ SamePicture f p g) :=
      fun ⟨bytes, h1, h2⟩ => ⟨bytes, h1, fun hor => h2 (hor.imp id (tail_of_looks bytes))⟩
    rcases hf with rfl | rfl | rfl
    · exact weaken (xb_roundtrip o date p hrep hdate)
    · exact weaken (adf_roundtrip o date p hrep hdate)
    · exact weaken (idf_roundtrip o date p hrep hdate)
  obtain ⟨bytes, h1, h2⟩ := key
  obtain ⟨g, h3, h4⟩ := h2 (Or.inl hs)
  exact ⟨bytes, g, h1, h3, pal_eq_of_palSame p g h16 (h4.palette emb)⟩

/-- … and without a SAUCE record, unless the picture content at the end of the file reads as one (C05's recorded
    exclusion `content-reads-as-sauce`) -/
theorem file_palette_roundtrip_nosauce_partial (f : BinFormats.Fmt) (hf : f = .xb ∨ f = .adf ∨ f = .idf) (o : Opts)
    (date : List Nat) (p : Pic) (hrep : Representable f o p = true) (hdate : dateOk date = true) :
    ∃ bytes, save f o date p = .ok bytes ∧
      (looksLikeSauce bytes = false → ∃ g, fromBytes f bytes = .ok g ∧ g.pal = p.pal) := by
  have h16 := rep_pal16 f o p hf hrep
  have emb : f.embeds = true := by rcases hf with rfl | rfl | rfl <;> rfl
  have key : ∃ bytes, save f o date p = .ok bytes ∧
      ((o.sauce = true ∨ looksLikeSauce bytes = false) → ∃ g, fromBytes f bytes = .ok g ∧ SamePicture f p g) := by
    -- C05's theorems now carry the exact guard `tailReadsAsSauce`; the signature test implies it (`tail_of_looks`)
    have weaken : ∀ {f : BinFormats.Fmt}, (∃ bytes, save f o date p = .ok bytes ∧
        ((o.sauce = true ∨ tailReadsAsSauce bytes = false) → ∃ g, fromBytes f bytes = .ok g ∧ SamePicture f p g)) →
        ∃ bytes, save f o date p = .ok bytes ∧
          ((o.sauce = true ∨ looksLikeSauce bytes = false) → ∃ g, fromBytes f bytes = .ok g ∧ SamePicture f p g) :=
      fun ⟨bytes, h1, h2⟩ => ⟨bytes, h1, fun hor => h2 (hor.imp id (tail_of_looks bytes))⟩
    rcases hf with rfl | rfl | rfl
    · exact weaken (xb_roundtrip o date p hrep hdate)
    · exact weaken (adf_roundtrip o date p hrep hdate)
    · exact weaken (idf_roundtrip o date p hrep hdate)
  obtain ⟨bytes, h1, h2⟩ := key
  refine ⟨bytes, h1, fun hn => ?_⟩
  obtain ⟨g, h3, h4⟩ := h2 (Or.inr hn)
  exact ⟨g, h3, pal_eq_of_palSame p g h16 (h4.palette emb)⟩

/-- THE XBIN WRITER ON EVERY PICTURE IT ACCEPTS — one font or two (512-character mode), any cells, raw or compressed, with
    or without SAUCE, representable or not, any palette of at most 16 arbitrary 8-bit colours: the flag byte announces a
    palette block exactly when the palette is not the DOS default, and the block is the six-bit image of the palette
    padded to 16 colours.  Nothing else in the picture has a say in the palette block. -/
theorem xb_writer_palette_block (c s : Bool) (date : List Nat) (p : Pic) (bytes : List Nat) (h : xbSave c s date p = .ok bytes) :
    ((bytes.getD 10 0 &&& Gen.Xb.flagPalette == Gen.Xb.flagPalette) = !palIsDefault p.pal) ∧
    (palIsDefault p.pal = false → (bytes.drop 11).take Gen.Xb.paletteLength = asVec63 (fillTo16 p.pal)) :=
  xb_writer_palette c s date p bytes h

/-- THE XBIN LOADER ON EVERY FILE IT ACCEPTS: the palette of the loaded buffer is the expansion of the 48 bytes after
    the header when the flag byte announces a block, the DOS palette otherwise — whatever the fonts, the 512-character
    flag, the compression and the image data are -/
theorem xb_loader_palette_block (data : List Nat) (s : Option Sauce.Sauce) (g : LBuf) (h : xbLoad data s = .ok g) :
    g.pal = if (data.getD 10 0 &&& Gen.Xb.flagPalette == Gen.Xb.flagPalette) = true
      then BinFormats.from63 ((data.drop 11).take Gen.Xb.paletteLength) else dosPalette :=
  xb_loader_palette data s g h

/-- … together: what comes back from an XBin file is the six-bit quantisation of the saved palette (padded to 16), or the
    DOS palette when that was saved, for EVERY picture the writer accepts and the loader reads back -/
theorem xb_palette_any_picture (c : Bool) (date : List Nat) (p : Pic) (body : List Nat) (s : Option Sauce.Sauce) (g : LBuf)
    (hs : xbSave c false date p = .ok body) (hl : xbLoad body s = .ok g) :
    g.pal = if palIsDefault p.pal = true then dosPalette else BinFormats.from63 (asVec63 (fillTo16 p.pal)) :=
  xb_any_palette c date p body s g hs hl

/-! non-vacuity: a TWO-FONT XBin picture whose palette is custom in the HIGH half (entries 8..15) — the trigger of the
    seeded regression — is representable, and the model writes and reads it back with that palette -/
def hiPal : List BinFormats.Rgb :=
  dosPalette.take 8 ++ [(4, 8, 12), (16, 20, 24), (28, 32, 36), (40, 44, 48), (52, 56, 60), (65, 69, 73), (142, 190, 101), (255, 251, 247)]
def fntA : Font := ⟨[65], 8, List.replicate 2048 0x55⟩
def fntB : Font := ⟨[66], 8, List.replicate 2048 0xAA⟩
def twoFontPic : Pic :=
  ⟨2, 1, [[⟨0x41, ⟨7, 9, 0, 0⟩⟩, ⟨0x42, ⟨5, 15, 0, 1⟩⟩]], .ice, hiPal, [(0, fntA), (1, fntB)], none⟩
def date0 : List Nat := [50, 48, 50, 52, 48, 50, 50, 57]
set_option maxRecDepth 100000 in
example : Representable .xb ⟨true, false⟩ twoFontPic = true := by decide +kernel
set_option maxRecDepth 100000 in
example : (match save .xb ⟨true, false⟩ date0 twoFontPic with
    | .ok b => (match fromBytes .xb b with | .ok g => g.pal == hiPal && g.fonts.length == 2 | _ => false)
    | _ => false) = true := by decide +kernel

/-- a picture OUTSIDE `Representable` (8 colours only, arbitrary 8-bit values, two fonts): the writer accepts it, the
    loader reads it, and the palette is the quantised one padded with DOS colours 8..15 -/
def shortPic : Pic :=
  ⟨2, 1, [[⟨0x41, ⟨7, 1, 0, 0⟩⟩, ⟨0x42, ⟨5, 2, 0, 1⟩⟩]], .ice,
   [(1, 2, 3), (255, 254, 253), (9, 99, 199), (7, 7, 7), (0, 0, 0), (128, 64, 32), (17, 34, 51), (250, 5, 100)], [(0, fntA), (1, fntB)], none⟩
set_option maxRecDepth 100000 in
example : (match xbSave false false [] shortPic with
    | .ok b => (match xbLoad b none with
      | .ok g => g.pal == BinFormats.from63 (asVec63 (fillTo16 shortPic.pal)) && g.pal.length == 16 && g.pal.drop 8 == dosPalette.drop 8
      | _ => false)
    | _ => false) = true := by decide +kernel

end files

end IcyVerif.C16
