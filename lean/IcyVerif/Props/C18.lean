import IcyVerif.Lemmas.Codec
/-! # C18 — 8-bit attribute and code-page codecs are exact inverses on their domain
Only property theorems and non-vacuity examples live here.  Every quantifier below is over the COMPLETE domain:
all 256 bytes x 3 modes, every `Attr` value (arbitrary colours and flag word) that is expressible, all 256 /
128 codes of the generated tables, every typed character x all five converters. -/
namespace IcyVerif.C18
open IcyVerif.Codec IcyVerif.Gen.Codec

/-! ## attribute byte -/

/-- decode a DOS attribute byte, re-encode it in the same mode: the original byte, all 256 bytes, every mode
    (on the pinned tree false for `Unlimited`, see `pinned_unlimited_defect`; holds after the `fix:` commit) -/
theorem attr_dec_enc (m : IceMode) (b : Nat) (hb : b < 256) : asU8 m (fromU8 m b) = b :=
  dec_enc_core m (IceMode.mem_all m) b hb

example : asU8 .unlimited (fromU8 .unlimited 0x9C) = 0x9C := by decide
example : (fromU8 .unlimited 0x9C).isBlink = true ∧ (fromU8 .unlimited 0x9C).bg = 1 := by decide

/-- encode any attribute expressible in the mode (any `Attr`: colours are arbitrary naturals, the flag word is
    arbitrary — only its BOLD and BLINK bits matter), decode the byte: same foreground, background, blink -/
theorem attr_enc_dec (m : IceMode) (a : Attr) (h : Expressible m a) : (fromU8 m (asU8 m a)).sameColours a := by
  have hfg : a.fg < 16 := h.1
  have hbg : a.bg < 16 := by
    have := h.2.2
    cases m <;> simp only [] at this <;> omega
  exact enc_dec_core m (IceMode.mem_all m) a.fg hfg a.bg hbg a.isBold a.isBlink h

/-- the hypothesis is satisfiable by non-trivial values in every mode (underline + blink set; 16 backgrounds in iCE) -/
example : Expressible .blink ⟨14, 5, attrBlink ||| attrUnderline, 3⟩ := by decide
example : Expressible .unlimited ⟨14, 5, attrBlink ||| attrUnderline, 3⟩ := by decide
example : Expressible .ice ⟨14, 13, attrUnderline, 0⟩ := by decide

/-- `Expressible` is not an artificially small domain: for non-bold attributes (bold is not a bit of the byte) it
    is EXACTLY the set on which encode/decode preserves foreground, background and blink -/
theorem attr_enc_dec_exact (m : IceMode) (a : Attr) (hbold : a.isBold = false) :
    (fromU8 m (asU8 m a)).sameColours a ↔ Expressible m a := by
  constructor
  · intro h
    obtain ⟨h1, h2, h3⟩ := h
    have hfg : a.fg < 16 := by
      rw [← h1, fromU8_fg]
      have : asU8 m a &&& 15 ≤ 15 := Nat.and_le_right
      omega
    have hbg : a.bg < 16 := by
      rw [← h2]; exact fromU8_bg_lt m _ (encByte_lt _ _ _ _ _)
    have := enc_dec_only_core m (IceMode.mem_all m) a.fg hfg a.bg hbg a.isBlink
    unfold asU8 at h1 h2 h3
    rw [hbold] at h1 h2 h3
    have := this ⟨h1, h2, h3⟩
    unfold Expressible
    rw [hbold]; exact this
  · exact attr_enc_dec m a

/-- decoding lands in the expressible set, so with the two round trips `fromU8 m`/`asU8 m` is a bijection
    between the 256 bytes and the expressible (fg, bg, blink) triples of the mode -/
theorem attr_dec_expressible (m : IceMode) (b : Nat) (hb : b < 256) : Expressible m (fromU8 m b) :=
  dec_expressible_core m (IceMode.mem_all m) b hb

/-- a bold attribute with a bright foreground (fg 8..15) also survives: encoding only ORs bit 3 into the foreground
    nibble, it never carries into the background -/
theorem attr_enc_dec_bold (m : IceMode) (fg bg : Nat) (blink : Bool) (hfg : fg < 16) (hbright : 8 ≤ fg)
    (h : ExpressibleT m fg bg false blink) :
    (fromU8 m (encByte m fg bg true blink)).fg = fg ∧ (fromU8 m (encByte m fg bg true blink)).bg = bg ∧
    (fromU8 m (encByte m fg bg true blink)).isBlink = blink := by
  have hbg : bg < 16 := by
    have := h.2.2
    cases m <;> simp only [] at this <;> omega
  exact enc_dec_bold_core m (IceMode.mem_all m) fg hfg hbright bg hbg blink h

/-- THE DEFECT OF THE PINNED TREE (cdb5b60), as a theorem about the pinned `as_u8`: the dec/enc round trip fails,
    witness `(Unlimited, 0x80)` -/
theorem pinned_unlimited_defect : ¬ (∀ m b, b < 256 → asU8Pinned m (fromU8 m b) = b) := by
  intro h
  exact absurd (h .unlimited 0x80 (by decide)) (by decide)

/-- … and it fails at exactly the 128 `Unlimited` bytes with bit 7 set, nowhere else -/
theorem pinned_defect_exact (m : IceMode) (b : Nat) (hb : b < 256) :
    asU8Pinned m (fromU8 m b) = b ↔ ¬ (m = .unlimited ∧ 128 ≤ b) := pinned_core m (IceMode.mem_all m) b hb

/-! ## code pages -/

/-- CP437: all 256 codes map to Unicode and back to the same code -/
theorem cp437_rt (c : Nat) (hc : c < 256) : fromUni .cp437 (toUni .cp437 c) = c := by
  have := allFrom_spec Pcp437 cp437 0 cp437_ok.1 c c (by rw [cp437_ok.2]; exact hc)
  simpa [Pcp437, toUni, tableToUni] using this

example : toUni .cp437 0xB0 = 0x2591 ∧ fromUni .cp437 0x2591 = 0xB0 := by decide +kernel

/-- ATASCII: the 128 base codes map to Unicode and back to the same code -/
theorem atascii_rt (c : Nat) (hc : c < 128) : fromUni .atascii (toUni .atascii c) = c := by
  have := allFrom_spec Patari atari 0 atari_ok.1 c c (by rw [atari_ok.2.1]; omega)
  simp only [Patari, atari_ok.2.2, Nat.zero_add, Bool.or_eq_true, decide_eq_true_eq, beq_iff_eq] at this
  rcases this with h | h
  · omega
  · exact h

example : toUni .atascii 0 = 0x2665 ∧ fromUni .atascii 0x2665 = 0 := by decide +kernel
/-- the inverse-video half is outside the claim, and indeed does not round-trip -/
example : fromUni .atascii (toUni .atascii 128) = 0 := by decide +kernel

/-- every emulation's converter: a typed letter, digit or space converts to the emulation's code and back to
    the same character -/
theorem typed_rt (c : Conv) (ch : Nat) (h : IsTyped ch) : toUni c (fromUni c ch) = ch := by
  have hlt : ch < 123 := by unfold IsTyped at h; omega
  exact typed_core c (Conv.mem_all c) ch hlt h

/-- … and "the emulation's code" is the character's own ASCII code wherever the emulation displays that code as the
    character (space is sent as 0x20 although other Viewdata / Mode 7 codes also display as a blank) -/
theorem typed_code (c : Conv) (ch : Nat) (h : IsTyped ch) (hd : toUni c ch = ch) : fromUni c ch = ch := by
  have hlt : ch < 123 := by unfold IsTyped at h; omega
  exact typed_code_core c (Conv.mem_all c) ch hlt h hd

example : IsTyped 0x20 ∧ toUni .viewdata 0x20 = 0x20 ∧ toUni .viewdata 0xC0 = 0x20 ∧ fromUni .viewdata 0x20 = 0x20 := by decide +kernel

/-- the same over the explicit list of the 63 typed characters -/
theorem typed_rt_list (c : Conv) (ch : Nat) (h : ch ∈ typedChars) : toUni c (fromUni c ch) = ch := by
  have hlt : ch < 123 := by
    by_cases hl : ch < 123
    · exact hl
    · exfalso
      have : ∀ x ∈ typedChars, x < 123 := by decide
      exact hl (this ch h)
  exact typed_rt c ch ((typedChars_spec ch hlt).mp h)

example : typedChars.length = 63 := by decide
example : IsTyped 0x61 ∧ fromUni .petscii 0x61 = 0x41 ∧ toUni .petscii 0x41 = 0x61 := by decide +kernel
example : IsTyped 0x66 ∧ fromUni .viewdata 0x66 = 0x66 ∧ toUni .viewdata 0x23 = 0x66 := by decide +kernel

/-- PETSCII `CHAR_TABLE` is a bijection: every pair converts in both directions (so the two derived hash maps
    lose no pair to a duplicate key) -/
theorem petscii_table_rt (p : Nat × Nat) (hp : p ∈ petscii) :
    fromUni .petscii p.1 = p.2 ∧ toUni .petscii p.2 = p.1 := by
  have := allPairs_spec Ppetscii petscii petscii_ok p hp
  simp only [Ppetscii, Bool.and_eq_true, beq_iff_eq, decide_eq_true_eq] at this
  exact ⟨this.1.1.1, this.1.1.2⟩

example : (0x5C, 0x9C) ∈ petscii := by decide

end IcyVerif.C18
