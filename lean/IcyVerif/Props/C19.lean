import IcyVerif.Lemmas.Crc16
import IcyVerif.Lemmas.Crc32Slice
/-! # C19 — table-driven CRCs equal their bitwise definitions
Only property theorems and non-vacuity examples live here. -/
namespace IcyVerif.C19
open IcyVerif.Crc IcyVerif.Gen.Crc

/-- every entry of the regenerated CRC-16 table is eight shift/xor steps of its index -/
theorem crc16_table_entries (i : Nat) (hi : i < 256) : tab16 i = iter step16 8 (BitVec.ofNat 16 (i <<< 8)) :=
  tab16_eq i hi

/-- every entry of all 16 rows of the regenerated sliced CRC-32 table: row k, entry i is
    8·(k+1) bit steps of i -/
theorem crc32_table_entries (k i : Nat) (hk : k < 16) (hi : i < 256) :
    tab32 k i = iter (iter step32 8) (k+1) (BitVec.ofNat 32 i) := tab32_eq k i hk hi

theorem update_crc16_is_bitwise (c : BitVec 16) (b : BitVec 8) : updateCrc16 c b = bitUpd16 c b :=
  update_crc16_eq c b

theorem update_crc32_is_bitwise (c : BitVec 32) (b : BitVec 8) : updateCrc32 c b = bitUpd32 c b :=
  update_crc32_eq c b

/-- `get_crc16` = bitwise polynomial division (poly 0x1021 MSB first, init 0), every byte string -/
theorem get_crc16_eq (bs : List (BitVec 8)) : getCrc16 bs = bitCrc16 bs := get_crc16_eq' bs 0

/-- feeding bytes one by one through `update_crc16` from 0 gives `get_crc16` -/
theorem incremental_crc16 (bs : List (BitVec 8)) : bs.foldl updateCrc16 0 = getCrc16 bs := rfl

theorem loop_eq (fuel : Nat) (r : BitVec 32) (buf : List (BitVec 8)) (h : buf.length ≤ fuel) :
    crc32Loop fuel r buf = ~~~ (buf.foldl bitUpd32 r) := by
  have tail : ∀ (r : BitVec 32) (buf : List (BitVec 8)),
      updateSlow (if crc32TailNot then ~~~ r else r) buf = ~~~ (buf.foldl bitUpd32 r) := by
    intro r buf
    have : crc32TailNot = true := rfl
    simp only [this, if_true, updateSlow, BitVec.not_not]
    congr 1
    induction buf generalizing r with
    | nil => rfl
    | cons b bs ih => simp only [List.foldl]; rw [slow_step_eq, ih]
  induction fuel generalizing r buf with
  | zero => simp only [crc32Loop]; exact tail r buf
  | succ fuel ih =>
    simp only [crc32Loop]
    split
    · rename_i hge
      have hb : crc32Block = 16 := rfl
      have ha : crc32Advance = 16 := rfl
      rw [hb] at hge
      rw [ha]
      match buf, hge, h with
      | b0 :: b1 :: b2 :: b3 :: b4 :: b5 :: b6 :: b7 :: b8 :: b9 :: b10 :: b11 :: b12 :: b13 :: b14 :: b15 :: rest, _, h =>
        rw [slice_eq, ih _ _ (by simp at h ⊢; omega)]
        simp [List.foldl]
    · exact tail r buf

/-- `get_crc32` (16-byte sliced fast path + `update_slow` tail) = bitwise polynomial division
    (poly 0xEDB88320 LSB first, init all-ones, final inversion), for every byte string -/
theorem get_crc32_eq (bs : List (BitVec 8)) : getCrc32 bs = bitCrc32 bs := by
  unfold getCrc32 bitCrc32
  rw [loop_eq _ _ _ (Nat.le_refl _)]
  rfl

/-- feeding bytes one by one through `update_crc32` from all-ones, then inverting, gives `get_crc32` -/
theorem incremental_crc32 (bs : List (BitVec 8)) :
    ~~~ (bs.foldl updateCrc32 0xFFFFFFFF#32) = getCrc32 bs := by
  rw [get_crc32_eq]; unfold bitCrc32
  congr 1
  generalize (0xFFFFFFFF#32) = r
  induction bs generalizing r with
  | nil => rfl
  | cons b bs ih => simp only [List.foldl]; rw [update_crc32_eq, ih]

/-- the hand-modelled function bodies are textually what the model was written from (the translator copies the
    bodies out of `src/crc.rs`; any edit of them must be re-modelled, so it breaks this obligation) -/
theorem source_skeleton_unchanged :
    src_get_crc16 = "let mut crc = 0; for b in block { crc = update_crc16(crc, *b); } crc" ∧
    src_update_crc16 = "(crc << 8) ^ CRC16_CCITT_TABLE[(((crc >> 8) as u8) ^ b) as usize]" ∧
    src_update_slow = "let mut crc = !prev; for &byte in buf { crc = CRC32_TABLE[0][((crc as u8) ^ byte) as usize] ^ (crc >> 8); } !crc" ∧
    src_update_crc32 = "(crc >> 8) ^ CRC32_TABLE[0][(b ^ crc as u8) as usize]" ∧
    src_get_crc32_loop = "while buf.len() >= 16 { result = CHAIN; buf = &buf[16..]; } update_slow(!result, buf)" :=
  ⟨rfl, rfl, rfl, rfl, rfl⟩

/-! non-vacuity: the values of the repository's own unit tests -/
example : getCrc16 [4, 0, 0, 5, 3] = 0x4690#16 := by decide +kernel
example : getCrc32 [4, 0, 0, 5, 3] = 0xD7DCF422#32 := by decide +kernel
example : getCrc32 (List.replicate 20 7) = bitCrc32 (List.replicate 20 7) := by decide +kernel

end IcyVerif.C19
