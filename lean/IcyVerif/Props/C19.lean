import IcyVerif.Lemmas.Crc16
import IcyVerif.Lemmas.Crc32Slice
import IcyVerif.Lemmas.CrcSites
/-! # C19 — table-driven CRCs equal their bitwise definitions
Only property theorems and non-vacuity examples live here. -/
namespace IcyVerif.C19
open IcyVerif.Crc IcyVerif.Gen.Crc

/-- every entry of the regenerated CRC-16 table is eight shift/xor steps of its index -/
theorem crc16_table_entries (i : Nat) (hi : i < 256) : tab16 i = iter step16 8 (BitVec.ofNat 16 (i <<< 8)) :=
  tab16_eq i hi

/-- every entry of all 16 rows of the regenerated sliced CRC-32 table: row k, entry i is
    8·(k+1) bit steps of i -/
theorem crc32_table_entries (k i : Nat) (hk : k < 16) (hi : i < 256) :
    tab32 k i = iter (iter step32 8) (k+1) (BitVec.ofNat 32 i) := tab32_eq k i hk hi

theorem update_crc16_is_bitwise (c : BitVec 16) (b : BitVec 8) : updateCrc16 c b = bitUpd16 c b :=
  update_crc16_eq c b

theorem update_crc32_is_bitwise (c : BitVec 32) (b : BitVec 8) : updateCrc32 c b = bitUpd32 c b :=
  update_crc32_eq c b

/-- `get_crc16` = bitwise polynomial division (poly 0x1021 MSB first, init 0), every byte string -/
theorem get_crc16_eq (bs : List (BitVec 8)) : getCrc16 bs = bitCrc16 bs := get_crc16_eq' bs 0

/-- feeding bytes one by one through `update_crc16` from 0 gives `get_crc16` -/
theorem incremental_crc16 (bs : List (BitVec 8)) : bs.foldl updateCrc16 0 = getCrc16 bs := rfl

theorem loop_eq (fuel : Nat) (r : BitVec 32) (buf : List (BitVec 8)) (h : buf.length ≤ fuel) :
    crc32Loop fuel r buf = ~~~ (buf.foldl bitUpd32 r) := by
  have tail : ∀ (r : BitVec 32) (buf : List (BitVec 8)),
      updateSlow (if crc32TailNot then ~~~ r else r) buf = ~~~ (buf.foldl bitUpd32 r) := by
    intro r buf
    have : crc32TailNot = true := rfl
    simp only [this, if_true, updateSlow, BitVec.not_not]
    congr 1
    induction buf generalizing r with
    | nil => rfl
    | cons b bs ih => simp only [List.foldl]; rw [slow_step_eq, ih]
  induction fuel generalizing r buf with
  | zero => simp only [crc32Loop]; exact tail r buf
  | succ fuel ih =>
    simp only [crc32Loop]
    split
    · rename_i hge
      have hb : crc32Block = 16 := rfl
      have ha : crc32Advance = 16 := rfl
      rw [hb] at hge
      rw [ha]
      match buf, hge, h with
      | b0 :: b1 :: b2 :: b3 :: b4 :: b5 :: b6 :: b7 :: b8 :: b9 :: b10 :: b11 :: b12 :: b13 :: b14 :: b15 :: rest, _, h =>
        rw [slice_eq, ih _ _ (by simp at h ⊢; omega)]
        simp [List.foldl]
    · exact tail r buf

/-- `get_crc32` (16-byte sliced fast path + `update_slow` tail) = bitwise polynomial division
    (poly 0xEDB88320 LSB first, init all-ones, final inversion), for every byte string -/
theorem get_crc32_eq (bs : List (BitVec 8)) : getCrc32 bs = bitCrc32 bs := by
  unfold getCrc32 bitCrc32
  rw [loop_eq _ _ _ (Nat.le_refl _)]
  rfl

/-- feeding bytes one by one through `update_crc32` from all-ones, then inverting, gives `get_crc32` -/
theorem incremental_crc32 (bs : List (BitVec 8)) :
    ~~~ (bs.foldl updateCrc32 0xFFFFFFFF#32) = getCrc32 bs := by
  rw [get_crc32_eq]; unfold bitCrc32
  congr 1
  generalize (0xFFFFFFFF#32) = r
  induction bs generalizing r with
  | nil => rfl
  | cons b bs ih => simp only [List.foldl]; rw [update_crc32_eq, ih]

/-- the hand-modelled function bodies are textually what the model was written from (the translator copies the
    bodies out of `src/crc.rs`; any edit of them must be re-modelled, so it breaks this obligation) -/
theorem source_skeleton_unchanged :
    src_get_crc16 = "let mut crc = 0; for b in block { crc = update_crc16(crc, *b); } crc" ∧
    src_update_crc16 = "(crc << 8) ^ CRC16_CCITT_TABLE[(((crc >> 8) as u8) ^ b) as usize]" ∧
    src_update_slow = "let mut crc = !prev; for &byte in buf { crc = CRC32_TABLE[0][((crc as u8) ^ byte) as usize] ^ (crc >> 8); } !crc" ∧
    src_update_crc32 = "(crc >> 8) ^ CRC32_TABLE[0][(b ^ crc as u8) as usize]" ∧
    src_get_crc32_loop = "while buf.len() >= 16 { result = CHAIN; buf = &buf[16..]; } update_slow(!result, buf)" :=
  ⟨rfl, rfl, rfl, rfl, rfl⟩

/-! ## The call sites: the engine's own incremental use of `update_crc16` / `update_crc32`

Second sentence of the property ("feeding a string byte by byte through the incremental update functions gives the same value as
the one-shot functions") at the three places where the engine feeds bytes itself. -/
section Sites
open IcyVerif.CrcSites IcyVerif.Gen.CrcSites

/-- the byte string one visible cell contributes to DECRQCRA: `ch as u8`, attribute word, foreground, background, all big endian
    (the order is REGENERATED from the source: `rectFields`) -/
theorem rect_cell_serial (c : Cell) :
    c.serial = [BitVec.ofNat 8 c.ch,
                BitVec.ofNat 8 (c.attr >>> 8), BitVec.ofNat 8 c.attr,
                BitVec.ofNat 8 (c.fg >>> 24), BitVec.ofNat 8 (c.fg >>> 16), BitVec.ofNat 8 (c.fg >>> 8), BitVec.ofNat 8 c.fg,
                BitVec.ofNat 8 (c.bg >>> 24), BitVec.ofNat 8 (c.bg >>> 16), BitVec.ofNat 8 (c.bg >>> 8), BitVec.ofNat 8 c.bg] := rfl

/-- which cells: rows `pt..pb`, columns `pl..pr` (upper bounds exclusive, as the loops are written), row-major, visible cells only -/
theorem rect_cells_spec (g : Grid) (pt pl pb pr : Nat) :
    rectCells g pt pl pb pr =
      (List.range' pt (pb - pt)).flatMap fun y =>
        ((List.range' pl (pr - pl)).map fun x => getCell g x y).filter Cell.visible := by
  unfold rectCells loopRange
  have hy : rectIncl_y = false := rfl
  have hx : rectIncl_x = false := rfl
  simp only [hy, hx, Bool.false_eq_true, if_false]
  congr 1
  funext y
  induction List.range' pl (pr - pl) with
  | nil => rfl
  | cons x xs ih =>
    simp only [List.filterMap_cons, List.map_cons, List.filter_cons]
    by_cases h : (getCell g x y).visible <;> simp [h, ih]

/-- DECRQCRA's nested feeding loops = the one-shot `get_crc16` = bitwise CRC-16/XMODEM of the area's byte string,
    for every grid and every area -/
theorem rect_checksum_eq (g : Grid) (pt pl pb pr : Nat) :
    rectChecksum g pt pl pb pr = getCrc16 (rectSerial g pt pl pb pr) ∧
    rectChecksum g pt pl pb pr = bitCrc16 (rectSerial g pt pl pb pr) := by
  have h := rectChecksum_fold g pt pl pb pr
  exact ⟨h, by rw [h, ← get_crc16_eq]; rfl⟩

/-- the whole request: six parameters and an area inside the terminal give the reply `ESC P id ! ~ hhhh ESC \` carrying the bitwise
    CRC-16 of the area's byte string; everything else is an error and never a reply -/
theorem decrqcra_reply (nums : List Int) (tw th : Int) (g : Grid) :
    (∀ s, decrqcra nums tw th g = .send s →
      nums.length = 6 ∧
      0 ≤ nums.getD 2 0 ∧ nums.getD 2 0 ≤ nums.getD 4 0 ∧ nums.getD 4 0 ≤ th ∧
      0 ≤ nums.getD 3 0 ∧ nums.getD 3 0 ≤ nums.getD 5 0 ∧ nums.getD 5 0 ≤ tw ∧
      s = rectReply (nums.getD 0 0)
            (bitCrc16 (rectSerial g (nums.getD 2 0).toNat (nums.getD 3 0).toNat (nums.getD 4 0).toNat (nums.getD 5 0).toNat))) ∧
    (nums.length = 6 → 0 ≤ nums.getD 2 0 → nums.getD 2 0 ≤ nums.getD 4 0 → nums.getD 4 0 ≤ th →
      0 ≤ nums.getD 3 0 → nums.getD 3 0 ≤ nums.getD 5 0 → nums.getD 5 0 ≤ tw →
      ∃ s, decrqcra nums tw th g = .send s) := by
  have c6 : rectNumCount = 6 := rfl
  have i0 : rectIdx_id = 0 := rfl
  have i2 : rectIdx_pt = 2 := rfl
  have i3 : rectIdx_pl = 3 := rfl
  have i4 : rectIdx_pb = 4 := rfl
  have i5 : rectIdx_pr = 5 := rfl
  unfold decrqcra
  rw [c6, i0, i2, i3, i4, i5]
  generalize nums.getD 0 0 = id
  generalize nums.getD 2 0 = pt
  generalize nums.getD 3 0 = pl
  generalize nums.getD 4 0 = pb
  generalize nums.getD 5 0 = pr
  have bad_iff : areaBad pt pl pb pr tw th = false ↔ (0 ≤ pt ∧ pt ≤ pb ∧ pb ≤ th ∧ 0 ≤ pl ∧ pl ≤ pr ∧ pr ≤ tw) := by
    unfold areaBad
    simp only [Bool.or_eq_false_iff, decide_eq_false_iff_not, Int.not_lt]
    omega
  constructor
  · intro s hs
    by_cases hl : nums.length = 6
    · rw [if_neg (by simpa using hl)] at hs
      dsimp only at hs
      cases hb : areaBad pt pl pb pr tw th with
      | true => rw [hb] at hs; simp only [if_true] at hs; cases hs
      | false =>
        rw [hb] at hs
        simp only [Bool.false_eq_true, if_false, RectOut.send.injEq] at hs
        obtain ⟨a, b, c, d, e, f⟩ := bad_iff.mp hb
        refine ⟨hl, a, b, c, d, e, f, ?_⟩
        rw [← hs, (rect_checksum_eq g _ _ _ _).2]
    · rw [if_pos (by simpa using hl)] at hs
      cases hs
  · intro hl a b c d e f
    have hb := bad_iff.mpr ⟨a, b, c, d, e, f⟩
    rw [if_neg (by simpa using hl)]
    dsimp only
    rw [hb]
    exact ⟨_, rfl⟩

/-- `BitFont::calculate_checksum` = the raw CRC-32 register (start 0, no inversion) folded over the bytes of EVERY glyph whose
    index is below `length`, in index order; as a table-driven fold, as the bitwise definition, and in terms of the one-shot
    `get_crc32` (the all-ones start and the final inversion cancel by XOR-linearity) -/
theorem font_checksum_eq (length : Int) (t : GlyphTable) :
    fontChecksum length t = (fontBytes length t).foldl updateCrc32 0 ∧
    fontChecksum length t = (fontBytes length t).foldl bitUpd32 0 ∧
    fontChecksum length t = getCrc32 (fontBytes length t) ^^^ getCrc32 (List.replicate (fontBytes length t).length 0) := by
  have h0 : BitVec.ofNat 32 fontInit = 0 := rfl
  have h := fontChecksum_fold length t
  rw [h0] at h
  refine ⟨h, ?_, ?_⟩
  · rw [h, fold_upd_eq_bit]
  · rw [h, fold_upd_eq_bit, raw_zero_eq, get_crc32_eq, get_crc32_eq]

/-- the loop runs over `0..length` exactly: index `i` contributes iff `i < length` (and it is a `char` and the glyph exists) -/
theorem font_loop_spec (length : Int) : fontLoop length = List.range length.toNat := by
  unfold fontLoop loopRange
  have h1 : fontLoopIncl = false := rfl
  have h2 : fontLoopFrom = 0 := rfl
  simp [h1, h2, List.range_eq_range']

/-- coverage: for a font that has all its `length` glyphs (any number of them below the surrogate range — 256, 512, …) the
    checksum is the fold over the WHOLE glyph data, i.e. over `convert_to_u8_data()` -/
theorem font_checksum_covers (gs : List (List Byte)) (h : gs.length ≤ 0xD800) :
    fontChecksum gs.length (gs.map some) = gs.flatten.foldl updateCrc32 0 := by
  rw [(font_checksum_eq _ _).1]
  congr 1
  unfold fontBytes
  rw [font_loop_spec]
  have := filterMap_glyphs [] gs (by simpa using h)
  simp only [List.length_nil, List.nil_append] at this
  rw [Int.toNat_natCast, List.range_eq_range', this]

/-- `Palette::get_checksum` after ANY history of palette operations (pushes, edits, removals, earlier `get_checksum` calls in any
    split) on a freshly constructed palette returns the raw CRC-32 register (start 0) folded over the r,g,b bytes of ALL colours
    present at that moment — as a table-driven fold, as the bitwise definition, and in terms of the one-shot `get_crc32` -/
theorem palette_checksum_any_history (cs : List Rgb) (ops : List PalOp) :
    let p := (Pal.fresh cs).run ops
    p.getChecksum.2 = (palBytes p.colors).foldl updateCrc32 0 ∧
    p.getChecksum.2 = (palBytes p.colors).foldl bitUpd32 0 ∧
    p.getChecksum.2 = getCrc32 (palBytes p.colors) ^^^ getCrc32 (List.replicate (palBytes p.colors).length 0) := by
  intro p
  have hg : p.Good := good_run _ ops (good_fresh cs)
  have h := getChecksum_of_good p hg
  rw [colors_fold] at h
  refine ⟨h, ?_, ?_⟩
  · rw [h, fold_upd_eq_bit]
  · rw [h, fold_upd_eq_bit, raw_zero_eq, get_crc32_eq, get_crc32_eq]

/-- the r,g,b order of one colour (REGENERATED: `palFields`) -/
theorem palette_color_serial (c : Rgb) : c.serial = [BitVec.ofNat 8 c.r, BitVec.ofNat 8 c.g, BitVec.ofNat 8 c.b] := rfl

/-- repeated calls without a change in between return the same value and feed nothing -/
theorem palette_checksum_idempotent (cs : List Rgb) (ops : List PalOp) :
    let p := ((Pal.fresh cs).run ops).getChecksum.1
    p.getChecksum = (p, ((Pal.fresh cs).run ops).getChecksum.2) := by
  intro p
  show ((Pal.fresh cs).run ops).getChecksum.1.getChecksum = (((Pal.fresh cs).run ops).getChecksum.1, _)
  unfold Pal.getChecksum
  simp

/-- the hand-modelled parts of the three call sites (and of every `Palette` method that writes the colour vector or the cache) are
    textually what the model was written from; the number of places that write `self.colors` / the cache fields is pinned, so a
    new writer has to be modelled before this obligation checks again -/
theorem call_sites_skeleton_unchanged :
    src_decrqcra = "self.state = EngineState::Default; if self.parsed_numbers.len() != 6 { return Err(ParserError::UnsupportedEscapeSequence(self.current_escape_sequence.clone()).into()); } let pt = self.parsed_numbers[2]; let pl = self.parsed_numbers[3]; let pb = self.parsed_numbers[4]; let pr = self.parsed_numbers[5]; if pt > pb || pl > pr || pr > buf.terminal_state.get_width() || pb > buf.terminal_state.get_height() || pl < 0 || pt < 0 { return Err(ParserError::UnsupportedEscapeSequence(format!(\"invalid area for requesting checksum pt:{pt} pl:{pl} pb:{pb} pr:{pr}\")).into()); } let mut crc16 = 0; for y in pt..pb { for x in pl..pr { let ch = buf.get_char((x, y)); if ch.is_visible() { SERIAL } } } Ok(CallbackAction::SendString(format!(\"\\x1BP{}!~{crc16:04X}\\x1B\\\\\", self.parsed_numbers[0])))" ∧
    src_is_visible = "(self.attribute.attr & crate::attribute::INVISIBLE) == 0" ∧
    src_font_calculate_checksum = "let mut crc = 0; for ch in 0..self.length { if let Some(glyph) = char::from_u32(ch as u32).and_then(|ch| self.get_glyph(ch)) { for b in &glyph.data { crc = update_crc32(crc, *b); } } } self.checksum = crc;" ∧
    src_font_get_checksum = "self.checksum" ∧
    src_font_get_glyph = "self.glyphs.get(&ch)" ∧
    src_pal_get_checksum = "for i in self.old_checksum..self.colors.len() { let c = &self.colors[i]; FIELDS; } self.old_checksum = self.colors.len(); self.checksum" ∧
    src_pal_invalidate_checksum = "self.old_checksum = 0; self.checksum = 0;" ∧
    src_pal_push = "self.colors.push(color);" ∧
    src_pal_set_color = "if self.colors.len() <= color as usize { self.colors.resize(color as usize + 1, Color::default()); } self.colors[color as usize] = color_struct; self.invalidate_checksum();" ∧
    src_pal_set_color_rgb = "if self.colors.len() <= color as usize { self.colors.resize(color as usize + 1, Color::default()); } self.colors[color as usize] = Color { name: None, r, g, b }; self.invalidate_checksum();" ∧
    src_pal_set_color_hsl = "if self.colors.len() <= color as usize { self.colors.resize(color as usize + 1, Color::default()); } HSL; self.colors[color as usize] = Color { name: None, r, g, b }; self.invalidate_checksum();" ∧
    src_pal_clear = "self.colors.clear(); self.invalidate_checksum();" ∧
    src_pal_resize = "if size > self.colors.len() { self.fill_to_16(); self.colors.resize(size, Color::default()); } if size < self.colors.len() { self.colors.resize(size, Color::default()); self.invalidate_checksum(); }" ∧
    src_pal_fill_to_16 = "if self.colors.len() < DOS_DEFAULT_PALETTE.len() { (self.colors.len()..DOS_DEFAULT_PALETTE.len()).for_each(|i| { self.colors.push(DOS_DEFAULT_PALETTE[i].clone()); }); }" ∧
    src_pal_insert_color = "for i in 0..self.colors.len() { let col = self.colors[i].clone(); if col.r == color.r && col.g == color.g && col.b == color.b { return i as u32; } } self.colors.push(color); (self.colors.len() - 1) as u32" ∧
    src_pal_len = "self.colors.len()" ∧
    palColorWrites = 12 ∧ palCacheWrites = 6 ∧ palInitOld = 0 ∧ palInitReg = 0 ∧ attrInvisible = 0x8000 :=
  ⟨rfl, rfl, rfl, rfl, rfl, rfl, rfl, rfl, rfl, rfl, rfl, rfl, rfl, rfl, rfl, rfl, rfl, rfl, rfl, rfl, rfl⟩

/-! non-vacuity of the call-site theorems -/
-- a 2x2 grid with an underlined cell, a 300/256 colour pair, an invisible cell; the area is the whole grid
example : rectSerial [[⟨65, 0x10, 7, 0⟩, ⟨66, 0x8000, 1, 2⟩], [⟨0x2500, 0x208, 300, 256⟩, ⟨67, 0, 0x80123456, 15⟩]] 0 0 2 2 =
    [65, 0, 0x10, 0, 0, 0, 7, 0, 0, 0, 0,
     0, 2, 8, 0, 0, 1, 0x2C, 0, 0, 1, 0,
     67, 0, 0, 0x80, 0x12, 0x34, 0x56, 0, 0, 0, 15] := by decide +kernel
example : decrqcra [7, 1, 0, 0, 1, 1] 80 25 [[⟨97, 0, 7, 0⟩]] = .send (rectReply 7 (bitCrc16 [97, 0, 0, 0, 0, 0, 7, 0, 0, 0, 0])) := by
  decide +kernel
example : decrqcra [7, 1, 0, 0, 26, 1] 80 25 [] = .areaError 0 0 26 1 := by decide +kernel
-- two 257-glyph fonts (1 byte per glyph) that differ only in glyph 256 have different checksums
example : fontChecksum 257 ((List.replicate 256 (some [0x55])) ++ [some [1]]) ≠
          fontChecksum 257 ((List.replicate 256 (some [0x55])) ++ [some [2]]) := by decide +kernel
-- exactly one pending colour when `get_checksum` is called again
example : ((Pal.fresh [⟨1, 2, 3⟩]).run [.getChecksum, .push ⟨4, 5, 6⟩]).getChecksum.2 =
          [1, 2, 3, 4, 5, 6].foldl bitUpd32 0 := by decide +kernel
-- an already summed colour is edited
example : ((Pal.fresh [⟨1, 2, 3⟩]).run [.getChecksum, .setColor 0 ⟨9, 9, 9⟩]).getChecksum.2 = [9, 9, 9].foldl bitUpd32 0 := by
  decide +kernel
end Sites

/-! non-vacuity: the values of the repository's own unit tests -/
example : getCrc16 [4, 0, 0, 5, 3] = 0x4690#16 := by decide +kernel
example : getCrc32 [4, 0, 0, 5, 3] = 0xD7DCF422#32 := by decide +kernel
example : getCrc32 (List.replicate 20 7) = bitCrc32 (List.replicate 20 7) := by decide +kernel

end IcyVerif.C19
