import IcyVerif.Lemmas.RipStep
import IcyVerif.Lemmas.Bgi
import IcyVerif.Lemmas.BgiLine
import IcyVerif.Lemmas.BgiTotal
import IcyVerif.Model.BgiOps
import IcyVerif.Lemmas.Igs
set_option linter.unusedSimpArgs false
set_option linter.unusedVariables false
/-!
# C20 — RIPscrip and IGS command streams never crash or stall the engine

Full statement (properties.jsonl): feeding any character stream to the RIPscrip or the IGS graphics emulation yields
an action or an error for every character; it never panics or aborts, every command finishes in time bounded by
the canvas size rather than by its coordinate values, and the exposed pixel canvas is always a complete
width x height image.

This file: the RIP lexer, the BGI core and the IGS lexer.  `Props/C20Canvas.lean` adds the RIP canvas (flood fill,
the exposed picture, totality of every modelled command), `Props/C20Igs.lean` the IGS DrawExecutor (argument
validation, the executor invariant, picture, lines, flood fill, blits).  Proved here, for ALL inputs, about the models:
 * the RIP lexer over the regenerated command table (`rip_lex_total`, `rip_step_total`, `base36_bounded`,
   `rip_table_wellformed`),
 * the BGI core (`put_pixel_in_bounds`, `put_pixel_keeps_canvas`, `bar_rect_cost`, `bar_rect_cost_in_window`,
   `bar_no_panic`, `fill_span_cost`, `line_cost`, `canvas_complete`),
 * the IGS lexer and loop arithmetic (`igs_lex_total`, `igs_lex_total_partial`, `igs_loop_delay_zero`,
   `igs_loop_terminates`, `igs_loop_terminates_nonneg`, `igs_numbers_nonneg`, `igs_loop_counter_safe`).
NOT covered by any theorem (exploration-supported only: the harness runs the real code with the panic / time /
picture-size oracle): RIP arcs, ellipses, Béziers in f64, filled polygon, stroked fonts, buttons, icons; IGS text
output; the ANSI fallback.

`_partial` statements: `igs_lex_total_partial` — the IGS lexer has one reachable panic (`self.i += self.step`
overflowing i32 for a loop step near 2^31); the statement names it as the only one, `igs_lex_total` excludes it by
bounding the numbers (every value of the property's quantifier, <= 99999, is inside the bound).
`igs_loop_terminates` is an equivalence; since the step-0 repair its excluded case (a negative step) cannot be produced
by the lexer (`igs_loop_terminates_nonneg`).
-/
namespace IcyVerif.C20
open IcyVerif

-- ================================================================================================ RIP lexer
/-- The regenerated command table satisfies the conditions under which the generic parameter interpreter cannot
panic: `parse_base_36` is checked, no arm unwraps, vector arms start at an even state, the polygon bound reads a
two-digit field. -/
theorem rip_table_wellformed : Rip.tableOk Rip.genTable = true := Rip.gen_table_ok

/-- `parse_base_36` (as repaired): never panics; an accepted digit gives `n * 36 + d <= i32::MAX`, and a value that
had at most `k` digits has at most `k + 1` afterwards. -/
theorem base36_bounded (n : Int) (c : Nat) :
    (∀ site, Rip.parseBase36 true n c ≠ .panic site) ∧
    (∀ v k, 0 ≤ n → n < 36 ^ k → Rip.parseBase36 true n c = .ok v → 0 ≤ v ∧ v < 36 ^ (k + 1) ∧ v ≤ Rip.i32Max) := by
  refine ⟨fun site => Rip.parseBase36_checked_no_panic n c site, ?_⟩
  intro v k h0 hk hv
  obtain ⟨d, hd, hv', hmax⟩ := Rip.parseBase36_ok hv
  have hd36 := Rip.digit36_lt hd
  have hp : (36 : Int) ^ (k + 1) = 36 ^ k * 36 := Int.pow_succ 36 k
  refine ⟨by omega, ?_, hmax⟩
  rw [hp, hv']
  omega

example : Rip.parseBase36 true 35 90 = .ok 1295 := by rfl
example : Rip.parseBase36 true 2147483647 90 = .err := by rfl

/-- One character: in every state satisfying the invariant, for every character and every class of the ANSI
fallback state, `print_char` answers (an action, an error, the result of a command run or of the fallback) — it is
never stuck and never panics — and the invariant is kept.  (`pstate < i32::MAX`: the parameter counter is an i32
that grows by at most one per character.) -/
theorem rip_step_total (s : Rip.Lex) (ch : Nat) (fb : Rip.Fb) (hg : Rip.Good Rip.genTable s) (hp : s.pstate < Rip.i32Max) :
    ∃ s' o, Rip.step Rip.genTable s ch fb = .ok s' o ∧ Rip.Good Rip.genTable s' ∧ s'.pstate ≤ s.pstate + 1 :=
  Rip.step_good Rip.genTable rip_table_wellformed s ch fb hg hp

/-- Every stream shorter than 2^31 - 1 characters, with any behaviour of the ANSI fallback, is consumed completely:
no character makes the RIP lexer panic or get stuck. -/
theorem rip_lex_total (cs : List (Nat × Rip.Fb)) (hlen : (cs.length : Int) < Rip.i32Max) :
    ∃ s o, Rip.run Rip.genTable Rip.Lex.init cs = .ok s o ∧ Rip.Good Rip.genTable s := by
  apply Rip.run_good Rip.genTable rip_table_wellformed cs Rip.Lex.init (Rip.good_init _)
  simp only [Rip.Lex.init]
  omega

/-- final lexer state of a stream whose fallback is always in its default state -/
def ripFinal (cs : List Nat) : Option Rip.Lex :=
  match Rip.run Rip.genTable Rip.Lex.init (cs.map (·, Rip.Fb.dflt)) with
  | .ok s _ => some s
  | .panic _ => none

/-- non-vacuity: "!|c0F|" runs one command (Color) and waits for the next command letter -/
example : (ripFinal [33, 124, 99, 48, 70, 124]).map (fun s => (s.counter, s.st)) = some (1, .readCommand 0) := by decide

-- ================================================================================================ BGI core
/-- `put_pixel` for ALL `x y` and every viewport a stream can set (coordinates within ±2^19; RIP viewports lie in
0..=1295 with sizes in -1295..=1295): no arithmetic overflow, no index out of range, and the screen keeps its length. -/
theorem put_pixel_in_bounds (s : Bgi.Bgi) (hvp : Bgi.VpSane s.vp) (hw : 0 ≤ s.winW ∧ s.winW ≤ 1024) (x y : Int) (c : Nat) :
    ∃ s', Bgi.putPixel s x y c = some s' ∧ s'.screen.size = s.screen.size := by
  obtain ⟨s', h⟩ := Bgi.putPixel_total s hvp hw x y c
  exact ⟨s', h, Bgi.putPixel_size h⟩

/-- whatever the viewport: if `put_pixel` returns at all, the screen has the same length -/
theorem put_pixel_keeps_canvas (s s' : Bgi.Bgi) (x y : Int) (c : Nat) (h : Bgi.putPixel s x y c = some s') :
    s'.screen.size = s.screen.size := Bgi.putPixel_size h

example : Bgi.VpSane Bgi.Bgi.new.vp := by unfold Bgi.VpSane; decide

/-- `bar_rect`: the number of loop iterations (rows and cells) is bounded by the viewport alone — it does not depend
on the coordinates of the rectangle — and the screen keeps its length. -/
theorem bar_rect_cost (s s' : Bgi.Bgi) (r : Bgi.Rect) (n : Nat) (h : Bgi.barRectCost s r = some (s', n)) :
    n ≤ s.vp.h.toNat * (s.vp.w.toNat + 1) ∧ s'.screen.size = s.screen.size :=
  ⟨(Bgi.barRectCost_spec h).2.1, (Bgi.barRectCost_spec h).1⟩

/-- with the viewport inside the 640x350 window the work is at most one pass over the canvas (350 rows of 640 cells
plus one bookkeeping step per row) -/
theorem bar_rect_cost_in_window (s s' : Bgi.Bgi) (r : Bgi.Rect) (n : Nat) (h : Bgi.barRectCost s r = some (s', n))
    (hw : s.vp.w ≤ 640) (hh : s.vp.h ≤ 350) : n ≤ 350 * 641 := by
  have h1 := (bar_rect_cost s s' r n h).1
  have a : s.vp.h.toNat ≤ 350 := by omega
  have b : s.vp.w.toNat + 1 ≤ 641 := by omega
  exact Nat.le_trans h1 (Nat.mul_le_mul a b)

/-- `bar` cannot panic in any state a RIP stream can produce (viewport start 0..=1295, sizes -1295..=1295, 8-row
user pattern, one of the 13 fill styles), for all corner coordinates within ±2^20: no i32 overflow, no negative
shift, no pattern / screen index out of range. -/
theorem bar_no_panic (s : Bgi.Bgi) (hs : Bgi.StreamState s) (l t r b : Int)
    (hl : -1048576 ≤ l ∧ l ≤ 1048576) (ht : -1048576 ≤ t ∧ t ≤ 1048576)
    (hr : -1048576 ≤ r ∧ r ≤ 1048576) (hb : -1048576 ≤ b ∧ b ≤ 1048576) :
    ∃ s', Bgi.bar s l t r b = some s' := by
  unfold Bgi.bar
  rw [Bgi.chk_of_range (v := r - l) (by simp only [Bgi.i32Min]; omega) (by simp only [Bgi.i32Max]; omega)]
  rw [Bgi.chk_of_range (v := b - t) (by simp only [Bgi.i32Min]; omega) (by simp only [Bgi.i32Max]; omega)]
  simp only []
  rw [Bgi.chk_of_range (v := r - l + 1) (by simp only [Bgi.i32Min]; omega) (by simp only [Bgi.i32Max]; omega)]
  rw [Bgi.chk_of_range (v := b - t + 1) (by simp only [Bgi.i32Min]; omega) (by simp only [Bgi.i32Max]; omega)]
  simp only []
  exact Bgi.barRect_total s hs ⟨l, t, r - l + 1, b - t + 1⟩ hl ht (by simp only []; omega) (by simp only []; omega)

/-- non-vacuity: the fresh state is a stream state -/
example : Bgi.StreamState Bgi.Bgi.new := by
  unfold Bgi.StreamState
  refine ⟨by decide, by decide, by decide, by decide, by decide, by decide, by decide, by decide, by decide, by decide, by decide⟩

/-- One span of `line` (`fill_x` / `fill_y`): whatever the start, the count (huge coordinate loops!), the pattern
offset and the thickness, the number of `put_pixel` calls is at most the viewport area — the span is clipped to
columns 0..right-1 and rows 0..bottom-1 before the loops start. -/
theorem fill_span_cost (s s' : Bgi.Bgi) (a start count offset off' : Int) (n : Nat) :
    (Bgi.fillX s a start count offset = some (s', off', n) → n ≤ Bgi.vpArea s ∧ s'.screen.size = s.screen.size) ∧
    (Bgi.fillY s a start count offset = some (s', off', n) → n ≤ Bgi.vpArea s ∧ s'.screen.size = s.screen.size) :=
  ⟨fun h => ⟨(Bgi.fillX_area h).2.2.2.2, (Bgi.fillX_area h).1⟩, fun h => ⟨(Bgi.fillY_area h).2.2.2.2, (Bgi.fillY_area h).1⟩⟩

/-- `line`: its own loop runs (shorter delta − 1) times; in total at most (shorter delta + 1) spans are drawn, each
bounded by the viewport area; the screen keeps its length. -/
theorem line_cost (s s' : Bgi.Bgi) (x1 y1 x2 y2 : Int) (n : Nat) (h : Bgi.lineCost s x1 y1 x2 y2 = some (s', n)) :
    n ≤ (min (x2 - x1).natAbs (y2 - y1).natAbs + 1) * Bgi.vpArea s ∧ s'.screen.size = s.screen.size :=
  ⟨(Bgi.lineCost_spec h).2.2.2.2, (Bgi.lineCost_spec h).1⟩

/-- the exposed picture is width x height: 640 x 350 cells -/
def Complete (s : Bgi.Bgi) : Prop := s.winW = 640 ∧ s.winH = 350 ∧ s.screen.size = 640 * 350

theorem complete_new : Complete Bgi.Bgi.new := by
  refine ⟨by decide, by decide, ?_⟩
  simp [Bgi.Bgi.new, Gen.Bgi.screenW, Gen.Bgi.screenH]

theorem applyOp_complete (s s' : Bgi.Bgi) (op : Bgi.Op) (hc : Complete s) (h : Bgi.applyOp s op = some s') : Complete s' := by
  obtain ⟨h1, h2, h3⟩ := hc
  cases op with
  | putPixel x y c =>
    simp only [Bgi.applyOp] at h
    have := Bgi.putPixel_frame h
    exact ⟨by rw [this.2.1, h1], by rw [this.2.2.1, h2], by rw [Bgi.putPixel_size h, h3]⟩
  | bar l t r b =>
    simp only [Bgi.applyOp] at h
    obtain ⟨a, b', c⟩ := Bgi.bar_size h
    exact ⟨by rw [b', h1], by rw [c, h2], by rw [a, h3]⟩
  | barRect r =>
    simp only [Bgi.applyOp] at h
    obtain ⟨a, b', c⟩ := Bgi.barRect_size h
    exact ⟨by rw [b', h1], by rw [c, h2], by rw [a, h3]⟩
  | clearViewport =>
    simp only [Bgi.applyOp, Bgi.clearViewport] at h
    obtain ⟨a, b', c⟩ := Bgi.barRect_size h
    exact ⟨by rw [b', h1], by rw [c, h2], by rw [a, h3]⟩
  | setViewport x0 y0 x1 y1 =>
    simp only [Bgi.applyOp, Bgi.setViewport] at h
    split at h
    · cases h; exact ⟨h1, h2, h3⟩
    · cases h
  | setColor c => simp only [Bgi.applyOp] at h; cases h; exact ⟨h1, h2, h3⟩
  | setBkColor c => simp only [Bgi.applyOp] at h; cases h; exact ⟨h1, h2, h3⟩
  | setFillColor c => simp only [Bgi.applyOp] at h; cases h; exact ⟨h1, h2, h3⟩
  | setFillStyle c => simp only [Bgi.applyOp] at h; cases h; exact ⟨h1, h2, h3⟩
  | setWriteMode c => simp only [Bgi.applyOp] at h; cases h; exact ⟨h1, h2, h3⟩
  | setLineStyle c => simp only [Bgi.applyOp] at h; cases h; exact ⟨h1, h2, h3⟩
  | setLineThickness c => simp only [Bgi.applyOp] at h; cases h; exact ⟨h1, h2, h3⟩
  | setLinePattern c => simp only [Bgi.applyOp] at h; cases h; exact ⟨h1, h2, h3⟩
  | setUserFillPattern c => simp only [Bgi.applyOp] at h; cases h; exact ⟨h1, h2, h3⟩
  | setPalette cs =>
    simp only [Bgi.applyOp, Bgi.setPalette] at h
    split at h
    · cases h; exact ⟨h1, h2, h3⟩
    · cases h
  | setPaletteColor i c =>
    simp only [Bgi.applyOp, Bgi.setPaletteColor] at h
    split at h
    · cases h; exact ⟨h1, h2, h3⟩
    · cases h
  | graphDefaults =>
    simp only [Bgi.applyOp] at h
    obtain ⟨a, b', c⟩ := Bgi.graphDefaults_size h
    exact ⟨by rw [b', h1], by rw [c, h2], by rw [a, h3]⟩
  | line x1 y1 x2 y2 =>
    simp only [Bgi.applyOp] at h
    obtain ⟨a, b', c⟩ := Bgi.line_size h
    exact ⟨by rw [b', h1], by rw [c, h2], by rw [a, h3]⟩

/-- After ANY sequence of calls of the modelled BGI primitives (pixels, bars, lines, viewport, palette, colours,
styles, `graph_defaults`) on a fresh `Bgi`, with any arguments, the canvas is still a complete 640 x 350 image. -/
theorem canvas_complete (ops : List Bgi.Op) : ∀ (s s' : Bgi.Bgi), Complete s → Bgi.applyOps s ops = some s' → Complete s' := by
  induction ops with
  | nil => intro s s' hc h; simp [Bgi.applyOps] at h; subst h; exact hc
  | cons op rest ih =>
    intro s s' hc h
    simp only [Bgi.applyOps] at h
    cases ho : Bgi.applyOp s op with
    | none => simp [ho] at h
    | some s1 =>
      simp only [ho] at h
      exact ih s1 s' (applyOp_complete s s1 op hc ho) h

/-- non-vacuity: the fresh canvas is complete, and a pixel can be put on it (hypotheses of `put_pixel_in_bounds`
hold for `Bgi::new`) -/
example : Complete Bgi.Bgi.new := complete_new
example : ∃ s', Bgi.putPixel Bgi.Bgi.new 12 12 5 = some s' ∧ s'.screen.size = 640 * 350 := by
  obtain ⟨s', h, hs⟩ := put_pixel_in_bounds Bgi.Bgi.new (by unfold Bgi.VpSane; decide) (by decide) 12 12 5
  exact ⟨s', h, by rw [hs]; exact complete_new.2.2⟩

-- ================================================================================================ IGS lexer and loop
/-- FULL statement wanted: `∀ s ch, IGood s → ∃ s' o, step s ch = .ok s' o`.  It is false on the code that exists:
`self.i += self.step` can overflow i32 (recorded finding, parameter beyond the property's range).  Proved: that is
the ONLY panic — in every state satisfying the invariant every character is answered (`ok`, invariant kept) or the
outcome is exactly that overflow.  (`parsed_numbers[4]`, `last_mut().unwrap()`, `% parameters.len()` cannot fail.) -/
theorem igs_lex_total_partial (s : Igs.Igs) (ch : Nat) (hg : Igs.IGood s) :
    (∃ s' o, Igs.step s ch = .ok s' o ∧ Igs.IGood s') ∨
    (Igs.step s ch = .panic Igs.overflowSite ∧ ∃ c, (Igs.mkLoop s c).advance = none) :=
  Igs.step_good s ch hg

/-- the same for `get_next_action` (one loop step) -/
theorem igs_next_action_total_partial (s : Igs.Igs) (hg : Igs.IGood s) :
    (∃ s' o, Igs.nextAction s = .ok s' o ∧ Igs.IGood s') ∨ Igs.nextAction s = .panic Igs.overflowSite :=
  Igs.nextAction_good s hg

/-- The loop counter cannot overflow when the loop's numbers are below 2^30 — in particular for every parameter value
the property quantifies over (<= 99999). -/
theorem igs_loop_counter_safe (l : Igs.Loop) (h1 : -1073741823 ≤ l.i ∧ l.i ≤ 1073741823)
    (h2 : -1073741823 ≤ l.step ∧ l.step ≤ 1073741823) : ∃ l', l.advance = some l' :=
  Igs.advance_safe l h1 h2

/-- Every character of every stream is answered by the IGS lexer as long as no loop counter overflows: stated on
one step for a state whose pending numbers are small (the loop, if one starts here, is built from them). -/
theorem igs_lex_total (s : Igs.Igs) (ch : Nat) (hg : Igs.IGood s)
    (hsmall : ∀ i, -1073741823 ≤ s.nums.getD i 0 ∧ s.nums.getD i 0 ≤ 1073741823) :
    ∃ s' o, Igs.step s ch = .ok s' o ∧ Igs.IGood s' := by
  rcases Igs.step_good s ch hg with h | ⟨_, c, hc⟩
  · exact h
  · exfalso
    obtain ⟨l', hl'⟩ := Igs.advance_safe (Igs.mkLoop s c) (hsmall 0) (hsmall 2)
    rw [hc] at hl'; cases hl'

/-- `thread::sleep(200 ms * delay)`: every loop the lexer ever creates has delay 0 (the digits of the delay parameter
are skipped by the loop sub-machine), so the sleep is `sleep(0)`.  Part of the invariant. -/
theorem igs_loop_delay_zero (s : Igs.Igs) (hg : Igs.IGood s) (l : Igs.Loop) (h : s.cur = some l) : l.delay = 0 :=
  hg.2 l h

/-- The loop command terminates (get_next_action eventually returns None) IF AND ONLY IF it is not running at all
or its step is positive.  As repaired (`fix:` step-0 guard) a loop with step 0 is not running, so the excluded case
is a negative step, which the lexer cannot produce (numbers are digit strings without sign). -/
theorem igs_loop_terminates (l : Igs.Loop) : l.Terminates ↔ (l.running = false ∨ 0 < l.step) :=
  Igs.loop_terminates_iff l

/-- Every loop with a non-negative step terminates — in particular every loop the lexer can create (its numbers are
accumulated from decimal digits: `parse_next_number` of a non-negative value and a digit is non-negative). -/
theorem igs_loop_terminates_nonneg (l : Igs.Loop) (h : 0 ≤ l.step) : l.Terminates := by
  rw [igs_loop_terminates]
  by_cases h0 : l.step = 0
  · left
    unfold Igs.Loop.running
    simp [h0]
  · right; omega

/-- `parse_next_number` keeps numbers non-negative -/
theorem igs_numbers_nonneg (x : Int) (ch : Nat) (hx : 0 ≤ x) (hd : 48 ≤ ch) : 0 ≤ Igs.parseNextNumber x ch := by
  have hs : ∀ v : Int, 0 ≤ v → 0 ≤ Igs.sat v := by
    intro v hv
    unfold Igs.sat
    by_cases h1 : v > Igs.i32Max
    · simp only [h1, if_true, Igs.i32Max]; omega
    · by_cases h2 : v < Igs.i32Min
      · simp only [Igs.i32Min] at h2; omega
      · simp only [h1, h2, if_false]; exact hv
  have hle : ∀ v : Int, v ≤ Igs.sat v ∨ Igs.sat v = Igs.i32Max := by
    intro v
    unfold Igs.sat
    by_cases h1 : v > Igs.i32Max
    · right; simp only [h1, if_true]
    · by_cases h2 : v < Igs.i32Min
      · left; simp only [h1, h2, if_true, if_false]; omega
      · left; simp only [h1, h2, if_false]; omega
  unfold Igs.parseNextNumber
  have h1 := hs (x * 10) (by omega)
  have h2 := hs (Igs.sat (x * 10) + (ch : Int)) (by omega)
  -- the last step subtracts 48 from a value that is at least 48 (or saturated at i32::MAX)
  have h3 : 48 ≤ Igs.sat (Igs.sat (x * 10) + (ch : Int)) := by
    rcases hle (Igs.sat (x * 10) + (ch : Int)) with h | h
    · omega
    · rw [h]; simp only [Igs.i32Max]; omega
  exact hs _ (by omega)

/-- state of the IGS lexer after a stream (`none` = panic) -/
def igsFinal (cs : List Nat) : Option Igs.Igs :=
  cs.foldl (fun (st : Option Igs.Igs) ch => st.bind fun s => match Igs.step s ch with | .ok s' _ => some s' | .panic _ => none)
    (some Igs.Igs.init)

/-- non-vacuity: the stream "G#&1,,,,O,,:" (step 0, from != to: the former stall) leaves NO running loop; with step 1
("G#&3,,1,,O,,:") a loop counting down from 3 is running -/
example : ((igsFinal ("G#&1,,,,O,,:".toList.map Char.toNat)).map (·.cur.isSome)) = some false := by decide
example : ((igsFinal ("G#&3,,1,,O,,:".toList.map Char.toNat)).bind (·.cur)).map (fun l => (l.step, l.running, l.from_, l.to)) = some (1, true, 3, 0) := by
  decide

end IcyVerif.C20
