import IcyVerif.Lemmas.ArtShows
import IcyVerif.Lemmas.ArtFormats
import IcyVerif.Lemmas.ArtCtrlA
import IcyVerif.Lemmas.ArtAtascii
import IcyVerif.Lemmas.ArtAvatar
/-! # C15 — Avatar, PCBoard, Ctrl-A, Renegade, ASCII, ATASCII files parse back as saved

FULL STATEMENT (per format `fmt`, for all three screen preparations `prep`):
  for every picture `p` of the format's width (80; ATASCII 40) whose rows fit (`p.WF`), whose last row is not empty
  (`p.LastRowNonEmpty`) and whose cells avoid the format's own escape characters (`p.AllCells (Dom fmt)`):
      `write fmt prep p = ok bytes  ∧  Shows (load fmt none bytes) p (img fmt)`
  i.e. the reader never leaves the modelled sub-language, the loaded picture has the same size, every cell inside a
  row's length (`get_line_length`) is the saved cell — same character, same 16 foreground / 8 background colour, no
  flags (`img = id`; ASCII `ascImg`: the character in the default colours; ATASCII `ataImg`: character and inverse
  flag) — and every cell after the end of a row is the default cell where the saved cell is itself blank on colour 0
  ("blank cells on black after the end of a row are not significant").
  `Dom fmt` contains the property's "printable CP437 minus lead-in characters" (`*_dom_of_printable` below).

PROVED, for ALL pictures (induction over rows and cells — Lemmas/ArtScreen, ArtPic, ArtSim; the full-width-row case,
where the writer omits CR LF and the reader's auto-wrap takes over, is the wrap case of `puts_spec` / `row_spec`):
  * `pcboard_rt`, `avatar_rt`, `atascii_rt`      — the full statement (all screen preparations);
  * `ascii_rt_partial`, `renegade_rt_partial`, `ctrla_rt_partial`
                                                  — the full statement under the extra hypothesis that the written
    file does not start with the bytes EF BB BF.  That exclusion is exactly the known finding `<fmt>:utf8-bom-prefix`
    (the loader takes such a file for UTF-8; `bom_counterexample` below is the model-level witness); PCBoard, Avatar
    and ATASCII files cannot start with these bytes (`pcb_noBom`, `avt_noBom`; the ATASCII loader has no such rule).
NOT under a theorem: saving through the colour optimiser (`lossles_output = false`; C12's subject) — the harness
hands the model the optimised picture; pictures outside `Dom` (colour index >= 16, blink, control characters).
-/
set_option linter.unusedSimpArgs false
namespace IcyVerif.C15
open IcyVerif.ArtIO IcyVerif.Gen.Art

/-- ASCII, for every picture: the characters come back (in the default attribute — the format has no colours). -/
theorem ascii_rt_partial (p : Pic) (hw : p.w = 80) (hwf : p.WF) (hlast : p.LastRowNonEmpty) (hdom : p.AllCells AscDom) :
    ∃ bytes, writeAscii p = .ok bytes ∧ (bomPrefixed bytes = false → Shows (load .ascii none bytes) p ascImg) := by
  have R0 : AscR () (initial .ascii none) := ⟨rfl, rfl⟩
  obtain ⟨b, e, ⟨s', R'⟩, sc⟩ := writeRows_sim ascEmit crlf (step .ascii) (fun r => r.core.scr) ascImg AscR AscDom p.w
    asc_cell asc_eol p.rows () (initial .ascii none) R0 hdom
  refine ⟨b, by simp [writeAscii, e, WOut.ofOption], ?_⟩
  intro hbom
  refine rt_assemble .ascii (by decide) ascImg p b (by omega) hwf hlast (fun _ _ _ _ => ⟨rfl, rfl⟩) ?_ R'.1 hbom
  show (b.foldl (step .ascii) (initial .ascii none)).core.scr = _
  rw [sc, hw]; rfl

/-- PCBoard, for every picture and every screen preparation. -/
theorem pcboard_rt_nobom (prep : Prep) (p : Pic) (hw : p.w = 80) (hpal : p.pal.length = 16) (hwf : p.WF)
    (hlast : p.LastRowNonEmpty) (hdom : p.AllCells PcbDom) :
    ∃ bytes, writePcb prep p = .ok bytes ∧ (bomPrefixed bytes = false → Shows (load .pcboard none bytes) p id) := by
  have R0 : PcbR (defaultAttr, true) (initial .pcboard none) := ⟨rfl, ⟨rfl, rfl⟩, rfl, rfl, rfl, fun h => by cases h⟩
  obtain ⟨R1, s1⟩ := pcb_prep prep (initial .pcboard none) R0
  obtain ⟨b, e, ⟨s', R'⟩, sc⟩ := writeRows_sim pcbEmit crlf (step .pcboard) (fun r => r.core.scr) id PcbR PcbDom p.w
    pcb_cell pcb_eol p.rows (defaultAttr, true) _ R1 hdom
  refine ⟨pcbPrep prep ++ b, by simp [writePcb, hpal, e], ?_⟩
  intro hbom
  refine rt_assemble .pcboard (by decide) id p _ (by omega) hwf hlast ?_ ?_ ?_ hbom
  · intro r hr c hc
    obtain ⟨_, _, hfl, _⟩ := hdom r hr c hc
    show c.attr.fl.invisible = false ∧ c.attr.fl.bold = false
    rw [hfl]; exact ⟨rfl, rfl⟩
  · show ((pcbPrep prep ++ b).foldl (step .pcboard) (initial .pcboard none)).core.scr = _
    rw [List.foldl_append, sc, s1, hw]; rfl
  · show ((pcbPrep prep ++ b).foldl (step .pcboard) (initial .pcboard none)).core.stuck = false
    rw [List.foldl_append]; exact R'.ns

/-- PCBoard, full statement: a PCBoard file starts with `@` or CR, never with a UTF-8 BOM. -/
theorem pcboard_rt (prep : Prep) (p : Pic) (hw : p.w = 80) (hpal : p.pal.length = 16) (hwf : p.WF)
    (hlast : p.LastRowNonEmpty) (hdom : p.AllCells PcbDom) :
    ∃ bytes, writePcb prep p = .ok bytes ∧ Shows (load .pcboard none bytes) p id := by
  obtain ⟨bytes, e, h⟩ := pcboard_rt_nobom prep p hw hpal hwf hlast hdom
  refine ⟨bytes, e, h ?_⟩
  unfold writePcb at e
  rw [if_neg (by omega)] at e
  split at e
  · rename_i b hb
    cases e
    exact pcb_noBom prep p.w p.rows b hb
  · cases e

/-- Renegade, for every picture. -/
theorem renegade_rt_partial (p : Pic) (hw : p.w = 80) (hpal : p.pal.length = 16) (hwf : p.WF)
    (hlast : p.LastRowNonEmpty) (hdom : p.AllCells RenDom) :
    ∃ bytes, writeRenegade p = .ok bytes ∧ (bomPrefixed bytes = false → Shows (load .renegade none bytes) p id) := by
  have R0 : RenR defaultAttr (initial .renegade none) := ⟨rfl, rfl, rfl, rfl, rfl, rfl⟩
  obtain ⟨b, e, ⟨s', R'⟩, sc⟩ := writeRows_sim renEmit crlf (step .renegade) (fun r => r.core.scr) id RenR RenDom p.w
    ren_cell ren_eol p.rows defaultAttr _ R0 hdom
  refine ⟨b, by simp [writeRenegade, hpal, e, WOut.ofOption], ?_⟩
  intro hbom
  refine rt_assemble .renegade (by decide) id p _ (by omega) hwf hlast ?_ ?_ R'.ns hbom
  · intro r hr c hc
    obtain ⟨_, _, hfl, _⟩ := hdom r hr c hc
    show c.attr.fl.invisible = false ∧ c.attr.fl.bold = false
    rw [hfl]; exact ⟨rfl, rfl⟩
  · show (b.foldl (step .renegade) (initial .renegade none)).core.scr = _
    rw [sc, hw]; rfl

/-- Ctrl-A, for every picture and every screen preparation. -/
theorem ctrla_rt_partial (prep : Prep) (p : Pic) (hw : p.w = 80) (hpal : p.pal.length = 16) (hwf : p.WF)
    (hlast : p.LastRowNonEmpty) (hdom : p.AllCells CtrlDom) :
    ∃ bytes, writeCtrlA prep p = .ok bytes ∧ (bomPrefixed bytes = false → Shows (load .ctrla none bytes) p id) := by
  have R0 : CtrlR {} (initial .ctrla none) :=
    ⟨⟨rfl, rfl, rfl, rfl, rfl, rfl, rfl, rfl⟩, rfl, by decide, by decide, by decide, rfl, rfl⟩
  obtain ⟨R1, s1⟩ := ctrla_prep prep (initial .ctrla none) R0 ⟨rfl, rfl, rfl⟩
  obtain ⟨b, e, ⟨s', R'⟩, sc⟩ := writeRows_sim ctrlaEmit crlf (step .ctrla) (fun r => r.core.scr) id CtrlR CtrlDom p.w
    ctrla_cell ctrla_eol p.rows {} _ R1 hdom
  refine ⟨ctrlaPrep prep ++ b, by simp [writeCtrlA, hpal, e], ?_⟩
  intro hbom
  refine rt_assemble .ctrla (by decide) id p _ (by omega) hwf hlast ?_ ?_ ?_ hbom
  · intro r hr c hc
    obtain ⟨_, _, hfl, _⟩ := hdom r hr c hc
    show c.attr.fl.invisible = false ∧ c.attr.fl.bold = false
    rw [hfl]; exact ⟨rfl, rfl⟩
  · show ((ctrlaPrep prep ++ b).foldl (step .ctrla) (initial .ctrla none)).core.scr = _
    rw [List.foldl_append, sc, s1, hw]; rfl
  · show ((ctrlaPrep prep ++ b).foldl (step .ctrla) (initial .ctrla none)).core.stuck = false
    rw [List.foldl_append]; exact R'.mid.ns

/-- ATASCII (width 40), full statement: characters and inverse-video cells come back (`ataImg`: inverse = black on
    white); the loaded layer keeps the loader's 24 rows, so it may be taller than the picture (`ShowsIn`). -/
theorem atascii_rt (p : Pic) (hw : p.w = 40) (hwf : p.WF) (hlast : p.LastRowNonEmpty) (hdom : p.AllCells AtaDom) :
    ∃ bytes, writeAtascii true p = .ok bytes ∧ ShowsIn (load .atascii none bytes) p ataImg := by
  have R0 : AtaR () (initial .atascii none) := ⟨rfl, rfl, rfl⟩
  obtain ⟨b, e, ⟨s', R'⟩, sc⟩ := writeRows_sim ataEmit [atasciiEol] (step .atascii) (fun r => r.core.scr) ataImg AtaR AtaDom p.w
    ata_cell ata_eol p.rows () _ R0 hdom
  refine ⟨b, by simp [writeAtascii, e, WOut.ofOption], ?_⟩
  exact ata_assemble p b hw hwf hlast sc R'.1

/-- Avatar, full statement, for every picture, every screen preparation and every ice mode of the saved buffer
    (an Avatar file starts with ^V, ^L or CR, never with a UTF-8 BOM).  The run-length look-ahead of the writer
    (`pos.x + 3 < width`) only limits how long a run gets; `run_stays_inside` shows a run never crosses the end of a
    row. -/
theorem avatar_rt (prep : Prep) (p : Pic) (hw : p.w = 80) (hpal : p.pal.length = 16) (hwf : p.WF)
    (hlast : p.LastRowNonEmpty) (hdom : p.AllCells AvtDom) :
    ∃ bytes, writeAvatar prep p = .ok bytes ∧ Shows (load .avatar none bytes) p id := by
  have R0 : AvtR (defaultAttr, true) (initial .avatar none) := ⟨rfl, rfl, rfl, rfl, rfl, fun h => by cases h⟩
  obtain ⟨R1, s1⟩ := avt_prep prep (initial .avatar none) R0 ⟨rfl, rfl, rfl⟩
  obtain ⟨⟨s', R'⟩, sc⟩ := avtRows_sim p.ice p.w (by omega) p.rows (defaultAttr, true) _ R1 hwf hdom
  refine ⟨avtPrep prep ++ avtRows p.ice p.w (defaultAttr, true) p.rows, by simp [writeAvatar, hpal], ?_⟩
  refine rt_assemble .avatar (by decide) id p _ (by omega) hwf hlast ?_ ?_ ?_ (avt_noBom prep p.ice p.w p.rows)
  · intro r hr c hc
    obtain ⟨_, _, hfl, _⟩ := hdom r hr c hc
    show c.attr.fl.invisible = false ∧ c.attr.fl.bold = false
    rw [hfl]; exact ⟨rfl, rfl⟩
  · show ((avtPrep prep ++ avtRows p.ice p.w (defaultAttr, true) p.rows).foldl (step .avatar) (initial .avatar none)).core.scr = _
    rw [List.foldl_append, sc, s1, hw]; rfl
  · show ((avtPrep prep ++ avtRows p.ice p.w (defaultAttr, true) p.rows).foldl (step .avatar) (initial .avatar none)).core.stuck = false
    rw [List.foldl_append]; exact R'.ns

/-! ### the property's character domain is inside each format's `Dom` -/

/-- printable CP437: 0x20..0x7E and 0x80..0xFE -/
def Printable (ch : Nat) : Prop := (32 ≤ ch ∧ ch ≤ 126) ∨ (128 ≤ ch ∧ ch ≤ 254)
/-- the 16 x 8 colour domain, no attribute flags -/
def Colour16x8 (c : Cell) : Prop := c.attr.fg < 16 ∧ c.attr.bg < 8 ∧ c.attr.fl = Flags.none

theorem asc_dom_of_printable (c : Cell) (h : Printable c.ch) : AscDom c := by
  unfold Printable at h; unfold AscDom; omega
theorem pcb_dom_of_printable (c : Cell) (h : Printable c.ch) (hc : Colour16x8 c) (h64 : c.ch ≠ 64) : PcbDom c := by
  unfold Printable at h; obtain ⟨a, b, d⟩ := hc
  refine ⟨a, b, d, by omega, by omega, h64, ?_⟩; unfold AnsiPrintable; omega
theorem ren_dom_of_printable (c : Cell) (h : Printable c.ch) (hc : Colour16x8 c) (h124 : c.ch ≠ 124) : RenDom c := by
  unfold Printable at h; obtain ⟨a, b, d⟩ := hc
  refine ⟨a, b, d, by omega, by omega, h124, ?_⟩; unfold AnsiPrintable; omega
theorem ctrla_dom_of_printable (c : Cell) (h : Printable c.ch) (hc : Colour16x8 c) : CtrlDom c := by
  unfold Printable at h; obtain ⟨a, b, d⟩ := hc
  refine ⟨a, b, d, by omega, by omega, by omega, ?_⟩; unfold AnsiPrintable; omega
theorem avt_dom_of_printable (c : Cell) (h : Printable c.ch) (hc : Colour16x8 c) : AvtDom c := by
  unfold Printable at h; obtain ⟨a, b, d⟩ := hc
  refine ⟨a, b, d, by omega, by omega, by omega, by omega, ?_⟩; unfold AnsiPrintable; omega
/-- ATASCII: the printable 7-bit range below the cursor / edit codes 0x7D..0x7F -/
theorem ata_dom_of_printable (c : Cell) (h : 32 ≤ c.ch ∧ c.ch ≤ 124) : AtaDom c := by
  unfold AtaDom; omega

/-! ### non-vacuity: a two-row picture with a full-width first row, colour changes and a bright colour satisfies every
    hypothesis, and the theorems' conclusions can be run -/

def demoRow (w : Nat) : List Cell := List.replicate (w - 1) ⟨65, ⟨14, 1, Flags.none⟩⟩ ++ [⟨66, ⟨2, 0, Flags.none⟩⟩]
def demoPic : Pic := { w := 80, rows := [demoRow 80, [⟨67, ⟨9, 4, Flags.none⟩⟩, ⟨32, ⟨7, 0, Flags.none⟩⟩]], ice := .unlimited, pal := dosPalette }
def demoAta : Pic := { w := 40, rows := [List.replicate 40 ⟨65, ⟨0, 7, Flags.none⟩⟩, [⟨66, ⟨7, 0, Flags.none⟩⟩]], ice := .unlimited, pal := dosPalette }

example : demoPic.w = 80 ∧ demoPic.pal.length = 16 ∧ demoPic.WF ∧ demoPic.LastRowNonEmpty ∧ demoPic.AllCells PcbDom ∧
    demoPic.AllCells AvtDom ∧ demoPic.AllCells CtrlDom ∧ demoPic.AllCells RenDom ∧ demoPic.AllCells AscDom := by
  refine ⟨rfl, rfl, ?_, ?_, ?_, ?_, ?_, ?_, ?_⟩
  · unfold Pic.WF; decide +kernel
  · unfold Pic.LastRowNonEmpty; decide +kernel
  all_goals (simp only [Pic.AllCells, PcbDom, AvtDom, CtrlDom, RenDom, AscDom, AnsiPrintable]; decide +kernel)

example : demoAta.w = 40 ∧ demoAta.WF ∧ demoAta.LastRowNonEmpty ∧ demoAta.AllCells AtaDom := by
  refine ⟨rfl, ?_, ?_, ?_⟩
  · unfold Pic.WF; decide +kernel
  · unfold Pic.LastRowNonEmpty; decide +kernel
  · simp only [Pic.AllCells, AtaDom]; decide +kernel

/-- the full-width first row is written without CR LF: 79 x `A` in one colour command, then `B`, then the next row -/
example : ∃ b, writePcb .clear demoPic = .ok b ∧ b.length = 5 + (5 + 78) + 5 + 5 ∧ ¬ (13 ∈ b) := by
  refine ⟨_, rfl, ?_, ?_⟩ <;> decide +kernel

/-- the known finding at model level: a row that starts with the CP437 characters EF BB BF is written as a file the
    loader decodes as UTF-8, so cell (0,0) comes back as U+FEFF -/
def bomPic : Pic := { w := 80, rows := [[⟨239, defaultAttr⟩, ⟨187, defaultAttr⟩, ⟨191, defaultAttr⟩, ⟨65, defaultAttr⟩]], ice := .unlimited, pal := dosPalette }
theorem bom_counterexample :
    bomPic.WF ∧ bomPic.LastRowNonEmpty ∧ bomPic.AllCells AscDom ∧
    writeAscii bomPic = .ok [239, 187, 191, 65] ∧
    (load .ascii none [239, 187, 191, 65]).cellAt 0 0 = ⟨65279, defaultAttr⟩ ∧ bomPic.get 0 0 = ⟨239, defaultAttr⟩ := by
  refine ⟨?_, ?_, ?_, ?_, ?_, ?_⟩
  · unfold Pic.WF; decide
  · unfold Pic.LastRowNonEmpty; decide
  · unfold Pic.AllCells AscDom; decide
  all_goals decide

end IcyVerif.C15
