import IcyVerif.Lemmas.IcyDrawDoc
/-! # C07 — the native IcyDraw format is lossless

Only property theorems and non-vacuity examples live here.  Model: `Model/IcyDraw.lean` (the code AFTER the
repair `fix: icy_draw writer stores every invisible cell as the bare INVISIBLE marker`; the writer of the pinned
tree is `encodeCellPinned` below, with the failing witness).

FULL-strength statement (the property as given):
  `∀ l, decodeLayer (encodeLayer l) = ok l' ∧ l' ≈doc l`, lifted to every document.
What is proved is that statement for every layer/document satisfying the DECIDABLE predicates `WfLayer` /
`WfDoc`, which say no more than the property's quantifier plus what a Rust value can hold:
  * title bytes are bytes; role Normal; mode one of the three variants; colour components / transparency are `u8`;
    offsets are `i32`; sizes are non-negative `i32`; default font page and cell font pages fit the `u16` of the format
    (quantifier: ≤ 300); `ch` is a Unicode scalar value; colours are `u32`; `attr` is a `u16`;
  * the layer fits one chunk: `title + 45 + 16·w·h ≤ 3 000 000` (quantifier: ≤ 200 x 120 — `quantifier_fits`);
  * a VISIBLE cell does not carry the bit `attribute::SHORT_DATA`, which `text_attribute.rs` declares "a special
    attribute … for loading & saving only": it is the short/long marker of the format itself, not an attribute
    flag of a document (`short_marker_is_not_an_attribute` shows what the code does with it).
Invisible cells may carry any other attribute bits (the point that was broken on the pinned tree).
Hence the theorems are named `layer_rt` / `doc_rt`, not `_partial`.
Parameters with recorded assumptions (`CodecsOk`): the PALETTE / FONT_n / SAUCE payload codecs (C16, C17, C11), the
PNG container, zTXt, base64, the preview image and the keyword `format!`/`parse`. -/
namespace IcyVerif.C07
open IcyVerif.IcyDraw IcyVerif.Gen.Icy

/-- one visible cell: the reader, positioned at the record the writer emitted for a well-formed visible cell, does
    `set_char` with exactly that cell (short and long form) and continues behind the record -/
theorem cell_rt (w : Nat) (c : Cell) (rest : Bytes) (hw : c.wf = true) (hv : c.visible = true) :
    readRow (w + 1) (encodeCell c ++ rest) = consRow (some c) (readRow w rest) :=
  readRow_visible w c rest hw hv

/-- one invisible cell — whatever other attribute bits it carries — is skipped by the reader -/
theorem invisible_cell_rt (w : Nat) (c : Cell) (rest : Bytes) (hv : c.visible = false) :
    readRow (w + 1) (encodeCell c ++ rest) = consRow none (readRow w rest) := by
  rw [encodeCell_invisible c hv]; exact readRow_invisible w rest

/-- one row of `w` cells, for every mixture of short / long / invisible cells and every visible length relative to
    the width (terminator present iff the row is not full): the reader returns the writer's cells up to the last
    visible one and stops exactly behind the row -/
theorem row_rt (w : Nat) (cells : List Cell) (hlen : cells.length = w) (hwf : ∀ c ∈ cells, c.wf = true) (rest : Bytes) :
    readRow w (encodeRow w cells ++ rest) = .ok ((stripInv cells).map optCell, rest) :=
  readRow_encodeRow w cells hlen hwf rest

/-- split arithmetic: a well-formed layer is never split into continuation chunks -/
theorem no_split (l : Layer) (h : WfLayer l) : ∃ c, encodeLayer l = some [c] := by
  have h' : l.wf = true := h
  simp only [Layer.wf, Bool.and_eq_true, beq_iff_eq] at h'
  exact ⟨_, encodeLayer_wf l h'.1.1.1.1.1.1.1.1.1.1.1.1.2 h'.1.2⟩

/-- every layer size of the property's quantifier fits one chunk (titles up to 2.6 MB) -/
theorem quantifier_fits (l : Layer) (hw : l.width ≤ 200) (hh : l.height ≤ 120) (ht : l.title.length ≤ 2600000) :
    l.fits = true := by
  simp only [Layer.fits, decide_eq_true_eq]
  have : maxChunk = 3000000 := rfl
  have : l.width * l.height ≤ 200 * 120 := Nat.mul_le_mul hw hh
  rw [Nat.mul_assoc]
  omega

/-- **layer round trip**, for ALL well-formed layers: every listed field equal; cells equal where visible,
    invisible where invisible -/
theorem layer_rt (l : Layer) (h : WfLayer l) :
    ∃ cs l', encodeLayer l = some cs ∧ decodeLayer cs = .ok l' ∧ l' ≈doc l := by
  have h' : l.wf = true := h
  have h'' := h'
  simp only [Layer.wf, Bool.and_eq_true, beq_iff_eq] at h''
  obtain ⟨l', hd, he⟩ := decodeLayer_encode l h'
  exact ⟨_, l', encodeLayer_wf l h''.1.1.1.1.1.1.1.1.1.1.1.1.2 h''.1.2, hd, he⟩

/-- the five layer flags survive for all 32 combinations -/
theorem flags_rt (a l : Layer) :
    (decodeFlags a (encodeFlags l)).isVisible = l.isVisible ∧ (decodeFlags a (encodeFlags l)).isLocked = l.isLocked ∧
    (decodeFlags a (encodeFlags l)).isPosLocked = l.isPosLocked ∧ (decodeFlags a (encodeFlags l)).hasAlpha = l.hasAlpha ∧
    (decodeFlags a (encodeFlags l)).isAlphaLocked = l.isAlphaLocked := by
  rw [decodeFlags_encodeFlags]; exact ⟨rfl, rfl, rfl, rfl, rfl⟩

/-- the four header-mode enums of src/buffers.rs, over the `to_byte` / `from_byte` tables regenerated from the source:
    the byte written for a variant is read back as that variant, for EVERY variant of `BufferType` (through `as u16` /
    `as u8`), `IceMode`, `PaletteMode`, `FontMode` (the quantifier is the finite variant table) -/
theorem mode_tables_rt :
    (∀ v, v < bufferTypeVariants.length → bufferTypeOfByte (bufferTypeByte v % 65536 % 256) = v) ∧
    (∀ v, v < iceModeVariants.length → iceModeOfByte (iceModeByte v % 256) = v) ∧
    (∀ v, v < paletteModeVariants.length → paletteModeOfByte (paletteModeByte v % 256) = v) ∧
    (∀ v, v < fontModeVariants.length → fontModeOfByte (fontModeByte v % 256) = v) :=
  ⟨bufferType_table_rt, iceMode_table_rt, paletteMode_table_rt, fontMode_table_rt⟩

/-- `from_byte` is total on bytes: every byte value is read as one of the enum's variants (the `_` arm), so a loaded
    header is always a `WfHeader` as far as the modes go -/
theorem mode_tables_total : ∀ b, b < 256 →
    bufferTypeOfByte b < bufferTypeVariants.length ∧ iceModeOfByte b < iceModeVariants.length ∧
    paletteModeOfByte b < paletteModeVariants.length ∧ fontModeOfByte b < fontModeVariants.length := by
  decide +kernel

/-- **header round trip**: buffer type, ice / palette / font mode (every variant) and the buffer size -/
theorem header_rt (h : Header) (hw : WfHeader h) : decodeHeader (encodeHeader h) = .ok h :=
  decodeHeader_encode h hw

/-- well-formed documents: any number of well-formed layers (the quantifier's 1..=6 included), a font table with
    distinct slots (it is a hash map) that contains slot 0 (`Buffer::new` puts it there; saving panics without it) -/
structure WfDoc {F S : Type} (d : Doc F S) : Prop where
  hdr : WfHeader d.hdr
  layers : ∀ l ∈ d.layers, WfLayer l
  fontKeys : (d.fonts.map (·.1)).Nodup
  font0 : (d.fonts.lookup 0).isSome = true

/-- recorded assumptions about the payload codecs that are parameters of the model -/
structure CodecsOk {F S : Type} (cd : Codecs F S) (sauceEqv : S → S → Prop) (d : Doc F S) : Prop where
  pal : cd.palDec (cd.palEnc d.palette) = .ok d.palette
  font : ∀ kf ∈ d.fonts, (cd.fontName kf.2).length < 4294967296 ∧ cd.fontDec (cd.fontName kf.2) (cd.fontData kf.2) = .ok kf.2
  sauce : ∀ s b, d.sauce = some (s, b) → ∃ s', cd.sauceDec b = .ok (some s') ∧ sauceEqv s' s

/-- **document round trip**: header (size and the four modes), palette, every font slot, SAUCE (up to the codec's
    equivalence) and every layer in order -/
theorem doc_rt {F S : Type} (cd : Codecs F S) (sauceEqv : S → S → Prop) (d : Doc F S) (hw : WfDoc d)
    (hc : CodecsOk cd sauceEqv d) :
    ∃ cs st, encodeDoc cd d = some cs ∧ decodeDoc cd cs = .ok st ∧
      st.hdr = d.hdr ∧ st.palette = d.palette ∧ (∀ k, st.fontAt k = d.fonts.lookup k) ∧
      (match d.sauce, st.sauce with
       | none, none => True
       | some (s, _), some s' => sauceEqv s' s
       | _, _ => False) ∧
      layersEq st.layers d.layers := by
  -- stage states
  let st1 : Loaded F S := { initLoaded cd with hdr := d.hdr }
  obtain ⟨st2, hs2, hne2, hsauce, hst2⟩ : ∃ st2 : Loaded F S,
      runChunks cd st1 (sauceChunks d) = .ok st2 ∧ (∀ kb ∈ sauceChunks d, kb.1 ≠ Key.end_) ∧
      (match d.sauce, st2.sauce with | none, none => True | some (s, _), some s' => sauceEqv s' s | _, _ => False) ∧
      st2 = { st1 with sauce := st2.sauce } := by
    cases hsa : d.sauce with
    | none => exact ⟨st1, by simp [sauceChunks, hsa, runChunks], by simp [sauceChunks, hsa], trivial, rfl⟩
    | some sb =>
      obtain ⟨s, b⟩ := sb
      obtain ⟨s', h1, h2⟩ := hc.sauce s b hsa
      exact ⟨{ st1 with sauce := some s' }, by simp [sauceChunks, hsa, runChunks, stepChunk, h1],
        by simp [sauceChunks, hsa], h2, rfl⟩
  obtain ⟨st3, hs3, hne3, hst3⟩ : ∃ st3 : Loaded F S,
      runChunks cd st2 (paletteChunks cd d) = .ok st3 ∧ (∀ kb ∈ paletteChunks cd d, kb.1 ≠ Key.end_) ∧
      st3 = { st2 with palette := d.palette } := by
    by_cases hp : d.palette = dosDefaultPalette
    · refine ⟨st2, by simp [paletteChunks, hp, runChunks], by simp [paletteChunks, hp], ?_⟩
      rw [hst2, hp]; rfl
    · exact ⟨{ st2 with palette := d.palette }, by simp [paletteChunks, hp, runChunks, stepChunk, hc.pal],
        by simp [paletteChunks, hp], rfl⟩
  have hs4 := runChunks_fonts cd d.fonts st3 hc.font
  obtain ⟨css, ls', hcss, hne5, hs5, hleq⟩ := runChunks_layers cd d.layers hw.layers 0
    { st3 with fontAt := fontsApply st3.fontAt d.fonts }
  refine ⟨assemble cd d css,
    { st3 with fontAt := fontsApply st3.fontAt d.fonts, layers := st3.layers ++ ls' },
    by simp [encodeDoc, hcss], ?_, ?_⟩
  · -- the run
    unfold decodeDoc assemble
    simp only [List.append_assoc]
    rw [runChunks_append cd _ _ (initLoaded cd) st1 (by simp)
      (by simp [runChunks, stepChunk, decodeHeader_encode d.hdr hw.hdr, st1])]
    rw [runChunks_append cd _ _ st1 st2 hne2 hs2]
    rw [runChunks_append cd _ _ st2 st3 hne3 hs3]
    rw [runChunks_append cd _ _ st3 _ (by
      intro kb hkb
      simp only [List.mem_map] at hkb
      obtain ⟨kf, _, rfl⟩ := hkb
      simp) hs4]
    rw [runChunks_append cd _ _ _ _ hne5 hs5]
    simp [runChunks]
  · subst hst3
    rw [hst2]
    refine ⟨rfl, rfl, ?_, hsauce, by simpa [st1, initLoaded] using hleq⟩
    intro k
    simp only [st1, initLoaded]
    rw [fontsApply_lookup d.fonts _ hw.fontKeys k]
    cases hl : d.fonts.lookup k with
    | some f => rfl
    | none =>
      by_cases hk : k = 0
      · subst hk; have := hw.font0; rw [hl] at this; cases this
      · simp [hk]


/-- translator-level facts the model relies on: the writer's row loop of the continuation chunks is textually the
    loop of the first chunk, with the same short/long thresholds (the model uses one `encodeRow` for both) -/
theorem writer_loops_agree : cellLoopsIdentical = true ∧ shortMaxCont = shortMax ∧ writerKeywords = readerKeywords :=
  ⟨rfl, rfl, rfl⟩

/-! ## non-vacuity and witnesses -/

/-- a 3 x 3 layer: short cell, long cell (ch 0x2588, colour 300, page 256), an invisible cell carrying BOLD followed by
    a visible one, a full row, an empty row, a transparent colour; negative offset; all but one flag set -/
def exLayer : Layer :=
  { title := [0xE5, 0xB1, 0x82, 0x20, 0x31], role := 0, mode := 2, color := some (1, 2, 3),
    isVisible := false, isLocked := true, isPosLocked := true, hasAlpha := true, isAlphaLocked := true,
    transparency := 200, offX := -50, offY := 50, width := 3, height := 3, defaultPage := 300,
    lines := [[⟨65, 7, 0, 0, 1⟩, ⟨0x2588, 300, transparentColor, 256, 0x3FF⟩],
              [⟨32, 7, 0, 0, attrInvisible ||| 1⟩, ⟨66, 255, 255, 255, 0⟩, ⟨67, 1, 2, 3, 512⟩],
              []] }

example : WfLayer exLayer := by decide
example : ∃ cs l', encodeLayer exLayer = some cs ∧ decodeLayer cs = .ok l' ∧ l' ≈doc exLayer := layer_rt exLayer (by decide)
/-- the payload is 45 + 5 title bytes + (6 + 16 + 2) + (2 + 6 + 6) + 2 bytes -/
example : (encodeLayer exLayer).map (·.map List.length) = some [90] := by decide
example : (decodeLayer ((encodeLayer exLayer).getD [])).bind (fun l => Res.ok (visAt l 1 1)) = .ok (some ⟨66, 255, 255, 255, 0⟩) := by
  decide

/-- Viewdata / Ice / Free16 / FixedSize: the last variant of every enum -/
example : WfHeader ⟨4, 2, 3, 3, 200, 120⟩ := by decide
example : (bufferTypeVariants.getD 4 "", iceModeVariants.getD 2 "", paletteModeVariants.getD 3 "", fontModeVariants.getD 3 "") =
    ("Viewdata", "Ice", "Free16", "FixedSize") := by decide
example : initialHeader = ⟨1, 0, 1, 1, 80, 25⟩ := by decide
example : decodeHeader (encodeHeader ⟨4, 2, 3, 3, 200, 120⟩) = .ok ⟨4, 2, 3, 3, 200, 120⟩ := header_rt _ (by decide)

/-- a document with two layers, a non-default palette, two font slots (0 and 300) and SAUCE, over transparent
    example codecs: the hypotheses of `doc_rt` are satisfiable -/
def exCodecs : Codecs (Bytes × Bytes) Bytes :=
  { palEnc := fun p => p.flatMap fun c => [c.1, c.2.1, c.2.2]
    palDec := fun b => .ok ((List.range (b.length / 3)).map fun i => (b.getD (3 * i) 0, b.getD (3 * i + 1) 0, b.getD (3 * i + 2) 0))
    fontName := fun f => f.1, fontData := fun f => f.2, fontDec := fun n d => .ok (n, d)
    sauceDec := fun b => .ok (some b), defaultFont := ([], []) }

def exDoc : Doc (Bytes × Bytes) Bytes :=
  { hdr := ⟨1, 2, 0, 3, 80, 25⟩, sauce := some ([83, 65], [83, 65]), palette := [(1, 2, 3), (4, 5, 6)],
    fonts := [(300, ([70], [1, 2, 3])), (0, ([], [9]))], layers := [exLayer, { exLayer with width := 0, lines := [] }] }

example : WfDoc exDoc := ⟨by decide, by decide, by decide, by decide⟩
example : CodecsOk exCodecs (· = ·) exDoc :=
  ⟨by decide, by decide, by intro s b h; cases h; exact ⟨_, rfl, rfl⟩⟩

/-- why `Cell.wf` excludes the SHORT_DATA marker on visible cells: the writer emits the long form for
    `ch = 0x100` with the marker still set in `attr`, the reader takes the marker for "short form" and builds a
    different cell (no error) — the marker is the format's own flag, not a document attribute -/
theorem short_marker_is_not_an_attribute :
    let l : Layer := { exLayer with width := 1, height := 1, lines := [[⟨0x100, 7, 0, 0, attrShortData⟩]] }
    (decodeLayer ((encodeLayer l).getD [])).bind (fun l' => Res.ok (visAt l' 0 0)) = .ok (some ⟨0, 1, 0, 0, 0⟩) := by
  decide

/-- the writer of the PINNED tree (before the repair): an invisible cell was written as its raw attribute -/
def encodeCellPinned (c : Cell) : Bytes := if c.visible then encodeCell c else leBytes 2 c.attr

/-- the defect of the pinned tree, as a witness: `invisible() | BOLD` followed by a visible cell in a row of width
    3 — the reader takes the invisible cell for a long cell, swallows the next records and fails -/
theorem pinned_writer_breaks :
    readRow 3 (encodeCellPinned ⟨32, 7, 0, 0, attrInvisible ||| 1⟩ ++ encodeCell ⟨65, 7, 0, 0, 0⟩ ++
      leBytes 2 attrInvisibleShort) = .fail .errOob := by
  decide

end IcyVerif.C07
