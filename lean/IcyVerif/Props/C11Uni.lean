import IcyVerif.Lemmas.SauceUni
import IcyVerif.Lemmas.SauceRoundTrip
/-! # C11 — SAUCE strings on the Rust `String`s the API accepts

`Props/C11.lean: string_rt…` are statements about CP437 bytes.  `SauceString::from` takes a `String` and `to_string` gives
one back; in between are the table `CP437_TO_UNICODE` (regenerated: `Gen/Codec.lean: cp437`), the first-index search of
`from`, its `?` substitution and its cut at `LEN` characters.  These theorems put all of that under the round trip, with the
exact domain. -/
namespace IcyVerif.C11
open IcyVerif.Sauce IcyVerif.Gen.Sauce IcyVerif.Gen.Codec

/-- the facts about the table the theorems rest on (all 256 entries, kernel-checked on the regenerated table): it has 256
    entries, no character occurs twice (so "first index" is "the index"), NUL and blank sit at their ASCII positions -/
theorem cp437_table_facts :
    cp437.length = 256 ∧ cp437.Nodup ∧ cpChar 0 = 0 ∧ cpChar 32 = 32 ∧ cpChar 63 = 63 :=
  ⟨cp437_length, cp437_nodup, by decide +kernel, by decide +kernel, by decide +kernel⟩

/-- `from` and `to_string` on single characters: every byte's character is found at that byte; every table character
    comes back; every other character becomes `?` -/
theorem from_char_exact (ch : Nat) :
    (ch ∈ cp437 → cpChar (cpByte ch) = ch) ∧ (ch ∉ cp437 → cpByte ch = 63) ∧ cpByte ch < 256 ∧
    (∀ b, b < 256 → cpByte (cpChar b) = b) :=
  ⟨cpChar_cpByte ch, cpByte_other ch, cpByte_lt ch, cpByte_cpChar⟩

/-- the domain of the string round trip: at most `LEN` characters, all of them CP437 characters, no trailing blank / NUL -/
def UniDomain (len : Nat) (t : List Nat) : Prop :=
  t.length ≤ len ∧ (∀ ch ∈ t, ch ∈ cp437) ∧ stripT t = t

/-- **blank-padded fields (title, author, group) on Rust strings**: for every string of CP437 characters that fits,
    `from` → `append_to` → `read` → `to_string` gives the string without its trailing blanks and NULs — whatever follows
    the field in the record -/
theorem string_uni_rt (len : Nat) (t : List Nat) (hl : t.length ≤ len) (hc : ∀ ch ∈ t, ch ∈ cp437) (rest : List Nat) :
    ∃ r, strRead len 32 (strAppend len 32 (strFromUni len t) [] ++ rest) = .ok r ∧ strTextUni r = stripT t := by
  have hs : (strFromUni len t).length ≤ len := by simp [strFromUni]; omega
  refine ⟨_, strRead_append_pad (by decide) hs rest, ?_⟩
  unfold strTextUni
  rw [strText_eq, carryPad_stripT hs (by decide)]
  exact uni_core len t hl hc

/-- **the domain is exact**: the string comes back unchanged **iff** it has at most `LEN` characters, all of them in the
    table, and no trailing blank / NUL.  (Longer strings are cut, other characters become `?`, trailing blanks and NULs are
    padding.) -/
theorem string_uni_rt_iff (len : Nat) (t : List Nat) :
    strTextUni (carryPad len 32 (strFromUni len t)) = t ↔ UniDomain len t := by
  have hs : (strFromUni len t).length ≤ len := by simp [strFromUni]; omega
  have hL : strTextUni (carryPad len 32 (strFromUni len t)) = (stripT (strFromUni len t)).map cpChar := by
    unfold strTextUni
    rw [strText_eq, carryPad_stripT hs (by decide)]
  constructor
  · intro h
    rw [hL] at h
    have hlen : t.length ≤ (strFromUni len t).length := by
      have e1 := congrArg List.length h
      rw [List.length_map] at e1
      have e2 := stripT_length_le (strFromUni len t)
      omega
    have hl : t.length ≤ len := by omega
    have ht : t.take len = t := List.take_of_length_le hl
    have hfull : stripT (strFromUni len t) = strFromUni len t := by
      have h1 := stripT_prefix (strFromUni len t)
      have h2 : (stripT (strFromUni len t)).length = (strFromUni len t).length := by
        have e1 := congrArg List.length h
        rw [List.length_map] at e1
        have e2 := stripT_length_le (strFromUni len t)
        have e3 : (strFromUni len t).length ≤ t.length := by simp [strFromUni]; omega
        omega
      rw [h1, h2, List.take_length]
    rw [hfull] at h
    unfold strFromUni at h hfull
    rw [ht] at h hfull
    rw [List.map_map] at h
    have hc : ∀ ch ∈ t, ch ∈ cp437 := by
      intro ch hch
      have : ∀ (l : List Nat), l.map (cpChar ∘ cpByte) = l → ∀ x ∈ l, (cpChar ∘ cpByte) x = x := by
        intro l
        induction l with
        | nil => intro _ x hx; simp at hx
        | cons y ys ih =>
          intro hm x hx
          simp only [List.map_cons, List.cons.injEq] at hm
          simp only [List.mem_cons] at hx
          rcases hx with rfl | hx
          · exact hm.1
          · exact ih hm.2 x hx
      have e := this t h ch hch
      simp only [Function.comp] at e
      rw [← e]
      exact cpChar_mem _ (cpByte_lt ch)
    refine ⟨hl, hc, ?_⟩
    rw [stripT_map cpByte t (fun x hx => strip_cpByte x (hc x hx))] at hfull
    have h3 := stripT_prefix t
    have h4 : (stripT t).length = t.length := by
      have := congrArg List.length hfull
      simpa using this
    rw [h3, h4, List.take_length]
  · rintro ⟨hl, hc, hstrip⟩
    rw [hL, uni_core len t hl hc, hstrip]

/-- **NUL-padded fields (comment lines, font name)**: for every string of CP437 characters without a NUL that fits, the
    string comes back without its trailing blanks -/
theorem string_uni_rt_nul (len : Nat) (t : List Nat) (hl : t.length ≤ len) (hc : ∀ ch ∈ t, ch ∈ cp437) (h0 : 0 ∉ t)
    (rest : List Nat) :
    ∃ r, strRead len 0 (strAppend len 0 (strFromUni len t) [] ++ rest) = .ok r ∧ strTextUni r = stripT t := by
  have hs : (strFromUni len t).length ≤ len := by simp [strFromUni]; omega
  have ht : t.take len = t := List.take_of_length_le hl
  have hno : 0 ∉ strFromUni len t := by
    unfold strFromUni
    rw [ht]
    intro hm
    obtain ⟨ch, hch, he⟩ := List.mem_map.mp hm
    have := cpChar_cpByte ch (hc ch hch)
    rw [he] at this
    have h00 : cpChar 0 = 0 := by decide +kernel
    rw [h00] at this
    exact h0 (this ▸ hch)
  refine ⟨_, strRead_append_nul hs rest, ?_⟩
  have hcn : carryNul (strFromUni len t) = strFromUni len t := takeWhile_ne_zero_self _ hno
  unfold strTextUni
  rw [strText_eq, hcn]
  exact uni_core len t hl hc

/-- **the `?` substitution and the cut, as values**: what `from` makes of ANY string — one byte per character of the first
    `LEN` characters, the table index where there is one, `?` otherwise -/
theorem from_uni_value (len : Nat) (t : List Nat) :
    strFromUni len t = (t.take len).map (fun ch => if ch ∈ cp437 then cpByte ch else 63) ∧
    (strFromUni len t).length = min len t.length ∧ ∀ b ∈ strFromUni len t, b < 256 := by
  refine ⟨?_, by simp [strFromUni], ?_⟩
  · unfold strFromUni
    apply List.map_congr_left
    intro ch _
    by_cases h : ch ∈ cp437
    · rw [if_pos h]
    · rw [if_neg h, cpByte_other ch h]
  · intro b hb
    obtain ⟨ch, _, rfl⟩ := List.mem_map.mp hb
    exact cpByte_lt ch

/-! ### non-vacuity -/
-- "Grüße ░▒▓ " : German sharp s, umlaut, shade blocks are CP437; the trailing blank is padding
def exUni : List Nat := [71, 114, 252, 223, 101, 32, 9617, 9618, 9619, 32]
example : strFromUni 35 exUni = [71, 114, 129, 225, 101, 32, 176, 177, 178, 32] := by decide +kernel
example : strTextUni (carryPad 35 32 (strFromUni 35 exUni)) = exUni.take 9 := by decide +kernel
example : UniDomain 35 (exUni.take 9) := ⟨by decide, by decide +kernel, by decide +kernel⟩
-- a euro sign and a CJK character are not CP437: `?`
example : strFromUni 35 [8364, 65, 23383] = [63, 65, 63] := by decide +kernel
-- 40 characters into the 35-character title: cut
example : (strFromUni 35 (List.replicate 40 65)).length = 35 := by decide +kernel

end IcyVerif.C11
