import IcyVerif.Lemmas.FontBoxPage
import IcyVerif.Lemmas.FontBoxIcy
/-!
# C17 — which font goes where: cells on a font page k ≠ 0, fonts in slots other than 0

`Props/C17.lean` states the container round trips for pictures whose cells are on page 0 (XBin 512: pages 0 and 1) — the
identity between the PAGE the cells refer to, the SLOT the font sits in and the slot the loader puts it back into.  The
writers do not assume that identity: `Artworx::to_bytes` / `IceDraw::to_bytes` / `XBin::to_bytes` embed the font of
`analyze_font_usage(buf).first()`, the loaders install it as slot 0; the IcyDraw writer writes a `FONT_k` chunk for EVERY
slot k, the built-in default font included.  Here:

* `embedded_font_is_the_font_of_the_page` (XBin / ADF / IDF, every picture the writers accept, no domain hypothesis): the
  font block of the file holds the glyph bytes of the font in the slot of the FIRST PAGE IN USE — never those of slot 0
  unless the cells are on page 0;
* `adf_idf_font_rt_page` — ADF / IDF, cells on page k: the font of slot k comes back as slot 0, whatever other font slot 0
  holds, of whatever size (FULL since the two repairs of the writers' size test, `fixed:` `adf_font_height_of_slot0` /
  `idf_font_height_of_slot0`; the former counterexample is `adf_slot0_height_repaired`);
* `icy_default_font_in_any_slot` — IcyDraw: the built-in default font stored in ANY slot has its own `FONT_k` chunk and is
  read back in that slot (instance of `icy_font_rt`; the loader pre-fills slot 0 only).

XBin pictures on pages other than [0] / [0, 1]: the writer half is `embedded_font_is_the_font_of_the_page`; the loader
half is proved for pages [0] / [0, 1] only (`xb_font_rt`) — C05's `xb_roundtrip` is stated for those; the other pages
are covered by the correspondence run and the oracle (family `page` of `harness/src/fontslot.rs`).
-/
namespace IcyVerif.C17
open IcyVerif.Font IcyVerif.FontBox IcyVerif.BinFormats IcyVerif.XbCompress IcyVerif.Gen

/-- **Which font is embedded** — for EVERY picture the XBin / ADF / IDF writer accepts: if the file has a font block at
    all (`fontBlocks` non-empty: always for ADF / IDF), its first block holds the glyph bytes of the font in the slot of
    the first font page the cells use (`analyze_font_usage(buf).first()`), and a second block (XBin 512) those of the
    second page.  A writer that took `get_font(0)` instead fails this for every picture on a page k ≠ 0 whose slot 0
    holds other glyphs. -/
theorem embedded_font_is_the_font_of_the_page (f : Fmt) (o : Opts) (date : List Nat) (p : Pic) (bytes : List Nat)
    (h : save f o date p = .ok bytes) (i : Nat) (b : Nat × Nat × Nat) (hb : (fontBlocks f o p)[i]? = some b) :
    b.1 = (analyzeFontUsage p.rows.flatten).getD i 0 ∧
      ∃ font, lookupFont p.fonts ((analyzeFontUsage p.rows.flatten).getD i 0) = some font ∧
        (bytes.drop b.2.1).take b.2.2 = font.data := by
  have hmem : b ∈ fontBlocks f o p := List.mem_of_getElem? hb
  obtain ⟨font, hf1, hf2⟩ := font_blocks_hold f o date p bytes h b hmem
  have hslot : b.1 = (analyzeFontUsage p.rows.flatten).getD i 0 := by
    unfold fontBlocks at hb
    simp only at hb
    generalize analyzeFontUsage p.rows.flatten = pages at hb ⊢
    have h0 : pages.headD 0 = pages.getD 0 0 := by cases pages <;> rfl
    cases hl : lookupFont p.fonts (pages.headD 0) with
    | none => rw [hl] at hb; simp at hb
    | some fnt =>
      rw [hl] at hb
      cases f with
      | xb =>
        simp only at hb
        split at hb
        · split at hb
          · match i, hb with
            | 0, hb =>
              simp only [List.getElem?_cons_zero, Option.some.injEq] at hb
              rw [← hb]; exact h0
            | 1, hb =>
              simp only [List.getElem?_cons_succ, List.getElem?_cons_zero, Option.some.injEq] at hb
              rw [← hb]
            | (n + 2), hb => simp at hb
          · match i, hb with
            | 0, hb =>
              simp only [List.getElem?_cons_zero, Option.some.injEq] at hb
              rw [← hb]; exact h0
            | (n + 1), hb => simp at hb
        · simp at hb
      | adf =>
        match i, hb with
        | 0, hb =>
          simp only [List.getElem?_cons_zero, Option.some.injEq] at hb
          rw [← hb]; exact h0
        | (n + 1), hb => simp at hb
      | idf =>
        simp only at hb
        split at hb
        · match i, hb with
          | 0, hb =>
            simp only [List.getElem?_cons_zero, Option.some.injEq] at hb
            rw [← hb]; exact h0
          | (n + 1), hb => simp at hb
        · simp at hb
      | bin => simp at hb
      | tnd => simp at hb
  exact ⟨hslot, font, by rw [← hslot]; exact hf1, hf2⟩

/-- **ADF / IDF, cells on font page k** (any k; with or without a SAUCE record; IDF raw or run-length coded): the 8x16 font
    in SLOT k — not the one in slot 0 — is embedded and comes back, glyph for glyph, as slot 0 of the loaded buffer,
    whatever font slot 0 holds next to it — of ANY size: `boxOkPage` only asks that slot 0 holds some font (every
    `Buffer::new` has one; `write_sauce_info` takes the font name of the SAUCE record from it).
    FULL strength since `fix: ArtWorx writer tests the font height of slot 0 …` / `fix: iCE Draw writer tests the font size
    of slot 0 …` (was `adf_idf_font_rt_page_partial`, which had to assume an 8x16 font in slot 0 too: the writers tested
    slot 0 but embedded slot k).  What stays excluded is C05's: saved WITHOUT a SAUCE record, a file whose last 128 bytes
    read as one (`looksLikeSauce bytes = false`, finding `<fmt>:content-reads-as-sauce`, a property of the container). -/
theorem adf_idf_font_rt_page (fm : Fmt) (hfm : fm = .adf ∨ fm = .idf) (o : Opts) (date : List Nat) (k : Nat) (p : Pic)
    (hok : boxOkPage fm k p = true) (hdate : dateOk date = true) (name : List Nat) (f : BitFont) (wf : WfFont f 16)
    (h256 : f.glyphs.length = 256) (hp : lookupFont p.fonts k = boxFont name f) :
    ∃ bytes, save fm o date p = .ok bytes ∧
      ((o.sauce = true ∨ looksLikeSauce bytes = false) → ∃ g, fromBytes fm bytes = .ok g ∧ FontBack g 0 f) := by
  obtain ⟨bytes, fk, hk, hk16, h1, h2⟩ := page_font_roundtrip fm hfm o date k p hok hdate
  refine ⟨bytes, h1, fun hor => ?_⟩
  obtain ⟨g, h3, h4⟩ := h2 hor
  rw [hp, boxFont_wf name f 16 wf] at hk
  injection hk with hk
  exact ⟨g, h3, fontBack_single g _ h4 f (unbox_flat _ f 16 wf h256 rfl (by rw [← hk]; rfl))⟩

/-! ### non-vacuity, and the excluded point -/
set_option maxRecDepth 100000

def pageDate : List Nat := [50, 48, 50, 52, 48, 50, 50, 57]
/-- glyph `g` = sixteen rows of byte `g` -/
def idx16 : BitFont := { w := 8, h := 16, length := 256, glyphs := (List.range 256).map fun g => some (List.replicate 16 g) }
def idx16Box : BinFormats.Font := ⟨[70], 16, (List.range 256).flatMap fun g => List.replicate 16 g⟩
def cellOn (page x : Nat) : Cell := ⟨x % 256, ⟨x % 16, (x / 3) % 16, 0, page⟩⟩
/-- 80 x 1, every cell on page 3; slot 0 = the built-in default font, slot 3 = `idx16` -/
def adfPagePic : Pic := ⟨80, 1, [(List.range 80).map (cellOn 3)], .ice, dosPalette, [(0, defaultFont), (3, idx16Box)], none⟩
/-- 3 x 2 on page 300; slot 0 = an all-zero 8x14 font (not a font the format can hold — it is not the one embedded) -/
def idfPagePic : Pic := ⟨3, 2, [(List.range 3).map (cellOn 300), (List.range 3).map (cellOn 300)], .ice, dosPalette,
  [(300, idx16Box), (0, ⟨[90], 14, List.replicate 3584 0⟩)], none⟩

example : boxOkPage .adf 3 adfPagePic = true := by decide +kernel
example : boxOkPage .idf 300 idfPagePic = true := by decide +kernel
example : boxFont [70] idx16 = some idx16Box := by decide +kernel
example : WfFont idx16 16 :=
  { w8 := rfl, hh := rfl, h1 := by decide, h255 := by decide, n := by decide, len := by decide,
    rows := by
      intro g hg
      simp only [idx16, List.mem_map] at hg
      obtain ⟨r, _, rfl⟩ := hg
      exact ⟨_, rfl, by simp⟩ }
/-- the hypotheses do not hide the identity: slot 0 holds other glyphs than slot 3, and slot 3 is what comes back -/
example : lookupFont adfPagePic.fonts 0 ≠ lookupFont adfPagePic.fonts 3 := by decide +kernel
example : fontBlocks .adf ⟨true, false⟩ adfPagePic = [(3, 193, 4096)] := by decide +kernel
example : (match save .adf ⟨true, false⟩ pageDate adfPagePic with
    | .ok b => (match fromBytes .adf b with
      | .ok g => (lookupFont g.fonts 0).map unboxFont == some idx16
      | _ => false)
    | _ => false) = true := by decide +kernel
example : (match save .idf ⟨false, true⟩ pageDate idfPagePic with
    | .ok b => (match fromBytes .idf b with
      | .ok g => (lookupFont g.fonts 0).map unboxFont == some idx16
      | _ => false)
    | _ => false) = true := by decide +kernel

/-- 80 x 1 on page 3; slot 0 = the built-in default font (8x16), slot 3 = an 8x14 font -/
def adfBadPic : Pic := ⟨80, 1, [(List.range 80).map (cellOn 3)], .ice, dosPalette,
  [(0, defaultFont), (3, ⟨[70], 14, List.replicate 3584 7⟩)], none⟩
/-- 80 x 1 on page 3; slot 0 = an 8x14 font, slot 3 = `idx16` (8x16) -/
def adfRefusedPic : Pic := ⟨80, 1, [(List.range 80).map (cellOn 3)], .ice, dosPalette,
  [(0, ⟨[70], 14, List.replicate 3584 7⟩), (3, idx16Box)], none⟩

/-- **The former counterexample** (findings `adf_font_height_of_slot0` / `idf_font_height_of_slot0`, repaired): the size test
    now looks at the font that is embedded.  An 8x14 font on page 3 next to an 8x16 font in slot 0 is REFUSED (before: a file
    with a 3584-byte font block was written, which the loader rejects); an 8x16 font on page 3 next to an 8x14 font in slot 0
    — a picture the format can hold — is ACCEPTED (before: refused) and its font comes back; the same for IDF. -/
theorem adf_slot0_height_repaired :
    (match save .adf ⟨false, false⟩ [] adfBadPic with | .err => true | _ => false) = true ∧
    (match save .adf ⟨false, false⟩ [] adfRefusedPic with
      | .ok b => b.length == 1 + 192 + 4096 + 160 &&
          (match fromBytes .adf b with | .ok g => (lookupFont g.fonts 0).map unboxFont == some idx16 | _ => false)
      | _ => false) = true ∧
    (match save .idf ⟨false, false⟩ [] adfBadPic with | .err => true | _ => false) = true ∧
    (match save .idf ⟨false, false⟩ [] adfRefusedPic with
      | .ok b => b.length == 12 + 160 + 4096 + 48 &&
          (match fromBytes .idf b with | .ok g => (lookupFont g.fonts 0).map unboxFont == some idx16 | _ => false)
      | _ => false) = true := by
  refine ⟨?_, ?_, ?_, ?_⟩ <;> decide +kernel

/-! ### IcyDraw: a chunk for every slot, the built-in default font included -/

/-- **IcyDraw writes a `FONT_k` chunk for EVERY font slot** of the document — no hypothesis on the font: also for the built-in
    default font (`is_default()`), also in slots other than 0, where the loader's pre-filled slot 0 cannot stand in for it.
    (With `icy_font_rt`: that chunk is read back into slot k as the font that was saved.) -/
theorem icy_every_slot_has_a_chunk {S : Type} (palEnc : List IcyDraw.RGB → List Nat) (palDec : List Nat → IcyDraw.Res (List IcyDraw.RGB))
    (sauceDec : List Nat → IcyDraw.Res (Option S)) (dflt : IcyFont) (d : IcyDraw.Doc IcyFont S) (cs : List (IcyDraw.Key × List Nat))
    (h : IcyDraw.encodeDoc (icyCodecs palEnc palDec sauceDec dflt) d = some cs) :
    ∀ kf ∈ d.fonts, (IcyDraw.Key.font kf.1, IcyDraw.fontPayload (icyCodecs palEnc palDec sauceDec dflt) kf.2) ∈ cs := by
  intro kf hkf
  unfold IcyDraw.encodeDoc at h
  cases hl : IcyDraw.encodeAllLayers d.layers with
  | none => rw [hl] at h; cases h
  | some ls =>
    rw [hl] at h
    simp only [Option.map_some, Option.some.injEq] at h
    rw [← h]
    unfold IcyDraw.assemble
    simp only [List.mem_append, List.mem_map]
    exact Or.inl (Or.inl (Or.inr ⟨kf, hkf, rfl⟩))

/-- `BitFont::default()` as an IcyDraw font slot: name "Codepage 437 English", the built-in 8x16 glyphs -/
def icyDefault : IcyFont := ⟨BinFmt.defaultFontName, fromBasic 8 16 BinFmt.defaultFontData⟩
def icyCd : IcyDraw.Codecs IcyFont Unit := icyCodecs (fun _ => []) (fun _ => .ok []) (fun _ => .ok none) ⟨[], fromBasic 8 0 []⟩
/-- page-42-like custom font in slot 0, the built-in default font in slots 1 and 300 -/
def icySlotDoc : IcyDraw.Doc IcyFont Unit :=
  { hdr := ⟨1, 0, 1, 1, 80, 25⟩, sauce := none, palette := [(1, 2, 3)],
    fonts := [(0, ⟨[70], idx16⟩), (1, icyDefault), (300, icyDefault)], layers := [] }

/-- the default font in slots 1 and 300 next to another font in slot 0: three chunks, and each slot reads back as saved -/
example : ((IcyDraw.assemble icyCd icySlotDoc []).filterMap fun c => match c.1 with | .font n => some n | _ => none) = [0, 1, 300] := by
  decide +kernel
example : (match IcyDraw.decodeDoc icyCd (IcyDraw.assemble icyCd icySlotDoc []) with
    | .ok st => decide (st.fontAt 0 = some ⟨[70], idx16⟩) && decide (st.fontAt 1 = some icyDefault) &&
                decide (st.fontAt 300 = some icyDefault) && decide (st.fontAt 5 = none)
    | .fail _ => false) = true := by decide +kernel

end IcyVerif.C17
