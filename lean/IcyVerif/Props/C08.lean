import IcyVerif.Lemmas.UndoCalls
import IcyVerif.Lemmas.UndoScroll
set_option linter.unusedSimpArgs false
set_option linter.unusedVariables false
/-! # C08 — undo restores the document and redo the edit, for every edit history

Only property theorems and non-vacuity examples live here.

*Document state* = `Doc.obs`: buffer size; font table (slot → font), font / palette / ice mode, palette, SAUCE record;
per layer, in stack order: size, properties (title, role, visible, locked, position-locked, alpha, alpha-locked, offset)
and every stored cell INCLUDING rows/cells hidden beyond the layer size — but not the representation of the row storage,
and not caret / selection / selection mask / current layer (the property does not list them).

*Full statement* (DESIGN §4 C08): for every history of successful edits over ALL public operations, with undo/redo
steps interleaved, undo/redo never fail, undoing what the history added restores the initial document, redoing restores
the final one, a new edit empties the redo stack, atomic groups nest.
*Proved here*: exactly that (`stack_discipline`, `stack_discipline_fresh`, `new_edit_clears_redo`,
`atomic_group_folds`, `atomic_group_undoable`) for every history whose records satisfy the per-record inverse law
`InverseAt` / `Undoable`; the inverse law itself, at EVERY document, for every record type the model has (`inverse_*`
below; after the repairs of `known_findings.txt` none of them is partial any more); and, putting both together,
`api_history_discipline`: the full statement for every history over the 66 operations of `Call` — cells, layer
stack, sizes, crop, rows/columns, selection and selection mask, every `UndoLayerChange`-based area operation (flip,
justify, center, erase, scroll, make transparent, stamp down), rotate, merge / anchor, paste / floating layer, layer
properties, fonts, ice mode, palette, SAUCE, caret records, `push_reverse_undo`, atomic groups, undo/redo — whose step
lists are what the driver executes in the correspondence run.  Not in the model: `set_palette_mode`'s colour matching,
flip tables, `Shape::Lines` selections in the mask, `default_font_page` (see `tools/propsd/C08.py`). -/
namespace IcyVerif.C08
open IcyVerif.Undo

/-! ## the framework theorem -/

/-- **Stack discipline, for every history.**  Start from any editor state whose two stacks are chains of linked records
    (`WF`; e.g. the state reached by any earlier good history) with no atomic guard open.  Run ANY history `h` of
    primitive steps — edits recorded with `push_plain_undo`, edits performed by `push_undo_action`, changes outside
    the document state, `begin_atomic_undo`/guard drop (nested as you like), and undo/redo steps interleaved anywhere
    (undo steps do not go below the stack the history started on) — such that every record the history pushes satisfies
    the inverse law (`Step.Good`).  Then
    * no undo and no redo step of the history fails or panics;
    * if all edits succeed, undoing exactly the entries the history added succeeds and restores the initial document
      (observationally) and the initial undo stack, and redoing them succeeds and restores the final document. -/
theorem stack_discipline (ed0 : Ed) (bs cs : List DObs) (hwf : ed0.WF bs cs) (hg0 : ed0.guards = [])
    (h : List Step) (hgood : ∀ s ∈ h, s.Good) :
    (∀ e, ed0.run ed0.undoStack.length h ≠ .error (.undoFailed e)) ∧
    (∀ e, ed0.run ed0.undoStack.length h ≠ .error (.redoFailed e)) ∧
    ∀ ed1, ed0.run ed0.undoStack.length h = .ok ed1 →
      ed0.undoStack.length ≤ ed1.undoStack.length ∧
      ∃ ed2, ed1.undoN (ed1.undoStack.length - ed0.undoStack.length) = .ok ed2 ∧
        ed2.doc.obs = ed0.doc.obs ∧ ed2.undoStack = ed0.undoStack ∧
        ∃ ed3, ed2.redoN (ed1.undoStack.length - ed0.undoStack.length) = .ok ed3 ∧
          ed3.doc.obs = ed1.doc.obs ∧ ed3.undoStack.length = ed1.undoStack.length := by
  have hinv := Ed.Inv.init hwf hg0
  obtain ⟨r1, r2, r3⟩ := Ed.Inv.run h hinv hgood
  refine ⟨r1, r2, ?_⟩
  intro ed1 hrun
  have h1 := r3 ed1 hrun
  exact ⟨h1.above, h1.undo_all⟩

/-- the same for a freshly opened document (both stacks empty): here the `undo` steps of the history are exactly
    `UndoState::undo` (a no-op on the empty stack) and "what the history added" is the whole undo stack -/
theorem stack_discipline_fresh (d0 : Doc) (h : List Step) (hgood : ∀ s ∈ h, s.Good) :
    let ed0 : Ed := ⟨d0, [], [], []⟩
    (∀ e, ed0.run 0 h ≠ .error (.undoFailed e)) ∧ (∀ e, ed0.run 0 h ≠ .error (.redoFailed e)) ∧
    ∀ ed1, ed0.run 0 h = .ok ed1 →
      ∃ ed2, ed1.undoN ed1.undoStack.length = .ok ed2 ∧ ed2.doc.obs = d0.obs ∧ ed2.undoStack = [] ∧
        ∃ ed3, ed2.redoN ed1.undoStack.length = .ok ed3 ∧ ed3.doc.obs = ed1.doc.obs ∧
          ed3.undoStack.length = ed1.undoStack.length := by
  intro ed0
  have hwf : ed0.WF [] [] := ⟨.nil _, .nil _⟩
  obtain ⟨r1, r2, r3⟩ := stack_discipline ed0 [] [] hwf rfl h hgood
  refine ⟨r1, r2, ?_⟩
  intro ed1 hrun
  obtain ⟨_, ed2, h1, h2, h3, ed3, h4, h5, h6⟩ := r3 ed1 hrun
  have e0 : ed1.undoStack.length - ed0.undoStack.length = ed1.undoStack.length := by show ed1.undoStack.length - 0 = _; omega
  rw [e0] at h1 h4
  exact ⟨ed2, h1, h2, h3, ed3, h4, h5, h6⟩

/-- **End to end.**  For EVERY history of calls to the 66 operations of `Call` (set_char with and without mirror mode,
    swap_char, add/remove/raise/lower/duplicate/clear/merge/anchor/rotate/stamp layer, toggle visibility, move, resize,
    update properties, paste, add_floating_layer, resize_buffer (with and without layers), crop, crop_rect, delete/insert
    row and column, set/clear/deselect selection, add_selection_to_mask, inverse_selection, erase_selection, erase_row /
    column (+ to start / end), flip_x/y, justify_left/right, center, the three line variants, scroll_area_up/down/left/
    right, make_layer_transparent, switch_to_font_page, set/add fonts, replace_font_usage, change_font_slot, remove_font,
    set_ice_mode, switch_to_palette, update_sauce_data, undo_caret_position, push_reverse_undo, caret/current-layer/mirror
    changes, atomic groups and undo/redo steps) — any parameters (out-of-range indices, negative sizes and caret positions
    included), any interleaving — on EVERY document (hidden rows, unmaterialised rows, locked/hidden/alpha-locked layers,
    offsets, any font table): undo and redo never fail; when all edits succeed, undoing the whole undo stack restores the
    initial document, redoing it restores the final one.
    `Call.steps` is what the driver executes in the correspondence run, so this is a statement about the tied model. -/
theorem api_history_discipline (d0 : Doc) (calls : List Call) :
    let ed0 : Ed := ⟨d0, [], [], []⟩
    let h := calls.flatMap Call.steps
    (∀ e, ed0.run 0 h ≠ .error (.undoFailed e)) ∧ (∀ e, ed0.run 0 h ≠ .error (.redoFailed e)) ∧
    ∀ ed1, ed0.run 0 h = .ok ed1 →
      ∃ ed2, ed1.undoN ed1.undoStack.length = .ok ed2 ∧ ed2.doc.obs = d0.obs ∧ ed2.undoStack = [] ∧
        ∃ ed3, ed2.redoN ed1.undoStack.length = .ok ed3 ∧ ed3.doc.obs = ed1.doc.obs ∧
          ed3.undoStack.length = ed1.undoStack.length := by
  intro ed0 h
  apply stack_discipline_fresh d0 h
  intro s hs
  obtain ⟨c, _, hc⟩ := List.mem_flatMap.mp hs
  exact call_steps_good c s hc

/-- every step list of `Call` is good (the hypothesis of `stack_discipline` is met by the modelled operations) -/
theorem call_steps_good (c : Call) : ∀ s ∈ c.steps, s.Good := IcyVerif.Undo.call_steps_good c

/-- the per-record inverse law in the shape of DESIGN §4: what `Undoable` gives for the very documents of the edit -/
theorem inverse_law (op op' : UndoOp) (d d' : Doc) (hinv : InverseAt op d) (hr : op.redo d = .ok (op', d')) :
    ∃ op'' d₂, op'.undo d' = .ok (op'', d₂) ∧ d₂.obs = d.obs ∧ ∃ op''' d₃, op''.redo d₂ = .ok (op''', d₃) ∧ d₃.obs = d'.obs :=
  (hinv op' d' hr).inverse

/-- a new edit (either mechanism) after any number of undos leaves the redo stack empty — unless the operation
    returned `Ok(())` without doing anything, in which case the editor state is untouched -/
theorem new_edit_clears_redo (floor : Nat) (ed ed' : Ed) (s : Step)
    (hs : (∃ f, s = .edit f) ∨ (∃ mk, s = .act mk)) (hrun : ed.step floor s = .ok ed') :
    ed' = ed ∨ (ed'.redoStack = [] ∧ ed'.undoStack.length = ed.undoStack.length + 1) := by
  rcases hs with ⟨f, rfl⟩ | ⟨mk, rfl⟩
  · simp only [Ed.step] at hrun
    cases hf : f ed.doc with
    | error e => rw [hf] at hrun; simp at hrun
    | ok p =>
      rw [hf] at hrun
      cases p with
      | none => simp at hrun; exact Or.inl hrun.symm
      | some q => simp at hrun; subst hrun; exact Or.inr ⟨rfl, by simp [Ed.pushPlainUndo]⟩
  · simp only [Ed.step] at hrun
    cases hm : mk ed.doc with
    | error e => rw [hm] at hrun; simp at hrun
    | ok q =>
      rw [hm] at hrun
      cases q with
      | none => simp at hrun; exact Or.inl hrun.symm
      | some op =>
        simp only [Ed.pushUndoAction] at hrun
        cases hr : op.redo ed.doc with
        | error e => rw [hr] at hrun; simp at hrun
        | ok p => rw [hr] at hrun; simp at hrun; subst hrun; exact Or.inr ⟨rfl, by simp [Ed.pushPlainUndo]⟩

/-- and so does opening an atomic group (`begin_atomic_undo` clears the redo stack) -/
theorem begin_atomic_clears_redo (ed : Ed) : ed.beginAtomic.redoStack = [] := rfl

/-- **Atomic groups fold.**  Whatever was pushed (in this order: `ops`, at least one record) since a guard was opened
    becomes ONE stack entry `atomic ops` when the guard is dropped; the entries below are untouched.  A member of `ops`
    may itself be an `atomic` (an inner guard closed earlier): groups nest. -/
theorem atomic_group_folds (stack : List UndoOp) (guards : List Nat) (doc : Doc) (redo : List UndoOp) (ops : List UndoOp)
    (hne : ops ≠ []) :
    (⟨doc, ops.reverse ++ stack, redo, stack.length :: guards⟩ : Ed).endAtomic = ⟨doc, .atomic ops :: stack, redo, guards⟩ := by
  have hlen : ops.length > 0 := by
    cases ops with
    | nil => exact absurd rfl hne
    | cons _ _ => simp
  simp only [Ed.endAtomic, List.length_append, List.length_reverse]
  have h1 : ¬ stack.length ≥ ops.length + stack.length := by omega
  simp only [h1, if_false]
  have h2 : ops.length + stack.length - stack.length = ops.length := by omega
  rw [h2]
  have h3 : (ops.reverse ++ stack).take ops.length = ops.reverse := by
    have : ops.length = ops.reverse.length := by simp
    rw [this, List.take_left']
    rfl
  have h4 : (ops.reverse ++ stack).drop ops.length = stack := by
    have : ops.length = ops.reverse.length := by simp
    rw [this, List.drop_left']
    rfl
  rw [h3, h4, List.reverse_reverse]

/-- a guard under which nothing was recorded leaves no entry -/
theorem atomic_group_empty (stack : List UndoOp) (guards : List Nat) (doc : Doc) (redo : List UndoOp) :
    (⟨doc, stack, redo, stack.length :: guards⟩ : Ed).endAtomic = ⟨doc, stack, redo, guards⟩ := by
  simp [Ed.endAtomic]

/-- the folded group obeys the inverse law whenever its members (atomic or not) do, link by link -/
theorem atomic_group_undoable (ops : List UndoOp) (a c : DObs) (h : UChain ops a c) : Undoable (.atomic ops) a c :=
  undoable_atomic h

/-! ## the inverse law, record by record, at every document -/

theorem inverse_setChar (d : Doc) (i : Nat) (x y : Int) (old new : Cell)
    (hold : ∀ l, d.layers[i]? = some l → old = l.getChar x y) :
    InverseAt (.setChar x y i old new) d := IcyVerif.Undo.inverse_setChar d i x y old new hold
/-- the group a mirrored `set_char` on the centre column pushes (the same record twice) -/
theorem inverse_setChar_mirror_centre (d : Doc) (i : Nat) (x y : Int) (c : Cell) (l : LayerM) (hl : d.layers[i]? = some l) :
    Undoable (.atomic [.setChar x y i (l.getChar x y) c, .setChar x y i (l.getChar x y) c]) d.obs
      (d.setLayer i ((l.setChar x y c).setChar x y c)).obs := undoable_setChar_twice d i x y c l hl
theorem inverse_swapChar (d : Doc) (i : Nat) (x1 y1 x2 y2 : Int) : InverseAt (.swapChar i x1 y1 x2 y2) d :=
  IcyVerif.Undo.inverse_swapChar d i x1 y1 x2 y2
theorem inverse_addLayer (d : Doc) (idx : Nat) (l : LayerM) : InverseAt (.addLayer idx (some l)) d :=
  IcyVerif.Undo.inverse_addLayer d idx l
theorem inverse_removeLayer (d : Doc) (idx : Nat) (p : Option LayerM) : InverseAt (.removeLayer idx p) d :=
  IcyVerif.Undo.inverse_removeLayer d idx p
theorem inverse_raiseLayer (d : Doc) (idx : Nat) : InverseAt (.raiseLayer idx) d := IcyVerif.Undo.inverse_raiseLayer d idx
theorem inverse_lowerLayer (d : Doc) (idx : Nat) : InverseAt (.lowerLayer idx) d := IcyVerif.Undo.inverse_lowerLayer d idx
theorem inverse_toggleVisibility (d : Doc) (i : Nat) : InverseAt (.toggleVisibility i) d :=
  IcyVerif.Undo.inverse_toggleVisibility d i
theorem inverse_moveLayer (d : Doc) (i : Nat) (fx fy tx ty : Int)
    (hfrom : ∀ l, d.layers[i]? = some l → fx = l.props.offX ∧ fy = l.props.offY) :
    InverseAt (.moveLayer i fx fy tx ty) d := IcyVerif.Undo.inverse_moveLayer d i fx fy tx ty hfrom
theorem inverse_setLayerSize (d : Doc) (i : Nat) (fw fh tw th : Int) : InverseAt (.setLayerSize i fw fh tw th) d :=
  IcyVerif.Undo.inverse_setLayerSize d i fw fh tw th
theorem inverse_resizeBuffer (d : Doc) (w h : Int) : InverseAt (.resizeBuffer d.w d.h w h) d :=
  IcyVerif.Undo.inverse_resizeBuffer d w h
theorem inverse_clearLayer (d : Doc) (idx : Nat) (lines0 : List Row) : InverseAt (.clearLayer idx lines0) d :=
  IcyVerif.Undo.inverse_clearLayer d idx lines0
theorem inverse_crop (d : Doc) (w h : Int) (newLayers : List LayerM) :
    Undoable (.crop d.w d.h w h d.layers) d.obs ({ d with w := w, h := h, layers := newLayers } : Doc).obs :=
  IcyVerif.Undo.undoable_crop d w h newLayers
theorem inverse_deleteRow (d : Doc) (i : Nat) (line : Int) (row0 : Row) : InverseAt (.deleteRow i line row0) d :=
  IcyVerif.Undo.inverse_deleteRow d i line row0
theorem inverse_insertRow (d : Doc) (i : Nat) (line : Int) (row0 : Row) : InverseAt (.insertRow i line row0) d :=
  IcyVerif.Undo.inverse_insertRow d i line row0
theorem inverse_deleteColumn (d : Doc) (i : Nat) (col : Int) (del0 : List (Option Cell)) : InverseAt (.deleteColumn i col del0) d :=
  IcyVerif.Undo.inverse_deleteColumn d i col del0
theorem inverse_insertColumn (d : Doc) (i : Nat) (col : Int) : InverseAt (.insertColumn i col) d :=
  IcyVerif.Undo.inverse_insertColumn d i col
theorem inverse_scrollUp (d : Doc) (i : Nat) : InverseAt (.scrollUp i) d := IcyVerif.Undo.inverse_scrollUp d i
theorem inverse_scrollDown (d : Doc) (i : Nat) : InverseAt (.scrollDown i) d := IcyVerif.Undo.inverse_scrollDown d i

/-- **UndoLayerChange, full law** (flip, justify, center, erase, partial scroll, make transparent, stamp down): for every
    layer state and every area, whenever the snapshots are `from_layer` of the layer before and after an edit that stayed
    inside the area (`Frame`) — which every operation that builds this record does (`call_steps_good`) -/
theorem inverse_layerChange (d : Doc) (i : Nat) (a : Rect) (l l' old new : LayerM)
    (hl : d.layers[i]? = some l) (hold : fromLayer l a = .ok old) (hnew : fromLayer l' a = .ok new)
    (hframe : Frame a l.obs l'.obs) :
    Undoable (.layerChange i a.x a.y old new) d.obs (d.setLayer i l').obs :=
  undoable_layerChange d i a l l' old new hl hold hnew hframe

theorem inverse_setSelection (d : Doc) (old new : Option Sel) : InverseAt (.setSelection old new) d :=
  IcyVerif.Undo.inverse_setSelection d old new
theorem inverse_selectNothing (d : Doc) (sel : Option Sel) (mask : Mask) : InverseAt (.selectNothing sel mask) d :=
  IcyVerif.Undo.inverse_selectNothing d sel mask
theorem inverse_deselect (d : Doc) (sel : Sel) : InverseAt (.deselect sel) d := IcyVerif.Undo.inverse_deselect d sel
theorem inverse_setSelectionMask (d : Doc) (old new : Mask) : InverseAt (.setSelectionMask old new) d :=
  IcyVerif.Undo.inverse_setSelectionMask d old new
theorem inverse_addSelectionToMask (d : Doc) (old : Mask) (sel : Sel) : InverseAt (.addSelectionToMask old sel) d :=
  IcyVerif.Undo.inverse_addSelectionToMask d old sel
theorem inverse_inverseSelection (d : Doc) (sel : Option Sel) (old new : Mask) :
    Undoable (.inverseSelection sel old new) d.obs ({ d with sel := none, mask := new } : Doc).obs :=
  undoable_inverseSelection d sel old new

theorem inverse_mergeLayerDown (d : Doc) (idx : Nat) (m : LayerM) (o0 : Option (List LayerM)) :
    InverseAt (.mergeLayerDown idx (some m) o0) d := IcyVerif.Undo.inverse_mergeLayerDown d idx m o0
theorem inverse_paste (d : Doc) (cur : Nat) (l : LayerM) : InverseAt (.paste cur (some l)) d := IcyVerif.Undo.inverse_paste d cur l
theorem inverse_addFloatingLayer (d : Doc) (i : Nat)
    (hpaste : ∀ l, d.layers[i]? = some l → (l.props.role = 1 ∨ l.props.role = 2) ∧ l.props.title = IcyVerif.Gen.Undo.layerPastedName) :
    InverseAt (.addFloatingLayer i) d := IcyVerif.Undo.inverse_addFloatingLayer d i hpaste
theorem inverse_rotateLayer (d : Doc) (i : Nat) (old new : List Row)
    (hold : ∀ l, d.layers[i]? = some l → old = l.lines) : InverseAt (.rotateLayer i old new) d :=
  IcyVerif.Undo.inverse_rotateLayer d i old new hold
theorem inverse_updateLayerProps (d : Doc) (i : Nat) (old new : Props)
    (hold : ∀ l, d.layers[i]? = some l → old = l.props) : InverseAt (.updateLayerProps i old new) d :=
  IcyVerif.Undo.inverse_updateLayerProps d i old new hold

theorem inverse_switchToFontPage (d : Doc) (old new : Nat) : InverseAt (.switchToFontPage old new) d :=
  IcyVerif.Undo.inverse_switchToFontPage d old new
theorem inverse_setFont (d : Doc) (page old new : Nat) (hold : fmLookup d.x.fonts page = some old) :
    InverseAt (.setFont page old new) d := IcyVerif.Undo.inverse_setFont d page old new hold
theorem inverse_addFont (d : Doc) (oldPage newPage font : Nat) (r0 : Option Nat) : InverseAt (.addFont oldPage newPage font r0) d :=
  IcyVerif.Undo.inverse_addFont d oldPage newPage font r0
theorem inverse_removeFont (d : Doc) (slot : Nat) (f0 : Option Nat) : InverseAt (.removeFont slot f0) d :=
  IcyVerif.Undo.inverse_removeFont d slot f0
theorem inverse_changeFontSlot (d : Doc) (src dst : Nat) (r0 : Option Nat) : InverseAt (.changeFontSlot src dst r0) d :=
  IcyVerif.Undo.inverse_changeFontSlot d src dst r0
theorem inverse_replaceFontUsage (d : Doc) (op np : Nat) (nl : List LayerM) :
    Undoable (.replaceFontUsage op d.layers np nl) d.obs ({ d with layers := nl, fontPage := np } : Doc).obs :=
  undoable_replaceFontUsage d op np nl
theorem inverse_switchPalettte (d : Doc) (pal : List Nat) : InverseAt (.switchPalettte pal) d :=
  IcyVerif.Undo.inverse_switchPalettte d pal
theorem inverse_setSauceData (d : Doc) (data : Option Nat) : InverseAt (.setSauceData data) d :=
  IcyVerif.Undo.inverse_setSauceData d data
theorem inverse_setIceMode (d : Doc) (nm : Nat) (nl : List LayerM) :
    Undoable (.setIceMode d.x.iceMode d.layers nm nl) d.obs ({ d with layers := nl, x := { d.x with iceMode := nm } } : Doc).obs :=
  undoable_setIceMode d nm nl
theorem inverse_switchPalette (d : Doc) (nm : Nat) (npal : List Nat) (nl : List LayerM) :
    Undoable (.switchPalette d.x.paletteMode d.x.palette d.layers nm npal nl) d.obs
      ({ d with layers := nl, x := { d.x with palette := npal, paletteMode := nm } } : Doc).obs :=
  undoable_switchPalette d nm npal nl
theorem inverse_reverseCaret (d : Doc) (px py ox oy : Int) : Undoable (.reverseCaret px py ox oy) d.obs d.obs :=
  undoable_reverseCaret d px py ox oy
/-- **ReversedUndo**: wrapping a record that can be undone from the current document gives a record that obeys the law -/
theorem inverse_reversed (d : Doc) (op : UndoOp) (a : DObs) (h : Undoable op a d.obs) : InverseAt (.reversed op) d :=
  IcyVerif.Undo.inverse_reversed d op a h

/-! ## non-vacuity and witnesses -/

def demoLayer : LayerM := ⟨3, 2, defaultProps, [[⟨65, 0, 7, 0, 0⟩, ⟨66, 0, 7, 0, 0⟩, ⟨67, 0, 7, 0, 0⟩], [⟨68, 0, 7, 0, 0⟩]]⟩
def demoDoc : Doc := ⟨3, 2, [demoLayer], none, 0, 0, 0, false, ⟨[(0, 0)], 2, [0, 170], 1, 0, none⟩, ⟨3, 2, []⟩, 0⟩

/-- `stack_discipline_fresh` applies to a non-trivial history: set_layer_size, an atomic group of two set_chars (one of
    them on a row that is not materialised), undo, redo, undo — every step `Good` by the lemmas above -/
example : ∀ s ∈ ([.act (fun _ => .ok (some (.setLayerSize 0 0 0 2 1))), .beginAtomic,
      .act (fun d => .ok (some (.setChar 1 0 0 ((d.layers.getD 0 demoLayer).getChar 1 0) ⟨70, 0, 1, 2, 0⟩))),
      .touch (fun d => { d with caretX := 1 }), .endAtomic, .undo, .redo, .undo] : List Step), s.Good := by
  intro s hs
  simp only [List.mem_cons, List.mem_nil_iff, or_false] at hs
  rcases hs with rfl | rfl | rfl | rfl | rfl | rfl | rfl | rfl
  · intro d op hop; simp at hop; subst hop; exact inverse_setLayerSize d 0 0 0 2 1
  · trivial
  · intro d op hop
    simp at hop; subst hop
    refine IcyVerif.Undo.inverse_setChar d 0 1 0 _ _ ?_
    intro l hl; simp [List.getD_eq_getElem?_getD, hl]
  · intro d; rfl
  · trivial
  · trivial
  · trivial
  · trivial

/-- the history above really runs (all edits succeed) and ends with one entry on each stack -/
example : ∃ ed1, (⟨demoDoc, [], [], []⟩ : Ed).run 0 [.act (fun _ => .ok (some (.setLayerSize 0 0 0 2 1))), .beginAtomic,
      .act (fun d => .ok (some (.setChar 1 0 0 ((d.layers.getD 0 demoLayer).getChar 1 0) ⟨70, 0, 1, 2, 0⟩))),
      .touch (fun d => { d with caretX := 1 }), .endAtomic, .undo, .redo, .undo] = .ok ed1 ∧
      ed1.undoStack.length = 1 ∧ ed1.redoStack.length = 1 := ⟨_, rfl, rfl, rfl⟩

/-- `api_history_discipline` on a concrete history: shrink the layer (hiding a row), flip it inside a user group together
    with a font being added, scroll the row left, undo, undo, redo: all edits succeed -/
example : (match (⟨demoDoc, [], [], []⟩ : Ed).run 0 (([.setLayerSize 0 3 1, .beginAtomic, .flipX,
      .addFont (some 7) (some 3), .endAtomic, .scrollLeft, .undo, .undo, .redo] : List Call).flatMap Call.steps) with
      | .ok ed1 => (ed1.undoStack.length, ed1.redoStack.length)
      | .error _ => (0, 0)) = (2, 1) := by decide +kernel

/-- the repaired `UndoLayerChange` on the situation of the former finding `UndoLayerChange(area):undo-mismatch:hidden`: a
    whole-layer snapshot of a layer with a hidden second row is stamped back and the hidden row is still there -/
example :
    let l : LayerM := ⟨1, 1, defaultProps, [[⟨65, 0, 7, 0, 0⟩], [⟨66, 0, 7, 0, 0⟩]]⟩
    ∃ snap, fromLayer l ⟨0, 0, 1, 1⟩ = .ok snap ∧
      rowsGet (layerChangeApply l 0 0 snap).lines 0 1 = rowsGet l.lines 0 1 :=
  ⟨_, rfl, by decide⟩

/-- and `UndoSetChar` on an alpha-locked layer (former finding `UndoSetChar:undo-mismatch:alphalocked`): the erased cell
    comes back -/
example :
    let l : LayerM := ⟨1, 1, { defaultProps with hasAlpha := true, alphaLocked := true }, [[⟨65, 0, 7, 0, 0⟩]]⟩
    let d : Doc := { demoDoc with w := 1, h := 1, layers := [l] }
    ∃ op' d' op'' d₂, (UndoOp.setChar 0 0 0 (l.getChar 0 0) Cell.invisible).redo d = .ok (op', d') ∧
      op'.undo d' = .ok (op'', d₂) ∧ (d₂.layers.getD 0 l).getChar 0 0 = l.getChar 0 0 :=
  ⟨_, _, _, _, rfl, rfl, by decide⟩

end IcyVerif.C08
