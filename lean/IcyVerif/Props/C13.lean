import IcyVerif.Lemmas.Comp
import IcyVerif.Lemmas.CompTop
import IcyVerif.Lemmas.CompLayer
import IcyVerif.Model.CompHalf
/-! # C13 — layer compositing obeys the stacking laws

`getChar hb isTerm S x y` is `Buffer::get_char((x, y))` for the layer stack `S` (bottom layer first, as in
`buffer.layers`), `hb` the half-block classifier of `make_solid_color` (arbitrary: the laws hold for every
font table), `isTerm = buffer.is_terminal_buffer`.  Every theorem quantifies over ALL stacks, positions,
classifiers and both buffer kinds; they are proved by induction over the stack with the loop state
generalised (Lemmas/Comp.lean).

`=` is structural equality of cells (font page included); `≈` (`Cell.eqv`) is Rust's `PartialEq for
AttributedChar`, which ignores the font page — the observation the property talks about.  `≈` is needed
exactly where a silent layer is inserted/removed *inside the rectangle it covers*: the loop copies
`default_font_page` from every covering visible layer, so the fall-through cell's font page is that of the
lowest covering visible layer.

Beyond the stacking laws the file states "topmost first" (`topmost_first`, `topmost_opaque_blank`, `nothing_visible`:
a complete case split of what the walk displays), the laws of the layer's offset state machine (`set_offset_places` …
`translate_stack_api`: `getCharS` over layers with base offset / pending preview / position lock, the compositor reading
`get_offset()`), and facts about the transcribed half-block classifier on the regenerated CP437 bitmaps.

Semantics copied from the code, not "fixed":
* a Chars layer over a Chars layer: the LOWER one's character wins (the loop overwrites `ch_opt` on the way down);
* `has_alpha_channel` is consulted only for `Mode::Normal` layers (`modifier_alpha_flag_irrelevant`): char-only
  and attribute-only layers never produce a cell of their own, so "opaque" is stated for Normal layers;
* what makes a cell "not there" is tested per mode (`Layer.silentAt`). -/
namespace IcyVerif.C13
open IcyVerif.Comp

variable (hb : Cell → Nat × Nat) (isTerm : Bool)

local infix:50 " ≈ " => Cell.eqv

/-- The displayed cell is determined only by the visible layers covering the position (in stack order). -/
theorem determined_by_visible_covering (S : List Layer) (x y : Int) :
    getChar hb isTerm S x y = getChar hb isTerm (S.filter fun l => l.visible && l.covers x y) x y := by
  unfold getChar
  rw [go_filter, ← List.filter_reverse]

/-- A hidden layer may be replaced by any other hidden layer (content, size, offset, mode, alpha). -/
theorem hidden_irrelevant (A B : List Layer) (l l' : Layer) (x y : Int)
    (h : l.visible = false) (h' : l'.visible = false) :
    getChar hb isTerm (A ++ l :: B) x y = getChar hb isTerm (A ++ l' :: B) x y := by
  unfold getChar
  simp only [List.reverse_append, List.reverse_cons, List.append_assoc, List.singleton_append]
  exact go_replace hb isTerm x y l l'
    (fun st => by rw [layerStep_hidden hb x y l st h, layerStep_hidden hb x y l' st h']) _ _ _

/-- A hidden layer may be removed. -/
theorem hidden_removable (A B : List Layer) (l : Layer) (x y : Int) (h : l.visible = false) :
    getChar hb isTerm (A ++ l :: B) x y = getChar hb isTerm (A ++ B) x y := by
  unfold getChar
  simp only [List.reverse_append, List.reverse_cons, List.append_assoc, List.singleton_append]
  exact go_drop hb isTerm x y l (fun st => layerStep_hidden hb x y l st h) _ _ _

/-- A layer does not influence a position it does not cover. -/
theorem uncovered_irrelevant (A B : List Layer) (l : Layer) (x y : Int) (h : l.covers x y = false) :
    getChar hb isTerm (A ++ l :: B) x y = getChar hb isTerm (A ++ B) x y := by
  unfold getChar
  simp only [List.reverse_append, List.reverse_cons, List.append_assoc, List.singleton_append]
  exact go_drop hb isTerm x y l (fun st => layerStep_uncovered hb x y l st h) _ _ _

/-- An invisible cell of an alpha layer (Normal mode) and an invisible cell of a Chars / Attributes layer
    never influence the displayed cell (`silentAt`; for a Chars layer a blank character on background 0 is
    silent too). -/
theorem invisible_alpha_cell_irrelevant (A B : List Layer) (l : Layer) (x y : Int)
    (hv : l.visible = true) (hc : l.covers x y = true) (hs : l.silentAt x y = true) :
    getChar hb isTerm (A ++ l :: B) x y ≈ getChar hb isTerm (A ++ B) x y := by
  unfold getChar
  simp only [List.reverse_append, List.reverse_cons, List.append_assoc, List.singleton_append]
  exact go_silent hb isTerm x y l hv hc hs _ _ _

/-- The same law with the hypothesis spelled out: a cell carrying the INVISIBLE attribute, on an alpha layer
    or on a Chars / Attributes layer, never influences the displayed cell. -/
theorem invisible_cell_irrelevant (A B : List Layer) (l : Layer) (x y : Int)
    (hv : l.visible = true) (hc : l.covers x y = true) (ha : l.mode = .normal → l.alpha = true)
    (hi : (l.cellAt x y).isVisible = false) :
    getChar hb isTerm (A ++ l :: B) x y ≈ getChar hb isTerm (A ++ B) x y := by
  apply invisible_alpha_cell_irrelevant hb isTerm A B l x y hv hc
  unfold Layer.silentAt
  cases hm : l.mode with
  | normal => simp [hi, ha hm]
  | chars => simp [hi]
  | attributes => simp [hi]

/-- An opaque Normal layer hides everything beneath it inside its rectangle. -/
theorem opaque_cuts (below below' above : List Layer) (l : Layer) (x y : Int)
    (hv : l.visible = true) (hm : l.mode = .normal) (ha : l.alpha = false) (hc : l.covers x y = true) :
    getChar hb isTerm (below ++ l :: above) x y = getChar hb isTerm (below' ++ l :: above) x y := by
  unfold getChar
  simp only [List.reverse_append, List.reverse_cons, List.append_assoc, List.singleton_append]
  exact go_cut hb isTerm x y l (fun st => layerStep_opaque hb x y l st hv hc hm ha) _ _ _ _

/-- `has_alpha_channel` of a Chars / Attributes layer is never looked at. -/
theorem modifier_alpha_flag_irrelevant (A B : List Layer) (l : Layer) (a : Bool) (x y : Int)
    (hm : l.mode ≠ .normal) :
    getChar hb isTerm (A ++ { l with alpha := a } :: B) x y = getChar hb isTerm (A ++ l :: B) x y := by
  unfold getChar
  simp only [List.reverse_append, List.reverse_cons, List.append_assoc, List.singleton_append]
  exact go_replace hb isTerm x y _ l (fun st => layerStep_modifier_alpha hb x y l st a hm) _ _ _

/-- Moving one layer by an offset moves its contribution (one loop iteration, any loop state) by exactly
    that offset. -/
theorem layer_contribution_translates (l : Layer) (st : St) (x y dx dy : Int) :
    layerStep hb (x + dx) (y + dy) (l.shift dx dy) st = layerStep hb x y l st :=
  layerStep_shift hb x y dx dy l st

/-- Translating every layer by `(dx, dy)` translates the picture by `(dx, dy)` and changes nothing else. -/
theorem translate (S : List Layer) (x y dx dy : Int) :
    getChar hb isTerm (S.map (Layer.shift dx dy)) (x + dx) (y + dy) = getChar hb isTerm S x y := by
  unfold getChar
  rw [← List.map_reverse]
  exact go_shift hb isTerm x y dx dy _ _

/-! ## the "consequently" part of the property -/

/-- an empty layer: no visible cell anywhere (what `Layer::new` creates) -/
def EmptyLayer (l : Layer) : Prop := ∀ x y : Int, (l.getChar x y).isVisible = false

/-- Inserting an empty alpha layer (hidden or visible, any size / offset / mode / default font page)
    anywhere in the stack changes no displayed cell. -/
theorem insert_empty_alpha (A B : List Layer) (l : Layer) (x y : Int)
    (he : EmptyLayer l) (ha : l.alpha = true) :
    getChar hb isTerm (A ++ l :: B) x y ≈ getChar hb isTerm (A ++ B) x y := by
  cases hv : l.visible with
  | false => exact Cell.eqv_of_eq (hidden_removable hb isTerm A B l x y hv)
  | true =>
    cases hc : l.covers x y with
    | false => exact Cell.eqv_of_eq (uncovered_irrelevant hb isTerm A B l x y hc)
    | true =>
      apply invisible_alpha_cell_irrelevant hb isTerm A B l x y hv hc
      have h := he (x - l.offX) (y - l.offY)
      unfold Layer.silentAt Layer.cellAt
      cases l.mode <;> simp [ha, h]

/-- Editing a hidden layer changes no displayed cell (not even its font page). -/
theorem edit_hidden (A B : List Layer) (l l' : Layer) (x y : Int)
    (h : l.visible = false) (h' : l'.visible = false) :
    getChar hb isTerm (A ++ l :: B) x y = getChar hb isTerm (A ++ l' :: B) x y :=
  hidden_irrelevant hb isTerm A B l l' x y h h'

/-- Translating the whole stack changes no displayed cell other than by that translation. -/
theorem translate_stack (S : List Layer) (dx dy : Int) :
    ∀ x y : Int, getChar hb isTerm (S.map (Layer.shift dx dy)) (x + dx) (y + dy) = getChar hb isTerm S x y :=
  fun x y => translate hb isTerm S x y dx dy

/-- The `i32` walk of the implementation (debug profile: `pos - offset` is overflow-checked) is the
    unbounded walk the laws are about whenever no subtraction for a visible layer leaves `i32` — in
    particular on the whole quantifier of the property (offsets −4..=6, sizes ≤ 12). -/
theorem getCharC_eq_getChar (S : List Layer) (x y : Int)
    (h : ∀ l ∈ S, l.visible = true → inI32 (x - l.offX) = true ∧ inI32 (y - l.offY) = true) :
    getCharC hb isTerm S x y = some (getChar hb isTerm S x y) := by
  unfold getCharC getChar
  exact goC_eq hb isTerm x y _ _ (fun l hl => h l (List.mem_reverse.mp hl))

/-! ## "topmost first"

Walking down from the top, the layers that *pass* at the position (`Layer.passes`: hidden, not covering, Chars /
Attributes layers, alpha Normal layers with an invisible cell) only leave the modifiers `charFrom` / `attrFrom` (the
LOWEST Chars / Attributes cell above wins — the loop overwrites `ch_opt` / `attr_opt` on the way down).  The first
layer that does not pass decides: a Normal layer with a visible cell shows that cell (merged with the modifiers above
it), and the layers beneath may only fill its transparent colours in (`Cell.fills`); an opaque Normal layer with an
invisible cell shows the default cell merged with the modifiers; if every layer passes the fall-through cell is shown.
`S = below ++ l :: above` is `buffer.layers` (bottom first).

True of the repaired code only: before `fix: Buffer::get_char keeps a pending transparent-colour cell …` the opaque
branch overwrote the remembered cell and `topmost_first` was false for a stack `[opaque Normal, Attributes cell,
transparent-colour half block]` (known_findings.txt). -/

/-- The first Normal layer with a visible cell (from the top) decides the character, the flags, the font page and
    every colour that is not `TRANSPARENT_COLOR`; without a transparent colour it is displayed exactly. -/
theorem topmost_first (below above : List Layer) (l : Layer) (x y : Int)
    (hp : ∀ a ∈ above, a.passes x y = true)
    (hv : l.visible = true) (hc : l.covers x y = true) (hm : l.mode = .normal)
    (hcell : (l.cellAt x y).isVisible = true) :
    (merge (l.cellAt x y) (charFrom x y above) (attrFrom x y above)).fills (getChar hb isTerm (below ++ l :: above) x y)
    ∧ ((merge (l.cellAt x y) (charFrom x y above) (attrFrom x y above)).hasTransparentColor = false →
        getChar hb isTerm (below ++ l :: above) x y = merge (l.cellAt x y) (charFrom x y above) (attrFrom x y above)) := by
  have key : (merge (l.cellAt x y) (charFrom x y above) (attrFrom x y above)).fills
      (getChar hb isTerm (below ++ l :: above) x y) := by
    unfold getChar
    simp only [List.reverse_append, List.reverse_cons, List.append_assoc, List.singleton_append]
    rw [go_passes hb isTerm x y above.reverse _ _ (fun a ha => hp a (List.mem_reverse.mp ha))]
    obtain ⟨d, hd⟩ := foldl_init x y above
    rw [hd]
    exact go_decider hb isTerm x y l below.reverse ⟨charFrom x y above, attrFrom x y above, d, none⟩ hv hc hm hcell rfl
  exact ⟨key, fun ht => Cell.fills_solid key ht⟩

/-- The special case without merging layers: no Chars / Attributes cell above → the topmost visible cell itself. -/
theorem topmost_first_plain (below above : List Layer) (l : Layer) (x y : Int)
    (hp : ∀ a ∈ above, a.passes x y = true)
    (hn : ∀ a ∈ above, a.givesChar x y = false ∧ a.givesAttr x y = false)
    (hv : l.visible = true) (hc : l.covers x y = true) (hm : l.mode = .normal)
    (hcell : (l.cellAt x y).isVisible = true) :
    (l.cellAt x y).fills (getChar hb isTerm (below ++ l :: above) x y) := by
  have h := (topmost_first hb isTerm below above l x y hp hv hc hm hcell).1
  have h1 : charFrom x y above = none := by
    unfold charFrom
    rw [List.find?_eq_none.mpr (fun a ha => by simp [(hn a ha).1])]; rfl
  have h2 : attrFrom x y above = none := by
    unfold attrFrom
    rw [List.find?_eq_none.mpr (fun a ha => by simp [(hn a ha).2])]; rfl
  rw [h1, h2] at h
  have hmerge : merge (l.cellAt x y) none none = l.cellAt x y := by unfold merge; split <;> rfl
  rw [hmerge] at h
  exact h

/-- An opaque Normal layer whose cell is invisible, reached first: the default cell (on the layer's default font
    page) merged with the modifiers above it; its own transparent colours (an Attributes cell may carry one) are
    resolved against the plain default cell. -/
theorem topmost_opaque_blank (below above : List Layer) (l : Layer) (x y : Int)
    (hp : ∀ a ∈ above, a.passes x y = true)
    (hv : l.visible = true) (hc : l.covers x y = true) (hm : l.mode = .normal) (ha : l.alpha = false)
    (hcell : (l.cellAt x y).isVisible = false) :
    getChar hb isTerm (below ++ l :: above) x y =
      (let res := merge (defaultCell.withPage l.dfltPage) (charFrom x y above) (attrFrom x y above)
       if (charFrom x y above).isSome || (attrFrom x y above).isSome then makeSolid hb res defaultCell else res) := by
  unfold getChar
  simp only [List.reverse_append, List.reverse_cons, List.append_assoc, List.singleton_append]
  rw [go_passes hb isTerm x y above.reverse _ _ (fun a ha => hp a (List.mem_reverse.mp ha))]
  obtain ⟨d, hd⟩ := foldl_init x y above
  rw [hd, go_opaque_blank hb isTerm x y l below.reverse _ hv hc hm ha hcell]
  rfl

/-- No layer produces a cell: the fall-through cell — the default cell merged with the modifiers (always on a terminal
    buffer), else `AttributedChar::invisible()`. -/
theorem nothing_visible (S : List Layer) (x y : Int) (hp : ∀ a ∈ S, a.passes x y = true) :
    getChar hb isTerm S x y ≈
      (if isTerm || (charFrom x y S).isSome || (attrFrom x y S).isSome
       then merge defaultCell (charFrom x y S) (attrFrom x y S) else invisibleCell) := by
  unfold getChar
  have := go_passes hb isTerm x y S.reverse [] St.init (fun a ha => hp a (List.mem_reverse.mp ha))
  rw [List.append_nil] at this
  rw [this]
  obtain ⟨d, hd⟩ := foldl_init x y S
  rw [hd]
  unfold go finish
  exact ⟨rfl, rfl, rfl, rfl⟩

/-! ## where a layer is shown: the offset state machine of `Layer` (Model/CompLayer.lean)

`getCharS` is `Buffer::get_char` over layers with position state (`properties.offset`, `preview_offset`,
`is_position_locked`); the compositor reads `Layer::get_offset()`. -/

/-- After `set_offset(q)` on an unlocked layer the layer contributes its (unchanged) content at exactly `q` — after
    EVERY history `ops` of `set_offset` / `set_preview_offset` / lock / direct writes of `properties.offset`, whatever
    preview was pending. -/
theorem set_offset_places (l : LayerS) (ops : List LOp) (q : Int × Int) (h : (l.run ops).posLocked = false) :
    ((l.run ops).setOffset q).view = l.body.placedAt q := by
  obtain ⟨q', hq'⟩ := l.run_body ops
  rw [LayerS.view_setOffset _ q h, hq', Layer.placedAt_placedAt]

/-- The same, as a statement about pictures: the stack shows what a stack built from scratch with that layer at `q`
    shows (the oracle the harness runs on real `Layer`s). -/
theorem set_offset_shows_at (A B : List LayerS) (l : LayerS) (ops : List LOp) (q : Int × Int) (x y : Int)
    (h : (l.run ops).posLocked = false) :
    getCharS hb isTerm (A ++ (l.run ops).setOffset q :: B) x y
      = getCharS hb isTerm (A ++ LayerS.fresh (l.body.placedAt q) :: B) x y := by
  unfold getCharS
  simp only [List.map_append, List.map_cons]
  rw [set_offset_places l ops q h, LayerS.view_fresh]

/-- `set_offset` on a position-locked layer changes nothing. -/
theorem set_offset_locked_ignored (l : LayerS) (q : Int × Int) (h : l.posLocked = true) : l.setOffset q = l :=
  LayerS.setOffset_locked l q h

/-- While a preview is pending the layer is shown at the preview offset, and cancelling it shows the layer at its base
    offset again — after every history. -/
theorem preview_shows_at (l : LayerS) (ops : List LOp) (p : Int × Int) :
    ((l.run ops).setPreviewOffset (some p)).view = l.body.placedAt p
    ∧ ((l.run ops).setPreviewOffset none).view = l.body.placedAt (l.run ops).getBaseOffset := by
  obtain ⟨q', hq'⟩ := l.run_body ops
  constructor
  · rw [LayerS.view_setPreview_some, hq', Layer.placedAt_placedAt]
  · rw [LayerS.view_setPreview_none]
    show (l.run ops).body = l.body.placedAt ((l.run ops).body.offX, (l.run ops).body.offY)
    rw [hq']; rfl

/-- Operations on one layer do not touch another: layer `i` after a stack history is layer `i` after the operations
    addressed to it. -/
theorem layers_independent (S : List LayerS) (ops : List (Nat × LOp)) (i : Nat) :
    (runStack S ops)[i]? = (S[i]?).map (fun l => l.run (opsFor i ops)) :=
  runStack_getElem? S ops i

/-- Invariant over ALL stack histories: the picture is that of the original contents, each placed at its layer's
    `get_offset()` — no operation of the position API changes what a layer contributes, only where. -/
theorem picture_after_history (S : List LayerS) (ops : List (Nat × LOp)) (x y : Int) :
    getCharS hb isTerm (runStack S ops) x y
      = getChar hb isTerm
          (List.zipWith (fun (l l' : LayerS) => l.body.placedAt l'.getOffset) S (runStack S ops)) x y := by
  unfold getCharS
  rw [runStack_view]

/-- "Moving a layer by an offset moves its contribution by exactly that offset", over the API: `set_offset(get_offset()
    + d)` on an unlocked layer (any pending preview), and `set_preview_offset(Some(get_offset() + d))` on any layer. -/
theorem move_layer_by (l : LayerS) (st : St) (x y dx dy : Int) :
    (l.posLocked = false →
      layerStep hb (x + dx) (y + dy) (l.setOffset (l.getOffset.1 + dx, l.getOffset.2 + dy)).view st
        = layerStep hb x y l.view st)
    ∧ layerStep hb (x + dx) (y + dy) (l.setPreviewOffset (some (l.getOffset.1 + dx, l.getOffset.2 + dy))).view st
        = layerStep hb x y l.view st := by
  constructor
  · intro h
    rw [LayerS.view_setOffset _ _ h, ← layerStep_shift hb x y dx dy l.view st]
    rfl
  · rw [LayerS.view_setPreview_some, ← layerStep_shift hb x y dx dy l.view st]
    rfl

/-- Moving every (unlocked) layer of a stack by `d` through `set_offset` translates the picture by `d`. -/
theorem translate_stack_api (S : List LayerS) (dx dy : Int) (hu : ∀ l ∈ S, l.posLocked = false) (x y : Int) :
    getCharS hb isTerm (S.map fun l => l.setOffset (l.getOffset.1 + dx, l.getOffset.2 + dy)) (x + dx) (y + dy)
      = getCharS hb isTerm S x y := by
  unfold getCharS
  rw [← translate hb isTerm (S.map LayerS.view) x y dx dy]
  simp only [List.map_map]
  congr 1
  apply List.map_congr_left
  intro l hl
  show (l.setOffset (l.getOffset.1 + dx, l.getOffset.2 + dy)).view = l.view.shift dx dy
  rw [LayerS.view_setOffset _ _ (hu l hl)]
  rfl

/-! ## the half-block classifier (Model/CompHalf.lean) on the regenerated CP437 8x16 bitmaps

`HalfBlock::from` on the default font: a full block shows the foreground in both halves, a blank the background, the
upper / lower half block one each — so a transparent-colour half block composited over a half block keeps both
colours.  (`221`, the left half block, has exactly a quarter of the cell set in each half and counts as background:
the comparison is `>`.) -/

theorem halfblock_cp437_shapes :
    (ansiFont 0).map (fun f => (f.w * f.h / IcyVerif.Gen.CompFonts.halfThresholdDiv,
        [32, 219, 220, 223, 221].map fun c => (f.glyph c).map halfOnes))
      = some (32, [some (0, 0), some (64, 64), some (8, 64), some (56, 0), some (32, 32)]) := by
  decide +kernel

/-- on a buffer whose slot `p` holds CP437 8x16 -/
theorem halfblock_cp437_blocks (fonts : Nat → Option BFont) (p : Nat) (hf : fonts p = ansiFont 0) (fg bg fl : Nat) :
    halfBlockOf fonts ⟨219, ⟨fg, bg, fl, p⟩⟩ = (fg, fg) ∧ halfBlockOf fonts ⟨32, ⟨fg, bg, fl, p⟩⟩ = (bg, bg)
    ∧ halfBlockOf fonts ⟨223, ⟨fg, bg, fl, p⟩⟩ = (fg, bg) ∧ halfBlockOf fonts ⟨220, ⟨fg, bg, fl, p⟩⟩ = (bg, fg) := by
  have hs := halfblock_cp437_shapes
  cases hfont : ansiFont 0 with
  | none => rw [hfont] at hs; exact absurd hs (by simp)
  | some f =>
    rw [hfont] at hs
    simp only [Option.map_some, Option.some.injEq, Prod.mk.injEq, List.map_cons, List.map_nil, List.cons.injEq,
      and_true] at hs
    obtain ⟨hthr, h32, h219, h220, h223, _⟩ := hs
    unfold halfBlockOf
    simp only [hf, hfont]
    cases g32 : f.glyph 32 with
    | none => rw [g32] at h32; exact absurd h32 (by simp)
    | some d32 =>
    cases g219 : f.glyph 219 with
    | none => rw [g219] at h219; exact absurd h219 (by simp)
    | some d219 =>
    cases g220 : f.glyph 220 with
    | none => rw [g220] at h220; exact absurd h220 (by simp)
    | some d220 =>
    cases g223 : f.glyph 223 with
    | none => rw [g223] at h223; exact absurd h223 (by simp)
    | some d223 =>
    rw [g32] at h32; rw [g219] at h219; rw [g220] at h220; rw [g223] at h223
    simp only [Option.map_some, Option.some.injEq] at h32 h219 h220 h223
    simp only [hthr, h32, h219, h220, h223]
    refine ⟨?_, ?_, ?_, ?_⟩ <;> simp

/-- non-vacuity: a transparent-background upper half block over a lower half block keeps both colours (real bitmaps) -/
example : makeSolidF (fontTable [(0, 0)]) ⟨223, ⟨3, IcyVerif.Gen.Comp.transparentColor, 0, 0⟩⟩ ⟨220, ⟨5, 6, 0, 0⟩⟩
    = ⟨223, ⟨3, 5, 0, 0⟩⟩ := by decide +kernel
example : fontTable [(0, 0)] 0 = ansiFont 0 := rfl

/-! ## why the hypotheses are there (facts about the code, by evaluation) -/
section witnesses
def hb0 : Cell → Nat × Nat := fun c => (c.attr.bg, c.attr.bg)
def cA : Cell := ⟨65, ⟨7, 0, 0, 0⟩⟩
def cB : Cell := ⟨66, ⟨2, 1, 0, 0⟩⟩
def base : Layer := ⟨true, false, .normal, 0, 0, 1, 1, 0, [[⟨68, ⟨3, 5, 0, 0⟩⟩]]⟩
def opaqueChars : Layer := ⟨true, false, .chars, 0, 0, 1, 1, 0, [[cB]]⟩

/-- an "opaque" Chars layer does not cut: `opaque_cuts` needs `mode = normal` -/
example : getChar hb0 false ([base] ++ opaqueChars :: []) 0 0 ≠ getChar hb0 false ([] ++ opaqueChars :: []) 0 0 := by
  decide

/-- with structural equality `insert_empty_alpha` is false: the font page of the fall-through cell changes -/
example : getChar hb0 false ([] ++ (⟨true, true, .normal, 0, 0, 1, 1, 3, []⟩ : Layer) :: []) 0 0
    ≠ getChar hb0 false ([] ++ []) 0 0 := by decide
end witnesses

/-! ## non-vacuity: a 3-layer stack with a Chars layer and a transparent-colour half block -/
section nonvacuity
open IcyVerif.Gen.Comp
/-- lower half block, background = TRANSPARENT_COLOR -/
def halfT : Cell := ⟨220, ⟨4, transparentColor, 0, 0⟩⟩
def bottom : Layer := ⟨true, false, .normal, 0, 0, 3, 2, 0, [[cA, cB, cA], [cB]]⟩
def mid : Layer := ⟨true, true, .chars, 1, 0, 2, 2, 1, [[⟨67, ⟨0, 0, 0, 0⟩⟩]]⟩
def top : Layer := ⟨true, true, .normal, -1, 0, 3, 1, 2, [[invisibleCell, halfT, halfT]]⟩
def hidden1 : Layer := ⟨false, false, .normal, 0, 0, 3, 2, 0, [[cB, cB, cB]]⟩
def emptyAlpha : Layer := ⟨true, true, .normal, 0, 0, 3, 2, 3, []⟩
def hbT : Cell → Nat × Nat := fun c => (c.attr.bg, c.attr.fg)

-- the half block over 'A' resolves its transparent background through the classifier
example : getChar hbT false [bottom, mid, top] 0 0 = ⟨220, ⟨4, 0, 0, 0⟩⟩ := by decide
-- the Chars layer replaces the character of the cell below ('B' → 'C'), the half block resolves over it
example : getChar hbT false [bottom, mid, top] 1 0 = ⟨220, ⟨4, 1, 0, 0⟩⟩ := by decide
example : getChar hbT false [bottom, mid] 1 0 = ⟨67, ⟨2, 1, 0, 0⟩⟩ := by decide
-- outside every layer: invisible on a non-terminal buffer, default cell on a terminal buffer
example : getChar hbT false [bottom, mid, top] 5 5 = invisibleCell := by decide
example : getChar hbT true [bottom, mid, top] 5 5 = defaultCell := by decide
-- the hypotheses of the theorems are satisfiable on this stack
example : EmptyLayer emptyAlpha := by
  intro x y
  unfold Layer.getChar emptyAlpha
  split
  · decide
  · simp only [List.getElem?_nil]; decide
example : top.visible = true ∧ top.covers (-1) 0 = true ∧ top.silentAt (-1) 0 = true := by decide
example : bottom.visible = true ∧ bottom.mode = .normal ∧ bottom.alpha = false ∧ bottom.covers 2 1 = true := by decide
example : hidden1.visible = false := rfl
example : getChar hbT false ([bottom] ++ emptyAlpha :: [mid, top]) 1 0 = getChar hbT false [bottom, mid, top] 1 0 := by
  decide
example : getChar hbT false ([bottom, mid, top].map (Layer.shift 3 (-2))) (1 + 3) (0 + -2) = ⟨220, ⟨4, 1, 0, 0⟩⟩ := by
  decide

/-! ### topmost first -/
-- no merging layer above: the half block of `top` decides at (0,0); its transparent background is filled from below
example : (∀ a ∈ ([] : List Layer), a.passes 0 0 = true) ∧ top.visible = true ∧ top.covers 0 0 = true ∧ top.mode = .normal
    ∧ (top.cellAt 0 0).isVisible = true ∧ top.cellAt 0 0 = halfT := by decide
example : halfT.fills (getChar hbT false ([bottom, mid] ++ top :: []) 0 0) := by decide
-- a Chars layer above the deciding cell: `mid` passes at (1,0) and imposes 'C' on the 'B' of `bottom`
example : (∀ a ∈ [mid], a.passes 1 0 = true) ∧ charFrom 1 0 [mid] = some 67 ∧ attrFrom 1 0 [mid] = none
    ∧ bottom.visible = true ∧ bottom.covers 1 0 = true ∧ bottom.mode = .normal ∧ (bottom.cellAt 1 0).isVisible = true := by
  decide
example : getChar hbT false ([] ++ bottom :: [mid]) 1 0 = merge (bottom.cellAt 1 0) (some 67) none := by decide
/-- the stack on which the code was repaired (known_findings.txt): opaque Normal layer without a cell, an Attributes cell,
    a transparent-colour upper half block on top.  The half block is displayed (before the repair: `' '/4/6`). -/
def opaqueBlank : Layer := ⟨true, false, .normal, 0, 0, 1, 1, 0, []⟩
def attrL : Layer := ⟨true, true, .attributes, 0, 0, 1, 1, 0, [[⟨219, ⟨4, 6, 0, 0⟩⟩]]⟩
def halfTop : Layer := ⟨true, true, .normal, 0, 0, 1, 1, 0, [[⟨223, ⟨3, transparentColor, 0, 0⟩⟩]]⟩
example : getChar hb0 false ([opaqueBlank, attrL] ++ halfTop :: []) 0 0 = ⟨223, ⟨3, 6, 0, 0⟩⟩ := by decide
example : (⟨223, ⟨3, transparentColor, 0, 0⟩⟩ : Cell).fills (getChar hbT false ([opaqueBlank, attrL] ++ halfTop :: []) 0 0) := by
  decide
-- `topmost_opaque_blank` and `nothing_visible`: hypotheses satisfiable with a modifier present
example : (∀ a ∈ [attrL], a.passes 0 0 = true) ∧ attrFrom 0 0 [attrL] = some ⟨4, 6, 0, 0⟩ ∧ opaqueBlank.alpha = false
    ∧ (opaqueBlank.cellAt 0 0).isVisible = false := by decide
example : getChar hbT false ([] ++ opaqueBlank :: [attrL]) 0 0 = ⟨32, ⟨4, 6, 0, 0⟩⟩ := by decide
example : (∀ a ∈ [attrL, emptyAlpha], a.passes 0 0 = true) ∧ getChar hbT false [attrL, emptyAlpha] 0 0 = ⟨32, ⟨4, 6, 0, 0⟩⟩ := by
  decide

/-! ### the offset state machine -/
/-- a layer dragged to (5,3), locked, `set_offset` ignored, unlocked again: a preview is still pending -/
def dragged : LayerS := (LayerS.fresh top).run [.setPreview (some (5, 3)), .setLocked true, .setOffset (9, 9), .setLocked false]
example : dragged.posLocked = false ∧ dragged.getPreviewOffset = some (5, 3) ∧ dragged.getOffset = (5, 3)
    ∧ dragged.getBaseOffset = (-1, 0) := by decide
-- dropping it where it started (the shape of seeded change C13_4): shown at the base offset, preview gone
example : (dragged.setOffset (-1, 0)).getOffset = (-1, 0) ∧ (dragged.setOffset (-1, 0)).getPreviewOffset = none := by decide
example : getCharS hbT false ([LayerS.fresh bottom, LayerS.fresh mid] ++ dragged.setOffset (-1, 0) :: []) 0 0
    = getChar hbT false [bottom, mid, top] 0 0 := by decide
example : getCharS hbT false [LayerS.fresh bottom, LayerS.fresh mid, dragged] 6 3
    = getChar hbT false [bottom, mid, top.placedAt (5, 3)] 6 3 := by decide
-- a stack history: operations on layer 2 leave layer 0 alone
example : opsFor 0 [(2, LOp.setOffset (1, 1)), (0, .setPreview (some (2, 2))), (2, .setLocked true)] = [.setPreview (some (2, 2))] := by
  decide
end nonvacuity

end IcyVerif.C13
