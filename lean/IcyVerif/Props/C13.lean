import IcyVerif.Lemmas.Comp
/-! # C13 — layer compositing obeys the stacking laws

`getChar hb isTerm S x y` is `Buffer::get_char((x, y))` for the layer stack `S` (bottom layer first, as in
`buffer.layers`), `hb` the half-block classifier of `make_solid_color` (arbitrary: the laws hold for every
font table), `isTerm = buffer.is_terminal_buffer`.  Every theorem quantifies over ALL stacks, positions,
classifiers and both buffer kinds; they are proved by induction over the stack with the loop state
generalised (Lemmas/Comp.lean).

`=` is structural equality of cells (font page included); `≈` (`Cell.eqv`) is Rust's `PartialEq for
AttributedChar`, which ignores the font page — the observation the property talks about.  `≈` is needed
exactly where a silent layer is inserted/removed *inside the rectangle it covers*: the loop copies
`default_font_page` from every covering visible layer, so the fall-through cell's font page is that of the
lowest covering visible layer.

Semantics copied from the code, not "fixed":
* a Chars layer over a Chars layer: the LOWER one's character wins (the loop overwrites `ch_opt` on the way down);
* `has_alpha_channel` is consulted only for `Mode::Normal` layers (`modifier_alpha_flag_irrelevant`): char-only
  and attribute-only layers never produce a cell of their own, so "opaque" is stated for Normal layers;
* what makes a cell "not there" is tested per mode (`Layer.silentAt`). -/
namespace IcyVerif.C13
open IcyVerif.Comp

variable (hb : Cell → Nat × Nat) (isTerm : Bool)

local infix:50 " ≈ " => Cell.eqv

/-- The displayed cell is determined only by the visible layers covering the position (in stack order). -/
theorem determined_by_visible_covering (S : List Layer) (x y : Int) :
    getChar hb isTerm S x y = getChar hb isTerm (S.filter fun l => l.visible && l.covers x y) x y := by
  unfold getChar
  rw [go_filter, ← List.filter_reverse]

/-- A hidden layer may be replaced by any other hidden layer (content, size, offset, mode, alpha). -/
theorem hidden_irrelevant (A B : List Layer) (l l' : Layer) (x y : Int)
    (h : l.visible = false) (h' : l'.visible = false) :
    getChar hb isTerm (A ++ l :: B) x y = getChar hb isTerm (A ++ l' :: B) x y := by
  unfold getChar
  simp only [List.reverse_append, List.reverse_cons, List.append_assoc, List.singleton_append]
  exact go_replace hb isTerm x y l l'
    (fun st => by rw [layerStep_hidden hb x y l st h, layerStep_hidden hb x y l' st h']) _ _ _

/-- A hidden layer may be removed. -/
theorem hidden_removable (A B : List Layer) (l : Layer) (x y : Int) (h : l.visible = false) :
    getChar hb isTerm (A ++ l :: B) x y = getChar hb isTerm (A ++ B) x y := by
  unfold getChar
  simp only [List.reverse_append, List.reverse_cons, List.append_assoc, List.singleton_append]
  exact go_drop hb isTerm x y l (fun st => layerStep_hidden hb x y l st h) _ _ _

/-- A layer does not influence a position it does not cover. -/
theorem uncovered_irrelevant (A B : List Layer) (l : Layer) (x y : Int) (h : l.covers x y = false) :
    getChar hb isTerm (A ++ l :: B) x y = getChar hb isTerm (A ++ B) x y := by
  unfold getChar
  simp only [List.reverse_append, List.reverse_cons, List.append_assoc, List.singleton_append]
  exact go_drop hb isTerm x y l (fun st => layerStep_uncovered hb x y l st h) _ _ _

/-- An invisible cell of an alpha layer (Normal mode) and an invisible cell of a Chars / Attributes layer
    never influence the displayed cell (`silentAt`; for a Chars layer a blank character on background 0 is
    silent too). -/
theorem invisible_alpha_cell_irrelevant (A B : List Layer) (l : Layer) (x y : Int)
    (hv : l.visible = true) (hc : l.covers x y = true) (hs : l.silentAt x y = true) :
    getChar hb isTerm (A ++ l :: B) x y ≈ getChar hb isTerm (A ++ B) x y := by
  unfold getChar
  simp only [List.reverse_append, List.reverse_cons, List.append_assoc, List.singleton_append]
  exact go_silent hb isTerm x y l hv hc hs _ _ _

/-- The same law with the hypothesis spelled out: a cell carrying the INVISIBLE attribute, on an alpha layer
    or on a Chars / Attributes layer, never influences the displayed cell. -/
theorem invisible_cell_irrelevant (A B : List Layer) (l : Layer) (x y : Int)
    (hv : l.visible = true) (hc : l.covers x y = true) (ha : l.mode = .normal → l.alpha = true)
    (hi : (l.cellAt x y).isVisible = false) :
    getChar hb isTerm (A ++ l :: B) x y ≈ getChar hb isTerm (A ++ B) x y := by
  apply invisible_alpha_cell_irrelevant hb isTerm A B l x y hv hc
  unfold Layer.silentAt
  cases hm : l.mode with
  | normal => simp [hi, ha hm]
  | chars => simp [hi]
  | attributes => simp [hi]

/-- An opaque Normal layer hides everything beneath it inside its rectangle. -/
theorem opaque_cuts (below below' above : List Layer) (l : Layer) (x y : Int)
    (hv : l.visible = true) (hm : l.mode = .normal) (ha : l.alpha = false) (hc : l.covers x y = true) :
    getChar hb isTerm (below ++ l :: above) x y = getChar hb isTerm (below' ++ l :: above) x y := by
  unfold getChar
  simp only [List.reverse_append, List.reverse_cons, List.append_assoc, List.singleton_append]
  exact go_cut hb isTerm x y l (fun st => layerStep_opaque hb x y l st hv hc hm ha) _ _ _ _

/-- `has_alpha_channel` of a Chars / Attributes layer is never looked at. -/
theorem modifier_alpha_flag_irrelevant (A B : List Layer) (l : Layer) (a : Bool) (x y : Int)
    (hm : l.mode ≠ .normal) :
    getChar hb isTerm (A ++ { l with alpha := a } :: B) x y = getChar hb isTerm (A ++ l :: B) x y := by
  unfold getChar
  simp only [List.reverse_append, List.reverse_cons, List.append_assoc, List.singleton_append]
  exact go_replace hb isTerm x y _ l (fun st => layerStep_modifier_alpha hb x y l st a hm) _ _ _

/-- Moving one layer by an offset moves its contribution (one loop iteration, any loop state) by exactly
    that offset. -/
theorem layer_contribution_translates (l : Layer) (st : St) (x y dx dy : Int) :
    layerStep hb (x + dx) (y + dy) (l.shift dx dy) st = layerStep hb x y l st :=
  layerStep_shift hb x y dx dy l st

/-- Translating every layer by `(dx, dy)` translates the picture by `(dx, dy)` and changes nothing else. -/
theorem translate (S : List Layer) (x y dx dy : Int) :
    getChar hb isTerm (S.map (Layer.shift dx dy)) (x + dx) (y + dy) = getChar hb isTerm S x y := by
  unfold getChar
  rw [← List.map_reverse]
  exact go_shift hb isTerm x y dx dy _ _

/-! ## the "consequently" part of the property -/

/-- an empty layer: no visible cell anywhere (what `Layer::new` creates) -/
def EmptyLayer (l : Layer) : Prop := ∀ x y : Int, (l.getChar x y).isVisible = false

/-- Inserting an empty alpha layer (hidden or visible, any size / offset / mode / default font page)
    anywhere in the stack changes no displayed cell. -/
theorem insert_empty_alpha (A B : List Layer) (l : Layer) (x y : Int)
    (he : EmptyLayer l) (ha : l.alpha = true) :
    getChar hb isTerm (A ++ l :: B) x y ≈ getChar hb isTerm (A ++ B) x y := by
  cases hv : l.visible with
  | false => exact Cell.eqv_of_eq (hidden_removable hb isTerm A B l x y hv)
  | true =>
    cases hc : l.covers x y with
    | false => exact Cell.eqv_of_eq (uncovered_irrelevant hb isTerm A B l x y hc)
    | true =>
      apply invisible_alpha_cell_irrelevant hb isTerm A B l x y hv hc
      have h := he (x - l.offX) (y - l.offY)
      unfold Layer.silentAt Layer.cellAt
      cases l.mode <;> simp [ha, h]

/-- Editing a hidden layer changes no displayed cell (not even its font page). -/
theorem edit_hidden (A B : List Layer) (l l' : Layer) (x y : Int)
    (h : l.visible = false) (h' : l'.visible = false) :
    getChar hb isTerm (A ++ l :: B) x y = getChar hb isTerm (A ++ l' :: B) x y :=
  hidden_irrelevant hb isTerm A B l l' x y h h'

/-- Translating the whole stack changes no displayed cell other than by that translation. -/
theorem translate_stack (S : List Layer) (dx dy : Int) :
    ∀ x y : Int, getChar hb isTerm (S.map (Layer.shift dx dy)) (x + dx) (y + dy) = getChar hb isTerm S x y :=
  fun x y => translate hb isTerm S x y dx dy

/-- The `i32` walk of the implementation (debug profile: `pos - offset` is overflow-checked) is the
    unbounded walk the laws are about whenever no subtraction for a visible layer leaves `i32` — in
    particular on the whole quantifier of the property (offsets −4..=6, sizes ≤ 12). -/
theorem getCharC_eq_getChar (S : List Layer) (x y : Int)
    (h : ∀ l ∈ S, l.visible = true → inI32 (x - l.offX) = true ∧ inI32 (y - l.offY) = true) :
    getCharC hb isTerm S x y = some (getChar hb isTerm S x y) := by
  unfold getCharC getChar
  exact goC_eq hb isTerm x y _ _ (fun l hl => h l (List.mem_reverse.mp hl))

/-! ## why the hypotheses are there (facts about the code, by evaluation) -/
section witnesses
def hb0 : Cell → Nat × Nat := fun c => (c.attr.bg, c.attr.bg)
def cA : Cell := ⟨65, ⟨7, 0, 0, 0⟩⟩
def cB : Cell := ⟨66, ⟨2, 1, 0, 0⟩⟩
def base : Layer := ⟨true, false, .normal, 0, 0, 1, 1, 0, [[⟨68, ⟨3, 5, 0, 0⟩⟩]]⟩
def opaqueChars : Layer := ⟨true, false, .chars, 0, 0, 1, 1, 0, [[cB]]⟩

/-- an "opaque" Chars layer does not cut: `opaque_cuts` needs `mode = normal` -/
example : getChar hb0 false ([base] ++ opaqueChars :: []) 0 0 ≠ getChar hb0 false ([] ++ opaqueChars :: []) 0 0 := by
  decide

/-- with structural equality `insert_empty_alpha` is false: the font page of the fall-through cell changes -/
example : getChar hb0 false ([] ++ (⟨true, true, .normal, 0, 0, 1, 1, 3, []⟩ : Layer) :: []) 0 0
    ≠ getChar hb0 false ([] ++ []) 0 0 := by decide
end witnesses

/-! ## non-vacuity: a 3-layer stack with a Chars layer and a transparent-colour half block -/
section nonvacuity
open IcyVerif.Gen.Comp
/-- lower half block, background = TRANSPARENT_COLOR -/
def halfT : Cell := ⟨220, ⟨4, transparentColor, 0, 0⟩⟩
def bottom : Layer := ⟨true, false, .normal, 0, 0, 3, 2, 0, [[cA, cB, cA], [cB]]⟩
def mid : Layer := ⟨true, true, .chars, 1, 0, 2, 2, 1, [[⟨67, ⟨0, 0, 0, 0⟩⟩]]⟩
def top : Layer := ⟨true, true, .normal, -1, 0, 3, 1, 2, [[invisibleCell, halfT, halfT]]⟩
def hidden1 : Layer := ⟨false, false, .normal, 0, 0, 3, 2, 0, [[cB, cB, cB]]⟩
def emptyAlpha : Layer := ⟨true, true, .normal, 0, 0, 3, 2, 3, []⟩
def hbT : Cell → Nat × Nat := fun c => (c.attr.bg, c.attr.fg)

-- the half block over 'A' resolves its transparent background through the classifier
example : getChar hbT false [bottom, mid, top] 0 0 = ⟨220, ⟨4, 0, 0, 0⟩⟩ := by decide
-- the Chars layer replaces the character of the cell below ('B' → 'C'), the half block resolves over it
example : getChar hbT false [bottom, mid, top] 1 0 = ⟨220, ⟨4, 1, 0, 0⟩⟩ := by decide
example : getChar hbT false [bottom, mid] 1 0 = ⟨67, ⟨2, 1, 0, 0⟩⟩ := by decide
-- outside every layer: invisible on a non-terminal buffer, default cell on a terminal buffer
example : getChar hbT false [bottom, mid, top] 5 5 = invisibleCell := by decide
example : getChar hbT true [bottom, mid, top] 5 5 = defaultCell := by decide
-- the hypotheses of the theorems are satisfiable on this stack
example : EmptyLayer emptyAlpha := by
  intro x y
  unfold Layer.getChar emptyAlpha
  split
  · decide
  · simp only [List.getElem?_nil]; decide
example : top.visible = true ∧ top.covers (-1) 0 = true ∧ top.silentAt (-1) 0 = true := by decide
example : bottom.visible = true ∧ bottom.mode = .normal ∧ bottom.alpha = false ∧ bottom.covers 2 1 = true := by decide
example : hidden1.visible = false := rfl
example : getChar hbT false ([bottom] ++ emptyAlpha :: [mid, top]) 1 0 = getChar hbT false [bottom, mid, top] 1 0 := by
  decide
example : getChar hbT false ([bottom, mid, top].map (Layer.shift 3 (-2))) (1 + 3) (0 + -2) = ⟨220, ⟨4, 1, 0, 0⟩⟩ := by
  decide
end nonvacuity

end IcyVerif.C13
