import IcyVerif.Lemmas.SixelCap
import IcyVerif.Lemmas.SixelRaster
import IcyVerif.Lemmas.SixelQueue
import IcyVerif.Lemmas.SixelLoad
import IcyVerif.Lemmas.SixelScale
/-! # C14 — sixel images are complete rectangles and appear in arrival order
Only property theorems and non-vacuity examples live here.

(a) `Sixel::parse_from` (model `IcyVerif.Sixel.parse`, the tree AFTER the two `fix:` commits):
    rectangularity, consistency with a raster declaration, panic freedom.
(b) `Buffer::update_sixel_threads` (model `IcyVerif.SixelQueue.poll`): schedule independence,
    non-blocking, no loss / no duplication.
(c) the file-loading path `parse_with_parser` (model `IcyVerif.SixelLoad.loadSixels`) and the hand-off in
    `execute_dcs` (`IcyVerif.SixelLoad.classify`, `IcyVerif.Sixel.decode`): every delivered image becomes exactly
    one image layer, newest first, cell size = ceiling, independent of the completion schedule; the covering rule
    removes nothing but covered images; the picture does not depend on the DCS parameters.

Partial (named here and in the evidence): the OS scheduler and the memory ordering of
`JoinHandle::is_finished` are not modelled — completions enter the model as `finish` events;
payload numbers above `MAX_SIXEL_SIZE` / `MAX_SIXEL_COLORS` are parse errors since the size-limit repairs (former finding
`alloc`); the model outcome `Out.huge` is unreachable (`IcyVerif.C03.sixel_never_huge`). -/
namespace IcyVerif.C14
open IcyVerif

section Rect
open IcyVerif.Sixel

/-- the literals of the model (band height 6, 4 bytes per pixel, first data char `?`, ignore threshold 0x7F,
    control characters, 16-colour default palette, `parse_next_number`) are the ones in the working tree -/
theorem constants_match_source :
    Gen.Sixel.defaultPalLen = ({} : St).palLen ∧ Gen.Sixel.firstData = 63 ∧ Gen.Sixel.bandRows = 6 ∧
    Gen.Sixel.pixelBytes = 4 ∧ Gen.Sixel.ignoreAbove = 127 ∧
    Gen.Sixel.controlChars = ['#', '!', '-', '$', '"'].map Char.toNat ∧
    Gen.Sixel.src_parse_next_number = "x.saturating_mul(10).saturating_add(ch as i32).saturating_sub(b'0' as i32)" :=
  gen_constants_tie

/-- the raster attribute arm of `parse_char` is the code `sizeArm` was written against: both forms resize the row
    vector to the declared height unconditionally (`Vec::resize` grows AND cuts), then set `height_set`; any edit there
    breaks this obligation until the model has been revisited (the translator copies the text on every run) -/
theorem raster_source_unchanged :
    Gen.Sixel.src_raster_arm = [
      "self.vertical_scale = self.parsed_numbers[0];",
      "self.horizontal_scale = self.parsed_numbers[1];",
      "if self.parsed_numbers.len() == 3 {",
      "let height = self.parsed_numbers[2];",
      "self.picture_data.resize(height as usize, Vec::new());",
      "self.height_set = true;",
      "}",
      "if self.parsed_numbers.len() == 4 {",
      "let height = self.parsed_numbers[3];",
      "let width = self.parsed_numbers[2];",
      "self.picture_data.resize(height as usize, vec![0; 4 * width as usize]);",
      "self.height_set = true;",
      "}",
      "self.state = SixelState::Read;"] := by
  decide

/-- **Rectangularity.** Every image the parser returns holds exactly `w * h * 4` bytes; the common row
    length is the widest row (rows are padded, never cut) and all sizes are in `i32` range. -/
theorem sixel_rect (payload : List Char) (img : Img) (h : parse payload = .ok img) :
    img.dataLen = img.w * img.h * 4 ∧ img.w * 4 ≤ hugeLimit ∧ img.h ≤ hugeLimit := by
  unfold parse mapOut at h
  obtain ⟨s, hs, hf⟩ := andThen_ok h
  have g : Good s := by have := run_good good_init (payload ++ ['#']); rw [hs] at this; exact this
  injection hf with hf; subst hf
  have hr := rowLen_ok g.rows
  simp only [finish, sum_const, RowOK] at hr ⊢
  refine ⟨?_, by omega, g.height⟩
  have : rowLen s.rows / 4 * 4 = rowLen s.rows := by omega
  rw [Nat.mul_comm (rowLen s.rows / 4), Nat.mul_assoc, this]

/-- padding never cuts a row: every row of the final state fits into the returned width -/
theorem sixel_pad_only (payload : List Char) (s : St) (h : parseSt payload = .ok s) :
    ∀ r ∈ s.rows, r ≤ (finish s).w * 4 := by
  intro r hr
  have g : Good s := by have := run_good good_init (payload ++ ['#']); unfold parseSt at h; rw [h] at this; exact this
  have h1 := (foldl_max_ge s.rows 0).2 r hr
  have h2 := rowLen_ok g.rows
  simp only [finish, rowLen, RowOK] at *
  omega

/-- **Consistency with a declared raster size — wherever the attribute stands.** `hdr` is ANY prefix of the payload
    (picture data, `-`, `$`, colour definitions, earlier raster attributes) that leaves the parser inside a raster
    attribute whose numbers declare `W × H` (`"Pan;Pad;Ph;Pv` or `"Pan;Pad;Pv`, `W = 0`); the next character `c` ends
    the attribute, and no further `"` follows.  Then the image is exactly `H` pixels high: rows that were decoded
    BEFORE the attribute arrived and lie above `H` are cut (`picture_data.resize` of both arms), taller data after it
    is clipped, shorter data is padded; and if the attribute adds rows (`H` exceeds the rows decoded so far — in
    particular if it comes before any picture data and `H > 0`) the image is at least `W` wide (wider data extends it). -/
theorem sixel_raster_consistent (hdr rest : List Char) (c : Char) (s : St) (W H : Nat) (img : Img)
    (hh : run {} hdr = .ok s) (hst : s.state = .readSize) (hd : declared s.nums = some (W, H))
    (hc1 : c.isDigit = false) (hc2 : c ≠ ';') (hc3 : c ≠ '"') (hrest : ∀ ch ∈ rest, ch ≠ '"')
    (h : parse (hdr ++ c :: rest) = .ok img) :
    img.h = H ∧ (s.rows.length < H → W ≤ img.w) ∧ (s.rows = [] → 0 < H → W ≤ img.w) := by
  unfold parse mapOut at h
  obtain ⟨sf, hs, hf⟩ := andThen_ok h
  injection hf with hf; subst hf
  rw [List.append_assoc, run_append, hh] at hs
  simp only [Out.andThen, List.cons_append, run_cons] at hs
  obtain ⟨s1, h1, h2⟩ := andThen_ok hs
  -- first step: the raster arm, then `parse_sixel_data(c)`
  have hp : parseChar s c = (sizeArm s).andThen fun s' => sixelData s' c := by
    unfold parseChar; rw [hst]; simp only [hc1, hc2]; simp
  rw [hp] at h1
  obtain ⟨s0, h0, h0'⟩ := andThen_ok h1
  have f0 := sizeArm_frozen hd h0
  have f1 := sixelData_frozen f0 c hc3 h0'
  have ff := run_frozen (rest ++ ['#']) f1 (by
    intro ch hch; rcases List.mem_append.1 hch with h' | h'
    · exact hrest ch h'
    · simp at h'; subst h'; decide) h2
  have key : s.rows.length < H → W ≤ (finish sf).w := by
    intro hlt
    have hl := ff.len
    obtain ⟨r, hr⟩ : ∃ r, sf.rows[s.rows.length]? = some r := by
      have : s.rows.length < sf.rows.length := by omega
      exact ⟨_, List.getElem?_eq_getElem this⟩
    have h4 := ff.wide _ r (Nat.le_refl _) hr
    have := rowLen_ge_of_getElem? hr h4
    simp only [finish]; omega
  refine ⟨ff.len, key, ?_⟩
  intro he hH
  exact key (by rw [he]; exact hH)

/-- the same at the END of the payload: an attribute that is still open when the data ends is closed by the final
    `#` that `parse_from` feeds to the parser (`hdr` again any prefix) -/
theorem sixel_raster_consistent_at_end (hdr : List Char) (s : St) (W H : Nat) (img : Img)
    (hh : run {} hdr = .ok s) (hst : s.state = .readSize) (hd : declared s.nums = some (W, H))
    (h : parse hdr = .ok img) :
    img.h = H ∧ (s.rows.length < H → W ≤ img.w) := by
  have h' : parse (hdr ++ '#' :: []) = .ok img := by
    unfold parse mapOut at h ⊢
    obtain ⟨sf, hs, hf⟩ := andThen_ok h
    rw [run_append, hh] at hs
    simp only [Out.andThen] at hs
    rw [List.append_assoc, run_append, hh]
    simp only [Out.andThen]
    show (run s (['#'] ++ ['#'])).andThen _ = _
    rw [run_append, hs]
    simp only [Out.andThen]
    rw [flush_idem hst hs]
    exact hf
  have := sixel_raster_consistent hdr [] '#' s W H img hh hst hd (by decide) (by decide) (by decide) (by simp) h'
  exact ⟨this.1, this.2.1⟩

/-- **No panic** (every char list): the parser returns an image, a parse error or the out-of-range outcome
    `huge`; every index, slice, `%` and — since the three cursor `fix:` commits — every `i32` operation is safe.
    (Before those commits the statement was false: `sixel_cursor_overflow_is_error` shows the input.) -/
theorem sixel_total (payload : List Char) (p : Site) : parse payload ≠ .panic p := by
  intro h
  unfold parse mapOut at h
  have := run_good good_init (payload ++ ['#'])
  revert this h
  cases run {} (payload ++ ['#']) with
  | ok s => intro h; simp [Out.andThen] at h
  | err e => intro h; simp [Out.andThen] at h
  | panic q => intro _ g; exact g
  | huge => intro h; simp [Out.andThen] at h

/-- the same for `Sixel::parse_from` with any scales (what `execute_dcs` calls) -/
theorem decode_total (hs vs : Nat) (payload : List Char) (p : Site) : decode hs vs payload ≠ .panic p := by
  intro h
  have := decode_img hs vs payload
  rw [h] at this
  exact sixel_total payload p this.symm

/-- `!357913942-~` moves the cursor down 357 913 942 bands; `y * 6` then leaves `i32`: formerly an overflow panic
    in the decode thread (the image silently vanished), now `Err(InvalidPictureSize)` (replayed on the real code on
    every run) -/
theorem sixel_cursor_overflow_is_error : parse "!357913942-~".toList = .err .invalidPictureSize := by
  have h1 : run {} "!357913942".toList = .ok { state := .repeat_, nums := [357913942] } := by decide
  have e : "!357913942-~".toList ++ ['#'] = "!357913942".toList ++ ['-', '~', '#'] := by decide
  unfold parse mapOut
  rw [e, run_append, h1, ok_andThen, cursor_overflow_err 357913942 (by decide) (by decide) (by decide), err_andThen]

/-- the pinned tree (before `fix: sixel rows are padded …`) violates rectangularity -/
theorem sixel_rect_pinned_false :
    ¬ ∀ payload img, parsePinned payload = .ok img → img.dataLen = img.w * img.h * 4 := by
  intro h
  have := h "~-~~~".toList ⟨1, 12, 96⟩ (by decide)
  simp at this

/-! non-vacuity -/
example : parse "~-~~~".toList = .ok ⟨3, 12, 144⟩ := by decide
example : parsePinned "~-~~~".toList = .ok ⟨1, 12, 96⟩ := by decide
example : parse "A".toList = .ok ⟨1, 6, 24⟩ := by decide
example : parse "#1;2;100;0;0!3~-!2?".toList = .ok ⟨3, 12, 144⟩ := by decide
/-- a raster attribute declaring 3×2 before data that is 5 wide and 18 high: clipped to 2 rows, 5 wide -/
example : run {} "\"1;1;3;2".toList = .ok { state := .readSize, nums := [1, 1, 3, 2] } := by decide
example : parse "\"1;1;3;2~~~~~-~-~".toList = .ok ⟨5, 2, 40⟩ := by decide
/-- LATE raster attributes: two bands (12 rows) were decoded, then `"1;1;4;8` arrives: rows 8..11 are cut -/
example : run {} "~~~~-~~~~\"1;1;4;8".toList =
    .ok { state := .readSize, nums := [1, 1, 4, 8], x := 4, y := 1, rows := List.replicate 12 16 } := by decide
example : parse "~~~~-~~~~\"1;1;4;8".toList = .ok ⟨4, 8, 128⟩ := by decide
/-- the three-number form cuts as well; data after it is clipped at the declared height -/
example : parse "~-~\"1;1;7~~~".toList = .ok ⟨4, 7, 112⟩ := by decide
example : parse "~~~-~\"1;1;2;9~~~-~".toList = .ok ⟨4, 9, 144⟩ := by decide
/-- a late attribute that ADDS rows makes them as wide as declared: one band of one pixel, then 5×12 -/
example : parse "~\"1;1;5;12".toList = .ok ⟨5, 12, 240⟩ := by decide
/-- several attributes: the last one that declares a size counts -/
example : parse "\"1;1;9;30~-~\"1;1;2;3~-~".toList = .ok ⟨9, 3, 108⟩ := by decide
example : parse " ".toList = .err .invalidSixelChar := by decide
/-- numbers beyond `MAX_SIXEL_SIZE` are parse errors (formerly an allocation of that size: finding `alloc`, repaired) -/
example : parse "\"1;1;2147483599~".toList = .err .invalidPictureSize := by decide
example : parse "\"1;1;4096;2~".toList = .ok ⟨4096, 2, 32768⟩ := by decide

end Rect

section Queue
open IcyVerif.SixelQueue

/-- **Schedule independence.** For EVERY sequence of arrivals, thread completions, polls and clear-screens (any
    interleaving, any completion order, any number of polls anywhere; `arrivals` = the ids that arrived since the
    last clear-screen): the ids popped so far are a prefix
    `popped` of the arrival order, the rest is still queued in arrival order, and the layer is exactly what
    placing the successfully decoded images of `popped` one after the other in ARRIVAL order gives.
    In particular once the queue is empty the layer depends on the arrival order only. -/
theorem schedule_independent (cfg : Cfg) (evs : List Ev) :
    ∃ popped, arrivals evs = popped ++ ids (run cfg evs).queue ∧
      (run cfg evs).layer = placeAll cfg (okImgs cfg popped) ∧
      ((run cfg evs).queue = [] → (run cfg evs).layer = placeAll cfg (okImgs cfg (arrivals evs))) := by
  obtain ⟨popped, g⟩ := run_good cfg evs
  refine ⟨popped, g.split, g.layer, ?_⟩
  intro hq
  have := g.split
  rw [hq] at this
  simp [ids] at this
  rw [this]; exact g.layer

/-- two schedules with the same arrivals that both drained the queue show the same picture -/
theorem schedule_independent_pair (cfg : Cfg) (evs1 evs2 : List Ev) (ha : arrivals evs1 = arrivals evs2)
    (h1 : (run cfg evs1).queue = []) (h2 : (run cfg evs2).queue = []) :
    (run cfg evs1).layer = (run cfg evs2).layer := by
  obtain ⟨_, _, _, e1⟩ := schedule_independent cfg evs1
  obtain ⟨_, _, _, e2⟩ := schedule_independent cfg evs2
  rw [e1 h1, e2 h2, ha]

/-- once every decode in flight has finished, `queue.length` further polls deliver everything: the final
    picture is the arrival-order placement, whatever happened before -/
theorem all_delivered_after_polls (cfg : Cfg) (evs : List Ev) (hf : AllFinished (run cfg evs).queue) :
    let fin := run cfg (evs ++ List.replicate (run cfg evs).queue.length Ev.poll)
    fin.queue = [] ∧ fin.layer = placeAll cfg (okImgs cfg (arrivals evs)) := by
  intro fin
  have hq : fin.queue = [] := by
    show (run cfg (evs ++ _)).queue = []
    simp only [run, List.foldl_append]
    rw [← pollN_eq_run]
    exact pollN_drains cfg _ _ hf (Nat.le_refl _)
  obtain ⟨_, _, _, e⟩ := schedule_independent cfg (evs ++ List.replicate (run cfg evs).queue.length Ev.poll)
  refine ⟨hq, ?_⟩
  have ha : arrivals (evs ++ List.replicate (run cfg evs).queue.length Ev.poll) = arrivals evs := by
    rw [arrivals_append]
    generalize (run cfg evs).queue.length = n
    generalize arrivals evs = a
    induction n with
    | zero => rfl
    | succ n ih => simpa [List.replicate_succ, arrStep] using ih
  rw [← ha]; exact e hq

/-- **Polling never blocks**: in every reachable state `update_sixel_threads` returns without calling
    `join` on a thread that is still running. -/
theorem poll_nonblocking (cfg : Cfg) (evs : List Ev) : (poll cfg (run cfg evs)).2 ≠ .blocked := by
  obtain ⟨popped, g⟩ := run_good cfg evs
  exact (poll_good g).choose_spec.2

/-- poll never inspects anything at or behind the first unfinished handle: that handle and everything
    queued after it (finished or not) come back untouched, in order -/
theorem poll_stops_at_unfinished (cfg : Cfg) (pre post : List (Nat × Option Res)) (id : Nat) (layer : List Img)
    (log : List Nat) :
    ∃ k, (poll cfg ⟨pre ++ (id, none) :: post, layer, log⟩).1.queue = pre.drop k ++ (id, none) :: post := by
  unfold poll
  simp only
  generalize false = upd
  induction pre generalizing layer log upd with
  | nil => exact ⟨0, by simp [pollLoop_none]⟩
  | cons e pre ih =>
    obtain ⟨i, h⟩ := e
    cases h with
    | none => exact ⟨0, by simp [pollLoop_none]⟩
    | some r =>
      cases r with
      | panicked => obtain ⟨k, hk⟩ := ih layer log upd; exact ⟨k + 1, by simpa [pollLoop_panicked] using hk⟩
      | err => exact ⟨1, by simp [pollLoop_err]⟩
      | ok img => obtain ⟨k, hk⟩ := ih (place cfg layer img) (log ++ [i]) true; exact ⟨k + 1, by simpa [pollLoop_ok] using hk⟩

/-- **No loss, no duplication.** The sequence of images pushed onto the layer is always the successfully
    decoded part of a PREFIX of the arrival order (so images are applied in arrival order, none skipped);
    with distinct arrival ids no image is pushed twice. -/
theorem no_loss_no_dup (cfg : Cfg) (evs : List Ev) :
    ∃ popped, arrivals evs = popped ++ ids (run cfg evs).queue ∧ (run cfg evs).log = okIds cfg popped ∧
      ((arrivals evs).Nodup → (run cfg evs).log.Nodup) := by
  obtain ⟨popped, g⟩ := run_good cfg evs
  refine ⟨popped, g.split, g.log, ?_⟩
  intro hn
  rw [g.log]
  have h1 : popped.Sublist (arrivals evs) := by rw [g.split]; exact List.sublist_append_left _ _
  exact ((okIds_sublist cfg popped).trans h1).nodup hn

/-- **Delivery.** A poll that reports no error has delivered every image whose decode and all earlier
    decodes had finished: if the queue starts with a block `pre` of finished handles, every id in `pre`
    whose decode succeeded is in the log afterwards (exactly once, by `no_loss_no_dup`); afterwards the
    queue is empty or starts with an unfinished handle. -/
theorem no_loss (cfg : Cfg) (evs : List Ev) (pre post : List (Nat × Option Res)) (b : Bool)
    (hq : (run cfg evs).queue = pre ++ post) (hf : AllFinished pre)
    (hr : (poll cfg (run cfg evs)).2 = .ok b) :
    (∀ id img, id ∈ ids pre → cfg.res id = .ok img → id ∈ (run cfg (evs ++ [Ev.poll])).log) ∧
      ((run cfg (evs ++ [Ev.poll])).queue = [] ∨ ∃ id rest, (run cfg (evs ++ [Ev.poll])).queue = (id, none) :: rest) := by
  have hrun : run cfg (evs ++ [Ev.poll]) = (poll cfg (run cfg evs)).1 := by simp [run, List.foldl_append, step]
  rw [hrun]
  obtain ⟨popped, g⟩ := run_good cfg evs
  obtain ⟨p, h1, h2, h3, h4, h5⟩ := pollLoop_good cfg (run cfg evs).queue (run cfg evs).layer (run cfg evs).log false popped
    g.layer g.log g.entries
  unfold poll at hr ⊢
  constructor
  · intro id img hid hres
    rw [h3]
    rw [hq] at hr h1
    obtain ⟨p2, e1, p', e2⟩ := pollLoop_delivers cfg pre post _ _ false b hf hr
    have e0 : ids (pre ++ post) = ids pre ++ ids post := by simp [ids]
    rw [hq] at *
    rw [e0, e1] at h1
    have : p2 = p := List.append_cancel_right h1
    subst this
    rw [e2]
    exact mem_okIds (by simp [hid]) hres
  · exact pollLoop_ok_head cfg _ _ _ false b hr

/-- **An error return loses nothing.** In every reachable state whose queue starts with a block `pre` of finished
    handles none of which failed, followed by a handle whose decode FAILED (`result?`): the poll reports the error,
    takes exactly `pre` and the failing handle from the queue (`post` stays, in order, for the next poll), and every
    image of `pre` that decoded fine has been pushed; the layer is the arrival-order placement of ALL handles taken so
    far — an image that left the queue is on the layer (or covered by a later one), however many finished decodes met
    this poll and wherever the failing one stood among them. -/
theorem no_loss_at_error (cfg : Cfg) (evs : List Ev) (pre post : List (Nat × Option Res)) (bad : Nat)
    (hq : (run cfg evs).queue = pre ++ (bad, some .err) :: post) (hf : AllFinished pre)
    (hne : ∀ e ∈ pre, e.2 ≠ some .err) :
    (poll cfg (run cfg evs)).2 = .err ∧
    (run cfg (evs ++ [Ev.poll])).queue = post ∧
    (∀ id img, id ∈ ids pre → cfg.res id = .ok img → id ∈ (run cfg (evs ++ [Ev.poll])).log) ∧
    ∃ popped, arrivals evs = popped ++ ids post ∧ (∀ id ∈ ids pre, id ∈ popped) ∧
      (run cfg (evs ++ [Ev.poll])).log = okIds cfg popped ∧
      (run cfg (evs ++ [Ev.poll])).layer = placeAll cfg (okImgs cfg popped) := by
  have hrun : run cfg (evs ++ [Ev.poll]) = (poll cfg (run cfg evs)).1 := by simp [run, List.foldl_append, step]
  rw [hrun]
  obtain ⟨popped, g⟩ := run_good cfg evs
  obtain ⟨p, h1, h2, h3, _, _⟩ := pollLoop_good cfg (run cfg evs).queue (run cfg evs).layer (run cfg evs).log false popped
    g.layer g.log g.entries
  have hs := pollLoop_stops_at_err cfg pre post bad (run cfg evs).layer (run cfg evs).log false hf hne
  unfold poll
  rw [hq] at h1 h2 h3 ⊢
  rw [hs.2] at h1
  have hp : p = ids pre ++ [bad] := by
    have e0 : ids (pre ++ (bad, some Res.err) :: post) = (ids pre ++ [bad]) ++ ids post := by simp [ids]
    rw [e0] at h1
    exact (List.append_cancel_right h1).symm
  have hmem : ∀ id ∈ ids pre, id ∈ popped ++ p := by
    intro id hid; rw [hp]; simp [hid]
  refine ⟨hs.1, hs.2, ?_, popped ++ p, ?_, hmem, h3, h2⟩
  · intro id img hid hres
    rw [h3]
    exact mem_okIds (hmem id hid) hres
  · have := g.split
    rw [hq] at this
    rw [this, hp]; simp [ids]

/-- **Clear-screen**: whatever happened before it — images shown, decodes queued or still running — the state
    after a clear-screen is the initial one, so nothing that arrived before it can ever appear afterwards,
    whenever its decode finishes -/
theorem clear_forgets (cfg : Cfg) (pre post : List Ev) : run cfg (pre ++ Ev.clear :: post) = run cfg post := by
  simp [run, List.foldl_append, step]

/-! non-vacuity: three images, the third covers the first; decodes finish in the order 2, 0, 1 with a poll
    after each completion -/
def exCfg : Cfg := { fw := 8, fh := 16, res := fun
  | 0 => .ok ⟨0, 0, 0, 4, 6⟩
  | 1 => .ok ⟨1, 5, 0, 4, 6⟩
  | 2 => .ok ⟨2, 0, 0, 8, 12⟩
  | _ => .err }
def exSched : List Ev := [.arrive 0, .arrive 1, .arrive 2, .finish 2, .poll, .finish 0, .poll, .finish 1, .poll]
example : ((run exCfg exSched).layer.map (·.id)) = [1, 2] := by decide
example : (run exCfg exSched).log = [0, 1, 2] := by decide
example : (run exCfg exSched).queue = [] := by decide
example : (run exCfg [.arrive 0, .arrive 1, .finish 1, .poll]).layer = [] := by decide
/-- two good images and a failing decode (id 7) between / behind them, all finished when ONE poll comes: the poll
    returns the error, the images in front of the failing decode are shown, the one behind it is still queued -/
example : (poll exCfg (run exCfg [.arrive 0, .arrive 1, .arrive 7, .arrive 2, .finish 2, .finish 7, .finish 1, .finish 0])).2 = .err := by decide
example : (run exCfg [.arrive 0, .arrive 1, .arrive 7, .arrive 2, .finish 2, .finish 7, .finish 1, .finish 0, .poll]).log = [0, 1] := by decide
example : (run exCfg [.arrive 0, .arrive 1, .arrive 7, .arrive 2, .finish 2, .finish 7, .finish 1, .finish 0, .poll]).queue =
    [(2, some (.ok ⟨2, 0, 0, 8, 12⟩))] := by decide
example : (run exCfg [.arrive 0, .arrive 1, .arrive 7, .arrive 2, .finish 2, .finish 7, .finish 1, .finish 0, .poll, .poll]).log = [0, 1, 2] := by decide
example : AllFinished (run exCfg [.arrive 0, .arrive 1, .finish 1, .finish 0]).queue := by unfold AllFinished; decide
example : (run exCfg [.arrive 0, .arrive 1, .finish 0, .poll, .clear, .finish 1, .poll, .arrive 2, .finish 2, .poll]).layer.map (·.id) = [2] := by
  decide

end Queue
section Load
open IcyVerif.SixelQueue IcyVerif.SixelLoad

/-- the loader's sixel code is the code the model was written against: the translator copies the text of the
    join loop and of the sixel-to-layer loop of `parse_with_parser` and the `vertical_scale` table of
    `execute_dcs`; any edit there breaks this obligation until the model has been revisited -/
theorem load_source_unchanged :
    Gen.Sixel.src_sixel_to_layers = [
      "while !result.sixel_threads.is_empty() {",
      "thread::sleep(Duration::from_millis(50));",
      "result.update_sixel_threads()?;",
      "}",
      "let mut num = 0;",
      "while !result.layers[0].sixels.is_empty() {",
      "if let Some(mut sixel) = result.layers[0].sixels.pop() {",
      "let size = sixel.get_size();",
      "let font_size = result.get_font_dimensions();",
      "let size = Size::new(",
      "(size.width + font_size.width - 1) / font_size.width,",
      "(size.height + font_size.height - 1) / font_size.height,",
      ");",
      "num += 1;",
      "let mut layer = Layer::new(fl!(crate::LANGUAGE_LOADER, \"layer-new-sixel_layer_name\", number = num), size);",
      "layer.role = Role::Image;",
      "layer.set_offset(sixel.position);",
      "sixel.position = Position::default();",
      "layer.sixels.push(sixel);",
      "result.layers.push(layer);",
      "}",
      "}"] ∧
    Gen.Sixel.vscaleTable.all (fun e => e.1.all fun n => vscaleOf [n] = e.2) = true ∧
    vscaleOf [] = Gen.Sixel.vscaleNone ∧ vscaleOf [7] = Gen.Sixel.vscaleOther ∧ vscaleOf [1000] = Gen.Sixel.vscaleOther := by
  decide

/-- **No loss, no duplicate on the file-loading path** (every list of delivered sixels): the conversion loop
    creates exactly one image layer per sixel on `layers[0]`, in REVERSE delivery order (newest first — `pop`
    takes the last), numbered 1, 2, …; the k-th layer carries the (k+1)-th newest sixel with its pixel size, sits
    at that sixel's cell position and is `cells` wide and high — zero-size images included. -/
theorem load_one_layer_per_image (fw fh : Int) (sixels : List Img) :
    (toLayers fw fh sixels).length = sixels.length ∧
    (toLayers fw fh sixels).map (·.id) = (sixels.map (·.id)).reverse ∧
    ((toLayers fw fh sixels).map (·.id)).Perm (sixels.map (·.id)) ∧
    (toLayers fw fh sixels).map (·.num) = List.range' 1 sixels.length ∧
    ∀ k, (toLayers fw fh sixels)[k]? = (sixels.reverse[k]?).map (fun i => mkLayer fw fh (k + 1) i) := by
  refine ⟨toLayers_length fw fh sixels, toLayers_ids fw fh sixels, ?_, toLayers_nums fw fh sixels,
    toLayers_getElem? fw fh sixels⟩
  rw [toLayers_ids]
  exact List.reverse_perm _

/-- **Cell size = ceiling of pixel size / font size**, for every non-negative pixel size and positive font size;
    an image without pixels gets a layer of 0 cells (and still gets its layer, `load_one_layer_per_image`). -/
theorem load_cell_size (fw fh : Int) (num : Nat) (i : Img) (hfw : 0 < fw) (hfh : 0 < fh) (hw : 0 ≤ i.w) (hh : 0 ≤ i.h) :
    let l := mkLayer fw fh num i
    (0 ≤ l.cw ∧ (l.cw - 1) * fw < i.w ∧ i.w ≤ l.cw * fw) ∧ (0 ≤ l.ch ∧ (l.ch - 1) * fh < i.h ∧ i.h ≤ l.ch * fh) ∧
      (i.w = 0 → l.cw = 0) ∧ (i.h = 0 → l.ch = 0) ∧ l.offX = i.px ∧ l.offY = i.py ∧ l.pw = i.w ∧ l.ph = i.h := by
  intro l
  refine ⟨cells_ceil i.w fw hfw hw, cells_ceil i.h fh hfh hh, ?_, ?_, rfl, rfl, rfl, rfl⟩
  · intro h; show cells i.w fw = 0; rw [h]; exact cells_zero fw hfw
  · intro h; show cells i.h fh = 0; rw [h]; exact cells_zero fh hfh

/-- what the load must produce, computed without any queue: an error if a decode returned one, otherwise the
    image layers of the arrival-order placement -/
def loadRef (cfg : Cfg) (arr : List Nat) : LoadOut :=
  if arr.any (fun id => cfg.res id == .err) then .err
  else if (cfg.fw = 0 ∨ cfg.fh = 0) ∧ placeAll cfg (okImgs cfg arr) ≠ [] then .divZero
  else .ok (toLayers cfg.fw cfg.fh (placeAll cfg (okImgs cfg arr)))

/-- **Schedule independence of a load.** `arr` arrived in this order; the decode threads complete during the
    sleeps of the join loop in ANY order and grouping `sched` (every decode completes at some point).  The load
    ends (never `waiting`, never `blocked`) with the result `loadRef` that depends on the arrival order only. -/
theorem load_schedule_independent (cfg : Cfg) (arr : List Nat) (sched : List (List Nat))
    (hc : ∀ id ∈ arr, id ∈ sched.flatten) : loadSixels cfg arr sched = loadRef cfg arr := by
  have h := joinLoop_ok cfg arr sched [] (arrived cfg arr) (arrived_inv cfg arr sched hc)
  unfold loadSixels loadFrom loadRef
  revert h
  generalize joinLoop cfg sched (arrived cfg arr) = r
  obtain ⟨s, ret⟩ := r
  cases ret with
  | done =>
    intro ⟨hq, popped, g, hne⟩
    have hsplit := g.split
    rw [hq] at hsplit
    simp only [ids, List.map_nil, List.append_nil] at hsplit
    subst hsplit
    have hany : (arr.any fun id => cfg.res id == .err) = false := by
      rw [List.any_eq_false]
      intro id hid
      have := hne id hid
      simpa using this
    simp only [hany, Bool.false_eq_true, if_false, g.layer]
  | err =>
    intro ⟨id, hid, he⟩
    have hany : (arr.any fun id => cfg.res id == .err) = true := by
      rw [List.any_eq_true]
      exact ⟨id, hid, by simp [he]⟩
    simp only [hany, if_true]
  | blocked => intro h; exact absurd h id
  | waiting => intro h; exact absurd h id

/-- the join loop never joins a running thread, even under a schedule in which some decode never completes -/
theorem load_never_blocks (cfg : Cfg) (arr : List Nat) (sched : List (List Nat)) :
    loadSixels cfg arr sched ≠ .blocked := by
  have h := joinLoop_not_blocked cfg arr sched [] (arrived cfg arr) (arrived_inv cfg arr [arr] (by simp)).good
  unfold loadSixels loadFrom
  revert h
  generalize joinLoop cfg sched (arrived cfg arr) = r
  obtain ⟨s, ret⟩ := r
  cases ret <;> simp
  split <;> simp

/-- **End to end**: if no decode returns an error and the font has a size, the load creates one image layer per
    image of the arrival-order placement `placeAll` — the images that arrived minus those a later image covers —
    newest first; no other layer, none twice. -/
theorem load_no_loss (cfg : Cfg) (arr : List Nat) (sched : List (List Nat)) (hc : ∀ id ∈ arr, id ∈ sched.flatten)
    (hne : ∀ id ∈ arr, cfg.res id ≠ .err) (hfw : 0 < cfg.fw) (hfh : 0 < cfg.fh) :
    ∃ layers, loadSixels cfg arr sched = .ok layers ∧
      layers.length = (placeAll cfg (okImgs cfg arr)).length ∧
      layers.map (·.id) = ((placeAll cfg (okImgs cfg arr)).map (·.id)).reverse := by
  refine ⟨toLayers cfg.fw cfg.fh (placeAll cfg (okImgs cfg arr)), ?_, toLayers_length _ _ _, toLayers_ids _ _ _⟩
  rw [load_schedule_independent cfg arr sched hc]
  unfold loadRef
  have hany : (arr.any fun id => cfg.res id == .err) = false := by
    rw [List.any_eq_false]; intro id hid; simpa using hne id hid
  have hz : ¬ ((cfg.fw = 0 ∨ cfg.fh = 0) ∧ placeAll cfg (okImgs cfg arr) ≠ []) := by
    intro ⟨h, _⟩; omega
  simp only [hany, Bool.false_eq_true, if_false, hz]

/-- **Clear-screen in a file**: only arrivals and clear-screens happen while the text is parsed, and the load then
    behaves as if just the sequences after the last clear-screen had arrived — images that arrived before a
    clear-screen never appear, the others are subject to `load_schedule_independent` / `load_no_loss`. -/
theorem load_text_clear (cfg : Cfg) (text : List Ev) (sched : List (List Nat)) (h : ∀ e ∈ text, TextEv e) :
    loadText cfg text sched = loadSixels cfg (arrivals text) sched ∧
    ∀ pre post, text = pre ++ Ev.clear :: post → arrivals text = arrivals post := by
  refine ⟨by unfold loadText loadSixels; rw [run_text cfg text h], ?_⟩
  intro pre post hp
  subst hp
  simp [arrivals, List.foldl_append, arrStep]

/-- **The covering rule loses nothing but covered images**: the picture is a sub-sequence of the decoded images
    in arrival order (no reordering, no duplicate); an image that is not shown is covered by an image that
    arrived LATER; the newest image is always shown, on top. -/
theorem placement_loses_only_covered (cfg : Cfg) (imgs : List Img) :
    (placeAll cfg imgs).Sublist imgs ∧
    (∀ pre i post, imgs = pre ++ i :: post → i ∈ placeAll cfg imgs ∨ ∃ j ∈ post, covers cfg j i = true) ∧
    (∀ pre i, imgs = pre ++ [i] → (placeAll cfg imgs).getLast? = some i) := by
  refine ⟨placeAll_sublist cfg imgs, ?_, ?_⟩
  · intro pre i post h; subst h; exact placeAll_lost_only_if_covered cfg pre post i
  · intro pre i h; subst h; exact placeAll_newest cfg pre i

/-- **The DCS hand-off** (`execute_dcs`): a DCS string made of numeric parameters, `q` and a payload starts a decode
    of exactly that payload (whatever the parameters), with `vertical_scale` ∈ {1,2,3,5} chosen by the first
    parameter; and what the decode returns is the picture of `parse payload` — its sizes, its byte count, its
    error — independent of the scales: so `sixel_rect`, `sixel_raster_consistent` and `sixel_total_partial`
    hold for every image the terminal or a file can deliver. -/
theorem dcs_handoff (params payload : List Char) (hp : ∀ c ∈ params, IsParam c) :
    ∃ vs bg, classify (params ++ 'q' :: payload) = .sixel vs bg payload ∧ (vs = 1 ∨ vs = 2 ∨ vs = 3 ∨ vs = 5) ∧
      Sixel.mapOut (·.img) (Sixel.decode 1 vs payload) = Sixel.parse payload ∧
      ∀ d, Sixel.decode 1 vs payload = .ok d → d.img.dataLen = d.img.w * d.img.h * 4 := by
  refine ⟨_, _, classify_sixel params payload hp, vscaleOf_range _, Sixel.decode_img 1 _ payload, ?_⟩
  intro d hd
  have h := Sixel.decode_img 1 (vscaleOf (dcsNumbers [] params).1) payload
  rw [hd] at h
  exact (sixel_rect payload d.img h.symm).1

/-! non-vacuity -/
/-- five sequences as in a file: painted, all-background, empty, raster 0×0, a big one covering the first -/
def exLoadCfg : Cfg := { fw := 8, fh := 16, res := fun
  | 0 => .ok ⟨0, 0, 0, 4, 6⟩
  | 1 => .ok ⟨1, 2, 1, 0, 12⟩
  | 2 => .ok ⟨2, 4, 2, 0, 0⟩
  | 3 => .panicked
  | 4 => .ok ⟨4, 0, 0, 20, 12⟩
  | _ => .err }
example : loadSixels exLoadCfg [0, 1, 2, 3, 4] [[4, 2], [], [0, 3, 1]] =
    .ok [⟨1, 0, 0, 3, 1, 4, 20, 12⟩, ⟨2, 4, 2, 0, 0, 2, 0, 0⟩, ⟨3, 2, 1, 0, 1, 1, 0, 12⟩] := by decide
example : loadSixels exLoadCfg [0, 1, 5, 2] [[0, 1, 5, 2]] = .err := by decide
example : loadSixels exLoadCfg [0, 1] [[1]] = .waiting := by decide
example : loadText exLoadCfg [.arrive 0, .arrive 4, .clear, .arrive 1, .arrive 2] [[2, 1]] =
    .ok [⟨1, 4, 2, 0, 0, 2, 0, 0⟩, ⟨2, 2, 1, 0, 1, 1, 0, 12⟩] := by decide
example : classify "0;1q#1~".toList = .sixel 2 true "#1~".toList := by decide
example : classify "2q~".toList = .sixel 5 false "~".toList := by decide
example : classify ";3q~".toList = .sixel 3 false "~".toList := by decide
example : classify "CTerm:Font:0:AAAA".toList = .font := by decide
example : classify "1;0;0!z41".toList = .macroDef [1, 0, 0] := by decide
example : classify "xq~".toList = .unsupported := by decide
example : Sixel.decode 1 5 "\"7;9~".toList = .ok ⟨⟨1, 6, 24⟩, 9, 7⟩ := by decide
example : cells 0 8 = 0 ∧ cells 1 8 = 1 ∧ cells 8 8 = 1 ∧ cells 9 8 = 2 := by decide

end Load

end IcyVerif.C14
