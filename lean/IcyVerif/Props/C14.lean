import IcyVerif.Lemmas.SixelCap
import IcyVerif.Lemmas.SixelRaster
import IcyVerif.Lemmas.SixelQueue
/-! # C14 — sixel images are complete rectangles and appear in arrival order
Only property theorems and non-vacuity examples live here.

(a) `Sixel::parse_from` (model `IcyVerif.Sixel.parse`, the tree AFTER the two `fix:` commits):
    rectangularity, consistency with a raster declaration, panic freedom.
(b) `Buffer::update_sixel_threads` (model `IcyVerif.SixelQueue.poll`): schedule independence,
    non-blocking, no loss / no duplication.

Partial (named here and in the evidence): the OS scheduler and the memory ordering of
`JoinHandle::is_finished` are not modelled — completions enter the model as `finish` events;
payload numbers above `hugeLimit` end the model with `Out.huge` (finding `alloc`);
the sixel cursor's `i32` arithmetic can still panic after ≥ 357 913 941 cursor moves
(`sixel_total_partial`, `sixel_total_false`, finding `translate_sixel_to_pixel:overflow`). -/
namespace IcyVerif.C14
open IcyVerif

section Rect
open IcyVerif.Sixel

/-- the literals of the model (band height 6, 4 bytes per pixel, first data char `?`, ignore threshold 0x7F,
    control characters, 16-colour default palette, `parse_next_number`) are the ones in the working tree -/
theorem constants_match_source :
    Gen.Sixel.defaultPalLen = ({} : St).palLen ∧ Gen.Sixel.firstData = 63 ∧ Gen.Sixel.bandRows = 6 ∧
    Gen.Sixel.pixelBytes = 4 ∧ Gen.Sixel.ignoreAbove = 127 ∧
    Gen.Sixel.controlChars = ['#', '!', '-', '$', '"'].map Char.toNat ∧
    Gen.Sixel.src_parse_next_number = "x.saturating_mul(10).saturating_add(ch as i32).saturating_sub(b'0' as i32)" :=
  gen_constants_tie

/-- **Rectangularity.** Every image the parser returns holds exactly `w * h * 4` bytes; the common row
    length is the widest row (rows are padded, never cut) and all sizes are in `i32` range. -/
theorem sixel_rect (payload : List Char) (img : Img) (h : parse payload = .ok img) :
    img.dataLen = img.w * img.h * 4 ∧ img.w * 4 ≤ hugeLimit ∧ img.h ≤ hugeLimit := by
  unfold parse mapOut at h
  obtain ⟨s, hs, hf⟩ := andThen_ok h
  have g : Good s := by have := run_good good_init (payload ++ ['#']); rw [hs] at this; exact this
  injection hf with hf; subst hf
  have hr := rowLen_ok g.rows
  simp only [finish, sum_const, RowOK] at hr ⊢
  refine ⟨?_, by omega, g.height⟩
  have : rowLen s.rows / 4 * 4 = rowLen s.rows := by omega
  rw [Nat.mul_comm (rowLen s.rows / 4), Nat.mul_assoc, this]

/-- padding never cuts a row: every row of the final state fits into the returned width -/
theorem sixel_pad_only (payload : List Char) (s : St) (h : parseSt payload = .ok s) :
    ∀ r ∈ s.rows, r ≤ (finish s).w * 4 := by
  intro r hr
  have g : Good s := by have := run_good good_init (payload ++ ['#']); unfold parseSt at h; rw [h] at this; exact this
  have h1 := (foldl_max_ge s.rows 0).2 r hr
  have h2 := rowLen_ok g.rows
  simp only [finish, rowLen, RowOK] at *
  omega

/-- **Consistency with a declared raster size.** If the prefix `hdr` leaves the parser inside a raster
    attribute whose numbers declare `W × H` (`"Pan;Pad;Ph;Pv` or `"Pan;Pad;Pv`), the next character `c`
    ends the attribute, and no further `"` follows, then the image is exactly `H` pixels high (taller data
    is clipped, shorter data is padded), and — if the declaration came before any picture data and
    `H > 0` — at least `W` wide (wider data extends it). -/
theorem sixel_raster_consistent (hdr rest : List Char) (c : Char) (s : St) (W H : Nat) (img : Img)
    (hh : run {} hdr = .ok s) (hst : s.state = .readSize) (hd : declared s.nums = some (W, H))
    (hc1 : c.isDigit = false) (hc2 : c ≠ ';') (hc3 : c ≠ '"') (hrest : ∀ ch ∈ rest, ch ≠ '"')
    (h : parse (hdr ++ c :: rest) = .ok img) :
    img.h = H ∧ (s.rows = [] → 0 < H → W ≤ img.w) := by
  unfold parse mapOut at h
  obtain ⟨sf, hs, hf⟩ := andThen_ok h
  injection hf with hf; subst hf
  rw [List.append_assoc, run_append, hh] at hs
  simp only [Out.andThen, List.cons_append, run_cons] at hs
  obtain ⟨s1, h1, h2⟩ := andThen_ok hs
  -- first step: the raster arm, then `parse_sixel_data(c)`
  have hp : parseChar s c = (sizeArm s).andThen fun s' => sixelData s' c := by
    unfold parseChar; rw [hst]; simp only [hc1, hc2]; simp
  rw [hp] at h1
  obtain ⟨s0, h0, h0'⟩ := andThen_ok h1
  have f0 := sizeArm_frozen hd h0
  have f1 := sixelData_frozen f0 c hc3 h0'
  have ff := run_frozen (rest ++ ['#']) f1 (by
    intro ch hch; rcases List.mem_append.1 hch with h' | h'
    · exact hrest ch h'
    · simp at h'; subst h'; decide) h2
  refine ⟨ff.len, ?_⟩
  intro he hH
  have hne : sf.rows ≠ [] := by intro h'; have := ff.len; rw [h'] at this; simp at this; omega
  have := rowLen_ge hne ff.wide
  simp only [he, if_true] at this
  simp only [finish]; omega

/-- **No panic except cursor overflow** (every char list): the only panic sites the parser can reach are
    the three `i32` operations on the sixel cursor; every index, slice and `%` is safe. -/
theorem sixel_total_partial (payload : List Char) (p : Site) (h : parse payload = .panic p) : isCursor p := by
  unfold parse mapOut at h
  have := run_good good_init (payload ++ ['#'])
  revert this h
  cases run {} (payload ++ ['#']) with
  | ok s => intro h; simp [Out.andThen] at h
  | err e => intro h; simp [Out.andThen] at h
  | panic q => intro h g; simp only [Out.andThen] at h; injection h with h; subst h; exact g
  | huge => intro h; simp [Out.andThen] at h

/-- **No panic** whenever the numbers in the payload are bounded: if all numeric parameters stay ≤ R during
    the run and `(length + 1) * max R 1` cursor moves cannot reach `i32::MAX / 6`, the parser returns an image,
    a parse error or the out-of-range outcome — for the property's quantifier (`!` repeats ≤ 500) that is every
    payload shorter than 715 000 characters.
    The FULL statement `∀ payload p, parse payload ≠ .panic p` is FALSE on the tree, see `sixel_total_false`
    (finding `translate_sixel_to_pixel:overflow`); hence `_partial`. -/
theorem sixel_total_bounded_partial (payload : List Char) (R : Nat) (hm : numsLe R {} (payload ++ ['#']) = true)
    (hb : ((payload.length + 1) * max R 1) * 6 ≤ i32Max) (p : Site) : parse payload ≠ .panic p := by
  intro h
  unfold parse mapOut at h
  have := run_cap R (payload ++ ['#']) good_init hm (by simp at hb ⊢; omega) (by simp at hb ⊢; omega)
  revert this h
  cases run {} (payload ++ ['#']) with
  | ok s => intro h; simp [Out.andThen] at h
  | err e => intro h; simp [Out.andThen] at h
  | panic q => intro _ g; exact g
  | huge => intro h; simp [Out.andThen] at h

/-- the full totality statement is false on the tree: `!357913942-~` moves the cursor down 357 913 942 bands,
    then `y * 6` overflows `i32` in `translate_sixel_to_pixel` (replayed on the real code on every run) -/
theorem sixel_total_false : ¬ ∀ payload p, parse payload ≠ .panic p := by
  intro h
  apply h "!357913942-~".toList .cursorY6
  have h1 : run {} "!357913942".toList = .ok { state := .repeat_, nums := [357913942] } := by decide
  have e : "!357913942-~".toList ++ ['#'] = "!357913942".toList ++ ['-', '~', '#'] := by decide
  unfold parse mapOut
  rw [e, run_append, h1, ok_andThen, cursor_panic 357913942 (by decide) (by decide) (by decide), panic_andThen]

/-- the pinned tree (before `fix: sixel rows are padded …`) violates rectangularity -/
theorem sixel_rect_pinned_false :
    ¬ ∀ payload img, parsePinned payload = .ok img → img.dataLen = img.w * img.h * 4 := by
  intro h
  have := h "~-~~~".toList ⟨1, 12, 96⟩ (by decide)
  simp at this

/-! non-vacuity -/
example : parse "~-~~~".toList = .ok ⟨3, 12, 144⟩ := by decide
example : parsePinned "~-~~~".toList = .ok ⟨1, 12, 96⟩ := by decide
example : parse "A".toList = .ok ⟨1, 6, 24⟩ := by decide
example : parse "#1;2;100;0;0!3~-!2?".toList = .ok ⟨3, 12, 144⟩ := by decide
/-- a raster attribute declaring 3×2 before data that is 5 wide and 18 high: clipped to 2 rows, 5 wide -/
example : run {} "\"1;1;3;2".toList = .ok { state := .readSize, nums := [1, 1, 3, 2] } := by decide
example : parse "\"1;1;3;2~~~~~-~-~".toList = .ok ⟨5, 2, 40⟩ := by decide
example : numsLe 500 {} ("#1;2;100;0;0!3~-!2?".toList ++ ['#']) = true := by decide
example : parse " ".toList = .err .invalidSixelChar := by decide
/-- numbers beyond the modelled range -/
example : parse "\"1;1;2147483599~".toList = .huge := by decide

end Rect

section Queue
open IcyVerif.SixelQueue

/-- **Schedule independence.** For EVERY sequence of arrivals, thread completions and polls (any
    interleaving, any completion order, any number of polls anywhere): the ids popped so far are a prefix
    `popped` of the arrival order, the rest is still queued in arrival order, and the layer is exactly what
    placing the successfully decoded images of `popped` one after the other in ARRIVAL order gives.
    In particular once the queue is empty the layer depends on the arrival order only. -/
theorem schedule_independent (cfg : Cfg) (evs : List Ev) :
    ∃ popped, arrivals evs = popped ++ ids (run cfg evs).queue ∧
      (run cfg evs).layer = placeAll cfg (okImgs cfg popped) ∧
      ((run cfg evs).queue = [] → (run cfg evs).layer = placeAll cfg (okImgs cfg (arrivals evs))) := by
  obtain ⟨popped, g⟩ := run_good cfg evs
  refine ⟨popped, g.split, g.layer, ?_⟩
  intro hq
  have := g.split
  rw [hq] at this
  simp [ids] at this
  rw [this]; exact g.layer

/-- two schedules with the same arrivals that both drained the queue show the same picture -/
theorem schedule_independent_pair (cfg : Cfg) (evs1 evs2 : List Ev) (ha : arrivals evs1 = arrivals evs2)
    (h1 : (run cfg evs1).queue = []) (h2 : (run cfg evs2).queue = []) :
    (run cfg evs1).layer = (run cfg evs2).layer := by
  obtain ⟨_, _, _, e1⟩ := schedule_independent cfg evs1
  obtain ⟨_, _, _, e2⟩ := schedule_independent cfg evs2
  rw [e1 h1, e2 h2, ha]

/-- once every decode in flight has finished, `queue.length` further polls deliver everything: the final
    picture is the arrival-order placement, whatever happened before -/
theorem all_delivered_after_polls (cfg : Cfg) (evs : List Ev) (hf : AllFinished (run cfg evs).queue) :
    let fin := run cfg (evs ++ List.replicate (run cfg evs).queue.length Ev.poll)
    fin.queue = [] ∧ fin.layer = placeAll cfg (okImgs cfg (arrivals evs)) := by
  intro fin
  have hq : fin.queue = [] := by
    show (run cfg (evs ++ _)).queue = []
    simp only [run, List.foldl_append]
    rw [← pollN_eq_run]
    exact pollN_drains cfg _ _ hf (Nat.le_refl _)
  obtain ⟨_, _, _, e⟩ := schedule_independent cfg (evs ++ List.replicate (run cfg evs).queue.length Ev.poll)
  refine ⟨hq, ?_⟩
  have ha : arrivals (evs ++ List.replicate (run cfg evs).queue.length Ev.poll) = arrivals evs := by
    rw [arrivals_append]
    generalize (run cfg evs).queue.length = n
    induction n with
    | zero => simp [arrivals]
    | succ n ih => simpa [List.replicate_succ, arrivals] using ih
  rw [← ha]; exact e hq

/-- **Polling never blocks**: in every reachable state `update_sixel_threads` returns without calling
    `join` on a thread that is still running. -/
theorem poll_nonblocking (cfg : Cfg) (evs : List Ev) : (poll cfg (run cfg evs)).2 ≠ .blocked := by
  obtain ⟨popped, g⟩ := run_good cfg evs
  exact (poll_good g).choose_spec.2

/-- poll never inspects anything at or behind the first unfinished handle: that handle and everything
    queued after it (finished or not) come back untouched, in order -/
theorem poll_stops_at_unfinished (cfg : Cfg) (pre post : List (Nat × Option Res)) (id : Nat) (layer : List Img)
    (log : List Nat) :
    ∃ k, (poll cfg ⟨pre ++ (id, none) :: post, layer, log⟩).1.queue = pre.drop k ++ (id, none) :: post := by
  unfold poll
  simp only
  generalize false = upd
  induction pre generalizing layer log upd with
  | nil => exact ⟨0, by simp [pollLoop_none]⟩
  | cons e pre ih =>
    obtain ⟨i, h⟩ := e
    cases h with
    | none => exact ⟨0, by simp [pollLoop_none]⟩
    | some r =>
      cases r with
      | panicked => obtain ⟨k, hk⟩ := ih layer log upd; exact ⟨k + 1, by simpa [pollLoop_panicked] using hk⟩
      | err => exact ⟨1, by simp [pollLoop_err]⟩
      | ok img => obtain ⟨k, hk⟩ := ih (place cfg layer img) (log ++ [i]) true; exact ⟨k + 1, by simpa [pollLoop_ok] using hk⟩

/-- **No loss, no duplication.** The sequence of images pushed onto the layer is always the successfully
    decoded part of a PREFIX of the arrival order (so images are applied in arrival order, none skipped);
    with distinct arrival ids no image is pushed twice. -/
theorem no_loss_no_dup (cfg : Cfg) (evs : List Ev) :
    ∃ popped, arrivals evs = popped ++ ids (run cfg evs).queue ∧ (run cfg evs).log = okIds cfg popped ∧
      ((arrivals evs).Nodup → (run cfg evs).log.Nodup) := by
  obtain ⟨popped, g⟩ := run_good cfg evs
  refine ⟨popped, g.split, g.log, ?_⟩
  intro hn
  rw [g.log]
  have h1 : popped.Sublist (arrivals evs) := by rw [g.split]; exact List.sublist_append_left _ _
  exact ((okIds_sublist cfg popped).trans h1).nodup hn

/-- **Delivery.** A poll that reports no error has delivered every image whose decode and all earlier
    decodes had finished: if the queue starts with a block `pre` of finished handles, every id in `pre`
    whose decode succeeded is in the log afterwards (exactly once, by `no_loss_no_dup`); afterwards the
    queue is empty or starts with an unfinished handle. -/
theorem no_loss (cfg : Cfg) (evs : List Ev) (pre post : List (Nat × Option Res)) (b : Bool)
    (hq : (run cfg evs).queue = pre ++ post) (hf : AllFinished pre)
    (hr : (poll cfg (run cfg evs)).2 = .ok b) :
    (∀ id img, id ∈ ids pre → cfg.res id = .ok img → id ∈ (run cfg (evs ++ [Ev.poll])).log) ∧
      ((run cfg (evs ++ [Ev.poll])).queue = [] ∨ ∃ id rest, (run cfg (evs ++ [Ev.poll])).queue = (id, none) :: rest) := by
  have hrun : run cfg (evs ++ [Ev.poll]) = (poll cfg (run cfg evs)).1 := by simp [run, List.foldl_append, step]
  rw [hrun]
  obtain ⟨popped, g⟩ := run_good cfg evs
  obtain ⟨p, h1, h2, h3, h4, h5⟩ := pollLoop_good cfg (run cfg evs).queue (run cfg evs).layer (run cfg evs).log false popped
    g.layer g.log g.entries
  unfold poll at hr ⊢
  constructor
  · intro id img hid hres
    rw [h3]
    rw [hq] at hr h1
    obtain ⟨p2, e1, p', e2⟩ := pollLoop_delivers cfg pre post _ _ false b hf hr
    have e0 : ids (pre ++ post) = ids pre ++ ids post := by simp [ids]
    rw [hq] at *
    rw [e0, e1] at h1
    have : p2 = p := List.append_cancel_right h1
    subst this
    rw [e2]
    exact mem_okIds (by simp [hid]) hres
  · exact pollLoop_ok_head cfg _ _ _ false b hr

/-! non-vacuity: three images, the third covers the first; decodes finish in the order 2, 0, 1 with a poll
    after each completion -/
def exCfg : Cfg := { fw := 8, fh := 16, res := fun
  | 0 => .ok ⟨0, 0, 0, 4, 6⟩
  | 1 => .ok ⟨1, 5, 0, 4, 6⟩
  | 2 => .ok ⟨2, 0, 0, 8, 12⟩
  | _ => .err }
def exSched : List Ev := [.arrive 0, .arrive 1, .arrive 2, .finish 2, .poll, .finish 0, .poll, .finish 1, .poll]
example : ((run exCfg exSched).layer.map (·.id)) = [1, 2] := by decide
example : (run exCfg exSched).log = [0, 1, 2] := by decide
example : (run exCfg exSched).queue = [] := by decide
example : (run exCfg [.arrive 0, .arrive 1, .finish 1, .poll]).layer = [] := by decide
example : AllFinished (run exCfg [.arrive 0, .arrive 1, .finish 1, .finish 0]).queue := by unfold AllFinished; decide

end Queue
end IcyVerif.C14
