import IcyVerif.Props.C20Igs
import IcyVerif.Lemmas.IgsTotal
set_option linter.unusedSimpArgs false
set_option linter.unusedVariables false
/-!
# C20, IGS DrawExecutor part — executor-level totality

Property sentence addressed: "It never panics or aborts" for the IGS executor as a whole.  FULL statement wanted:

  `igs_exec_total : Good p → Aux p → ParamsOk ps → exec p name ps ≠ panic ∧ ≠ stall` for EVERY command name.

The model (`Model/IgsPaint.lean`) makes every Rust panic of `execute_command` and of the painting primitives (index out
of range, i32 / i64 overflow in the debug profile, division by zero) the explicit outcome `panic` and a loop that runs
out of fuel the outcome `stall`; the theorems below exclude these outcomes arm by arm.
-/
namespace IcyVerif.C20
open IcyVerif

/-- the auxiliary invariant holds in the initial executor -/
theorem igs_aux_initial : IgsPaint.Aux IgsPaint.Paint.new :=
  ⟨by unfold IgsPaint.Bd; decide, by unfold IgsPaint.Bd; decide, by decide, by unfold IgsPaint.Bd2; decide, by unfold IgsPaint.Bd2; decide, by decide⟩

/-- `execute_command` keeps the auxiliary invariant `Aux` (current position within ±2^20 — it is only ever written
from parameter values by DrawLine / LineDrawTo / PolyLine —, a fill pattern with at least one row — every pattern
table AttributeForFills selects from has 8 or 16 rows —, the recorded size of the saved block within ±2^21, a polymarker
type 0..5 — LineMarkerTypes accepts 1..=6 only) for EVERY
command name and EVERY parameter list within `ParamsOk`, whether it answers `Ok` or `Err`.  Together with
`igs_exec_keeps_invariant` this makes the hypotheses of `igs_exec_total_partial` hold along every stream of commands
whose parameters are within `ParamsOk`. -/
theorem igs_exec_keeps_aux (p : IgsPaint.Paint) (name : String) (ps : List Int) (hg : IgsPaint.Good p) (ha : IgsPaint.Aux p)
    (hps : IgsPaint.ParamsOk ps) : (IgsPaint.exec p name ps).All IgsPaint.Aux := IgsPaint.exec_aux hg ha hps

/-- non-vacuity: the hypotheses are satisfied by the initial executor and a parameter list of the property's range -/
example : ∃ (p : IgsPaint.Paint) (ps : List Int), IgsPaint.Good p ∧ IgsPaint.Aux p ∧ IgsPaint.ParamsOk ps ∧ ps.length = 4 :=
  ⟨IgsPaint.Paint.new, [1, 2, 99999, -50], IgsCanvas.paint_new_good, igs_aux_initial,
    (by intro v hv; simp at hv; unfold IgsPaint.BdM; omega), rfl⟩

/-- PARTIAL executor-level totality.  In every state satisfying the executor invariant `Good` and the auxiliary
invariant `Aux`, for every parameter list — ANY length — whose values are within ±(2^20 - 64) (`ParamsOk`: the property's
range -50..=99999 and everything the `&` loop arithmetic `x`, `y`, `+n`, `-n`, `!n` makes of it), `execute_command`
neither panics (no index out of range, no i32 / i64 overflow, no division by zero, no `unwrap` on `None`) nor stalls
(every fuelled loop ends within its fuel), for EVERY command name EXCEPT the four arms of `IgsPaint.hardArms`:

  RoundedRectangles, Circle, Ellipse, PolyFill.

Covered (27 named arms + the `Unimplemented` default): Initialize, AskIG, Cursor, ColorSet, SetPenColor (pen index
guard + sixteen pens), DrawLine, LineDrawTo (current position within range by `Aux`), Box (clipped fill + four border
lines), HollowSet, Pieslice, EllipticalArc, QuickPause, AttributeForFills, FilledRectangle, TimeAPause (as repaired),
PolymarkerPlot (all six stroke tables are well formed — `markerTables_ok`, a `decide` over the regenerated tables: every
count and every coordinate pair is inside its table, offsets at most 64 — so no index panic and every stroke is a
poly-line inside ±2^20), TextEffects, LineMarkerTypes, DrawingMode, SetResolution, FloodFill, VTColor (every entry of the regenerated
REGISTER_TO_PEN table is a pen number), VTPosition, ScreenClear, PolyLine (`points * 2 + 1` cannot overflow; an even
coordinate list), GrabScreen modes 0, 1, 2, 3 and every other mode / length (blit arithmetic within i32, source offset in
i64 as repaired, destination clipped), and WriteText, whose model outcome is `unmodelled` (f32 glyph scaling: neither
proved nor excluded here; correspondence + oracle only).

MISSING for the full statement `igs_exec_total` (these arms keep only the conditional `igs_exec_keeps_invariant` /
`igs_exec_keeps_aux`): that the scan conversion of `fill_poly` (PolyFill, RoundedRectangles with fill) stays inside
i32 after the i64 division and finds its intersections in pairs, that the products `k * r` of `round_rect` and the
corner sums stay inside i32, and that the ellipse / circle loops (Circle, Ellipse) end within their fuel with their i64 error
terms in range. -/
theorem igs_exec_total_partial (p : IgsPaint.Paint) (name : String) (ps : List Int) (hg : IgsPaint.Good p) (ha : IgsPaint.Aux p)
    (hps : IgsPaint.ParamsOk ps) (hn : name ∉ IgsPaint.hardArms) : (IgsPaint.exec p name ps).Safe :=
  IgsPaint.exec_safe hg ha hps hn

/-- non-vacuity: the hypotheses hold for a Box with corners at the edge of `ParamsOk` on the initial executor -/
example : ∃ (p : IgsPaint.Paint) (ps : List Int), IgsPaint.Good p ∧ IgsPaint.Aux p ∧ IgsPaint.ParamsOk ps ∧ "Box" ∉ IgsPaint.hardArms ∧ ps.length = 5 :=
  ⟨IgsPaint.Paint.new, [-1048512, 1048512, 1048512, -1048512, 0], IgsCanvas.paint_new_good, igs_aux_initial,
    (by intro v hv; simp at hv; unfold IgsPaint.BdM; omega), by decide, rfl⟩

example : "GrabScreen" ∉ IgsPaint.hardArms ∧ "LineDrawTo" ∉ IgsPaint.hardArms ∧ "PolymarkerPlot" ∉ IgsPaint.hardArms ∧ "Circle" ∈ IgsPaint.hardArms := by decide

end IcyVerif.C20
