import IcyVerif.Lemmas.LoadersDispatch
import IcyVerif.Lemmas.LoadersTdf
import IcyVerif.Lemmas.LoadersIcy
/-! # C02 — no file content can crash a loader

Only property theorems and non-vacuity examples live here.  `load d ≠ .panic s` for every site `s` is the
statement "the loader never panics"; `.panic` is returned by the model at every Rust index, slice, `usize`
subtraction, `i32` overflow (debug profile) and when a loop model runs out of fuel.

Bytes are `List Nat` (read mod 256).  `usize` arithmetic is not range-checked (offsets stay below
`len + 2^33`); `i32` arithmetic is.

Three loaders (BIN, ADF, Tundra) count rows in an `i32` that grows with the file length at one row per
>= 1 byte; for them the statement carries the hypothesis `d.length + 65536 < 2^31` (files below
2 GiB - 64 KiB).  FULL STATEMENT (without the bound) is false in the debug profile for files of several GiB
(the row counter overflows) — such a file cannot be held in the engine's `Vec<Line>` anyway; it is outside
what this check can exercise and is stated here instead of being hidden.  XBin and IDF had the same problem
at 100 MB / 196 KB and were repaired (`fix:` commits), so `xb_total` and `idf_total` are unconditional. -/
namespace IcyVerif.C02
open IcyVerif.Bytes IcyVerif.Bytes.Res IcyVerif.Loaders IcyVerif.Gen.Loaders

/-- XBin (`XBin::load_buffer`: header, palette, font blocks, compressed and uncompressed data), with or without
    a SAUCE size: never panics, for ALL byte strings -/
theorem xb_total (d : List Nat) (sauce : Option (Nat × Nat)) : ∀ s, loadXb d.toArray sauce ≠ .panic s :=
  (loadXb_sat d.toArray sauce).noPanic

/-- BIN (`Bin::load_buffer`), any SAUCE size, files below 2 GiB - 64 KiB -/
theorem bin_total (d : List Nat) (hd : d.length + 65536 < 2147483648) (sauce : Option (Nat × Nat)) :
    ∀ s, loadBin d.toArray sauce ≠ .panic s :=
  (loadBin_sat d.toArray (by unfold FitsI32; simpa using hd) sauce).noPanic

/-- ADF (`Artworx::load_buffer`), files below 2 GiB - 64 KiB -/
theorem adf_total (d : List Nat) (hd : d.length + 65536 < 2147483648) (sauce : Option (Nat × Nat)) :
    ∀ s, loadAdf d.toArray sauce ≠ .panic s :=
  (loadAdf_sat d.toArray (by unfold FitsI32; simpa using hd) sauce).noPanic

/-- IDF (`IceDraw::load_buffer` incl. the RLE records): never panics, for ALL byte strings -/
theorem idf_total (d : List Nat) (sauce : Option (Nat × Nat)) : ∀ s, loadIdf d.toArray sauce ≠ .panic s :=
  (loadIdf_sat d.toArray sauce).noPanic

/-- Tundra (`TundraDraw::load_buffer`), files below 2 GiB - 64 KiB -/
theorem tnd_total (d : List Nat) (hd : d.length + 65536 < 2147483648) (sauce : Option (Nat × Nat)) :
    ∀ s, loadTnd d.toArray sauce ≠ .panic s :=
  (loadTnd_sat d.toArray (by unfold FitsI32; simpa using hd) sauce).noPanic

/-- TheDraw fonts (`TheDrawFont::from_tdf_bytes`): never panics, for ALL byte strings -/
theorem tdf_total (d : List Nat) : ∀ s, loadTdf d.toArray ≠ .panic s :=
  (loadTdf_sat d.toArray).noPanic

/-- Clipboard layers (`Layer::from_clipboard_data`), ALL byte strings: the only panic-like outcome is the abort
    of `char::from_u32_unchecked` on a surrogate, and only while the source still contains that call
    (`clipCharUnchecked`, regenerated from src/layer.rs; the repair is owned by C10).  Once it is gone this is
    `∀ d s, loadClip d ≠ .panic s`. -/
theorem clipboard_total (d : List Nat) : ∀ s, loadClip d.toArray = .panic s → clipCharUnchecked = true ∧ s = sClipAbort :=
  fun _ h => (loadClip_sat d.toArray).panic_site h

theorem clipboard_total_checked (h : clipCharUnchecked = false) (d : List Nat) : ∀ s, loadClip d.toArray ≠ .panic s := by
  intro s hs
  have := (clipboard_total d s hs).1
  rw [h] at this; cases this

/-- IcyDraw chunk payloads (ICED header, FONT_n, LAYER_n, LAYER_n~k, PALETTE, SAUCE, unknown keywords), ANY
    sequence of chunks with ANY payload bytes: if the font / palette / SAUCE loaders the payloads are handed to
    do not panic (`Foreign.panic` = what the harness observed of them; they belong to C10/C17, C16, C11), the only
    panic-like outcome is the abort of `char::from_u32_unchecked` in the cell decoders, and only while the source
    still contains that call (repair owned by C10). -/
theorem icy_chunk_total (chunks : List (String × List Nat × Foreign)) (hf : ∀ c ∈ chunks, c.2.2 ≠ Foreign.panic) :
    ∀ s, loadIcy (chunks.map fun c => (c.1, c.2.1.toArray, c.2.2)) = .panic s → icyCharUnchecked = true ∧ s = sIcyAbort := by
  intro s h
  refine (icyChunks_sat IcyOwn (fun _ h => h) _ _ ?_).panic_site h
  intro c hc
  obtain ⟨c', hc', rfl⟩ := List.mem_map.mp hc
  exact foreign_own _ (hf c' hc')

theorem icy_chunk_total_checked (h : icyCharUnchecked = false) (chunks : List (String × List Nat × Foreign))
    (hf : ∀ c ∈ chunks, c.2.2 ≠ Foreign.panic) :
    ∀ s, loadIcy (chunks.map fun c => (c.1, c.2.1.toArray, c.2.2)) ≠ .panic s := by
  intro s hs
  have := (icy_chunk_total chunks hf s hs).1
  rw [h] at this; cases this

/-- a foreign panic is passed through unchanged and nothing else is added -/
theorem icy_chunk_sites (chunks : List (String × List Nat × Foreign)) :
    ∀ s, loadIcy (chunks.map fun c => (c.1, c.2.1.toArray, c.2.2)) = .panic s →
      (icyCharUnchecked = true ∧ s = sIcyAbort) ∨ s = sForeign := by
  intro s h
  exact (icyChunks_sat IcySite (fun _ h => Or.inl h) _ _ (fun c _ => foreign_site c.2.2)).panic_site h

/-- `Buffer::from_bytes`: the SAUCE length arithmetic `len -= sauce_header_len` and the slice `&bytes[..len]`
    never panic, whatever `SauceData::extract` returns, for ALL byte strings and both answers of the date parser;
    the content length handed to the loader never exceeds the file.  The only panic site on this path is inside
    `extract` itself (owned by C11). -/
theorem dispatch_total (d : List Nat) (dateOk : Bool) : ∀ s, dispatchLen d.toArray dateOk = .panic s → s = sSauce :=
  fun _ h => (dispatchLen_site d.toArray dateOk).panic_site h

theorem dispatch_len_le (d : List Nat) (dateOk : Bool) (r : Nat × Option (Nat × Nat)) (h : dispatchLen d.toArray dateOk = .ok r) :
    r.1 ≤ d.length := by
  have h1 := dispatchLen_site d.toArray dateOk
  rw [h] at h1
  have h2 : r.1 ≤ d.toArray.size := h1
  simpa using h2

/-- with C11's two repairs present in the tree (flags regenerated from src/sauce_mod/mod.rs) the length
    arithmetic of `extract` cannot panic either -/
theorem sauce_length_total (hs : sauceOffsetSaturating = true) (hc : sauceCommentCheckUsize = true) (d : List Nat) (dateOk : Bool) :
    ∀ s, sauceInfo d.toArray dateOk ≠ .panic s :=
  (sauceInfo_total hs hc d.toArray dateOk).noPanic

/-- whole path `from_bytes` → binary loader, every extension (known or not), files below 2 GiB - 64 KiB:
    the only possible panic site is inside `SauceData::extract` -/
theorem from_bytes_total (d : List Nat) (hd : d.length + 65536 < 2147483648) (ext : String) (dateOk : Bool) :
    ∀ s, fromBytes d.toArray ext dateOk = .panic s → s = sSauce :=
  fun _ h => (fromBytes_site d.toArray (by unfold FitsI32; simpa using hd) ext dateOk).panic_site h

-- ------------------------------------------------------------------------------------------------ non-vacuity

/-- (the expected line counts depend on whether the loader clears the 25 lines `Buffer::new` creates — a change
    owned by C05; the flag is regenerated from the source)
    a well-formed 2x1 XBin file loads; its truncation inside the announced palette is an error, not a panic -/
example : loadXb #[88, 66, 73, 78, 26, 2, 0, 1, 0, 16, 0, 65, 7, 66, 7] none =
    (if xbLinesCleared then .ok ⟨2, 1, 2, 1, 1⟩ else .ok ⟨2, 25, 2, 25, 25⟩) := by decide
example : loadXb #[88, 66, 73, 78, 26, 2, 0, 1, 0, 16, 1, 65, 7] none = .err := by decide
/-- a compressed XBin whose last byte is a run header (the pinned tree panicked here) -/
example : loadXb #[88, 66, 73, 78, 26, 2, 0, 3, 0, 16, 4, 0x41] none =
    (if xbLinesCleared then .ok ⟨2, 0, 2, 0, 0⟩ else .ok ⟨2, 25, 2, 25, 25⟩) := by decide
/-- the guards are needed: the raw operations do panic -/
example : rd "site" #[1, 2] 2 = .panic "site" := by decide
example : slice "site" #[1, 2] 1 3 = .panic "site" := by decide
example : usub "site" 3 4 = .panic "site" := by decide
example : chk32 "site" 2147483648 = .panic "site" := by decide
/-- Tundra: a position command cut off by the end of the file -/
example : loadTnd #[24, 84, 85, 78, 68, 82, 65, 50, 52, 1, 0, 0] none = .err := by decide
example : loadTnd #[24, 84, 85, 78, 68, 82, 65, 50, 52, 65, 66] none = .ok ⟨80, 1, 80, 1, if tndLinesCleared then 1 else 25⟩ := by decide
/-- BIN: odd trailing byte is ignored -/
example : loadBin #[65, 7, 66] none = .ok ⟨160, 1, 160, 1, if binLinesCleared then 1 else 25⟩ := by decide +kernel
/-- clipboard: 1x1 layer; data shorter than the announced cells -/
example : loadClip #[0, 1,0,0,0, 2,0,0,0, 1,0,0,0, 1,0,0,0, 65,0, 0,0, 0,0, 0,0,0,0, 7,0,0,0] = .ok ⟨1, 1, 1, 1, 2⟩ := by decide
example : loadClip #[0, 1,0,0,0, 2,0,0,0, 2,0,0,0, 1,0,0,0, 65,0, 0,0, 0,0, 0,0,0,0, 7,0,0,0] = .err := by decide
example : loadClip #[0, 1, 0] = .err := by decide
/-- IcyDraw: ICED header then a continuation chunk for a layer that does not exist -/
example : loadIcy [("ICED", #[0,0,0,0,0,0,1,0,2,1,1, 10,0,0,0, 3,0,0,0], .ok), ("LAYER_0~1", #[1, 2], .ok)] = .err := by decide
example : loadIcy [("ICED", #[0,0,0,0,0,0,1,0,2,1,1, 10,0,0,0, 3,0,0,0], .ok)] = .ok ⟨10, 3, #[]⟩ := by decide
/-- dispatch: 128 bytes that are not a SAUCE record are content -/
example : dispatchLen (Array.replicate 130 0) true = .ok (130, none) := by decide +kernel
/-- dispatch: content, EOF byte, SAUCE record: one content byte is handed to the loader with the default size -/
example : dispatchLen (#[65, 26, 83, 65, 85, 67, 69, 48, 48] ++ Array.replicate 121 0) true = .ok (1, some (80, 25)) := by decide +kernel
/-- a file that is only a SAUCE record: `len - 1` underflows in `extract` on the pinned tree (C11's finding),
    `saturating_sub` after its repair — the model follows whichever the source has -/
example : dispatchLen (#[83, 65, 85, 67, 69, 48, 48] ++ Array.replicate 121 0) true =
    (if sauceOffsetSaturating then .ok (0, some (80, 25)) else .panic sSauce) := by decide +kernel
/-- an unreadable date makes `extract` fail: the whole file is content -/
example : dispatchLen (#[65, 26, 83, 65, 85, 67, 69, 48, 48] ++ Array.replicate 121 0) false = .ok (130, none) := by decide +kernel
/-- TheDraw: empty bundle; short file -/
example : loadTdf (#[19, 84, 104, 101, 68, 114, 97, 119, 32, 70, 79, 78, 84, 83, 32, 102, 105, 108, 101, 26] ++ Array.replicate 213 0) = .ok [] := by
  decide +kernel
example : loadTdf #[19, 84, 104] = .err := by decide
/-- ADF / IDF: files shorter than header + palette + font are errors (files of >= 4 KiB are beyond what the kernel
    evaluates by `decide`; the `ok` side of these two loaders is exercised by the correspondence run) -/
example : loadAdf #[1, 0, 0, 65, 7] none = .err := by decide
example : loadIdf #[4, 49, 46, 52, 0, 0, 0, 0, 79, 0, 0, 0, 65, 7] none = .err := by decide
/-- extension dispatch is case-insensitive and falls back to the ANSI loader -/
example : loaderFor "XB" = "xbinary" ∧ loaderFor "an7" = "renegade" ∧ loaderFor "zzz" = "ansi" := by decide +kernel

end IcyVerif.C02
