import IcyVerif.Lemmas.LoadersDispatch
import IcyVerif.Lemmas.LoadersTdf
import IcyVerif.Lemmas.LoadersIcy
import IcyVerif.Lemmas.FontLoad
import IcyVerif.Lemmas.PalLoad
/-! # C02 — no file content can crash a loader

Only property theorems and non-vacuity examples live here.  `load d ≠ .panic s` for every site `s` is the
statement "the loader never panics"; `.panic` is returned by the model at every Rust index, slice, `usize`
subtraction, `i32` overflow (debug profile) and when a loop model runs out of fuel.

Bytes are `List Nat` (read mod 256).  `usize` arithmetic is not range-checked (offsets stay below
`len + 2^33`); `i32` arithmetic is.

Three loaders (BIN, ADF, Tundra) count rows in an `i32` that grows with the file length at one row per
>= 1 byte; for them the statement carries the hypothesis `d.length + 65536 < 2^31` (files below
2 GiB - 64 KiB).  FULL STATEMENT (without the bound) is false in the debug profile for files of several GiB
(the row counter overflows) — such a file cannot be held in the engine's `Vec<Line>` anyway; it is outside
what this check can exercise and is stated here instead of being hidden.  XBin and IDF had the same problem
at 100 MB / 196 KB and were repaired (`fix:` commits), so `xb_total` and `idf_total` are unconditional.

Bitmap fonts (`Model/FontLoad.lean`) and palette importers (`Model/PalLoad.lean`) are stand-alone models of the same kind
(`bitfont_total`, `palette_import_total`, unconditional).  For them the translator also regenerates an inventory of every
source line in the loader functions that could panic (`loaderSites`); `loader_sites_known` demands that each is one the
model accounts for, and `glyph_guard_present` / `palette_conversions_pinned` pin the two source facts the proofs use. -/
namespace IcyVerif.C02
open IcyVerif.Bytes IcyVerif.Bytes.Res IcyVerif.Loaders IcyVerif.Gen.Loaders
open IcyVerif.FontLoad IcyVerif.PalLoad IcyVerif.Gen.FontPal

/-- XBin (`XBin::load_buffer`: header, palette, font blocks, compressed and uncompressed data), with or without
    a SAUCE size: never panics, for ALL byte strings -/
theorem xb_total (d : List Nat) (sauce : Option (Nat × Nat)) : ∀ s, loadXb d.toArray sauce ≠ .panic s :=
  (loadXb_sat d.toArray sauce).noPanic

/-- BIN (`Bin::load_buffer`), any SAUCE size, files below 2 GiB - 64 KiB -/
theorem bin_total (d : List Nat) (hd : d.length + 65536 < 2147483648) (sauce : Option (Nat × Nat)) :
    ∀ s, loadBin d.toArray sauce ≠ .panic s :=
  (loadBin_sat d.toArray (by unfold FitsI32; simpa using hd) sauce).noPanic

/-- ADF (`Artworx::load_buffer`), files below 2 GiB - 64 KiB -/
theorem adf_total (d : List Nat) (hd : d.length + 65536 < 2147483648) (sauce : Option (Nat × Nat)) :
    ∀ s, loadAdf d.toArray sauce ≠ .panic s :=
  (loadAdf_sat d.toArray (by unfold FitsI32; simpa using hd) sauce).noPanic

/-- IDF (`IceDraw::load_buffer` incl. the RLE records): never panics, for ALL byte strings -/
theorem idf_total (d : List Nat) (sauce : Option (Nat × Nat)) : ∀ s, loadIdf d.toArray sauce ≠ .panic s :=
  (loadIdf_sat d.toArray sauce).noPanic

/-- Tundra (`TundraDraw::load_buffer`), files below 2 GiB - 64 KiB.  Since the C05 repair the loader takes a SAUCE width
    above 1000 as it is; `hs` is the range of the field it comes from (`Size::width : i32`; what `extract` puts there is a
    16-bit value, `from_bytes_total`). -/
theorem tnd_total (d : List Nat) (hd : d.length + 65536 < 2147483648) (sauce : Option (Nat × Nat))
    (hs : ∀ sw sh, sauce = some (sw, sh) → sw ≤ 2147483647) :
    ∀ s, loadTnd d.toArray sauce ≠ .panic s :=
  (loadTnd_sat d.toArray (by unfold FitsI32; simpa using hd) sauce hs).noPanic

/-- TheDraw fonts (`TheDrawFont::from_tdf_bytes`): never panics, for ALL byte strings -/
theorem tdf_total (d : List Nat) : ∀ s, loadTdf d.toArray ≠ .panic s :=
  (loadTdf_sat d.toArray).noPanic

/-- Clipboard layers (`Layer::from_clipboard_data`), ALL byte strings: the only panic-like outcome is the abort
    of `char::from_u32_unchecked` on a surrogate, and only while the source still contains that call
    (`clipCharUnchecked`, regenerated from src/layer.rs; the repair is owned by C10).  Once it is gone this is
    `∀ d s, loadClip d ≠ .panic s`. -/
theorem clipboard_total (d : List Nat) : ∀ s, loadClip d.toArray = .panic s → clipCharUnchecked = true ∧ s = sClipAbort :=
  fun _ h => (loadClip_sat d.toArray).panic_site h

theorem clipboard_total_checked (h : clipCharUnchecked = false) (d : List Nat) : ∀ s, loadClip d.toArray ≠ .panic s := by
  intro s hs
  have := (clipboard_total d s hs).1
  rw [h] at this; cases this

/-- IcyDraw chunk payloads (ICED header, FONT_n, LAYER_n, LAYER_n~k, PALETTE, SAUCE, unknown keywords), ANY
    sequence of chunks with ANY payload bytes: if the font / palette / SAUCE loaders the payloads are handed to
    do not panic (`Foreign.panic` = what the harness observed of them; they belong to C10/C17, C16, C11), the only
    panic-like outcome is the abort of `char::from_u32_unchecked` in the cell decoders, and only while the source
    still contains that call (repair owned by C10). -/
theorem icy_chunk_total (chunks : List (String × List Nat × Foreign)) (hf : ∀ c ∈ chunks, c.2.2 ≠ Foreign.panic) :
    ∀ s, loadIcy (chunks.map fun c => (c.1, c.2.1.toArray, c.2.2)) = .panic s → icyCharUnchecked = true ∧ s = sIcyAbort := by
  intro s h
  refine (icyChunks_sat IcyOwn (fun _ h => h) _ _ ?_).panic_site h
  intro c hc
  obtain ⟨c', hc', rfl⟩ := List.mem_map.mp hc
  exact foreign_own _ (hf c' hc')

theorem icy_chunk_total_checked (h : icyCharUnchecked = false) (chunks : List (String × List Nat × Foreign))
    (hf : ∀ c ∈ chunks, c.2.2 ≠ Foreign.panic) :
    ∀ s, loadIcy (chunks.map fun c => (c.1, c.2.1.toArray, c.2.2)) ≠ .panic s := by
  intro s hs
  have := (icy_chunk_total chunks hf s hs).1
  rw [h] at this; cases this

/-- a foreign panic is passed through unchanged and nothing else is added -/
theorem icy_chunk_sites (chunks : List (String × List Nat × Foreign)) :
    ∀ s, loadIcy (chunks.map fun c => (c.1, c.2.1.toArray, c.2.2)) = .panic s →
      (icyCharUnchecked = true ∧ s = sIcyAbort) ∨ s = sForeign := by
  intro s h
  exact (icyChunks_sat IcySite (fun _ h => Or.inl h) _ _ (fun c _ => foreign_site c.2.2)).panic_site h

/-- `Buffer::from_bytes`: the SAUCE length arithmetic `len -= sauce_header_len` and the slice `&bytes[..len]`
    never panic, whatever `SauceData::extract` returns, for ALL byte strings and both answers of the date parser;
    the content length handed to the loader never exceeds the file.  The only panic site on this path is inside
    `extract` itself (owned by C11). -/
theorem dispatch_total (d : List Nat) (dateOk : Bool) : ∀ s, dispatchLen d.toArray dateOk = .panic s → s = sSauce :=
  fun _ h => (dispatchLen_site d.toArray dateOk).panic_site h

theorem dispatch_len_le (d : List Nat) (dateOk : Bool) (r : Nat × Option (Nat × Nat)) (h : dispatchLen d.toArray dateOk = .ok r) :
    r.1 ≤ d.length := by
  have h1 := dispatchLen_site d.toArray dateOk
  rw [h] at h1
  have h2 : r.1 ≤ d.toArray.size := h1.1
  simpa using h2

/-- with C11's two repairs present in the tree (flags regenerated from src/sauce_mod/mod.rs) the length
    arithmetic of `extract` cannot panic either -/
theorem sauce_length_total (hs : sauceOffsetSaturating = true) (hc : sauceCommentCheckUsize = true) (d : List Nat) (dateOk : Bool) :
    ∀ s, sauceInfo d.toArray dateOk ≠ .panic s :=
  (sauceInfo_total hs hc d.toArray dateOk).noPanic

/-- whole path `from_bytes` → binary loader, every extension (known or not), files below 2 GiB - 64 KiB:
    the only possible panic site is inside `SauceData::extract` -/
theorem from_bytes_total (d : List Nat) (hd : d.length + 65536 < 2147483648) (ext : String) (dateOk : Bool) :
    ∀ s, fromBytes d.toArray ext dateOk = .panic s → s = sSauce :=
  fun _ h => (fromBytes_site d.toArray (by unfold FitsI32; simpa using hd) ext dateOk).panic_site h

-- ------------------------------------------------------------------------------------------------ bitmap fonts, palettes

/-- the zero-height guard of `glyphs_from_u8_data` is in the source (flag regenerated by `tools/gens/fontpal.py`);
    every font theorem below is proved FROM this fact, so removing the guard breaks them -/
theorem glyph_guard_present : glyphZeroGuard = true := by decide

/-- bitmap fonts (`BitFont::from_bytes`: length guard, PSF1 / PSF2 sniffing, `load_psf1`, `load_psf2` with its `i64`/`u64`
    consistency arithmetic, `load_plain_font`, `glyphs_from_u8_data`): never a panic and never a glyph loop that fails to
    terminate (fuel exhausted = `.panic "…::diverge"`), for ALL byte strings -/
theorem bitfont_total (d : List Nat) : ∀ s, fontFromBytes d.toArray ≠ .panic s :=
  (fontFromBytes_sat glyph_guard_present d.toArray).noPanic

/-- the guard matters: in a tree without it a PSF1 header with character height 0 diverges on every file -/
theorem bitfont_needs_zero_guard (hg : glyphZeroGuard = false) (d : List Nat) (o : Nat) (ho : o ≤ d.length) :
    glyphsFrom 0 d.toArray o = .panic sDiverge :=
  glyphsFrom_needs_guard hg d.toArray o (by simpa using ho)

/-- every font `BitFont::from_bytes` accepts has a width and a height different from 0 (`psf1ZeroRejected`: the PSF1 guard is in the
    source): this is what makes the cell-size division of `parse_with_parser` safe for a font loaded by `CTerm:Font` into slot 0 -/
theorem bitfont_size_nonzero (d : List Nat) (hbig : d.length < 1099511627776) (f : Font) (h : fontFromBytes d.toArray = .ok f) :
    f.w ≠ 0 ∧ f.h ≠ 0 :=
  fontFromBytes_size glyph_guard_present (by decide) d.toArray (by simpa using hbig) f h

/-- the five palette importers (`Palette::load_palette`: UTF-8 check, line loop, regex matches, `parse::<u32>()?`,
    `from_str_radix(_, 16)?`, `as u8`) and the extension dispatch of `import_palette`: never a panic, for ALL byte strings,
    every format, every extension (known, unknown or missing) -/
theorem palette_import_total (f : IcyVerif.Palette.Fmt) (d : List Nat) : ∀ s, palLoad f d ≠ .panic s :=
  (palLoad_sat f d).noPanic

theorem palette_import_ext_total (ext : Option String) (d : List Nat) : ∀ s, palImport ext d ≠ .panic s :=
  (palImport_sat ext d).noPanic

/-- pinned by the translator: every conversion of a number found in a palette file is `.parse::<u32>()?` or
    `u32::from_str_radix(_, 16)?` — the `Err` outcome of `parseU32` is what `?` propagates (an `unwrap`, or a wider type
    that is then used as a size, flips the flag) -/
theorem palette_conversions_pinned : palConversionsChecked = true := by decide

/-- a decimal channel of 2^32 or more, or written with non-ASCII digits, is an `Err` — it is never truncated, never
    used as a size -/
theorem palette_number_overflow_is_err (ds : List Nat) (h : 4294967296 ≤ IcyVerif.Palette.decVal ds) : parseU32 ds = .err := by
  unfold parseU32
  split
  · rename_i hh; omega
  · rfl

/-- lines of the font / palette loader functions that contain a construct which can panic in the debug profile
    (index, slice, unwrap, allocation from a number, arithmetic, cast, `todo!`), as 48-bit fingerprints of
    `file::fn::line`; next to each: the model operation that accounts for it -/
def knownSiteIds : List Nat := [
  177752670417767,   -- glyphs_from_u8_data: data[..font_height]                      -> slice (glyphLoop)
  244539708662553,   -- glyphs_from_u8_data: char::from_u32(ch as u32)                -> scalarsBelow (no panic: checked conversion)
  35319426141771,   -- glyphs_from_u8_data: data = &data[font_height..]              -> slice (glyphLoop)
  20139745512573,   -- glyphs_from_u8_data: ch += 1                                  -> usize counter <= data.len()
  48671801667160,   -- load_psf1: data[2]                                            -> rd
  112554629936380,   -- load_psf1: data[3]                                            -> rd
  103600904436763,   -- load_psf1: &data[4..], charsize as usize                      -> slice
  180293644882313,   -- load_plain_font: data.len() % 256                             -> constant divisor
  68003725177329,   -- load_plain_font: data.len() / 256                             -> constant divisor
  175861348391845,   -- load_plain_font: char_height as i32                           -> asI32 (wrapping cast)
  218247223516129,   -- load_psf2: data[4..8].try_into().unwrap()                     -> rdU32
  111950791377630,   -- load_psf2: data[8..12]                                        -> rdU32
  52832596720901,   -- load_psf2: data[16..20] as i32                                -> rdU32, asI32
  11722076513318,   -- load_psf2: data[20..24] as i32                                -> rdU32, asI32
  187740461968721,   -- load_psf2: data[24..28]                                       -> rdU32
  25605184388145,   -- load_psf2: data[28..32]                                       -> rdU32
  72185841379756,   -- load_psf2: i64 product and sum                                -> chkI64 (twice)
  89078562687065,   -- load_psf2: u64 sum, division by 8, product                    -> chkU64 (twice)
  156334085594325,   -- load_psf2: expected as usize (error message)                  -> wrapping cast
  8650048178242,   -- load_psf2: &data[headersize..]                                -> slice
  131448068814851,   -- from_bytes: data[0..2].try_into().unwrap()                    -> rdU16s
  251599850650885,   -- from_bytes: if data[3] == 0 (PSF1 character size 0 is rejected)  -> rd
  89905606661340,   -- from_bytes: data[0..4].try_into().unwrap()                    -> rdU32
  95741062839190,   -- calculate_checksum: char::from_u32(ch as u32)                 -> cksumIters (checked conversion)
  244011783155096,   -- create_8: height as usize (u8)                                -> XBin/ADF/IDF models (Model/Loaders)
  277559259562542,   -- from_basic: height as usize (u8)                              -> XBin/ADF/IDF models
  131060951300826,   -- load_palette/Hex: `[r, g, b]` is a pattern, not an index      -> colorsOfHexText
  70432448588115,   -- load_palette/Hex: r as u8 …                                   -> parseHex2 < 256
  209235545710915,   -- load_palette/Pal: pattern                                     -> scanWith (rgbAtWith isNd)
  237685006872747,   -- load_palette/Pal: r as u8 …                                   -> rgbOfDec (% 256)
  18540541025581,   -- load_palette/Gpl: pattern                                     -> findFirst (rgbAtWith isNd)
  134959383358329,   -- load_palette/Gpl: r as u8 …                                   -> rgbOfDec (% 256)
  41759450870794,   -- load_palette/Ice: pattern                                     -> findFirst (hexRun 6)
  125308993284890,   -- load_palette/Ice: r as u8 …                                   -> parseHex2 < 256
  70472089431505,   -- load_palette/Txt: pattern                                     -> findFirst (hexRun 8)
  257238798813892,   -- load_palette/Txt: r as u8 …                                   -> parseHex2 < 256
  102846824837714    -- load_palette: PaletteFormat::Ase => todo!()  (selected by the caller only: outside the quantifier)
]

/-- the translator's inventory of the current source contains no such line outside the table: a new index, unwrap,
    `reserve(count)`, `with_capacity(len / height)` … in these functions is an undischarged obligation -/
theorem loader_sites_known : loaderSiteIds.all (fun l => knownSiteIds.contains l) = true := by decide +kernel
theorem loader_sites_complete : loaderSiteIds.length = loaderSites.length := by decide +kernel

-- ------------------------------------------------------------------------------------------------ non-vacuity

/-- (the expected line counts depend on whether the loader clears the 25 lines `Buffer::new` creates — a change
    owned by C05; the flag is regenerated from the source)
    a well-formed 2x1 XBin file loads; its truncation inside the announced palette is an error, not a panic -/
example : loadXb #[88, 66, 73, 78, 26, 2, 0, 1, 0, 16, 0, 65, 7, 66, 7] none =
    (if xbLinesCleared then .ok ⟨2, 1, 2, 1, 1⟩ else .ok ⟨2, 25, 2, 25, 25⟩) := by decide
example : loadXb #[88, 66, 73, 78, 26, 2, 0, 1, 0, 16, 1, 65, 7] none = .err := by decide
/-- a compressed XBin whose last byte is a run header (the pinned tree panicked here) -/
example : loadXb #[88, 66, 73, 78, 26, 2, 0, 3, 0, 16, 4, 0x41] none =
    (if xbLinesCleared then .ok ⟨2, 0, 2, 0, 0⟩ else .ok ⟨2, 25, 2, 25, 25⟩) := by decide
/-- the guards are needed: the raw operations do panic -/
example : rd "site" #[1, 2] 2 = .panic "site" := by decide
example : slice "site" #[1, 2] 1 3 = .panic "site" := by decide
example : usub "site" 3 4 = .panic "site" := by decide
example : chk32 "site" 2147483648 = .panic "site" := by decide
/-- Tundra: a position command cut off by the end of the file -/
example : loadTnd #[24, 84, 85, 78, 68, 82, 65, 50, 52, 1, 0, 0] none = .err := by decide
example : loadTnd #[24, 84, 85, 78, 68, 82, 65, 50, 52, 65, 66] none = .ok ⟨80, 1, 80, 1, if tndLinesCleared then 1 else 25⟩ := by decide
/-- BIN: odd trailing byte is ignored -/
example : loadBin #[65, 7, 66] none = .ok ⟨160, 1, 160, 1, if binLinesCleared then 1 else 25⟩ := by decide +kernel
/-- clipboard: 1x1 layer; data shorter than the announced cells -/
example : loadClip #[0, 1,0,0,0, 2,0,0,0, 1,0,0,0, 1,0,0,0, 65,0, 0,0, 0,0, 0,0,0,0, 7,0,0,0] = .ok ⟨1, 1, 1, 1, 2⟩ := by decide
example : loadClip #[0, 1,0,0,0, 2,0,0,0, 2,0,0,0, 1,0,0,0, 65,0, 0,0, 0,0, 0,0,0,0, 7,0,0,0] = .err := by decide
example : loadClip #[0, 1, 0] = .err := by decide
/-- IcyDraw: ICED header then a continuation chunk for a layer that does not exist -/
example : loadIcy [("ICED", #[0,0,0,0,0,0,1,0,2,1,1, 10,0,0,0, 3,0,0,0], .ok), ("LAYER_0~1", #[1, 2], .ok)] = .err := by decide
example : loadIcy [("ICED", #[0,0,0,0,0,0,1,0,2,1,1, 10,0,0,0, 3,0,0,0], .ok)] = .ok ⟨10, 3, #[]⟩ := by decide
/-- dispatch: 128 bytes that are not a SAUCE record are content -/
example : dispatchLen (Array.replicate 130 0) true = .ok (130, none) := by decide +kernel
/-- dispatch: content, EOF byte, SAUCE record: one content byte is handed to the loader with the default size -/
example : dispatchLen (#[65, 26, 83, 65, 85, 67, 69, 48, 48] ++ Array.replicate 121 0) true = .ok (1, some (80, 25)) := by decide +kernel
/-- a file that is only a SAUCE record: `len - 1` underflows in `extract` on the pinned tree (C11's finding),
    `saturating_sub` after its repair — the model follows whichever the source has -/
example : dispatchLen (#[83, 65, 85, 67, 69, 48, 48] ++ Array.replicate 121 0) true =
    (if sauceOffsetSaturating then .ok (0, some (80, 25)) else .panic sSauce) := by decide +kernel
/-- an unreadable date makes `extract` fail: the whole file is content -/
example : dispatchLen (#[65, 26, 83, 65, 85, 67, 69, 48, 48] ++ Array.replicate 121 0) false = .ok (130, none) := by decide +kernel
/-- TheDraw: empty bundle; short file -/
example : loadTdf (#[19, 84, 104, 101, 68, 114, 97, 119, 32, 70, 79, 78, 84, 83, 32, 102, 105, 108, 101, 26] ++ Array.replicate 213 0) = .ok [] := by
  decide +kernel
example : loadTdf #[19, 84, 104] = .err := by decide
/-- ADF / IDF: files shorter than header + palette + font are errors (files of >= 4 KiB are beyond what the kernel
    evaluates by `decide`; the `ok` side of these two loaders is exercised by the correspondence run) -/
example : loadAdf #[1, 0, 0, 65, 7] none = .err := by decide
example : loadIdf #[4, 49, 46, 52, 0, 0, 0, 0, 79, 0, 0, 0, 65, 7] none = .err := by decide
/-- extension dispatch is case-insensitive and falls back to the ANSI loader -/
example : loaderFor "XB" = "xbinary" ∧ loaderFor "an7" = "renegade" ∧ loaderFor "zzz" = "ansi" := by decide +kernel

/-- fonts: a PSF1 header announcing height 0 in front of data is an error (the pinned tree never returned; after the first repair
    it loaded as an empty font of height 0, which `parse_with_parser` then divided by — now rejected like `charsize <= 0` in PSF2);
    PSF1 with 2 complete glyphs and a ragged tail; PSF2 whose length field contradicts the file; raw data by length -/
example : fontFromBytes #[0x36, 0x04, 0, 0, 1, 2, 3] = .err := by decide
example : fontFromBytes #[0x36, 0x04, 1, 2, 1, 2, 3, 4, 5] = .ok ⟨8, 2, 512, 2, 2, 512⟩ := by decide
example : fontFromBytes (#[0x72, 0xb5, 0x4a, 0x86, 0,0,0,0, 32,0,0,0, 0,0,0,0, 255,255,255,127, 16,0,0,0, 16,0,0,0, 8,0,0,0]) = .err := by decide
example : fontFromBytes #[1, 2, 3] = .err := by decide
example : fontFromBytes #[1, 2, 3, 4, 5] = .err := by decide
/-- the primitive the loop is built from does fail when asked for more than is there -/
example : glyphLoop 3 #[1, 2, 3, 4] 5 2 0 = .ok 0 := by decide
example : glyphLoop 0 #[1, 2, 3, 4] 5 2 0 = .panic sDiverge := by decide
/-- palettes: a JASC count line is ignored whatever it says; a channel of 2^32 is an error; Arabic-Indic digits match
    `\d` and then fail to parse; not UTF-8 is an error -/
example : palLoad .pal ("JASC-PAL\n0100\n18446744073709551615\n1 2 300\n".toList.map Char.toNat) = .ok [⟨1, 2, 44⟩] := by decide +kernel
example : palLoad .pal ("JASC-PAL\n0100\n1\n4294967296 2 3\n".toList.map Char.toNat) = .err := by decide +kernel
example : palLoad .gpl ("GIMP Palette\n".toList.map Char.toNat ++ [0xD9, 0xA1, 32, 0xD9, 0xA2, 32, 0xD9, 0xA3, 10]) = .err := by decide +kernel
example : palLoad .hex [0x66, 0x66, 0xFF] = .err := by decide +kernel
example : palImport (some "PAL") [] = .ok [] ∧ palImport (some "ice") [] = .err ∧ palImport none [] = .err := by decide +kernel
example : knownSiteIds.length = 37 := by decide

end IcyVerif.C02
