import IcyVerif.Lemmas.RipText
/-! C20, "never panics", for the INTEGER part of the RIP text path — the interaction of `|Y` (font style: state set by
one command) with every text-drawing command (`|T`, `|@`, button labels: state used by another): for EVERY font number,
direction and size `|Y` can carry (and any i32 beyond) and EVERY text, no lookup of `out_text_xy` / `get_text_size` /
`draw_character` / `Character::draw` / `get_width` leaves its table — `FONTS[..]`, `SCALE_UP[size]`, `SCALE_DOWN[size]`
(never a zero divisor), `characters[code]`.  Tables, clamp bounds, `FontType::from` and the `.CHR` character counts
are regenerated from the source.  Not covered: what the strokes draw (`Bgi::line`, oracle only) and the f32 widths. -/
namespace IcyVerif.C20
open IcyVerif

/-- the clamp of `set_text_style` keeps the size inside both scale tables (regenerated bounds and table lengths) -/
theorem rip_text_size_in_tables (font dir : Nat) (size : Int) :
    0 ≤ (RipText.setTextStyle font dir size).size ∧
      (RipText.setTextStyle font dir size).size < Gen.RipText.scaleUp.length ∧
      (RipText.setTextStyle font dir size).size < Gen.RipText.scaleDown.length := by
  obtain ⟨h1, h2, h3, h4, h5, h6⟩ := RipText.clamp_bounds_ok
  have hc := RipText.clamp_range size Gen.RipText.sizeLo Gen.RipText.sizeHi h4
  have e : (RipText.setTextStyle font dir size).size = RipText.clamp size Gen.RipText.sizeLo Gen.RipText.sizeHi := rfl
  rw [e]
  omega

/-- NO INDEX PANIC for every font number, size and character: after `|Y` with ANY parameters, drawing or measuring ANY
text performs only in-range lookups. -/
theorem rip_text_total (font dir : Nat) (size : Int) (text : List Nat) :
    RipText.textLookups (RipText.setTextStyle font dir size) text = some () := by
  unfold RipText.textLookups
  split
  · rfl
  · split
    · rfl
    · have hf : (RipText.setTextStyle font dir size).font < 12 := RipText.fontFrom_lt font
      have hs := RipText.fontChars_some ⟨_, hf⟩
      obtain ⟨chars, hch⟩ := Option.isSome_iff_exists.mp hs
      have hsc := RipText.scaleAt_clamped size
      obtain ⟨r, hr⟩ := hsc
      simp only [hch]
      show (match RipText.scaleAt (RipText.clamp size Gen.RipText.sizeLo Gen.RipText.sizeHi) with
        | none => none
        | some _ => _) = some ()
      rw [hr]
      exact RipText.fold_some chars _ ⟨r, hr⟩ text

/-- non-vacuity: a stroke font at the largest size really reaches the lookups (size ZZ is clamped to 10, font 10) -/
example : (RipText.setTextStyle 10 1 1295) = ⟨10, 1, 10⟩ := by decide
example : RipText.scaleAt 10 = some (4, 1) := by decide
/-- and the model does show the panic one step beyond the clamp (what an off-by-one clamp would reach) -/
example : RipText.textLookups ⟨10, 0, 11⟩ [65] = none := by decide

end IcyVerif.C20
