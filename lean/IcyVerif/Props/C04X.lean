import IcyVerif.Props.C04
import IcyVerif.Lemmas.ArtAnsiFTop
/-! # C04 — the whole ANSI writer: `ansi_rt`

`writeAnsiX` (Model/ArtAnsiX.lean) is `Ansi::to_bytes` with everything `SaveOptions` offers the ANSI format except
`modern_terminal_output` (excluded by the property), sixels and uploaded fonts: in addition to the option lattice of
`ansi_rt_partial₄` it has

* `output_line_length = Some(n)` for EVERY `n` (incl. 0): `push_result` puts `ESC [ s  CR LF  ESC [ u` in front of pieces of
  output.  `split_invisible`: whatever pieces get a split, the reader ends with the same rendition, palette and caret, and
  with rows that SHOW the same (the line feed only appends empty rows to a file buffer).  The pieces are whole control
  sequences / characters (`chunk_ok`), so a split never falls inside an escape sequence or between a character and its
  `CSI n b`.  `push_no_underflow`: the `usize` subtraction in `push_result` cannot panic.
* `skip_lines` (with longer-terminal positioning): the rows that are written come back; the theorem says nothing about the
  rows the caller asked to leave out.
* font pages: cells in any font slots whose fonts are ANSI fonts (`FontsOk`: `font_map` sends every cell's page below
  `ANSI_FONTS`); the font switches `ESC [ 0 ; n SP D` and the RLE scan that stops at a font change are in the writer model.
  The conclusion is about character code, colours and blink; that the LOADED cell carries font page `font_map[page]` is not
  in the reader model (no font page in its cells) — the display oracle compares glyph bitmaps on the real code.
* the guard against output that starts with `EF BB BF`: the hypothesis `bomPrefixed … = false` of the earlier theorems is
  gone (the finding `ans:utf8-bom-prefix` is repaired in `to_bytes`).

`ansi_rt` — FULL STATEMENT, proved: for every picture (width 80, or 1..=132 with SAUCE; up to 10^6 rows, 999 with
longer-terminal positioning), every palette and colour index, every `AnsiOpts`, every `output_line_length`, every
`skip_lines`, every font assignment with `FontsOk`, all three ice modes: `to_bytes` does not panic and the file loads back
to a picture that shows every cell of every row that was not skipped (`ShowsEqXS`). -/
set_option linter.unusedSimpArgs false
namespace IcyVerif.C04
open IcyVerif.ArtIO IcyVerif.Gen.Art

/-- the rows the writer leaves out: `skip_lines`, which it looks at only with longer-terminal positioning -/
def effSkip (o : AnsiOpts) (skip : Option (List Nat)) (y : Nat) : Bool := o.longerTerminalOutput && skipFn skip y

/-- every cell of every row that was written is shown by the loaded picture, each through its own palette -/
def ShowsEqXS (L : Loaded) (p : Pic) (es : Nat → Bool) : Prop :=
  L.stuck = false ∧ L.w = p.w ∧ ∀ x y, x < p.w → y < p.rows.length → es y = false → ShowEqX p.pal L.pal (p.get x y) (L.cellAt x y)

/-- from what the reader's final screen shows to the loaded picture -/
theorem shows_of_items (o : AnsiOpts) (p : Pic) (es : Nat → Bool) (rs : RS) (irows : List (List (Option Cell))) (Pf : List Rgb)
    (hw1 : 1 ≤ p.w) (hfull : Pic.Full p) (R1 : RowsOkS o p.pal Pf p.w es 0 p.rows irows) (hdp : DosPre Pf) (hbig : Pf.length ≤ 2147483648)
    (hstuck : rs.core.stuck = false) (hpal : rs.core.pal = Pf) (hsw : rs.core.scr.w = p.w)
    (hV : ∀ x y, shownAt rs.core.scr.lines x y = itemsShown irows x y) :
    ShowsEqXS (finish .ansi rs) p es := by
  obtain ⟨F1, F2, F3⟩ := finish_view .ansi (by decide) rs p.w irows hsw hV
  have hLpal : (finish .ansi rs).pal = Pf := by unfold finish; rw [if_neg (by decide)]; exact hpal
  refine ⟨by rw [F2]; exact hstuck, F1, ?_⟩
  intro x y hx hy hes
  rw [hLpal]
  have hrow : p.rows.getD y [] ∈ p.rows := mem_of_getD_lt hy
  have hrl : (p.rows.getD y []).length = p.w := hfull _ hrow
  have hget0 := R1.get y hy
  rw [Nat.zero_add] at hget0
  rcases hget0 with ⟨hs, _⟩ | ⟨_, G1, G2⟩
  · rw [hes] at hs; cases hs
  obtain ⟨l1, l2, l3⟩ := ansiRowLen_specX o p.pal p.w (by omega) (p.rows.getD y [])
  have hshown : (∃ l, itemsShown irows x y = l ∧ Disp p.pal Pf (p.get x y) l) ∨ (itemsShown irows x y = defaultCell ∧ TrimCellX p.pal (p.get x y)) := by
    unfold itemsShown
    rw [R1.length_eq]
    by_cases hxl : x < ansiRowLen o p.pal p.w (p.rows.getD y [])
    · have hc : y < p.rows.length ∧ x < (irows.getD y []).length := ⟨hy, by rw [G1]; exact hxl⟩
      rw [if_pos hc]
      have htl : ((p.rows.getD y []).take (ansiRowLen o p.pal p.w (p.rows.getD y []))).length = ansiRowLen o p.pal p.w (p.rows.getD y []) := by
        rw [List.length_take, hrl]; omega
      have hget : ((p.rows.getD y []).take (ansiRowLen o p.pal p.w (p.rows.getD y []))).getD x defaultCell = p.get x y := by
        show ((p.rows.getD y []).take (ansiRowLen o p.pal p.w (p.rows.getD y []))).getD x defaultCell = (p.rows.getD y []).getD x defaultCell
        rw [List.getD_eq_getElem?_getD, List.getElem?_take, if_pos hxl, ← List.getD_eq_getElem?_getD]
      rcases G2 x (by rw [htl]; exact hxl) with ⟨l, h, hd⟩ | ⟨h1, h2, _⟩
      · left
        rw [h, hget] at *
        refine ⟨l, ?_, hd⟩
        show shown l = l
        apply shown_of_visible
        unfold Cell.isVisible; rw [hd.vis]; rfl
      · right
        rw [h1, hget] at *
        exact ⟨rfl, skip_trimX h2⟩
    · have hc : ¬ (y < p.rows.length ∧ x < (irows.getD y []).length) := by
        intro ⟨_, h2⟩; rw [G1] at h2; exact hxl h2
      rw [if_neg hc]
      right
      refine ⟨rfl, ?_⟩
      rcases l3 with e | ⟨_, ht⟩
      · omega
      · exact ht x (by omega) (by omega)
  rcases F3 x y hx with e | ⟨e1, e2⟩
  · rw [e]
    rcases hshown with ⟨l, h, hd⟩ | ⟨h, ht⟩
    · rw [h]
      exact showEqX_of_disp hd.fold hbig rfl rfl rfl rfl rfl
    · rw [h, foldBold_default]; exact showEqX_blank ht hdp (Or.inl rfl)
  · rw [e1]
    rcases hshown with ⟨l, h, hd⟩ | ⟨_, ht⟩
    · rw [e2] at h
      subst h
      exact showEqX_of_disp hd hbig rfl rfl rfl rfl rfl
    · exact showEqX_blank ht hdp (Or.inr rfl)

/-- the reader over the writer's bytes WITHOUT any split: what its final screen shows are the item rows -/
theorem ansi_unsplit (o : AnsiOpts) (skip : Option (List Nat)) (frows : List (List Nat)) (p : Pic) (sauce : Option Sauce) (hs : SauceFits sauce p)
    (hlh : o.longerTerminalOutput = true → p.rows.length ≤ 999)
    (hpal : PalBytes p.pal) (hfull : Pic.Full p) (hdom : p.AllCells (CellDomX o (decide (p.ice = .ice))))
    (hfonts : ∀ fr ∈ frows, ∀ f ∈ fr, f < ansiFonts) :
    ∃ (irows : List (List (Option Cell))) (Pf : List Rgb), RowsOkS o p.pal Pf p.w (effSkip o skip) 0 p.rows irows ∧ DosPre Pf ∧
      Pf.length ≤ 16 + 2 * p.w * p.rows.length ∧
      (run .ansi (initial .ansi sauce) (bytesOf (ansiEvsA o (skipFn skip) frows p) ++ ansiEnd p.ice)).core.stuck = false ∧
      (run .ansi (initial .ansi sauce) (bytesOf (ansiEvsA o (skipFn skip) frows p) ++ ansiEnd p.ice)).core.pal = Pf ∧
      (run .ansi (initial .ansi sauce) (bytesOf (ansiEvsA o (skipFn skip) frows p) ++ ansiEnd p.ice)).core.scr.w = p.w ∧
      ∀ x y, shownAt (run .ansi (initial .ansi sauce) (bytesOf (ansiEvsA o (skipFn skip) frows p) ++ ansiEnd p.ice)).core.scr.lines x y =
        itemsShown irows x y := by
  obtain ⟨H, i1, i2, i3, i4, i5, i6, hw1, hw2⟩ := initial_ansi sauce p hs
  have hpad : (p.rows.map fun r => r ++ List.replicate (p.w - r.length) defaultCell) = p.rows := by
    have : ∀ r ∈ p.rows, r ++ List.replicate (p.w - r.length) defaultCell = r := by
      intro r hr; rw [hfull r hr]; simp
    calc (p.rows.map fun r => r ++ List.replicate (p.w - r.length) defaultCell) = p.rows.map id :=
          List.map_congr_left this
      _ = p.rows := List.map_id _
  have hbytes : bytesOf (ansiEvsA o (skipFn skip) frows p) ++ ansiEnd p.ice = ansiPrep o p.ice ++
      bytesOf (genLinesEv o (skipFn skip) p.w p.rows.length (genCellsS o (skipFn skip) p.pal p.ice p.w p.rows 0 ansiState0) frows 0 true 0) ++ ansiEnd p.ice := by
    unfold ansiEvsA
    rw [bytesOf_append, bytesOf_prepEvs, hpad]
  obtain ⟨c1, c2⟩ := ansi_prep_core o p.ice (initial .ansi sauce).ansi (initial .ansi sauce).core i2 i3 (by rw [i1]; exact ⟨rfl, rfl, rfl⟩)
  have hpal1 : (ansiRun (initial .ansi sauce).ansi (initial .ansi sauce).core (ansiPrep o p.ice)).2.pal = dosPalette := by
    rw [c1]; split <;> exact initial_pal sauce
  have hcinv : CInvX (decide (p.ice = .ice)) (defaultAttr, dosPalette) p.w (ansiRun (initial .ansi sauce).ansi (initial .ansi sauce).core (ansiPrep o p.ice)).1
      (ansiRun (initial .ansi sauce).ansi (initial .ansi sauce).core (ansiPrep o p.ice)).2 := by
    refine ⟨?_, hpal1⟩
    rw [c1]
    by_cases him : p.ice = .ice
    · rw [if_pos him]
      exact ⟨i2, c2, by simp [him], i4, by show (initial .ansi sauce).core.scr.w = p.w; rw [i1]; rfl, i6⟩
    · rw [if_neg him]
      have hci : (initial .ansi sauce).core.caretIce = false := by
        cases hq : (initial .ansi sauce).core.caretIce with
        | false => rfl
        | true => exact absurd (i5 hq) him
      exact ⟨i2, c2, by simp [him, hci], i4, by rw [i1]; rfl, i6⟩
  have hscr1 : (ansiRun (initial .ansi sauce).ansi (initial .ansi sauce).core (ansiPrep o p.ice)).2.scr = freshScreen p.w H := by
    rw [c1]; split <;> exact i1
  have e0 : (freshScreen p.w H).w = p.w := rfl
  have h16 : (defaultAttr, dosPalette).2.length = 16 := by decide
  rw [hbytes, run_ansi_eq, ansiRun_append, ansiRun_append]
  cases hl : o.longerTerminalOutput with
  | false =>
    obtain ⟨irows, Rf, R1, Rp, Rl, R2, R3, Rpal, R4⟩ := rows_compF o (skipFn skip) p.pal hpal p.ice (decide (p.ice = .ice)) rfl p.w p.rows.length (by omega) (by omega) hl p.rows frows
      ansiState0 (defaultAttr, dosPalette) 0 true 0 _ _ hfull hdom (relX_initial _) hcinv (fun _ => by rw [hscr1]; rfl) (by omega) hfonts
    obtain ⟨e1, e2⟩ := ansi_end_core p.ice _ _ R3 R4
    have e3 := ansi_end_pal p.ice _ _ R3 R4
    have hes : effSkip o skip = fun _ => false := by funext y; simp [effSkip, hl]
    have hfits := R1.fits (by omega) hfull
    have hscr := e1
    rw [R2, hscr1] at hscr
    refine ⟨irows, Rf.2, by rw [hes]; exact R1, DosPre.mono dosPre_refl Rp, by rw [h16] at Rl; exact Rl, e2, by rw [e3, Rpal], ?_, ?_⟩
    · rw [hscr]
      have := picItems_w irows (freshScreen p.w H) rfl (by rw [e0]; omega) (by rw [e0]; omega) (by rw [e0]; exact hfits)
      rw [e0] at this; exact this
    · intro x y
      rw [hscr]
      have V := picItems_view irows (freshScreen p.w H) rfl (by rw [e0]; omega) (by rw [e0]; omega) (by rw [e0]; exact hfits)
      rw [e0] at V
      rw [V x y]
      unfold itemsShown
      have q1 : (freshScreen p.w H).cy = 0 := rfl
      have q2 : shownAt (freshScreen p.w H).lines x y = defaultCell := shownAt_nil x y
      rw [q1, q2]
      by_cases hc : y < irows.length ∧ x < (irows.getD y []).length
      · have hc' : 0 ≤ y ∧ y < 0 + irows.length ∧ x < (irows.getD (y - 0) []).length := by
          refine ⟨Nat.zero_le _, by omega, ?_⟩; simpa using hc.2
        rw [if_pos hc, if_pos hc']; simp
      · have hc' : ¬ (0 ≤ y ∧ y < 0 + irows.length ∧ x < (irows.getD (y - 0) []).length) := by
          intro ⟨_, h2, h3⟩; apply hc; exact ⟨by omega, by simpa using h3⟩
        rw [if_neg hc, if_neg hc']
  | true =>
    obtain ⟨irows, Rf, R1, Rp, Rl, R2, R3, Rpal, R4⟩ := rows_longerF o (skipFn skip) p.pal hpal p.ice (decide (p.ice = .ice)) rfl p.w p.rows.length (by omega) (by omega) (hlh hl) hl p.rows frows
      ansiState0 (defaultAttr, dosPalette) 0 true 0 _ _ hfull hdom (relX_initial _) hcinv (fun _ => rfl) (by omega) hfonts
    obtain ⟨e1, e2⟩ := ansi_end_core p.ice _ _ R3 R4
    have e3 := ansi_end_pal p.ice _ _ R3 R4
    have hes : effSkip o skip = skipFn skip := by funext y; simp [effSkip, hl]
    have hfits := R1.fits (by omega) hfull
    rw [hscr1] at R2
    refine ⟨irows, Rf.2, by rw [hes]; exact R1, DosPre.mono dosPre_refl Rp, by rw [h16] at Rl; exact Rl, e2, by rw [e3, Rpal], ?_, ?_⟩
    · rw [e1, R2.w, picItemsL_w]; rfl
    · intro x y
      rw [e1, R2.lines]
      have V := picItemsL_view irows 0 (freshScreen p.w H) (by rw [e0]; omega) (by rw [e0]; omega) (by rw [e0]; exact hfits)
      rw [V x y]
      unfold itemsShown
      have q2 : shownAt (freshScreen p.w H).lines x y = defaultCell := shownAt_nil x y
      rw [q2]
      by_cases hc : y < irows.length ∧ x < (irows.getD y []).length
      · have hc' : 0 ≤ y ∧ y < 0 + irows.length ∧ x < (irows.getD (y - 0) []).length := by
          refine ⟨Nat.zero_le _, by omega, ?_⟩; simpa using hc.2
        rw [if_pos hc, if_pos hc']; simp
      · have hc' : ¬ (0 ≤ y ∧ y < 0 + irows.length ∧ x < (irows.getD (y - 0) []).length) := by
          intro ⟨_, h2, h3⟩; apply hc; exact ⟨by omega, by simpa using h3⟩
        rw [if_neg hc, if_neg hc']

/-! ### the property theorems -/

/-- **the pieces handed to `push_result` are whole**: every chunk of the writer's events takes the parser from its ground
    state to its ground state (unless the reader left the modelled sub-language, on both sides alike) and keeps a reader
    that saw split sequences in step with one that saw none -/
theorem chunk_ok (o : AnsiOpts) (skip : Option (List Nat)) (frows : List (List Nat)) (p : Pic) (hw : 0 < p.w)
    (hd : ∀ r ∈ p.rows, ∀ c ∈ r, EncDom o c.ch) : ∀ k ∈ chunksOf (ansiEvs o (skipFn skip) frows p) [], ChunkOk k :=
  (ansi_chunks o (skipFn skip) frows p hw hd).1

/-- **`push_result` cannot panic**: whatever the line-length limit, `output.len() + result.len() - last_line_break` does not
    underflow on the writer's events -/
theorem push_no_underflow (o : AnsiOpts) (skip : Option (List Nat)) (frows : List (List Nat)) (p : Pic) (hw : 0 < p.w)
    (hd : ∀ r ∈ p.rows, ∀ c ∈ r, EncDom o c.ch) (max : Option Nat) :
    (WSt.run max {} (ansiEvs o (skipFn skip) frows p)).underflow = false :=
  (ansi_chunks o (skipFn skip) frows p hw hd).2.2 max

/-- **line splitting is invisible**: a reader that reads chunks with `ESC [ s CR LF ESC [ u` in front of ANY of them ends,
    compared with a reader of the bare chunks, with the same parser state, rendition, palette, caret and geometry, and with
    rows that show the same in every cell -/
theorem split_invisible (ks : List (List Nat)) (hk : ∀ k ∈ ks, ChunkOk k) (marks : List Bool) (p : AnsiP) (c : Core)
    (hg : p.st = .ground) (hin : c.scr.cx < c.scr.w) :
    SimR (ansiRun p c (joinMarked marks ks)).1 (ansiRun p c (joinMarked marks ks)).2 (ansiRun p c ks.flatten).1 (ansiRun p c ks.flatten).2 :=
  split_elim ks hk marks p p c c ⟨rfl, rfl, ⟨⟨rfl, rfl, rfl, rfl, LinesEq.refl _, hin⟩, rfl, rfl, rfl, rfl, rfl, rfl⟩⟩ (fun _ => hg)

theorem bomGuard_noBom (bytes : List Nat) : bomPrefixed (bomGuard bytes) = false := by
  unfold bomGuard bomPrefixed
  have h1 : ansiBomBytes = [239, 187, 191] := by decide
  have h2 : ansiBomGuard = [27, 91, 48, 109] := by decide
  rw [h1, h2]
  by_cases h : (bytes.take ([239, 187, 191] : List Nat).length == [239, 187, 191]) = true
  · rw [if_pos h]; rfl
  · rw [if_neg h]
    have : bytes.take 3 = bytes.take ([239, 187, 191] : List Nat).length := rfl
    rw [this]
    cases hq : (bytes.take ([239, 187, 191] : List Nat).length == [239, 187, 191]) with
    | true => exact absurd hq h
    | false => rfl

/-- the rendition reset the guard puts in front changes nothing for a reader that has not read anything yet -/
theorem run_bomGuard (sauce : Option Sauce) (bytes : List Nat) :
    run .ansi (initial .ansi sauce) (bomGuard bytes) = run .ansi (initial .ansi sauce) bytes := by
  unfold bomGuard
  split
  · have h2 : ansiBomGuard = csi [0] 109 := by decide
    have hst : (initial .ansi sauce).ansi.st = .ground := by cases sauce <;> rfl
    have hns : (initial .ansi sauce).core.stuck = false := by cases sauce <;> rfl
    have hat : (initial .ansi sauce).core.attr = defaultAttr := by cases sauce <;> rfl
    rw [run_ansi_eq, run_ansi_eq, h2, ansiRun_append, ansiRun_sgr0 _ _ hns hst]
    have e1 : ({ (initial .ansi sauce).ansi with st := .ground } : AnsiP) = (initial .ansi sauce).ansi := by
      cases sauce <;> rfl
    have e2 : sgr (initial .ansi sauce).core [0] = (initial .ansi sauce).core := by
      cases sauce <;> rfl
    rw [e1, e2]
  · rfl

/-- **C04, the whole writer** (`ansi_rt`): see the header.  `to_bytes` returns (no panic in `font_map`, no underflow in
    `push_result`) and the file loads back to a picture that shows every cell of every row that was written. -/
theorem ansi_rt (o : AnsiOpts) (max : Option Nat) (skip : Option (List Nat)) (fi : FontInfo) (p : Pic) (sauce : Option Sauce)
    (hs : SauceFits sauce p) (hlh : o.longerTerminalOutput = true → p.rows.length ≤ 999) (hrows : p.rows.length ≤ 1000000)
    (hpal : PalBytes p.pal) (hfull : Pic.Full p) (hdom : p.AllCells (CellDomX o (decide (p.ice = .ice)))) (hf : FontsOk fi) :
    ∃ bytes, writeAnsiX o max skip fi p = .ok bytes ∧ ShowsEqXS (load .ansi sauce bytes) p (effSkip o skip) := by
  obtain ⟨H, i1, i2, i3, i4, i5, i6, hw1, hw2⟩ := initial_ansi sauce p hs
  have henc : ∀ r ∈ p.rows, ∀ c ∈ r, EncDom o c.ch := fun r hr c hc => (hdom r hr c hc).2
  -- the writer returns
  obtain ⟨frows, hfr, hflt⟩ := fontRows_some fi hf
    (genCellsS o (skipFn skip) p.pal p.ice p.w (p.rows.map fun r => r ++ List.replicate (p.w - r.length) defaultCell) 0 ansiState0) 0
  obtain ⟨hck, hflat, hun⟩ := ansi_chunks o (skipFn skip) frows p (by omega) henc
  obtain ⟨marks, hout⟩ := run_out max (ansiEvs o (skipFn skip) frows p) {}
  have hwrite : writeAnsiX o max skip fi p = .ok (bomGuard (joinMarked marks (chunksOf (ansiEvs o (skipFn skip) frows p) []))) := by
    unfold writeAnsiX
    simp only [hfr]
    unfold runEvs
    simp only [hun max, Bool.false_eq_true, if_false]
    rw [hout]; rfl
  refine ⟨_, hwrite, ?_⟩
  -- the reader: no BOM, the guard's reset is a no-op, the splits are invisible
  have hload : load .ansi sauce (bomGuard (joinMarked marks (chunksOf (ansiEvs o (skipFn skip) frows p) []))) =
      finish .ansi (run .ansi (initial .ansi sauce) (joinMarked marks (chunksOf (ansiEvs o (skipFn skip) frows p) []))) := by
    unfold load; rw [if_neg (by decide), convertText_of_noBom (bomGuard_noBom _)]; simp only []; rw [run_bomGuard]
  rw [hload]
  have hin : (initial .ansi sauce).core.scr.cx < (initial .ansi sauce).core.scr.w := by rw [i1]; show 0 < p.w; omega
  have S := split_invisible _ hck marks (initial .ansi sauce).ansi (initial .ansi sauce).core i3 hin
  rw [hflat] at S
  obtain ⟨irows, Pf, R1, hdp, hlen, U1, U2, U3, U4⟩ := ansi_unsplit o skip frows p sauce hs hlh hpal hfull hdom hflt
  rw [run_ansi_eq] at U1 U2 U3 U4
  have hbig : Pf.length ≤ 2147483648 := by
    have h1 : 2 * p.w * p.rows.length ≤ 2 * 132 * 1000000 := Nat.mul_le_mul (Nat.mul_le_mul_left 2 hw2) hrows
    omega
  apply shows_of_items o p (effSkip o skip) _ irows Pf hw1 hfull R1 hdp hbig
  · rw [run_ansi_eq]; show (ansiRun _ _ _).2.stuck = false
    rw [S.core.stuck]; exact U1
  · rw [run_ansi_eq]; show (ansiRun _ _ _).2.pal = Pf
    rw [S.core.pal]; exact U2
  · rw [run_ansi_eq]; show (ansiRun _ _ _).2.scr.w = p.w
    rw [S.core.scr.w]; exact U3
  · intro x y
    rw [run_ansi_eq]; show shownAt (ansiRun _ _ _).2.scr.lines x y = _
    rw [S.core.scr.lines x y]; exact U4 x y

/-! ### non-vacuity -/

/-- `FontsOk` from a finite check: page 0 (cells without an entry) and every page that occurs -/
theorem fontsOk_of_all (fi : FontInfo) (h : ∀ pg ∈ 0 :: fi.pages.flatten, ∃ n, fontMap fi.slots pg = some n ∧ n < ansiFonts) : FontsOk fi := by
  intro y x
  apply h
  rw [List.getD_eq_getElem?_getD]
  cases hx : (fi.pages.getD y [])[x]? with
  | none => exact List.mem_cons_self
  | some v =>
    refine List.mem_cons_of_mem _ (List.mem_flatten.2 ⟨fi.pages.getD y [], ?_, List.mem_of_getElem? hx⟩)
    rw [List.getD_eq_getElem?_getD]
    cases hy : fi.pages[y]? with
    | none => rw [List.getD_eq_getElem?_getD, hy] at hx; simp at hx
    | some r => exact List.mem_of_getElem? hy

/-- fonts for `xPic`: slot 0 holds ANSI font 0, slot 1 a font equal to ANSI font 5, slot 2 a font that is no ANSI font
    (it is written as its slot number); the cells of the row use pages 0, 1, 1, 2, 2, 0, 0, … -/
def xFonts : FontInfo := { slots := [(0, some 0), (1, some 5), (2, none)], pages := [[0, 1, 1, 2, 2]] }

/-- `ansi_rt` applies to `xPic` (custom base palette, xterm-256 and RGB colours, blink on a bright background) with a line
    length of 10 bytes, longer-terminal positioning with row 1 of a two-row version left out, and three font pages -/
def xPic2 : Pic := { xPic with rows := [xRow, xRow, xRow] }

example : SauceFits none xPic2 ∧ (({ longerTerminalOutput := true } : AnsiOpts).longerTerminalOutput = true → xPic2.rows.length ≤ 999) ∧
    xPic2.rows.length ≤ 1000000 ∧ PalBytes xPic2.pal ∧ Pic.Full xPic2 ∧
    xPic2.AllCells (CellDomX { longerTerminalOutput := true } (decide (xPic2.ice = .ice))) ∧ FontsOk xFonts ∧
    effSkip { longerTerminalOutput := true } (some [1]) 1 = true ∧ effSkip { longerTerminalOutput := true } (some [1]) 2 = false := by
  refine ⟨Or.inl ⟨rfl, rfl⟩, fun _ => by decide, by decide, ?_, ?_, ?_, ?_, rfl, rfl⟩
  · unfold PalBytes; decide +kernel
  · unfold Pic.Full; decide +kernel
  · simp only [Pic.AllCells, CellDomX, AttrX, EncDom, AnsiPrintable]; decide +kernel
  · apply fontsOk_of_all; decide +kernel

/-- what the model writes for it with `output_line_length = Some(10)`: the very first push is already "too long"
    (`0 + 8 - 0 > 10` is false for `ESC[0m ESC[1H` … the second one is not), the font switch `ESC[0;5 D` appears, row 1 is
    absent (`ESC[2H` does not occur), and the file loads back to the colours of rows 0 and 2 -/
def xBytes : List Nat :=
  match writeAnsiX { longerTerminalOutput := true } (some 10) (some [1]) xFonts xPic2 with
  | .ok b => b
  | _ => []

example : writeAnsiX { longerTerminalOutput := true } (some 10) (some [1]) xFonts xPic2 = .ok xBytes ∧
    xBytes.take 8 = [27, 91, 48, 109, 27, 91, 49, 72] ∧
    (xBytes.drop 8).take 8 = [27, 91, 115, 13, 10, 27, 91, 117] ∧
    ([27, 91, 48, 59, 53, 32, 68] : List Nat) <:+: xBytes ∧ ¬ (([27, 91, 50, 72] : List Nat) <:+: xBytes) ∧
    ([27, 91, 51, 72] : List Nat) <:+: xBytes ∧
    getRgb (load .ansi none xBytes).pal (dispFg ((load .ansi none xBytes).cellAt 3 2).attr) = (1, 2, 3) ∧
    ((load .ansi none xBytes).cellAt 2 0).attr.fl.blink = true := by
  refine ⟨?_, ?_, ?_, ?_, ?_, ?_, ?_, ?_⟩ <;> decide +kernel

/-- a font page without a font in the buffer makes `generate_cells` panic (`unwrap` on `None`): explicit outcome -/
example : writeAnsiX {} none none { slots := [(0, some 0)], pages := [[0, 3]] } xPic = .panic := by decide +kernel

/-- the guard: the picture of the former finding is now written with a rendition reset in front and comes back intact -/
example : writeAnsiX {} none none {} bomPic = .ok ([27, 91, 48, 109, 239, 187, 191]) ∧
    (load .ansi none [27, 91, 48, 109, 239, 187, 191]).cellAt 0 0 = ⟨239, defaultAttr⟩ ∧
    (load .ansi none [27, 91, 48, 109, 239, 187, 191]).cellAt 2 0 = ⟨191, defaultAttr⟩ := by
  refine ⟨?_, ?_, ?_⟩ <;> decide +kernel

/-- `split_invisible` / `chunk_ok` / `push_no_underflow` are applicable: the chunks of `xPic2`'s events, a reader in its
    ground state with the caret inside the row -/
example : (0 < xPic2.w) ∧ (∀ r ∈ xPic2.rows, ∀ c ∈ r, EncDom ({} : AnsiOpts) c.ch) ∧
    (chunksOf (ansiEvs {} (skipFn none) [] xPic2) []).length = 30 ∧
    (initial .ansi none).ansi.st = .ground ∧ (initial .ansi none).core.scr.cx < (initial .ansi none).core.scr.w := by
  refine ⟨by decide, ?_, ?_, rfl, by decide⟩
  · simp only [EncDom, AnsiPrintable]; decide +kernel
  · decide +kernel

/-- the constants the model takes from the source are the ones the proofs speak about -/
example : splitSeq = [27, 91, 115, 13, 10, 27, 91, 117] ∧ ansiBomBytes = loaderBomBytes ∧ ansiBomGuard = csi [0] 109 ∧
    ansiFontUploadMin = 100 ∧ fontSeq 5 = [27, 91, 48, 59, 53, 32, 68] := by
  refine ⟨?_, ?_, ?_, ?_, ?_⟩ <;> decide

end IcyVerif.C04
