import IcyVerif.Lemmas.PaletteIdx
import IcyVerif.Lemmas.PaletteSix
import IcyVerif.Lemmas.PaletteFiles
/-! # C16 — palette indices are stable, palette files round-trip, the 6-bit VGA codec is idempotent
Only property theorems and non-vacuity examples live here.  Palettes are arbitrary lists (any length), histories are
arbitrary lists of operations, metadata are arbitrary strings (lists of code points). -/
namespace IcyVerif.C16
open IcyVerif.Palette IcyVerif.Gen.Palette

/-! ## indices -/

/-- adding a colour returns an index that resolves to exactly that colour (`p.length < 2^31`: indices with bit 31
    set mean "RGB encoded in the index" for `get_rgb`; such a palette would need 64 GiB) -/
theorem insert_resolves (p : List Rgb) (c : Rgb) (hlen : p.length < 2147483648) :
    getRgb (insertColor p c).1 (insertColor p c).2 = c := by
  have hlt := insertColor_idx_lt p c
  have hle : (insertColor p c).2 ≤ p.length := by
    unfold insertColor; split
    · simp only []; omega
    · exact Nat.le_refl _
  rw [getRgb_of_lt _ _ (by omega)]
  exact insertColor_getD p c

/-- … and leaves every previously valid index resolving to its previous value -/
theorem insert_stable (p : List Rgb) (c : Rgb) (i : Nat) (hi : i < p.length) :
    getRgb (insertColor p c).1 i = getRgb p i :=
  getRgb_congr _ _ i (insertColor_getD_lt p c i hi)

/-- adding a colour that is already present returns its existing (first) index and changes nothing -/
theorem insert_existing (p : List Rgb) (c : Rgb) (h : c ∈ p) :
    insertColor p c = (p, firstIdx c p) ∧ firstIdx c p < p.length ∧ p.getD (firstIdx c p) black = c ∧
      ∀ j, j < firstIdx c p → p.getD j black ≠ c :=
  ⟨insertColor_mem p c h, (firstIdx_lt_iff c p).mpr h, getD_firstIdx c p black ((firstIdx_lt_iff c p).mpr h),
    fun j hj => firstIdx_first c p black j hj⟩

/-- a new colour goes to the end -/
theorem insert_new (p : List Rgb) (c : Rgb) (h : c ∉ p) : insertColor p c = (p ++ [c], p.length) :=
  insertColor_not_mem p c h

example : insertColor [⟨1, 2, 3⟩, ⟨9, 9, 9⟩, ⟨1, 2, 3⟩] ⟨1, 2, 3⟩ = ([⟨1, 2, 3⟩, ⟨9, 9, 9⟩, ⟨1, 2, 3⟩], 0) := by decide
example : insertColor [⟨1, 2, 3⟩, ⟨9, 9, 9⟩] ⟨4, 5, 6⟩ = ([⟨1, 2, 3⟩, ⟨9, 9, 9⟩, ⟨4, 5, 6⟩], 2) := by decide

/-- `set_color` resolves at its index (growing the palette with black if needed) and nowhere else -/
theorem set_resolves (p : List Rgb) (i : Nat) (c : Rgb) (hi : i < 2147483648) : getRgb (setColor p i c) i = c := by
  rw [getRgb_of_lt _ _ hi]; exact setColor_getD_self p i c

theorem set_stable (p : List Rgb) (i j : Nat) (c : Rgb) (h : j ≠ i) : getRgb (setColor p i c) j = getRgb p j :=
  getRgb_congr _ _ j (setColor_getD_ne p i j c h)

/-- HISTORIES: along every sequence of insert / set / lookup / push operations, an index that was valid keeps
    resolving to the same colour for as long as no `set_color` of that very index occurs -/
theorem history_stable (p : List Rgb) (ops : List Op) (i : Nat) (hi : i < p.length)
    (h : ∀ op ∈ ops, ¬ op.touches i) : getRgb (runOps p ops) i = getRgb p i :=
  getRgb_congr _ _ i (runOps_getD ops p i hi h).1

/-- … in particular the index returned by an insert keeps resolving to the inserted colour through every later
    history that does not overwrite it (cells store these indices) -/
theorem inserted_index_survives (p : List Rgb) (c : Rgb) (ops : List Op) (hlen : p.length < 2147483648)
    (h : ∀ op ∈ ops, ¬ op.touches (insertColor p c).2) :
    getRgb (runOps (insertColor p c).1 ops) (insertColor p c).2 = c := by
  rw [history_stable _ ops _ (insertColor_idx_lt p c) h]
  exact insert_resolves p c hlen

/-- the model's trace (what the driver prints) ends in the same palette as `runOps` -/
theorem trace_final (p : List Rgb) (ops : List Op) : (trace p ops).2 = runOps p ops := trace_snd p ops

example : (trace [] [.insert ⟨1, 2, 3⟩, .set 3 ⟨7, 7, 7⟩, .insert ⟨0, 0, 0⟩, .lookup 0, .insert ⟨7, 7, 7⟩]).1 =
    [.idx 0, .idx 1, .rgb ⟨1, 2, 3⟩, .idx 3] := by decide
example : ¬ (Op.insert ⟨1, 2, 3⟩).touches 0 ∧ (Op.set 0 ⟨1, 2, 3⟩).touches 0 := ⟨fun h => h, rfl⟩

/-! ## 6-bit VGA codec -/

/-- all 64 six-bit values, each channel (with the channel's own shifts from the source): `(c<<2 | c>>4) >> 2 = c` -/
theorem six_bit (k : Nat) (hk : k < 3) (v : Nat) (hv : v < 64) : chanDown k (chanUp k v) = v := six_chan k hk v hv

/-- `as_vec_63(from_63(bs)) = bs` for EVERY list of 6-bit values on which `from_63` does not panic -/
theorem asVec63_from63_eq (bs : List Nat) (p : List Rgb) (h : from63 bs = .ok p) (hb : ∀ b ∈ bs, b < 64) :
    asVec63 p = bs := asVec63_from63 bs p h hb

/-- `from_63` succeeds exactly on whole triples; a ragged tail is the index panic -/
theorem from63_whole_triples (bs : List Nat) :
    (bs.length % 3 = 0 → ∃ p, from63 bs = .ok p ∧ 3 * p.length = bs.length) ∧
    (bs.length % 3 ≠ 0 → from63 bs = .error "palette_handling.rs::from_63") := from63_total bs.length bs rfl

/-- IDEMPOTENCE: storing any 8-bit palette as 6-bit and loading it (`from_63 ∘ as_vec_63`) is a quantisation `Q`;
    doing it again changes nothing -/
theorem six_bit_idempotent (p : List Rgb) (hv : ∀ c ∈ p, c.Valid) :
    ∃ q, from63 (asVec63 p) = .ok q ∧ from63 (asVec63 q) = .ok q := by
  refine ⟨p.map fun c => up6 (down6 c), from63_asVec63 p, ?_⟩
  rw [from63_asVec63, List.map_map]
  congr 1
  apply List.map_congr_left
  intro c hc
  simp only [Function.comp]
  rw [down6_up6 _ (down6_lt c (hv c hc))]

/-- ADF / EGA slots: a palette loaded with `from_ega_data` from 6-bit data, saved with `to_ega_data` and loaded
    again is the same palette -/
theorem ega_roundtrip (d : List Nat) (p : List Rgb) (hd : ∀ x ∈ d, x < 64) (h : fromEga d = .ok p) :
    fromEga (toEga p) = .ok p := ega_rt' d p hd h

/-- … and a palette of at least 16 `u8` colours saved, loaded and saved again gives the same 192 bytes -/
theorem ega_save_idempotent (p : List Rgb) (hv : ∀ c ∈ p, c.Valid) (hl : 16 ≤ p.length) :
    ∃ q, fromEga (toEga p) = .ok q ∧ toEga q = toEga p := ega_save_idem p hv hl

example : from63 [63, 0, 21, 1, 2, 3] = .ok [⟨255, 0, 85⟩, ⟨4, 8, 12⟩] := rfl
example : from63 [63, 0, 21, 1] = .error "palette_handling.rs::from_63" := rfl
example : asVec63 [⟨255, 0, 85⟩, ⟨4, 8, 12⟩] = [63, 0, 21, 1, 2, 3] := by decide
example : ∃ p, fromEga (List.replicate 192 21) = .ok p ∧ p.length = 16 := ⟨_, rfl, rfl⟩

/-! ## palette files -/

/-- EXPORT → IMPORT, all five formats, FULL strength: any title / author / description / colour names (any code
    points, including line breaks, digits, hex digits, comment characters), any number of `u8` colours: the
    imported palette has the same RGB sequence.  (Holds for the tree with the two `fix:` commits; on the pinned
    tree false, see `pinned_gpl_empty_description` and `unflattened_multiline_injects`.) -/
theorem export_import (f : Fmt) (p : Pal) (hv : p.ValidColors) :
    ∃ q, importM f (exportM f p) = some q ∧ q.rgbs = p.rgbs := by
  obtain ⟨q, h1, h2⟩ := import_exportLines f p.flatten (flatten_clean p) (flatten_valid p hv)
  exact ⟨q, h1, h2.trans (flatten_rgbs p)⟩

/-- non-vacuity: a palette with multi-line, digit- and hex-laden metadata and a named colour -/
def demo : Pal :=
  ⟨[120, 10, 49, 32, 50, 32, 51, 32, 121], [], [97, 97, 98, 98, 99, 99, 10, 70, 70, 48, 49, 48, 50, 48, 51],
   [⟨none, ⟨1, 22, 133⟩⟩, ⟨some [110, 10, 52, 32, 53, 32, 54, 32, 122], ⟨0, 0, 0⟩⟩, ⟨none, ⟨255, 254, 9⟩⟩]⟩
theorem demo_valid : demo.ValidColors := by
  unfold Pal.ValidColors Rgb.Valid; decide
example : (importM .gpl (exportM .gpl demo)).map Pal.rgbs = some demo.rgbs := by decide +kernel
example : (importM .ice (exportM .ice demo)).map Pal.rgbs = some demo.rgbs := by decide +kernel
example : (importM .txt (exportM .txt demo)).map Pal.rgbs = some demo.rgbs := by decide +kernel
example : (importM .pal (exportM .pal demo)).map Pal.rgbs = some demo.rgbs := by decide +kernel
example : (importM .hex (exportM .hex demo)).map Pal.rgbs = some demo.rgbs := by decide +kernel

/-- why `export_palette` must flatten: writing `demo` through `export_lines` directly (as the pinned tree did)
    lets the second line of its title come back as a colour -/
theorem unflattened_multiline_injects : (importM .gpl (exportLines .gpl demo)).map Pal.rgbs ≠ some demo.rgbs := by
  decide +kernel

/-- the GPL colour-line tail of the pinned tree (cdb5b60), `\s+(.+)`: at least one blank, then at least one more
    character (possibly a blank given back by the greedy `\s+`) -/
def pinnedGplTail (rest : List Nat) : Bool :=
  !(rest.takeWhile isWs).isEmpty && (!(rest.dropWhile isWs).isEmpty || 2 ≤ (rest.takeWhile isWs).length)

/-- THE GPL DEFECT OF THE PINNED TREE: every colour line written for an empty description (`"  1  22 133 "`) fails
    the pinned tail, so the pinned importer skipped all colours; the repaired tail `\s*(.*)` accepts any rest -/
theorem pinned_gpl_empty_description (c : Rgb) (h : c.Valid) :
    ∃ t, findFirst rgbAt (gplLine c []) = some (t, [32]) ∧ pinnedGplTail [32] = false :=
  ⟨_, findFirst_gplLine c [] h, by decide⟩

end IcyVerif.C16
