import IcyVerif.Lemmas.PaletteIdx
import IcyVerif.Lemmas.PaletteSix
import IcyVerif.Lemmas.PaletteFiles
import IcyVerif.Lemmas.PaletteStream
import IcyVerif.Lemmas.PaletteBridge
/-! # C16 — palette indices are stable, palette files round-trip, the 6-bit VGA codec is idempotent
Only property theorems and non-vacuity examples live here.  Palettes are arbitrary lists (any length), histories are
arbitrary lists of operations, metadata are arbitrary strings (lists of code points). -/
namespace IcyVerif.C16
open IcyVerif.Palette IcyVerif.Gen.Palette

/-! ## indices -/

/-- adding a colour returns an index that resolves to exactly that colour (`p.length < 2^31`: indices with bit 31
    set mean "RGB encoded in the index" for `get_rgb`; such a palette would need 64 GiB) -/
theorem insert_resolves (p : List Rgb) (c : Rgb) (hlen : p.length < 2147483648) :
    getRgb (insertColor p c).1 (insertColor p c).2 = c := by
  have hlt := insertColor_idx_lt p c
  have hle : (insertColor p c).2 ≤ p.length := by
    unfold insertColor; split
    · simp only []; omega
    · exact Nat.le_refl _
  rw [getRgb_of_lt _ _ (by omega)]
  exact insertColor_getD p c

/-- … and leaves every previously valid index resolving to its previous value -/
theorem insert_stable (p : List Rgb) (c : Rgb) (i : Nat) (hi : i < p.length) :
    getRgb (insertColor p c).1 i = getRgb p i :=
  getRgb_congr _ _ i (insertColor_getD_lt p c i hi)

/-- adding a colour that is already present returns its existing (first) index and changes nothing -/
theorem insert_existing (p : List Rgb) (c : Rgb) (h : c ∈ p) :
    insertColor p c = (p, firstIdx c p) ∧ firstIdx c p < p.length ∧ p.getD (firstIdx c p) black = c ∧
      ∀ j, j < firstIdx c p → p.getD j black ≠ c :=
  ⟨insertColor_mem p c h, (firstIdx_lt_iff c p).mpr h, getD_firstIdx c p black ((firstIdx_lt_iff c p).mpr h),
    fun j hj => firstIdx_first c p black j hj⟩

/-- a new colour goes to the end -/
theorem insert_new (p : List Rgb) (c : Rgb) (h : c ∉ p) : insertColor p c = (p ++ [c], p.length) :=
  insertColor_not_mem p c h

example : insertColor [⟨1, 2, 3⟩, ⟨9, 9, 9⟩, ⟨1, 2, 3⟩] ⟨1, 2, 3⟩ = ([⟨1, 2, 3⟩, ⟨9, 9, 9⟩, ⟨1, 2, 3⟩], 0) := by decide
example : insertColor [⟨1, 2, 3⟩, ⟨9, 9, 9⟩] ⟨4, 5, 6⟩ = ([⟨1, 2, 3⟩, ⟨9, 9, 9⟩, ⟨4, 5, 6⟩], 2) := by decide

/-- `set_color` resolves at its index (growing the palette with black if needed) and nowhere else -/
theorem set_resolves (p : List Rgb) (i : Nat) (c : Rgb) (hi : i < 2147483648) : getRgb (setColor p i c) i = c := by
  rw [getRgb_of_lt _ _ hi]; exact setColor_getD_self p i c

theorem set_stable (p : List Rgb) (i j : Nat) (c : Rgb) (h : j ≠ i) : getRgb (setColor p i c) j = getRgb p j :=
  getRgb_congr _ _ j (setColor_getD_ne p i j c h)

/-- HISTORIES: along every sequence of insert / set / lookup / push operations, an index that was valid keeps
    resolving to the same colour for as long as no `set_color` of that very index occurs -/
theorem history_stable (p : List Rgb) (ops : List Op) (i : Nat) (hi : i < p.length)
    (h : ∀ op ∈ ops, ¬ op.touches i) : getRgb (runOps p ops) i = getRgb p i :=
  getRgb_congr _ _ i (runOps_getD ops p i hi h).1

/-- … in particular the index returned by an insert keeps resolving to the inserted colour through every later
    history that does not overwrite it (cells store these indices) -/
theorem inserted_index_survives (p : List Rgb) (c : Rgb) (ops : List Op) (hlen : p.length < 2147483648)
    (h : ∀ op ∈ ops, ¬ op.touches (insertColor p c).2) :
    getRgb (runOps (insertColor p c).1 ops) (insertColor p c).2 = c := by
  rw [history_stable _ ops _ (insertColor_idx_lt p c) h]
  exact insert_resolves p c hlen

/-- the model's trace (what the driver prints) ends in the same palette as `runOps` -/
theorem trace_final (p : List Rgb) (ops : List Op) : (trace p ops).2 = runOps p ops := trace_snd p ops

example : (trace [] [.insert ⟨1, 2, 3⟩, .set 3 ⟨7, 7, 7⟩, .insert ⟨0, 0, 0⟩, .lookup 0, .insert ⟨7, 7, 7⟩]).1 =
    [.idx 0, .idx 1, .rgb ⟨1, 2, 3⟩, .idx 3] := by decide
example : ¬ (Op.insert ⟨1, 2, 3⟩).touches 0 ∧ (Op.set 0 ⟨1, 2, 3⟩).touches 0 := ⟨fun h => h, rfl⟩

/-! ## 6-bit VGA codec -/

/-- all 64 six-bit values, each channel (with the channel's own shifts from the source): `(c<<2 | c>>4) >> 2 = c` -/
theorem six_bit (k : Nat) (hk : k < 3) (v : Nat) (hv : v < 64) : chanDown k (chanUp k v) = v := six_chan k hk v hv

/-- `as_vec_63(from_63(bs)) = bs` for EVERY list of 6-bit values on which `from_63` does not panic -/
theorem asVec63_from63_eq (bs : List Nat) (p : List Rgb) (h : from63 bs = .ok p) (hb : ∀ b ∈ bs, b < 64) :
    asVec63 p = bs := asVec63_from63 bs p h hb

/-- `from_63` succeeds exactly on whole triples; a ragged tail is the index panic -/
theorem from63_whole_triples (bs : List Nat) :
    (bs.length % 3 = 0 → ∃ p, from63 bs = .ok p ∧ 3 * p.length = bs.length) ∧
    (bs.length % 3 ≠ 0 → from63 bs = .error "palette_handling.rs::from_63") := from63_total bs.length bs rfl

/-- IDEMPOTENCE: storing any 8-bit palette as 6-bit and loading it (`from_63 ∘ as_vec_63`) is a quantisation `Q`;
    doing it again changes nothing -/
theorem six_bit_idempotent (p : List Rgb) (hv : ∀ c ∈ p, c.Valid) :
    ∃ q, from63 (asVec63 p) = .ok q ∧ from63 (asVec63 q) = .ok q := by
  refine ⟨p.map fun c => up6 (down6 c), from63_asVec63 p, ?_⟩
  rw [from63_asVec63, List.map_map]
  congr 1
  apply List.map_congr_left
  intro c hc
  simp only [Function.comp]
  rw [down6_up6 _ (down6_lt c (hv c hc))]

/-- ADF / EGA slots: a palette loaded with `from_ega_data` from 6-bit data, saved with `to_ega_data` and loaded
    again is the same palette -/
theorem ega_roundtrip (d : List Nat) (p : List Rgb) (hd : ∀ x ∈ d, x < 64) (h : fromEga d = .ok p) :
    fromEga (toEga p) = .ok p := ega_rt' d p hd h

/-- … and a palette of at least 16 `u8` colours saved, loaded and saved again gives the same 192 bytes -/
theorem ega_save_idempotent (p : List Rgb) (hv : ∀ c ∈ p, c.Valid) (hl : 16 ≤ p.length) :
    ∃ q, fromEga (toEga p) = .ok q ∧ toEga q = toEga p := ega_save_idem p hv hl

example : from63 [63, 0, 21, 1, 2, 3] = .ok [⟨255, 0, 85⟩, ⟨4, 8, 12⟩] := rfl
example : from63 [63, 0, 21, 1] = .error "palette_handling.rs::from_63" := rfl
example : asVec63 [⟨255, 0, 85⟩, ⟨4, 8, 12⟩] = [63, 0, 21, 1, 2, 3] := by decide
example : ∃ p, fromEga (List.replicate 192 21) = .ok p ∧ p.length = 16 := ⟨_, rfl, rfl⟩

/-! ## palette files -/

/-- EXPORT → IMPORT, all five formats, FULL strength: any title / author / description / colour names (any code
    points, including line breaks, digits, hex digits, comment characters), any number of `u8` colours: the
    imported palette has the same RGB sequence.  (Holds for the tree with the two `fix:` commits; on the pinned
    tree false, see `pinned_gpl_empty_description` and `unflattened_multiline_injects`.) -/
theorem export_import (f : Fmt) (p : Pal) (hv : p.ValidColors) :
    ∃ q, importM f (exportM f p) = some q ∧ q.rgbs = p.rgbs := by
  obtain ⟨q, h1, h2⟩ := import_exportLines f p.flatten (flatten_clean p) (flatten_valid p hv)
  exact ⟨q, h1, h2.trans (flatten_rgbs p)⟩

/-- non-vacuity: a palette with multi-line, digit- and hex-laden metadata and a named colour -/
def demo : Pal :=
  ⟨[120, 10, 49, 32, 50, 32, 51, 32, 121], [], [97, 97, 98, 98, 99, 99, 10, 70, 70, 48, 49, 48, 50, 48, 51],
   [⟨none, ⟨1, 22, 133⟩⟩, ⟨some [110, 10, 52, 32, 53, 32, 54, 32, 122], ⟨0, 0, 0⟩⟩, ⟨none, ⟨255, 254, 9⟩⟩]⟩
theorem demo_valid : demo.ValidColors := by
  unfold Pal.ValidColors Rgb.Valid; decide
example : (importM .gpl (exportM .gpl demo)).map Pal.rgbs = some demo.rgbs := by decide +kernel
example : (importM .ice (exportM .ice demo)).map Pal.rgbs = some demo.rgbs := by decide +kernel
example : (importM .txt (exportM .txt demo)).map Pal.rgbs = some demo.rgbs := by decide +kernel
example : (importM .pal (exportM .pal demo)).map Pal.rgbs = some demo.rgbs := by decide +kernel
example : (importM .hex (exportM .hex demo)).map Pal.rgbs = some demo.rgbs := by decide +kernel

/-- `import_palette` (dispatch on the file extension, any letter case folded by `to_ascii_lowercase`) reads back what
    `export_palette` wrote, for every extension it knows (pal, gpl, txt, hex; there is none for the ICE format) -/
theorem import_by_extension (p : Pal) (hv : p.ValidColors) :
    ∀ e ∈ importExts, ∃ f q, fmtOfNum e.2 = some f ∧ importByExt e.1 (exportM f p) = some q ∧ q.rgbs = p.rgbs := by
  intro e he
  simp only [importExts, List.mem_cons, List.not_mem_nil, or_false] at he
  rcases he with rfl | rfl | rfl | rfl
  · obtain ⟨q, h1, h2⟩ := export_import .pal p hv; exact ⟨.pal, q, rfl, h1, h2⟩
  · obtain ⟨q, h1, h2⟩ := export_import .gpl p hv; exact ⟨.gpl, q, rfl, h1, h2⟩
  · obtain ⟨q, h1, h2⟩ := export_import .txt p hv; exact ⟨.txt, q, rfl, h1, h2⟩
  · obtain ⟨q, h1, h2⟩ := export_import .hex p hv; exact ⟨.hex, q, rfl, h1, h2⟩

example : importByExt [80, 65, 76] (exportM .pal demo) = importM .pal (exportM .pal demo) := rfl
example : importByExt [105, 99, 101] (exportM .ice demo) = none := rfl

/-- `Color::from_hex(c.to_hex()) = c` -/
theorem color_hex_roundtrip (c : Rgb) (h : c.Valid) : colorFromHex (colorToHex c) = some c := by
  have e : colorToHex c = 35 :: (hex6 c ++ []) := by simp [colorToHex, hex6]
  rw [e, colorFromHex, findFirst]
  have h35 : hexRun 6 (35 :: (hex6 c ++ [])) = none := by simp [hexRun, isHex]
  rw [h35]
  obtain ⟨x, t, hx, _, _⟩ := hex6_head c
  have hr := hex6_run c []
  simp only [hx, List.cons_append] at hr ⊢
  rw [findFirst, hr]
  simp only [Option.map_some, ← hx]
  rw [rgbOfHex6_hex6 c h]

/-- why `export_palette` must flatten: writing `demo` through `export_lines` directly (as the pinned tree did)
    lets the second line of its title come back as a colour -/
theorem unflattened_multiline_injects : (importM .gpl (exportLines .gpl demo)).map Pal.rgbs ≠ some demo.rgbs := by
  decide +kernel

/-- the GPL colour-line tail of the pinned tree (cdb5b60), `\s+(.+)`: at least one blank, then at least one more
    character (possibly a blank given back by the greedy `\s+`) -/
def pinnedGplTail (rest : List Nat) : Bool :=
  !(rest.takeWhile isWs).isEmpty && (!(rest.dropWhile isWs).isEmpty || 2 ≤ (rest.takeWhile isWs).length)

/-- THE GPL DEFECT OF THE PINNED TREE: every colour line written for an empty description (`"  1  22 133 "`) fails
    the pinned tail, so the pinned importer skipped all colours; the repaired tail `\s*(.*)` accepts any rest -/
theorem pinned_gpl_empty_description (c : Rgb) (h : c.Valid) :
    ∃ t, findFirst rgbAt (gplLine c []) = some (t, [32]) ∧ pinnedGplTail [32] = false :=
  ⟨_, findFirst_gplLine c [] h, by decide⟩

/-! ## palette blocks inside whole files (XBin, IDF): the functions of the whole-file model of C05 -/

/-- load → save → load of an XBin / IDF palette block gives the same palette, for EVERY block of bytes (values above
    63 included: the decoder drops the two high bits, the quantisation is a fixed point after one step) -/
theorem file_block_idempotent (bs : List Nat) (hb : ∀ b ∈ bs, b < 256) :
    BinFormats.from63 (BinFormats.asVec63 (BinFormats.from63 bs)) = BinFormats.from63 bs :=
  PaletteBridge.from63_asVec63_from63 bs hb

/-- save → load → save of a 6-bit block gives the same bytes (all 64 values of every channel) -/
theorem file_block_six_bit (bs : List Nat) (hb : ∀ b ∈ bs, b < 64) (h3 : bs.length % 3 = 0) :
    BinFormats.asVec63 (BinFormats.from63 bs) = bs := PaletteBridge.asVec63_from63_six bs hb h3

/-- the decoder of the whole-file model IS `from63` of this property's model -/
theorem file_decoder_is_from63 (bs : List Nat) (h3 : bs.length % 3 = 0) :
    from63 bs = .ok ((BinFormats.from63 bs).map PaletteBridge.toC16) := PaletteBridge.from63_bridge bs h3

example : BinFormats.from63 [39, 64, 255] = [(158, 4, 255)] := by decide
example : BinFormats.asVec63 (BinFormats.from63 [39, 64, 255]) = [39, 1, 63] := by decide

/-! ## the call sites: byte streams (ANSI SGR / `CSI … t` / OSC 4) and Tundra colour records

State = (palette, caret foreground index, caret background index); a byte stream is decoded into operations
(`Model/PalStream.lean`).  All statements are for EVERY state / EVERY history of operations. -/
section stream
open IcyVerif.PalStream IcyVerif.Gen.PalStream

/-- THE INVARIANT over all histories: whenever the caret's foreground (background) was last selected BY COLOUR `c`
    (38;5;n, 38;2;r;g;b, `CSI 1;r;g;b t`, a Tundra colour record) and the entry it was given has not been redefined by
    OSC 4 since, the index the caret holds lies inside the palette and resolves to exactly `c` -/
theorem tracked_resolves (s : St) (ops : List PalStream.Op) : Good (run s ops) (trackRun s Want.none ops) :=
  good_run ops s Want.none (good_none s)

/-- SELECT RESOLVES: after any history, a colour-selecting operation hands out an index that resolves to the colour -/
theorem select_resolves (s : St) (ops : List PalStream.Op) (c : Rgb) :
    (exec (run s ops) (.insFg c)).fg < (exec (run s ops) (.insFg c)).pal.length ∧
    (exec (run s ops) (.insFg c)).pal.getD (exec (run s ops) (.insFg c)).fg black = c ∧
    (exec (run s ops) (.insBg c)).bg < (exec (run s ops) (.insBg c)).pal.length ∧
    (exec (run s ops) (.insBg c)).pal.getD (exec (run s ops) (.insBg c)).bg black = c :=
  ⟨insertColor_idx_lt _ c, insertColor_getD _ c, insertColor_idx_lt _ c, insertColor_getD _ c⟩

/-- … also through `get_rgb` (bit 31 of an index means "RGB given directly"): streams redefine only entries below
    256 (`oscOps_onlySet`), so the palette stays far below 2^31 entries -/
theorem select_resolves_rgb (s : St) (ops : List PalStream.Op) (c : Rgb) (hb : ∀ op ∈ ops, op.bound ≤ 256)
    (hlen : max s.pal.length 256 + ops.length + 1 < 2147483648) :
    getRgb (exec (run s ops) (.insFg c)).pal (exec (run s ops) (.insFg c)).fg = c := by
  have h1 := run_len_le ops s 256 hb
  have h2 := (select_resolves s ops c).1
  have h3 := insertColor_length_le (run s ops).pal c
  rw [getRgb_of_lt _ _ (by simp only [exec] at h2 ⊢; omega)]
  exact (select_resolves s ops c).2.1

/-- INSERT-ONLY STABLE: a history without OSC 4 redefinitions never changes what a valid index resolves to -/
theorem insert_only_stable (s : St) (ops : List PalStream.Op) (i : Nat) (hi : i < s.pal.length)
    (h : ∀ op ∈ ops, op.isSet = false) : getRgb (run s ops).pal i = getRgb s.pal i :=
  getRgb_congr _ _ i (run_getD ops s i hi (fun op ho => not_sets_of_not_isSet (h op ho) i))

/-- … and with redefinitions in the history: index `i` is stable as long as no OSC 4 names `i` itself -/
theorem stream_history_stable (s : St) (ops : List PalStream.Op) (i : Nat) (hi : i < s.pal.length)
    (h : ∀ op ∈ ops, ¬ op.sets i) : getRgb (run s ops).pal i = getRgb s.pal i :=
  getRgb_congr _ _ i (run_getD ops s i hi h)

/-- OSC 4 changes exactly entry `k` (growing the palette with black up to `k`), and not the caret -/
theorem osc4_changes_exactly (s : St) (k : Nat) (c : Rgb) (hk : k < 2147483648) :
    (exec s (.set k c)).fg = s.fg ∧ (exec s (.set k c)).bg = s.bg ∧ getRgb (exec s (.set k c)).pal k = c ∧
    ∀ j, j ≠ k → getRgb (exec s (.set k c)).pal j = getRgb s.pal j :=
  ⟨rfl, rfl, set_resolves s.pal k c hk, fun j hj => set_stable s.pal k j c hj⟩

/-- which sequences can do what: SGR and `CSI … t` never redefine an entry, OSC does nothing but redefine entries
    0..=255 (it never moves the caret colours), loading a Tundra file only inserts -/
theorem sgr_never_redefines (nums : List Nat) : ∀ op ∈ (sgrOps nums).1, op.isSet = false := sgrOps_noSet nums
theorem csi_t_never_redefines (nums : List Nat) : ∀ op ∈ (tOps nums).1, op.isSet = false := tOps_noSet nums
theorem osc_only_redefines (payload : List Nat) :
    ∀ op ∈ (oscOps payload).1, ∃ k c, op = .set k c ∧ k ≤ 255 := oscOps_onlySet payload
theorem tnd_only_inserts (data : List Nat) (ops : List PalStream.Op) (e : End) (h : tndOps data = some (ops, e)) :
    ∀ op ∈ ops, op.isSet = false := tndOps_noSet data ops e h

/-- `ESC[38;5;n m` at ANY state (so: after any history, including OSC 4 redefinitions of the index an earlier lookup
    of the same `n` was given): no error, and the caret foreground resolves to `XTERM_256_PALETTE[n]` -/
theorem sgr_256_resolves (s : St) (n : Nat) (h : n ≤ 255) :
    (sgrOps [38, 5, n]).2 = true ∧
    (run s (sgrOps [38, 5, n]).1).pal.getD (run s (sgrOps [38, 5, n]).1).fg black = xterm n ∧
    (sgrOps [48, 5, n]).2 = true ∧
    (run s (sgrOps [48, 5, n]).1).pal.getD (run s (sgrOps [48, 5, n]).1).bg black = xterm n := by
  have e1 : sgrOps [38, 5, n] = ([.insFg (xterm n)], true) := sgrOps_fg256 n h
  have e2 : sgrOps [48, 5, n] = ([.insBg (xterm n)], true) := sgrOps_bg256 n h
  rw [e1, e2]
  exact ⟨rfl, insertColor_getD _ _, rfl, insertColor_getD _ _⟩

/-- the same for 24-bit selections `ESC[38;2;r;g;b m` / `ESC[48;2;r;g;b m` -/
theorem sgr_rgb_resolves (s : St) (c : Rgb) (h : c.Valid) :
    (sgrOps [38, 2, c.r, c.g, c.b]).2 = true ∧
    (run s (sgrOps [38, 2, c.r, c.g, c.b]).1).pal.getD (run s (sgrOps [38, 2, c.r, c.g, c.b]).1).fg black = c := by
  have e1 : sgrOps [38, 2, c.r, c.g, c.b] = ([.insFg c], true) := sgrOps_fgRgb c h
  rw [e1]
  exact ⟨rfl, insertColor_getD _ _⟩

/-- CELLS STORE INDICES: a cell written while the caret's foreground stood for colour `c` still shows `c` at the end
    of the history, unless an OSC 4 redefined that very entry afterwards -/
theorem cell_keeps_colour (s : St) (a b : List PalStream.Op) (t : Nat) (c : Rgb)
    (hw : (trackRun s Want.none a).fg = some c) (hb : ∀ op ∈ b, ¬ op.sets (run s a).fg) :
    (t, (run s a).fg, (run s a).bg) ∈ cells s (a ++ .put t :: b) ∧
    (run s (a ++ .put t :: b)).pal.getD (run s a).fg black = c := by
  refine ⟨cells_put s a b t, ?_⟩
  have hg := (tracked_resolves s a).1
  rw [hw] at hg
  rw [run_append, run_cons]
  show (run (run s a) b).pal.getD _ black = c
  rw [run_getD b (run s a) _ hg.1 hb]
  exact hg.2

/-- a loaded Tundra palette starts with black and holds no colour twice (every record of a present colour got the
    existing index) -/
theorem tnd_palette_nodup (data : List Nat) (ops : List PalStream.Op) (e : End) (h : tndOps data = some (ops, e)) :
    (run tndStart ops).pal.Nodup ∧ (run tndStart ops).pal.getD 0 black = black := by
  refine ⟨run_nodup ops tndStart (tnd_only_inserts data ops e h) (by simp [tndStart]), ?_⟩
  rw [run_getD ops tndStart 0 (by simp [tndStart]) (fun op ho => not_sets_of_not_isSet (tnd_only_inserts data ops e h op ho) 0)]
  rfl

/-- `fill_to_16` and `resize` keep every index that survives them; `resize n` leaves exactly `n` colours -/
theorem fill_to_16_stable (p : List Rgb) (i : Nat) (hi : i < p.length) : getRgb (fillTo16 p) i = getRgb p i :=
  getRgb_congr _ _ i (fillTo16_getD p i hi)
theorem resize_stable (p : List Rgb) (n i : Nat) (hi : i < p.length) (hn : i < n) :
    (resize p n).length = n ∧ getRgb (resize p n) i = getRgb p i :=
  ⟨resize_length p n, getRgb_congr _ _ i (resize_getD p n i hi hn)⟩

/-! non-vacuity: the seeded trigger `ESC[38;5;196m`, `ESC]4;16;rgb:01/02/03 ESC\`, `ESC[38;5;196m` from the DOS palette -/
example : parseSeq [27, 91, 51, 56, 59, 53, 59, 49, 57, 54, 109] = .sgr [38, 5, 196] := by decide
example : oscOps [52, 59, 49, 54, 59, 114, 103, 98, 58, 48, 49, 47, 48, 50, 47, 48, 51] = ([.set 16 ⟨1, 2, 3⟩], true) := by
  decide +kernel
example : let s := run ⟨dosDefault, 7, 0⟩ [.insFg (xterm 196), .set 16 ⟨1, 2, 3⟩, .insFg (xterm 196)]
    (s.fg, s.pal.length, s.pal.getD s.fg black) = (17, 18, ⟨255, 0, 0⟩) := by decide +kernel
example : (trackRun ⟨dosDefault, 7, 0⟩ Want.none [.insFg (xterm 196), .set 16 ⟨1, 2, 3⟩]).fg = none := by decide +kernel
example : (trackRun ⟨dosDefault, 7, 0⟩ Want.none [.insFg (xterm 196), .set 3 ⟨1, 2, 3⟩, .put 0]).fg = some (xterm 196) := by
  decide +kernel
example : tOps [5, 300, 2, 3] = ([.ins ⟨44, 2, 3⟩], false) := by decide
example : resize [⟨1, 1, 1⟩] 3 = [⟨1, 1, 1⟩, ⟨0, 0, 170⟩, ⟨0, 170, 0⟩] := by decide +kernel

end stream

end IcyVerif.C16
