import IcyVerif.Props.C07
import IcyVerif.Lemmas.IcyDrawFont
import IcyVerif.Gen.IcyFont
set_option linter.unusedSimpArgs false
/-! # C07 — "every font slot": the `FONT_n` chunk with its real codec

`Props/C07.lean` proves the document round trip over parameter codecs (`CodecsOk`).  Here the FONT part of that
hypothesis is DISCHARGED for the code that exists: name as an IcyDraw string field + `to_psf2_bytes`, read back by
`read_utf8_encoded_string` + `BitFont::from_bytes` (`Model/IcyDrawFont.lean` on top of `Model/Font.lean`).  A font slot is
observed as (name, width, height, length, glyph table) — so "reproduced" includes the font's SIZE, for every width a
`BitFont` can hold (a glyph row is one byte: 1..=8), not only the 8 of the built-in fonts.

FULL-strength statement: every font slot of every document comes back equal.  What is proved is that statement for every
`SlotFont` satisfying `WfSlotFont` (valid UTF-8 name; width 1..=8; height 1..=255 — the heights 1..=32 of the quantifier
included; complete glyph table of `length` ≤ 55296 glyphs of `height` rows), and `font_width_domain_exact` shows the
width bound is EXACT: with any other width the same font is written without complaint and refused by the reader (a
`BitFont` of width 0 or > 8 has no meaning — its glyph rows are single bytes — and is not a document of the quantifier). -/
namespace IcyVerif.C07
open IcyVerif.IcyDraw IcyVerif.Font IcyVerif.Uni IcyVerif.Gen.IcyFont

/-- what C07 asks of a font slot -/
structure WfSlotFont (f : SlotFont) : Prop where
  utf8 : ValidUtf8 f.name
  short : f.name.length < 4294967296
  font : ∃ h, WfFontW f.font h

theorem lossyBytes_of_valid (name : List Nat) (hv : ValidUtf8 name) : lossyBytes name = name := by
  obtain ⟨cs, hcs, rfl⟩ := hv
  unfold lossyBytes lossy
  rw [lossyAux_encodeAll cs hcs _ (Nat.le_refl _)]

/-- translator-level facts the font model relies on (regenerated from src/fonts.rs on every run): magic and version bound;
    `to_psf2_bytes` writes magic, version 0, header size 32, flags 0, `length`, `height` (as charsize), `height`, `width`;
    `load_psf2` reads version / headersize / length / charsize / height / width from those byte ranges, makes
    `size = (width, height)`, cuts the glyph data behind `headersize` into glyphs of `height` rows;
    `create_8` keeps the width it is given -/
theorem psf2_source_shape :
    psf2MagicSrc = psf2Magic ∧ psf2MaxVersionSrc = 0 ∧ psf2MinLength = 32 ∧
    psf2WriterFields = ["BitFont::PSF2_MAGIC", "0", "8 * 4", "0", "self.length as u32", "self.size.height as u32",
      "self.size.height as u32", "self.size.width as u32"] ∧
    psf2LoaderFields = [("version", 4, 8, ""), ("headersize", 8, 12, "as usize"), ("length", 16, 20, "as i32"),
      ("charsize", 20, 24, "as i32"), ("height", 24, 28, "as usize"), ("width", 28, 32, "as usize")] ∧
    psf2Expected = "i64::from(length) * i64::from(charsize) + headersize as i64" ∧
    psf2Guard = "length < 0 || charsize <= 0 || expected != data.len() as i64 || charsize as u64 != height as u64 * ((width as u64 + 7) / 8)" ∧
    psf2LoaderSize = ("width", "height") ∧ psf2LoaderGlyphs = ("height", "headersize") ∧
    create8Shape = ["width", "height", "256", "height"] := by
  decide

/-- **font slot round trip**: the `FONT_n` payload the writer emits for a well-formed slot font is read back as that very
    font — name, WIDTH, HEIGHT, length and every glyph row (structural equality of the whole `SlotFont`) -/
theorem font_slot_rt (f : SlotFont) (wf : WfSlotFont f) :
    ∃ p, encodeFontChunk f = some p ∧ decodeFontChunk p = .ok f := by
  obtain ⟨h, hwf⟩ := wf.font
  refine ⟨leBytes 4 f.name.length ++ f.name ++ (psf2Header f.font ++ flat f.font.glyphs), ?_, ?_⟩
  · unfold encodeFontChunk; rw [toPsf2_eq_w f.font h hwf]
  · unfold decodeFontChunk
    rw [List.append_assoc, rdString_enc _ _ wf.short]
    simp only [psf2FontDec]
    rw [psf2_roundtrip_w f.font h hwf, lossyBytes_of_valid f.name wf.utf8]

/-- the size in particular (what `Buffer::get_font_dimensions` and the renderer use) -/
theorem font_size_rt (f g : SlotFont) (wf : WfSlotFont f) (p : Bytes) (he : encodeFontChunk f = some p)
    (hd : decodeFontChunk p = .ok g) : g.font.w = f.font.w ∧ g.font.h = f.font.h ∧ g.font.length = f.font.length ∧ g.name = f.name := by
  obtain ⟨p', h1, h2⟩ := font_slot_rt f wf
  rw [h1] at he; cases he
  rw [h2] at hd; cases hd
  exact ⟨rfl, rfl, rfl, rfl⟩

/-- the width bound of `WfSlotFont` is exact: for any other width (everything else well-formed) the writer emits the font
    and the reader refuses it (`LengthMismatch`: charsize = height ≠ height * ((width + 7) / 8)) -/
theorem font_width_domain_exact (f : SlotFont) (h : Nat) (hh : f.font.h = h) (h1 : 1 ≤ h) (h255 : h ≤ 255)
    (hn : f.font.glyphs.length ≤ 55296) (hlen : f.font.length = f.font.glyphs.length) (rows : AllRows h f.font.glyphs)
    (hs : f.name.length < 4294967296) (hi : -2147483648 ≤ f.font.w ∧ f.font.w < 2147483648)
    (hw : f.font.w < 1 ∨ 8 < f.font.w) :
    ∃ p, encodeFontChunk f = some p ∧ decodeFontChunk p = .fail .errCodec := by
  obtain ⟨e1, e2⟩ := psf2_width_out_of_range f.font h hh h1 h255 hn hlen rows hi hw
  refine ⟨leBytes 4 f.name.length ++ f.name ++ (psf2Header f.font ++ flat f.font.glyphs), ?_, ?_⟩
  · unfold encodeFontChunk; rw [e1]
  · unfold decodeFontChunk
    rw [List.append_assoc, rdString_enc _ _ hs]
    simp only [psf2FontDec]
    rw [e2]

/-- the FONT clause of `CodecsOk` holds for the real codec -/
theorem psf2_codec_ok {S : Type} (palEnc : List RGB → Bytes) (palDec : Bytes → IcyDraw.Res (List RGB))
    (sauceDec : Bytes → IcyDraw.Res (Option S)) (dflt : SlotFont) (f : SlotFont) (wf : WfSlotFont f) :
    let cd := psf2Codecs palEnc palDec sauceDec dflt
    (cd.fontName f).length < 4294967296 ∧ cd.fontDec (cd.fontName f) (cd.fontData f) = .ok f := by
  obtain ⟨h, hwf⟩ := wf.font
  refine ⟨wf.short, ?_⟩
  show psf2FontDec f.name (match f.font.toPsf2 with | .ok d => d | _ => []) = .ok f
  rw [toPsf2_eq_w f.font h hwf]
  simp only [psf2FontDec]
  rw [psf2_roundtrip_w f.font h hwf, lossyBytes_of_valid f.name wf.utf8]

/-- **document round trip with the real `FONT_n` codec**: as `doc_rt`, with the font hypothesis discharged — every font
    slot of every well-formed document (any number of slots 0..=300 and beyond, widths 1..=8, heights 1..=255, 256 / 512 /
    any complete glyph table, UTF-8 names) is read back as the font that was saved, with its size, whatever header,
    palette, SAUCE record and layers are next to it.  Palette and SAUCE codecs stay parameters (C16 / C11). -/
theorem doc_rt_psf2 {S : Type} (palEnc : List RGB → Bytes) (palDec : Bytes → IcyDraw.Res (List RGB))
    (sauceDec : Bytes → IcyDraw.Res (Option S)) (dflt : SlotFont) (sauceEqv : S → S → Prop)
    (d : Doc SlotFont S) (hw : WfDoc d) (hfonts : ∀ kf ∈ d.fonts, WfSlotFont kf.2)
    (hpal : palDec (palEnc d.palette) = .ok d.palette)
    (hsauce : ∀ s b, d.sauce = some (s, b) → ∃ s', sauceDec b = .ok (some s') ∧ sauceEqv s' s) :
    ∃ cs st, encodeDoc (psf2Codecs palEnc palDec sauceDec dflt) d = some cs ∧
      decodeDoc (psf2Codecs palEnc palDec sauceDec dflt) cs = .ok st ∧
      st.hdr = d.hdr ∧ st.palette = d.palette ∧
      (∀ k, st.fontAt k = d.fonts.lookup k) ∧
      (∀ k f, d.fonts.lookup k = some f → ∃ g, st.fontAt k = some g ∧ g.name = f.name ∧ g.font.w = f.font.w ∧
        g.font.h = f.font.h ∧ g.font.length = f.font.length ∧ g.font.glyphs = f.font.glyphs) ∧
      layersEq st.layers d.layers := by
  obtain ⟨cs, st, h1, h2, h3, h4, h5, _, h7⟩ := doc_rt (psf2Codecs palEnc palDec sauceDec dflt) sauceEqv d hw
    ⟨hpal, fun kf hkf => psf2_codec_ok palEnc palDec sauceDec dflt kf.2 (hfonts kf hkf), hsauce⟩
  refine ⟨cs, st, h1, h2, h3, h4, h5, ?_, h7⟩
  intro k f hk
  exact ⟨f, by rw [h5 k, hk], rfl, rfl, rfl, rfl, rfl⟩

/-! ## non-vacuity and witnesses -/
set_option maxRecDepth 100000

/-- a 6 x 3 font of 256 glyphs (glyph `g` = rows `g`, `255 - g`, `g`), named "ü6" -/
def exFont6 : SlotFont :=
  ⟨[0xC3, 0xBC, 0x36], { w := 6, h := 3, length := 256, glyphs := (List.range 256).map fun g => some [g, 255 - g, g] }⟩

theorem exFont6_rows : AllRows 3 exFont6.font.glyphs := by
  intro g hg
  simp only [exFont6, List.mem_map, List.mem_range] at hg
  obtain ⟨a, _, rfl⟩ := hg
  exact ⟨_, rfl, rfl⟩

example : WfSlotFont exFont6 :=
  ⟨⟨[0xFC, 0x36], by decide, by decide⟩, by decide, 3, ⟨by decide, by decide, rfl, by decide, by decide, by decide, by decide, exFont6_rows⟩⟩

/-- the payload is 4 + 3 name bytes, the 32-byte header (… length 256, charsize 3, height 3, width 6) and 768 glyph bytes -/
example : (encodeFontChunk exFont6).map (fun p => (p.length, p.take 7, (p.drop 23).take 16)) =
    some (807, [3, 0, 0, 0, 0xC3, 0xBC, 0x36], [0, 1, 0, 0, 3, 0, 0, 0, 3, 0, 0, 0, 6, 0, 0, 0]) := by decide +kernel
example : (match encodeFontChunk exFont6 with | some p => decide (decodeFontChunk p = .ok exFont6) | none => false) = true := by
  decide +kernel

/-- the excluded widths are real: the same font declared 9 (or 0) pixels wide is written and then refused -/
theorem font_width_9_refused :
    (match encodeFontChunk ⟨exFont6.name, { exFont6.font with w := 9 }⟩ with
     | some p => decide (decodeFontChunk p = .fail .errCodec) | none => false) = true ∧
    (match encodeFontChunk ⟨exFont6.name, { exFont6.font with w := 0 }⟩ with
     | some p => decide (decodeFontChunk p = .fail .errCodec) | none => false) = true := by
  decide +kernel

end IcyVerif.C07
