import IcyVerif.Props.C12
import IcyVerif.Props.C05
import IcyVerif.Lemmas.ColorOptFields
set_option linter.unusedSimpArgs false
set_option linter.unusedVariables false
/-! # C12 (c): the colour optimiser inside the format writers

`Buffer::to_bytes(ext, options)` is the only place the optimiser is used (`source_skeleton_unchanged` pins the body,
`optimizerCallSites = 1`): with `options.lossles_output = false` (the default) the writer of the format is handed
`ColorOptimizer::optimize(self)` instead of `self`.  `toBytes` is that dispatch, for ANY writer.

* `default_save_is_lossless_save_of_optimised` — what the default save writes is, byte for byte, what the lossless save of
  the optimised buffer writes (tied on the real crate for all 14 writers of the FORMATS table: harness `c12w.rs`, key
  `writer:<ext>:callsite_differs`).
* `default_save_preserves_picture` — the composition every writer needs: a loader/writer pair with a round-trip law at the
  level of the rendered picture on a domain `D`, and `optimize b ∈ D`, gives: the file written by the DEFAULT save loads back
  to a picture that renders identically to the ORIGINAL.  The two premises are exactly what has to be discharged per
  format; `render (optimize b) = render b` is `optimize_preserves_document`.
* `binary_default_save` — the instance for the five binary formats of C05 (XBin, BIN, ADF, IDF, Tundra), on C05's file
  models: for a picture `p` whose optimised version `p'` is representable in the format, the bytes of the default save load
  back to a buffer that shows `p'` (C05's `SamePicture`: same characters, same displayed colours, blink, font pages,
  embedded fonts and palette) and `p'` renders, cell for cell, like `p` (C12).
* `representable_optPic` — C05's domain is CLOSED under the optimiser (the rewritten fields are inherited from another cell
  of the picture or from the default attribute, all domain conditions are per-field), hence
  `binary_default_save_of_representable`: the hypothesis is the one of the C05 round-trip theorem for `p` ITSELF.
For the text formats (ANSI, PCBoard, Avatar, ASCII, Ctrl-A, Renegade, ATASCII) and IcyDraw the same composition is checked by
the oracle of `c12w.rs` on the real crate: whenever the lossless file reloads to the original picture, the default file does. -/
namespace IcyVerif.C12
open IcyVerif.Comp IcyVerif.ColorOpt IcyVerif.Gen.Fonts

/-! ## the dispatch in `Buffer::to_bytes` -/

/-- `Buffer::to_bytes` after the format was found: `write` is `fmt.to_bytes(·, options)`, `opt` is
    `ColorOptimizer::new(self, options).optimize` -/
def toBytes {Buf Bytes : Type} (write : Buf → Bytes) (opt : Buf → Buf) (lossless : Bool) (b : Buf) : Bytes :=
  if lossless then write b else write (opt b)

theorem default_save_is_lossless_save_of_optimised {Buf Bytes : Type} (write : Buf → Bytes) (opt : Buf → Buf) (b : Buf) :
    toBytes write opt false b = toBytes write opt true (opt b) := rfl

/-- **Composition.**  `rt`: on the domain `D` the writer/loader pair reproduces the rendered picture; `hD`: the optimised
    buffer is in `D`; `hopt`: the optimiser preserves the rendered picture (C12).  Then the DEFAULT save of `b` loads back to
    a buffer that renders like `b` itself. -/
theorem default_save_preserves_picture {Buf Bytes Img : Type} (write : Buf → Bytes) (load : Bytes → Option Buf)
    (render : Buf → Img) (opt : Buf → Buf) (D : Buf → Prop)
    (rt : ∀ b, D b → ∃ g, load (write b) = some g ∧ render g = render b)
    (hopt : ∀ b, render (opt b) = render b) (b : Buf) (hD : D (opt b)) :
    ∃ g, load (toBytes write opt false b) = some g ∧ render g = render b := by
  obtain ⟨g, hl, hr⟩ := rt (opt b) hD
  exact ⟨g, hl, by rw [hr, hopt]⟩

/-! ## the binary formats of C05 -/
section binary
open IcyVerif.BinFormats

def toC (c : XbCompress.Cell) : Comp.Cell := ⟨c.ch, ⟨c.attr.fg, c.attr.bg, c.attr.flags, c.attr.page⟩⟩
def ofC (c : Comp.Cell) : XbCompress.Cell := ⟨c.ch, ⟨c.attr.fg, c.attr.bg, c.attr.flags, c.attr.page⟩⟩

theorem toC_ofC (c : Comp.Cell) : toC (ofC c) = c := rfl

/-- a font of C05's pictures (256 glyphs of `height` bytes, 8 pixels wide) as the optimiser and the renderer see it -/
def fontOf (f : BinFormats.Font) : ColorOpt.Font :=
  ⟨8, f.height, fun ch => if ch < 256 then some ((f.data.drop (ch * f.height)).take f.height) else none⟩

def fontsOf (p : Pic) : Nat → Option ColorOpt.Font := fun page => (lookupFont p.fonts page).map fontOf

/-- `ColorOptimizer::optimize` on a picture of C05 (`none` = one of its `unwrap()`s panics) -/
def optPic (norm : Bool) (p : Pic) : Option Pic :=
  (optimizeRows (fontsOf p) norm defaultCell.attr (p.rows.map (·.map toC))).map fun r =>
    { p with rows := r.1.map (·.map ofC) }

/-- the optimised picture renders, cell for cell, like the original — every palette, every font-0 size -/
theorem optPic_renders_same (norm : Bool) (p p' : Pic) (hopt : optPic norm p = some p') (hfonts : FontsOk (fontsOf p))
    (pal : Nat → ColorOpt.Rgb) (w0 h0 : Nat) :
    p'.rows.map (·.map (fun c => renderCell (fontsOf p) pal w0 h0 (toC c))) =
      p.rows.map (·.map (fun c => renderCell (fontsOf p) pal w0 h0 (toC c))) := by
  unfold optPic at hopt
  cases ho : optimizeRows (fontsOf p) norm defaultCell.attr (p.rows.map (·.map toC)) with
  | none => rw [ho] at hopt; cases hopt
  | some r =>
    obtain ⟨rows', k⟩ := r
    rw [ho] at hopt
    simp only [Option.map_some, Option.some.injEq] at hopt
    subst hopt
    have h := optimize_preserves_rows (fontsOf p) pal w0 h0 norm _ _ _ _ hfonts ho
    simp only [List.map_map] at h ⊢
    have e1 : ∀ (l : List (List Comp.Cell)),
        List.map ((fun x => List.map (fun c => renderCell (fontsOf p) pal w0 h0 (toC c)) x) ∘ fun x => List.map ofC x) l
          = List.map (List.map (renderCell (fontsOf p) pal w0 h0)) l := by
      intro l
      apply List.map_congr_left
      intro x _
      simp only [Function.comp, List.map_map]
      rfl
    have e2 : ∀ (l : List (List XbCompress.Cell)),
        List.map (List.map (renderCell (fontsOf p) pal w0 h0) ∘ fun x => List.map toC x) l
          = List.map (fun x => List.map (fun c => renderCell (fontsOf p) pal w0 h0 (toC c)) x) l := by
      intro l
      apply List.map_congr_left
      intro x _
      simp only [Function.comp, List.map_map]
      rfl
    rw [e1, h, e2]

/-- **Default saving in the five binary formats.**  `hrt` is the conclusion of the C05 round-trip theorem of the format for
    the optimised picture (`xb_rt`, `bin_rt`, `adf_rt`, `idf_rt`, `tnd_rt` — see the corollaries below). -/
theorem binary_default_save (f : Fmt) (o : Opts) (date : List Nat) (norm : Bool) (p p' : Pic)
    (hopt : optPic norm p = some p') (hfonts : FontsOk (fontsOf p))
    (hrt : ∃ bytes g, save f o date p' = .ok bytes ∧ fromBytes f bytes = .ok g ∧ SamePicture f p' g) :
    ∃ bytes g, toBytes (save f o date) (fun q => (optPic norm q).getD q) false p = .ok bytes ∧
      fromBytes f bytes = .ok g ∧ SamePicture f p' g ∧
      ∀ (pal : Nat → ColorOpt.Rgb) (w0 h0 : Nat),
        p'.rows.map (·.map (fun c => renderCell (fontsOf p) pal w0 h0 (toC c))) =
          p.rows.map (·.map (fun c => renderCell (fontsOf p) pal w0 h0 (toC c))) := by
  obtain ⟨bytes, g, h1, h2, h3⟩ := hrt
  refine ⟨bytes, g, ?_, h2, h3, optPic_renders_same norm p p' hopt hfonts⟩
  show save f o date ((optPic norm p).getD p) = .ok bytes
  rw [hopt]; exact h1

theorem xb_default_save (o : Opts) (date : List Nat) (norm : Bool) (p p' : Pic) (hs : o.sauce = true)
    (hopt : optPic norm p = some p') (hfonts : FontsOk (fontsOf p)) (hrep : Representable .xb o p' = true)
    (hdate : dateOk date = true) :
    ∃ bytes g, toBytes (save .xb o date) (fun q => (optPic norm q).getD q) false p = .ok bytes ∧
      fromBytes .xb bytes = .ok g ∧ SamePicture .xb p' g ∧
      ∀ (pal : Nat → ColorOpt.Rgb) (w0 h0 : Nat),
        p'.rows.map (·.map (fun c => renderCell (fontsOf p) pal w0 h0 (toC c))) =
          p.rows.map (·.map (fun c => renderCell (fontsOf p) pal w0 h0 (toC c))) :=
  binary_default_save .xb o date norm p p' hopt hfonts (IcyVerif.C05.xb_rt o date p' hs hrep hdate)

/-- (merge note: the hypothesis `f = .tnd → p'.w ≤ 1000` is gone — C05's Tundra theorem is `tnd_rt` for every width since the
    Tundra loader repair) -/
theorem bin_adf_idf_tnd_default_save (f : Fmt) (hf : f ≠ .xb) (o : Opts) (date : List Nat) (norm : Bool) (p p' : Pic)
    (hs : o.sauce = true) (hopt : optPic norm p = some p') (hfonts : FontsOk (fontsOf p))
    (hrep : Representable f o p' = true) (hdate : dateOk date = true) :
    ∃ bytes g, toBytes (save f o date) (fun q => (optPic norm q).getD q) false p = .ok bytes ∧
      fromBytes f bytes = .ok g ∧ SamePicture f p' g ∧
      ∀ (pal : Nat → ColorOpt.Rgb) (w0 h0 : Nat),
        p'.rows.map (·.map (fun c => renderCell (fontsOf p) pal w0 h0 (toC c))) =
          p.rows.map (·.map (fun c => renderCell (fontsOf p) pal w0 h0 (toC c))) := by
  apply binary_default_save f o date norm p p' hopt hfonts
  cases f with
  | xb => exact absurd rfl hf
  | bin => exact IcyVerif.C05.bin_rt o date p' hrep hdate
  | adf => exact IcyVerif.C05.adf_rt o date p' hs hrep hdate
  | idf => exact IcyVerif.C05.idf_rt o date p' hs hrep hdate
  | tnd => exact IcyVerif.C05.tnd_rt o date p' hs hrep hdate

/-! ### C05's domain is closed under the optimiser -/

/-- a cell of `p` and the cell of `optPic norm p` at the same place -/
def OptRel (F B : Nat → Prop) (c c' : XbCompress.Cell) : Prop := FieldsOk F B (toC c) (toC c')

theorem optPic_shape (norm : Bool) (p p' : Pic) (hopt : optPic norm p = some p') : p' = { p with rows := p'.rows } := by
  unfold optPic at hopt
  cases ho : optimizeRows (fontsOf p) norm defaultCell.attr (p.rows.map (·.map toC)) with
  | none => rw [ho] at hopt; cases hopt
  | some r =>
    rw [ho] at hopt
    simp only [Option.map_some, Option.some.injEq] at hopt
    subst hopt; rfl

theorem optPic_rel (F B : Nat → Prop) (norm : Bool) (p p' : Pic) (hopt : optPic norm p = some p') (hF : F 7) (hB : B 0)
    (hall : ∀ r ∈ p.rows, ∀ c ∈ r, F c.attr.fg ∧ B c.attr.bg) : Rel2 (Rel2 (OptRel F B)) p.rows p'.rows := by
  unfold optPic at hopt
  cases ho : optimizeRows (fontsOf p) norm defaultCell.attr (p.rows.map (·.map toC)) with
  | none => rw [ho] at hopt; cases hopt
  | some r =>
    obtain ⟨rows', k'⟩ := r
    rw [ho] at hopt
    simp only [Option.map_some, Option.some.injEq] at hopt
    subst hopt
    have hrel := optimizeRows_fields F B _ _ _ _ ho ⟨hF, hB⟩ (by
      intro r hr c hc
      obtain ⟨r0, hr0, rfl⟩ := List.mem_map.mp hr
      obtain ⟨c0, hc0, rfl⟩ := List.mem_map.mp hc
      exact hall r0 hr0 c0 hc0)
    have h1 := Rel2.of_map_left (fun (x : List XbCompress.Cell) => x.map toC) hrel
    have h2 : Rel2 (fun (r : List XbCompress.Cell) (r' : List Comp.Cell) => Rel2 (OptRel F B) (id r) (r'.map ofC)) p.rows rows' := by
      apply Rel2.mono _ h1
      intro r r' hrr
      have h3 := Rel2.of_map_left toC hrr
      exact Rel2.map (R := OptRel F B) id ofC h3 |> fun h => by simpa using h
    have h4 := Rel2.map (R := Rel2 (OptRel F B)) id (fun (x : List Comp.Cell) => x.map ofC) h2
    simpa using h4

theorem allCells_transfer (p p' : Pic) (pred : XbCompress.Cell → Bool) (R : XbCompress.Cell → XbCompress.Cell → Prop)
    (hrel : Rel2 (Rel2 R) p.rows p'.rows) (hstep : ∀ c c', R c c' → pred c = true → pred c' = true)
    (h : allCells p pred = true) : allCells p' pred = true := by
  unfold allCells at h ⊢
  rw [List.all_eq_true] at h ⊢
  exact Rel2.all_right (P := fun r => r.all pred = true) (Q := fun r => r.all pred = true)
    (fun r r' hrr hr => by
      rw [List.all_eq_true] at hr ⊢
      exact Rel2.all_right (P := fun c => pred c = true) (Q := fun c => pred c = true) hstep hrr hr) hrel h

theorem analyzeFontUsage_pages (cells : List XbCompress.Cell) :
    XbCompress.analyzeFontUsage cells = (cells.map (·.attr.page)).foldl (fun acc pg => XbCompress.insertSorted pg acc) [] := by
  unfold XbCompress.analyzeFontUsage
  rw [List.foldl_map]

theorem trueRel (norm : Bool) (p p' : Pic) (hopt : optPic norm p = some p') :
    Rel2 (Rel2 (OptRel (fun _ => True) (fun _ => True))) p.rows p'.rows :=
  optPic_rel _ _ norm p p' hopt trivial trivial (fun _ _ _ _ => ⟨trivial, trivial⟩)

theorem optPic_pages (norm : Bool) (p p' : Pic) (hopt : optPic norm p = some p') :
    XbCompress.analyzeFontUsage p'.rows.flatten = XbCompress.analyzeFontUsage p.rows.flatten := by
  rw [analyzeFontUsage_pages, analyzeFontUsage_pages]
  congr 1
  exact Rel2.map_eq (R := OptRel (fun _ => True) (fun _ => True)) (fun c => c.attr.page) (fun c => c.attr.page)
    (fun a b h => h.1) (Rel2.flatten (trueRel norm p p' hopt))

theorem optPic_wellFormed (norm : Bool) (p p' : Pic) (hopt : optPic norm p = some p') (h : wellFormed p = true) :
    wellFormed p' = true := by
  have hsh := optPic_shape norm p p' hopt
  have hrel := trueRel norm p p' hopt
  unfold wellFormed at h ⊢
  simp only [Bool.and_eq_true, beq_iff_eq, List.all_eq_true, decide_eq_true_eq] at h ⊢
  have hw : p'.w = p.w := by rw [hsh]
  have hh : p'.h = p.h := by rw [hsh]
  refine ⟨⟨by rw [hrel.length, hh]; exact h.1.1, ?_⟩, by rw [hh]; exact h.2⟩
  rw [hw]
  exact Rel2.all_right (P := fun r => r.length = p.w) (Q := fun r => r.length = p.w)
    (fun r r' hrr hr => by rw [hrr.length]; exact hr) hrel h.1.2

/-- the cell conditions of the attribute-byte formats and of Tundra survive the optimiser -/
theorem attrCell_step (ice : Bool) (c c' : XbCompress.Cell)
    (h : OptRel (fun v => v < 16) (fun v => if ice then v < 16 else v < 8) c c') (hc : attrCell ice c = true) :
    attrCell ice c' = true := by
  obtain ⟨hp, hfl, hch, hfg, hbg⟩ := h
  have hfl' : c'.attr.flags = c.attr.flags := hfl
  unfold attrCell at hc ⊢
  simp only [Bool.and_eq_true, decide_eq_true_eq] at hc ⊢
  -- (merge note: `attrCell` has no visibility conjunct any more)
  obtain ⟨⟨hch0, _⟩, hrest⟩ := hc
  have hch' : c'.ch ≤ 255 := by
    rcases hch with h1 | h1
    · have : c'.ch = c.ch := h1
      omega
    · have : c'.ch = 32 := h1
      omega
  refine ⟨⟨hch', hfg⟩, ?_⟩
  cases ice with
  | true =>
    simp only [if_true, Bool.and_eq_true, decide_eq_true_eq, Bool.not_eq_true'] at hrest hbg ⊢
    refine ⟨hbg, ?_⟩
    have : isBlink c'.attr = isBlink c.attr := by unfold isBlink; rw [hfl']
    rw [this]; exact hrest.2
  | false =>
    simp only [Bool.false_eq_true, if_false, decide_eq_true_eq] at hrest hbg ⊢
    exact hbg

theorem allCells_mem (p : Pic) (pred : XbCompress.Cell → Bool) (h : allCells p pred = true) :
    ∀ r ∈ p.rows, ∀ c ∈ r, pred c = true := by
  unfold allCells at h
  rw [List.all_eq_true] at h
  intro r hr c hc
  exact (List.all_eq_true.mp (h r hr)) c hc

theorem optPic_attrCells (norm : Bool) (ice : Bool) (p p' : Pic) (hopt : optPic norm p = some p')
    (h : allCells p (attrCell ice) = true) : allCells p' (attrCell ice) = true := by
  have hmem := allCells_mem p _ h
  have hrel := optPic_rel (fun v => v < 16) (fun v => if ice then v < 16 else v < 8) norm p p' hopt (by omega)
    (by cases ice <;> simp) (by
      intro r hr c hc
      have := hmem r hr c hc
      unfold attrCell at this
      simp only [Bool.and_eq_true, decide_eq_true_eq] at this
      refine ⟨this.1.2, ?_⟩
      cases ice with
      | true => simp only [if_true, Bool.and_eq_true, decide_eq_true_eq] at this ⊢; exact this.2.1
      | false => simp only [Bool.false_eq_true, if_false, decide_eq_true_eq] at this ⊢; exact this.2)
  exact allCells_transfer p p' _ _ hrel (attrCell_step ice) h

theorem optPic_lowCells (norm : Bool) (p p' : Pic) (hopt : optPic norm p = some p')
    (h : allCells p (fun c => decide (c.attr.fg < 8) && !BinFormats.isBold c.attr) = true) :
    allCells p' (fun c => decide (c.attr.fg < 8) && !BinFormats.isBold c.attr) = true := by
  have hmem := allCells_mem p _ h
  have hrel := optPic_rel (fun v => v < 8) (fun _ => True) norm p p' hopt (by omega) trivial (by
      intro r hr c hc
      have := hmem r hr c hc
      simp only [Bool.and_eq_true, decide_eq_true_eq] at this
      exact ⟨this.1, trivial⟩)
  apply allCells_transfer p p' _ _ hrel _ h
  intro c c' hcc hc
  obtain ⟨_, hfl, _, hfg, _⟩ := hcc
  have hfl' : c'.attr.flags = c.attr.flags := hfl
  simp only [Bool.and_eq_true, decide_eq_true_eq, Bool.not_eq_true'] at hc ⊢
  refine ⟨hfg, ?_⟩
  have : BinFormats.isBold c'.attr = BinFormats.isBold c.attr := by unfold BinFormats.isBold; rw [hfl']
  rw [this]; exact hc.2

theorem optPic_tndCells (norm : Bool) (p p' : Pic) (hopt : optPic norm p = some p')
    (h : allCells p (fun c => decide (c.ch ≤ 255) && isVisible c && !isBlink c.attr && decide (c.attr.fg < 2147483648) &&
      decide (c.attr.bg < 2147483648)) = true) :
    allCells p' (fun c => decide (c.ch ≤ 255) && isVisible c && !isBlink c.attr && decide (c.attr.fg < 2147483648) &&
      decide (c.attr.bg < 2147483648)) = true := by
  have hmem := allCells_mem p _ h
  have hrel := optPic_rel (fun v => v < 2147483648) (fun v => v < 2147483648) norm p p' hopt (by omega) (by omega) (by
      intro r hr c hc
      have := hmem r hr c hc
      simp only [Bool.and_eq_true, decide_eq_true_eq] at this
      exact ⟨this.1.2, this.2⟩)
  apply allCells_transfer p p' _ _ hrel _ h
  intro c c' hcc hc
  obtain ⟨_, hfl, hch, hfg, hbg⟩ := hcc
  have hfl' : c'.attr.flags = c.attr.flags := hfl
  simp only [Bool.and_eq_true, decide_eq_true_eq, Bool.not_eq_true'] at hc ⊢
  obtain ⟨⟨⟨⟨hch0, hvis⟩, hbl⟩, _⟩, _⟩ := hc
  have hvis' : isVisible c' = true := by unfold isVisible at hvis ⊢; rw [hfl']; exact hvis
  have hbl' : isBlink c'.attr = false := by
    have : isBlink c'.attr = isBlink c.attr := by unfold isBlink; rw [hfl']
    rw [this]; exact hbl
  have hch' : c'.ch ≤ 255 := by
    rcases hch with h1 | h1
    · have : c'.ch = c.ch := h1
      omega
    · have : c'.ch = 32 := h1
      omega
  exact ⟨⟨⟨⟨hch', hvis'⟩, hbl'⟩, hfg⟩, hbg⟩

/-- **C05's domain is closed under the colour optimiser**: if a picture is representable in one of the five binary formats,
    so is its optimised version (same size, mode, palette and fonts; per-cell conditions are per-field conditions that
    the rewritten fields inherit from another cell of the picture or from the default attribute 7 on 0). -/
theorem representable_optPic (f : Fmt) (o : Opts) (norm : Bool) (p p' : Pic) (hopt : optPic norm p = some p')
    (h : Representable f o p = true) : Representable f o p' = true := by
  have hsh := optPic_shape norm p p' hopt
  have hpages := optPic_pages norm p p' hopt
  unfold Representable at h ⊢
  rw [Bool.and_eq_true, Bool.and_eq_true] at h ⊢
  -- (merge note: `Representable` starts with `metaOk p.sauce`; the optimiser does not touch the buffer's SAUCE data)
  have hsa : p'.sauce = p.sauce := by rw [hsh]
  refine ⟨⟨by rw [hsa]; exact h.1.1, optPic_wellFormed norm p p' hopt h.1.2⟩, ?_⟩
  have hw : p'.w = p.w := by rw [hsh]
  have hh : p'.h = p.h := by rw [hsh]
  have hi : p'.ice = p.ice := by rw [hsh]
  have hpal : p'.pal = p.pal := by rw [hsh]
  have hfo : p'.fonts = p.fonts := by rw [hsh]
  have h2 := h.2
  cases f with
  | xb =>
    simp only [hw, hh, hi, hpal, hfo, hpages] at h2 ⊢
    simp only [Bool.and_eq_true] at h2 ⊢
    obtain ⟨⟨⟨⟨hA, hcells⟩, hp16⟩, hpg⟩, hfont⟩ := h2
    refine ⟨⟨⟨⟨hA, optPic_attrCells norm _ p p' hopt hcells⟩, hp16⟩, hpg⟩, ?_⟩
    cases hf0 : lookupFont p.fonts 0 with
    | none => rw [hf0] at hfont; cases hfont
    | some f0 =>
      rw [hf0] at hfont
      simp only [Bool.and_eq_true, Bool.or_eq_true] at hfont ⊢
      refine ⟨hfont.1, ?_⟩
      rcases hfont.2 with hne | h1
      · exact Or.inl hne
      · right
        cases hf1 : lookupFont p.fonts 1 with
        | none => rw [hf1] at h1; cases h1
        | some f1 =>
          rw [hf1] at h1
          simp only [Bool.and_eq_true] at h1 ⊢
          exact ⟨h1.1, optPic_lowCells norm p p' hopt h1.2⟩
  | bin =>
    simp only [hw, hh, hi, hpal, hfo, hpages] at h2 ⊢
    simp only [Bool.and_eq_true] at h2 ⊢
    obtain ⟨⟨⟨⟨hA, hcells⟩, hp16⟩, hpg⟩, hfont⟩ := h2
    exact ⟨⟨⟨⟨hA, optPic_attrCells norm _ p p' hopt hcells⟩, hp16⟩, hpg⟩, hfont⟩
  | adf =>
    simp only [hw, hh, hi, hpal, hfo, hpages] at h2 ⊢
    simp only [Bool.and_eq_true] at h2 ⊢
    obtain ⟨⟨⟨⟨hA, hcells⟩, hp16⟩, hpg⟩, hfont⟩ := h2
    exact ⟨⟨⟨⟨hA, optPic_attrCells norm _ p p' hopt hcells⟩, hp16⟩, hpg⟩, hfont⟩
  | idf =>
    simp only [hw, hh, hi, hpal, hfo, hpages] at h2 ⊢
    simp only [Bool.and_eq_true] at h2 ⊢
    obtain ⟨⟨⟨⟨hA, hcells⟩, hp16⟩, hpg⟩, hfont⟩ := h2
    exact ⟨⟨⟨⟨hA, optPic_attrCells norm _ p p' hopt hcells⟩, hp16⟩, hpg⟩, hfont⟩
  | tnd =>
    simp only [hw, hh, hi, hpal, hfo, hpages] at h2 ⊢
    simp only [Bool.and_eq_true] at h2 ⊢
    obtain ⟨hA, hcells⟩ := h2
    exact ⟨hA, optPic_tndCells norm p p' hopt hcells⟩

/-- **Default saving in the five binary formats, unconditional on the optimised picture**: for every picture `p`
    representable in the format (the hypothesis of the C05 round-trip theorem for `p` itself) whose fonts are `FontsOk`, the
    DEFAULT save writes a file that loads back to a buffer showing the optimised picture `p'`, and `p'` renders like `p`.
    (`hopt`: the optimiser returns — every cell's code point has a glyph, `optimize_defined_iff`.)
    (Merge note: Tundra no longer needs `p.w ≤ 1000`, see `bin_adf_idf_tnd_default_save`.) -/
theorem binary_default_save_of_representable (f : Fmt) (o : Opts) (date : List Nat) (norm : Bool) (p p' : Pic)
    (hs : o.sauce = true) (hopt : optPic norm p = some p') (hfonts : FontsOk (fontsOf p))
    (hrep : Representable f o p = true) (hdate : dateOk date = true) :
    ∃ bytes g, toBytes (save f o date) (fun q => (optPic norm q).getD q) false p = .ok bytes ∧
      fromBytes f bytes = .ok g ∧ SamePicture f p' g ∧
      ∀ (pal : Nat → ColorOpt.Rgb) (w0 h0 : Nat),
        p'.rows.map (·.map (fun c => renderCell (fontsOf p) pal w0 h0 (toC c))) =
          p.rows.map (·.map (fun c => renderCell (fontsOf p) pal w0 h0 (toC c))) := by
  have hrep' := representable_optPic f o norm p p' hopt hrep
  cases f with
  | xb => exact xb_default_save o date norm p p' hs hopt hfonts hrep' hdate
  | bin => exact bin_adf_idf_tnd_default_save .bin (by decide) o date norm p p' hs hopt hfonts hrep' hdate
  | adf => exact bin_adf_idf_tnd_default_save .adf (by decide) o date norm p p' hs hopt hfonts hrep' hdate
  | idf => exact bin_adf_idf_tnd_default_save .idf (by decide) o date norm p p' hs hopt hfonts hrep' hdate
  | tnd => exact bin_adf_idf_tnd_default_save .tnd (by decide) o date norm p p' hs hopt hfonts hrep' hdate

/-! ### non-vacuity -/

/-- the 8x8 test font of C05 with a blank `' '`, a blank NUL and a full block at 219 -/
def fntW : BinFormats.Font :=
  ⟨[70], 8, (List.range 256).flatMap fun ch => if ch = 0 ∨ ch = 32 then List.replicate 8 0 else if ch = 219 then List.replicate 8 255
    else List.replicate 8 0x55⟩

/-- 'A' (12 on 1), a NUL (3 on 1) and a block (5 on 2): the NUL inherits foreground 12 and becomes `' '`, the block
    inherits background 1 -/
def picW : Pic := ⟨3, 1, [[⟨0x41, ⟨12, 1, 0, 0⟩⟩, ⟨0, ⟨3, 1, 0, 0⟩⟩, ⟨219, ⟨5, 2, 0, 0⟩⟩]], .ice, dosPalette, [(0, fntW)], none⟩
def picW' : Pic := { picW with rows := [[⟨0x41, ⟨12, 1, 0, 0⟩⟩, ⟨32, ⟨12, 1, 0, 0⟩⟩, ⟨219, ⟨5, 1, 0, 0⟩⟩]] }

example : (optPic true picW).map (·.rows) = some picW'.rows := by decide +kernel
example : Representable .xb ⟨true, true⟩ picW = true ∧ Representable .xb ⟨true, true⟩ picW' = true := by
  constructor <;> decide +kernel

end binary

end IcyVerif.C12
