import IcyVerif.Lemmas.RowsOther
import IcyVerif.Lemmas.RowsPage
import IcyVerif.Lemmas.RowsRefine
import IcyVerif.Gen.RowSites
/-! # C01 — no byte stream can crash a terminal emulation: the ROW TABLE under the theorem
`Props/C01.lean` excludes the panics of cursor / margin arithmetic on the geometry model `TermGeo`, which abstracts
cell contents away.  Here the content operations themselves are under the theorem: `Model/Rows*.lean` transcribes
every function of `layer.rs`, `line.rs`, `parsers/mod.rs` (caret and buffer primitives), the rectangle commands and the
PETSCII / ATASCII / Viewdata / Mode 7 row operations that indexes, inserts or removes in `Layer.lines` or in a row's
`chars`, with every `v[i]`, `insert`, `remove`, `resize(n as usize)`, `with_capacity`, `x as usize + 1`, `assert!` as an
explicit panic outcome, and composes them with `Term.step` (same parser state machine, same macro replay).

`rows_total*`: for ALL initial row tables — any ragged shape, any number of rows including none and more than the
screen height, any layer height — and all streams, no content operation panics; a run can only stop at the
conservative `i32` guard of the geometry model (`overflow`, needs > 2^30 scrollback rows, `C01.overflow_guard_needs_2_30_rows`).
The per-operation theorems state each operation's precondition explicitly; `call_sites_provide` derives all of them
from `GoodSt` (C01's invariant) plus `BwOk` (buffer width in 1..=132, `bw_reachable`). -/
namespace IcyVerif.C01
open IcyVerif.Term IcyVerif.Rows

/-! ## per-operation totality: explicit preconditions, arbitrary row table -/

/-- `Layer::set_char` / `Layer::get_char` never panic on any row table (layer width not negative) -/
theorem set_char_total (t : Tab) (x y : Int) (hw : 0 ≤ t.lw) :
    (∃ t', layerSetChar t x y = .ok t' ∧ t'.lw = t.lw ∧ t'.lh = t.lh) ∧ (∃ b, layerGetChar t x y = .ok b) := by
  obtain ⟨t', h1, h2⟩ := ok_exists (layerSetChar_ok t.lw hw t x y rfl)
  obtain ⟨b, h3, _⟩ := ok_exists (layerGetChar_ok t x y)
  exact ⟨⟨t', h1, h2⟩, ⟨b, h3⟩⟩

/-- `Buffer::scroll_left`: needs `last editable column + 1 >= 0` (it becomes `Line::insert_char`'s index) -/
theorem scroll_left_total (s : Scr) (t : Tab) (hcol : 0 ≤ lastCol s + 1) : ∃ t', scrollLeft s t = .ok t' ∧ t'.lw = t.lw := by
  obtain ⟨t', h1, h2⟩ := ok_exists (scrollLeft_ok t.lw t.lh s t ⟨rfl, rfl⟩ hcol)
  exact ⟨t', h1, h2.1⟩

/-- `Buffer::scroll_right`: needs `last editable column >= 0` (`end_column as usize + 1`) -/
theorem scroll_right_total (s : Scr) (t : Tab) (hcol : 0 ≤ lastCol s) : ∃ t', scrollRight s t = .ok t' ∧ t'.lw = t.lw := by
  obtain ⟨t', h1, h2⟩ := ok_exists (scrollRight_ok t.lw t.lh s t ⟨rfl, rfl⟩ hcol)
  exact ⟨t', h1, h2.1⟩

/-- `Buffer::scroll_up` / `scroll_down` (any margins, any buffer size) -/
theorem scroll_up_down_total (s : Scr) (t : Tab) (hw : 0 ≤ t.lw) :
    (∃ t', scrollUp s t = .ok t' ∧ t'.lw = t.lw) ∧ (∃ t', scrollDown s t = .ok t' ∧ t'.lw = t.lw) := by
  obtain ⟨t1, h1, h2⟩ := ok_exists (scrollUp_ok t.lw t.lh hw s t ⟨rfl, rfl⟩)
  obtain ⟨t2, h3, h4⟩ := ok_exists (scrollDown_ok t.lw t.lh hw s t ⟨rfl, rfl⟩)
  exact ⟨⟨t1, h1, h2.1⟩, ⟨t2, h3, h4.1⟩⟩

/-- `Buffer::insert_terminal_line(line)`: `line >= 0` (`assert!(index >= 0)`), bottom margin `>= 0` (`lines.remove(end)`) -/
theorem insert_line_total (s : Scr) (line : Int) (t : Tab) (hw : 0 ≤ t.lw) (hline : 0 ≤ line) (hb : BottomOk s) :
    ∃ t', insertTerminalLine s line t = .ok t' ∧ t'.lw = t.lw := by
  obtain ⟨t', h1, h2⟩ := ok_exists (insertTerminalLine_ok t.lw t.lh hw s line t ⟨rfl, rfl⟩ hline hb)
  exact ⟨t', h1, h2.1⟩

/-- `Buffer::remove_terminal_line(line)`: `line >= 0` (`assert!` in `Layer::remove_line`), bottom margin `>= 0` -/
theorem remove_line_total (s : Scr) (line : Int) (t : Tab) (hw : 0 ≤ t.lw) (hline : 0 ≤ line) (hb : BottomOk s) :
    ∃ t', removeTerminalLine s line t = .ok t' ∧ t'.lw = t.lw := by
  obtain ⟨t', h1, h2⟩ := ok_exists (removeTerminalLine_ok t.lw t.lh hw s line t ⟨rfl, rfl⟩ hline hb)
  exact ⟨t', h1, h2.1⟩

/-- `Caret::erase_charcter`: cursor column `>= 0` (`Line::set_char(x)` indexes `chars[x as usize]`) -/
theorem erase_character_total (s : Scr) (c : Car) (n : Int) (t : Tab) (hx : 0 ≤ c.x) : ∃ t', echT s c n t = .ok t' ∧ t'.lw = t.lw := by
  obtain ⟨t', h1, h2⟩ := ok_exists (echT_ok t.lw t.lh s c n t ⟨rfl, rfl⟩ hx)
  exact ⟨t', h1, h2.1⟩

/-- `Caret::del` / `Caret::ins`: no precondition at all (both guarded by `lines.get_mut` and `i < len`) -/
theorem del_ins_total (c : Car) (t : Tab) : (∃ t', delT c t = .ok t') ∧ (∃ t', insT c t = .ok t') := by
  obtain ⟨t1, h1, _⟩ := ok_exists (delT_ok t.lw t.lh c t ⟨rfl, rfl⟩)
  obtain ⟨t2, h2, _⟩ := ok_exists (insT_ok t.lw t.lh c t ⟨rfl, rfl⟩)
  exact ⟨⟨t1, h1⟩, ⟨t2, h2⟩⟩

/-- `Buffer::print_char`: in insert mode cursor row and column `>= 0` (`lines.resize(y as usize + 1)`,
    `Line::insert_char(x)`); terminal width `>= 0` (`Line::with_capacity` in the line feed at the right edge) -/
theorem print_char_total (s : Scr) (c : Car) (t : Tab) (hw : 0 ≤ t.lw) (hins : c.ins = true → 0 ≤ c.x ∧ 0 ≤ c.y)
    (htw : 0 ≤ s.tw) : ∃ t', printCharT s c t = .ok t' ∧ t'.lw = t.lw := by
  obtain ⟨t', h1, h2⟩ := ok_exists (printCharT_ok t.lw hw s c t rfl hins htw)
  exact ⟨t', h1, h2⟩

/-- `Caret::lf`: terminal width `>= 0`; the scroll it may trigger is total -/
theorem line_feed_total (s : Scr) (c : Car) (t : Tab) (hw : 0 ≤ t.lw) (htw : 0 ≤ s.tw) : ∃ t', lfT s c t = .ok t' ∧ t'.lw = t.lw := by
  obtain ⟨t', h1, h2⟩ := ok_exists (lfT_ok t.lw t.lh hw s c t ⟨rfl, rfl⟩ htw)
  exact ⟨t', h1, h2.1⟩

/-- erase in display / in line, rectangles, PETSCII repaint, Viewdata / Mode 7 `fill_to_eol`: loops of `Layer::set_char`,
    total for every cursor, every buffer size, every parameter list of the right length, every fill count -/
theorem clear_and_fill_total (s : Scr) (c : Car) (t : Tab) (nums : List Int) (off cnt : Nat) (hw : 0 ≤ t.lw)
    (hn : off + 3 < nums.length) :
    (∃ t', clearBufferDown s c t = .ok t') ∧ (∃ t', clearBufferUp s c t = .ok t') ∧ (∃ t', clearLine s c t = .ok t') ∧
    (∃ t', clearLineEnd s c t = .ok t') ∧ (∃ t', clearLineStart s c t = .ok t') ∧ (∃ t', fillArea s t nums off = .ok t') ∧
    (∃ t', repaintAll s t = .ok t') ∧ (∃ t', fillToEol s c cnt t = .ok t') := by
  have ht : WH t.lw t.lh t := ⟨rfl, rfl⟩
  obtain ⟨t1, h1, _⟩ := ok_exists (clearBufferDown_ok t.lw t.lh hw s c t ht)
  obtain ⟨t2, h2, _⟩ := ok_exists (clearBufferUp_ok t.lw t.lh hw s c t ht)
  obtain ⟨t3, h3, _⟩ := ok_exists (clearLine_ok t.lw t.lh hw s c t ht)
  obtain ⟨t4, h4, _⟩ := ok_exists (clearLineEnd_ok t.lw t.lh hw s c t ht)
  obtain ⟨t5, h5, _⟩ := ok_exists (clearLineStart_ok t.lw t.lh hw s c t ht)
  obtain ⟨t6, h6, _⟩ := ok_exists (fillArea_ok t.lw t.lh hw s t nums off ht hn)
  obtain ⟨t7, h7, _⟩ := ok_exists (repaintAll_ok t.lw t.lh hw s t ht)
  obtain ⟨t8, h8, _⟩ := ok_exists (fillToEol_ok t.lw t.lh hw s c cnt t ht)
  exact ⟨⟨t1, h1⟩, ⟨t2, h2⟩, ⟨t3, h3⟩, ⟨t4, h4⟩, ⟨t5, h5⟩, ⟨t6, h6⟩, ⟨t7, h7⟩, ⟨t8, h8⟩⟩

/-! ## the call sites provide the preconditions -/

/-- everything the operations above ask for follows from C01's invariant `GoodSt` (fields cited) and `BwOk`:
    cursor column / row `>= 0` (`CurOk`), terminal width `>= 1` (`ScrOk.tw1`), bottom margin `>= 0` (`ScrOk.mtb`),
    last editable column `>= 0` (`ScrOk.mlr` with margins, `BwOk` without) -/
theorem call_sites_provide (st : St) (hg : GoodSt st) (hb : BwOk st.s) :
    0 ≤ st.c.x ∧ 0 ≤ st.c.y ∧ 1 ≤ st.s.tw ∧ BottomOk st.s ∧ 0 ≤ lastCol st.s :=
  ⟨hg.2.1.1, hg.2.1.2.2.1, hg.1.tw1, bottomOk_of_scrOk _ hg.1, lastCol_nonneg _ hg.1 hb⟩

/-- the part of the precondition that `GoodSt` does not contain: the buffer width stays in 1..=132 along every
    stream (only `clear_screen` / `Caret::ff` write it, with the terminal width) -/
theorem bw_reachable (w h : Int) (hw1 : 1 ≤ w) (hw2 : w ≤ 132) (hh1 : 1 ≤ h) (hh2 : h ≤ 60)
    (cfg : Cfg) (o : Nat → Orc) (bytes : List Char) (t0 : Tab) (x : JSt)
    (hrun : runJ cfg o (initSt w h, { t0 with lw := w }) bytes = .ok x) : BwOk x.1.s ∧ GoodSt x.1 ∧ x.2.lw = w := by
  have hj : JGood w (initSt w h, { t0 with lw := w }) := ⟨initSt_good w h hw1 hw2 hh1 hh2, ⟨hw1, hw2⟩, rfl⟩
  have h := runJ_good w (by omega) cfg o bytes _ hj
  rw [hrun] at h
  exact ⟨h.2.1, h.1, h.2.2⟩

/-! ## streams -/

/-- ANSI (all four music options): for every initial row table `rows0` — any shape, any length — and layer height,
    no stream makes a content operation panic; a run stops at most at the `i32` guard of the geometry model -/
theorem rows_total (w h : Int) (hw1 : 1 ≤ w) (hw2 : w ≤ 132) (hh1 : 1 ≤ h) (hh2 : h ≤ 60)
    (cfg : Cfg) (o : Nat → Orc) (rows0 : List Nat) (lh0 : Int) (bytes : List Char) (e : JErr)
    (hrun : runJ cfg o (initSt w h, { rows := rows0, lw := w, lh := lh0 }) bytes = .error e) :
    ∃ site, e = JErr.geo (Panic.overflow site) := by
  have hj : JGood w (initSt w h, { rows := rows0, lw := w, lh := lh0 }) :=
    ⟨initSt_good w h hw1 hw2 hh1 hh2, ⟨hw1, hw2⟩, rfl⟩
  have hg := runJ_good w (by omega) cfg o bytes _ hj
  rw [hrun] at hg
  exact hg

/-- the same from any state that satisfies the invariant (e.g. after any prefix), not only the initial one -/
theorem rows_total_from (cfg : Cfg) (o : Nat → Orc) (st : St) (t : Tab) (hg : GoodSt st) (hb : BwOk st.s) (hw : 0 ≤ t.lw)
    (bytes : List Char) (e : JErr) (hrun : runJ cfg o (st, t) bytes = .error e) :
    ∃ site, e = JErr.geo (Panic.overflow site) := by
  have h := runJ_good t.lw hw cfg o bytes (st, t) ⟨hg, hb, rfl⟩
  rw [hrun] at h
  exact h

/-- Avatar, PCBoard, Ctrl-A, Renegade -/
theorem rows_total_wrapped (em : Emu) (w h : Int) (hw1 : 1 ≤ w) (hw2 : w ≤ 132) (hh1 : 1 ≤ h) (hh2 : h ≤ 60)
    (o : Nat → Orc) (rows0 : List Nat) (lh0 : Int) (bytes : List Char) (e : JErr)
    (hrun : wrunJ em o (initW w h, { rows := rows0, lw := w, lh := lh0 }) bytes = .error e) :
    ∃ site, e = JErr.geo (Panic.overflow site) := by
  have hj : WGood w (initW w h, { rows := rows0, lw := w, lh := lh0 }) :=
    ⟨initSt_good w h hw1 hw2 hh1 hh2, ⟨hw1, hw2⟩, rfl⟩
  have hg := wrunJ_good w (by omega) em o bytes _ hj
  rw [hrun] at hg
  exact hg

/-- ASCII, ATASCII, PETSCII, Viewdata, Mode 7 — for every sequence of `fill_to_eol` counts (the one content-dependent
    loop bound), every initial flag setting, every initial row table -/
theorem rows_total_bytes (em : Emu2) (w h : Int) (hw1 : 1 ≤ w) (hw2 : w ≤ 132) (hh1 : 1 ≤ h) (hh2 : h ≤ 60)
    (ox : OX) (rows0 : List Nat) (lh0 : Int) (bytes : List (Char × Nat)) (e : JErr)
    (hrun : orunJ em (initO w h, ox, { rows := rows0, lw := w, lh := lh0 }) bytes = .error e) :
    ∃ site, e = JErr.geo (Panic.overflow site) := by
  have hi := initO_good w h hw1 hw2 hh1 hh2
  have hj : OGood w em (initO w h, ox, { rows := rows0, lw := w, lh := lh0 }) :=
    ⟨hi.1, fun _ => hi.2, ⟨hw1, hw2⟩, rfl⟩
  have hg := orunJ_good w (by omega) em bytes _ hj
  rw [hrun] at hg
  exact hg

/-! ## the composition is faithful, and shape facts -/

/-- the joint model's geometry / parser-state component IS `Term.run` (macro replays included): the states the
    row-table theorems quantify over are the states C01 / C09 speak about -/
theorem rows_refine_term (cfg : Cfg) (o : Nat → Orc) (bytes : List Char) (x x' : JSt)
    (h : runJ cfg o x bytes = .ok x') : run cfg o x.1 bytes = .ok x'.1 := runJ_refines cfg o bytes x x' h

/-- …and for the four wrappers, per character -/
theorem rows_refine_wrapped (em : Emu) (o : Nat → Orc) (x x' : WJ) (ch : Char) (out : Out)
    (h : wstepJ em o x ch = .ok (x', out)) : wstep em o x.1 ch = .ok (x'.1, out) := wstepJ_refines em o x x' ch out h

/-- Viewdata / Mode 7 (fixed 40x24 page): after every stream — and for every sequence of `fill_to_eol` counts —
    layer 0 has at most 24 rows and every row that exists has exactly 40 cells -/
theorem rows_shape_page (em : Emu2) (he : em = .viewdata ∨ em = .mode7) (w h : Int) (ox : OX) (bytes : List (Char × Nat)) (x : OJ)
    (hrun : orunJ em (initO w h, ox, initTab 40 24) bytes = .ok x) :
    x.2.2.rows.length ≤ 24 ∧ (∀ n ∈ x.2.2.rows, n = 40) ∧ x.2.2.lw = 40 ∧ x.2.2.lh = 24 := by
  have h0 : PageTab (initTab 40 24) := by
    refine ⟨rfl, rfl, ?_, ?_⟩
    · simp [initTab]
    · intro n hn
      simp only [initTab] at hn
      exact (List.mem_replicate.mp hn).2
  have hp := orunJ_page em he bytes _ x h0 hrun
  exact ⟨hp.2.2.1, hp.2.2.2, hp.1, hp.2.1⟩

/-- hence the one content-dependent loop bound is irrelevant for the row table of a page: `fill_to_eol` with any
    count `>= 1` gives what count 1 gives (the correspondence driver passes 1) -/
theorem fill_count_irrelevant (s : Scr) (c : Car) (cnt : Nat) (t : Tab) (h : PageTab t) (htw : s.tw = 40) (hc : 1 ≤ cnt) :
    fillToEol s c cnt t = fillToEol s c 1 t := IcyVerif.Rows.fill_count_irrelevant s c cnt t h htw hc

/-- non-vacuity: a Viewdata page cleared, a character, line down, `ESC A` (alpha red: `fill_to_eol` after the cell)
    and a Mode 7 page cleared, two line feeds, code 129 (`fill_to_eol` before the cell), a character, backspace -/
example : (match orunJ .viewdata (initO 40 24, {}, initTab 40 24)
      [(Char.ofNat 12, 1), ('A', 1), (Char.ofNat 10, 1), (Char.ofNat 27, 1), ('A', 7), ('B', 1)] with
    | .ok x => (x.2.2.rows, x.2.1.vdEsc, x.1.c.x, x.1.c.y) | .error _ => ([], true, -1, -1)) = ([40, 40], false, 3, 1) := by
  decide +kernel
example : (match orunJ .mode7 (initO 40 24, {}, initTab 40 24)
      [(Char.ofNat 12, 1), (Char.ofNat 30, 1), (Char.ofNat 10, 1), (Char.ofNat 10, 1), (Char.ofNat 129, 3), ('B', 1), (Char.ofNat 127, 1)] with
    | .ok x => (x.2.2.rows, x.2.1.graphic, x.1.c.x, x.1.c.y) | .error _ => ([], true, -1, -1)) = ([40, 40, 40], false, 1, 2) := by
  decide +kernel
/-- the page shape is what `fill_count_irrelevant` asks for -/
example : PageTab (initTab 40 24) ∧ PageTab { rows := [40, 40], lw := 40, lh := 24 } ∧ PageTab { rows := [], lw := 40, lh := 24 } := by
  refine ⟨⟨rfl, rfl, by decide, ?_⟩, ⟨rfl, rfl, by decide, ?_⟩, ⟨rfl, rfl, by decide, ?_⟩⟩
  · intro n hn; simp only [initTab] at hn; exact (List.mem_replicate.mp hn).2
  · intro n hn; simp at hn; omega
  · intro n hn; simp at hn

/-! ## tie to the source: every panic-capable line of the transcribed functions is accounted for -/

/-- lines of the transcribed functions (`tools/gens/rows.py`: `line.rs`, `layer.rs`, `parsers/mod.rs`, the rectangle
    commands, PETSCII `update_shift_mode`, Viewdata / Mode 7 `fill_to_eol`) that hold a construct which can panic on a
    row table — index, `insert`, `remove`, `resize`, `with_capacity`, `as usize`, `assert!`, plain arithmetic — as 48-bit
    fingerprints of `file::fn::line`; next to each the model operation that accounts for it -/
def knownRowSiteIds : List Nat := [
  230223507486268,   -- line.rs with_capacity: chars: Vec::with_capacity(capacity as usize),  -> lineWithCapacity
  236040303460883,   -- line.rs create: chars.resize(width as usize, AttributedChar::invisible());  -> lineCreate
  14614071229328,   -- line.rs insert_char: if index > self.chars.len() as i32 {  -> lineInsertChar / lenInsert
  53204503163436,   -- line.rs insert_char: self.chars.resize(index as usize, AttributedChar::invisible());  -> lineInsertChar / lenInsert
  276448627955115,   -- line.rs insert_char: self.chars.insert(index as usize, char_opt);  -> lineInsertChar / lenInsert
  117768734283723,   -- line.rs set_char: if index >= self.chars.len() as i32 {  -> lineSetChar
  111461059992350,   -- line.rs set_char: self.chars.resize(index as usize + 1, AttributedChar::invisible());  -> lineSetChar
  178587328118532,   -- line.rs set_char: self.chars[index as usize] = char;  -> lineSetChar
  266726824680651,   -- layer.rs get_char: if y < self.lines.len() as i32 {  -> layerGetChar / vecIndex
  199912672046214,   -- layer.rs get_char: let cur_line = &self.lines[y as usize];  -> layerGetChar / vecIndex
  50423184617378,   -- layer.rs get_char: if pos.x < cur_line.chars.len() as i32 {  -> layerGetChar / vecIndex
  186665699510235,   -- layer.rs get_char: return cur_line.chars[pos.x as usize];  -> layerGetChar / vecIndex
  280475697739295,   -- layer.rs set_char: if pos.y >= self.lines.len() as i32 {  -> layerSetChar / vecResize / vecIndex
  173629472008027,   -- layer.rs set_char: self.lines.resize(pos.y as usize + 1, Line::create(self.size.width));  -> layerSetChar / vecResize / vecIndex
  108385867269118,   -- layer.rs set_char: let cur_line = &mut self.lines[pos.y as usize];  -> layerSetChar / vecResize / vecIndex
  270871660061561,   -- layer.rs remove_line: assert!(!(index < 0 || index >= self.lines.len() as i32), "line out of  -> layerRemoveLine / vecRemove
  67290325988950,   -- layer.rs remove_line: self.lines.remove(index as usize);  -> layerRemoveLine / vecRemove
  32926594143392,   -- layer.rs insert_line: assert!(index >= 0, "line out of range");  -> layerInsertLine / vecResize / vecInsert
  114755978265201,   -- layer.rs insert_line: if index > self.lines.len() as i32 {  -> layerInsertLine / vecResize / vecInsert
  74259277944173,   -- layer.rs insert_line: self.lines.resize(index as usize, Line::create(self.size.width));  -> layerInsertLine / vecResize / vecInsert
  231912293552580,   -- layer.rs insert_line: self.lines.insert(index as usize, line);  -> layerInsertLine / vecResize / vecInsert
  52359739054161,   -- mod.rs lf: self.pos.y += 1;  -> lfT (cursor / height arithmetic: Term.lf under RangeOk)
  64836492183899,   -- mod.rs lf: while self.pos.y >= buf.layers[current_layer].lines.len() as i32 {  -> lfT (cursor / height arithmetic: Term.lf under RangeOk)
  17828038523406,   -- mod.rs lf: let len = buf.layers[current_layer].lines.len();  -> lfT (cursor / height arithmetic: Term.lf under RangeOk)
  22040090423069,   -- mod.rs lf: buf.layers[current_layer].lines.insert(len, Line::with_capacity(buffer  -> lfT (cursor / height arithmetic: Term.lf under RangeOk)
  139275977982547,   -- mod.rs lf: if self.pos.y + 1 > buf.get_height() {  -> lfT (cursor / height arithmetic: Term.lf under RangeOk)
  3119638250569,   -- mod.rs lf: buf.set_height(self.pos.y + 1);  -> lfT (cursor / height arithmetic: Term.lf under RangeOk)
  178995656295425,   -- mod.rs ff: buf.layers[current_layer].clear();  -> ffT
  253981259807395,   -- mod.rs bs: self.pos.x = max(0, self.pos.x - 1);  -> bsT (x - 1: Term, RangeOk)
  173494019950347,   -- mod.rs bs: buf.layers[current_layer].set_char(self.pos, AttributedChar::new(' ',   -> bsT (x - 1: Term, RangeOk)
  42233812355712,   -- mod.rs del: if let Some(line) = buf.layers[current_layer].lines.get_mut(self.pos.y  -> delT / vecGet? / lenRemove
  65854378053871,   -- mod.rs del: let i = self.pos.x as usize;  -> delT / vecGet? / lenRemove
  14447974541024,   -- mod.rs del: line.chars.remove(i);  -> delT / vecGet? / lenRemove
  111394294686096,   -- mod.rs ins: if let Some(line) = buf.layers[current_layer].lines.get_mut(self.pos.y  -> insT / vecGet? / lenInsert
  2741495256236,   -- mod.rs ins: let i = self.pos.x as usize;  -> insT / vecGet? / lenInsert
  211599304924765,   -- mod.rs ins: line.chars.insert(i, AttributedChar::new(' ', self.attribute));  -> insT / vecGet? / lenInsert
  3038266446277,   -- mod.rs erase_charcter: let number = min(buf.terminal_state.get_width() - i, number);  -> echT / vecGet? / lineSetChar (i <= tw)
  108397827410146,   -- mod.rs erase_charcter: if let Some(line) = buf.layers[current_layer].lines.get_mut(self.pos.y  -> echT / vecGet? / lineSetChar (i <= tw)
  234904464757095,   -- mod.rs erase_charcter: i += 1;  -> echT / vecGet? / lineSetChar (i <= tw)
  68876192126923,   -- mod.rs check_scrolling_on_caret_down: self.pos.y -= 1;  -> checkScrollDownT (y - 1: Term.checkScrollDown, RangeOk)
  265538375532455,   -- mod.rs print_char: let buffer_width = self.layers[layer].get_width();  -> printCharT (cursor arithmetic: Term.printChar under RangeOk)
  56144853267921,   -- mod.rs print_char: let layer = &mut self.layers[layer];  -> printCharT (cursor arithmetic: Term.printChar under RangeOk)
  143988019646827,   -- mod.rs print_char: if layer.lines.len() < caret.pos.y as usize + 1 {  -> printCharT (cursor arithmetic: Term.printChar under RangeOk)
  212788175222243,   -- mod.rs print_char: layer.lines.resize(caret.pos.y as usize + 1, Line::with_capacity(buffe  -> printCharT (cursor arithmetic: Term.printChar under RangeOk)
  205817013324488,   -- mod.rs print_char: layer.lines[caret.pos.y as usize].insert_char(caret.pos.x, AttributedC  -> printCharT (cursor arithmetic: Term.printChar under RangeOk)
  250071657854852,   -- mod.rs print_char: if caret.pos.y + 1 > self.layers[layer].get_height() {  -> printCharT (cursor arithmetic: Term.printChar under RangeOk)
  198515176035408,   -- mod.rs print_char: self.layers[layer].set_height(caret.pos.y + 1);  -> printCharT (cursor arithmetic: Term.printChar under RangeOk)
  84730472089218,   -- mod.rs print_char: if self.is_terminal_buffer && caret.pos.y + 1 > self.get_height() {  -> printCharT (cursor arithmetic: Term.printChar under RangeOk)
  172890306727568,   -- mod.rs print_char: self.set_height(caret.pos.y + 1);  -> printCharT (cursor arithmetic: Term.printChar under RangeOk)
  12442952725967,   -- mod.rs print_char: self.layers[layer].set_char(caret.pos, ch);  -> printCharT (cursor arithmetic: Term.printChar under RangeOk)
  104770377232760,   -- mod.rs print_char: caret.pos.x += 1;  -> printCharT (cursor arithmetic: Term.printChar under RangeOk)
  209802778718296,   -- mod.rs print_char: caret.pos.x -= 1;  -> printCharT (cursor arithmetic: Term.printChar under RangeOk)
  202342250197032,   -- mod.rs scroll_up: let layer = &mut self.layers[layer];  -> scrollUp
  260093648558987,   -- mod.rs scroll_up: let ch = layer.get_char((x, y + 1));  -> scrollUp
  109325451373148,   -- mod.rs scroll_down: let layer = &mut self.layers[layer];  -> scrollDown
  148232653321549,   -- mod.rs scroll_down: ((start_line + 1)..=end_line).rev().for_each(|y| {  -> scrollDown
  267753034374820,   -- mod.rs scroll_down: let ch = layer.get_char((x, y - 1));  -> scrollDown
  121183521329718,   -- mod.rs scroll_left: let start_column = self.get_first_editable_column() as usize;  -> scrollLeft
  157205104946483,   -- mod.rs scroll_left: let end_column = self.get_last_editable_column() + 1;  -> scrollLeft
  63475494844259,   -- mod.rs scroll_left: let layer = &mut self.layers[layer];  -> scrollLeft
  225265882995102,   -- mod.rs scroll_left: let Some(line) = layer.lines.get_mut(i as usize) else {  -> scrollLeft
  52577683476571,   -- mod.rs scroll_left: line.chars.remove(start_column);  -> scrollLeft
  53166060668530,   -- mod.rs scroll_right: let start_column = self.get_first_editable_column() as usize;  -> scrollRight
  182001885063598,   -- mod.rs scroll_right: let end_column = self.get_last_editable_column() as usize;  -> scrollRight
  249927265287085,   -- mod.rs scroll_right: let layer = &mut self.layers[layer];  -> scrollRight
  90528177338913,   -- mod.rs scroll_right: let Some(line) = layer.lines.get_mut(i as usize) else {  -> scrollRight
  56726102613943,   -- mod.rs scroll_right: line.chars.insert(start_column, AttributedChar::default());  -> scrollRight
  114653783722302,   -- mod.rs scroll_right: if end_column + 1 < line.chars.len() {  -> scrollRight
  250223690500357,   -- mod.rs scroll_right: line.chars.remove(end_column + 1);  -> scrollRight
  188366832171476,   -- mod.rs clear_screen: let layer = &mut self.layers[layer];  -> clearScreenT
  276816021465839,   -- mod.rs clear_buffer_down: self.layers[layer].set_char((x, y), ch);  -> clearBufferDown
  196057693410987,   -- mod.rs clear_buffer_up: self.layers[layer].set_char((x, y), ch);  -> clearBufferUp
  60733979644757,   -- mod.rs clear_line: self.layers[layer].set_char(pos, ch);  -> clearLine
  151043576864471,   -- mod.rs clear_line_end: self.layers[layer].set_char(pos, ch);  -> clearLineEnd
  166080473533327,   -- mod.rs clear_line_start: self.layers[layer].set_char(pos, ch);  -> clearLineStart
  276450746656449,   -- mod.rs remove_terminal_line: if line >= self.layers[layer].get_line_count() {  -> removeTerminalLine
  129127928279840,   -- mod.rs remove_terminal_line: self.layers[layer].remove_line(line);  -> removeTerminalLine
  121817665287646,   -- mod.rs remove_terminal_line: let buffer_width = self.layers[layer].get_width();  -> removeTerminalLine
  148163647732085,   -- mod.rs remove_terminal_line: self.layers[layer].insert_line(end, Line::with_capacity(buffer_width))  -> removeTerminalLine
  203026226312761,   -- mod.rs insert_terminal_line: if end < self.layers[layer].get_line_count() {  -> insertTerminalLine / vecRemove
  215699106534068,   -- mod.rs insert_terminal_line: self.layers[layer].lines.remove(end as usize);  -> insertTerminalLine / vecRemove
  279427612147112,   -- mod.rs insert_terminal_line: let buffer_width = self.layers[layer].get_width();  -> insertTerminalLine / vecRemove
  85717605795231,   -- mod.rs insert_terminal_line: self.layers[layer].insert_line(line, Line::with_capacity(buffer_width)  -> insertTerminalLine / vecRemove
  141224701608666,   -- ansi/ansi_commands.rs get_rect_area: let top_line: i32 = self.parsed_numbers[offset]  -> rectArea / vecIndex (values <= max(rows, 60), 132)
  83644966758342,   -- ansi/ansi_commands.rs get_rect_area: - 1;  -> rectArea / vecIndex (values <= max(rows, 60), 132)
  273656108723769,   -- ansi/ansi_commands.rs get_rect_area: let left_column = self.parsed_numbers[offset + 1].max(1).min(buf.termi  -> rectArea / vecIndex (values <= max(rows, 60), 132)
  70387643001391,   -- ansi/ansi_commands.rs get_rect_area: let bottom_line = self.parsed_numbers[offset + 2]  -> rectArea / vecIndex (values <= max(rows, 60), 132)
  201188818607981,   -- ansi/ansi_commands.rs get_rect_area: - 1;#2  -> rectArea / vecIndex (values <= max(rows, 60), 132)
  213892892592518,   -- ansi/ansi_commands.rs get_rect_area: let right_column = self.parsed_numbers[offset + 3].max(1).min(buf.term  -> rectArea / vecIndex (values <= max(rows, 60), 132)
  195109452538794,   -- ansi/ansi_commands.rs fill_rectangular_area: let Some(ch) = char::from_u32(self.parsed_numbers[0] as u32) else {  -> fillArea (length guard 5)
  54014624447630,   -- ansi/ansi_commands.rs fill_rectangular_area: buf.layers[0].set_char((x, y), AttributedChar::new(ch, caret.attribute  -> fillArea (length guard 5)
  36918867303529,   -- ansi/ansi_commands.rs erase_rectangular_area: buf.layers[0].set_char((x, y), AttributedChar::default());  -> fillArea
  8826816896427,   -- ansi/ansi_commands.rs selective_erase_rectangular_area: buf.layers[0].set_char((x, y), AttributedChar::new(' ', ch.attribute))  -> fillArea
  245724265892178,   -- petscii/mod.rs update_shift_mode: buf.layers[current_layer].set_char((x, y), ch);  -> repaintAll
  25386756930936,   -- viewdata/mod.rs fill_to_eol: buf.layers[0].set_char(p, ch);  -> fillToEol
  14179077885193    -- mode7/mod.rs fill_to_eol: buf.layers[0].set_char(p, ch);  -> fillToEol
]

open IcyVerif.Gen.RowSites in
/-- the translator's inventory of the current source has no such line outside the table: a new index / insert /
    remove / cast in these functions is an undischarged obligation before any generator reaches it (the guards the
    totality proofs rely on are pinned by the translator itself, which fails when one disappears) -/
theorem row_sites_known : rowSiteIds.all (fun l => knownRowSiteIds.contains l) = true := by decide +kernel
open IcyVerif.Gen.RowSites in
theorem row_sites_complete : rowSiteIds.length = rowSites.length ∧ knownRowSiteIds.length = 96 := by decide +kernel

/-! ## non-vacuity -/

/-- the preconditions are not idle: outside them the modelled operations DO panic (these are the shapes of the
    historical crashes: negative margin as an index, cursor column -1 in ECH, insert-mode print at row -1,
    `scroll_right` with an empty buffer width) -/
def panics {α : Type} (r : RRes α) : Bool := match r with | .error _ => true | .ok _ => false
example : panics (insertTerminalLine { initScr 5 3 with mtb := some (-1, -1) } 0 (initTab 5 3)) = true := by decide +kernel
example : panics (removeTerminalLine { initScr 5 3 with mtb := some (-1, -1) } 0 (initTab 5 3)) = true := by decide +kernel
example : panics (echT (initScr 5 3) { x := -1, y := 0, ins := false } 1 (initTab 5 3)) = true := by decide +kernel
example : panics (printCharT (initScr 5 3) { x := 0, y := -1, ins := true } (initTab 5 3)) = true := by decide +kernel
example : panics (scrollRight { initScr 5 3 with bw := 0 } (initTab 5 3)) = true := by decide +kernel
example : panics (scrollLeft { initScr 5 3 with bw := -3 } (initTab 5 3)) = true := by decide +kernel
/-- and the same operations with the preconditions met, on a ragged table (rows of 0, 7 and 2 cells, 5 columns) -/
example : (panics (insertTerminalLine { initScr 5 3 with mtb := some (0, 2) } 1 { rows := [0, 7, 2], lw := 5, lh := 3 }),
    panics (scrollRight (initScr 5 3) { rows := [0, 7, 2], lw := 5, lh := 3 }),
    panics (scrollLeft { initScr 5 3 with mlr := some (1, 3) } { rows := [0, 7, 2], lw := 5, lh := 3 })) = (false, false, false) := by
  decide +kernel

/-- …and inside them the operations work on ragged tables: a 5x3 screen cleared, two short rows built with line
    feeds, left/right margins 2..4, then scroll left, scroll right, insert line, delete line, insert-mode print -/
example : (match runJ { musicOpt := 0, bsCtrl := true } (fun _ => { lineLen := 0, extOk := true }) (initSt 5 3, initTab 5 3)
      "\x1b[2Jab\nc\n\x1b[?69h\x1b[2;4s\x1b[1;1H\x1b[ @\x1b[2 A\x1b[L\x1b[3;1H\x1b[M\x1b[4hXY".toList with
    | .ok x => (x.2.rows, x.2.lh, x.1.c.x, x.1.c.y) | .error _ => ([], 0, -1, -1)) = ([0, 5, 2], 3, 2, 2) := by decide +kernel

/-- the macro replay threads the row table: macro 1 = "insert line, line feed", invoked twice -/
example : (match runJ { musicOpt := 0, bsCtrl := true } (fun _ => { lineLen := 0, extOk := true }) (initSt 4 2, initTab 4 2)
      "\x1bP1;0;0!z\x1b[L\n\x1b\\\x1b[1*z\x1b[1*z".toList with
    | .ok x => (x.2.rows, x.1.c.y) | .error _ => ([], -1)) = ([0, 0, 4, 4], 2) := by decide +kernel

end IcyVerif.C01
