import IcyVerif.Props.C12
import IcyVerif.Lemmas.ColorOptLoaded
set_option linter.unusedSimpArgs false
set_option linter.unusedVariables false
/-! # C12, fonts that are NOT built in: wider / narrower than 8 pixels, loaded from files, embedded in art files

The property quantifies over the built-in font pages (`builtin_font_ok`).  `optimize_preserves_document` needs `FontsOk`,
so this file says exactly which other fonts satisfy it, in terms of what the code does:

* `get_shape` counts `u8::count_ones` of every data byte — at most 8 per byte — and compares with `width·height`.
  - width > 8 (PSF2 only): `glyphs_from_u8_data` cuts `height` bytes per glyph, so the count is ≤ 8·height < width·height:
    NO glyph is ever `Block` (`wide_font_never_block`); blank glyphs are still exact.  `render_to_rgba` paints
    `min(width, width of font 0)` columns and panics on column 8 (`128u8 >> 8`): the model has that panic as a pixel
    value, so the theorem also says original and optimised buffer panic alike.
  - width = 8 (PSF1, raw `.fXX` files, fonts embedded in XBin/ADF/IDF, every built-in font): count = 8·height forces every
    byte to 0xFF (`eight_wide_font_ok`).
  - width < 8 (PSF2 only): the count includes the `8 - width` padding bits that are never rendered.  With clear padding
    bits (`FontNoStray`) `Block` is exact (`narrow_font_ok`); otherwise a glyph can be `Block` with a visible
    background pixel (`stray_bits_changes_picture`, Props/C12.lean).
* normalisation replaces a blank glyph by `' '` when the font has a `' '` at all — without looking at its shape.
  `SpaceBlank` (blank glyph exists ⇒ `' '` blank) is therefore necessary: `space_not_blank_changes_cell` is the general
  converse, `eight_wide_font_exact` the resulting EXACT characterisation for 8-pixel fonts:
  `FontOk f ↔ the optimiser step preserves the rendering of every cell`.
* what the loaders guarantee (C17's model of `src/fonts.rs`): every glyph has `height` bytes (`loaded_font_rows_len`),
  PSF1/raw fonts are 8 wide (`loaded_psf1_raw_font_ok_iff`).

None of this is inside the property's quantifier (built-in fonts), so a custom font whose `' '` is not blank is NOT a
finding of C12; the harness replays such fonts (built through the real loaders) for the correspondence of the model and
for the two exactness theorems, with the oracle switched off. -/
namespace IcyVerif.C12
open IcyVerif.Comp IcyVerif.ColorOpt IcyVerif.Gen.Fonts IcyVerif.Font

/-- A font wider than 8 pixels never has a glyph classified `Block`. -/
theorem wide_font_never_block (f : ColorOpt.Font) (hw : 8 < f.w) (rows : List Nat) (hl : rows.length = f.h) :
    shape f rows ≠ .block := by
  intro hs
  exact wide_never_block hw hl (shape_block_ne hs) (shape_block hs)

/-- … hence it is `FontOk` as soon as its glyphs have `height` bytes and its `' '` is blank. -/
theorem wide_font_ok (f : ColorOpt.Font) (hw : 8 < f.w) (hl : RowsLen f) (hs : SpaceBlank f) : FontOk f :=
  fontOk_wide hw hl hs

/-- An 8-pixel font: the same (bit count 8·height forces every byte to be 0xFF). -/
theorem eight_wide_font_ok (f : ColorOpt.Font) (hw : f.w = 8) (hl : RowsLen f) (hs : SpaceBlank f) : FontOk f :=
  fontOk_eight hw hl hs

/-- A font narrower than 8 pixels: additionally no set bit outside the width. -/
theorem narrow_font_ok (f : ColorOpt.Font) (hw : f.w ≤ 8) (hl : RowsLen f) (hn : FontNoStray f) (hs : SpaceBlank f) :
    FontOk f :=
  fontOk_narrow hw hl hn hs

/-! ## fonts out of the loaders -/

/-- `BitFont::from_bytes` (PSF1, PSF2, raw): every glyph of the loaded font has exactly `height` data bytes. -/
theorem loaded_font_rows_len (d : List Nat) (b : BitFont) (h : fromBytes d = .ok b) : RowsLen (ofLoaded b) :=
  fromBytes_rowsLen h

/-- A font loaded from a file is `FontOk` when it is at least 8 pixels wide or has clear padding bits, and its `' '`
    is blank (if it has any blank glyph). -/
theorem loaded_font_ok (d : List Nat) (b : BitFont) (h : fromBytes d = .ok b)
    (hw : 8 ≤ (ofLoaded b).w ∨ FontNoStray (ofLoaded b)) (hs : SpaceBlank (ofLoaded b)) : FontOk (ofLoaded b) := by
  have hl := fromBytes_rowsLen h
  rcases hw with hw | hn
  · rcases Nat.lt_or_ge 8 (ofLoaded b).w with h8 | h8
    · exact fontOk_wide h8 hl hs
    · exact fontOk_eight (by omega) hl hs
  · rcases Nat.lt_or_ge 8 (ofLoaded b).w with h8 | h8
    · exact fontOk_wide h8 hl hs
    · exact fontOk_narrow h8 hl hn hs

/-- PSF1 and raw font files (everything that is not PSF2): `FontOk` EXACTLY when the `' '` glyph is blank (if any
    glyph is). -/
theorem loaded_psf1_raw_font_ok_iff (d : List Nat) (b : BitFont) (h : fromBytes d = .ok b)
    (hnot2 : ∀ a0 a1 a2 a3 rest, d = a0 :: a1 :: a2 :: a3 :: rest →
      (a0 = 0x36 ∧ a1 = 0x04) ∨ IcyVerif.Uni.le32 a0 a1 a2 a3 ≠ psf2Magic) :
    FontOk (ofLoaded b) ↔ SpaceBlank (ofLoaded b) :=
  ⟨fun hok => hok.space_blank, fun hs => fontOk_eight (fromBytes_width8 h hnot2) (fromBytes_rowsLen h) hs⟩

/-- The fonts embedded in XBin / ADF / IDF files (`BitFont::from_basic(8, height, data)` / `create_8`): the same. -/
theorem embedded_font_ok_iff (h : Nat) (data : List Nat) :
    FontOk (ofLoaded (fromBasic 8 h data)) ↔ SpaceBlank (ofLoaded (fromBasic 8 h data)) :=
  ⟨fun hok => hok.space_blank, fun hs => fontOk_eight rfl (fromBasic_rowsLen 8 h data) hs⟩

/-! ## the converse: `SpaceBlank` is necessary -/

theorem renderGlyph_px (w0 h0 : Nat) (f : ColorOpt.Font) (rows : List Nat) (fgc bgc : Rgb) {cy cx : Nat}
    (hcy : cy < h0) (hcx : cx < w0) :
    ((renderGlyph w0 h0 f rows fgc bgc)[cy]?.bind (·[cx]?)) =
      some (if cy < min f.h h0 ∧ cx < min f.w w0 then
        match rows[cy]? with
        | none => Px.panic
        | some b => if 8 ≤ cx then Px.panic else if bitSet b cx then Px.rgb fgc else Px.rgb bgc
      else Px.keep) := by
  unfold renderGlyph
  rw [List.getElem?_map, List.getElem?_range hcy]
  simp only [Option.map_some, Option.bind_some]
  rw [List.getElem?_map, List.getElem?_range hcx]
  rfl

/-- **Converse of `optimize_cell_preserves_render` w.r.t. the `' '` glyph.**  In ANY font that has a blank glyph `ch` (of
    `height` bytes) and a `' '` glyph with a set bit inside the rendered area, normalising the blank cell `ch` changes its
    rendering under every palette that tells colour 7 from colour 0. -/
theorem space_not_blank_changes_cell (f : ColorOpt.Font) (ch : Nat) (rows rows' : List Nat) (cy cx b : Nat)
    (hg : f.glyph ch = some rows) (hb : ones rows = 0) (hl : rows.length = f.h)
    (hs : f.glyph spaceCh = some rows') (hrow : rows'[cy]? = some b) (hcy : cy < f.h) (hcx : cx < f.w) (hcx8 : cx < 8)
    (hbit : bitSet b cx = true) (pal : Nat → Rgb) (hpal : pal 7 ≠ pal 0) :
    ∃ c', optCell (fun _ => some f) true ⟨7, 0, 0, 0⟩ ⟨ch, ⟨0, 0, 0, 0⟩⟩ = some c' ∧
      renderCell (fun _ => some f) pal f.w f.h c' ≠ renderCell (fun _ => some f) pal f.w f.h ⟨ch, ⟨0, 0, 0, 0⟩⟩ := by
  have hshape : shape f rows = .whitespace := by unfold shape; simp [hb]
  refine ⟨⟨spaceCh, ⟨7, 0, 0, 0⟩⟩, ?_, ?_⟩
  · unfold optCell
    simp only [hg, hshape, hs, Option.isSome_some, Bool.and_self, if_true]
  · intro heq
    have h1 : renderCell (fun _ => some f) pal f.w f.h ⟨spaceCh, ⟨7, 0, 0, 0⟩⟩ = renderGlyph f.w f.h f rows' (pal 7) (pal 0) := by
      unfold renderCell
      simp only [hs]
      have : renderFg ⟨spaceCh, ⟨7, 0, 0, 0⟩⟩ = 7 := by decide
      rw [this]
    have h2 : renderCell (fun _ => some f) pal f.w f.h ⟨ch, ⟨0, 0, 0, 0⟩⟩ = renderGlyph f.w f.h f rows (pal 0) (pal 0) := by
      unfold renderCell
      simp only [hg]
      have : renderFg ⟨ch, ⟨0, 0, 0, 0⟩⟩ = 0 := by
        have e : renderFg ⟨ch, ⟨0, 0, 0, 0⟩⟩ = renderFg ⟨0, ⟨0, 0, 0, 0⟩⟩ := rfl
        rw [e]; decide
      rw [this]
    rw [h1, h2] at heq
    have e1 := renderGlyph_px f.w f.h f rows' (pal 7) (pal 0) hcy hcx
    have e2 := renderGlyph_px f.w f.h f rows (pal 0) (pal 0) hcy hcx
    rw [heq] at e1
    rw [e1] at e2
    have hin : cy < min f.h f.h ∧ cx < min f.w f.w := by simp [hcy, hcx]
    have h8 : ¬ 8 ≤ cx := by omega
    have hlt : cy < rows.length := by omega
    simp only [hin, and_self, if_true, hrow, h8, if_false, hbit, List.getElem?_eq_getElem hlt, Option.some.injEq] at e2
    have hz := bitSet_of_popcount_zero (blank_byte hb (List.getElem?_eq_getElem hlt)) hcx8
    simp only [hz, Bool.false_eq_true, if_false, Px.rgb.injEq] at e2
    exact hpal e2

theorem exists_set_bit {rows : List Nat} (h : ones rows ≠ 0) :
    ∃ (cy b i : Nat), rows[cy]? = some b ∧ i < 8 ∧ b.testBit i = true := by
  unfold ones at h
  induction rows with
  | nil => simp at h
  | cons a rows ih =>
    simp only [List.map_cons, List.sum_cons] at h
    by_cases ha : popcount8 a = 0
    · obtain ⟨cy, b, i, h1, h2, h3⟩ := ih (by omega)
      exact ⟨cy + 1, b, i, by rw [List.getElem?_cons_succ]; exact h1, h2, h3⟩
    · unfold popcount8 at ha
      have hne : (List.filter (fun i => a.testBit i) (List.range 8)) ≠ [] := by
        intro hnil; rw [hnil] at ha; exact ha rfl
      obtain ⟨i, hi⟩ := List.exists_mem_of_ne_nil _ hne
      have := List.mem_filter.mp hi
      exact ⟨0, a, i, rfl, List.mem_range.mp this.1, this.2⟩

/-- **Exact characterisation for 8-pixel fonts** (built-in fonts, PSF1, raw files, fonts embedded in art files): a font
    whose glyphs have `height` bytes is `FontOk` if and only if one step of the optimiser preserves the rendering of every
    cell, whatever the palette, the carried attribute and the `normalize_whitespaces` setting. -/
theorem eight_wide_font_exact (f : ColorOpt.Font) (hw : f.w = 8) (hl : RowsLen f) :
    FontOk f ↔ ∀ (pal : Nat → Rgb) (norm : Bool) (k : Attr) (c c' : Cell),
      optCell (fun _ => some f) norm k c = some c' →
      renderCell (fun _ => some f) pal f.w f.h c' = renderCell (fun _ => some f) pal f.w f.h c := by
  constructor
  · intro hok pal norm k c c' h
    have hoks : FontsOk (fun _ => some f) := by
      intro p g hg; cases hg; exact hok
    exact optimize_cell_preserves_render (fun _ => some f) pal f.w f.h norm k c c' hoks h
  · intro hall
    apply fontOk_eight hw hl
    intro ch rows rows' hg hb hs
    apply Classical.byContradiction
    intro hne
    obtain ⟨cy, b, i, hrow, hi, hbit⟩ := exists_set_bit hne
    have hcy : cy < f.h := by
      have := (List.getElem?_eq_some_iff.mp hrow).1
      rw [hl _ _ hs] at this; exact this
    have hcx8 : 7 - i < 8 := by omega
    have hbs : bitSet b (7 - i) = true := by
      rw [bitSet_eq_testBit b hcx8]
      have : 7 - (7 - i) = i := by omega
      rw [this]; exact hbit
    let pal : Nat → Rgb := fun n => if n = 7 then (1, 1, 1) else (0, 0, 0)
    obtain ⟨c', ho, hr⟩ := space_not_blank_changes_cell f ch rows rows' cy (7 - i) b hg hb (hl _ _ hg) hs hrow hcy
      (by omega) hcx8 hbs pal (by decide)
    exact hr (hall pal true _ _ _ ho)

/-! ## non-vacuity -/
section nonvacuity
/-- a raw 8x1 font file: 256 bytes, glyph `i` = `[i]` except `' '` and NUL, which are blank -/
def rawBytes : List Nat := (List.range 256).map fun i => if i = 32 then 0 else i
-- the loader accepts it, the font is 8x1, `' '` is blank, glyph 255 is a full block
example : ∃ b, fromBytes rawBytes = .ok b ∧ (ofLoaded b).w = 8 ∧ (ofLoaded b).h = 1 ∧
    (ofLoaded b).glyph 32 = some [0] ∧ (ofLoaded b).glyph 255 = some [255] := by
  refine ⟨⟨8, 1, 256, glyphsFromU8 1 rawBytes⟩, by decide +kernel, ?_⟩
  decide +kernel
-- a 9-wide font with a 2-byte glyph of 16 set bits: still not 9·2 = 18
example : shape ⟨9, 2, fun _ => some [255, 255]⟩ [255, 255] = .mixed := by decide
-- padding bits: 0xF3 in a 6-wide font has stray bits, 0xFC has not
example : noStrayByte 6 0xF3 = false ∧ noStrayByte 6 0xFC = true := by decide
-- the converse theorem's hypotheses are satisfiable: the font `fB` of Props/C12.lean (blank NUL, `' '` = 0x18)
example : ∃ c', optCell (fun _ => some fB) true ⟨7, 0, 0, 0⟩ ⟨0, ⟨0, 0, 0, 0⟩⟩ = some c' ∧
    renderCell (fun _ => some fB) palW fB.w fB.h c' ≠ renderCell (fun _ => some fB) palW fB.w fB.h ⟨0, ⟨0, 0, 0, 0⟩⟩ :=
  space_not_blank_changes_cell fB 0 [0] [24] 0 3 24 (by decide) (by decide) (by decide) (by decide) (by decide) (by decide)
    (by decide) (by decide) (by decide) palW (by decide)
end nonvacuity

end IcyVerif.C12
