import IcyVerif.Lemmas.BinFormatsResaveBin
set_option linter.unusedSimpArgs false
set_option linter.unusedVariables false
/-!
# C05, ArtWorx ADF: every file the loader accepts loads to a picture the writer reproduces
-/
namespace IcyVerif.BinFormats
open IcyVerif.XbCompress IcyVerif.Gen

/-- `v << 2 | v >> 4` of any byte is a colour component the 6-bit codec reproduces -/
theorem sixBit_expand6 : ∀ v, v < 256 → sixBit (expand6 v) = true := by decide +kernel

theorem getD_lt256 (bs : List Nat) (hb : ∀ b ∈ bs, b < 256) (i : Nat) : bs.getD i 0 < 256 := by
  rw [List.getD_eq_getElem?_getD]
  cases hg : bs[i]? with
  | none => simp
  | some v => exact hb v (List.mem_of_getElem? hg)

theorem pal16_fromEga (bs : List Nat) (hb : ∀ b ∈ bs, b < 256) : pal16 (fromEgaData bs) = true := by
  unfold pal16 fromEgaData
  simp only [Bool.and_eq_true, beq_iff_eq, List.length_map, List.all_eq_true, List.mem_map]
  refine ⟨egaOffsets_length, ?_⟩
  rintro c ⟨i, _, rfl⟩
  exact ⟨⟨sixBit_expand6 _ (getD_lt256 bs hb _), sixBit_expand6 _ (getD_lt256 bs hb _)⟩, sixBit_expand6 _ (getD_lt256 bs hb _)⟩

theorem crop_frame (b : LBuf) : SameFrame b b.crop := ⟨rfl, rfl, rfl, rfl, rfl, rfl⟩

structure AdfRange (s : Option Sauce.Sauce) (g : LBuf) : Prop where
  bw : g.bw = 80
  ice : g.ice = .ice
  pal : pal16 g.pal = true
  font : ∃ fd, g.fonts = [(0, mkFont 16 fd)] ∧ fd.length = 4096
  lh : g.lh = g.bh
  sauce : g.sauce = s.map metaOf
  cells : CellsOK (fun c => attrCell true c = true ∧ c.attr.page = 0) g.lines

theorem setSauce_sauce (b : LBuf) (r : Bool) (s : Option Sauce.Sauce) (hb : b.sauce = none) : (b.setSauce r s).sauce = s.map metaOf := by
  cases s with
  | none => exact hb
  | some s' => rfl

theorem setSauce_lines (b : LBuf) (r : Bool) (s : Option Sauce.Sauce) : (b.setSauce r s).lines = b.lines := by
  cases s with
  | none => rfl
  | some s' => unfold LBuf.setSauce; cases r <;> rfl

theorem adf_range (data : List Nat) (hb : ∀ b ∈ data, b < 256) (s : Option Sauce.Sauce) (g : LBuf) (h : adfLoad data s = .ok g) :
    AdfRange s g := by
  unfold adfLoad at h
  have hc : (BinFmt.adfClearsRows == 1) = true := by decide
  rw [hc] at h
  generalize hb0 : (LBuf.start BinFmt.adfStartW BinFmt.adfStartH true).setSauce true s = b0 at h
  have hl0 : b0.lines = [] := by rw [← hb0, setSauce_lines]; rfl
  have hs0 : b0.sauce = s.map metaOf := by rw [← hb0]; exact setSauce_sauce _ _ _ rfl
  simp only at h
  split at h
  · cases h
  · rename_i hlen
    cases data with
    | nil => cases h
    | cons ver rest =>
      simp only at h
      split at h
      · cases h
      · have hg := Out.ok.inj h
        have hrl : rest.length ≥ 4288 := by
          have : BinFmt.adfHeaderLength = 4289 := rfl
          simp only [List.length_cons, this] at hlen; omega
        have hbr : ∀ b ∈ rest, b < 256 := fun b hbm => hb b (by simp [hbm])
        generalize hcells : ((pairsOf ((rest.drop BinFmt.adfPaletteSize).drop BinFmt.adfFontSize)).map fun p => (⟨p.1, fromU8 true p.2⟩ : Cell)) = cells at hg
        generalize hb2 : ({ ({ b0 with bw := BinFmt.adfWidth, ice := IceMode.ice } : LBuf) with
            pal := fromEgaData (rest.take BinFmt.adfPaletteSize),
            fonts := [(0, mkFont 16 ((rest.drop BinFmt.adfPaletteSize).take BinFmt.adfFontSize))] } : LBuf) = b2 at hg
        have hfr := placeAll_frame true false 0 (BinFmt.adfWidth - 1) cells b2 0 0
        have hok := placeAll_lines (fun c => attrCell true c = true ∧ c.attr.page = 0) true false 0 (BinFmt.adfWidth - 1) cells b2 0 0
          (by rw [← hb2]; show CellsOK _ b0.lines; rw [hl0]; exact cellsOK_nil _)
          (by
            intro c hc _
            rw [← hcells] at hc
            obtain ⟨p, hp, rfl⟩ := List.mem_map.mp hc
            obtain ⟨h1, h2⟩ := pairsOf_mem _ p hp
            have m1 := List.mem_of_mem_drop (List.mem_of_mem_drop h1)
            have m2 := List.mem_of_mem_drop (List.mem_of_mem_drop h2)
            exact attrCell_fromU8 true _ _ (hbr _ m1) (hbr _ m2))
        rw [← hg]
        refine ⟨?_, ?_, ?_, ?_, rfl, ?_, cellsOK_crop _ _ hok⟩
        · show (placeAll true false 0 (BinFmt.adfWidth - 1) b2 0 0 cells).1.bw = 80
          rw [hfr.bw, ← hb2]; rfl
        · show (placeAll true false 0 (BinFmt.adfWidth - 1) b2 0 0 cells).1.ice = .ice
          rw [hfr.ice, ← hb2]
        · show pal16 (placeAll true false 0 (BinFmt.adfWidth - 1) b2 0 0 cells).1.pal = true
          rw [hfr.pal, ← hb2]
          exact pal16_fromEga _ (fun b hbm => hbr b (List.mem_of_mem_take hbm))
        · refine ⟨(rest.drop BinFmt.adfPaletteSize).take BinFmt.adfFontSize, ?_, ?_⟩
          · show (placeAll true false 0 (BinFmt.adfWidth - 1) b2 0 0 cells).1.fonts = _
            rw [hfr.fonts, ← hb2]
          · have h1 : BinFmt.adfPaletteSize = 192 := rfl
            have h2 : BinFmt.adfFontSize = 4096 := rfl
            rw [List.length_take, List.length_drop, h1, h2]; omega
        · show (placeAll true false 0 (BinFmt.adfWidth - 1) b2 0 0 cells).1.sauce = _
          rw [hfr.sauce, ← hb2]; exact hs0

theorem lookupFont_single' (f : Font) : lookupFont [(0, f)] 0 = some f := by
  unfold lookupFont; simp [List.lookup]

/-- a loaded ADF picture with at least one row is in the writer's domain -/
theorem adf_loaded_representable (o : Opts) (s : Option Sauce.Sauce) (g : LBuf) (hr : AdfRange s g) (hm : metaOk g.sauce = true)
    (hh : 1 ≤ g.bh) (hh2 : g.bh ≤ 65535) : Representable .adf o g.toPic = true := by
  unfold Representable
  have hwf := toPic_wellFormed g hh
  have hice : g.toPic.ice = .ice := hr.ice
  have hcells : allCells g.toPic (attrCell true) = true :=
    allCells_toPic _ _ g hr.cells (fun c _ hc => hc.1) (attrCell_dflt _) (attrCell_invisible _)
  have hpg : analyzeFontUsage g.toPic.rows.flatten = [0] :=
    toPic_usage_zero g hh (by rw [hr.bw]; decide) (fun l hl c hc hv => (hr.cells l hl c hc hv).2)
  obtain ⟨fd, hfd, hfl⟩ := hr.font
  have hfont : lookupFont g.toPic.fonts 0 = some (mkFont 16 fd) := by
    show lookupFont g.fonts 0 = _; rw [hfd]; exact lookupFont_single' _
  have hw : g.toPic.w = 80 := hr.bw
  have hh' : g.toPic.h ≤ 65535 := by show g.bh.toNat ≤ 65535; omega
  simp only [Bool.and_eq_true, beq_iff_eq, decide_eq_true_eq, hfont]
  refine ⟨⟨hm, hwf⟩, ⟨⟨⟨⟨⟨⟨hw, hh'⟩, hice⟩, hcells⟩, hr.pal⟩, hpg⟩, ?_⟩⟩
  unfold font16 mkFont; simp [hfl]

end IcyVerif.BinFormats
