import IcyVerif.Model.RowsOther
set_option linter.unusedSimpArgs false
set_option linter.unusedVariables false
/-! # The joint step IS `Term.step` with the row table carried along
`stepJ` does not call `Term.step` for characters that invoke a macro (it has to thread the row table through the
replay); this file shows that its geometry / parser-state component nevertheless equals `Term.step` — so every theorem
of C01 / C09 about `TermGeo` speaks about the same states the row-table theorems quantify over. -/
namespace IcyVerif.Rows
open IcyVerif.Term

/-- a character that invokes a macro: `stepCore` is exactly the invoker applied to the state `invokes` names -/
theorem stepCore_invokes (cfg : Cfg) (o : Orc) (inv : Int → St → Res St) (st : St) (ch : Char) (id : Int) (d : St)
    (hg : RangeOk st.s st.c ∧ MusicSafe st.p.st st.p.mus ch) (hi : invokes st ch = some (id, d)) :
    stepCore cfg o inv st ch = (match inv id d with | .ok st' => ret st' .ok | .error e => .error e) := by
  unfold invokes at hi
  unfold stepCore
  have hn : ¬ ¬ (RangeOk st.s st.c ∧ MusicSafe st.p.st st.p.mus ch) := fun h => h hg
  rw [if_neg hn]
  split at hi
  · rename_i f hst
    split at hi
    · rename_i hfz
      split at hi
      · rename_i id' rest hnums
        cases hi
        simp only [hst]
        unfold endCsi
        simp only []
        rw [if_pos hfz.1, if_pos hfz.2, hnums]
        rfl
      · cases hi
    · cases hi
  · rename_i i hst
    simp only [] at hi
    split at hi
    · cases hi
    · rename_i hdig
      split at hi
      · cases hi
      · rename_i hb
        split at hi
        · cases hi
        · rename_i hs
          split at hi
          · rename_i hz
            split at hi
            · cases hi
            · rename_i hi2
              split at hi
              · rename_i id' hnums
                cases hi
                simp only [hst]
                rw [if_neg hdig, if_neg hb, if_neg hs, if_pos hz, if_neg hi2]
                simp only [hnums]
                rfl
              · cases hi
          · cases hi
  · cases hi

/-- any other character: the invoker is not consulted -/
theorem stepCore_noinv (cfg : Cfg) (o : Orc) (inv inv' : Int → St → Res St) (st : St) (ch : Char)
    (hi : invokes st ch = none) : stepCore cfg o inv st ch = stepCore cfg o inv' st ch := by
  unfold stepCore
  split
  · rfl
  · unfold invokes at hi
    split at hi
    · -- endCsi
      rename_i f hst
      simp only [hst]
      unfold endCsi
      simp only []
      split at hi
      · rename_i hfz
        split at hi
        · cases hi
        · rename_i hnums
          rw [if_pos hfz.1, if_pos hfz.1, if_pos hfz.2, if_pos hfz.2, hnums]
      · rename_i hfz
        by_cases hf : f = '*'
        · have hz : ¬ ch = 'z' := fun h => hfz ⟨hf, h⟩
          rw [if_pos hf, if_pos hf, if_neg hz, if_neg hz]
        · rw [if_neg hf, if_neg hf]
    · -- dcsMacro
      rename_i i hst
      simp only [hst]
      simp only [] at hi
      split at hi
      · rename_i hdig; rw [if_pos hdig, if_pos hdig]
      · rename_i hdig
        rw [if_neg hdig, if_neg hdig]
        split at hi
        · rename_i hb; rw [if_pos hb, if_pos hb]
        · rename_i hb
          rw [if_neg hb, if_neg hb]
          split at hi
          · rename_i hs; rw [if_pos hs, if_pos hs]
          · rename_i hs
            rw [if_neg hs, if_neg hs]
            split at hi
            · rename_i hz
              rw [if_pos hz, if_pos hz]
              split at hi
              · rename_i hi2; rw [if_pos hi2, if_pos hi2]
              · rename_i hi2
                rw [if_neg hi2, if_neg hi2]
                split at hi
                · cases hi
                · rename_i hnums
                  split
                  · rename_i id' hn2
                    exact absurd hn2 (hnums id')
                  · rfl
            · rename_i hz; rw [if_neg hz, if_neg hz]
    · rename_i hne1 hne2
      split <;> first | rfl | (rename_i hh; exact absurd hh (by first | exact hne1 _ | exact hne2 _))

theorem stepCoreJ_refines (cfg : Cfg) (o : Orc) (invJ : Int → JSt → JRes JSt) (inv : Int → St → Res St)
    (x x' : JSt) (ch : Char) (out : Out)
    (hinv : ∀ id y y', invJ id y = .ok y' → inv id y.1 = .ok y'.1)
    (h : stepCoreJ cfg o invJ x ch = .ok (x', out)) : stepCore cfg o inv x.1 ch = .ok (x'.1, out) := by
  unfold stepCoreJ at h
  split at h
  · rename_i id d hsel
    have hgi : (RangeOk x.1.s x.1.c ∧ MusicSafe x.1.p.st x.1.p.mus ch) ∧ invokes x.1 ch = some (id, d) := by
      split at hsel
      · rename_i hg; exact ⟨hg, hsel⟩
      · cases hsel
    rw [stepCore_invokes cfg o inv x.1 ch id d hgi.1 hgi.2]
    cases hr : invJ id (d, x.2) with
    | error e => rw [hr] at h; cases h
    | ok y =>
      rw [hr] at h
      simp only [Except.ok.injEq, Prod.mk.injEq] at h
      obtain ⟨h1, h2⟩ := h
      have := hinv id (d, x.2) y hr
      simp only [] at this
      rw [this, ← h1, ← h2]
      rfl
  · rename_i hsel
    have heq : stepCore cfg o inv x.1 ch = stepCore cfg o (fun _ s => .ok s) x.1 ch := by
      by_cases hg : RangeOk x.1.s x.1.c ∧ MusicSafe x.1.p.st x.1.p.mus ch
      · rw [if_pos hg] at hsel
        exact stepCore_noinv cfg o inv _ x.1 ch hsel
      · unfold stepCore
        rw [if_pos hg, if_pos hg]
    rw [heq]
    cases hs : stepCore cfg o (fun _ s => .ok s) x.1 ch with
    | error e => rw [hs] at h; cases h
    | ok r =>
      rw [hs] at h
      obtain ⟨st', out'⟩ := r
      simp only [] at h
      cases hr : ansiRows cfg x.1 ch x.2 with
      | error e => rw [hr] at h; cases h
      | ok t' =>
        rw [hr] at h
        simp only [Except.ok.injEq, Prod.mk.injEq] at h
        obtain ⟨h1, h2⟩ := h
        rw [← h1, ← h2]

theorem replayJ_refines (stepfJ : JSt → Char → JR) (stepf : St → Char → R)
    (hstep : ∀ y ch y' out, stepfJ y ch = .ok (y', out) → stepf y.1 ch = .ok (y'.1, out)) :
    ∀ (body : List Char) (x x' : JSt), replayJ stepfJ body x = .ok x' → replay stepf body x.1 = .ok x'.1 := by
  intro body
  induction body with
  | nil => intro x x' h; simp only [replayJ, Except.ok.injEq] at h; rw [← h]; rfl
  | cons ch rest ih =>
    intro x x' h
    unfold replayJ at h
    unfold replay
    split at h
    · rename_i hb
      simp only [Except.ok.injEq] at h
      rw [if_pos hb, ← h]
    · rename_i hb
      rw [if_neg hb]
      simp only [] at h ⊢
      cases hs : stepfJ ({ x.1 with p := { x.1.p with budget := x.1.p.budget - 1 } }, x.2) ch with
      | error e => rw [hs] at h; cases h
      | ok r =>
        rw [hs] at h
        obtain ⟨y, out⟩ := r
        have h2 := hstep _ ch y out hs
        simp only [] at h2 h
        rw [h2]
        exact ih y x' h

theorem invokerJ_refines (stepfJ : JSt → Char → JR) (stepf : St → Char → R) (top : Bool)
    (hstep : ∀ y ch y' out, stepfJ y ch = .ok (y', out) → stepf y.1 ch = .ok (y'.1, out))
    (id : Int) (x x' : JSt) (h : invokerJ stepfJ top id x = .ok x') : invoker stepf top id x.1 = .ok x'.1 := by
  unfold invokerJ at h
  unfold invoker
  split at h
  · rename_i hm
    simp only [Except.ok.injEq] at h
    rw [hm, ← h]
  · rename_i body hm
    rw [hm]
    simp only []
    have := replayJ_refines stepfJ stepf hstep body _ x' h
    cases top with
    | true => simpa using this
    | false => simpa using this

theorem stepDJ_refines : ∀ (d : Nat) (cfg : Cfg) (o : Nat → Orc) (x x' : JSt) (ch : Char) (out : Out),
    stepDJ d cfg o x ch = .ok (x', out) → stepD d cfg o x.1 ch = .ok (x'.1, out) := by
  intro d
  induction d with
  | zero =>
    intro cfg o x x' ch out h
    unfold stepDJ at h
    unfold stepD
    exact stepCoreJ_refines cfg _ _ _ (tickSt x.1, x.2) x' ch out (fun id y y' hy => by cases hy; rfl) h
  | succ d ih =>
    intro cfg o x x' ch out h
    unfold stepDJ at h
    unfold stepD
    exact stepCoreJ_refines cfg _ _ _ (tickSt x.1, x.2) x' ch out
      (fun id y y' hy => invokerJ_refines _ _ _ (fun y ch y' out hh => ih cfg o y y' ch out hh) id y y' hy) h

/-- the geometry / parser-state component of the joint step is `Term.step` -/
theorem stepJ_refines (cfg : Cfg) (o : Nat → Orc) (x x' : JSt) (ch : Char) (out : Out)
    (h : stepJ cfg o x ch = .ok (x', out)) : step cfg o x.1 ch = .ok (x'.1, out) :=
  stepDJ_refines _ cfg o x x' ch out h

theorem runJ_refines (cfg : Cfg) (o : Nat → Orc) : ∀ (cs : List Char) (x x' : JSt),
    runJ cfg o x cs = .ok x' → run cfg o x.1 cs = .ok x'.1 := by
  intro cs
  induction cs with
  | nil => intro x x' h; simp only [runJ, Except.ok.injEq] at h; rw [← h]; rfl
  | cons ch rest ih =>
    intro x x' h
    unfold runJ at h
    unfold run
    cases hs : stepJ cfg o x ch with
    | error e => rw [hs] at h; cases h
    | ok r =>
      rw [hs] at h
      obtain ⟨y, out⟩ := r
      rw [stepJ_refines cfg o x y ch out hs]
      exact ih y x' h

/-! ## wrappers -/
theorem geoW_refines (r : WR) (t : RRes Tab) (x' : WJ) (out : Out) (h : geoW r t = .ok (x', out)) : r = .ok (x'.1, out) := by
  unfold geoW at h
  cases r with
  | error e => cases h
  | ok p =>
    obtain ⟨w', o'⟩ := p
    cases t with
    | error e => cases h
    | ok t' =>
      simp only [Except.ok.injEq, Prod.mk.injEq] at h
      obtain ⟨h1, h2⟩ := h
      rw [← h1, ← h2]

theorem innerJ_refines (x x' : WJ) (o : Nat → Orc) (ch : Char) (out : Out) (h : innerJ x o ch = .ok (x', out)) :
    inner x.1 o ch = .ok (x'.1, out) := by
  unfold innerJ at h
  unfold inner
  cases hs : stepJ wcfg o (x.1.inner, x.2) ch with
  | error e => rw [hs] at h; cases h
  | ok r =>
    rw [hs] at h
    obtain ⟨⟨st, t⟩, out'⟩ := r
    have h2 := stepJ_refines wcfg o _ _ ch out' hs
    simp only [] at h2 h
    rw [h2]
    simp only [Except.ok.injEq, Prod.mk.injEq] at h
    obtain ⟨h1, h3⟩ := h
    rw [← h1, ← h3]

theorem avtRepeatJ_refines (o : Nat → Orc) (ch : Char) : ∀ (n : Nat) (x x' : WJ) (out : Out),
    avtRepeatJ o ch n x = .ok (x', out) → avtRepeat o ch n x.1 = .ok (x'.1, out) := by
  intro n
  induction n with
  | zero =>
    intro x x' out h
    simp only [avtRepeatJ, Except.ok.injEq, Prod.mk.injEq] at h
    obtain ⟨h1, h2⟩ := h
    rw [← h1, ← h2]; rfl
  | succ n ih =>
    intro x x' out h
    unfold avtRepeatJ at h
    unfold avtRepeat
    cases hs : stepJ wcfg o (x.1.inner, x.2) ch with
    | error e => rw [hs] at h; cases h
    | ok r =>
      rw [hs] at h
      obtain ⟨⟨st, t⟩, out'⟩ := r
      have h2 := stepJ_refines wcfg o _ _ ch out' hs
      simp only [] at h2 h
      rw [h2]
      cases out' with
      | err =>
        simp only [Except.ok.injEq, Prod.mk.injEq] at h
        obtain ⟨h1, h3⟩ := h
        rw [← h1, ← h3]
      | ok => exact ih _ x' out h
      | resize => exact ih _ x' out h

theorem wstepJ_refines (e : Emu) (o : Nat → Orc) (x x' : WJ) (ch : Char) (out : Out)
    (h : wstepJ e o x ch = .ok (x', out)) : wstep e o x.1 ch = .ok (x'.1, out) := by
  unfold wstepJ at h
  unfold wstep
  split at h
  · cases h
  · rename_i hr
    rw [if_neg hr]
    cases e with
    | avatar =>
      simp only [] at h ⊢
      unfold avatarJ at h
      simp only [] at h
      split at h
      · rename_i hav
        split at h
        · exact geoW_refines _ _ x' out h
        · split at h
          · exact geoW_refines _ _ x' out h
          · rename_i h1 h2
            have := innerJ_refines x x' o ch out h
            unfold avatarStep
            simp only [hav]
            rw [if_neg h1]
            have h3 : ¬ ch = '\x19' := fun hh => h2 (Or.inl hh)
            have h4 : ¬ ch = '\x16' := fun hh => h2 (Or.inr hh)
            rw [if_neg h3, if_neg h4]
            exact this
      · rename_i k hav
        split at h
        · rename_i hk
          unfold avatarStep
          simp only [hav]
          have hk1 : ¬ k = 1 := by omega
          rw [if_neg hk1, if_pos hk]
          cases hrr : avtRepeatJ o x.1.avtChar (min ch.toNat 255) ({ x.1 with avt := .repeatChars 3 }, x.2) with
          | error e => rw [hrr] at h; cases h
          | ok r =>
            rw [hrr] at h
            obtain ⟨⟨w', t'⟩, out'⟩ := r
            have h2 := avtRepeatJ_refines o x.1.avtChar (min ch.toNat 255) _ _ out' hrr
            simp only [] at h2 h
            rw [h2]
            cases out' <;> simp only [Except.ok.injEq, Prod.mk.injEq] at h <;> obtain ⟨h1, h3⟩ := h <;> rw [← h1, ← h3]
        · exact geoW_refines _ _ x' out h
      · exact geoW_refines _ _ x' out h
    | pcboard =>
      simp only [] at h ⊢
      unfold pcboardJ at h
      simp only [] at h
      split at h
      · exact geoW_refines _ _ x' out h
      · rename_i hc
        have := innerJ_refines x x' o ch out h
        unfold pcboardStep
        have h1 : ¬ x.1.pcbColor = true := fun hh => hc (Or.inl hh)
        have h2 : ¬ x.1.pcbCode = true := fun hh => hc (Or.inr (Or.inl hh))
        have h3 : ¬ ch = '@' := fun hh => hc (Or.inr (Or.inr hh))
        simp only [h1, h2, h3, if_false]
        exact this
    | ctrla =>
      simp only [] at h ⊢
      unfold ctrlaJ at h
      simp only [] at h
      split at h
      · rename_i hca
        split at h
        · rename_i hA
          unfold ctrlaStep
          simp only [hca, if_true]
          have e1 : ¬ ch = 'L' := by rw [hA]; decide
          have e2 : ¬ ch = '\'' := by rw [hA]; decide
          have e3 : ¬ ch = '<' := by rw [hA]; decide
          have e4 : ¬ ch = '|' := by rw [hA]; decide
          have e5 : ¬ ch = ']' := by rw [hA]; decide
          rw [if_neg e1, if_neg e2, if_neg e3, if_neg e4, if_neg e5, if_pos hA]
          cases hs : stepJ wcfg o (x.1.inner, x.2) '\x01' with
          | error e => rw [hs] at h; cases h
          | ok r =>
            rw [hs] at h
            obtain ⟨⟨st, t⟩, out'⟩ := r
            have h2 := stepJ_refines wcfg o _ _ _ out' hs
            simp only [] at h2 h
            rw [h2]
            simp only [Except.ok.injEq, Prod.mk.injEq] at h
            obtain ⟨h1, h3⟩ := h
            rw [← h1, ← h3]
        · exact geoW_refines _ _ x' out h
      · rename_i hca
        split at h
        · exact geoW_refines _ _ x' out h
        · rename_i h1
          have := innerJ_refines x x' o ch out h
          unfold ctrlaStep
          simp only [hca, if_false, h1]
          exact this
    | renegade =>
      simp only [] at h ⊢
      unfold renegadeJ at h
      simp only [] at h
      split at h
      · rename_i hc
        have := innerJ_refines x x' o ch out h
        unfold renegadeStep
        simp only [hc.1, if_true, hc.2, if_false]
        exact this
      · exact geoW_refines _ _ x' out h

end IcyVerif.Rows
