import IcyVerif.Model.SauceLoad
set_option linter.unusedSimpArgs false
/-! Lemmas for Props/C11Load.lean: what the record handed over by `Buffer::from_bytes` does to each of the five binary
    format loaders of Model/BinFormats.lean (read-only here).  `set_sauce(.., true)` changes width, height and ice mode
    of the loader's start buffer; every loader overrides some of these:

    * XBin — all of them from its header; iCE Draw — never resizes;
    * ArtWorx, BIN — the heights are overwritten by the first `set_height(y + 1)` / by `crop_loaded_file`;
    * Tundra — the same, by a simulation over the command loop (`tndStep`: one command with the recursive call as data). -/
namespace IcyVerif.SauceLoad
open IcyVerif.BinFormats IcyVerif.Gen IcyVerif.XbCompress

/-- the width `Buffer::set_sauce(.., true)` gives the buffer -/
def ruleW (w : Nat) : Nat := if w = 0 ∨ w > BinFmt.sauceMaxWidth then BinFmt.sauceFallbackWidth else w

/-- buffer and layer height replaced (what a record does to a start buffer whose width/ice it leaves alone) -/
def setH (b : LBuf) (h1 h2 : Int) : LBuf := { b with bh := h1, lh := h2 }

theorem setSauce_eq (b : LBuf) (s : Sauce) (hw : ruleW s.w = b.bw) (hl : b.lw = b.bw) (hi : s.useIce = false) :
    b.setSauce (some s) = setH b s.h s.h := by
  simp only [LBuf.setSauce, setH]
  simp only [ruleW] at hw
  rw [hw, hi]
  simp [hl]

theorem placeCell_setH (x0 xl : Nat) (b : LBuf) (h1 h2 : Int) (x y : Nat) (c : Cell) :
    placeCell true false x0 xl (setH b h1 h2, x, y) c =
      ({ (placeCell true false x0 xl (b, x, y) c).1 with bh := h1 }, (placeCell true false x0 xl (b, x, y) c).2) := by
  simp only [placeCell, setH, LBuf.setChar, if_true, Bool.false_eq_true, if_false]
  by_cases hx : x + 1 > xl <;> by_cases hc : x ≥ b.lw ∨ ((y : Nat) : Int) ≥ (y : Int) + 1 <;> simp [hx, hc]

theorem placeCell_bh (x0 xl : Nat) (b : LBuf) (h1 : Int) (x y : Nat) (c : Cell) :
    placeCell true false x0 xl ({ b with bh := h1 }, x, y) c =
      ({ (placeCell true false x0 xl (b, x, y) c).1 with bh := h1 }, (placeCell true false x0 xl (b, x, y) c).2) := by
  simp only [placeCell, LBuf.setChar, if_true, Bool.false_eq_true, if_false]
  by_cases hx : x + 1 > xl <;> by_cases hc : x ≥ b.lw ∨ ((y : Nat) : Int) ≥ (y : Int) + 1 <;> simp [hx, hc]

theorem foldl_bh (x0 xl : Nat) (cells : List Cell) (b : LBuf) (h1 : Int) (x y : Nat) :
    (cells.foldl (placeCell true false x0 xl) ({ b with bh := h1 }, x, y)) =
      ({ (cells.foldl (placeCell true false x0 xl) (b, x, y)).1 with bh := h1 },
        (cells.foldl (placeCell true false x0 xl) (b, x, y)).2) := by
  induction cells generalizing b x y with
  | nil => rfl
  | cons c cs ih =>
    simp only [List.foldl_cons]
    rw [placeCell_bh]
    generalize placeCell true false x0 xl (b, x, y) c = r
    obtain ⟨rb, rx, ry⟩ := r
    exact ih rb rx ry

/-- once a cell has been placed the heights the record gave the start buffer are gone (the layer height is set before
    every `set_char`); the buffer height is carried along untouched -/
theorem placeAll_setH (x0 xl : Nat) (cells : List Cell) (hne : cells ≠ []) (b : LBuf) (h1 h2 : Int) (x y : Nat) :
    (placeAll true false x0 xl (setH b h1 h2) x y cells).1 = { (placeAll true false x0 xl b x y cells).1 with bh := h1 } := by
  cases cells with
  | nil => exact absurd rfl hne
  | cons c cs =>
    simp only [placeAll, List.foldl_cons]
    rw [placeCell_setH]
    generalize placeCell true false x0 xl (b, x, y) c = r
    obtain ⟨rb, rx, ry⟩ := r
    rw [foldl_bh]

theorem crop_setH (b : LBuf) (h1 h2 : Int) : (setH b h1 h2).crop = b.crop := rfl
theorem crop_bh (b : LBuf) (h1 : Int) : ({ b with bh := h1 } : LBuf).crop = b.crop := rfl

theorem placeAll_crop (x0 xl : Nat) (cells : List Cell) (b : LBuf) (h1 h2 : Int) (x y : Nat) :
    (placeAll true false x0 xl (setH b h1 h2) x y cells).1.crop = (placeAll true false x0 xl b x y cells).1.crop := by
  by_cases hne : cells = []
  · subst hne; rfl
  · rw [placeAll_setH x0 xl cells hne]; rfl

/-- equal up to buffer height and layer height -/
def SameButH (a b : LBuf) : Prop :=
  a.bw = b.bw ∧ a.lw = b.lw ∧ a.lines = b.lines ∧ a.ice = b.ice ∧ a.pal = b.pal ∧ a.fonts = b.fonts

theorem SameButH.eq_setH {a b : LBuf} (h : SameButH a b) : b = setH a b.bh b.lh := by
  obtain ⟨h1, h2, h3, h4, h5, h6⟩ := h
  cases a; cases b
  simp only [setH] at *
  simp [h1, h2, h3, h4, h5, h6]

theorem placeAll_crop' (x0 xl : Nat) (cells : List Cell) (a b : LBuf) (h : SameButH a b) (x y : Nat) :
    (placeAll true false x0 xl a x y cells).1.crop = (placeAll true false x0 xl b x y cells).1.crop := by
  rw [h.eq_setH, placeAll_crop]

/-! ## the five loaders and the record -/

/-- XBin: size and ice mode come from the XBin header — the record changes nothing -/
theorem xbLoad_record (d : List Nat) (s : Sauce) : xbLoad d (some s) = xbLoad d none := by
  unfold xbLoad
  rfl

/-- iCE Draw: the loader does not resize to the record at all -/
theorem idfLoad_record (d : List Nat) (s : Sauce) : loadBody .idf d (some s) = loadBody .idf d none := rfl

/-- ArtWorx: width and ice mode are fixed by the format, the height is recomputed from the rows (`crop_loaded_file`);
    what is left of the record is the LAYER width -/
theorem adfLoad_record (d : List Nat) (s : Sauce) (hw : ruleW s.w = BinFmt.adfStartW) :
    adfLoad d (some s) = adfLoad d none := by
  simp only [ruleW] at hw
  unfold adfLoad
  simp only [LBuf.setSauce, LBuf.start, hw]
  split
  · rfl
  · split
    · rfl
    · split
      · rfl
      · congr 1
        apply placeAll_crop'
        exact ⟨rfl, rfl, rfl, rfl, rfl, rfl⟩


theorem pairsOf_ne_nil (d : List Nat) (h : 2 ≤ d.length) : pairsOf d ≠ [] := by
  match d, h with
  | a :: b :: rest, _ => simp [pairsOf]

/-- BIN: width and ice mode are the record's (there is no header); the height is the layer height after the last cell —
    the record's height survives only when the file holds no cell at all -/
theorem binLoad_record (d : List Nat) (s : Sauce) (hw : ruleW s.w = BinFmt.binStartW) (hi : s.useIce = false)
    (hh : s.h = BinFmt.binStartH ∨ 2 ≤ d.length) : binLoad d (some s) = binLoad d none := by
  simp only [ruleW] at hw
  unfold binLoad
  simp only [LBuf.setSauce, LBuf.start, hw, hi, Bool.false_eq_true, if_false]
  rcases hh with hh | hh
  · rw [hh]
  · have hne : (pairsOf d).map (fun p => ({ ch := p.1, attr := fromU8' IceMode.unlimited p.2 } : Cell)) ≠ [] := by
      intro h
      exact pairsOf_ne_nil d hh (List.map_eq_nil_iff.mp h)
    have := placeAll_setH 0 (BinFmt.binStartW - 1) _ hne
      (LBuf.start BinFmt.binStartW BinFmt.binStartH (BinFmt.binClearsRows == 1)) s.h s.h 0 0
    simp only [setH, LBuf.start] at this
    rw [this]


/-! ## Tundra: the command loop -/

def setBh (h1 : Int) (b : LBuf) : LBuf := { b with bh := h1 }
def mapBuf (f : LBuf → LBuf) (s : TL) : TL := { s with buf := f s.buf }
def outMap {α β : Type} (f : α → β) : Out α → Out β
  | .ok a => .ok (f a)
  | .err => .err
  | .panic => .panic

/-! ### one command of the Tundra loader loop -/

inductive Step
  | done | err | panic
  | move (rest : List Nat) (s : TL)
  | put (rest : List Nat) (s : TL) (ch : Nat)

def fgStep (cmd : Nat) (rest1 : List Nat) (s : TL) : Out (List Nat × TL) :=
  if cmd &&& BinFmt.tndColorFg ≠ 0 then
    match rest1 with
    | _ :: r :: g :: b :: rest2 =>
      let ins := insertColor s.buf.pal (r, g, b)
      .ok (rest2, { s with buf := { s.buf with pal := ins.1 }, fg := ins.2 })
    | _ => .panic
  else .ok (rest1, s)

def bgStep (cmd : Nat) (rest2 : List Nat) (s2 : TL) : Out (List Nat × TL) :=
  if cmd &&& BinFmt.tndColorBg ≠ 0 then
    match rest2 with
    | _ :: r :: g :: b :: rest3 =>
      let ins := insertColor s2.buf.pal (r, g, b)
      .ok (rest3, { s2 with buf := { s2.buf with pal := ins.1 }, bg := ins.2 })
    | _ => .panic
  else .ok (rest2, s2)

/-- the body of `tndLoop` for a non-empty input, with the recursive calls as data -/
def tndStep (cmd : Nat) (rest : List Nat) (s : TL) : Step :=
  if cmd = BinFmt.tndPosition then
    match rest with
    | y0 :: y1 :: y2 :: y3 :: rest' =>
      if be32 y0 y1 y2 y3 ≥ BinFmt.tndMaxY then .err
      else
        match rest' with
        | x0 :: x1 :: x2 :: x3 :: rest'' =>
          if be32 x0 x1 x2 x3 ≥ (s.buf.bw : Int) then .err
          else .move rest'' { s with x := be32 x0 x1 x2 x3, y := be32 y0 y1 y2 y3 }
        | _ => .panic
    | _ => .panic
  else if cmd > BinFmt.tndCmdAbove ∧ cmd ≤ BinFmt.tndCmdUpTo then
    match rest with
    | [] => .panic
    | ch :: rest1 =>
      match fgStep cmd rest1 s with
      | .panic => .panic
      | .err => .err
      | .ok (rest2, s2) =>
        match bgStep cmd rest2 s2 with
        | .panic => .panic
        | .err => .err
        | .ok (rest3, s3) => .put rest3 s3 ch
  else .put rest s cmd

def Step.run (fuel : Nat) (s0 : TL) : Step → Out TL
  | .done => .ok s0
  | .err => .err
  | .panic => .panic
  | .move rest s => tndLoop fuel rest s
  | .put rest s ch => tndLoop fuel rest (tndPut s ch)

theorem tndLoop_zero (rest : List Nat) (s : TL) : tndLoop 0 rest s = .ok s := by
  simp [tndLoop]

theorem tndLoop_nil (fuel : Nat) (s : TL) : tndLoop fuel [] s = .ok s := by
  cases fuel <;> simp [tndLoop]

theorem run_ite (fuel : Nat) (s0 : TL) (c : Prop) [Decidable c] (a b : Step) :
    (if c then a else b).run fuel s0 = if c then a.run fuel s0 else b.run fuel s0 := by
  split <;> rfl

theorem tndLoop_succ (fuel cmd : Nat) (rest : List Nat) (s : TL) :
    tndLoop (fuel + 1) (cmd :: rest) s = (tndStep cmd rest s).run fuel s := by
  rw [tndLoop.eq_def]
  simp only []
  unfold tndStep
  by_cases hp : cmd = BinFmt.tndPosition
  · simp only [hp, if_true]
    rcases rest with _ | ⟨y0, _ | ⟨y1, _ | ⟨y2, _ | ⟨y3, rest'⟩⟩⟩⟩ <;> try rfl
    simp only [run_ite]
    by_cases hy : be32 y0 y1 y2 y3 ≥ BinFmt.tndMaxY
    · simp only [hy, if_true]; rfl
    · simp only [hy, if_false]
      rcases rest' with _ | ⟨x0, _ | ⟨x1, _ | ⟨x2, _ | ⟨x3, rest''⟩⟩⟩⟩ <;> try rfl
      simp only [run_ite]
      by_cases hx : be32 x0 x1 x2 x3 ≥ (s.buf.bw : Int)
      · simp only [hx, if_true]; rfl
      · simp only [hx, if_false]; rfl
  · simp only [hp, if_false, run_ite]
    by_cases hc : cmd > BinFmt.tndCmdAbove ∧ cmd ≤ BinFmt.tndCmdUpTo
    · simp only [hc, and_self, if_true]
      rcases rest with _ | ⟨ch, rest1⟩
      · rfl
      · simp only [fgStep, bgStep]
        by_cases hfg : cmd &&& BinFmt.tndColorFg = 0 <;> by_cases hbg : cmd &&& BinFmt.tndColorBg = 0 <;>
          simp only [ne_eq, hfg, hbg, if_true, if_false, not_true_eq_false, not_false_eq_true]
        · rfl
        · rcases rest1 with _ | ⟨a, _ | ⟨r, _ | ⟨g, _ | ⟨b, rest2⟩⟩⟩⟩ <;> rfl
        · rcases rest1 with _ | ⟨a, _ | ⟨r, _ | ⟨g, _ | ⟨b, rest2⟩⟩⟩⟩ <;> rfl
        · rcases rest1 with _ | ⟨a, _ | ⟨r, _ | ⟨g, _ | ⟨b, rest2⟩⟩⟩⟩ <;> try rfl
          rcases rest2 with _ | ⟨a', _ | ⟨r', _ | ⟨g', _ | ⟨b', rest3⟩⟩⟩⟩ <;> rfl
    · simp only [hc, if_false]; rfl


/-- a change of the buffer that the command decoder cannot see: palette and buffer width untouched -/
structure Compat (f : LBuf → LBuf) : Prop where
  pal : ∀ b, (f b).pal = b.pal
  bw : ∀ b, (f b).bw = b.bw
  setPal : ∀ b p, f { b with pal := p } = { f b with pal := p }

theorem compat_setBh (h1 : Int) : Compat (setBh h1) := ⟨fun _ => rfl, fun _ => rfl, fun _ _ => rfl⟩
theorem compat_setH (h1 h2 : Int) : Compat (fun b => setH b h1 h2) := ⟨fun _ => rfl, fun _ => rfl, fun _ _ => rfl⟩

def stepMap (f : LBuf → LBuf) : Step → Step
  | .done => .done
  | .err => .err
  | .panic => .panic
  | .move r s => .move r (mapBuf f s)
  | .put r s ch => .put r (mapBuf f s) ch

theorem setPal_fg (f : LBuf → LBuf) (hf : Compat f) (s : TL) (p : List Rgb) (c : Nat) :
    ({ mapBuf f s with buf := { (mapBuf f s).buf with pal := p }, fg := c } : TL) =
      mapBuf f { s with buf := { s.buf with pal := p }, fg := c } := by
  show ({ buf := { f s.buf with pal := p }, fg := c, bg := s.bg, x := s.x, y := s.y } : TL) =
    { buf := f { s.buf with pal := p }, fg := c, bg := s.bg, x := s.x, y := s.y }
  rw [hf.setPal s.buf p]

theorem setPal_bg (f : LBuf → LBuf) (hf : Compat f) (s : TL) (p : List Rgb) (c : Nat) :
    ({ mapBuf f s with buf := { (mapBuf f s).buf with pal := p }, bg := c } : TL) =
      mapBuf f { s with buf := { s.buf with pal := p }, bg := c } := by
  show ({ buf := { f s.buf with pal := p }, fg := s.fg, bg := c, x := s.x, y := s.y } : TL) =
    { buf := f { s.buf with pal := p }, fg := s.fg, bg := c, x := s.x, y := s.y }
  rw [hf.setPal s.buf p]

theorem fgStep_map (f : LBuf → LBuf) (hf : Compat f) (cmd : Nat) (rest : List Nat) (s : TL) :
    fgStep cmd rest (mapBuf f s) = outMap (fun p => (p.1, mapBuf f p.2)) (fgStep cmd rest s) := by
  have hp : (mapBuf f s).buf.pal = s.buf.pal := hf.pal _
  unfold fgStep
  split
  · rcases rest with _ | ⟨a, _ | ⟨r, _ | ⟨g, _ | ⟨b, rest2⟩⟩⟩⟩ <;> try rfl
    simp only [outMap, hp]
    rw [setPal_fg f hf]
  · rfl

theorem bgStep_map (f : LBuf → LBuf) (hf : Compat f) (cmd : Nat) (rest : List Nat) (s : TL) :
    bgStep cmd rest (mapBuf f s) = outMap (fun p => (p.1, mapBuf f p.2)) (bgStep cmd rest s) := by
  have hp : (mapBuf f s).buf.pal = s.buf.pal := hf.pal _
  unfold bgStep
  split
  · rcases rest with _ | ⟨a, _ | ⟨r, _ | ⟨g, _ | ⟨b, rest2⟩⟩⟩⟩ <;> try rfl
    simp only [outMap, hp]
    rw [setPal_bg f hf]
  · rfl

theorem tndStep_map (f : LBuf → LBuf) (hf : Compat f) (cmd : Nat) (rest : List Nat) (s : TL) :
    tndStep cmd rest (mapBuf f s) = stepMap f (tndStep cmd rest s) := by
  unfold tndStep
  by_cases hp : cmd = BinFmt.tndPosition
  · simp only [hp, if_true]
    rcases rest with _ | ⟨y0, _ | ⟨y1, _ | ⟨y2, _ | ⟨y3, rest'⟩⟩⟩⟩ <;> try rfl
    simp only []
    by_cases hy : be32 y0 y1 y2 y3 ≥ BinFmt.tndMaxY
    · simp only [hy, if_true]; rfl
    · simp only [hy, if_false]
      rcases rest' with _ | ⟨x0, _ | ⟨x1, _ | ⟨x2, _ | ⟨x3, rest''⟩⟩⟩⟩ <;> try rfl
      have hbw : (mapBuf f s).buf.bw = s.buf.bw := hf.bw _
      simp only [hbw]
      by_cases hx : be32 x0 x1 x2 x3 ≥ (s.buf.bw : Int)
      · simp only [hx, if_true]; rfl
      · simp only [hx, if_false]; rfl
  · simp only [hp, if_false]
    by_cases hc : cmd > BinFmt.tndCmdAbove ∧ cmd ≤ BinFmt.tndCmdUpTo
    · simp only [hc, and_self, if_true]
      rcases rest with _ | ⟨ch, rest1⟩
      · rfl
      · simp only [fgStep_map f hf]
        cases fgStep cmd rest1 s with
        | panic => rfl
        | err => rfl
        | ok p =>
          obtain ⟨rest2, s2⟩ := p
          simp only [outMap, bgStep_map f hf]
          cases bgStep cmd rest2 s2 with
          | panic => rfl
          | err => rfl
          | ok p => rfl
    · simp only [hc, if_false]; rfl


/-! ### `set_height(pos.y + 1); set_char; advance_pos` forgets the layer height, never looks at the buffer height -/

theorem tndPut_setBh (s : TL) (h1 : Int) (ch : Nat) :
    tndPut (mapBuf (setBh h1) s) ch = mapBuf (setBh h1) (tndPut s ch) := by
  simp only [tndPut, mapBuf, setBh, LBuf.setCharI, LBuf.setChar]
  by_cases h0 : s.x < 0 ∨ s.y < 0 <;> simp only [h0, if_true, if_false]
  · by_cases h1 : s.x + 1 ≥ (s.buf.bw : Int) <;> simp [h1]
  · by_cases h2 : s.x.toNat ≥ s.buf.lw ∨ ((s.y.toNat : Nat) : Int) ≥ s.y + 1 <;> simp only [h2, if_true, if_false]
    · by_cases h1 : s.x + 1 ≥ (s.buf.bw : Int) <;> simp [h1]
    · by_cases h1 : s.x + 1 ≥ (s.buf.bw : Int) <;> simp [h1]

theorem tndPut_setH (s : TL) (h1 h2 : Int) (ch : Nat) :
    tndPut (mapBuf (fun b => setH b h1 h2) s) ch = mapBuf (setBh h1) (tndPut s ch) := by
  simp only [tndPut, mapBuf, setBh, setH, LBuf.setCharI, LBuf.setChar]
  by_cases h0 : s.x < 0 ∨ s.y < 0 <;> simp only [h0, if_true, if_false]
  · by_cases h1 : s.x + 1 ≥ (s.buf.bw : Int) <;> simp [h1]
  · by_cases h2 : s.x.toNat ≥ s.buf.lw ∨ ((s.y.toNat : Nat) : Int) ≥ s.y + 1 <;> simp only [h2, if_true, if_false]
    · by_cases h1 : s.x + 1 ≥ (s.buf.bw : Int) <;> simp [h1]
    · by_cases h1 : s.x + 1 ≥ (s.buf.bw : Int) <;> simp [h1]

/-- the buffer height rides along -/
theorem tndLoop_setBh (fuel : Nat) (rest : List Nat) (s : TL) (h1 : Int) :
    tndLoop fuel rest (mapBuf (setBh h1) s) = outMap (mapBuf (setBh h1)) (tndLoop fuel rest s) := by
  induction fuel generalizing rest s with
  | zero => simp only [tndLoop_zero, outMap]
  | succ fuel ih =>
    cases rest with
    | nil => simp only [tndLoop_nil, outMap]
    | cons cmd rest =>
      rw [tndLoop_succ, tndLoop_succ, tndStep_map _ (compat_setBh h1)]
      cases tndStep cmd rest s with
      | done => rfl
      | err => rfl
      | panic => rfl
      | move r t => exact ih r t
      | put r t ch =>
        show tndLoop fuel r (tndPut (mapBuf (setBh h1) t) ch) = _
        rw [tndPut_setBh]
        exact ih r _

/-- a `move` keeps the buffer -/
theorem tndStep_move_buf {cmd : Nat} {rest : List Nat} {s : TL} {r : List Nat} {t : TL}
    (h : tndStep cmd rest s = .move r t) : t.buf = s.buf := by
  unfold tndStep at h
  by_cases hp : cmd = BinFmt.tndPosition
  · simp only [hp, if_true] at h
    rcases rest with _ | ⟨y0, _ | ⟨y1, _ | ⟨y2, _ | ⟨y3, rest'⟩⟩⟩⟩ <;> try cases h
    simp only [] at h
    by_cases hy : be32 y0 y1 y2 y3 ≥ BinFmt.tndMaxY
    · simp only [hy, if_true] at h; cases h
    · simp only [hy, if_false] at h
      rcases rest' with _ | ⟨x0, _ | ⟨x1, _ | ⟨x2, _ | ⟨x3, rest''⟩⟩⟩⟩ <;> try cases h
      simp only [] at h
      by_cases hx : be32 x0 x1 x2 x3 ≥ (s.buf.bw : Int)
      · simp only [hx, if_true] at h; cases h
      · simp only [hx, if_false] at h
        cases h
        rfl
  · simp only [hp, if_false] at h
    by_cases hc : cmd > BinFmt.tndCmdAbove ∧ cmd ≤ BinFmt.tndCmdUpTo
    · simp only [hc, and_self, if_true] at h
      rcases rest with _ | ⟨ch, rest1⟩
      · cases h
      · simp only [] at h
        cases hf : fgStep cmd rest1 s with
        | panic => rw [hf] at h; cases h
        | err => rw [hf] at h; cases h
        | ok p =>
          obtain ⟨rest2, s2⟩ := p
          rw [hf] at h
          simp only [] at h
          cases hb : bgStep cmd rest2 s2 with
          | panic => rw [hb] at h; cases h
          | err => rw [hb] at h; cases h
          | ok p => rw [hb] at h; cases h
    · simp only [hc, if_false] at h; cases h

/-- the record's heights on the way through the loop: gone after the first cell; kept — together with the untouched rows
    — when the file places no cell at all -/
theorem tndLoop_setH (fuel : Nat) (rest : List Nat) (s : TL) (h1 h2 : Int) :
    tndLoop fuel rest (mapBuf (fun b => setH b h1 h2) s) = outMap (mapBuf (setBh h1)) (tndLoop fuel rest s) ∨
    ∃ t, tndLoop fuel rest s = .ok t ∧ t.buf.lines = s.buf.lines ∧ t.buf.lh = s.buf.lh ∧
      tndLoop fuel rest (mapBuf (fun b => setH b h1 h2) s) = .ok (mapBuf (fun b => setH b h1 h2) t) := by
  induction fuel generalizing rest s with
  | zero => right; exact ⟨s, tndLoop_zero _ _, rfl, rfl, tndLoop_zero _ _⟩
  | succ fuel ih =>
    cases rest with
    | nil => right; exact ⟨s, tndLoop_nil _ _, rfl, rfl, tndLoop_nil _ _⟩
    | cons cmd rest =>
      rw [tndLoop_succ, tndLoop_succ, tndStep_map _ (compat_setH h1 h2)]
      cases hstep : tndStep cmd rest s with
      | done => right; exact ⟨s, rfl, rfl, rfl, rfl⟩
      | err => left; rfl
      | panic => left; rfl
      | move r t =>
        have hb := tndStep_move_buf hstep
        rcases ih r t with h | ⟨u, hu1, hu2, hu3, hu4⟩
        · left; exact h
        · right; exact ⟨u, hu1, by rw [hu2, hb], by rw [hu3, hb], hu4⟩
      | put r t ch =>
        left
        show tndLoop fuel r (tndPut (mapBuf (fun b => setH b h1 h2) t) ch) = _
        rw [tndPut_setH]
        exact tndLoop_setBh fuel r _ h1



/-- the end of `TundraDraw::load_buffer`: `result.set_size(result.layers[0].get_size())` -/
def tndFinish : Out TL → Out LBuf
  | .ok s => .ok { s.buf with bw := s.buf.lw, bh := s.buf.lh }
  | .err => .err
  | .panic => .panic

/-- `tndLoad` with the start buffer (after `set_sauce`) as a parameter -/
def tndLoadFrom (b0 : LBuf) (data : List Nat) : Out LBuf :=
  if data.length < 1 + BinFmt.tndHeader.length then .err
  else if (data.drop 1).take BinFmt.tndHeader.length != BinFmt.tndHeader then .err
  else
    tndFinish (tndLoop ((data.drop (1 + BinFmt.tndHeader.length)).length + 1) (data.drop (1 + BinFmt.tndHeader.length))
      ⟨{ b0 with pal := [(0, 0, 0)], ice := .ice }, Xb.defaultFg, Xb.defaultBg, 0, 0⟩)

theorem tndLoad_eq (d : List Nat) (sauce : Option Sauce) :
    tndLoad d sauce =
      tndLoadFrom ((LBuf.start BinFmt.tndStartW BinFmt.tndStartH (BinFmt.tndClearsRows == 1)).setSauce sauce) d := by
  unfold tndLoad tndLoadFrom
  split
  · rfl
  · split
    · rfl
    · simp only []
      cases tndLoop _ _ _ <;> rfl

theorem tndLoadFrom_setH (b : LBuf) (h1 h2 : Int) (d : List Nat) :
    tndLoadFrom (setH b h1 h2) d = tndLoadFrom b d ∨
    ∃ g, tndLoadFrom b d = .ok g ∧ g.lines = b.lines ∧ g.lh = b.lh ∧ g.bh = b.lh ∧
      tndLoadFrom (setH b h1 h2) d = .ok { g with bh := h2, lh := h2 } := by
  unfold tndLoadFrom
  split
  · left; rfl
  · split
    · left; rfl
    · have key := tndLoop_setH ((d.drop (1 + BinFmt.tndHeader.length)).length + 1) (d.drop (1 + BinFmt.tndHeader.length))
        ⟨{ b with pal := [(0, 0, 0)], ice := .ice }, Xb.defaultFg, Xb.defaultBg, 0, 0⟩ h1 h2
      rcases key with key | ⟨t, ht, hl, hh, ht'⟩
      · left
        show tndFinish (tndLoop _ _ (mapBuf (fun b => setH b h1 h2)
          ⟨{ b with pal := [(0, 0, 0)], ice := .ice }, Xb.defaultFg, Xb.defaultBg, 0, 0⟩)) = _
        rw [key]
        cases tndLoop _ _ _ <;> rfl
      · right
        refine ⟨{ t.buf with bw := t.buf.lw, bh := t.buf.lh }, ?_, hl, hh, hh, ?_⟩
        · rw [ht]; rfl
        · show tndFinish (tndLoop _ _ (mapBuf (fun b => setH b h1 h2)
            ⟨{ b with pal := [(0, 0, 0)], ice := .ice }, Xb.defaultFg, Xb.defaultBg, 0, 0⟩)) = _
          rw [ht']
          rfl

/-- Tundra: ice mode and palette are fixed by the format, the final size is the LAYER's; the record's width is the layer
    width, its height is gone after the first cell — and is the height of the loaded buffer when the file places no cell -/
theorem tndLoad_record (d : List Nat) (s : Sauce) (hw : ruleW s.w = BinFmt.tndStartW) :
    tndLoad d (some s) = tndLoad d none ∨
    ∃ g, tndLoad d none = .ok g ∧ g.lines = [] ∧ g.lh = BinFmt.tndStartH ∧ g.bh = BinFmt.tndStartH ∧
      tndLoad d (some s) = .ok { g with bh := s.h, lh := s.h } := by
  simp only [ruleW] at hw
  rw [tndLoad_eq, tndLoad_eq]
  have e : tndLoadFrom ((LBuf.start BinFmt.tndStartW BinFmt.tndStartH (BinFmt.tndClearsRows == 1)).setSauce (some s)) d =
      tndLoadFrom (setH (LBuf.start BinFmt.tndStartW BinFmt.tndStartH (BinFmt.tndClearsRows == 1)) s.h s.h) d := by
    unfold tndLoadFrom
    simp only [LBuf.setSauce, hw]
    rfl
  rw [e]
  exact tndLoadFrom_setH _ s.h s.h d

end IcyVerif.SauceLoad
