import IcyVerif.Model.SauceLoad
set_option linter.unusedSimpArgs false
/-! Lemmas for Props/C11Load.lean: what the record handed over by `Buffer::from_bytes` does to each of the five binary
    format loaders of Model/BinFormats.lean.  `set_sauce(.., true)` changes width, height, ice mode and font slot 0 (a
    font NAMED in the record, `BitFont::from_sauce_name`) of the loader's start buffer and KEEPS the record's texts and
    flags in the buffer (`LBuf.sauce`, for the next save; not part of the picture: `keep`).  Every loader overrides some
    of these:

    * XBin — all of them from its header; iCE Draw — never resizes;
    * ArtWorx, BIN — the heights are overwritten by the first `set_height(y + 1)` / by `crop_loaded_file`;
    * Tundra — the same, by a simulation over the command loop (`tndStep`: one command with the recursive call as data). -/
namespace IcyVerif.SauceLoad
open IcyVerif.BinFormats IcyVerif.Gen IcyVerif.XbCompress
open IcyVerif.Sauce (Sauce)

/-- `BinFormats.fromBytes` (C05) is the composition C11 states its theorems about, with the two outcome levels flattened -/
theorem fromBytes_is_binformats (f : Fmt) (bytes : List Nat) :
    BinFormats.fromBytes f bytes =
      (match SauceLoad.fromBytes BinFormats.dateOk f bytes with
       | .ok r => r
       | .err _ => .err
       | .panic _ => .panic) := by
  unfold BinFormats.fromBytes SauceLoad.fromBytes
  cases Sauce.fromBytesSplit BinFormats.dateOk bytes with
  | ok cs => rfl
  | err e => rfl
  | panic p => rfl

/-- the width `Buffer::set_sauce(.., true)` gives the buffer -/
def ruleW (w : Nat) : Nat := if w = 0 ∨ w > BinFmt.sauceMaxWidth then BinFmt.sauceFallbackWidth else w

/-- buffer and layer height replaced (what a record does to a start buffer whose width/ice it leaves alone) -/
def setH (b : LBuf) (h1 h2 : Int) : LBuf := { b with bh := h1, lh := h2 }

/-- the buffer with the record's texts and flags kept for the next save (`Buffer::set_sauce` stores them) -/
def keep (m : Option Sauce.Meta) (b : LBuf) : LBuf := { b with sauce := m }

/-- "the record's font setting equals the loader's default": it names no font of `SAUCE_FONT_NAMES` (or one that is the
    loader's default font), so `set_sauce` leaves font slot 0 alone -/
def fontAtDefault (s : Sauce) : Bool :=
  match s.font.bind sauceFontByName with
  | none => true
  | some f => f == defaultFont

theorem fontAtDefault_fonts (s : Sauce) (hf : fontAtDefault s = true) (f : Font) (h : s.font.bind sauceFontByName = some f) :
    setFont [(0, defaultFont)] 0 f = [(0, defaultFont)] := by
  unfold fontAtDefault at hf
  rw [h] at hf
  have : f = defaultFont := by simpa using hf
  subst this
  simp [setFont]

theorem setSauce_eq (b : LBuf) (s : Sauce) (hw : ruleW s.width = b.bw) (hl : b.lw = b.bw) (hi : s.ice = false)
    (hfonts : b.fonts = [(0, defaultFont)]) (hf : fontAtDefault s = true) :
    b.setSauce true (some s) = keep (some (metaOf s)) (setH b s.height s.height) := by
  simp only [LBuf.setSauce, setH, keep, if_true]
  simp only [ruleW] at hw
  rw [hw, hi, hfonts]
  cases h : s.font.bind sauceFontByName with
  | none => simp [hl, ← hfonts]
  | some f => simp [hl, fontAtDefault_fonts s hf f h]

/-! ### the kept record rides along through every step of every loader -/

theorem setChar_keep (m : Option Sauce.Meta) (b : LBuf) (x y : Nat) (c : Cell) :
    (keep m b).setChar x y c = keep m (b.setChar x y c) := by
  simp only [LBuf.setChar, keep]
  by_cases h : x ≥ b.lw ∨ (y : Int) ≥ b.lh <;> simp [h]

theorem placeCell_keep (gl gb : Bool) (x0 xl : Nat) (m : Option Sauce.Meta) (b : LBuf) (x y : Nat) (c : Cell) :
    placeCell gl gb x0 xl (keep m b, x, y) c =
      (keep m (placeCell gl gb x0 xl (b, x, y) c).1, (placeCell gl gb x0 xl (b, x, y) c).2) := by
  have e1 : ∀ h : Int, ({ keep m b with lh := h } : LBuf) = keep m { b with lh := h } := fun _ => rfl
  have e2 : ∀ (b' : LBuf) (h : Int), ({ keep m b' with bh := h } : LBuf) = keep m { b' with bh := h } := fun _ _ => rfl
  cases gl <;> cases gb <;>
    simp only [placeCell, if_true, Bool.false_eq_true, if_false, e1, e2, setChar_keep] <;>
    split <;> rfl

theorem placeAll_keep (gl gb : Bool) (x0 xl : Nat) (m : Option Sauce.Meta) (cells : List Cell) (b : LBuf) (x y : Nat) :
    placeAll gl gb x0 xl (keep m b) x y cells =
      (keep m (placeAll gl gb x0 xl b x y cells).1, (placeAll gl gb x0 xl b x y cells).2) := by
  unfold placeAll
  induction cells generalizing b x y with
  | nil => rfl
  | cons c cs ih =>
    simp only [List.foldl_cons]
    rw [placeCell_keep]
    generalize placeCell gl gb x0 xl (b, x, y) c = r
    obtain ⟨rb, rx, ry⟩ := r
    exact ih rb rx ry

theorem crop_keep (m : Option Sauce.Meta) (b : LBuf) : (keep m b).crop = keep m b.crop := rfl

theorem placeCell_setH (x0 xl : Nat) (b : LBuf) (h1 h2 : Int) (x y : Nat) (c : Cell) :
    placeCell true false x0 xl (setH b h1 h2, x, y) c =
      ({ (placeCell true false x0 xl (b, x, y) c).1 with bh := h1 }, (placeCell true false x0 xl (b, x, y) c).2) := by
  simp only [placeCell, setH, LBuf.setChar, if_true, Bool.false_eq_true, if_false]
  by_cases hx : x + 1 > xl <;> by_cases hc : x ≥ b.lw ∨ ((y : Nat) : Int) ≥ (y : Int) + 1 <;> simp [hx, hc]

theorem placeCell_bh (x0 xl : Nat) (b : LBuf) (h1 : Int) (x y : Nat) (c : Cell) :
    placeCell true false x0 xl ({ b with bh := h1 }, x, y) c =
      ({ (placeCell true false x0 xl (b, x, y) c).1 with bh := h1 }, (placeCell true false x0 xl (b, x, y) c).2) := by
  simp only [placeCell, LBuf.setChar, if_true, Bool.false_eq_true, if_false]
  by_cases hx : x + 1 > xl <;> by_cases hc : x ≥ b.lw ∨ ((y : Nat) : Int) ≥ (y : Int) + 1 <;> simp [hx, hc]

theorem foldl_bh (x0 xl : Nat) (cells : List Cell) (b : LBuf) (h1 : Int) (x y : Nat) :
    (cells.foldl (placeCell true false x0 xl) ({ b with bh := h1 }, x, y)) =
      ({ (cells.foldl (placeCell true false x0 xl) (b, x, y)).1 with bh := h1 },
        (cells.foldl (placeCell true false x0 xl) (b, x, y)).2) := by
  induction cells generalizing b x y with
  | nil => rfl
  | cons c cs ih =>
    simp only [List.foldl_cons]
    rw [placeCell_bh]
    generalize placeCell true false x0 xl (b, x, y) c = r
    obtain ⟨rb, rx, ry⟩ := r
    exact ih rb rx ry

/-- once a cell has been placed the heights the record gave the start buffer are gone (the layer height is set before
    every `set_char`); the buffer height is carried along untouched -/
theorem placeAll_setH (x0 xl : Nat) (cells : List Cell) (hne : cells ≠ []) (b : LBuf) (h1 h2 : Int) (x y : Nat) :
    (placeAll true false x0 xl (setH b h1 h2) x y cells).1 = { (placeAll true false x0 xl b x y cells).1 with bh := h1 } := by
  cases cells with
  | nil => exact absurd rfl hne
  | cons c cs =>
    simp only [placeAll, List.foldl_cons]
    rw [placeCell_setH]
    generalize placeCell true false x0 xl (b, x, y) c = r
    obtain ⟨rb, rx, ry⟩ := r
    rw [foldl_bh]

theorem crop_setH (b : LBuf) (h1 h2 : Int) : (setH b h1 h2).crop = b.crop := rfl
theorem crop_bh (b : LBuf) (h1 : Int) : ({ b with bh := h1 } : LBuf).crop = b.crop := rfl

theorem placeAll_crop (x0 xl : Nat) (cells : List Cell) (b : LBuf) (h1 h2 : Int) (x y : Nat) :
    (placeAll true false x0 xl (setH b h1 h2) x y cells).1.crop = (placeAll true false x0 xl b x y cells).1.crop := by
  by_cases hne : cells = []
  · subst hne; rfl
  · rw [placeAll_setH x0 xl cells hne]; rfl

/-- equal up to buffer height and layer height -/
def SameButH (a b : LBuf) : Prop :=
  a.bw = b.bw ∧ a.lw = b.lw ∧ a.lines = b.lines ∧ a.ice = b.ice ∧ a.pal = b.pal ∧ a.fonts = b.fonts ∧ a.sauce = b.sauce

theorem SameButH.eq_setH {a b : LBuf} (h : SameButH a b) : b = setH a b.bh b.lh := by
  obtain ⟨h1, h2, h3, h4, h5, h6, h7⟩ := h
  cases a; cases b
  simp only [setH] at *
  simp [h1, h2, h3, h4, h5, h6, h7]

theorem placeAll_crop' (x0 xl : Nat) (cells : List Cell) (a b : LBuf) (h : SameButH a b) (x y : Nat) :
    (placeAll true false x0 xl a x y cells).1.crop = (placeAll true false x0 xl b x y cells).1.crop := by
  rw [h.eq_setH, placeAll_crop]

/-- equal up to the two heights and the kept record -/
def SameButHS (a b : LBuf) : Prop :=
  a.bw = b.bw ∧ a.lw = b.lw ∧ a.lines = b.lines ∧ a.ice = b.ice ∧ a.pal = b.pal ∧ a.fonts = b.fonts

theorem placeAll_crop_keep (x0 xl : Nat) (cells : List Cell) (a b : LBuf) (h : SameButHS a b) (x y : Nat) :
    (placeAll true false x0 xl b x y cells).1.crop = keep b.sauce (placeAll true false x0 xl a x y cells).1.crop := by
  have e : b = keep b.sauce (setH a b.bh b.lh) := by
    obtain ⟨h1, h2, h3, h4, h5, h6⟩ := h
    cases a; cases b
    simp only [setH, keep] at *
    simp [h1, h2, h3, h4, h5, h6]
  have e2 : placeAll true false x0 xl b x y cells = placeAll true false x0 xl (keep b.sauce (setH a b.bh b.lh)) x y cells := by
    rw [← e]
  rw [e2, placeAll_keep, crop_keep, placeAll_crop]

def outMap {α β : Type} (f : α → β) : Out α → Out β
  | .ok a => .ok (f a)
  | .err => .err
  | .panic => .panic

/-! ## the five loaders and the record

Shape of every statement: the buffer loaded WITH the record is the buffer loaded from the content alone plus the kept
record (`keep`: title, author, group, comments, the two display flags — metadata for the next save, no part of the
picture).  (Before the merge of the C05 work package the loader model did not keep the record and did not model the font
named in it; the statements then were plain equalities.  Their meaning is unchanged: every field of the loaded buffer
that existed then is equal.) -/

/-- what `set_sauce(.., true)` leaves of a start buffer, whatever the record -/
theorem start_setSauce_rest (w h : Nat) (c : Bool) (s : Sauce) :
    ((LBuf.start w h c).setSauce true (some s)).lines = (LBuf.start w h c).lines ∧
    ((LBuf.start w h c).setSauce true (some s)).pal = (LBuf.start w h c).pal ∧
    ((LBuf.start w h c).setSauce true (some s)).sauce = some (metaOf s) := ⟨rfl, rfl, rfl⟩

theorem start_setSauce_fonts (w h : Nat) (c : Bool) (s : Sauce) (hf : fontAtDefault s = true) :
    ((LBuf.start w h c).setSauce true (some s)).fonts = [(0, defaultFont)] := by
  simp only [LBuf.setSauce, LBuf.start, if_true]
  cases h : s.font.bind sauceFontByName with
  | none => rfl
  | some f => exact fontAtDefault_fonts s hf f h

theorem xbBlocks_keep (m : Option Sauce.Meta) (b1 : LBuf) (hasPal hasFont ext : Bool) (fs : Nat) (rest : List Nat) :
    xbBlocks (keep m b1) hasPal hasFont ext fs rest =
      outMap (fun r => (keep m r.1, r.2)) (xbBlocks b1 hasPal hasFont ext fs rest) := by
  unfold xbBlocks
  cases hasPal <;> cases hasFont <;> cases ext <;>
    simp only [Bool.false_eq_true, if_false, if_true, false_and, true_and, and_false, and_true, not_false_eq_true, not_true_eq_false] <;>
    (repeat' split) <;> rfl

theorem xbImage_keep (m : Option Sauce.Meta) (b3 : LBuf) (w : Nat) (comp ice ext : Bool) (rest3 : List Nat) :
    xbImage (keep m b3) w comp ice ext rest3 = outMap (keep m) (xbImage b3 w comp ice ext rest3) := by
  unfold xbImage
  cases (if comp = true then readCompressed rest3 else some (readUncompressed rest3)) with
  | none => rfl
  | some ps => simp only [placeAll_keep, crop_keep, outMap]

/-- `xbLoad` with the start buffer (after `set_sauce`) as a parameter -/
def xbLoadFrom (b0 : LBuf) (data : List Nat) : Out LBuf :=
  match data with
  | i0 :: i1 :: i2 :: i3 :: _eof :: wl :: wh :: hl :: hh :: fs0 :: flags :: rest =>
    if [i0, i1, i2, i3] != [88, 66, 73, 78] then .err
    else
      let w := wl + wh * 256
      if w < 1 ∨ w > 4096 then .err
      else
        let h := hl + hh * 256
        let fs := if fs0 = 0 then 16 else fs0
        if fs > 32 then .err
        else
          let hasPal := flags &&& Xb.flagPalette == Xb.flagPalette
          let hasFont := flags &&& Xb.flagFont == Xb.flagFont
          let comp := flags &&& Xb.flagCompress == Xb.flagCompress
          let ice := flags &&& Xb.flagNonBlink == Xb.flagNonBlink
          let ext := flags &&& Xb.flag512 == Xb.flag512
          let b1 : LBuf := { b0 with bw := w, bh := h, lw := w, lh := h, ice := if ice then .ice else .blink }
          match xbBlocks b1 hasPal hasFont ext fs rest with
          | .ok (b3, rest3) => xbImage b3 w comp ice ext rest3
          | .err => .err
          | .panic => .panic
  | _ => .err

theorem xbLoad_eq (d : List Nat) (sauce : Option Sauce) :
    xbLoad d sauce = xbLoadFrom ((LBuf.start BinFmt.xbStartW BinFmt.xbStartH (BinFmt.xbClearsRows == 1)).setSauce true sauce) d := rfl

/-- size and ice mode of the start buffer are overwritten from the XBin header -/
theorem xbLoadFrom_congr (a b : LBuf) (d : List Nat) (h1 : a.lines = b.lines) (h2 : a.pal = b.pal) (h3 : a.fonts = b.fonts)
    (h4 : a.sauce = b.sauce) : xbLoadFrom a d = xbLoadFrom b d := by
  unfold xbLoadFrom
  simp only [h1, h2, h3, h4]

theorem xbLoadFrom_keep (m : Option Sauce.Meta) (b0 : LBuf) (d : List Nat) :
    xbLoadFrom (keep m b0) d = outMap (keep m) (xbLoadFrom b0 d) := by
  unfold xbLoadFrom
  rcases d with _ | ⟨i0, _ | ⟨i1, _ | ⟨i2, _ | ⟨i3, _ | ⟨eof, _ | ⟨wl, _ | ⟨wh, _ | ⟨hl, _ | ⟨hh, _ | ⟨fs0, _ | ⟨flags, rest⟩⟩⟩⟩⟩⟩⟩⟩⟩⟩⟩ <;>
    try rfl
  simp only []
  generalize (if fs0 = 0 then 16 else fs0) = fs
  have hb : ∀ (w : Nat) (h : Int) (im : IceMode),
      ({ keep m b0 with bw := w, bh := h, lw := w, lh := h, ice := im } : LBuf) =
        keep m { b0 with bw := w, bh := h, lw := w, lh := h, ice := im } := fun _ _ _ => rfl
  split
  · rfl
  · split
    · rfl
    · split
      · rfl
      · rw [hb, xbBlocks_keep]
        cases xbBlocks _ _ _ _ _ rest with
        | ok r => exact xbImage_keep _ _ _ _ _ _ _
        | err => rfl
        | panic => rfl

/-- XBin: size and ice mode come from the XBin header — a record that names no font changes nothing of the picture -/
theorem xbLoad_record (d : List Nat) (s : Sauce) (hf : fontAtDefault s = true) :
    xbLoad d (some s) = outMap (keep (some (metaOf s))) (xbLoad d none) := by
  rw [xbLoad_eq, xbLoad_eq, ← xbLoadFrom_keep]
  obtain ⟨e1, e2, e3⟩ := start_setSauce_rest BinFmt.xbStartW BinFmt.xbStartH (BinFmt.xbClearsRows == 1) s
  exact xbLoadFrom_congr _ _ d e1 e2 (start_setSauce_fonts _ _ _ s hf) e3

/-- `idfLoad` with the start buffer (after `set_sauce(.., false)`) as a parameter -/
def idfLoadFrom (b1 : LBuf) (data : List Nat) : Out LBuf :=
  if data.length < BinFmt.idfHeaderSize + BinFmt.idfFontSize + BinFmt.idfPaletteSize then .err
  else if data.take 4 != BinFmt.idfHeader13 ∧ data.take 4 != BinFmt.idfHeader14 then .err
  else
    let x1 := data.getD 4 0 + data.getD 5 0 * 256
    let y1 := data.getD 6 0 + data.getD 7 0 * 256
    let x2 := data.getD 8 0 + data.getD 9 0 * 256
    if x2 < x1 then .err
    else
      let b2 : LBuf := { b1 with bw := x2 - x1 + 1 }
      let dataSize := data.length - BinFmt.idfFontSize - BinFmt.idfPaletteSize
      let screen := (data.take dataSize).drop BinFmt.idfHeaderSize
      let scan := idfScan (screen.length + 1) screen
      let total := (scan.1.map fun it => it.1).sum
      if total > 0 ∧ y1 + (total - 1) / (x2 - x1 + 1) > BinFmt.idfMaxY then .err
      else
      let cells := scan.1.flatMap fun it => List.replicate it.1 (⟨it.2.1, fromU8 true it.2.2⟩ : Cell)
      let b3 := (placeAll true true x1 x2 b2 x1 y1 cells).1
      let o := BinFmt.idfHeaderSize + scan.2
      let fdata := (data.drop o).take BinFmt.idfFontSize
      let pdata := (data.drop (o + BinFmt.idfFontSize)).take BinFmt.idfPaletteSize
      .ok { b3 with fonts := (0, mkFont 16 fdata) :: b3.fonts.filter (fun e => e.1 != 0), pal := from63 pdata }

set_option maxRecDepth 10000 in
theorem idfLoad_eq (d : List Nat) (sauce : Option Sauce) :
    idfLoad d sauce =
      idfLoadFrom (({ LBuf.start BinFmt.idfStartW BinFmt.idfStartH (BinFmt.idfClearsRows == 1) with ice := .ice } : LBuf).setSauce false sauce) d := by
  unfold idfLoad idfLoadFrom
  simp only []

set_option maxRecDepth 10000 in
theorem idfLoadFrom_keep (m : Option Sauce.Meta) (b1 : LBuf) (d : List Nat) :
    idfLoadFrom (keep m b1) d = outMap (keep m) (idfLoadFrom b1 d) := by
  unfold idfLoadFrom
  split
  · rfl
  · split
    · rfl
    · simp only []
      split
      · rfl
      · split
        · rfl
        · have hw : ∀ (w : Nat), ({ keep m b1 with bw := w } : LBuf) = keep m { b1 with bw := w } := fun _ => rfl
          rw [hw, placeAll_keep]
          simp only [outMap, keep]

/-- iCE Draw: the loader keeps the record but never resizes to it (`set_sauce(.., false)`) -/
theorem idfLoad_record (d : List Nat) (s : Sauce) :
    idfLoad d (some s) = outMap (keep (some (metaOf s))) (idfLoad d none) := by
  rw [idfLoad_eq, idfLoad_eq, ← idfLoadFrom_keep]
  rfl

/-- ArtWorx: width and ice mode are fixed by the format, font and palette are in the file, the height is recomputed from
    the rows (`crop_loaded_file`); what is left of the record is the LAYER width -/
theorem adfLoad_record (d : List Nat) (s : Sauce) (hw : ruleW s.width = BinFmt.adfStartW) :
    adfLoad d (some s) = outMap (keep (some (metaOf s))) (adfLoad d none) := by
  simp only [ruleW] at hw
  unfold adfLoad
  simp only [LBuf.setSauce, LBuf.start, hw, if_true]
  split
  · rfl
  · split
    · rfl
    · split
      · rfl
      · simp only [outMap]
        congr 1
        refine placeAll_crop_keep _ _ _ _ _ ?_ _ _
        exact ⟨rfl, rfl, rfl, rfl, rfl, rfl⟩

theorem pairsOf_ne_nil (d : List Nat) (h : 2 ≤ d.length) : pairsOf d ≠ [] := by
  match d, h with
  | a :: b :: rest, _ => simp [pairsOf]

/-- BIN: width, ice mode and font are the record's (there is no header); the height is the layer height after the last
    cell — the record's height survives only when the file holds no cell at all -/
theorem binLoad_record (d : List Nat) (s : Sauce) (hw : ruleW s.width = BinFmt.binStartW) (hi : s.ice = false)
    (hf : fontAtDefault s = true) (hh : s.height = BinFmt.binStartH ∨ 2 ≤ d.length) :
    binLoad d (some s) = outMap (keep (some (metaOf s))) (binLoad d none) := by
  unfold binLoad
  have hs := setSauce_eq (LBuf.start BinFmt.binStartW BinFmt.binStartH (BinFmt.binClearsRows == 1)) s hw rfl hi rfl hf
  have hn : (LBuf.start BinFmt.binStartW BinFmt.binStartH (BinFmt.binClearsRows == 1)).setSauce true none =
      LBuf.start BinFmt.binStartW BinFmt.binStartH (BinFmt.binClearsRows == 1) := rfl
  simp only [hs, hn, placeAll_keep, outMap]
  congr 1
  have e0 : ∀ b : LBuf, (keep (some (metaOf s)) b).ice = b.ice := fun _ => rfl
  have e1 : ∀ b : LBuf, (keep (some (metaOf s)) b).bw = b.bw := fun _ => rfl
  have e2 : ∀ (b : LBuf) (h1 h2 : Int), (setH b h1 h2).ice = b.ice := fun _ _ _ => rfl
  have e3 : ∀ (b : LBuf) (h1 h2 : Int), (setH b h1 h2).bw = b.bw := fun _ _ _ => rfl
  simp only [e0, e1, e2, e3]
  rcases hh with hh | hh
  · rw [hh]
    rfl
  · have hne : (pairsOf d).map (fun p => ({ ch := p.1, attr := fromU8' (LBuf.start BinFmt.binStartW BinFmt.binStartH (BinFmt.binClearsRows == 1)).ice p.2 } : Cell)) ≠ [] := by
      intro h
      exact pairsOf_ne_nil d hh (List.map_eq_nil_iff.mp h)
    rw [placeAll_setH 0 _ _ hne]
    rfl


/-! ## Tundra: the command loop -/

def setBh (h1 : Int) (b : LBuf) : LBuf := { b with bh := h1 }
def mapBuf (f : LBuf → LBuf) (s : TL) : TL := { s with buf := f s.buf }

/-! ### one command of the Tundra loader loop -/

inductive Step
  | done | err | panic
  | move (rest : List Nat) (s : TL)
  | put (rest : List Nat) (s : TL) (ch : Nat)

def fgStep (cmd : Nat) (rest1 : List Nat) (s : TL) : Out (List Nat × TL) :=
  if cmd &&& BinFmt.tndColorFg ≠ 0 then
    match rest1 with
    | _ :: r :: g :: b :: rest2 =>
      let ins := insertColor s.buf.pal (r, g, b)
      .ok (rest2, { s with buf := { s.buf with pal := ins.1 }, fg := ins.2 })
    | _ => .err
  else .ok (rest1, s)

def bgStep (cmd : Nat) (rest2 : List Nat) (s2 : TL) : Out (List Nat × TL) :=
  if cmd &&& BinFmt.tndColorBg ≠ 0 then
    match rest2 with
    | _ :: r :: g :: b :: rest3 =>
      let ins := insertColor s2.buf.pal (r, g, b)
      .ok (rest3, { s2 with buf := { s2.buf with pal := ins.1 }, bg := ins.2 })
    | _ => .err
  else .ok (rest2, s2)

/-- the body of `tndLoop` for a non-empty input, with the recursive calls as data -/
def tndStep (cmd : Nat) (rest : List Nat) (s : TL) : Step :=
  if cmd = BinFmt.tndPosition then
    match rest with
    | y0 :: y1 :: y2 :: y3 :: rest' =>
      if be32 y0 y1 y2 y3 ≥ BinFmt.tndMaxY then .err
      else
        match rest' with
        | x0 :: x1 :: x2 :: x3 :: rest'' =>
          if be32 x0 x1 x2 x3 ≥ (s.buf.bw : Int) then .err
          else .move rest'' { s with x := be32 x0 x1 x2 x3, y := be32 y0 y1 y2 y3 }
        | _ => .err
    | _ => .err
  else if cmd > BinFmt.tndCmdAbove ∧ cmd ≤ BinFmt.tndCmdUpTo then
    match rest with
    | [] => .err
    | ch :: rest1 =>
      match fgStep cmd rest1 s with
      | .panic => .panic
      | .err => .err
      | .ok (rest2, s2) =>
        match bgStep cmd rest2 s2 with
        | .panic => .panic
        | .err => .err
        | .ok (rest3, s3) => .put rest3 s3 ch
  else .put rest s cmd

def Step.run (fuel : Nat) (s0 : TL) : Step → Out TL
  | .done => .ok s0
  | .err => .err
  | .panic => .panic
  | .move rest s => tndLoop fuel rest s
  | .put rest s ch => tndLoop fuel rest (tndPut s ch)

theorem tndLoop_zero (rest : List Nat) (s : TL) : tndLoop 0 rest s = .ok s := by
  simp [tndLoop]

theorem tndLoop_nil (fuel : Nat) (s : TL) : tndLoop fuel [] s = .ok s := by
  cases fuel <;> simp [tndLoop]

theorem run_ite (fuel : Nat) (s0 : TL) (c : Prop) [Decidable c] (a b : Step) :
    (if c then a else b).run fuel s0 = if c then a.run fuel s0 else b.run fuel s0 := by
  split <;> rfl

theorem tndLoop_succ (fuel cmd : Nat) (rest : List Nat) (s : TL) :
    tndLoop (fuel + 1) (cmd :: rest) s = (tndStep cmd rest s).run fuel s := by
  rw [tndLoop.eq_def]
  simp only []
  unfold tndStep
  by_cases hp : cmd = BinFmt.tndPosition
  · simp only [hp, if_true]
    rcases rest with _ | ⟨y0, _ | ⟨y1, _ | ⟨y2, _ | ⟨y3, rest'⟩⟩⟩⟩ <;> try rfl
    simp only [run_ite]
    by_cases hy : be32 y0 y1 y2 y3 ≥ BinFmt.tndMaxY
    · simp only [hy, if_true]; rfl
    · simp only [hy, if_false]
      rcases rest' with _ | ⟨x0, _ | ⟨x1, _ | ⟨x2, _ | ⟨x3, rest''⟩⟩⟩⟩ <;> try rfl
      simp only [run_ite]
      by_cases hx : be32 x0 x1 x2 x3 ≥ (s.buf.bw : Int)
      · simp only [hx, if_true]; rfl
      · simp only [hx, if_false]; rfl
  · simp only [hp, if_false, run_ite]
    by_cases hc : cmd > BinFmt.tndCmdAbove ∧ cmd ≤ BinFmt.tndCmdUpTo
    · simp only [hc, and_self, if_true]
      rcases rest with _ | ⟨ch, rest1⟩
      · rfl
      · simp only [fgStep, bgStep]
        by_cases hfg : cmd &&& BinFmt.tndColorFg = 0 <;> by_cases hbg : cmd &&& BinFmt.tndColorBg = 0 <;>
          simp only [ne_eq, hfg, hbg, if_true, if_false, not_true_eq_false, not_false_eq_true]
        · rfl
        · rcases rest1 with _ | ⟨a, _ | ⟨r, _ | ⟨g, _ | ⟨b, rest2⟩⟩⟩⟩ <;> rfl
        · rcases rest1 with _ | ⟨a, _ | ⟨r, _ | ⟨g, _ | ⟨b, rest2⟩⟩⟩⟩ <;> rfl
        · rcases rest1 with _ | ⟨a, _ | ⟨r, _ | ⟨g, _ | ⟨b, rest2⟩⟩⟩⟩ <;> try rfl
          rcases rest2 with _ | ⟨a', _ | ⟨r', _ | ⟨g', _ | ⟨b', rest3⟩⟩⟩⟩ <;> rfl
    · simp only [hc, if_false]; rfl


/-- a change of the buffer that the command decoder cannot see: palette and buffer width untouched -/
structure Compat (f : LBuf → LBuf) : Prop where
  pal : ∀ b, (f b).pal = b.pal
  bw : ∀ b, (f b).bw = b.bw
  setPal : ∀ b p, f { b with pal := p } = { f b with pal := p }

theorem compat_setBh (h1 : Int) : Compat (setBh h1) := ⟨fun _ => rfl, fun _ => rfl, fun _ _ => rfl⟩
theorem compat_setH (h1 h2 : Int) : Compat (fun b => setH b h1 h2) := ⟨fun _ => rfl, fun _ => rfl, fun _ _ => rfl⟩

def stepMap (f : LBuf → LBuf) : Step → Step
  | .done => .done
  | .err => .err
  | .panic => .panic
  | .move r s => .move r (mapBuf f s)
  | .put r s ch => .put r (mapBuf f s) ch

theorem setPal_fg (f : LBuf → LBuf) (hf : Compat f) (s : TL) (p : List Rgb) (c : Nat) :
    ({ mapBuf f s with buf := { (mapBuf f s).buf with pal := p }, fg := c } : TL) =
      mapBuf f { s with buf := { s.buf with pal := p }, fg := c } := by
  show ({ buf := { f s.buf with pal := p }, fg := c, bg := s.bg, x := s.x, y := s.y } : TL) =
    { buf := f { s.buf with pal := p }, fg := c, bg := s.bg, x := s.x, y := s.y }
  rw [hf.setPal s.buf p]

theorem setPal_bg (f : LBuf → LBuf) (hf : Compat f) (s : TL) (p : List Rgb) (c : Nat) :
    ({ mapBuf f s with buf := { (mapBuf f s).buf with pal := p }, bg := c } : TL) =
      mapBuf f { s with buf := { s.buf with pal := p }, bg := c } := by
  show ({ buf := { f s.buf with pal := p }, fg := s.fg, bg := c, x := s.x, y := s.y } : TL) =
    { buf := f { s.buf with pal := p }, fg := s.fg, bg := c, x := s.x, y := s.y }
  rw [hf.setPal s.buf p]

theorem fgStep_map (f : LBuf → LBuf) (hf : Compat f) (cmd : Nat) (rest : List Nat) (s : TL) :
    fgStep cmd rest (mapBuf f s) = outMap (fun p => (p.1, mapBuf f p.2)) (fgStep cmd rest s) := by
  have hp : (mapBuf f s).buf.pal = s.buf.pal := hf.pal _
  unfold fgStep
  split
  · rcases rest with _ | ⟨a, _ | ⟨r, _ | ⟨g, _ | ⟨b, rest2⟩⟩⟩⟩ <;> try rfl
    simp only [outMap, hp]
    rw [setPal_fg f hf]
  · rfl

theorem bgStep_map (f : LBuf → LBuf) (hf : Compat f) (cmd : Nat) (rest : List Nat) (s : TL) :
    bgStep cmd rest (mapBuf f s) = outMap (fun p => (p.1, mapBuf f p.2)) (bgStep cmd rest s) := by
  have hp : (mapBuf f s).buf.pal = s.buf.pal := hf.pal _
  unfold bgStep
  split
  · rcases rest with _ | ⟨a, _ | ⟨r, _ | ⟨g, _ | ⟨b, rest2⟩⟩⟩⟩ <;> try rfl
    simp only [outMap, hp]
    rw [setPal_bg f hf]
  · rfl

theorem tndStep_map (f : LBuf → LBuf) (hf : Compat f) (cmd : Nat) (rest : List Nat) (s : TL) :
    tndStep cmd rest (mapBuf f s) = stepMap f (tndStep cmd rest s) := by
  unfold tndStep
  by_cases hp : cmd = BinFmt.tndPosition
  · simp only [hp, if_true]
    rcases rest with _ | ⟨y0, _ | ⟨y1, _ | ⟨y2, _ | ⟨y3, rest'⟩⟩⟩⟩ <;> try rfl
    simp only []
    by_cases hy : be32 y0 y1 y2 y3 ≥ BinFmt.tndMaxY
    · simp only [hy, if_true]; rfl
    · simp only [hy, if_false]
      rcases rest' with _ | ⟨x0, _ | ⟨x1, _ | ⟨x2, _ | ⟨x3, rest''⟩⟩⟩⟩ <;> try rfl
      have hbw : (mapBuf f s).buf.bw = s.buf.bw := hf.bw _
      simp only [hbw]
      by_cases hx : be32 x0 x1 x2 x3 ≥ (s.buf.bw : Int)
      · simp only [hx, if_true]; rfl
      · simp only [hx, if_false]; rfl
  · simp only [hp, if_false]
    by_cases hc : cmd > BinFmt.tndCmdAbove ∧ cmd ≤ BinFmt.tndCmdUpTo
    · simp only [hc, and_self, if_true]
      rcases rest with _ | ⟨ch, rest1⟩
      · rfl
      · simp only [fgStep_map f hf]
        cases fgStep cmd rest1 s with
        | panic => rfl
        | err => rfl
        | ok p =>
          obtain ⟨rest2, s2⟩ := p
          simp only [outMap, bgStep_map f hf]
          cases bgStep cmd rest2 s2 with
          | panic => rfl
          | err => rfl
          | ok p => rfl
    · simp only [hc, if_false]; rfl


/-! ### `set_height(pos.y + 1); set_char; advance_pos` forgets the layer height, never looks at the buffer height -/

theorem tndPut_setBh (s : TL) (h1 : Int) (ch : Nat) :
    tndPut (mapBuf (setBh h1) s) ch = mapBuf (setBh h1) (tndPut s ch) := by
  simp only [tndPut, mapBuf, setBh, LBuf.setCharI, LBuf.setChar]
  by_cases h0 : s.x < 0 ∨ s.y < 0 <;> simp only [h0, if_true, if_false]
  · by_cases h1 : s.x + 1 ≥ (s.buf.bw : Int) <;> simp [h1]
  · by_cases h2 : s.x.toNat ≥ s.buf.lw ∨ ((s.y.toNat : Nat) : Int) ≥ s.y + 1 <;> simp only [h2, if_true, if_false]
    · by_cases h1 : s.x + 1 ≥ (s.buf.bw : Int) <;> simp [h1]
    · by_cases h1 : s.x + 1 ≥ (s.buf.bw : Int) <;> simp [h1]

theorem tndPut_setH (s : TL) (h1 h2 : Int) (ch : Nat) :
    tndPut (mapBuf (fun b => setH b h1 h2) s) ch = mapBuf (setBh h1) (tndPut s ch) := by
  simp only [tndPut, mapBuf, setBh, setH, LBuf.setCharI, LBuf.setChar]
  by_cases h0 : s.x < 0 ∨ s.y < 0 <;> simp only [h0, if_true, if_false]
  · by_cases h1 : s.x + 1 ≥ (s.buf.bw : Int) <;> simp [h1]
  · by_cases h2 : s.x.toNat ≥ s.buf.lw ∨ ((s.y.toNat : Nat) : Int) ≥ s.y + 1 <;> simp only [h2, if_true, if_false]
    · by_cases h1 : s.x + 1 ≥ (s.buf.bw : Int) <;> simp [h1]
    · by_cases h1 : s.x + 1 ≥ (s.buf.bw : Int) <;> simp [h1]

/-- the buffer height rides along -/
theorem tndLoop_setBh (fuel : Nat) (rest : List Nat) (s : TL) (h1 : Int) :
    tndLoop fuel rest (mapBuf (setBh h1) s) = outMap (mapBuf (setBh h1)) (tndLoop fuel rest s) := by
  induction fuel generalizing rest s with
  | zero => simp only [tndLoop_zero, outMap]
  | succ fuel ih =>
    cases rest with
    | nil => simp only [tndLoop_nil, outMap]
    | cons cmd rest =>
      rw [tndLoop_succ, tndLoop_succ, tndStep_map _ (compat_setBh h1)]
      cases tndStep cmd rest s with
      | done => rfl
      | err => rfl
      | panic => rfl
      | move r t => exact ih r t
      | put r t ch =>
        show tndLoop fuel r (tndPut (mapBuf (setBh h1) t) ch) = _
        rw [tndPut_setBh]
        exact ih r _

/-- a `move` keeps the buffer -/
theorem tndStep_move_buf {cmd : Nat} {rest : List Nat} {s : TL} {r : List Nat} {t : TL}
    (h : tndStep cmd rest s = .move r t) : t.buf = s.buf := by
  unfold tndStep at h
  by_cases hp : cmd = BinFmt.tndPosition
  · simp only [hp, if_true] at h
    rcases rest with _ | ⟨y0, _ | ⟨y1, _ | ⟨y2, _ | ⟨y3, rest'⟩⟩⟩⟩ <;> try cases h
    simp only [] at h
    by_cases hy : be32 y0 y1 y2 y3 ≥ BinFmt.tndMaxY
    · simp only [hy, if_true] at h; cases h
    · simp only [hy, if_false] at h
      rcases rest' with _ | ⟨x0, _ | ⟨x1, _ | ⟨x2, _ | ⟨x3, rest''⟩⟩⟩⟩ <;> try cases h
      simp only [] at h
      by_cases hx : be32 x0 x1 x2 x3 ≥ (s.buf.bw : Int)
      · simp only [hx, if_true] at h; cases h
      · simp only [hx, if_false] at h
        cases h
        rfl
  · simp only [hp, if_false] at h
    by_cases hc : cmd > BinFmt.tndCmdAbove ∧ cmd ≤ BinFmt.tndCmdUpTo
    · simp only [hc, and_self, if_true] at h
      rcases rest with _ | ⟨ch, rest1⟩
      · cases h
      · simp only [] at h
        cases hf : fgStep cmd rest1 s with
        | panic => rw [hf] at h; cases h
        | err => rw [hf] at h; cases h
        | ok p =>
          obtain ⟨rest2, s2⟩ := p
          rw [hf] at h
          simp only [] at h
          cases hb : bgStep cmd rest2 s2 with
          | panic => rw [hb] at h; cases h
          | err => rw [hb] at h; cases h
          | ok p => rw [hb] at h; cases h
    · simp only [hc, if_false] at h; cases h

/-- the record's heights on the way through the loop: gone after the first cell; kept — together with the untouched rows
    — when the file places no cell at all -/
theorem tndLoop_setH (fuel : Nat) (rest : List Nat) (s : TL) (h1 h2 : Int) :
    tndLoop fuel rest (mapBuf (fun b => setH b h1 h2) s) = outMap (mapBuf (setBh h1)) (tndLoop fuel rest s) ∨
    ∃ t, tndLoop fuel rest s = .ok t ∧ t.buf.lines = s.buf.lines ∧ t.buf.lh = s.buf.lh ∧
      tndLoop fuel rest (mapBuf (fun b => setH b h1 h2) s) = .ok (mapBuf (fun b => setH b h1 h2) t) := by
  induction fuel generalizing rest s with
  | zero => right; exact ⟨s, tndLoop_zero _ _, rfl, rfl, tndLoop_zero _ _⟩
  | succ fuel ih =>
    cases rest with
    | nil => right; exact ⟨s, tndLoop_nil _ _, rfl, rfl, tndLoop_nil _ _⟩
    | cons cmd rest =>
      rw [tndLoop_succ, tndLoop_succ, tndStep_map _ (compat_setH h1 h2)]
      cases hstep : tndStep cmd rest s with
      | done => right; exact ⟨s, rfl, rfl, rfl, rfl⟩
      | err => left; rfl
      | panic => left; rfl
      | move r t =>
        have hb := tndStep_move_buf hstep
        rcases ih r t with h | ⟨u, hu1, hu2, hu3, hu4⟩
        · left; exact h
        · right; exact ⟨u, hu1, by rw [hu2, hb], by rw [hu3, hb], hu4⟩
      | put r t ch =>
        left
        show tndLoop fuel r (tndPut (mapBuf (fun b => setH b h1 h2) t) ch) = _
        rw [tndPut_setH]
        exact tndLoop_setBh fuel r _ h1



/-- the end of `TundraDraw::load_buffer`: `result.set_size(result.layers[0].get_size())` -/
def tndFinish : Out TL → Out LBuf
  | .ok s => .ok { s.buf with bw := s.buf.lw, bh := s.buf.lh }
  | .err => .err
  | .panic => .panic

/-- `tndLoad` with the start buffer (after `set_sauce`) as a parameter -/
def tndLoadFrom (b0 : LBuf) (data : List Nat) : Out LBuf :=
  if data.length < 1 + BinFmt.tndHeader.length then .err
  else if (data.drop 1).take BinFmt.tndHeader.length != BinFmt.tndHeader then .err
  else
    tndFinish (tndLoop ((data.drop (1 + BinFmt.tndHeader.length)).length + 1) (data.drop (1 + BinFmt.tndHeader.length))
      ⟨{ b0 with pal := [(0, 0, 0)], ice := .ice }, Xb.defaultFg, Xb.defaultBg, 0, 0⟩)

theorem tndLoad_eq (d : List Nat) (sauce : Option Sauce) : tndLoad d sauce = tndLoadFrom (tndStart sauce) d := by
  unfold tndLoad tndLoadFrom
  split
  · rfl
  · split
    · rfl
    · simp only []
      cases tndLoop _ _ _ <;> rfl

theorem tndLoadFrom_setH (b : LBuf) (h1 h2 : Int) (d : List Nat) :
    tndLoadFrom (setH b h1 h2) d = tndLoadFrom b d ∨
    ∃ g, tndLoadFrom b d = .ok g ∧ g.lines = b.lines ∧ g.lh = b.lh ∧ g.bh = b.lh ∧
      tndLoadFrom (setH b h1 h2) d = .ok { g with bh := h2, lh := h2 } := by
  unfold tndLoadFrom
  split
  · left; rfl
  · split
    · left; rfl
    · have key := tndLoop_setH ((d.drop (1 + BinFmt.tndHeader.length)).length + 1) (d.drop (1 + BinFmt.tndHeader.length))
        ⟨{ b with pal := [(0, 0, 0)], ice := .ice }, Xb.defaultFg, Xb.defaultBg, 0, 0⟩ h1 h2
      rcases key with key | ⟨t, ht, hl, hh, ht'⟩
      · left
        show tndFinish (tndLoop _ _ (mapBuf (fun b => setH b h1 h2)
          ⟨{ b with pal := [(0, 0, 0)], ice := .ice }, Xb.defaultFg, Xb.defaultBg, 0, 0⟩)) = _
        rw [key]
        cases tndLoop _ _ _ <;> rfl
      · right
        refine ⟨{ t.buf with bw := t.buf.lw, bh := t.buf.lh }, ?_, hl, hh, hh, ?_⟩
        · rw [ht]; rfl
        · show tndFinish (tndLoop _ _ (mapBuf (fun b => setH b h1 h2)
            ⟨{ b with pal := [(0, 0, 0)], ice := .ice }, Xb.defaultFg, Xb.defaultBg, 0, 0⟩)) = _
          rw [ht']
          rfl

theorem tndPut_keep (m : Option Sauce.Meta) (s : TL) (ch : Nat) :
    tndPut (mapBuf (keep m) s) ch = mapBuf (keep m) (tndPut s ch) := by
  simp only [tndPut, mapBuf, keep, LBuf.setCharI, LBuf.setChar]
  by_cases h0 : s.x < 0 ∨ s.y < 0 <;> simp only [h0, if_true, if_false]
  · by_cases h1 : s.x + 1 ≥ (s.buf.bw : Int) <;> simp [h1]
  · by_cases h2 : s.x.toNat ≥ s.buf.lw ∨ ((s.y.toNat : Nat) : Int) ≥ s.y + 1 <;> simp only [h2, if_true, if_false]
    · by_cases h1 : s.x + 1 ≥ (s.buf.bw : Int) <;> simp [h1]
    · by_cases h1 : s.x + 1 ≥ (s.buf.bw : Int) <;> simp [h1]

theorem compat_keep (m : Option Sauce.Meta) : Compat (keep m) := ⟨fun _ => rfl, fun _ => rfl, fun _ _ => rfl⟩

/-- the kept record rides along -/
theorem tndLoop_keep (m : Option Sauce.Meta) (fuel : Nat) (rest : List Nat) (s : TL) :
    tndLoop fuel rest (mapBuf (keep m) s) = outMap (mapBuf (keep m)) (tndLoop fuel rest s) := by
  induction fuel generalizing rest s with
  | zero => simp only [tndLoop_zero, outMap]
  | succ fuel ih =>
    cases rest with
    | nil => simp only [tndLoop_nil, outMap]
    | cons cmd rest =>
      rw [tndLoop_succ, tndLoop_succ, tndStep_map _ (compat_keep m)]
      cases tndStep cmd rest s with
      | done => rfl
      | err => rfl
      | panic => rfl
      | move r t => exact ih r t
      | put r t ch =>
        show tndLoop fuel r (tndPut (mapBuf (keep m) t) ch) = _
        rw [tndPut_keep]
        exact ih r _

theorem tndLoadFrom_keep (m : Option Sauce.Meta) (b : LBuf) (d : List Nat) :
    tndLoadFrom (keep m b) d = outMap (keep m) (tndLoadFrom b d) := by
  unfold tndLoadFrom
  split
  · rfl
  · split
    · rfl
    · show tndFinish (tndLoop _ _ (mapBuf (keep m)
          ⟨{ b with pal := [(0, 0, 0)], ice := .ice }, Xb.defaultFg, Xb.defaultBg, 0, 0⟩)) = _
      rw [tndLoop_keep]
      cases tndLoop _ _ _ <;> rfl

/-- palette and ice mode of the start buffer are overwritten by the loader -/
theorem tndLoadFrom_congr (a b : LBuf) (d : List Nat) (h1 : a.bw = b.bw) (h2 : a.bh = b.bh) (h3 : a.lw = b.lw) (h4 : a.lh = b.lh)
    (h5 : a.lines = b.lines) (h6 : a.fonts = b.fonts) (h7 : a.sauce = b.sauce) : tndLoadFrom a d = tndLoadFrom b d := by
  unfold tndLoadFrom
  simp only [h1, h2, h3, h4, h5, h6, h7]

/-- the width the Tundra loader gives its start buffer (since the C05 repair: `set_sauce`'s rule, but a SAUCE width above
    the sanity limit is taken as it is — the format stores its width nowhere else) -/
def tndRuleW (w : Nat) : Nat := if w > BinFmt.tndWideAbove then w else ruleW w

/-- Tundra: ice mode and palette are fixed by the format, the final size is the LAYER's; the record's width is the layer
    width, its height is gone after the first cell — and is the height of the loaded buffer when the file places no cell -/
theorem tndLoad_record (d : List Nat) (s : Sauce) (hw : tndRuleW s.width = BinFmt.tndStartW) (hf : fontAtDefault s = true) :
    tndLoad d (some s) = outMap (keep (some (metaOf s))) (tndLoad d none) ∨
    ∃ g, tndLoad d none = .ok g ∧ g.lines = [] ∧ g.lh = BinFmt.tndStartH ∧ g.bh = BinFmt.tndStartH ∧
      tndLoad d (some s) = .ok { g with bh := s.height, lh := s.height, sauce := some (metaOf s) } := by
  have hnw : ¬ s.width > BinFmt.tndWideAbove := by
    intro h
    simp only [tndRuleW, h, if_true] at hw
    rw [hw] at h
    exact absurd h (by decide)
  have hw' : ruleW s.width = BinFmt.tndStartW := by simpa only [tndRuleW, hnw, if_false] using hw
  rw [tndLoad_eq, tndLoad_eq]
  have e : tndLoadFrom (tndStart (some s)) d = tndLoadFrom (keep (some (metaOf s))
      (setH (LBuf.start BinFmt.tndStartW BinFmt.tndStartH (BinFmt.tndClearsRows == 1)) s.height s.height)) d := by
    simp only [ruleW] at hw'
    have hst : tndStart (some s) = (LBuf.start BinFmt.tndStartW BinFmt.tndStartH (BinFmt.tndClearsRows == 1)).setSauce true (some s) := by
      unfold tndStart
      simp only [hnw, if_false]
    rw [hst]
    apply tndLoadFrom_congr
    · simp only [LBuf.setSauce, if_true, hw']; rfl
    · rfl
    · simp only [LBuf.setSauce, if_true, hw']; rfl
    · rfl
    · rfl
    · exact start_setSauce_fonts _ _ _ s hf
    · rfl
  have en : tndStart none = LBuf.start BinFmt.tndStartW BinFmt.tndStartH (BinFmt.tndClearsRows == 1) := rfl
  rw [e, en, tndLoadFrom_keep]
  rcases tndLoadFrom_setH (LBuf.start BinFmt.tndStartW BinFmt.tndStartH (BinFmt.tndClearsRows == 1)) s.height s.height d with
    h | ⟨g, h1, h2, h3, h4, h5⟩
  · left; rw [h]
  · right
    exact ⟨g, h1, h2, h3, h4, by rw [h5]; rfl⟩

end IcyVerif.SauceLoad
