import IcyVerif.Lemmas.ArtFormats
/-! # Ctrl-A: the writer's attribute bookkeeping (`was_bold`, `^A N` reset, `last_fore/last_back`) against the parser's
(`is_bold`, `high_bg`, caret attribute) — C15 -/
set_option linter.unusedSimpArgs false
namespace IcyVerif.ArtIO
open IcyVerif.Gen.Art

/-- the reader between two Ctrl-A codes: ground state, attribute `a`, bold flag `bold`, screen as in `r0` -/
structure CMid (r0 r : RS) (a : Attr) (bold : Bool) : Prop where
  ns : r.core.stuck = false
  q : r.ctrla.ctrlA = false
  ag : r.ansi.st = .ground
  ice : r.core.caretIce = false
  attr : r.core.attr = a
  bold : r.ctrla.bold = bold
  hbg : r.ctrla.highBg = false
  scr : r.core.scr = r0.core.scr

def ctrlaNotCmd (b : Nat) : Prop :=
  b ≠ 76 ∧ b ≠ 39 ∧ b ≠ 74 ∧ b ≠ 62 ∧ b ≠ 60 ∧ b ≠ 93 ∧ b ≠ 124 ∧ b ≠ 65 ∧ b ≠ 72 ∧ b ≠ 73 ∧ b ≠ 69 ∧ b ≠ 78 ∧ b ≠ 90

instance (b : Nat) : Decidable (ctrlaNotCmd b) := by unfold ctrlaNotCmd; infer_instance

theorem ctrla_tabs_fg : ∀ n < 8, ctrlaFg.getD n 0 % 256 = ctrlaFg.getD n 0 ∧
    ctrlaFg.findIdx? (· == ctrlaFg.getD n 0) = some n ∧ ctrlaNotCmd (ctrlaFg.getD n 0) := by
  decide

theorem ctrla_tabs_bg : ∀ n < 8, ctrlaBg.getD n 0 % 256 = ctrlaBg.getD n 0 ∧
    ctrlaFg.findIdx? (· == ctrlaBg.getD n 0) = none ∧
    ctrlaBg.findIdx? (· == ctrlaBg.getD n 0) = some n ∧ ctrlaNotCmd (ctrlaBg.getD n 0) := by
  decide

theorem cmid_N (r0 r : RS) (a : Attr) (bold : Bool) (h : CMid r0 r a bold) :
    CMid r0 ([1, 78].foldl (step .ctrla) r) defaultAttr false := by
  obtain ⟨ns, q, ag, ice, hat, hb, hh, hs⟩ := h
  have e : [1, 78].foldl (step .ctrla) r =
      { r with ctrla := { r.ctrla with bold := false, highBg := false }, core := { r.core with attr := defaultAttr } } := by
    have d1 : ¬ (7 < defaultAttr.fg) := by decide
    have d2 : ¬ (7 < defaultAttr.bg) := by decide
    simp [step, ctrlaStep, ns, q, Core.resetAttr, d1, d2]
  rw [e]
  exact ⟨ns, q, ag, ice, rfl, rfl, rfl, hs⟩

theorem cmid_H (r0 r : RS) (a : Attr) (bold : Bool) (h : CMid r0 r a bold) :
    CMid r0 ([1, 72].foldl (step .ctrla) r) { a with fg := if a.fg < 8 then a.fg + 8 else a.fg } true := by
  obtain ⟨ns, q, ag, ice, hat, hb, hh, hs⟩ := h
  have e : [1, 72].foldl (step .ctrla) r =
      { r with ctrla := { r.ctrla with bold := true },
               core := { r.core with attr := { r.core.attr with fg := if r.core.attr.fg < 8 then r.core.attr.fg + 8 else r.core.attr.fg } } } := by
    simp [step, ctrlaStep, ns, q]
  rw [e]
  exact ⟨ns, q, ag, ice, by simp [hat], rfl, hh, hs⟩

theorem cmid_F (r0 r : RS) (a : Attr) (bold : Bool) (n : Nat) (hn : n < 8) (h : CMid r0 r a bold) :
    CMid r0 ([1, ctrlaFg.getD n 0].foldl (step .ctrla) r) { a with fg := n + (if bold then 8 else 0) } bold := by
  obtain ⟨ns, q, ag, ice, hat, hb, hh, hs⟩ := h
  obtain ⟨m, f1, n1, n2, n3, n4, n5, n6, n7, n8, n9, n10, n11, n12, n13⟩ := ctrla_tabs_fg n hn
  generalize ctrlaFg.getD n 0 = b at *
  have e : [1, b].foldl (step .ctrla) r =
      { r with core := { r.core with attr := { r.core.attr with fg := n + (if r.ctrla.bold then 8 else 0) } } } := by
    simp [step, ctrlaStep, ns, q, m, f1, n1, n2, n3, n4, n5, n6, n7, n8, n9, n10, n11, n12, n13]
    cases r with | mk core ansi pcb ren ctrla avt ata => cases ctrla; simp_all
  rw [e]
  exact ⟨ns, q, ag, ice, by simp [hat, hb], hb, hh, hs⟩

theorem cmid_B (r0 r : RS) (a : Attr) (bold : Bool) (n : Nat) (hn : n < 8) (h : CMid r0 r a bold) :
    CMid r0 ([1, ctrlaBg.getD n 0].foldl (step .ctrla) r) { a with bg := n } bold := by
  obtain ⟨ns, q, ag, ice, hat, hb, hh, hs⟩ := h
  obtain ⟨m, f0, f1, n1, n2, n3, n4, n5, n6, n7, n8, n9, n10, n11, n12, n13⟩ := ctrla_tabs_bg n hn
  generalize ctrlaBg.getD n 0 = b at *
  have e : [1, b].foldl (step .ctrla) r =
      { r with core := { r.core with attr := { r.core.attr with bg := n } } } := by
    simp [step, ctrlaStep, ns, q, m, f0, f1, n1, n2, n3, n4, n5, n6, n7, n8, n9, n10, n11, n12, n13, hh]
    cases r with | mk core ansi pcb ren ctrla avt ata => cases ctrla; simp_all
  rw [e]
  exact ⟨ns, q, ag, ice, by simp [hat], hb, hh, hs⟩

theorem cmid_print (r0 r : RS) (a : Attr) (bold : Bool) (ch : Nat) (h1 : ch ≠ 1) (hpr : AnsiPrintable ch)
    (h : CMid r0 r a bold) :
    CMid { r0 with core := { r0.core with scr := r0.core.scr.put ⟨ch, a⟩ } } ([ch].foldl (step .ctrla) r) a bold := by
  obtain ⟨ns, q, ag, ice, hat, hb, hh, hs⟩ := h
  have e : [ch].foldl (step .ctrla) r =
      { r with core := { r.core with scr := r.core.scr.put ⟨ch, a⟩ }, ansi := { r.ansi with lastCh := ch } } := by
    simp [step, ctrlaStep, ns, q, h1, ansiStep_print, ag, hpr, Core.printAnsi, Core.printAttr, ice, hat]
  rw [e]
  exact ⟨ns, q, ag, ice, hat, hb, hh, by simp [hs]⟩

/-- the colour letters the writer emits after the reset / bold stage, then the character -/
theorem cmid_tail (r0 r : RS) (a : Attr) (bold : Bool) (lf lb cf cb ch : Nat) (h : CMid r0 r a bold)
    (hbold : bold = decide (7 < cf)) (hcf : cf < 16) (hcb : cb < 8)
    (hf : cf = lf → a.fg = cf) (hb : cb = lb → a.bg = cb) (h1 : ch ≠ 1) (hpr : AnsiPrintable ch) :
    CMid { r0 with core := { r0.core with scr := r0.core.scr.put ⟨ch, ⟨cf, cb, a.fl⟩⟩ } }
      (((if cf ≠ lf then [1, ctrlaFg.getD (cf % 8) 0] else []) ++ (if cb ≠ lb then [1, ctrlaBg.getD (cb % 8) 0] else []) ++ [ch]).foldl
        (step .ctrla) r) ⟨cf, cb, a.fl⟩ bold := by
  have A : ∃ r1, (if cf ≠ lf then [1, ctrlaFg.getD (cf % 8) 0] else []).foldl (step .ctrla) r = r1 ∧
      CMid r0 r1 { a with fg := cf } bold := by
    by_cases hne : cf ≠ lf
    · rw [if_pos hne]
      refine ⟨_, rfl, ?_⟩
      have := cmid_F r0 r a bold (cf % 8) (by omega) h
      have e : cf % 8 + (if bold = true then 8 else 0) = cf := by
        rw [hbold]
        by_cases h7 : 7 < cf
        · simp [h7]; omega
        · simp [h7]; omega
      rw [e] at this; exact this
    · rw [if_neg hne]
      refine ⟨r, rfl, ?_⟩
      have : ({ a with fg := cf } : Attr) = a := by
        have := hf (by omega); cases a; simp_all
      rw [this]; exact h
  obtain ⟨r1, e1, M1⟩ := A
  have B : ∃ r2, (if cb ≠ lb then [1, ctrlaBg.getD (cb % 8) 0] else []).foldl (step .ctrla) r1 = r2 ∧
      CMid r0 r2 ⟨cf, cb, a.fl⟩ bold := by
    by_cases hne : cb ≠ lb
    · rw [if_pos hne]
      refine ⟨_, rfl, ?_⟩
      have := cmid_B r0 r1 _ bold (cb % 8) (by omega) M1
      have e : cb % 8 = cb := by omega
      simp only [e] at this ⊢; exact this
    · rw [if_neg hne]
      refine ⟨r1, rfl, ?_⟩
      have : (⟨cf, cb, a.fl⟩ : Attr) = { a with fg := cf } := by
        have := hb (by omega); cases a; simp_all
      rw [this]; exact M1
  obtain ⟨r2, e2, M2⟩ := B
  rw [List.foldl_append, List.foldl_append, e1, e2]
  exact cmid_print r0 r2 _ bold ch h1 hpr M2

structure CtrlR (s : CtrlAW) (r : RS) : Prop where
  mid : CMid r r s.last s.wasBold
  fl : s.last.fl = Flags.none
  lfg : s.last.fg < 16
  lbg : s.last.bg < 8
  wb : s.wasBold = decide (7 < s.last.fg)
  whb : s.wasHighBg = false
  wbl : s.wasBlink = false

def CtrlDom (c : Cell) : Prop :=
  c.attr.fg < 16 ∧ c.attr.bg < 8 ∧ c.attr.fl = Flags.none ∧ 0 < c.ch ∧ c.ch < 256 ∧ c.ch ≠ 1 ∧ AnsiPrintable c.ch

theorem cmid_rebase {r0 r0' r : RS} {a : Attr} {b : Bool} (h : CMid r0 r a b) (e : r0'.core.scr = r0.core.scr) : CMid r0' r a b :=
  ⟨h.ns, h.q, h.ag, h.ice, h.attr, h.bold, h.hbg, by rw [h.scr, e]⟩

theorem ctrla_cell (s : CtrlAW) (r : RS) (c : Cell) (hR : CtrlR s r) (hd : CtrlDom c) :
    ∃ b s', ctrlaEmit s c = some (b, s') ∧ CtrlR s' (b.foldl (step .ctrla) r) ∧
      (b.foldl (step .ctrla) r).core.scr = r.core.scr.put (id c) := by
  obtain ⟨hfg, hbg, hfl, hc0, hc1, hc01, hpr⟩ := hd
  obtain ⟨mid, lfl, lfg, lbg, wb, whb, wbl⟩ := hR
  have hcb : chByte c.ch = c.ch := chByte_id hc0 hc1
  have hcattr : (⟨c.attr.fg, c.attr.bg, Flags.none⟩ : Attr) = c.attr := by
    cases c with | mk ch a => cases a with | mk fg bg fl => simp_all
  have hblink : c.attr.fl.blink = false := by rw [hfl]; rfl
  have hhigh : ¬ (7 < c.attr.bg) := by omega
  -- the writer state after the cell
  have hfinal : ∀ (r' : RS) (bd : Bool), bd = decide (7 < c.attr.fg) →
      CMid { r with core := { r.core with scr := r.core.scr.put ⟨c.ch, c.attr⟩ } } r' c.attr bd →
      CtrlR { last := c.attr, wasBold := bd, wasBlink := false, wasHighBg := false } r' ∧
      r'.core.scr = r.core.scr.put (id c) := by
    intro r' bd hbd M
    refine ⟨⟨cmid_rebase M M.scr, hfl, hfg, hbg, hbd, rfl, rfl⟩, ?_⟩
    rw [M.scr]; show r.core.scr.put ⟨c.ch, c.attr⟩ = r.core.scr.put c; rw [cell_eta]
  by_cases hchg : (!(c.attr.same s.last)) = true
  · unfold ctrlaEmit; rw [if_pos hchg]
    refine ⟨_, _, rfl, ?_⟩
    by_cases hB : 7 < c.attr.fg
    · by_cases hW : 7 < s.last.fg
      · -- bold stays on
        have wb' : s.wasBold = true := by rw [wb]; simp [hW]
        have T := cmid_tail r r s.last s.wasBold s.last.fg s.last.bg c.attr.fg c.attr.bg c.ch mid (by rw [wb']; simp [hB]) hfg hbg
          (fun e => e.symm) (fun e => e.symm) hc01 hpr
        rw [lfl, hcattr, wb'] at T
        have key := hfinal _ _ (by simp [hB]) T
        simpa [hB, hhigh, hblink, wb', whb, wbl, hcb] using key
      · -- bold is switched on
        have wb' : s.wasBold = false := by rw [wb]; simp [hW]
        have H := cmid_H r r s.last s.wasBold mid
        have hlt : s.last.fg < 8 := by omega
        rw [if_pos hlt] at H
        have T := cmid_tail r _ _ true s.last.fg s.last.bg c.attr.fg c.attr.bg c.ch H (by simp [hB]) hfg hbg
          (fun e => by omega) (fun e => e.symm) hc01 hpr
        simp only [lfl, hcattr] at T
        rw [← List.foldl_append] at T
        have key := hfinal _ _ (by simp [hB]) T
        simpa [hB, hhigh, hblink, wb', whb, wbl, hcb] using key
    · by_cases hW : 7 < s.last.fg
      · -- bold is switched off: ^A N resets everything
        have wb' : s.wasBold = true := by rw [wb]; simp [hW]
        have N := cmid_N r r s.last s.wasBold mid
        have T := cmid_tail r _ _ false 7 0 c.attr.fg c.attr.bg c.ch N (by simp [hB]) hfg hbg
          (fun e => by rw [e]; rfl) (fun e => by rw [e]; rfl) hc01 hpr
        have dfl : defaultAttr.fl = Flags.none := rfl
        simp only [dfl, hcattr] at T
        rw [← List.foldl_append] at T
        have key := hfinal _ _ (by simp [hB]) T
        simpa [hB, hhigh, hblink, wb', whb, wbl, hcb] using key
      · -- no bold before or after
        have wb' : s.wasBold = false := by rw [wb]; simp [hW]
        have T := cmid_tail r r s.last s.wasBold s.last.fg s.last.bg c.attr.fg c.attr.bg c.ch mid (by rw [wb']; simp [hB]) hfg hbg
          (fun e => e.symm) (fun e => e.symm) hc01 hpr
        rw [lfl, hcattr, wb'] at T
        have key := hfinal _ _ (by simp [hB]) T
        simpa [hB, hhigh, hblink, wb', whb, wbl, hcb] using key
  · have hsame : c.attr = s.last := by
      have : c.attr.same s.last = true := by
        cases h : c.attr.same s.last with
        | true => rfl
        | false => simp [h] at hchg
      exact (same_iff _ _).1 this
    have P := cmid_print r r s.last s.wasBold c.ch hc01 hpr mid
    refine ⟨[c.ch], s, ?_, ?_, ?_⟩
    · unfold ctrlaEmit; rw [if_neg hchg, hcb]
    · exact ⟨cmid_rebase P P.scr, lfl, lfg, lbg, wb, whb, wbl⟩
    · rw [P.scr, ← hsame]; show r.core.scr.put ⟨c.ch, c.attr⟩ = _; rw [cell_eta]; rfl

theorem ctrla_eol (s : CtrlAW) (r : RS) (hR : CtrlR s r) :
    CtrlR s (crlf.foldl (step .ctrla) r) ∧ (crlf.foldl (step .ctrla) r).core.scr = r.core.scr.exec Op.nl := by
  obtain ⟨⟨ns, q, ag, ice, hat, hb, hh, hs⟩, lfl, lfg, lbg, wb, whb, wbl⟩ := hR
  have e : crlf.foldl (step .ctrla) r = { r with core := { r.core with scr := r.core.scr.cr.lf } } := by
    simp [crlf, step, ctrlaStep, ns, q, ansiStep_cr, ansiStep_lf, ag]
  rw [e]
  exact ⟨⟨⟨ns, q, ag, ice, hat, hb, hh, rfl⟩, lfl, lfg, lbg, wb, whb, wbl⟩, rfl⟩

/-- `^A L` / `^A '` on the fresh screen change nothing -/
theorem ctrla_prep (prep : Prep) (r : RS) (hR : CtrlR {} r) (hfresh : r.core.scr.lines = [] ∧ r.core.scr.cx = 0 ∧ r.core.scr.cy = 0) :
    CtrlR {} ((ctrlaPrep prep).foldl (step .ctrla) r) ∧ ((ctrlaPrep prep).foldl (step .ctrla) r).core.scr = r.core.scr := by
  obtain ⟨⟨ns, q, ag, ice, hat, hb, hh, hs⟩, lfl, lfg, lbg, wb, whb, wbl⟩ := hR
  obtain ⟨f1, f2, f3⟩ := hfresh
  have hscr : ∀ sc : Screen, sc.lines = [] → sc.cx = 0 → sc.cy = 0 → sc.clear = sc ∧ ({ sc with cx := 0, cy := 0 } : Screen) = sc := by
    intro sc a b c; cases sc; simp_all [Screen.clear]
  obtain ⟨k1, k2⟩ := hscr r.core.scr f1 f2 f3
  cases prep with
  | none => exact ⟨⟨⟨ns, q, ag, ice, hat, hb, hh, rfl⟩, lfl, lfg, lbg, wb, whb, wbl⟩, rfl⟩
  | home =>
    have e : (ctrlaPrep .home).foldl (step .ctrla) r = r := by
      simp [ctrlaPrep, step, ctrlaStep, ns, q, k2]
      cases r with | mk core ansi pcb ren ctrla avt ata => cases ctrla; cases core; simp_all
    rw [e]
    exact ⟨⟨⟨ns, q, ag, ice, hat, hb, hh, rfl⟩, lfl, lfg, lbg, wb, whb, wbl⟩, rfl⟩
  | clear =>
    have e : (ctrlaPrep .clear).foldl (step .ctrla) r = r := by
      simp [ctrlaPrep, step, ctrlaStep, ns, q, k1]
      cases r with | mk core ansi pcb ren ctrla avt ata => cases ctrla; cases core; simp_all
    rw [e]
    exact ⟨⟨⟨ns, q, ag, ice, hat, hb, hh, rfl⟩, lfl, lfg, lbg, wb, whb, wbl⟩, rfl⟩

end IcyVerif.ArtIO
