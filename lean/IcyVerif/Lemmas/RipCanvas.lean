import IcyVerif.Model.RipCanvas
import IcyVerif.Lemmas.BgiFill4
import IcyVerif.Lemmas.BgiLine
set_option linter.unusedSimpArgs false
set_option linter.unusedVariables false
/-! Lemmas about the RIP canvas model: every modelled command keeps the window and the length of the screen, and the
picture has four bytes per screen cell whatever the palette holds. -/
namespace IcyVerif.Bgi

theorem pixelBytes_length (pal : List Nat) (px : Nat) : (pixelBytes pal px).length = 4 := by
  unfold pixelBytes; split <;> rfl

theorem flatMap_const_length {α β : Type} (f : α → List β) (k : Nat) (hf : ∀ a, (f a).length = k) :
    ∀ l : List α, (l.flatMap f).length = l.length * k := by
  intro l
  induction l with
  | nil => simp
  | cons a t ih => rw [List.flatMap_cons, List.length_append, ih, hf a, List.length_cons, Nat.add_mul]; omega

theorem pictureData_length (s : Bgi) : (pictureData s).length = s.screen.size * 4 := by
  unfold pictureData
  rw [flatMap_const_length (pixelBytes s.pal) 4 (pixelBytes_length s.pal)]
  simp

/-- window and screen length -/
def Canvas (s : Bgi) : Prop := s.winW = 640 ∧ s.winH = 350 ∧ s.screen.size = 640 * 350

theorem canvas_of_size {s s' : Bgi} (hc : Canvas s) (h : s'.screen.size = s.screen.size ∧ s'.winW = s.winW ∧ s'.winH = s.winH) :
    Canvas s' := ⟨by rw [h.2.1, hc.1], by rw [h.2.2, hc.2.1], by rw [h.1, hc.2.2]⟩

theorem drawSpans_size : ∀ (row : List LI) (s s' : Bgi), drawSpans s row = some s' →
    s'.screen.size = s.screen.size ∧ s'.winW = s.winW ∧ s'.winH = s.winH := by
  intro row
  induction row with
  | nil => intro s s' h; simp [drawSpans] at h; subst h; exact ⟨rfl, rfl, rfl⟩
  | cons li t ih =>
    intro s s' h
    unfold drawSpans at h
    cases hb : bar s li.x1 li.y li.x2 li.y with
    | none => simp [hb] at h
    | some s1 =>
      simp only [hb] at h
      obtain ⟨a, b, c⟩ := bar_size hb
      obtain ⟨a', b', c'⟩ := ih s1 s' h
      exact ⟨by rw [a', a], by rw [b', b], by rw [c', c]⟩

theorem drawRows_size : ∀ (rows : List (List LI)) (s s' : Bgi), drawRows s rows = some s' →
    s'.screen.size = s.screen.size ∧ s'.winW = s.winW ∧ s'.winH = s.winH := by
  intro rows
  induction rows with
  | nil => intro s s' h; simp [drawRows] at h; subst h; exact ⟨rfl, rfl, rfl⟩
  | cons row t ih =>
    intro s s' h
    unfold drawRows at h
    cases hb : drawSpans s row.reverse with
    | none => simp [hb] at h
    | some s1 =>
      simp only [hb] at h
      obtain ⟨a, b, c⟩ := drawSpans_size _ _ _ hb
      obtain ⟨a', b', c'⟩ := ih s1 s' h
      exact ⟨by rw [a', a], by rw [b', b], by rw [c', c]⟩

/-- whatever the state: if `flood_fill` returns, the screen has the same length -/
theorem floodFill_size {s s' : Bgi} {x y : Int} {b n k : Nat} (h : floodFill s x y b = .ok (s', n, k)) :
    s'.screen.size = s.screen.size ∧ s'.winW = s.winW ∧ s'.winH = s.winH := by
  unfold floodFill at h
  split at h
  · cases h
  · cases h
  · split at h
    · cases h
    · rename_i hd
      cases h
      exact drawRows_size _ _ _ hd

theorem rectangle_size {s s' : Bgi} {l t r b : Int} (h : rectangle s l t r b = some s') :
    s'.screen.size = s.screen.size ∧ s'.winW = s.winW ∧ s'.winH = s.winH := by
  unfold rectangle at h
  cases h1 : line s l t r t with
  | none => simp [h1] at h
  | some s1 =>
    simp only [h1] at h
    cases h2 : line s1 l b r b with
    | none => simp [h2] at h
    | some s2 =>
      simp only [h2] at h
      cases h3 : line s2 r t r b with
      | none => simp [h3] at h
      | some s3 =>
        simp only [h3] at h
        obtain ⟨a1, b1, c1⟩ := line_size h1
        obtain ⟨a2, b2, c2⟩ := line_size h2
        obtain ⟨a3, b3, c3⟩ := line_size h3
        obtain ⟨a4, b4, c4⟩ := line_size h
        exact ⟨by rw [a4, a3, a2, a1], by rw [b4, b3, b2, b1], by rw [c4, c3, c2, c1]⟩

theorem polySegs_size : ∀ (pts : List (Int × Int)) (s : Bgi) (last : Int × Int) (r : Bgi × (Int × Int)),
    polySegs s last pts = some r → r.1.screen.size = s.screen.size ∧ r.1.winW = s.winW ∧ r.1.winH = s.winH := by
  intro pts
  induction pts with
  | nil => intro s last r h; simp [polySegs] at h; subst h; exact ⟨rfl, rfl, rfl⟩
  | cons p t ih =>
    intro s last r h
    unfold polySegs at h
    cases h1 : line s last.1 last.2 p.1 p.2 with
    | none => simp [h1] at h
    | some s1 =>
      simp only [h1] at h
      obtain ⟨a1, b1, c1⟩ := line_size h1
      obtain ⟨a2, b2, c2⟩ := ih s1 p r h
      exact ⟨by rw [a2, a1], by rw [b2, b1], by rw [c2, c1]⟩

theorem drawPolyLine_size {s s' : Bgi} {pts : List (Int × Int)} (h : drawPolyLine s pts = some s') :
    s'.screen.size = s.screen.size ∧ s'.winW = s.winW ∧ s'.winH = s.winH := by
  unfold drawPolyLine at h
  cases pts with
  | nil => simp at h; subst h; exact ⟨rfl, rfl, rfl⟩
  | cons p0 t =>
    simp only [] at h
    cases h1 : polySegs s p0 (p0 :: t) with
    | none => simp [h1] at h
    | some r =>
      simp [h1] at h
      subst h
      exact polySegs_size _ _ _ _ h1

theorem drawPoly_size {s s' : Bgi} {pts : List (Int × Int)} (h : drawPoly s pts = some s') :
    s'.screen.size = s.screen.size ∧ s'.winW = s.winW ∧ s'.winH = s.winH := by
  unfold drawPoly at h
  cases pts with
  | nil => simp at h; subst h; exact ⟨rfl, rfl, rfl⟩
  | cons p0 t =>
    simp only [] at h
    cases h1 : polySegs s p0 (p0 :: t) with
    | none => simp [h1] at h
    | some r =>
      obtain ⟨s1, last⟩ := r
      simp only [h1] at h
      obtain ⟨a1, b1, c1⟩ := polySegs_size _ _ _ _ h1
      obtain ⟨a2, b2, c2⟩ := line_size h
      exact ⟨by rw [a2, a1], by rw [b2, b1], by rw [c2, c1]⟩

end IcyVerif.Bgi

namespace IcyVerif.RipCanvas
open IcyVerif.Rip IcyVerif.Bgi

theorem lift_canvas {b b' : Bgi} {r : Option Bgi} {u u' : Bool} (hc : Canvas b)
    (hr : ∀ s', r = some s' → s'.screen.size = b.screen.size ∧ s'.winW = b.winW ∧ s'.winH = b.winH)
    (h : lift r u = .ok b' u') : Canvas b' := by
  unfold lift at h
  cases r with
  | none => cases h
  | some s' => simp only [] at h; cases h; exact canvas_of_size hc (hr _ rfl)

/-- every modelled command keeps the canvas complete, whatever its parameters and whether it succeeds or fails -/
theorem execCmd_canvas (b : Bgi) (k : Nat) (c : CmdSt) (hc : Canvas b) :
    (∀ b' u, execCmd b k c = .ok b' u → Canvas b') ∧ (∀ b', execCmd b k c = .err b' → Canvas b') := by
  unfold execCmd
  simp only []
  split
  · -- 1 ViewPort
    refine ⟨fun b' u h => lift_canvas hc (fun s' hs => ?_) h, fun b' h => by unfold lift at h; split at h <;> cases h⟩
    unfold setViewport at hs; split at hs
    · cases hs; exact ⟨rfl, rfl, rfl⟩
    · cases hs
  · refine ⟨fun b' u h => lift_canvas hc (fun s' hs => ?_) h, fun b' h => by unfold lift at h; split at h <;> cases h⟩
    exact barRect_size hs
  · exact ⟨fun b' u h => (by cases h; exact hc), fun b' h => (by cases h)⟩
  · -- 4 SetPalette
    split
    · exact ⟨fun b' u h => (by cases h), fun b' h => (by cases h; exact hc)⟩
    · refine ⟨fun b' u h => lift_canvas hc (fun s' hs => ?_) h, fun b' h => by unfold lift at h; split at h <;> cases h⟩
      unfold setPalette at hs; split at hs
      · cases hs; exact ⟨rfl, rfl, rfl⟩
      · cases hs
  · -- 5 OnePalette
    split
    · exact ⟨fun b' u h => (by cases h), fun b' h => (by cases h; exact hc)⟩
    · split
      · exact ⟨fun b' u h => (by cases h), fun b' h => (by cases h)⟩
      · refine ⟨fun b' u h => lift_canvas hc (fun s' hs => ?_) h, fun b' h => by unfold lift at h; split at h <;> cases h⟩
        unfold setPaletteColor at hs; split at hs
        · cases hs; exact ⟨rfl, rfl, rfl⟩
        · cases hs
  · exact ⟨fun b' u h => (by cases h; exact hc), fun b' h => (by cases h)⟩
  · exact ⟨fun b' u h => (by cases h; exact hc), fun b' h => (by cases h)⟩
  · refine ⟨fun b' u h => lift_canvas hc (fun s' hs => ?_) h, fun b' h => by unfold lift at h; split at h <;> cases h⟩
    exact ⟨putPixel_size hs, (putPixel_frame hs).2.1, (putPixel_frame hs).2.2.1⟩
  · refine ⟨fun b' u h => lift_canvas hc (fun s' hs => ?_) h, fun b' h => by unfold lift at h; split at h <;> cases h⟩
    exact line_size hs
  · refine ⟨fun b' u h => lift_canvas hc (fun s' hs => ?_) h, fun b' h => by unfold lift at h; split at h <;> cases h⟩
    exact rectangle_size hs
  · refine ⟨fun b' u h => lift_canvas hc (fun s' hs => ?_) h, fun b' h => by unfold lift at h; split at h <;> cases h⟩
    exact bar_size hs
  · refine ⟨fun b' u h => lift_canvas hc (fun s' hs => ?_) h, fun b' h => by unfold lift at h; split at h <;> cases h⟩
    exact drawPoly_size hs
  · refine ⟨fun b' u h => lift_canvas hc (fun s' hs => ?_) h, fun b' h => by unfold lift at h; split at h <;> cases h⟩
    exact drawPolyLine_size hs
  · -- 14 Fill
    split
    · rename_i b1 n1 k1 hf
      exact ⟨fun b' u h => (by cases h; exact canvas_of_size hc (floodFill_size hf)), fun b' h => (by cases h)⟩
    · exact ⟨fun b' u h => (by cases h), fun b' h => (by cases h)⟩
    · exact ⟨fun b' u h => (by cases h), fun b' h => (by cases h)⟩
  · refine ⟨fun b' u h => ?_, fun b' h => (by cases h)⟩
    cases h
    by_cases h4 : getInt c 0 = 4
    · simp only [h4, if_true]; exact hc
    · simp only [h4, if_false]; exact hc
  · exact ⟨fun b' u h => (by cases h; exact hc), fun b' h => (by cases h)⟩
  · exact ⟨fun b' u h => (by cases h; exact hc), fun b' h => (by cases h)⟩
  · exact ⟨fun b' u h => (by cases h), fun b' h => (by cases h)⟩

theorem step_canvas (T : Table) (s s' : St) (ch : Nat) (fb : Fb) (o : COut) (hc : Canvas s.bgi)
    (h : RipCanvas.step T s ch fb = .ok s' o) : Canvas s'.bgi := by
  unfold RipCanvas.step at h
  split at h
  · cases h
  · split at h
    · cases h
    · rename_i k hk
      split at h
      · rename_i b u he
        cases h
        exact (execCmd_canvas s.bgi k _ hc).1 b u he
      · rename_i b he
        cases h
        exact (execCmd_canvas s.bgi k _ hc).2 b he
      · cases h
      · cases h
      · cases h
  · cases h
    exact hc

end IcyVerif.RipCanvas

namespace IcyVerif.Bgi

theorem foldl_flatMap' {α β γ : Type} (g : α → List β) (f : γ → β → γ) : ∀ (l : List α) (init : γ),
    (l.flatMap g).foldl f init = l.foldl (fun acc x => (g x).foldl f acc) init := by
  intro l
  induction l with
  | nil => intro init; rfl
  | cons a t ih => intro init; rw [List.flatMap_cons, List.foldl_append, ih]; rfl

/-- the driver's fold over the picture bytes is the fold over `pictureData` -/
theorem picFold_eq {β : Type} (f : β → Nat → β) (init : β) (s : Bgi) : picFold f init s = (pictureData s).foldl f init := by
  unfold picFold pictureData
  rw [← Array.foldl_toList, foldl_flatMap']

end IcyVerif.Bgi
