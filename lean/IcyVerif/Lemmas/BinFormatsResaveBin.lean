import IcyVerif.Lemmas.BinFormatsRange
set_option linter.unusedSimpArgs false
set_option linter.unusedVariables false
/-!
# C05, BIN: every file the loader accepts loads to a picture the writer reproduces (or refuses)
-/
namespace IcyVerif.BinFormats
open IcyVerif.XbCompress IcyVerif.Gen

/-! ## what placement leaves alone -/

structure SameFrame (a b : LBuf) : Prop where
  bw : b.bw = a.bw
  lw : b.lw = a.lw
  ice : b.ice = a.ice
  pal : b.pal = a.pal
  fonts : b.fonts = a.fonts
  sauce : b.sauce = a.sauce

theorem SameFrame.refl (a : LBuf) : SameFrame a a := ⟨rfl, rfl, rfl, rfl, rfl, rfl⟩

theorem SameFrame.trans {a b c : LBuf} (h1 : SameFrame a b) (h2 : SameFrame b c) : SameFrame a c :=
  ⟨h2.bw.trans h1.bw, h2.lw.trans h1.lw, h2.ice.trans h1.ice, h2.pal.trans h1.pal, h2.fonts.trans h1.fonts, h2.sauce.trans h1.sauce⟩

theorem setChar_frame (b : LBuf) (x y : Nat) (c : Cell) : SameFrame b (b.setChar x y c) ∧ (b.setChar x y c).lh = b.lh ∧ (b.setChar x y c).bh = b.bh := by
  unfold LBuf.setChar
  split
  · exact ⟨SameFrame.refl b, rfl, rfl⟩
  · exact ⟨⟨rfl, rfl, rfl, rfl, rfl, rfl⟩, rfl, rfl⟩

theorem placeCell_frame (gl gb : Bool) (x0 xl : Nat) (s : LBuf × Nat × Nat) (c : Cell) : SameFrame s.1 (placeCell gl gb x0 xl s c).1 := by
  unfold placeCell
  simp only
  have key : SameFrame s.1 ((if gb then ({ (if gl then ({ s.1 with lh := (s.2.2 : Int) + 1 } : LBuf) else s.1) with bh := (s.2.2 : Int) + 1 } : LBuf)
      else (if gl then ({ s.1 with lh := (s.2.2 : Int) + 1 } : LBuf) else s.1)).setChar s.2.1 s.2.2 c) := by
    refine SameFrame.trans ?_ (setChar_frame _ _ _ _).1
    cases gl <;> cases gb <;> exact ⟨rfl, rfl, rfl, rfl, rfl, rfl⟩
  split <;> exact key

theorem placeAll_frame (gl gb : Bool) (x0 xl : Nat) (cells : List Cell) : ∀ (b : LBuf) (x y : Nat),
    SameFrame b (placeAll gl gb x0 xl b x y cells).1 := by
  induction cells with
  | nil => intro b x y; exact SameFrame.refl b
  | cons c cs ih =>
    intro b x y
    unfold placeAll
    simp only [List.foldl_cons]
    have h1 := placeCell_frame gl gb x0 xl (b, x, y) c
    have h2 := ih (placeCell gl gb x0 xl (b, x, y) c).1 (placeCell gl gb x0 xl (b, x, y) c).2.1 (placeCell gl gb x0 xl (b, x, y) c).2.2
    unfold placeAll at h2
    exact SameFrame.trans h1 h2

/-! ## decoded attribute bytes -/

theorem fromU8_cell : ∀ a, a < 256 → ∀ ice : Bool,
    (fromU8 ice a).fg < 16 ∧ (fromU8 ice a).page = 0 ∧
    (if ice then (fromU8 ice a).bg < 16 ∧ isBlink (fromU8 ice a) = false else (fromU8 ice a).bg < 8) ∧ isBold (fromU8 ice a) = false := by
  decide +kernel

theorem attrCell_fromU8 (ice : Bool) (c a : Nat) (hc : c < 256) (ha : a < 256) :
    attrCell ice ⟨c, fromU8 ice a⟩ = true ∧ (⟨c, fromU8 ice a⟩ : Cell).attr.page = 0 := by
  obtain ⟨h1, h2, h3, _⟩ := fromU8_cell a ha ice
  refine ⟨?_, h2⟩
  unfold attrCell
  cases ice
  · simp only [Bool.false_eq_true, if_false] at h3 ⊢
    simp only [Bool.and_eq_true, decide_eq_true_eq]
    exact ⟨⟨by omega, h1⟩, h3⟩
  · simp only [if_true] at h3 ⊢
    simp only [Bool.and_eq_true, decide_eq_true_eq, Bool.not_eq_true']
    exact ⟨⟨by omega, h1⟩, h3.1, h3.2⟩

theorem pairsOf_mem (data : List Nat) : ∀ p ∈ pairsOf data, p.1 ∈ data ∧ p.2 ∈ data := by
  induction data using pairsOf.induct with
  | case1 c a rest ih =>
    intro p hp
    simp only [pairsOf, List.mem_cons] at hp
    rcases hp with rfl | hp
    · simp
    · have := ih p hp
      exact ⟨by simp [this.1], by simp [this.2]⟩
  | case2 l hl =>
    intro p hp
    have : pairsOf l = [] := by
      unfold pairsOf
      split
      · rename_i c a rest; exact absurd rfl (hl c a rest)
      · rfl
    rw [this] at hp; cases hp

theorem attrCell_dflt (ice : Bool) : attrCell ice Cell.dflt = true := by cases ice <;> decide
theorem attrCell_invisible (ice : Bool) : attrCell ice Cell.invisible = true := by cases ice <;> decide

/-! ## the range of the BIN loader -/

structure BinRange (s : Option Sauce.Sauce) (g : LBuf) : Prop where
  pal : g.pal = dosPalette
  lw : g.lw = g.bw
  lh : g.lh = g.bh
  w1 : 1 ≤ g.bw
  font : (lookupFont g.fonts 0).isSome = true
  sauce : g.sauce = s.map metaOf
  cells : CellsOK (fun c => attrCell (g.ice == .ice) c = true ∧ c.attr.page = 0) g.lines

theorem lookup_startFonts (s : Sauce.Sauce) : (lookupFont (startFonts s) 0).isSome = true := by
  unfold startFonts
  cases s.font.bind sauceFontByName <;> simp [lookupFont, setFont, List.lookup]

theorem bin_range (data : List Nat) (hb : ∀ b ∈ data, b < 256) (s : Option Sauce.Sauce) (g : LBuf) (h : binLoad data s = .ok g) :
    BinRange s g := by
  unfold binLoad at h
  have hc : (BinFmt.binClearsRows == 1) = true := by decide
  rw [hc] at h
  -- the start buffer
  have hst : ∃ b0 : LBuf, (LBuf.start BinFmt.binStartW BinFmt.binStartH true).setSauce true s = b0 ∧ b0.lines = [] ∧ b0.pal = dosPalette ∧
      b0.lw = b0.bw ∧ 1 ≤ b0.bw ∧ (lookupFont b0.fonts 0).isSome = true ∧ b0.sauce = s.map metaOf := by
    cases s with
    | none =>
      rw [start_setSauce_none]
      refine ⟨_, rfl, ?_, ?_, ?_, ?_, ?_, ?_⟩ <;> first | rfl | decide
    | some s' =>
      refine ⟨_, rfl, ?_⟩
      unfold LBuf.setSauce LBuf.start
      refine ⟨rfl, rfl, rfl, ?_, ?_, rfl⟩
      · show 1 ≤ (if s'.width = 0 ∨ s'.width > BinFmt.sauceMaxWidth then BinFmt.sauceFallbackWidth else s'.width)
        split
        · decide
        · omega
      · exact lookup_startFonts s'
  obtain ⟨b0, hb0, hl0, hp0, hw0, hw1, hf0, hs0⟩ := hst
  rw [hb0] at h
  simp only at h
  have hg := Out.ok.inj h
  generalize hcells : ((pairsOf data).map fun p => (⟨p.1, fromU8' b0.ice p.2⟩ : Cell)) = cells at hg
  have hfr := placeAll_frame true false 0 (b0.bw - 1) cells b0 0 0
  have hok := placeAll_lines (fun c => attrCell (b0.ice == .ice) c = true ∧ c.attr.page = 0) true false 0 (b0.bw - 1) cells b0 0 0
    (by rw [hl0]; exact cellsOK_nil _)
    (by
      intro c hc _
      rw [← hcells] at hc
      obtain ⟨p, hp, rfl⟩ := List.mem_map.mp hc
      obtain ⟨h1, h2⟩ := pairsOf_mem data p hp
      exact attrCell_fromU8 _ _ _ (hb _ h1) (hb _ h2))
  rw [← hg]
  exact ⟨hfr.pal.trans hp0, by show _ = _; rw [hfr.lw, hfr.bw]; exact hw0, rfl, by show 1 ≤ _; rw [hfr.bw]; exact hw1,
    by show (lookupFont _ 0).isSome = true; rw [hfr.fonts]; exact hf0, by show _ = _; rw [hfr.sauce]; exact hs0,
    by show CellsOK _ _; rw [hfr.ice]; exact hok⟩

/-- a loaded BIN picture with at least one row and a width the SAUCE record can hold is in the writer's domain -/
theorem bin_loaded_representable (o : Opts) (s : Option Sauce.Sauce) (g : LBuf) (hr : BinRange s g) (hm : metaOk g.sauce = true)
    (hs : o.sauce = true) (hh : 1 ≤ g.bh) (hev : g.bw % 2 = 0) (hw : g.bw ≤ 510) :
    Representable .bin o g.toPic = true := by
  unfold Representable
  have hwf := toPic_wellFormed g hh
  have hcells : allCells g.toPic (attrCell (g.toPic.ice == .ice)) = true :=
    allCells_toPic _ _ g hr.cells (fun c _ hc => hc.1) (attrCell_dflt _) (attrCell_invisible _)
  have hpg : analyzeFontUsage g.toPic.rows.flatten = [0] :=
    toPic_usage_zero g hh hr.w1 (fun l hl c hc hv => (hr.cells l hl c hc hv).2)
  have hw2 : 2 ≤ g.bw := by have := hr.w1; omega
  simp only [Bool.and_eq_true, beq_iff_eq, decide_eq_true_eq]
  exact ⟨⟨hm, hwf⟩, ⟨⟨⟨⟨⟨⟨⟨hev, hw2⟩, hw⟩, hs⟩, hcells⟩, hr.pal⟩, hpg⟩, hr.font⟩⟩

/-- … and a width it cannot hold is refused by the writer (no file is written) -/
theorem bin_loaded_refused (o : Opts) (date : List Nat) (s : Option Sauce.Sauce) (g : LBuf) (hr : BinRange s g) (hm : metaOk g.sauce = true)
    (hs : o.sauce = true) (hbad : g.bw % 2 ≠ 0 ∨ g.bw > 510) : save .bin o date g.toPic = .err := by
  show binSave o.sauce date g.toPic = .err
  unfold binSave
  by_cases hodd : g.toPic.w % 2 ≠ 0
  · rw [if_pos hodd]
  · have hgt : g.bw > 510 := by
      rcases hbad with h | h
      · exact absurd h hodd
      · exact h
    rw [if_neg hodd]
    simp only [hs, if_true]
    unfold writeSauce
    obtain ⟨_, hcl⟩ := metaOk_valid g.toPic [] hm
    have hcl' : ¬ ((g.toPic.sauce.getD {}).comments.length > Gen.Sauce.commentLimit) := by omega
    simp only [hcl', if_false]
    obtain ⟨f0, hf0⟩ := Option.isSome_iff_exists.mp hr.font
    have hf0' : lookupFont g.toPic.fonts 0 = some f0 := hf0
    simp only [hf0']
    have : Sauce.writeSauceInfo SauceKind.bin.idx (bufInfo g.toPic f0.name) date
        (g.toPic.rows.flatMap fun row => row.flatMap fun c => [c.ch % 256, asU8' g.toPic.ice c.attr]) = .err .binWidth := by
      unfold Sauce.writeSauceInfo Sauce.writeSauce
      have hcl2 : ¬ (((bufInfo g.toPic f0.name).sauce.getD {}).comments.length > Gen.Sauce.commentLimit) := hcl'
      have harm : (Sauce.writerArm SauceKind.bin.idx).fileType = none := by decide
      have hw : (bufInfo g.toPic f0.name).width / 2 > 255 := by
        have e : (bufInfo g.toPic f0.name).width = g.bw := rfl
        have e2 : g.toPic.w = g.bw := rfl
        rw [e2] at hodd
        rw [e]; omega
      simp only [hcl2, if_false, harm, hw, if_true]
      rfl
    rw [this]

end IcyVerif.BinFormats
