import IcyVerif.Lemmas.FontRt
set_option linter.unusedSimpArgs false
set_option linter.unusedVariables false
/-!
# C17: raw 8-bit glyph data through `BitFont::from_bytes` — the EXACT guard

Raw glyph data (`convert_to_u8_data`, the payload of the `CTerm:Font:` DCS sequence) has no header, and `from_bytes` looks
for the PSF1 / PSF2 magic numbers first.  `rawGuard d h` is the decidable condition on the data under which the round trip
holds, and it is exact (`raw_exact`: iff):

* data that starts with the PSF1 magic `36 04` NEVER comes back (a PSF1 font has a 4-byte header, so at most 255 glyphs of
  the claimed height are left);
* data that starts with the PSF2 magic `72 b5 4a 86` comes back in exactly one case: its first 32 bytes happen to be a PSF2
  header with version 0, header size 0, 256 glyphs, char size = height = the font's height and width 8 — then the "header"
  is read a second time as glyph data and the result is the font;
* all other data comes back.
-/
namespace IcyVerif.Font
open IcyVerif.Uni

theorem splitExact_some : ∀ (n : Nat) (l g rest : List Nat), splitExact n l = some (g, rest) →
    g.length = n ∧ l = g ++ rest := by
  intro n
  induction n with
  | zero => intro l g rest h; simp [splitExact] at h; obtain ⟨rfl, rfl⟩ := h; simp
  | succ n ih =>
    intro l g rest h
    cases l with
    | nil => simp [splitExact] at h
    | cons x l =>
      simp only [splitExact, Option.map_eq_some_iff] at h
      obtain ⟨⟨g', r'⟩, hs, he⟩ := h
      simp only [Prod.mk.injEq] at he
      obtain ⟨rfl, rfl⟩ := he
      obtain ⟨h1, h2⟩ := ih l g' r' hs
      simp [h1, h2]

theorem splitExact_none : ∀ (n : Nat) (l : List Nat), splitExact n l = none → l.length < n := by
  intro n
  induction n with
  | zero => intro l h; simp [splitExact] at h
  | succ n ih =>
    intro l h
    cases l with
    | nil => simp
    | cons x l =>
      simp only [splitExact, Option.map_eq_none_iff] at h
      have := ih l h
      simp; omega

/-- the loader makes `len / h` glyphs out of `len` bytes -/
theorem glyphLoop_length (h : Nat) (hh : 1 ≤ h) : ∀ (fuel ch : Nat) (data : List Nat), data.length ≤ fuel →
    (glyphLoop h fuel ch data).length = data.length / h := by
  intro fuel
  induction fuel with
  | zero =>
    intro ch data hf
    have : data = [] := by cases data with | nil => rfl | cons _ _ => simp at hf
    subst this
    simp [glyphLoop]
  | succ fuel ih =>
    intro ch data hf
    unfold glyphLoop
    cases hs : splitExact h data with
    | none =>
      have := splitExact_none h data hs
      simp only [List.length_nil]
      exact (Nat.div_eq_of_lt this).symm
    | some p =>
      obtain ⟨g, rest⟩ := p
      obtain ⟨hg, hd⟩ := splitExact_some h data g rest hs
      simp only [List.length_cons]
      rw [ih (ch + 1) rest (by rw [hd] at hf; simp at hf; omega), hd]
      simp only [List.length_append, hg]
      rw [Nat.add_comm h, Nat.add_div_right _ (by omega)]

theorem glyphsFromU8_length (h : Nat) (hh : 1 ≤ h) (data : List Nat) : (glyphsFromU8 h data).length = data.length / h := by
  unfold glyphsFromU8
  rw [if_neg (by omega)]
  exact glyphLoop_length h hh _ 0 data (Nat.le_refl _)

/-- four bytes at an offset inside the data: a value below 2^32 -/
theorem rd32_some (d : List Nat) (hb : ∀ x ∈ d, x < 256) (o : Nat) (h : o + 4 ≤ d.length) :
    ∃ v, rd32 d o = some v ∧ v < 4294967296 := by
  unfold rd32
  have hl : (d.drop o).length ≥ 4 := by simp; omega
  have hm : ∀ x ∈ d.drop o, x < 256 := fun x hx => hb x (List.mem_of_mem_drop hx)
  match hd : d.drop o, hl, hm with
  | a :: b :: c :: e :: _, _, hm =>
    refine ⟨_, rfl, ?_⟩
    have := hm a (by simp); have := hm b (by simp); have := hm c (by simp); have := hm e (by simp)
    unfold le32; omega
  | [], hl, _ => simp at hl
  | [_], hl, _ => simp at hl
  | [_, _], hl, _ => simp at hl
  | [_, _, _], hl, _ => simp at hl

theorem asI32_eq_small (n : Nat) (k : Nat) (hn : n < 4294967296) (hk : k < 2147483648) (h : asI32 n = (k : Int)) : n = k := by
  unfold asI32 at h
  have e : n % 4294967296 = n := Nat.mod_eq_of_lt hn
  simp only [e] at h
  split at h <;> omega

theorem rawGuard_of_noMagic (d : List Nat) (h : Nat) (hm : noMagic d = true) : rawGuard d h = true := by
  unfold rawGuard
  match d, hm with
  | a :: b :: c :: e :: _, hm =>
    simp only [noMagic, Bool.and_eq_true, Bool.not_eq_true'] at hm
    simp only [hm.1, hm.2, Bool.false_eq_true, if_false]
  | [], _ => rfl
  | [_], _ => rfl
  | [_, _], _ => rfl
  | [_, _, _], _ => rfl

/-- PSF1 magic: the data never comes back -/
theorem raw_psf1_fails (f : BitFont) (h : Nat) (wf : WfFont f h) (h256 : f.glyphs.length = 256)
    (c e : Nat) (rest : List Nat) (hd : flat f.glyphs = 0x36 :: 0x04 :: c :: e :: rest) :
    fromBytes (flat f.glyphs) ≠ .ok f := by
  intro hfb
  have hlen := flat_length h _ wf.rows
  rw [h256, hd] at hlen
  rw [hd] at hfb
  unfold fromBytes at hfb
  simp only [true_and, if_true, loadPsf1] at hfb
  split at hfb
  · cases hfb
  injection hfb with hfb
  have hh : (e : Int) = f.h := by rw [← hfb]
  have hg : glyphsFromU8 e rest = f.glyphs := by rw [← hfb]
  have he : e = h := by have := wf.hh; omega
  have h1 := wf.h1
  have hl := glyphsFromU8_length e (by omega) rest
  rw [hg, h256, he] at hl
  simp only [List.length_cons] at hlen
  have : rest.length / h < 256 := by
    apply (Nat.div_lt_iff_lt_mul (by omega)).mpr
    omega
  omega

/-- PSF2 magic: the data comes back iff its first 32 bytes are the overlay header -/
theorem raw_psf2_iff (f : BitFont) (h : Nat) (wf : WfFont f h) (h256 : f.glyphs.length = 256)
    (hb : ∀ x ∈ flat f.glyphs, x < 256)
    (a b c e : Nat) (rest : List Nat) (hd : flat f.glyphs = a :: b :: c :: e :: rest)
    (h1 : ¬ (a = 0x36 ∧ b = 0x04)) (h2 : le32 a b c e = psf2Magic) :
    fromBytes (flat f.glyphs) = .ok f ↔ psf2Overlay (flat f.glyphs) h = true := by
  have hlen := flat_length h _ wf.rows
  have hg := glyphsFromU8_flat h wf.h1 _ wf.rows wf.n
  have hh1 := wf.h1
  have hh255 := wf.h255
  rw [h256] at hlen
  have hfb : fromBytes (flat f.glyphs) = loadPsf2 (flat f.glyphs) := by
    rw [hd]; unfold fromBytes; simp only [h1, if_false, h2, if_true]
  rw [hfb]
  generalize hdd : flat f.glyphs = d at hlen hg hb
  obtain ⟨v, hv, bv⟩ := rd32_some d hb 4 (by omega)
  obtain ⟨hs, hhs, bhs⟩ := rd32_some d hb 8 (by omega)
  obtain ⟨len, hlen', blen⟩ := rd32_some d hb 16 (by omega)
  obtain ⟨cs, hcs, bcs⟩ := rd32_some d hb 20 (by omega)
  obtain ⟨ht, hht, bht⟩ := rd32_some d hb 24 (by omega)
  obtain ⟨w, hw, bw⟩ := rd32_some d hb 28 (by omega)
  unfold loadPsf2 psf2Overlay
  rw [if_neg (by omega), hv, hhs, hlen', hcs, hht, hw]
  simp only [Bool.and_eq_true, beq_iff_eq, Option.some.injEq]
  constructor
  · intro hok
    split at hok
    · cases hok
    rename_i hv0
    split at hok
    · cases hok
    rename_i hcond
    injection hok with hok
    have hw8 : asI32 w = 8 := by rw [← wf.w8, ← hok]
    have hhh : asI32 ht = (h : Int) := by rw [← wf.hh, ← hok]
    have hl256 : asI32 len = 256 := by
      have := wf.len; rw [h256] at this; rw [← hok] at this; exact this
    have ew : w = 8 := asI32_eq_small w 8 bw (by omega) hw8
    have eh : ht = h := asI32_eq_small ht h bht (by omega) hhh
    have el : len = 256 := asI32_eq_small len 256 blen (by omega) hl256
    have hcond' : ¬ (asI32 len < 0) ∧ ¬ (asI32 cs ≤ 0) ∧ asI32 len * asI32 cs + (hs : Int) = (d.length : Int) ∧
        asI32 cs = ((ht * ((w + 7) / 8) : Nat) : Int) := by
      refine ⟨fun x => hcond (Or.inl x), fun x => hcond (Or.inr (Or.inl x)), ?_, ?_⟩
      · exact Decidable.byContradiction fun x => hcond (Or.inr (Or.inr (Or.inl x)))
      · exact Decidable.byContradiction fun x => hcond (Or.inr (Or.inr (Or.inr x)))
    obtain ⟨_, _, hsum, hcsv⟩ := hcond'
    have hcs' : asI32 cs = (h : Int) := by rw [hcsv, ew, eh]; simp
    have ec : cs = h := asI32_eq_small cs h bcs (by omega) hcs'
    rw [hl256, hcs', hlen] at hsum
    have e0 : hs = 0 := by
      have : (256 : Int) * (h : Int) = ((256 * h : Nat) : Int) := by simp
      omega
    have ev : v = 0 := by omega
    exact ⟨⟨⟨⟨⟨ev, e0⟩, el⟩, ec⟩, eh⟩, ew⟩
  · intro hov
    obtain ⟨⟨⟨⟨⟨ev, e0⟩, el⟩, ec⟩, eh⟩, ew⟩ := hov
    rw [ev, e0, el, ec, eh, ew]
    rw [if_neg (by omega)]
    have a1 : asI32 256 = 256 := by decide
    have a2 : asI32 8 = 8 := by decide
    have a3 : asI32 h = (h : Int) := asI32_small h (by omega)
    rw [a1, a2, a3]
    have hcond : ¬ ((256 : Int) < 0 ∨ (h : Int) ≤ 0 ∨ (256 : Int) * (h : Int) + ((0 : Nat) : Int) ≠ (d.length : Int) ∨
        (h : Int) ≠ ((h * ((8 + 7) / 8) : Nat) : Int)) := by
      rw [hlen]
      have : (256 : Int) * (h : Int) = ((256 * h : Nat) : Int) := by simp
      simp only [Nat.reduceAdd, Nat.reduceDiv, Nat.mul_one]
      omega
    rw [if_neg hcond]
    simp only [List.drop_zero, hg]
    have := wf.len; have := wf.hh; have := wf.w8
    cases f
    simp_all

/-- **the exact guard**: raw glyph data of a 256-glyph font comes back through `from_bytes` iff `rawGuard` holds -/
theorem raw_exact (f : BitFont) (h : Nat) (wf : WfFont f h) (h256 : f.glyphs.length = 256)
    (hb : ∀ x ∈ flat f.glyphs, x < 256) :
    fromBytes (flat f.glyphs) = .ok f ↔ rawGuard (flat f.glyphs) h = true := by
  have hlen := flat_length h _ wf.rows
  have hh1 := wf.h1
  rw [h256] at hlen
  match hd : flat f.glyphs, hlen with
  | a :: b :: c :: e :: rest, _ =>
    by_cases h1 : a = 0x36 ∧ b = 0x04
    · obtain ⟨rfl, rfl⟩ := h1
      have hf := raw_psf1_fails f h wf h256 c e rest hd
      rw [hd] at hf
      constructor
      · intro hx; exact absurd hx hf
      · intro hx; simp [rawGuard] at hx
    · by_cases h2 : le32 a b c e = psf2Magic
      · have := raw_psf2_iff f h wf h256 hb a b c e rest hd h1 h2
        rw [hd] at this
        rw [this]
        have hg : rawGuard (a :: b :: c :: e :: rest) h = psf2Overlay (a :: b :: c :: e :: rest) h := by
          unfold rawGuard
          have : (a == 0x36 && b == 0x04) = false := by
            simp only [Bool.and_eq_false_iff, beq_eq_false_iff_ne, ne_eq]
            by_cases ha : a = 0x36
            · right; intro hb'; exact h1 ⟨ha, hb'⟩
            · left; exact ha
          simp only [this, Bool.false_eq_true, if_false, h2, beq_self_eq_true, if_true]
        rw [hg]
      · have hnm : noMagic (a :: b :: c :: e :: rest) = true := by
          simp only [noMagic, Bool.and_eq_true, Bool.not_eq_true', beq_eq_false_iff_ne, ne_eq, Bool.and_eq_false_iff]
          refine ⟨?_, h2⟩
          by_cases ha : a = 0x36
          · right; intro hb'; exact h1 ⟨ha, hb'⟩
          · left; exact ha
        have hr := raw_roundtrip f h wf h256 (by rw [hd]; exact hnm)
        rw [hd] at hr
        exact ⟨fun _ => rawGuard_of_noMagic _ h hnm, fun _ => hr⟩
  | [], hl => simp at hl; omega
  | [_], hl => simp at hl; omega
  | [_, _], hl => simp at hl; omega
  | [_, _, _], hl => simp at hl; omega

end IcyVerif.Font
