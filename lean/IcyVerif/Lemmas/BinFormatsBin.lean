import IcyVerif.Lemmas.BinFormatsCells
set_option linter.unusedSimpArgs false
set_option linter.unusedVariables false
/-!
# C05, BIN: save → load reproduces every representable picture
-/
namespace IcyVerif.BinFormats
open IcyVerif.XbCompress IcyVerif.Gen

theorem dims_bin (w t1 t2 : Nat) (ice : Bool) (hw : w % 2 = 0) (hw2 : w ≤ 510) :
    sauceDims (BinFmt.sauceDtBinaryText % 256) ((w / 2) % 256) t1 t2 (if ice then BinFmt.sauceFlagNonBlink else 0) =
      (w, BinFmt.sauceDefaultH, ice) := by
  unfold sauceDims
  have h1 : BinFmt.sauceDtBinaryText % 256 = BinFmt.sauceDtBinaryText := by decide
  have h2 : (w / 2) % 256 * 2 % 65536 = w := by omega
  have h3 : ((if ice then BinFmt.sauceFlagNonBlink else 0) &&& BinFmt.sauceFlagNonBlink == BinFmt.sauceFlagNonBlink) = ice := by
    cases ice <;> decide
  simp only [h1, if_true, h2, h3]

/-- the start buffer of the BIN loader after `set_sauce` with the record the writer stored -/
theorem bin_start (w : Nat) (ice : Bool) (hw1 : 1 ≤ w) (hw2 : w ≤ 1000) :
    (LBuf.start BinFmt.binStartW BinFmt.binStartH (BinFmt.binClearsRows == 1)).setSauce (some ⟨w, BinFmt.sauceDefaultH, ice, 129⟩) =
      { bw := w, bh := 25, lw := w, lh := 25, lines := [], ice := if ice then .ice else .unlimited, pal := dosPalette,
        fonts := [(0, defaultFont)] } := by
  unfold LBuf.setSauce LBuf.start
  have hc : (BinFmt.binClearsRows == 1) = true := by decide
  have hm : BinFmt.sauceMaxWidth = 1000 := rfl
  have hcond : ¬ (w = 0 ∨ w > BinFmt.sauceMaxWidth) := by rw [hm]; omega
  simp only [hc, if_true, hcond, if_false]
  rfl

theorem rows_nonempty (p : Pic) (hwf : wellFormed p = true) : p.rows ≠ [] ∧ p.rows.length = p.h ∧ (∀ r ∈ p.rows, r.length = p.w) := by
  unfold wellFormed at hwf
  simp only [Bool.and_eq_true, beq_iff_eq, List.all_eq_true, decide_eq_true_eq] at hwf
  obtain ⟨⟨h1, h2⟩, h3⟩ := hwf
  refine ⟨?_, h1, h2⟩
  intro he; rw [he] at h1; simp at h1; omega

theorem bin_roundtrip (o : Opts) (date : List Nat) (p : Pic) (hrep : Representable .bin o p = true) (hdate : dateOk date = true) :
    ∃ bytes g, save .bin o date p = .ok bytes ∧ fromBytes .bin bytes = .ok g ∧ SamePicture .bin p g := by
  unfold Representable at hrep
  simp only [Bool.and_eq_true, beq_iff_eq, decide_eq_true_eq] at hrep
  obtain ⟨hwf, ⟨⟨⟨⟨⟨⟨⟨hev, hw2⟩, hw510⟩, hs⟩, hcells⟩, hpal⟩, hpages⟩, hfont⟩⟩ := hrep
  obtain ⟨hne, hrows, hwid⟩ := rows_nonempty p hwf
  obtain ⟨f0, hf0⟩ := Option.isSome_iff_exists.mp hfont
  have hd8 := dateOk_length date hdate
  -- the file
  let body := p.rows.flatMap fun row => row.flatMap fun c => [c.ch % 256, asU8' p.ice c.attr]
  let info := infoStr f0.name
  let fl := if (p.ice == IceMode.ice) then BinFmt.sauceFlagNonBlink else 0
  let bytes := body ++ [0x1A] ++ sauceHead date (body.length + 1) ++
      ([BinFmt.sauceDtBinaryText % 256, (p.w / 2) % 256] ++ u16le 0 ++ u16le 0 ++ [0, 0, 0, 0] ++ [0, fl] ++ info)
  have hsave : save .bin o date p = .ok bytes := by
    show binSave o.sauce date p = .ok bytes
    unfold binSave writeSauce sauceFields
    have : ¬ (p.w / 2 > 255) := by omega
    simp only [hs, if_true, hf0, this, if_false]
    rfl
  obtain ⟨hext, hlen⟩ := extract_written body date info (BinFmt.sauceDtBinaryText % 256) ((p.w / 2) % 256) (0 % 256) ((0 / 256) % 256)
    (0 % 256) ((0 / 256) % 256) 0 0 0 0 fl hd8 hdate (infoStr_length _)
  rw [dims_bin p.w _ _ (p.ice == IceMode.ice) hev hw510] at hext
  have hext' : extractSauce bytes = .some ⟨p.w, BinFmt.sauceDefaultH, (p.ice == IceMode.ice), 129⟩ := hext
  have hlen' : bytes.length = body.length + 129 := hlen
  -- the loader
  have hbody : bytes.take (bytes.length - 129) = body := by
    rw [hlen']
    have e : body.length + 129 - 129 = body.length := by omega
    rw [e]
    show (body ++ [0x1A] ++ sauceHead date (body.length + 1) ++ _).take body.length = body
    rw [List.append_assoc, List.append_assoc]
    exact List.take_left' rfl
  -- what the loader decodes: every cell becomes its `shownCell`
  have hdec : ∀ r ∈ p.rows, ∀ c ∈ r,
      (⟨c.ch % 256, fromU8' (if (p.ice == IceMode.ice) then IceMode.ice else IceMode.unlimited) (asU8' p.ice c.attr)⟩ : Cell) = shownCell c := by
    intro r hr c hc
    have hac : attrCell (p.ice == IceMode.ice) c = true := by
      unfold allCells at hcells
      exact List.all_eq_true.mp (List.all_eq_true.mp hcells r hr) c hc
    have hp0 := page_zero p.rows hpages r hr c hc
    cases hice : p.ice with
    | ice =>
      rw [hice] at hac
      have hch : c.ch % 256 = c.ch := by have := (attrCell_ice c hac).1; omega
      rw [hch]
      exact dec_ice c hac hp0
    | blink =>
      rw [hice] at hac
      have hch : c.ch % 256 = c.ch := by have := (attrCell_blink c hac).1; omega
      rw [hch]
      exact dec_blink c hac hp0
    | unlimited =>
      rw [hice] at hac
      have hch : c.ch % 256 = c.ch := by have := (attrCell_blink c hac).1; omega
      rw [hch]
      exact dec_unl c hac hp0
  let rows' := p.rows.map fun r => r.map shownCell
  let b0 : LBuf := { bw := p.w, bh := 25, lw := p.w, lh := 25, lines := [], ice := if (p.ice == IceMode.ice) then .ice else .unlimited,
                     pal := dosPalette, fonts := [(0, defaultFont)] }
  have hcellsEq : ((pairsOf body).map fun q => (⟨q.1, fromU8' b0.ice q.2⟩ : Cell)) = rows'.flatten := by
    have h1 : pairsOf body = p.rows.flatten.map (fun c => (c.ch % 256, asU8' p.ice c.attr)) := by
      show pairsOf (p.rows.flatMap fun row => row.flatMap fun c => [c.ch % 256, asU8' p.ice c.attr]) = _
      rw [flatMap_rows, pairsOf_flat]
    rw [h1, List.map_map]
    have h2 : p.rows.flatten.map ((fun q => (⟨q.1, fromU8' b0.ice q.2⟩ : Cell)) ∘ fun c => (c.ch % 256, asU8' p.ice c.attr)) =
        p.rows.flatten.map shownCell := by
      apply List.map_congr_left
      intro c hc
      obtain ⟨r, hr, hcr⟩ := List.mem_flatten.mp hc
      exact hdec r hr c hcr
    rw [h2, map_flatten_rows]
  have hplace := placeAll_rows true false p.w (by omega) rows' b0 (by
      intro r hr
      obtain ⟨r0, hr0, rfl⟩ := List.mem_map.mp hr
      rw [List.length_map]; exact hwid r0 hr0) (Nat.le_refl _) (Or.inl rfl)
  have hrl : rows'.length = p.h := by simp [rows', hrows]
  have hrne : rows' ≠ [] := by simp [rows', hne]
  let g : LBuf := { b0 with lines := rows'.map (partRow p.w), lh := (p.h : Int), bh := (p.h : Int) }
  have hload : fromBytes .bin bytes = .ok g := by
    unfold fromBytes
    rw [hext']
    simp only
    rw [hbody]
    show binLoad body (some ⟨p.w, BinFmt.sauceDefaultH, (p.ice == IceMode.ice), 129⟩) = .ok g
    unfold binLoad
    rw [bin_start p.w _ (by omega) (by omega)]
    dsimp only
    rw [hcellsEq]
    have hp' := hplace
    simp only [b0, List.length_nil, List.nil_append, hrne, ne_eq, not_false_eq_true, and_true, if_true, Bool.false_eq_true,
      false_and, if_false, hrl] at hp'
    rw [hp']
    simp [g, b0]
  refine ⟨bytes, g, hsave, hload, ?_⟩
  refine ⟨rfl, rfl, ?_, ?_, ?_, ?_, ?_⟩
  · show ((rows'.map (partRow p.w)).length : Int) ≤ (p.h : Int)
    simp [hrl]
  · show isIce (if (p.ice == IceMode.ice) then IceMode.ice else IceMode.unlimited) = isIce p.ice
    cases p.ice <;> rfl
  · exact cells_of_rows p g hwf (Nat.le_refl _) rfl hpal.symm rfl
  · intro h; exact absurd h (by decide)
  · intro h; exact absurd h (by decide)

end IcyVerif.BinFormats
