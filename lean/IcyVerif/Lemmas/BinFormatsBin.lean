import IcyVerif.Lemmas.BinFormatsSauce
set_option linter.unusedSimpArgs false
set_option linter.unusedVariables false
/-!
# C05, BIN: save → load reproduces every representable picture
-/
namespace IcyVerif.BinFormats
open IcyVerif.XbCompress IcyVerif.Gen

theorem rows_nonempty (p : Pic) (hwf : wellFormed p = true) : p.rows ≠ [] ∧ p.rows.length = p.h ∧ (∀ r ∈ p.rows, r.length = p.w) := by
  unfold wellFormed at hwf
  simp only [Bool.and_eq_true, beq_iff_eq, List.all_eq_true, decide_eq_true_eq] at hwf
  obtain ⟨⟨h1, h2⟩, h3⟩ := hwf
  refine ⟨?_, h1, h2⟩
  intro he; rw [he] at h1; simp at h1; omega

/-- the buffer the BIN loader produces for a representable picture saved with the record `s` -/
def binLoaded (p : Pic) (s : Sauce.Sauce) : LBuf :=
  { bw := p.w, bh := (p.h : Int), lw := p.w, lh := (p.h : Int), lines := (p.rows.map fun r => r.map shownCell).map (partRow p.w),
    ice := if s.ice then .ice else .unlimited, pal := dosPalette, fonts := startFonts s, sauce := some (metaOf s) }

/-- the BIN loader on the cell bytes the writer produced, with a record that says the picture's width and mode -/
theorem bin_load (p : Pic) (s : Sauce.Sauce) (hwf : wellFormed p = true) (hw1 : 1 ≤ p.w) (hw2 : p.w ≤ 1000)
    (hsw : s.width = p.w) (hsi : s.ice = (p.ice == .ice))
    (hcells : allCells p (attrCell (p.ice == .ice)) = true) (hpages : analyzeFontUsage p.rows.flatten = [0]) :
    binLoad (p.rows.flatMap fun row => row.flatMap fun c => [c.ch % 256, asU8' p.ice c.attr]) (some s) = .ok (binLoaded p s) := by
  obtain ⟨hne, hrows, hwid⟩ := rows_nonempty p hwf
  let body := p.rows.flatMap fun row => row.flatMap fun c => [c.ch % 256, asU8' p.ice c.attr]
  -- what the loader decodes: every cell becomes its `shownCell`
  have hdec : ∀ r ∈ p.rows, ∀ c ∈ r,
      (⟨c.ch % 256, fromU8' (if (p.ice == IceMode.ice) then IceMode.ice else IceMode.unlimited) (asU8' p.ice c.attr)⟩ : Cell) = shownCell c := by
    intro r hr c hc
    have hac : attrCell (p.ice == IceMode.ice) c = true := by
      unfold allCells at hcells
      exact List.all_eq_true.mp (List.all_eq_true.mp hcells r hr) c hc
    have hp0 := page_zero p.rows hpages r hr c hc
    cases hice : p.ice with
    | ice =>
      rw [hice] at hac
      have hch : c.ch % 256 = c.ch := by have := (attrCell_ice c hac).1; omega
      rw [hch]
      exact dec_ice c hac hp0
    | blink =>
      rw [hice] at hac
      have hch : c.ch % 256 = c.ch := by have := (attrCell_blink c hac).1; omega
      rw [hch]
      exact dec_blink c hac hp0
    | unlimited =>
      rw [hice] at hac
      have hch : c.ch % 256 = c.ch := by have := (attrCell_blink c hac).1; omega
      rw [hch]
      exact dec_unl c hac hp0
  let rows' := p.rows.map fun r => r.map shownCell
  let b0 : LBuf := { bw := p.w, bh := s.height, lw := p.w, lh := s.height, lines := [], ice := if (p.ice == IceMode.ice) then .ice else .unlimited,
                     pal := dosPalette, fonts := startFonts s, sauce := some (metaOf s) }
  have hcellsEq : ((pairsOf body).map fun q => (⟨q.1, fromU8' b0.ice q.2⟩ : Cell)) = rows'.flatten := by
    have h1 : pairsOf body = p.rows.flatten.map (fun c => (c.ch % 256, asU8' p.ice c.attr)) := by
      show pairsOf (p.rows.flatMap fun row => row.flatMap fun c => [c.ch % 256, asU8' p.ice c.attr]) = _
      rw [flatMap_rows, pairsOf_flat]
    rw [h1, List.map_map]
    have h2 : p.rows.flatten.map ((fun q => (⟨q.1, fromU8' b0.ice q.2⟩ : Cell)) ∘ fun c => (c.ch % 256, asU8' p.ice c.attr)) =
        p.rows.flatten.map shownCell := by
      apply List.map_congr_left
      intro c hc
      obtain ⟨r, hr, hcr⟩ := List.mem_flatten.mp hc
      exact hdec r hr c hcr
    rw [h2, map_flatten_rows]
  have hplace := placeAll_rows true false p.w (by omega) rows' b0 (by
      intro r hr
      obtain ⟨r0, hr0, rfl⟩ := List.mem_map.mp hr
      rw [List.length_map]; exact hwid r0 hr0) (Nat.le_refl _) (Or.inl rfl)
  have hrl : rows'.length = p.h := by simp [rows', hrows]
  have hrne : rows' ≠ [] := by simp [rows', hne]
  show binLoad body (some s) = _
  unfold binLoad
  have hc : (BinFmt.binClearsRows == 1) = true := by decide
  rw [hc, start_setSauce _ _ s (by omega) (by omega), hsw, hsi]
  dsimp only
  rw [hcellsEq]
  have hp' := hplace
  simp only [b0, List.length_nil, List.nil_append, hrne, ne_eq, not_false_eq_true, and_true, if_true, Bool.false_eq_true,
    false_and, if_false, hrl] at hp'
  rw [hp']
  simp [binLoaded, hsi, rows']

theorem samePicture_bin (p : Pic) (s : Sauce.Sauce) (hwf : wellFormed p = true) (hsi : s.ice = (p.ice == .ice)) (hpal : p.pal = dosPalette) :
    SamePicture .bin p (binLoaded p s) := by
  obtain ⟨hne, hrows, hwid⟩ := rows_nonempty p hwf
  refine ⟨rfl, rfl, ?_, ?_, ?_, ?_, ?_⟩
  · show (((p.rows.map fun r => r.map shownCell).map (partRow p.w)).length : Int) ≤ (p.h : Int)
    simp [hrows]
  · show isIce (if s.ice then IceMode.ice else IceMode.unlimited) = isIce p.ice
    rw [hsi]
    cases p.ice <;> rfl
  · exact cells_of_rows p (binLoaded p s) hwf (Nat.le_refl _) rfl hpal.symm rfl
  · intro h; exact absurd h (by decide)
  · intro h; exact absurd h (by decide)

theorem bin_roundtrip (o : Opts) (date : List Nat) (p : Pic) (hrep : Representable .bin o p = true) (hdate : dateOk date = true) :
    ∃ bytes g, save .bin o date p = .ok bytes ∧ fromBytes .bin bytes = .ok g ∧ SamePicture .bin p g := by
  unfold Representable at hrep
  simp only [Bool.and_eq_true, beq_iff_eq, decide_eq_true_eq] at hrep
  obtain ⟨⟨hmeta, hwf⟩, ⟨⟨⟨⟨⟨⟨⟨hev, hw2⟩, hw510⟩, hs⟩, hcells⟩, hpal⟩, hpages⟩, hfont⟩⟩ := hrep
  obtain ⟨f0, hf0⟩ := Option.isSome_iff_exists.mp hfont
  let body := p.rows.flatMap fun row => row.flatMap fun c => [c.ch % 256, asU8' p.ice c.attr]
  obtain ⟨bytes, hw, _, hfb⟩ := fromBytes_sauced .bin .bin p date body f0 hf0 hmeta (fun _ => by omega) hdate
  obtain ⟨c1, _, c3, _⟩ := carry_bin p f0.name (bytes.length - body.length)
  have hcw : (Sauce.carry SauceKind.bin.idx (bufInfo p f0.name) (bytes.length - body.length)).width = p.w := by rw [c1]; omega
  refine ⟨bytes, _, ?_, ?_, samePicture_bin p _ hwf c3 hpal⟩
  · show binSave o.sauce date p = .ok bytes
    unfold binSave
    have : ¬ (p.w % 2 ≠ 0) := by omega
    simp only [this, if_false, hs, if_true]
    exact hw
  · rw [hfb]
    exact bin_load p _ hwf (by omega) (by omega) hcw c3 hcells hpages

end IcyVerif.BinFormats
