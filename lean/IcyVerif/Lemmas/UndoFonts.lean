import IcyVerif.Lemmas.UndoOps
set_option linter.unusedSimpArgs false
set_option linter.unusedVariables false
/-! # C08: records that touch the font table, palette, modes, SAUCE, selection mask, caret; `ReversedUndo` -/
namespace IcyVerif.Undo

/-! ## the font table as a function -/

theorem fmLookup_remove (m : List (Nat × Nat)) (k k' : Nat) :
    fmLookup (fmRemove m k) k' = if k' = k then none else fmLookup m k' := by
  unfold fmLookup fmRemove
  induction m with
  | nil => simp
  | cons p m ih =>
    by_cases hp : p.1 = k
    · have h1 : (p.1 != k) = false := by simp [hp]
      simp only [List.filter_cons, h1, Bool.false_eq_true, if_false]
      rw [ih]
      by_cases hk : k' = k
      · simp [hk]
      · have h2 : (p.1 == k') = false := by
          simp only [beq_eq_false_iff_ne, ne_eq]; intro h; exact hk (h.symm.trans hp)
        simp [hk, List.find?_cons, h2]
    · have h1 : (p.1 != k) = true := by simp [hp]
      simp only [List.filter_cons, h1, if_true, List.find?_cons]
      by_cases h2 : (p.1 == k') = true
      · have : k' ≠ k := by
          intro h; apply hp; rw [← h]; exact (beq_iff_eq.mp h2)
        simp [h2, this]
      · have h2' : (p.1 == k') = false := by simpa using h2
        simp only [h2']
        exact ih

theorem fmLookup_insert (m : List (Nat × Nat)) (k v k' : Nat) :
    fmLookup (fmInsert m k v) k' = if k' = k then some v else fmLookup m k' := by
  unfold fmInsert
  by_cases hk : k' = k
  · subst hk
    simp [fmLookup, List.find?_cons]
  · have h2 : (k == k') = false := by
      simp only [beq_eq_false_iff_ne, ne_eq]; intro h; exact hk h.symm
    have : fmLookup ((k, v) :: fmRemove m k) k' = fmLookup (fmRemove m k) k' := by
      simp [fmLookup, List.find?_cons, h2]
    rw [this, fmLookup_remove]
    simp [hk]

theorem XObs.ext' {a b : XObs} (h1 : a.fonts = b.fonts) (h2 : a.fontMode = b.fontMode) (h3 : a.palette = b.palette)
    (h4 : a.paletteMode = b.paletteMode) (h5 : a.iceMode = b.iceMode) (h6 : a.sauce = b.sauce) : a = b := by
  cases a; cases b; simp_all

theorem xobs_parts {a b : Extra} (h : a.obs = b.obs) :
    fmLookup a.fonts = fmLookup b.fonts ∧ a.fontMode = b.fontMode ∧ a.palette = b.palette ∧ a.paletteMode = b.paletteMode ∧
      a.iceMode = b.iceMode ∧ a.sauce = b.sauce :=
  ⟨congrArg XObs.fonts h, congrArg XObs.fontMode h, congrArg XObs.palette h, congrArg XObs.paletteMode h,
    congrArg XObs.iceMode h, congrArg XObs.sauce h⟩

theorem obs_setFonts_congr {d e : Doc} (h : d.obs = e.obs) {f g : List (Nat × Nat)} (hfg : fmLookup f = fmLookup g) :
    (d.setFonts f).obs = (e.setFonts g).obs := by
  have hx := obs_x h
  have hw := obs_w h
  have hh := obs_h h
  have hl := obs_layers h
  refine DObs.ext' (a := Doc.obs _) (b := Doc.obs _) hw hh hl ?_
  show (Extra.obs _) = (Extra.obs _)
  have e1 : d.x.fontMode = e.x.fontMode := congrArg XObs.fontMode hx
  have e2 : d.x.palette = e.x.palette := congrArg XObs.palette hx
  have e3 : d.x.paletteMode = e.x.paletteMode := congrArg XObs.paletteMode hx
  have e4 : d.x.iceMode = e.x.iceMode := congrArg XObs.iceMode hx
  have e5 : d.x.sauce = e.x.sauce := congrArg XObs.sauce hx
  exact XObs.ext' hfg e1 e2 e3 e4 e5

theorem obs_fonts {d e : Doc} (h : d.obs = e.obs) : fmLookup d.x.fonts = fmLookup e.x.fonts := congrArg XObs.fonts (obs_x h)

theorem setFonts_self_obs (d : Doc) (f : List (Nat × Nat)) (hf : fmLookup f = fmLookup d.x.fonts) : (d.setFonts f).obs = d.obs := by
  have := obs_setFonts_congr (d := d) (e := d) rfl (f := f) (g := d.x.fonts) hf
  rw [this]
  rfl

/-- a record that changes nothing of the document state (caret, selection, selection mask only); it may rewrite itself -/
theorem undoable_neutral (S : UndoOp → Prop) (o : UndoOp) (hS : S o) (d d' : Doc) (hobs : d'.obs = d.obs)
    (hu : ∀ o1, S o1 → ∀ e, ∃ o2 e₂, o1.undo e = .ok (o2, e₂) ∧ e₂.obs = e.obs ∧ S o2)
    (hr : ∀ o1, S o1 → ∀ e, ∃ o2 e₂, o1.redo e = .ok (o2, e₂) ∧ e₂.obs = e.obs ∧ S o2) : Undoable o d.obs d'.obs := by
  refine ⟨S, S, hS, ?_, ?_⟩
  · intro o1 ho e' he'
    obtain ⟨o2, e₂, h1, h2, h3⟩ := hu o1 ho e'
    exact ⟨o2, e₂, h1, by rw [h2, he', hobs], h3⟩
  · intro o1 ho e he
    obtain ⟨o2, e₂, h1, h2, h3⟩ := hr o1 ho e
    exact ⟨o2, e₂, h1, by rw [h2, he, hobs], h3⟩

/-- **SwitchToFontPage** — caret only -/
theorem inverse_switchToFontPage (d : Doc) (old new : Nat) : InverseAt (.switchToFontPage old new) d := by
  intro op' d' hr
  simp [UndoOp.redo] at hr
  obtain ⟨rfl, rfl⟩ := hr
  exact undoable_selection _ _ _ rfl (fun e => ⟨{ e with fontPage := old }, by simp [UndoOp.undo], rfl⟩)
    (fun e => ⟨{ e with fontPage := new }, by simp [UndoOp.redo], rfl⟩)

/-- **ReverseCaretPosition** (`undo_caret_position`) — caret only; the record rewrites its `old_pos` -/
theorem undoable_reverseCaret (d : Doc) (px py ox oy : Int) : Undoable (.reverseCaret px py ox oy) d.obs d.obs := by
  refine undoable_neutral (fun o => ∃ a b c e, o = .reverseCaret a b c e) _ ⟨_, _, _, _, rfl⟩ d d rfl ?_ ?_
  · rintro o1 ⟨a, b, c, e0, rfl⟩ e
    exact ⟨.reverseCaret a b e.caretX e.caretY, { e with caretX := a, caretY := b }, rfl, rfl, ⟨_, _, _, _, rfl⟩⟩
  · rintro o1 ⟨a, b, c, e0, rfl⟩ e
    exact ⟨.reverseCaret a b c e0, { e with caretX := c, caretY := e0 }, rfl, rfl, ⟨_, _, _, _, rfl⟩⟩

/-- **SetSelectionMask / AddSelectionToMask / InverseSelection** — selection and mask only -/
theorem inverse_setSelectionMask (d : Doc) (old new : Mask) : InverseAt (.setSelectionMask old new) d := by
  intro op' d' hr
  simp [UndoOp.redo] at hr
  obtain ⟨rfl, rfl⟩ := hr
  exact undoable_selection _ _ _ rfl (fun e => ⟨{ e with mask := old }, by simp [UndoOp.undo], rfl⟩)
    (fun e => ⟨{ e with mask := new }, by simp [UndoOp.redo], rfl⟩)

theorem inverse_addSelectionToMask (d : Doc) (old : Mask) (sel : Sel) : InverseAt (.addSelectionToMask old sel) d := by
  intro op' d' hr
  simp [UndoOp.redo] at hr
  obtain ⟨rfl, rfl⟩ := hr
  exact undoable_selection _ _ _ rfl (fun e => ⟨{ e with mask := old }, by simp [UndoOp.undo], rfl⟩)
    (fun e => ⟨{ e with mask := e.mask.addSel sel }, by simp [UndoOp.redo], rfl⟩)

theorem undoable_inverseSelection (d : Doc) (sel : Option Sel) (old new : Mask) :
    Undoable (.inverseSelection sel old new) d.obs ({ d with sel := none, mask := new } : Doc).obs :=
  undoable_selection _ d _ rfl (fun e => ⟨{ e with sel := sel, mask := old }, by simp [UndoOp.undo], rfl⟩)
    (fun e => ⟨{ e with sel := none, mask := new }, by simp [UndoOp.redo], rfl⟩)

/-! ## fonts -/

/-- **SetFont** — given that the record holds the font the slot had (it is created that way after `fix: set_font/… record
    the old font of the slot they write`) -/
theorem inverse_setFont (d : Doc) (page old new : Nat) (hold : fmLookup d.x.fonts page = some old) :
    InverseAt (.setFont page old new) d := by
  intro op' d' hr
  simp [UndoOp.redo] at hr
  obtain ⟨rfl, rfl⟩ := hr
  refine ⟨(· = .setFont page old new), (· = .setFont page old new), rfl, ?_, ?_⟩
  · intro o ho e' he'
    subst ho
    refine ⟨_, e'.setFonts (fmInsert e'.x.fonts page old), by simp [UndoOp.undo], ?_, rfl⟩
    have hf := obs_fonts he'
    have key : fmLookup (fmInsert e'.x.fonts page old) = fmLookup d.x.fonts := by
      funext k
      rw [fmLookup_insert, hf]
      show (if k = page then some old else fmLookup (fmInsert d.x.fonts page new) k) = _
      rw [fmLookup_insert]
      by_cases hk : k = page
      · simp [hk, hold]
      · simp [hk]
    have h1 : (e'.setFonts (fmInsert e'.x.fonts page old)).obs = ((d.setFonts (fmInsert d.x.fonts page new)).setFonts d.x.fonts).obs :=
      obs_setFonts_congr he' key
    rw [h1]
    rfl
  · intro o ho e he
    subst ho
    refine ⟨_, e.setFonts (fmInsert e.x.fonts page new), by simp [UndoOp.redo], ?_, rfl⟩
    apply obs_setFonts_congr he
    funext k
    rw [fmLookup_insert, fmLookup_insert, obs_fonts he]

/-- **AddFont** (`add_ansi_font`, `add_font`, and `set_font` on an empty slot) — at every document: the record keeps the
    font it replaces (after `fix: AddFont keeps the font it replaces…`) -/
theorem inverse_addFont (d : Doc) (oldPage newPage font : Nat) (r0 : Option Nat) : InverseAt (.addFont oldPage newPage font r0) d := by
  intro op' d' hr
  simp [UndoOp.redo] at hr
  obtain ⟨rfl, rfl⟩ := hr
  refine ⟨(· = .addFont oldPage newPage font (fmLookup d.x.fonts newPage)), fun o => ∃ r, o = .addFont oldPage newPage font r, rfl, ?_, ?_⟩
  · intro o ho e' he'
    subst ho
    have hf : fmLookup e'.x.fonts = fmLookup (fmInsert (fmRemove d.x.fonts newPage) newPage font) := obs_fonts he'
    have he'' : e'.obs = (d.setFonts (fmInsert (fmRemove d.x.fonts newPage) newPage font)).obs := he'
    cases hlk : fmLookup d.x.fonts newPage with
    | none =>
      refine ⟨.addFont oldPage newPage font none, { e'.setFonts (fmRemove e'.x.fonts newPage) with fontPage := oldPage },
        by simp [UndoOp.undo], ?_, none, rfl⟩
      have key : fmLookup (fmRemove e'.x.fonts newPage) = fmLookup d.x.fonts := by
        funext k
        rw [fmLookup_remove, hf, fmLookup_insert, fmLookup_remove]
        by_cases hk : k = newPage
        · simp [hk, hlk]
        · simp [hk]
      have h1 := obs_setFonts_congr (f := fmRemove e'.x.fonts newPage) (g := d.x.fonts) he'' key
      exact h1
    | some f =>
      refine ⟨.addFont oldPage newPage font none, { e'.setFonts (fmInsert (fmRemove e'.x.fonts newPage) newPage f) with fontPage := oldPage },
        by simp [UndoOp.undo], ?_, none, rfl⟩
      have key : fmLookup (fmInsert (fmRemove e'.x.fonts newPage) newPage f) = fmLookup d.x.fonts := by
        funext k
        rw [fmLookup_insert, fmLookup_remove, hf, fmLookup_insert, fmLookup_remove]
        by_cases hk : k = newPage
        · simp [hk, hlk]
        · simp [hk]
      have h1 := obs_setFonts_congr (f := fmInsert (fmRemove e'.x.fonts newPage) newPage f) (g := d.x.fonts) he'' key
      exact h1
  · rintro o ⟨r, rfl⟩ e he
    refine ⟨.addFont oldPage newPage font (fmLookup e.x.fonts newPage),
      { e.setFonts (fmInsert (fmRemove e.x.fonts newPage) newPage font) with fontPage := newPage }, by simp [UndoOp.redo], ?_, ?_⟩
    · have h1 := obs_setFonts_congr (f := fmInsert (fmRemove e.x.fonts newPage) newPage font)
        (g := fmInsert (fmRemove d.x.fonts newPage) newPage font) he (by
          funext k
          rw [fmLookup_insert, fmLookup_insert, fmLookup_remove, fmLookup_remove, obs_fonts he])
      exact h1
    · show _ = _
      rw [obs_fonts he]

/-- **RemoveFont** — at every document (an empty slot makes the edit itself fail) -/
theorem inverse_removeFont (d : Doc) (slot : Nat) (f0 : Option Nat) : InverseAt (.removeFont slot f0) d := by
  intro op' d' hr
  simp only [UndoOp.redo] at hr
  cases hlk : fmLookup d.x.fonts slot with
  | none => rw [hlk] at hr; simp at hr
  | some f =>
    rw [hlk] at hr
    simp at hr
    obtain ⟨rfl, rfl⟩ := hr
    refine ⟨(· = .removeFont slot (some f)), fun o => ∃ r, o = .removeFont slot r, rfl, ?_, ?_⟩
    · intro o ho e' he'
      subst ho
      refine ⟨.removeFont slot none, e'.setFonts (fmInsert e'.x.fonts slot f), by simp [UndoOp.undo], ?_, none, rfl⟩
      have hf : fmLookup e'.x.fonts = fmLookup (fmRemove d.x.fonts slot) := obs_fonts he'
      have key : fmLookup (fmInsert e'.x.fonts slot f) = fmLookup d.x.fonts := by
        funext k
        rw [fmLookup_insert, hf, fmLookup_remove]
        by_cases hk : k = slot
        · simp [hk, hlk]
        · simp [hk]
      have h1 := obs_setFonts_congr (f := fmInsert e'.x.fonts slot f) (g := d.x.fonts) he' key
      rw [h1]
      rfl
    · rintro o ⟨r, rfl⟩ e he
      have hlk' : fmLookup e.x.fonts slot = some f := by rw [obs_fonts he]; exact hlk
      refine ⟨.removeFont slot (some f), e.setFonts (fmRemove e.x.fonts slot), by simp [UndoOp.redo, hlk'], ?_, rfl⟩
      apply obs_setFonts_congr he
      funext k
      rw [fmLookup_remove, fmLookup_remove, obs_fonts he]

/-- **ChangeFontSlot** — at every document, also onto an occupied slot (after `fix: ChangeFontSlot keeps the font of an
    occupied target slot…`) and with `from = to` -/
theorem inverse_changeFontSlot (d : Doc) (src dst : Nat) (r0 : Option Nat) : InverseAt (.changeFontSlot src dst r0) d := by
  intro op' d' hr
  simp only [UndoOp.redo] at hr
  cases hlk : fmLookup d.x.fonts src with
  | none => rw [hlk] at hr; simp at hr
  | some f =>
    rw [hlk] at hr
    simp at hr
    obtain ⟨rfl, rfl⟩ := hr
    -- the lookup function after the redo
    have after : ∀ (m : List (Nat × Nat)), fmLookup m = fmLookup d.x.fonts →
        fmLookup (fmInsert (fmRemove (fmRemove m src) dst) dst f) = fun k => if k = dst then some f else if k = src then none else fmLookup d.x.fonts k := by
      intro m hm
      funext k
      rw [fmLookup_insert, fmLookup_remove, fmLookup_remove, hm]
      by_cases h1 : k = dst <;> by_cases h2 : k = src <;> simp [h1, h2]
    refine ⟨(· = .changeFontSlot src dst (fmLookup (fmRemove d.x.fonts src) dst)), fun o => ∃ r, o = .changeFontSlot src dst r, rfl, ?_, ?_⟩
    · intro o ho e' he'
      subst ho
      have hf : fmLookup e'.x.fonts = fun k => if k = dst then some f else if k = src then none else fmLookup d.x.fonts k := by
        rw [obs_fonts he']; exact after d.x.fonts rfl
      have hdst : fmLookup e'.x.fonts dst = some f := by rw [hf]; simp
      let f1 := fmInsert (fmRemove e'.x.fonts dst) src f
      let f2 := match fmLookup (fmRemove d.x.fonts src) dst with
        | some g => fmInsert f1 dst g
        | none => f1
      refine ⟨.changeFontSlot src dst none, e'.setFonts f2, by simp only [UndoOp.undo, hdst]; rfl, ?_, none, rfl⟩
      have key : fmLookup f2 = fmLookup d.x.fonts := by
        funext k
        show fmLookup (match fmLookup (fmRemove d.x.fonts src) dst with
          | some g => fmInsert f1 dst g
          | none => f1) k = _
        have hr : fmLookup (fmRemove d.x.fonts src) dst = if dst = src then none else fmLookup d.x.fonts dst := fmLookup_remove _ _ _
        have hf1 : fmLookup f1 k = if k = src then some f else if k = dst then none else fmLookup e'.x.fonts k := by
          show fmLookup (fmInsert (fmRemove e'.x.fonts dst) src f) k = _
          rw [fmLookup_insert, fmLookup_remove]
        by_cases hsd : dst = src
        · subst hsd
          rw [hr]
          simp only [if_true]
          rw [hf1, hf]
          by_cases hk : k = dst
          · simp [hk, hlk]
          · simp [hk]
        · rw [hr]
          simp only [hsd, if_false]
          have hsd' : ¬ src = dst := fun h => hsd h.symm
          cases hd : fmLookup d.x.fonts dst with
          | none =>
            simp only []
            rw [hf1, hf]
            by_cases h1 : k = src
            · simp [h1, hlk]
            · by_cases h2 : k = dst
              · simp [h1, h2, hd, hsd, hsd']
              · simp [h1, h2]
          | some g =>
            simp only []
            rw [fmLookup_insert, hf1, hf]
            by_cases h2 : k = dst
            · simp [h2, hd]
            · by_cases h1 : k = src
              · simp [h1, h2, hlk, hsd, hsd']
              · simp [h1, h2]
      have h1 := obs_setFonts_congr (f := f2) (g := d.x.fonts) he' key
      rw [h1]
      rfl
    · rintro o ⟨r, rfl⟩ e he
      have hlk' : fmLookup e.x.fonts src = some f := by rw [obs_fonts he]; exact hlk
      refine ⟨.changeFontSlot src dst (fmLookup (fmRemove e.x.fonts src) dst),
        e.setFonts (fmInsert (fmRemove (fmRemove e.x.fonts src) dst) dst f), by simp [UndoOp.redo, hlk'], ?_, ?_⟩
      · apply obs_setFonts_congr he
        rw [after e.x.fonts (obs_fonts he), after d.x.fonts rfl]
      · show _ = _
        have : fmLookup (fmRemove e.x.fonts src) dst = fmLookup (fmRemove d.x.fonts src) dst := by
          rw [fmLookup_remove, fmLookup_remove, obs_fonts he]
        rw [this]

/-! ## palette, SAUCE -/

theorem obs_setX_congr {d e : Doc} (h : d.obs = e.obs) {x y : Extra} (hxy : x.obs = y.obs) :
    ({ d with x := x } : Doc).obs = ({ e with x := y } : Doc).obs := by
  have hw := obs_w h
  have hh := obs_h h
  have hl := obs_layers h
  exact DObs.ext' (a := Doc.obs _) (b := Doc.obs _) hw hh hl hxy

/-- **SwitchPalettte** (`switch_to_palette`): buffer and record swap their palettes — at every document -/
theorem inverse_switchPalettte (d : Doc) (pal : List Nat) : InverseAt (.switchPalettte pal) d := by
  intro op' d' hr
  simp [UndoOp.redo] at hr
  obtain ⟨rfl, rfl⟩ := hr
  refine ⟨(· = .switchPalettte d.x.palette), (· = .switchPalettte pal), rfl, ?_, ?_⟩
  · intro o ho e' he'
    subst ho
    have hx := obs_x he'
    have hp : e'.x.palette = pal := (xobs_parts hx).2.2.1
    refine ⟨.switchPalettte e'.x.palette, { e' with x := { e'.x with palette := d.x.palette } }, by simp [UndoOp.undo], ?_, by rw [hp]⟩
    have hw := obs_w he'; have hh := obs_h he'; have hl := obs_layers he'
    refine DObs.ext' (a := Doc.obs _) (b := Doc.obs _) hw hh hl ?_
    obtain ⟨q1, q2, q3, q4, q5, q6⟩ := xobs_parts hx
    exact XObs.ext' q1 q2 rfl q4 q5 q6
  · intro o ho e he
    subst ho
    have hx := obs_x he
    have hp : e.x.palette = d.x.palette := (xobs_parts hx).2.2.1
    refine ⟨.switchPalettte e.x.palette, { e with x := { e.x with palette := pal } }, by simp [UndoOp.redo], ?_, by rw [hp]⟩
    have hw := obs_w he; have hh := obs_h he; have hl := obs_layers he
    refine DObs.ext' (a := Doc.obs _) (b := Doc.obs _) hw hh hl ?_
    obtain ⟨q1, q2, q3, q4, q5, q6⟩ := xobs_parts hx
    exact XObs.ext' q1 q2 rfl q4 q5 q6

/-- **SetSauceData** (`update_sauce_data`): buffer and record swap their SAUCE records — at every document -/
theorem inverse_setSauceData (d : Doc) (data : Option Nat) : InverseAt (.setSauceData data) d := by
  intro op' d' hr
  simp [UndoOp.redo] at hr
  obtain ⟨rfl, rfl⟩ := hr
  refine ⟨(· = .setSauceData d.x.sauce), (· = .setSauceData data), rfl, ?_, ?_⟩
  · intro o ho e' he'
    subst ho
    have hx := obs_x he'
    have hp : e'.x.sauce = data := (xobs_parts hx).2.2.2.2.2
    refine ⟨.setSauceData e'.x.sauce, { e' with x := { e'.x with sauce := d.x.sauce } }, by simp [UndoOp.undo], ?_, by rw [hp]⟩
    have hw := obs_w he'; have hh := obs_h he'; have hl := obs_layers he'
    refine DObs.ext' (a := Doc.obs _) (b := Doc.obs _) hw hh hl ?_
    obtain ⟨q1, q2, q3, q4, q5, q6⟩ := xobs_parts hx
    exact XObs.ext' q1 q2 q3 q4 q5 rfl
  · intro o ho e he
    subst ho
    have hx := obs_x he
    have hp : e.x.sauce = d.x.sauce := (xobs_parts hx).2.2.2.2.2
    refine ⟨.setSauceData e.x.sauce, { e with x := { e.x with sauce := data } }, by simp [UndoOp.redo], ?_, by rw [hp]⟩
    have hw := obs_w he; have hh := obs_h he; have hl := obs_layers he
    refine DObs.ext' (a := Doc.obs _) (b := Doc.obs _) hw hh hl ?_
    obtain ⟨q1, q2, q3, q4, q5, q6⟩ := xobs_parts hx
    exact XObs.ext' q1 q2 q3 q4 q5 rfl

/-! ## whole-document snapshots -/

/-- **ReplaceFontUsage** (`replace_font_usage`, inside `change_font_slot` and `remove_font`): the record holds all layers
    before and after — exact whenever the "before" layers are the document's (they are cloned from it) -/
theorem undoable_replaceFontUsage (d : Doc) (op np : Nat) (nl : List LayerM) :
    Undoable (.replaceFontUsage op d.layers np nl) d.obs ({ d with layers := nl, fontPage := np } : Doc).obs := by
  refine ⟨(· = .replaceFontUsage op d.layers np nl), (· = .replaceFontUsage op d.layers np nl), rfl, ?_, ?_⟩
  · intro o ho e' he'
    subst ho
    refine ⟨_, { e' with layers := d.layers, fontPage := op }, by simp [UndoOp.undo], ?_, rfl⟩
    have hx := obs_x he'
    have hw := obs_w he'; have hh := obs_h he'
    exact DObs.ext' (a := Doc.obs _) (b := Doc.obs _) hw hh rfl hx
  · intro o ho e he
    subst ho
    refine ⟨_, { e with layers := nl, fontPage := np }, by simp [UndoOp.redo], ?_, rfl⟩
    have hx := obs_x he
    have hw := obs_w he; have hh := obs_h he
    exact DObs.ext' (a := Doc.obs _) (b := Doc.obs _) hw hh rfl hx

/-- **SetIceMode**: all layers and the mode before and after -/
theorem undoable_setIceMode (d : Doc) (nm : Nat) (nl : List LayerM) :
    Undoable (.setIceMode d.x.iceMode d.layers nm nl) d.obs ({ d with layers := nl, x := { d.x with iceMode := nm } } : Doc).obs := by
  refine ⟨(· = .setIceMode d.x.iceMode d.layers nm nl), (· = .setIceMode d.x.iceMode d.layers nm nl), rfl, ?_, ?_⟩
  · intro o ho e' he'
    subst ho
    refine ⟨_, { e' with layers := d.layers, x := { e'.x with iceMode := d.x.iceMode } }, by simp [UndoOp.undo], ?_, rfl⟩
    have hx := obs_x he'
    have hw := obs_w he'; have hh := obs_h he'
    refine DObs.ext' (a := Doc.obs _) (b := Doc.obs _) hw hh rfl ?_
    obtain ⟨q1, q2, q3, q4, q5, q6⟩ := xobs_parts hx
    exact XObs.ext' q1 q2 q3 q4 rfl q6
  · intro o ho e he
    subst ho
    refine ⟨_, { e with layers := nl, x := { e.x with iceMode := nm } }, by simp [UndoOp.redo], ?_, rfl⟩
    have hx := obs_x he
    have hw := obs_w he; have hh := obs_h he
    refine DObs.ext' (a := Doc.obs _) (b := Doc.obs _) hw hh rfl ?_
    obtain ⟨q1, q2, q3, q4, q5, q6⟩ := xobs_parts hx
    exact XObs.ext' q1 q2 q3 q4 rfl q6

/-- **SwitchPalette** (`set_palette_mode`): palette, mode and all layers before and after -/
theorem undoable_switchPalette (d : Doc) (nm : Nat) (npal : List Nat) (nl : List LayerM) :
    Undoable (.switchPalette d.x.paletteMode d.x.palette d.layers nm npal nl) d.obs
      ({ d with layers := nl, x := { d.x with palette := npal, paletteMode := nm } } : Doc).obs := by
  refine ⟨(· = .switchPalette d.x.paletteMode d.x.palette d.layers nm npal nl), (· = .switchPalette d.x.paletteMode d.x.palette d.layers nm npal nl), rfl, ?_, ?_⟩
  · intro o ho e' he'
    subst ho
    refine ⟨_, { e' with layers := d.layers, x := { e'.x with palette := d.x.palette, paletteMode := d.x.paletteMode } }, by simp [UndoOp.undo], ?_, rfl⟩
    have hx := obs_x he'
    have hw := obs_w he'; have hh := obs_h he'
    refine DObs.ext' (a := Doc.obs _) (b := Doc.obs _) hw hh rfl ?_
    obtain ⟨q1, q2, q3, q4, q5, q6⟩ := xobs_parts hx
    exact XObs.ext' q1 q2 rfl rfl q5 q6
  · intro o ho e he
    subst ho
    refine ⟨_, { e with layers := nl, x := { e.x with palette := npal, paletteMode := nm } }, by simp [UndoOp.redo], ?_, rfl⟩
    have hx := obs_x he
    have hw := obs_w he; have hh := obs_h he
    refine DObs.ext' (a := Doc.obs _) (b := Doc.obs _) hw hh rfl ?_
    obtain ⟨q1, q2, q3, q4, q5, q6⟩ := xobs_parts hx
    exact XObs.ext' q1 q2 rfl rfl q5 q6

/-! ## `ReversedUndo` -/

/-- **ReversedUndo** (`push_reverse_undo`): if the inner record can be UNDONE from `b` down to `a` (and redone, undone …),
    the wrapper can be REDONE from `b` to `a` and undone back, for ever -/
theorem redoable_reversed {op : UndoOp} {a b : DObs} (h : Undoable op a b) : Redoable (.reversed op) b a := by
  obtain ⟨U, R, hU, hL⟩ := h
  refine ⟨fun o => ∃ p, o = .reversed p ∧ R p, fun o => ∃ p, o = .reversed p ∧ U p, ⟨op, rfl, hU⟩, ?_, ?_⟩
  · rintro o ⟨p, rfl, hp⟩ e' he'
    obtain ⟨o2, e, h1, h2, h3⟩ := hL.redo_ok p hp e' he'
    exact ⟨.reversed o2, e, by simp [UndoOp.undo, h1], h2, o2, rfl, h3⟩
  · rintro o ⟨p, rfl, hp⟩ e he
    obtain ⟨o2, e', h1, h2, h3⟩ := hL.undo_ok p hp e he
    exact ⟨.reversed o2, e', by simp [UndoOp.redo, h1], h2, o2, rfl, h3⟩

/-- the inverse law for a reversed record pushed at `d`, when the inner record is undoable from `d` -/
theorem inverse_reversed (d : Doc) (op : UndoOp) (a : DObs) (h : Undoable op a d.obs) : InverseAt (.reversed op) d := by
  intro op' d' hr
  obtain ⟨o2, e', h1, h2, h3⟩ := (redoable_reversed h).step (e := d) rfl
  rw [h1] at hr
  simp at hr
  obtain ⟨rfl, rfl⟩ := hr
  rw [h2]
  exact h3

end IcyVerif.Undo
