import IcyVerif.Lemmas.ArtFinish
/-! # The round-trip statement shared by the C15 formats, and its assembly from the simulation -/
set_option linter.unusedSimpArgs false
namespace IcyVerif.ArtIO

/-- every row fits the picture's width -/
def Pic.WF (p : Pic) : Prop := ∀ r ∈ p.rows, r.length ≤ p.w
/-- every cell of the picture satisfies `D` -/
def Pic.AllCells (p : Pic) (D : Cell → Prop) : Prop := ∀ r ∈ p.rows, ∀ c ∈ r, D c
/-- the picture has a last row and that row is not empty (`get_line_length > 0`) -/
def Pic.LastRowNonEmpty (p : Pic) : Prop := p.rows ≠ [] ∧ ∀ r, p.rows.getLast? = some r → trimRow r ≠ []

/-- The loaded picture `L` shows picture `p` up to the cell image `img`: the reader never left the modelled
    sub-language; same width and height; inside each row's length (`get_line_length`) the loaded cell is the image of
    the saved cell; after it the loaded cell is the default cell (blank on black) and the saved cell there is itself
    blank on colour 0 — "blank cells on black after the end of a row are not significant". -/
def Shows (L : Loaded) (p : Pic) (img : Cell → Cell) : Prop :=
  L.stuck = false ∧ L.w = p.w ∧ L.h = p.rows.length ∧
  ∀ x y, x < p.w → y < p.rows.length →
    (x < rowLen (p.rows.getD y []) → L.cellAt x y = img (p.get x y)) ∧
    (rowLen (p.rows.getD y []) ≤ x → L.cellAt x y = defaultCell ∧ (p.get x y).isTransparent = true)

theorem convertText_of_noBom {bytes : List Nat} (h : bomPrefixed bytes = false) : convertText bytes = bytes := by
  unfold convertText; rw [h]; rfl

theorem initial_scr (f : Fmt) (hf : f ≠ .atascii) :
    (initial f none).core.scr = freshScreen (loadSize f).1 (loadSize f).2 := by
  cases f <;> first | rfl | exact absurd rfl hf

theorem mem_of_getD_lt {α : Type} {l : List α} {i : Nat} {d : α} (h : i < l.length) : l.getD i d ∈ l := by
  simp only [List.getD_eq_getElem?_getD, List.getElem?_eq_getElem h, Option.getD_some]
  exact List.getElem_mem h

theorem rt_assemble (f : Fmt) (hf : f ≠ .atascii) (img : Cell → Cell) (p : Pic) (bytes : List Nat)
    (hw0 : 0 < p.w) (hwf : p.WF) (hlast : p.LastRowNonEmpty)
    (himg : ∀ r ∈ p.rows, ∀ c ∈ r, (img c).attr.fl.invisible = false ∧ (img c).attr.fl.bold = false)
    (hrun : (run f (initial f none) bytes).core.scr = (freshScreen p.w (loadSize f).2).runOps (picOps trimRow img p.w p.rows))
    (hstuck : (run f (initial f none) bytes).core.stuck = false)
    (hbom : bomPrefixed bytes = false) : Shows (load f none bytes) p img := by
  have hfit : ∀ r ∈ p.rows, (trimRow r).length ≤ p.w := fun r hr => Nat.le_trans (trimRow_length_le r) (hwf r hr)
  have hload : load f none bytes = finish f (run f (initial f none) bytes) := by
    unfold load; rw [if_neg hf, convertText_of_noBom hbom]
  obtain ⟨F1, F2, F3, F4⟩ := finish_spec trimRow f hf (run f (initial f none) bytes) img p.w (loadSize f).2 p.rows hw0 hfit hlast.1 hlast.2 hrun
  rw [hload]
  refine ⟨by rw [F3]; exact hstuck, F1, F2, ?_⟩
  intro x y hx hy
  have hrow : p.rows.getD y [] ∈ p.rows := mem_of_getD_lt hy
  constructor
  · intro hlt
    have hlt : x < (trimRow (p.rows.getD y [])).length := hlt
    rw [F4 x y hx hy, if_pos hlt, trimRow_getD _ _ _ hlt]
    show foldBold (shown (img ((p.rows.getD y []).getD x defaultCell))) = img ((p.rows.getD y []).getD x defaultCell)
    have hxl : x < (p.rows.getD y []).length := Nat.lt_of_lt_of_le hlt (trimRow_length_le _)
    have hc : (p.rows.getD y []).getD x defaultCell ∈ p.rows.getD y [] := mem_of_getD_lt hxl
    obtain ⟨hv, hb⟩ := himg _ hrow _ hc
    have e1 : shown (img ((p.rows.getD y []).getD x defaultCell)) = img ((p.rows.getD y []).getD x defaultCell) := by
      apply shown_of_visible; unfold Cell.isVisible; rw [hv]; rfl
    rw [e1]
    unfold foldBold; rw [hb]; rfl
  · intro hge
    have hge : (trimRow (p.rows.getD y [])).length ≤ x := hge
    have hge' : ¬ x < (trimRow (p.rows.getD y [])).length := by omega
    rw [F4 x y hx hy, if_neg hge']
    refine ⟨rfl, ?_⟩
    show ((p.rows.getD y []).getD x defaultCell).isTransparent = true
    by_cases hxl : x < (p.rows.getD y []).length
    · exact trimRow_rest_transparent _ _ hge hxl
    · have : (p.rows.getD y []).getD x defaultCell = defaultCell := by
        have hq : (p.rows.getD y []).length ≤ x := by omega
        rw [List.getD_eq_getElem?_getD, List.getElem?_eq_none hq]; rfl
      rw [this]; decide

end IcyVerif.ArtIO
