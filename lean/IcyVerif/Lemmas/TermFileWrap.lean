import IcyVerif.Lemmas.TermFileRun
import IcyVerif.Model.TermFileWrap
import IcyVerif.Model.TermFileOther
set_option linter.unusedSimpArgs false
set_option linter.unusedVariables false
/-! # Avatar / PCBoard / Ctrl-A / Renegade and ASCII / ATASCII / PETSCII on a file buffer keep the invariant -/
namespace IcyVerif.TermFile
open IcyVerif.Term

def FWGood (w : FWSt) : Prop := FGood w.inner
abbrev FWGoodR (r : FWSt × Out) : Prop := FWGood r.1

theorem wcfg_music : wcfg.musicOpt = 0 := rfl

theorem innerF_good (w : FWSt) (o : Nat → Orc) (ch : Char) (h : FWGood w) : okAnd (innerF w o ch) FWGoodR := by
  unfold innerF
  have h2 := stepF_good wcfg o w.inner ch wcfg_music h
  cases hs : stepF wcfg o w.inner ch with
  | error e => rw [hs] at h2; exact h2
  | ok r => rw [hs] at h2; obtain ⟨st, out⟩ := r; exact h2

theorem fwlimit_good (w : FWSt) (c : Car) (out : Out) (h : FGood w.inner) : okAnd (fwlimit w c out) FWGoodR := by
  have ⟨g1, g2, g3, g4, g5⟩ := h
  unfold fwlimit
  have hl := limitF_spec w.inner.s c g1
  cases hlc : limitF w.inner.s c with
  | error e => rw [hlc] at hl; exact hl.elim
  | ok c' => rw [hlc] at hl; exact ⟨g1, hl.1, g3, g4, g5⟩

theorem avtRepeatF_good (o : Nat → Orc) (ch : Char) : ∀ (n : Nat) (w : FWSt), FWGood w → okAnd (avtRepeatF o ch n w) FWGoodR := by
  intro n
  induction n with
  | zero => intro w h; exact h
  | succ n ih =>
    intro w h
    unfold avtRepeatF
    have h2 := stepF_good wcfg o w.inner ch wcfg_music h
    cases hs : stepF wcfg o w.inner ch with
    | error e => rw [hs] at h2; exact h2
    | ok r =>
      rw [hs] at h2
      obtain ⟨st, out⟩ := r
      cases out with
      | err => exact h2
      | ok => exact ih _ h2
      | resize => exact ih _ h2

theorem fwgood_inner (w w' : FWSt) (h : FWGood w) (hi : w'.inner = w.inner) : FWGood w' := by
  unfold FWGood at *; rw [hi]; exact h

macro "warm" : tactic => `(tactic| first
  | exact fwgood_inner _ _ (by assumption) rfl
  | exact fwlimit_good _ _ _ (by assumption)
  | exact innerF_good _ _ _ (by assumption))

theorem avatarStepF_good (w : FWSt) (o : Nat → Orc) (ch : Char) (h : FWGood w) : okAnd (avatarStepF w o ch) FWGoodR := by
  have hh : FGood w.inner := h
  have ⟨g1, g2, g3, g4, g5⟩ := hh
  have hx0 : 0 ≤ w.inner.c.x := g2.1
  have hx1 : w.inner.c.x ≤ 1000 := g2.2.1
  have hy0 : 0 ≤ w.inner.c.y := g2.2.2.1
  have hy1 : w.inner.c.y ≤ capY := g2.2.2.2
  have := capY_hi; have := g1.tw1; have := g1.tw2
  unfold avatarStepF
  simp only []
  split
  · -- chars
    repeat' (first | (apply okAnd_ite <;> intro _) | split)
    · exact ffF_good _ hh
    · exact hh
    · exact hh
    · exact innerF_good w o ch h
  · -- readCommand
    repeat' (first | (apply okAnd_ite <;> intro _) | split)
    all_goals first
      | exact hh
      | exact fwlimit_good _ _ _ hh
      | (exfalso; omega)
      | (exfalso; rename_i hq; exact add1_ne_error _ _ _ (by omega) hq)
      | (rename_i x1 hq; rw [add1_ok _ _ (by omega)] at hq; cases hq;
         exact ⟨g1, ⟨by simp only; omega, by simp only; omega, hy0, hy1⟩, g3, g4, g5⟩)
      | (rename_i y1 hq; rw [add1_ok _ _ (by omega)] at hq; cases hq; exact fwlimit_good _ _ _ hh)
      | exact ⟨g1, ⟨by simp only; omega, by simp only; omega, hy0, hy1⟩, g3, g4, g5⟩
  · -- repeatChars
    repeat' (first | (apply okAnd_ite <;> intro _) | split)
    all_goals first
      | exact hh
      | (rename_i hq; have := avtRepeatF_good o w.avtChar (min ch.toNat 255) { w with avt := .repeatChars 3 } hh; rw [hq] at this; exact this)
  · exact hh
  · -- moveCursor
    repeat' (first | (apply okAnd_ite <;> intro _) | split)
    all_goals first
      | exact hh
      | exact fwlimit_good _ _ _ hh

theorem pcboardStepF_good (w : FWSt) (o : Nat → Orc) (ch : Char) (h : FWGood w) : okAnd (pcboardStepF w o ch) FWGoodR := by
  have hh : FGood w.inner := h
  unfold pcboardStepF
  simp only []
  repeat' (first | (apply okAnd_ite <;> intro _) | split)
  all_goals first
    | exact hh
    | exact innerF_good w o ch h

theorem renegadeStepF_good (w : FWSt) (o : Nat → Orc) (ch : Char) (h : FWGood w) : okAnd (renegadeStepF w o ch) FWGoodR := by
  have hh : FGood w.inner := h
  unfold renegadeStepF
  simp only []
  repeat' (first | (apply okAnd_ite <;> intro _) | split)
  all_goals first
    | exact hh
    | exact innerF_good w o ch h

theorem ctrlaStepF_good (w : FWSt) (o : Nat → Orc) (ch : Char) (h : FWGood w) : okAnd (ctrlaStepF w o ch) FWGoodR := by
  have hh : FGood w.inner := h
  have ⟨g1, g2, g3, g4, g5⟩ := hh
  unfold ctrlaStepF
  simp only []
  repeat' (first | (apply okAnd_ite <;> intro _) | split)
  all_goals first
    | exact hh
    | exact innerF_good w o ch h
    | exact fwlimit_good { w with ctrlA := false } _ _ hh
    | exact clearScreenF_good _ hh
    | exact ⟨g1, carF_home _, g3, g4, g5⟩
    | exact ⟨g1, carF_x _ _ _ g2 (Int.le_refl 0) (by omega), g3, g4, g5⟩
    | exact ⟨g1, g2, by rowsf, g4, g5⟩
    | (rename_i hq; have := stepF_good wcfg o w.inner '\x01' wcfg_music hh; rw [hq] at this; exact this)
    | (exfalso; rename_i hq; have := stepF_good wcfg o w.inner '\x01' wcfg_music hh; rw [hq] at this; exact this)

theorem fwstep_good (e : Emu) (o : Nat → Orc) (w : FWSt) (ch : Char) (h : FWGood w) : okAnd (fwstep e o w ch) FWGoodR := by
  unfold fwstep
  cases e with
  | avatar => exact avatarStepF_good w o ch h
  | pcboard => exact pcboardStepF_good w o ch h
  | ctrla => exact ctrlaStepF_good w o ch h
  | renegade => exact renegadeStepF_good w o ch h

theorem fwrunI_good (e : Emu) (o : Nat → Orc) : ∀ (cs : List Char) (i : Nat) (w : FWSt), FWGood w → okAnd (fwrunI e o i w cs) FWGood := by
  intro cs
  induction cs with
  | nil => intro i w h; exact h
  | cons ch rest ih =>
    intro i w h
    unfold fwrunI
    have h2 := fwstep_good e (fun _ => o i) w ch h
    cases hs : fwstep e (fun _ => o i) w ch with
    | error e => rw [hs] at h2; exact h2
    | ok r => rw [hs] at h2; obtain ⟨w', out⟩ := r; exact ih (i + 1) w' h2

theorem fwrun_good (e : Emu) (o : Nat → Orc) (cs : List Char) (w : FWSt) (h : FWGood w) : okAnd (fwrun e o w cs) FWGood :=
  fwrunI_good e o cs 0 w h

/-! ## ASCII / ATASCII / PETSCII -/
def FOGood (st : FOSt) : Prop := ScrF st.s ∧ CarF st.c ∧ RowsF st.r
abbrev FOGoodR (r : FOSt × Out) : Prop := FOGood r.1

theorem foliftC_limit_ok (st : FOSt) (s : Scr) (c0 : Car) (hs : ScrF s) (h1 : ScrF st.s) (h3 : RowsF st.r) :
    okAnd (foliftC st (limitF s c0)) FOGoodR := by
  have hl := limitF_spec s c0 hs
  cases hlc : limitF s c0 with
  | error e => rw [hlc] at hl; exact hl.elim
  | ok c' => rw [hlc] at hl; exact ⟨h1, hl.1, h3⟩

theorem foliftCR_ok (st : FOSt) (r : Res (Car × Rows)) (h1 : ScrF st.s)
    (hr : okAnd r (fun p => CarF p.1 ∧ RowsF p.2 ∧ True)) : okAnd (foliftCR st r) FOGoodR := by
  cases r with
  | error e => exact hr.elim
  | ok p => obtain ⟨c, rows⟩ := p; exact ⟨h1, hr.1, hr.2.1⟩

theorem printValueF_good (st : FOSt) (v : Nat) (h : FOGood st) : okAnd (printValueF st v) FOGoodR := by
  have ⟨g1, g2, g3⟩ := h
  unfold printValueF
  apply okAnd_ite
  · intro _; exact h
  · intro _; exact foliftCR_ok _ _ g1 (weaken3 (printCharF_spec _ _ _ g1 g2 g3))

theorem bsF_good (st : FOSt) (h : FOGood st) : FOGood (bsF st) := by
  have ⟨g1, g2, g3⟩ := h
  exact ⟨g1, carF_x _ _ _ g2 (by omega) (by have := g2.2.1; omega), rowsF_of_lw _ _ g3 (setChar_lw _ _ _)⟩

macro "oarm" : tactic => `(tactic| first
  | exact (by assumption : FOGood _)
  | exact foliftC_limit_ok _ _ _ (by assumption) (by assumption) (by assumption)
  | exact foliftCR_ok _ _ (by assumption) (weaken3 (lfF_spec _ _ _ (by assumption) (by assumption) (by assumption) (by assumption)))
  | exact foliftCR_ok _ _ (by assumption) (weaken3 (printCharF_spec _ _ _ (by assumption) (by assumption) (by assumption)))
  | exact printValueF_good _ _ (by assumption)
  | exact bsF_good _ (by assumption)
  | exact ⟨by scrf, by carf, by rowsf⟩
  | (exfalso; rename_i hq; exact not_lineOpPanics_F _ _ (by assumption) (by assumption) hq))

theorem asciiStepF_good (st : FOSt) (ch : Char) (h : FOGood st) : okAnd (asciiStepF st ch) FOGoodR := by
  have ⟨g1, g2, g3⟩ := h
  have hx0 : 0 ≤ st.c.x := g2.1
  have hx1 : st.c.x ≤ 1000 := g2.2.1
  have hy0 : 0 ≤ st.c.y := g2.2.2.1
  have hy1 : st.c.y ≤ capY := g2.2.2.2
  unfold asciiStepF
  simp only [foret]
  repeat' (first | (apply okAnd_ite <;> intro _) | split)
  all_goals oarm

theorem atasciiStepF_good (st : FOSt) (ch : Char) (h : FOGood st) : okAnd (atasciiStepF st ch) FOGoodR := by
  have ⟨g1, g2, g3⟩ := h
  have hx0 : 0 ≤ st.c.x := g2.1
  have hx1 : st.c.x ≤ 1000 := g2.2.1
  have hy0 : 0 ≤ st.c.y := g2.2.2.1
  have hy1 : st.c.y ≤ capY := g2.2.2.2
  unfold atasciiStepF
  simp only [foret, upF, downF, leftF, rightF, clearScreenO]
  repeat' (first | (apply okAnd_ite <;> intro _) | split)
  all_goals first
    | oarm
    | exact printValueF_good { st with esc := false } _ ⟨g1, g2, g3⟩

theorem shiftModeF_good (st : FOSt) (m : Bool) (h : FOGood st) : FOGood (shiftModeF st m) := by
  have ⟨g1, g2, g3⟩ := h
  unfold shiftModeF
  split
  · exact h
  · exact ⟨g1, g2, by rowsf⟩

theorem petsciiStepF_good (st : FOSt) (ch : Char) (h : FOGood st) : okAnd (petsciiStepF st ch) FOGoodR := by
  have ⟨g1, g2, g3⟩ := h
  have hx0 : 0 ≤ st.c.x := g2.1
  have hx1 : st.c.x ≤ 1000 := g2.2.1
  have hy0 : 0 ≤ st.c.y := g2.2.2.1
  have hy1 : st.c.y ≤ capY := g2.2.2.2
  have := g1.tw1; have := g1.tw2
  unfold petsciiStepF
  simp only [foret, upF, downF, leftF, rightF, clearScreenO]
  repeat' (first | (apply okAnd_ite <;> intro _) | split)
  all_goals first
    | oarm
    | exact shiftModeF_good _ _ (by assumption)

theorem fostep_good (e : FEmu2) (st : FOSt) (ch : Char) (h : FOGood st) : okAnd (fostep e st ch) FOGoodR := by
  unfold fostep
  cases e with
  | ascii => exact asciiStepF_good st ch h
  | atascii => exact atasciiStepF_good st ch h
  | petscii => exact petsciiStepF_good st ch h

theorem forun_good (e : FEmu2) : ∀ (cs : List Char) (st : FOSt), FOGood st → okAnd (forun e st cs) FOGood := by
  intro cs
  induction cs with
  | nil => intro st h; exact h
  | cons ch rest ih =>
    intro st h
    unfold forun
    have h2 := fostep_good e st ch h
    cases hs : fostep e st ch with
    | error e => rw [hs] at h2; exact h2
    | ok r => rw [hs] at h2; obtain ⟨st', out⟩ := r; exact ih st' h2

theorem initFO_good (w h tabW : Int) (rows : Array Nat) (hw1 : 1 ≤ w) (hw2 : w ≤ 1000) (hh0 : 0 ≤ h) (hh2 : h ≤ 65535) :
    FOGood (initFO w h tabW rows) := by
  refine ⟨⟨hw1, hw2, hh0, hh2, ?_, ?_⟩, carF_home _, hw2⟩
  · intro t b hh; change (none : Option (Int × Int)) = some (t, b) at hh; cases hh
  · intro t b hh; change (none : Option (Int × Int)) = some (t, b) at hh; cases hh

end IcyVerif.TermFile
