import IcyVerif.Lemmas.LoaderCostIcy
import IcyVerif.Lemmas.LoadersTdf
set_option linter.unusedSimpArgs false
set_option linter.unusedVariables false
/-! TheDraw font bundles: the cost-instrumented model forgets to the C02 model, and its budgets (C03). -/
namespace IcyVerif.LoaderCost
open IcyVerif.Bytes IcyVerif.Bytes.Res IcyVerif.Loaders IcyVerif.Gen IcyVerif.Gen.Loaders RC

theorem tdfNameC_res (d : Bytes) (o : Nat) : ∀ k i, (tdfNameC d o k i).res = tdfName d o k i := by
  intro k
  induction k with
  | zero => intro i; rfl
  | succ k ih =>
    intro i
    simp only [tdfNameC, tdfName, res_bind, res_tick, ok_bind, apply_ite RC.res, res_pure, res_lift, ih]
    try rfl

theorem tdfGlyphDataC_res (d : Bytes) (color : Bool) : ∀ fuel off, (tdfGlyphDataC d color fuel off).res = tdfGlyphData d color fuel off := by
  intro fuel
  induction fuel with
  | zero =>
    intro off
    unfold tdfGlyphDataC tdfGlyphData
    split <;> rfl
  | succ fuel ih =>
    intro off
    unfold tdfGlyphDataC tdfGlyphData
    simp only [res_bind, res_tick, res_fail, ok_bind, apply_ite RC.res, res_pure, res_lift, ih]
    try rfl

theorem tdfGlyphsC_res (d : Bytes) (o bs : Nat) (color : Bool) : ∀ t n fh, (tdfGlyphsC d o bs color t n fh).res = tdfGlyphs d o bs color t n fh := by
  intro t
  induction t with
  | nil => intro n fh; rfl
  | cons co rest ih =>
    intro n fh
    simp only [tdfGlyphsC, tdfGlyphs, res_bind, res_tick, res_fail, ok_bind, apply_ite RC.res, res_pure, res_lift, tdfGlyphDataC_res, ih]
    try rfl

theorem tdfTableC_res (d : Bytes) : ∀ k o acc, (tdfTableC d k o acc).res = tdfTable d k o acc := by
  intro k
  induction k with
  | zero => intro o acc; rfl
  | succ k ih =>
    intro o acc
    simp only [tdfTableC, tdfTable, res_bind, res_tick, ok_bind, res_lift, ih]
    try rfl

theorem tdfFontsC_res (d : Bytes) : ∀ fuel o acc, (tdfFontsC d fuel o acc).res = tdfFonts d fuel o acc := by
  intro fuel
  induction fuel with
  | zero =>
    intro o acc
    unfold tdfFontsC tdfFonts
    split <;> rfl
  | succ fuel ih =>
    intro o acc
    unfold tdfFontsC tdfFonts
    simp only [res_bind, res_tick, res_fail, ok_bind, apply_ite RC.res, res_pure, res_lift, tdfNameC_res, tdfTableC_res, tdfGlyphsC_res, ih]
    try rfl

theorem loadTdfC_res (d : Bytes) : (loadTdfC d).res = loadTdf d := by
  unfold loadTdfC loadTdf
  simp only [res_bind, res_fail, ok_bind, apply_ite RC.res, res_pure, res_lift, tdfFontsC_res]
  try rfl

-- ------------------------------------------------------------------------------------------------ budgets
theorem tdfNameC_pot (d : Bytes) (o : Nat) : ∀ k i, (tdfNameC d o k i).Pot k 0 0 (fun _ => True) (fun _ => 0) (fun _ => 0) (fun _ => 0) := by
  intro k
  induction k with
  | zero => intro i; exact Pot.pure trivial (by somega) (by somega) (by somega)
  | succ k ih =>
    intro i
    unfold tdfNameC
    apply Pot.bind_le pot_tick (by somega) (by somega) (by somega); intro _ _
    apply Pot.bind_le (pot_lift_any _) (by somega) (by somega) (by somega); intro b _
    split
    · exact Pot.pure trivial (by somega) (by somega) (by somega)
    · exact Pot.mono (ih (i + 1)) (by somega) (by somega) (by somega) (fun _ _ => ⟨trivial, by somega, by somega, by somega⟩)

/-- one glyph: at most one iteration per byte between its start and the end of the file -/
theorem tdfGlyphDataC_pot (d : Bytes) (color : Bool) : ∀ fuel off,
    (tdfGlyphDataC d color fuel off).Pot (d.size - off) 0 0 (fun _ => True) (fun _ => 0) (fun _ => 0) (fun _ => 0) := by
  intro fuel
  induction fuel with
  | zero =>
    intro off
    unfold tdfGlyphDataC
    split
    · exact pot_fail
    · exact Pot.mono (pot_lift_any _) (by somega) (by somega) (by somega) (fun _ _ => ⟨trivial, by somega, by somega, by somega⟩)
  | succ fuel ih =>
    intro off
    unfold tdfGlyphDataC
    split
    · exact pot_fail
    · rename_i hoff
      apply Pot.bind_le pot_tick (by somega) (by somega) (by somega); intro _ _
      apply Pot.bind_le (pot_lift_any _) (by somega) (by somega) (by somega); intro ch _
      dsimp only
      split
      · exact Pot.pure trivial (by somega) (by somega) (by somega)
      · split
        · split
          · exact Pot.mono (ih (off + 1)) (by somega) (by somega) (by somega) (fun _ _ => ⟨trivial, by somega, by somega, by somega⟩)
          · split
            · exact pot_fail
            · apply Pot.bind_le (pot_lift_any _) (by somega) (by somega) (by somega); intro _ _
              exact Pot.mono (ih (off + 1 + 1)) (by somega) (by somega) (by somega) (fun _ _ => ⟨trivial, by somega, by somega, by somega⟩)
        · exact Pot.mono (ih (off + 1)) (by somega) (by somega) (by somega) (fun _ _ => ⟨trivial, by somega, by somega, by somega⟩)

/-- the glyphs of one font: every table entry may point at data that runs to the end of the file (glyphs may overlap) -/
theorem tdfGlyphsC_pot (d : Bytes) (o bs : Nat) (color : Bool) : ∀ (t : List Nat) n fh,
    (tdfGlyphsC d o bs color t n fh).Pot (t.length * (d.size + 1)) 0 0 (fun _ => True) (fun _ => 0) (fun _ => 0) (fun _ => 0) := by
  intro t
  induction t with
  | nil => intro n fh; exact Pot.pure trivial (by somega) (by somega) (by somega)
  | cons co rest ih =>
    intro n fh
    have hlen : (co :: rest).length * (d.size + 1) = rest.length * (d.size + 1) + (d.size + 1) := by
      simp only [List.length_cons, Nat.succ_mul]
    rw [hlen]
    generalize hR : rest.length * (d.size + 1) = R at ih ⊢
    unfold tdfGlyphsC
    apply Pot.bind_le pot_tick (by somega) (by somega) (by somega); intro _ _
    split
    · exact Pot.mono (ih n fh) (by somega) (by somega) (by somega) (fun _ _ => ⟨trivial, by somega, by somega, by somega⟩)
    · split
      · exact pot_fail
      · dsimp only
        split
        · exact pot_fail
        · apply Pot.bind_le (pot_lift_any _) (by somega) (by somega) (by somega); intro _ _
          apply Pot.bind_le (pot_lift_any _) (by somega) (by somega) (by somega); intro h _
          apply Pot.bind_le (tdfGlyphDataC_pot d color (d.size + 1) (co + o + 2)) (by somega) (by somega) (by somega); intro _ _
          exact Pot.mono (ih _ _) (by somega) (by somega) (by somega) (fun _ _ => ⟨trivial, by somega, by somega, by somega⟩)

theorem tdfTableC_pot (d : Bytes) : ∀ k o acc, (tdfTableC d k o acc).Pot k 0 0 (fun r => r.length = acc.length + k) (fun _ => 0) (fun _ => 0) (fun _ => 0) := by
  intro k
  induction k with
  | zero => intro o acc; exact Pot.pure (by simp) (by somega) (by somega) (by somega)
  | succ k ih =>
    intro o acc
    unfold tdfTableC
    apply Pot.bind_le pot_tick (by somega) (by somega) (by somega); intro _ _
    apply Pot.bind_le (pot_lift_any _) (by somega) (by somega) (by somega); intro v _
    apply Pot.mono (ih (o + 2) (v :: acc)) (by somega) (by somega) (by somega)
    intro r hr
    exact ⟨by simp only [List.length_cons] at hr; omega, by somega, by somega, by somega⟩

/-- cost of one font record: name (<= 12), character table (94), 94 glyphs of at most `|d| + 1` iterations each -/
def tdfFontBudget (n : Nat) : Nat := 94 * n + 202

theorem tdfFontsC_pot (d : Bytes) : ∀ fuel o acc,
    (tdfFontsC d fuel o acc).Pot (tdfFontBudget d.size * (d.size - o) + 1) 0 0 (fun _ => True) (fun _ => 0) (fun _ => 0) (fun _ => 0) := by
  intro fuel
  induction fuel with
  | zero =>
    intro o acc
    unfold tdfFontsC
    split
    · exact Pot.pure trivial (by somega) (by somega) (by somega)
    · exact Pot.mono (pot_lift_any _) (by somega) (by somega) (by somega) (fun _ _ => ⟨trivial, by somega, by somega, by somega⟩)
  | succ fuel ih =>
    intro o acc
    unfold tdfFontsC
    have hN : tdfFontNameLen = 12 := rfl
    have hT : tdfCharTableSize = 94 := rfl
    have hR : tdfRecordLen = 213 := rfl
    split
    · exact Pot.pure trivial (by somega) (by somega) (by somega)
    · rename_i hc
      have ho : o < d.size := Decidable.not_not.mp hc
      have hF : tdfFontBudget d.size = 94 * d.size + 202 := rfl
      apply Pot.bind_le pot_tick (by somega) (by somega) (by somega); intro _ _
      apply Pot.bind_le (pot_lift_any _) (by somega) (by somega) (by somega); intro b _
      split
      · exact Pot.pure trivial (by somega) (by somega) (by somega)
      · split
        · exact pot_fail
        · rename_i hrec
          apply Pot.bind_le (pot_lift_any _) (by somega) (by somega) (by somega); intro ind _
          split
          · exact pot_fail
          · dsimp only
            apply Pot.bind_le (pot_lift_ok (fun a h => (rd_ok h).2)) (by somega) (by somega) (by somega); intro nameLen hnl
            split
            · exact pot_fail
            · rename_i hname
              -- the budget of this record and of the rest of the file
              have hb : ∀ bs : Nat, tdfFontBudget d.size * (d.size - (o + 4 + 1 + tdfFontNameLen + 4 + 1 + 1 + 2 + 2 * tdfCharTableSize + bs)) + tdfFontBudget d.size * 1
                  ≤ tdfFontBudget d.size * (d.size - o) := fun bs => mul_budget _ _ _ _ (by omega)
              generalize hX : tdfFontBudget d.size * (d.size - o) = X at hb ⊢
              apply Pot.bind_le (tdfNameC_pot d (o + 4 + 1) nameLen 0) (by have := hb 0; somega) (by somega) (by somega); intro nl _
              apply Pot.bind_le (pot_lift_any _) (by somega) (by somega) (by somega); intro _ _
              apply Pot.bind_le (pot_lift_any _) (by somega) (by somega) (by somega); intro ty _
              split
              · exact pot_fail
              · apply Pot.bind_le (pot_lift_any _) (by somega) (by somega) (by somega); intro spaces _
                split
                · exact pot_fail
                · apply Pot.bind_le (pot_lift_any _) (by somega) (by somega) (by somega); intro blockSize _
                  apply Pot.bind_le (tdfTableC_pot d tdfCharTableSize _ []) (by have := hb 0; somega) (by somega) (by somega); intro table htab
                  have htl : table.length = 94 := by simpa [hT] using htab
                  have hgl := tdfGlyphsC_pot d (o + 4 + 1 + tdfFontNameLen + 4 + 1 + 1 + 2 + 2 * tdfCharTableSize) blockSize (ty == 2) table 0 none
                  rw [htl] at hgl
                  apply Pot.bind_le hgl (by have := hb 0; somega) (by somega) (by somega); intro r _
                  apply Pot.mono (ih _ _) (by have := hb blockSize; somega) (by somega) (by somega)
                  intro _ _
                  exact ⟨trivial, by somega, by somega, by somega⟩

/-- TheDraw bundle of `|d|` bytes: at most `(94 |d| + 202) * |d| + 1` loop iterations (quadratic: every glyph of every font
    may run to the end of the file); bytes pushed to glyph data: at most two per iteration -/
theorem loadTdfC_pot (d : Bytes) :
    (loadTdfC d).Pot (tdfFontBudget d.size * d.size + 1) 0 0 (fun _ => True) (fun _ => 0) (fun _ => 0) (fun _ => 0) := by
  unfold loadTdfC
  split
  · exact pot_fail
  · apply Pot.bind_le (pot_lift_any _) (by somega) (by somega) (by somega); intro b _
    split
    · exact pot_fail
    · apply Pot.bind_le (pot_lift_any _) (by somega) (by somega) (by somega); intro _ _
      split
      · exact pot_fail
      · dsimp only
        apply Pot.bind_le (pot_lift_any _) (by somega) (by somega) (by somega); intro m _
        split
        · exact pot_fail
        · have hm : tdfFontBudget d.size * (d.size - (tdfId.length + 1 + 1)) ≤ tdfFontBudget d.size * d.size := Nat.mul_le_mul_left _ (by omega)
          exact Pot.mono (tdfFontsC_pot d _ _ _) (by somega) (by somega) (by somega) (fun _ _ => ⟨trivial, by somega, by somega, by somega⟩)
