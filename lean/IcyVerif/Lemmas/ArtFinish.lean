import IcyVerif.Lemmas.ArtSim
/-! # From the reader's final screen to the loaded picture (`crop_loaded_file`, bold folding, `Buffer::get_char`) -/
set_option linter.unusedSimpArgs false
namespace IcyVerif.ArtIO

theorem exec_w (s : Screen) (o : Op) : (s.exec o).w = s.w := by
  cases o with
  | nl => rfl
  | put c =>
    show (s.put c).w = s.w
    unfold Screen.put Screen.setChar Screen.lf
    simp only []
    split <;> split <;> split <;> rfl

theorem runOps_w (ops : List Op) : ∀ (s : Screen), (s.runOps ops).w = s.w := by
  induction ops with
  | nil => intro s; rfl
  | cons o os ih => intro s; rw [runOps_cons, ih, exec_w]

/-- the screen every `parse_with_parser` loader starts from (rows cleared, caret home) -/
def freshScreen (w h : Nat) : Screen := ⟨w, h, [], 0, 0⟩

theorem shownAt_nil (x y : Nat) : shownAt [] x y = defaultCell := by simp [shownAt, lineShown]

/-- What a loaded picture shows when the reader's screen went through the screen program of a picture. -/
theorem finish_spec (cut : List Cell → List Cell) (f : Fmt) (hf : f ≠ .atascii) (rs : RS) (img : Cell → Cell) (w H : Nat) (rows : List (List Cell))
    (hw : 0 < w) (hfit : ∀ r ∈ rows, (cut r).length ≤ w) (hne : rows ≠ [])
    (hlast : ∀ r, rows.getLast? = some r → cut r ≠ [])
    (hscr : rs.core.scr = (freshScreen w H).runOps (picOps cut img w rows)) :
    (finish f rs).w = w ∧ (finish f rs).h = rows.length ∧ (finish f rs).stuck = rs.core.stuck ∧
    ∀ x y, x < w → y < rows.length → (finish f rs).cellAt x y =
      if x < (cut (rows.getD y [])).length then foldBold (shown (img ((cut (rows.getD y [])).getD x defaultCell)))
      else defaultCell := by
  have hsw : rs.core.scr.w = w := by rw [hscr, runOps_w]; rfl
  have hlen0 : 0 < rows.length := by
    cases rows with
    | nil => exact absurd rfl hne
    | cons _ _ => simp
  have V := pic_view cut img rows (freshScreen w H) rfl hw hfit
  have L := pic_len cut img rows (freshScreen w H) rfl hw hfit hne hlast (by simp [freshScreen])
  have e0 : (freshScreen w H).w = w := rfl
  have e1 : (freshScreen w H).cy = 0 := rfl
  rw [e0] at V L
  rw [e1] at L
  rw [← hscr] at V L
  simp only [Nat.zero_add] at L
  obtain ⟨C1, C2⟩ := crop_spec rs.core.scr.lines rows.length hlen0 L
  unfold finish
  rw [if_neg hf]
  refine ⟨hsw, ?_, rfl, ?_⟩
  · exact C1
  · intro x y hx hy
    show viewLines rs.core.scr.w (cropLines _ _).length (foldLines (cropLines _ _)) x y = _
    rw [viewLines_eq, C1, hsw]
    have : ¬ (w ≤ x ∨ rows.length ≤ y) := by omega
    rw [if_neg this, shownAt_foldLines, C2 x y hy, V x y, e1]
    by_cases hc : x < (cut (rows.getD y [])).length
    · have hc' : 0 ≤ y ∧ y < 0 + rows.length ∧ x < (cut (rows.getD (y - 0) [])).length := by
        refine ⟨Nat.zero_le _, by omega, ?_⟩; simpa using hc
      rw [if_pos hc, if_pos hc']; simp
    · have hc' : ¬ (0 ≤ y ∧ y < 0 + rows.length ∧ x < (cut (rows.getD (y - 0) [])).length) := by
        intro ⟨_, _, h3⟩; apply hc; simpa using h3
      rw [if_neg hc, if_neg hc']
      show foldBold (shownAt [] x y) = defaultCell
      rw [shownAt_nil, foldBold_default]

end IcyVerif.ArtIO

namespace IcyVerif.ArtIO

/-! ### the layer height only grows, and a printed row is inside the layer (needed where nothing is cropped: ATASCII) -/

theorem exec_layerH_mono (s : Screen) (o : Op) : s.layerH ≤ (s.exec o).layerH := by
  cases o with
  | nl => exact Nat.le_refl _
  | put c =>
    show s.layerH ≤ (s.put c).layerH
    unfold Screen.put Screen.setChar Screen.lf
    simp only []
    split <;> split <;> split <;> simp <;> omega

theorem runOps_layerH_mono (ops : List Op) : ∀ (s : Screen), s.layerH ≤ (s.runOps ops).layerH := by
  induction ops with
  | nil => intro s; exact Nat.le_refl _
  | cons o os ih => intro s; rw [runOps_cons]; exact Nat.le_trans (exec_layerH_mono s o) (ih _)

theorem put_layerH (s : Screen) (c : Cell) (h : s.cx < s.w) : s.cy + 1 ≤ (s.put c).layerH := by
  rw [put_eq s c h]; split <;> simp <;> omega

theorem pic_layerH (cut : List Cell → List Cell) (img : Cell → Cell) : ∀ (rows : List (List Cell)) (s : Screen), s.cx = 0 → 0 < s.w →
    (∀ r ∈ rows, (cut r).length ≤ s.w) → rows ≠ [] → (∀ r, rows.getLast? = some r → cut r ≠ []) →
    s.cy + rows.length ≤ (s.runOps (picOps cut img s.w rows)).layerH := by
  intro rows
  induction rows with
  | nil => intro s _ _ _ h; exact absurd rfl h
  | cons r rest ih =>
    intro s hcx hw hfit _ hlast
    have hfr : (cut r).length ≤ s.w := hfit r (List.mem_cons_self)
    have R := row_spec cut img s r (!rest.isEmpty) hcx hw hfr
    show _ ≤ (s.runOps (rowOps cut img s.w r (!rest.isEmpty) ++ picOps cut img s.w rest)).layerH
    rw [runOps_append]
    cases rest with
    | nil =>
      simp only [picOps, runOps_nil]
      have hne : cut r ≠ [] := hlast r rfl
      unfold rowOps
      rw [runOps_append]
      refine Nat.le_trans ?_ (runOps_layerH_mono _ _)
      cases hc : cut r with
      | nil => exact absurd hc hne
      | cons c0 cs =>
        show s.cy + 1 ≤ ((s.exec (Op.put (img c0))).runOps (putOps (cs.map img))).layerH
        exact Nat.le_trans (put_layerH s (img c0) (by omega)) (runOps_layerH_mono _ _)
    | cons r2 rest2 =>
      have hm : (!(r2 :: rest2).isEmpty) = true := rfl
      obtain ⟨px, py⟩ := R.pos hm
      have pw := R.w_eq
      have hfit' : ∀ q ∈ (r2 :: rest2), (cut q).length ≤ (s.runOps (rowOps cut img s.w r (!(r2 :: rest2).isEmpty))).w := by
        intro q hq; rw [pw]; exact hfit q (List.mem_cons_of_mem _ hq)
      have I := ih (s.runOps (rowOps cut img s.w r (!(r2 :: rest2).isEmpty))) px (by rw [pw]; exact hw) hfit'
        (by simp) (by intro q hq; exact hlast q (by simpa using hq))
      rw [pw, py] at I
      have e : s.cy + 1 + (r2 :: rest2).length = s.cy + (r :: r2 :: rest2).length := by
        simp only [List.length_cons]; omega
      rw [e] at I
      exact I

end IcyVerif.ArtIO
