import IcyVerif.Model.PalLoad
import IcyVerif.Lemmas.LoadersBase
set_option linter.unusedSimpArgs false
set_option linter.unusedVariables false
/-! The palette importers never panic (C02): every step of the model is an `ok`/`Err` step. -/
namespace IcyVerif.PalLoad
open IcyVerif.Bytes IcyVerif.Bytes.Res IcyVerif.Palette IcyVerif.Gen.FontPal IcyVerif.Gen.Palette

/-- the ASCII instance of the digit-class matcher is C16's matcher -/
theorem digits1With_ascii (s : List Nat) : digits1With Palette.isDigit s = digits1 s := rfl
theorem rgbAtWith_ascii (s : List Nat) : rgbAtWith Palette.isDigit s = rgbAt s := rfl

theorem parseU32_sat (ds : List Nat) : (parseU32 ds).Sat (fun v => v < 4294967296) := by
  unfold parseU32
  split
  · rename_i h; exact h.2
  · trivial

theorem rgbOfDec_sat (t : List Nat × List Nat × List Nat) : (rgbOfDec t).Sat Rgb.Valid := by
  unfold rgbOfDec
  apply Sat.bind (parseU32_sat _); intro r _
  apply Sat.bind (parseU32_sat _); intro g _
  apply Sat.bind (parseU32_sat _); intro b _
  simp only [sat_pure, Rgb.Valid]
  omega

def AllValid (cs : List Rgb) : Prop := ∀ c ∈ cs, c.Valid

theorem mapRes_sat {α β : Type} (f : α → Res β) (P : β → Prop) (hf : ∀ a, (f a).Sat P) :
    ∀ l : List α, (mapRes f l).Sat (fun bs => ∀ b ∈ bs, P b) := by
  intro l
  induction l with
  | nil => unfold mapRes; intro b hb; cases hb
  | cons a as ih =>
    unfold mapRes
    apply Sat.bind (hf a); intro b hb
    apply Sat.bind ih; intro bs hbs
    simp only [sat_pure]
    intro x hx
    cases hx with
    | head => exact hb
    | tail _ h => exact hbs x h

theorem palLineColors_sat (line : List Nat) : (palLineColors line).Sat AllValid :=
  mapRes_sat rgbOfDec Rgb.Valid rgbOfDec_sat _

theorem allValid_append {a b : List Rgb} (ha : AllValid a) (hb : AllValid b) : AllValid (a ++ b) := by
  intro c hc
  rcases List.mem_append.mp hc with h | h
  · exact ha c h
  · exact hb c h

theorem palLoop_sat : ∀ (ls : List (List Nat)) (i : Nat) (acc : List Rgb), AllValid acc → (palLoop ls i acc).Sat AllValid := by
  intro ls
  induction ls with
  | nil => intro i acc h; unfold palLoop; exact h
  | cons l ls ih =>
    intro i acc h
    unfold palLoop
    split
    · split
      · exact ih 1 acc h
      · trivial
    · split
      · exact ih _ acc h
      · apply Sat.bind (palLineColors_sat l); intro cs hcs
        exact ih _ _ (allValid_append h hcs)

theorem gplLine_sat (acc : List Rgb) (line : List Nat) (h : AllValid acc) : (gplLine acc line).Sat AllValid := by
  unfold gplLine
  split
  · exact h
  · split
    · exact h
    · apply Sat.bind (rgbOfDec_sat _); intro c hc
      simp only [sat_pure]
      exact allValid_append h (by intro x hx; cases hx with | head => exact hc | tail _ h => cases h)

theorem foldRes_sat {σ α : Type} (f : σ → α → Res σ) (P : σ → Prop) (hf : ∀ s a, P s → (f s a).Sat P) :
    ∀ (l : List α) (s : σ), P s → (foldRes f s l).Sat P := by
  intro l
  induction l with
  | nil => intro s h; unfold foldRes; exact h
  | cons a as ih =>
    intro s h
    unfold foldRes
    apply Sat.bind (hf s a h); intro s' hs'
    exact ih s' hs'

theorem gplLoad_sat (s : List Nat) : (gplLoad s).Sat AllValid := by
  unfold gplLoad
  split
  · intro c hc; cases hc
  · split
    · exact foldRes_sat gplLine AllValid gplLine_sat _ _ (by intro c hc; cases hc)
    · trivial

theorem ofOption_noPanic (o : Option Pal) : (ofOption o).Sat (fun _ => True) := by
  unfold ofOption; split <;> trivial

/-- `load_palette` on text: no panic, whatever the format and the text -/
theorem loadText_sat (f : Fmt) (s : List Nat) : (loadText f s).Sat (fun _ => True) := by
  cases f
  · exact ofOption_noPanic (importHex s)
  · exact Sat.mono (palLoop_sat _ 0 [] (by intro c hc; cases hc)) (fun _ _ => trivial)
  · exact Sat.mono (gplLoad_sat s) (fun _ _ => trivial)
  · exact ofOption_noPanic (importIce s)
  · exact ofOption_noPanic (importTxt s)

/-- decimal channels are stored as bytes: `as u8` of a value that passed `parse::<u32>` -/
theorem loadText_dec_valid (s : List Nat) : (loadText .pal s).Sat AllValid ∧ (loadText .gpl s).Sat AllValid :=
  ⟨palLoop_sat _ 0 [] (by intro c hc; cases hc), gplLoad_sat s⟩

theorem palLoad_sat (f : Fmt) (bytes : List Nat) : (palLoad f bytes).Sat (fun _ => True) := by
  unfold palLoad
  split
  · exact loadText_sat f _
  · trivial

theorem palImport_sat (ext : Option String) (bytes : List Nat) : (palImport ext bytes).Sat (fun _ => True) := by
  unfold palImport
  split
  · trivial
  · split
    · exact palLoad_sat _ _
    · trivial

end IcyVerif.PalLoad
