import IcyVerif.Lemmas.TermStep
import IcyVerif.Model.TermWrap
set_option linter.unusedSimpArgs false
set_option linter.unusedVariables false
namespace IcyVerif.Term

abbrev GoodW (r : WSt × Out) : Prop := GoodSt r.1.inner

theorem inner_good (w : WSt) (o : Nat → Orc) (ch : Char) (h : GoodSt w.inner) : okOrOv (inner w o ch) GoodW := by
  unfold inner
  have hs := step_good wcfg o w.inner ch h
  cases hst : step wcfg o w.inner ch with
  | error e => rw [hst] at hs; exact hs
  | ok r => rw [hst] at hs; obtain ⟨st, out⟩ := r; exact hs

theorem wlimit_good (w : WSt) (c : Car) (out : Out) (h : GoodSt w.inner) (hb : w.inner.s.bh ≤ 1073741854) :
    okOrOv (wlimit w c out) GoodW := by
  unfold wlimit
  have hl := liftC_limit_good w.inner w.inner c out h hb rfl rfl
  cases hlc : limit w.inner.s c with
  | error e => simp only [liftC, hlc] at hl; exact hl.elim
  | ok c' =>
    simp only [liftC, hlc, ret, withC, okAnd_ok] at hl
    exact hl

theorem wok_good (w : WSt) (out : Out) (h : GoodSt w.inner) : okOrOv (.ok (w, out) : WR) GoodW := h

theorem avtRepeat_good (o : Nat → Orc) (ch : Char) : ∀ (n : Nat) (w : WSt), GoodSt w.inner →
    okOrOv (avtRepeat o ch n w) GoodW := by
  intro n
  induction n with
  | zero => intro w h; exact h
  | succ n ih =>
    intro w h
    unfold avtRepeat
    have hs := step_good wcfg o w.inner ch h
    cases hst : step wcfg o w.inner ch with
    | error e => rw [hst] at hs; exact hs
    | ok r =>
      rw [hst] at hs
      obtain ⟨st, out⟩ := r
      cases out with
      | err => exact hs
      | ok => exact ih _ hs
      | resize => exact ih _ hs

theorem avatarStep_good (w : WSt) (o : Nat → Orc) (ch : Char) (h : GoodSt w.inner) (hb : w.inner.s.bh ≤ 1073741854) :
    okOrOv (avatarStep w o ch) GoodW := by
  have ⟨g1, g2, g3⟩ := h
  unfold avatarStep
  simp only []
  split
  · -- chars
    repeat' (first | (apply okOrOv_ite <;> intro _))
    · exact ff_good w.inner h
    · exact h
    · exact h
    · exact inner_good w o ch h
  · -- readCommand
    repeat' (first | (apply okOrOv_ite <;> intro _))
    all_goals first
      | exact h
      | exact wlimit_good _ _ _ h hb
      | exact good_x w.inner w.inner.p _ h rfl (by omega) (by have := g2.2.1; omega) (Or.inr (by have := g2.1; omega))
      | skip
    · -- n = 6: x := min (tw - 1) (x + 1)
      exact good_x w.inner w.inner.p _ h rfl (by have := g1.tw1; have := g2.1; omega) (by have := g1.tw2; omega)
        (Or.inl (by omega))
  · -- repeatChars
    repeat' (first | (apply okOrOv_ite <;> intro _))
    · exact h
    · have hr := avtRepeat_good o w.avtChar (min ch.toNat 255) { w with avt := .repeatChars 3 } h
      cases hrr : avtRepeat o w.avtChar (min ch.toNat 255) { w with avt := .repeatChars 3 } with
      | error e => rw [hrr] at hr; exact hr
      | ok r =>
        rw [hrr] at hr
        obtain ⟨w', out⟩ := r
        cases out <;> exact hr
    · exact h
  · exact h
  · -- moveCursor
    repeat' (first | (apply okOrOv_ite <;> intro _))
    · exact h
    · exact wlimit_good _ _ _ h hb
    · exact h

theorem pcboardStep_good (w : WSt) (o : Nat → Orc) (ch : Char) (h : GoodSt w.inner) :
    okOrOv (pcboardStep w o ch) GoodW := by
  unfold pcboardStep
  simp only []
  repeat' (first | (apply okOrOv_ite <;> intro _))
  all_goals first | exact h | exact inner_good w o ch h

theorem renegadeStep_good (w : WSt) (o : Nat → Orc) (ch : Char) (h : GoodSt w.inner) :
    okOrOv (renegadeStep w o ch) GoodW := by
  unfold renegadeStep
  simp only []
  repeat' (first | (apply okOrOv_ite <;> intro _))
  all_goals first | exact h | exact inner_good w o ch h

theorem ctrlaStep_good (w : WSt) (o : Nat → Orc) (ch : Char) (h : GoodSt w.inner) (hb : w.inner.s.bh ≤ 1073741854) :
    okOrOv (ctrlaStep w o ch) GoodW := by
  have ⟨g1, g2, g3⟩ := h
  unfold ctrlaStep
  simp only []
  repeat' (first | (apply okOrOv_ite <;> intro _))
  all_goals first
    | exact h
    | exact inner_good w o ch h
    | exact wlimit_good _ _ _ h hb
    | exact good_clear w.inner _ w.inner.p _ h (clearScreen_ok _ _ g1) rfl
    | exact good_home w.inner w.inner.s w.inner.p _ _ h rfl g1 rfl rfl rfl rfl hb
    | exact good_x w.inner w.inner.p 0 h rfl (Int.le_refl 0) (by omega) (Or.inl g1.tw1)
    | skip
  · -- 'A': the inner parser prints ^A
    have hs := step_good wcfg o w.inner '\x01' h
    cases hst : step wcfg o w.inner '\x01' with
    | error e => simp only [hst]; rw [hst] at hs; exact hs
    | ok r => simp only [hst]; rw [hst] at hs; obtain ⟨st, out⟩ := r; exact hs

theorem wstep_good (e : Emu) (o : Nat → Orc) (w : WSt) (ch : Char) (h : GoodSt w.inner) :
    okOrOv (wstep e o w ch) GoodW := by
  unfold wstep
  apply okOrOv_ite
  · intro _; exact ⟨_, rfl⟩
  · intro hr
    have hb := bh_of_good w.inner h (Classical.not_not.mp hr)
    cases e with
    | avatar => exact avatarStep_good w o ch h hb
    | pcboard => exact pcboardStep_good w o ch h
    | ctrla => exact ctrlaStep_good w o ch h hb
    | renegade => exact renegadeStep_good w o ch h

theorem wrun_good (e : Emu) (o : Nat → Orc) : ∀ (cs : List Char) (w : WSt), GoodSt w.inner →
    okOrOv (wrun e o w cs) (fun w' => GoodSt w'.inner) := by
  intro cs
  induction cs with
  | nil => intro w h; exact h
  | cons ch rest ih =>
    intro w h
    unfold wrun
    have h2 := wstep_good e o w ch h
    cases hs : wstep e o w ch with
    | error e => rw [hs] at h2; exact h2
    | ok r => rw [hs] at h2; obtain ⟨w', out⟩ := r; exact ih w' h2

end IcyVerif.Term
