import IcyVerif.Lemmas.ArtAnsiAtoms
/-! # Every piece the ANSI writer extends `result` with is `ChunkOk` (C04, `output_line_length`)

Induction over the writer's event generators (`sgrEvs`, `genLineEv`, `genLinesEv`, `prepEvs`, `endEvs`): the payload of
every `ext` event is one of the atoms of `Lemmas/ArtAnsiAtoms.lean`, provided every character can be encoded under the
chosen control-character handling (`EncDom`).  Hence (`chunksOf_ok`) every chunk handed to `push_result` is `ChunkOk`. -/
set_option linter.unusedSimpArgs false
namespace IcyVerif.ArtIO
open IcyVerif.Gen.Art

/-- an event of the writer proper: the payload of an `ext` event is `ChunkOk`; `result` is not dropped -/
def EvGood : Ev → Prop
  | .ext bs => ChunkOk bs
  | .drop => False
  | _ => True

def EvsOk (evs : List Ev) : Prop := ∀ e ∈ evs, EvGood e

theorem evsOk_nil : EvsOk [] := fun _ h => by simp at h

theorem EvsOk.append {a b : List Ev} (ha : EvsOk a) (hb : EvsOk b) : EvsOk (a ++ b) := by
  intro e h
  rcases List.mem_append.1 h with h | h
  · exact ha e h
  · exact hb e h

theorem evsOk_cons {e : Ev} {es : List Ev} (h : EvGood e) (he : EvsOk es) : EvsOk (e :: es) := by
  intro x hx
  rcases List.mem_cons.1 hx with q | q
  · rw [q]; exact h
  · exact he x q

theorem evsOk_ext_push {bs : List Nat} (h : ChunkOk bs) : EvsOk [.ext bs, .push] :=
  evsOk_cons (e := .ext bs) h (evsOk_cons (e := .push) trivial evsOk_nil)

theorem evsOk_cons_ext {bs : List Nat} {es : List Ev} (h : ChunkOk bs) (he : EvsOk es) : EvsOk (.ext bs :: es) :=
  evsOk_cons (e := .ext bs) h he

theorem evsOk_cons_push {es : List Ev} (he : EvsOk es) : EvsOk (.push :: es) := evsOk_cons (e := .push) trivial he

theorem evsOk_cons_eol {es : List Ev} (he : EvsOk es) : EvsOk (.eol :: es) := evsOk_cons (e := .eol) trivial he

theorem EvsOk.ext {evs : List Ev} (h : EvsOk evs) : ∀ bs, Ev.ext bs ∈ evs → ChunkOk bs := fun bs hb => h (.ext bs) hb

theorem EvsOk.noDrop {evs : List Ev} (h : EvsOk evs) : Ev.drop ∉ evs := fun hd => h .drop hd

theorem evsOk_tc : ∀ (fuel : Nat) (tc : List Nat), EvsOk (tcEvs fuel tc) := by
  intro fuel
  induction fuel with
  | zero => intro tc; unfold tcEvs; exact evsOk_nil
  | succ f ih =>
    intro tc
    match tc with
    | [] => unfold tcEvs; exact evsOk_nil
    | [_] => unfold tcEvs; exact evsOk_nil
    | [_, _] => unfold tcEvs; exact evsOk_nil
    | [_, _, _] => unfold tcEvs; exact evsOk_nil
    | a :: b :: c :: d :: rest =>
      unfold tcEvs
      exact (evsOk_ext_push (chunkOk_csi [a, b, c, d] 116 (by unfold WriterFinal; omega))).append (ih rest)

theorem evsOk_sgr (cell : CharCell) : EvsOk (sgrEvs cell) := by
  unfold sgrEvs
  refine EvsOk.append ?_ (evsOk_tc _ _)
  split
  · exact evsOk_nil
  · exact evsOk_ext_push (chunkOk_csi _ 109 (by unfold WriterFinal; omega))

theorem evsOk_genLine (o : AnsiOpts) (w : Nat) : ∀ (fuel x cur : Nat) (line : List CharCell) (fonts : List Nat),
    (∀ cc ∈ line, EncDom o cc.ch) → EvsOk (genLineEv o w fuel x cur line fonts).1 := by
  intro fuel
  induction fuel with
  | zero => intro x cur line fonts _; unfold genLineEv; exact evsOk_nil
  | succ f ih =>
    intro x cur line fonts hd
    match line with
    | [] => unfold genLineEv; exact evsOk_nil
    | cell :: rest =>
      have hcell : EncDom o cell.ch := hd cell List.mem_cons_self
      have hrest : ∀ cc ∈ rest, EncDom o cc.ch := fun cc h => hd cc (List.mem_cons_of_mem _ h)
      have hdrop : ∀ n, ∀ cc ∈ rest.drop n, EncDom o cc.ch := fun n cc h => hrest cc (List.mem_of_mem_drop h)
      have hpre : EvsOk ((if cur ≠ fonts.headD 0 then [Ev.ext (fontSeq (fonts.headD 0)), Ev.push] else []) ++ sgrEvs cell) := by
        refine EvsOk.append ?_ (evsOk_sgr cell)
        split
        · exact evsOk_ext_push (chunkOk_fontSeq _)
        · exact evsOk_nil
      have hplain : EvsOk ([Ev.ext (cellChar o cell.ch), Ev.push]) := evsOk_ext_push (chunkOk_cellChar o cell.ch hcell)
      unfold genLineEv
      simp only []
      split
      · split
        · exact (hpre.append (evsOk_cons_push
            (evsOk_ext_push (chunkOk_csi _ 67 (by unfold WriterFinal; omega))))).append (ih _ _ _ _ (hdrop _))
        · split
          · refine (hpre.append (evsOk_cons_push (evsOk_cons_ext (chunkOk_cellChar o cell.ch hcell)
              (evsOk_ext_push (chunkOk_csi _ 98 (by unfold WriterFinal; omega)))))).append (ih _ _ _ _ (hdrop _))
          · exact (hpre.append hplain).append (ih _ _ _ _ hrest)
      · exact (hpre.append hplain).append (ih _ _ _ _ hrest)

theorem evsOk_genLines (o : AnsiOpts) (skip : Nat → Bool) (w h : Nat) : ∀ (lines : List (List CharCell)) (frows : List (List Nat))
    (y : Nat) (first : Bool) (cur : Nat), (∀ line ∈ lines, ∀ cc ∈ line, EncDom o cc.ch) →
    EvsOk (genLinesEv o skip w h lines frows y first cur) := by
  intro lines
  induction lines with
  | nil => intro frows y first cur _; unfold genLinesEv; exact evsOk_nil
  | cons line rest ih =>
    intro frows y first cur hd
    have hl : ∀ cc ∈ line, EncDom o cc.ch := hd line List.mem_cons_self
    have hr : ∀ l ∈ rest, ∀ cc ∈ l, EncDom o cc.ch := fun l h => hd l (List.mem_cons_of_mem _ h)
    unfold genLinesEv
    split
    · exact ih _ _ _ _ hr
    · simp only []
      refine EvsOk.append (EvsOk.append (EvsOk.append ?_ (evsOk_genLine o w _ _ _ _ _ hl)) ?_) (ih _ _ _ _ hr)
      · split
        · refine EvsOk.append ?_ (evsOk_ext_push (chunkOk_csi _ 72 (by unfold WriterFinal; omega)))
          split
          · exact evsOk_cons_ext (chunkOk_csi _ 109 (by unfold WriterFinal; omega)) evsOk_nil
          · exact evsOk_nil
        · exact evsOk_nil
      · split
        · refine evsOk_cons_ext ?_ (evsOk_cons_eol evsOk_nil)
          split
          · exact chunkOk_space
          · exact chunkOk_crlf
        · exact evsOk_nil

theorem evsOk_prep (o : AnsiOpts) (im : IceMode) : EvsOk (prepEvs o im) := by
  unfold prepEvs
  refine EvsOk.append ?_ ?_
  · split
    · exact evsOk_ext_push chunkOk_iceOn
    · exact evsOk_nil
  · cases o.prep with
    | none => exact evsOk_nil
    | clear =>
      have : ([27, 91, 50, 74] : List Nat) = csi [2] 74 := by decide
      simp only []
      rw [this]; exact evsOk_ext_push (chunkOk_csi _ 74 (by unfold WriterFinal; omega))
    | home =>
      have : ([27, 91, 49, 59, 49, 72] : List Nat) = csi [1, 1] 72 := by decide
      simp only []
      rw [this]; exact evsOk_ext_push (chunkOk_csi _ 72 (by unfold WriterFinal; omega))

theorem evsOk_end (im : IceMode) : EvsOk (endEvs im) := by
  unfold endEvs
  split
  · exact evsOk_ext_push chunkOk_iceOff
  · exact evsOk_nil

/-! ### the characters of the `CharCell`s are characters of the picture (or the blank of an invisible cell) -/

theorem encDom_space (o : AnsiOpts) : EncDom o 32 := by
  refine ⟨by omega, ?_⟩
  cases o.ctrl with
  | ignore => simp only []; unfold AnsiPrintable; omega
  | icyTerm => trivial
  | filterOut => simp only []; decide

theorem genCellsRow_enc (o : AnsiOpts) (pal : List Rgb) (im : IceMode) (row : List Cell) (hd : ∀ c ∈ row, EncDom o c.ch) :
    ∀ (n x : Nat) (st : AnsiState), ∀ cc ∈ (genCellsRow o pal im row n x st).1, EncDom o cc.ch := by
  intro n
  induction n with
  | zero => intro x st cc h; simp [genCellsRow] at h
  | succ k ih =>
    intro x st cc h
    have hget : EncDom o (row.getD x defaultCell).ch := by
      rw [List.getD_eq_getElem?_getD]
      cases hx : row[x]? with
      | none => exact encDom_space o
      | some c => exact hd c (List.mem_of_getElem? hx)
    unfold genCellsRow at h
    simp only [] at h
    split at h
    · rcases List.mem_cons.1 h with e | e
      · rw [e]; exact hget
      · exact ih _ _ cc e
    · rcases List.mem_cons.1 h with e | e
      · rw [e]; exact encDom_space o
      · exact ih _ _ cc e

theorem genCellsS_enc (o : AnsiOpts) (skip : Nat → Bool) (pal : List Rgb) (im : IceMode) (w : Nat) :
    ∀ (rows : List (List Cell)) (y : Nat) (st : AnsiState), (∀ r ∈ rows, ∀ c ∈ r, EncDom o c.ch) →
    ∀ line ∈ genCellsS o skip pal im w rows y st, ∀ cc ∈ line, EncDom o cc.ch := by
  intro rows
  induction rows with
  | nil => intro y st _ line h; simp [genCellsS] at h
  | cons row rest ih =>
    intro y st hd line h cc hcc
    have hr : ∀ r ∈ rest, ∀ c ∈ r, EncDom o c.ch := fun r hr => hd r (List.mem_cons_of_mem _ hr)
    unfold genCellsS at h
    split at h
    · rcases List.mem_cons.1 h with e | e
      · rw [e] at hcc; simp at hcc
      · exact ih _ _ hr line e cc hcc
    · simp only [] at h
      rcases List.mem_cons.1 h with e | e
      · rw [e] at hcc
        exact genCellsRow_enc o pal im row (hd row List.mem_cons_self) _ _ _ cc hcc
      · exact ih _ _ hr line e cc hcc

/-- all events of `screen_prep` and `generate` -/
theorem evsOk_ansi (o : AnsiOpts) (skip : Nat → Bool) (frows : List (List Nat)) (p : Pic) (hd : ∀ r ∈ p.rows, ∀ c ∈ r, EncDom o c.ch) :
    EvsOk (prepEvs o p.ice ++ genLinesEv o skip p.w p.rows.length
      (genCellsS o skip p.pal p.ice p.w (p.rows.map fun r => r ++ List.replicate (p.w - r.length) defaultCell) 0 ansiState0) frows 0 true 0) := by
  refine EvsOk.append (evsOk_prep o p.ice) ?_
  apply evsOk_genLines
  apply genCellsS_enc
  intro r hr c hc
  obtain ⟨r0, hr0, e⟩ := List.mem_map.1 hr
  rw [← e] at hc
  rcases List.mem_append.1 hc with h | h
  · exact hd r0 hr0 c h
  · rw [List.eq_of_mem_replicate h]; exact encDom_space o

end IcyVerif.ArtIO
