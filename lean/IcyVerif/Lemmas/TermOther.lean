import IcyVerif.Lemmas.TermStep
import IcyVerif.Model.TermOther
set_option linter.unusedSimpArgs false
set_option linter.unusedVariables false
namespace IcyVerif.Term

/-- invariant for the byte-oriented emulations: the shared one, on the St view of the state -/
def GoodO (st : OSt) : Prop := ScrOk st.s ∧ CurOk st.s st.c ∧ InScr st.s st.c
abbrev GoodOR (r : OSt × Out) : Prop := GoodO r.1

/-- additionally, for the fixed-grid emulations: the buffer is exactly the page -/
def Fixed (st : OSt) : Prop := st.s.bh = st.s.th ∧ st.s.bw = st.s.tw

theorem goodO_toSt (st : OSt) (h : GoodO st) : GoodSt { s := st.s, c := st.c, p := {} } := ⟨h.1, h.2.1, fun _ => h.2.2⟩

theorem oliftC_limit_good (st : OSt) (c0 : Car) (h : GoodO st) (hb : st.s.bh ≤ 1073741854) :
    okOrOv (oliftC st (limit st.s c0)) GoodOR := by
  obtain ⟨g1, g2, g3⟩ := h
  have hl := limit_full st.s c0 g1 (by omega)
  cases hlc : limit st.s c0 with
  | error e => rw [hlc] at hl; exact hl.elim
  | ok c' =>
    rw [hlc] at hl
    obtain ⟨l1, l2, l3⟩ := hl
    exact ⟨g1, l1, l3 g3.1⟩

theorem oliftSC_good (st : OSt) (r : Res (Scr × Car)) (h : GoodO st)
    (hspec : okOrOv r (fun r => ScrStep st.s r.1 ∧ CurOk r.1 r.2 ∧ (InScr st.s st.c → InScr r.1 r.2))) :
    okOrOv (oliftSC st r) GoodOR := by
  obtain ⟨g1, g2, g3⟩ := h
  cases r with
  | error e => exact hspec
  | ok p =>
    obtain ⟨s', c'⟩ := p
    obtain ⟨⟨e1, e2⟩, k2, k3⟩ := hspec
    simp only at e1 e2 k2 k3
    refine ⟨?_, k2, k3 g3⟩
    show ScrOk s'
    rw [e1]; exact scrOk_bh _ _ g1 (by have := g1.bh0; omega)

theorem goodO_x (st : OSt) (x' : Int) (b : Bool) (h : GoodO st) (h0 : 0 ≤ x') (h2 : x' < st.s.tw) :
    GoodO { s := st.s, c := { x := x', y := st.c.y, ins := st.c.ins }, esc := b } := by
  obtain ⟨g1, ⟨c0, c1, c2, c3⟩, ⟨i1, i2, i3, i4⟩⟩ := h
  have := g1.tw2
  have hx : x' ≤ 132 := by omega
  exact ⟨g1, ⟨h0, hx, c2, c3⟩, ⟨i1, h2, i3, i4⟩⟩

theorem goodO_clear (st : OSt) (s' : Scr) (b : Bool) (hk : ScrOk s') (h1 : s'.bh = s'.th) :
    GoodO { s := s', c := { x := 0, y := 0, ins := st.c.ins }, esc := b } := by
  have := hk.tw1; have := hk.th1; have := hk.th2
  refine ⟨hk, ?_, ?_⟩
  · simp only [CurOk]; omega
  · simp only [InScr, Scr.fv, satSub, sat, h1]; omega

theorem goodO_home (st : OSt) (b : Bool) (h : GoodO st) (hb : st.s.bh ≤ 1073741854) :
    GoodO { s := st.s, c := { x := 0, y := st.s.fv, ins := st.c.ins }, esc := b } := by
  obtain ⟨g1, ⟨c0, c1, c2, c3⟩, ⟨i1, i2, i3, i4⟩⟩ := h
  have := g1.tw1; have := g1.th1; have := g1.th2; have := g1.bh0
  have hfv := fv_eq st.s g1 (by omega)
  refine ⟨g1, ?_, ?_⟩
  · simp only [CurOk]; omega
  · simp only [InScr]; omega

theorem printValue_good (st : OSt) (v : Nat) (h : GoodO st) (hb : st.s.bh ≤ 1073741854) :
    okOrOv (printValue st v) GoodOR := by
  unfold printValue
  apply okOrOv_ite
  · intro _; exact h
  · intro _; exact oliftSC_good st _ h (printChar_step _ _ h.1 h.2.1 hb)

theorem asciiStep_good (st : OSt) (ch : Char) (h : GoodO st) (hb : st.s.bh ≤ 1073741854) :
    okOrOv (asciiStep st ch) GoodOR := by
  have ⟨g1, g2, g3⟩ := h
  have := g1.tw1
  unfold asciiStep
  simp only []
  repeat' (first | (apply okOrOv_ite <;> intro _))
  all_goals first
    | exact h
    | exact oliftSC_good st _ h (lf_step _ _ g1 g2 hb)
    | exact goodO_clear st _ st.esc (ff_ok _ _ g1) rfl
    | exact goodO_x st 0 st.esc h (Int.le_refl 0) (by omega)
    | exact goodO_x st _ st.esc h (by omega) (by have := g3.2.1; have := g2.1; omega)
    | exact printValue_good st _ h hb
    | exact oliftSC_good st _ h (printChar_step _ _ g1 g2 hb)

theorem atasciiStep_good (st : OSt) (ch : Char) (h : GoodO st) (hb : st.s.bh ≤ 1073741854) :
    okOrOv (atasciiStep st ch) GoodOR := by
  have ⟨g1, g2, g3⟩ := h
  have hy0 : 0 ≤ st.c.y := g2.2.2.1
  have := g1.tw1
  unfold atasciiStep
  simp only [up, down, left, right]
  repeat' (first | (apply okOrOv_ite <;> intro _))
  all_goals first
    | exact h
    | exact oliftC_limit_good st _ h hb
    | exact oliftSC_good st _ h (lf_step _ _ g1 g2 hb)
    | exact goodO_clear st _ st.esc (clearScreen_ok _ _ g1) rfl
    | exact goodO_x st _ st.esc h (by omega) (by have := g3.2.1; have := g2.1; omega)
    | exact printValue_good st _ h hb
    | exact printValue_good { st with esc := false } _ h hb
    | exact oliftSC_good st _ h (printChar_step _ _ g1 g2 hb)
    | exact oliftSC_good { st with esc := false } _ h (printChar_step _ _ g1 g2 hb)
    | (exfalso; rename_i hh; exact not_lineOpPanics _ _ g1 hy0 hh)

theorem petsciiStep_good (st : OSt) (ch : Char) (h : GoodO st) (hb : st.s.bh ≤ 1073741854) :
    okOrOv (petsciiStep st ch) GoodOR := by
  have ⟨g1, g2, g3⟩ := h
  have hy0 : 0 ≤ st.c.y := g2.2.2.1
  have := g1.tw1
  unfold petsciiStep
  simp only [up, down, left, right]
  repeat' (first | (apply okOrOv_ite <;> intro _) | split)
  all_goals first
    | exact h
    | exact oliftC_limit_good st _ h hb
    | exact oliftSC_good st _ h (lf_step _ _ g1 g2 hb)
    | exact oliftSC_good st _ h (printChar_step _ _ g1 g2 hb)
    | exact goodO_clear st _ st.esc (clearScreen_ok _ _ g1) rfl
    | exact goodO_home st st.esc h hb
    | exact goodO_x st 0 _ h (Int.le_refl 0) (by omega)
    | exact goodO_x st (st.s.tw - 1) _ h (by omega) (by omega)
    | exact goodO_x st _ st.esc h (by omega) (by have := g3.2.1; have := g2.1; omega)
    | (exfalso; rename_i hh; exact not_lineOpPanics _ _ g1 hy0 hh)

/-! ## fixed 40x24 pages -/
def GoodF (st : OSt) : Prop := GoodO st ∧ Fixed st
abbrev GoodFR (r : OSt × Out) : Prop := GoodF r.1

theorem fixed_fv (st : OSt) (h : GoodF st) : st.s.fv = 0 := by
  obtain ⟨⟨g1, _, _⟩, ⟨f1, _⟩⟩ := h
  have := g1.th1; have := g1.th2
  simp only [Scr.fv, satSub, sat, f1]; omega

/-- any cursor inside the page is good -/
theorem goodF_cur (st : OSt) (c' : Car) (b : Bool) (h : GoodF st) (hx0 : 0 ≤ c'.x) (hx1 : c'.x < st.s.tw)
    (hy0 : 0 ≤ c'.y) (hy1 : c'.y < st.s.th) : GoodF { s := st.s, c := c', esc := b } := by
  have hfv := fixed_fv st h
  obtain ⟨⟨g1, g2, g3⟩, f⟩ := h
  have := g1.tw2; have := g1.th2; have := g1.bh0
  have f1 := f.1
  have k1 : c'.x ≤ 132 := by omega
  have k2 : c'.y ≤ st.s.bh + 60 := by omega
  have k3 : st.s.fv ≤ c'.y := by omega
  have k4 : c'.y < st.s.fv + st.s.th := by omega
  exact ⟨⟨g1, ⟨hx0, k1, hy0, k2⟩, ⟨g3.1, hx1, k3, k4⟩⟩, f⟩

theorem cur_in_page (st : OSt) (h : GoodF st) : 0 ≤ st.c.x ∧ st.c.x < st.s.tw ∧ 0 ≤ st.c.y ∧ st.c.y < st.s.th := by
  have hfv := fixed_fv st h
  obtain ⟨⟨g1, g2, g3⟩, f⟩ := h
  obtain ⟨_, i2, i3, i4⟩ := g3
  exact ⟨g2.1, i2, g2.2.2.1, by omega⟩

theorem vdDown_page (s : Scr) (c : Car) (h1 : 1 ≤ s.th) (hx : 0 ≤ c.x ∧ c.x < s.tw) (hy : 0 ≤ c.y ∧ c.y < s.th) :
    0 ≤ (vdDown s c).x ∧ (vdDown s c).x < s.tw ∧ 0 ≤ (vdDown s c).y ∧ (vdDown s c).y < s.th := by
  unfold vdDown; split <;> simp only <;> omega
theorem vdUp_page (s : Scr) (c : Car) (h1 : 1 ≤ s.th) (hx : 0 ≤ c.x ∧ c.x < s.tw) (hy : 0 ≤ c.y ∧ c.y < s.th) :
    0 ≤ (vdUp s c).x ∧ (vdUp s c).x < s.tw ∧ 0 ≤ (vdUp s c).y ∧ (vdUp s c).y < s.th := by
  unfold vdUp satSub sat; split <;> simp only <;> omega
theorem vdRight_page (s : Scr) (c : Car) (h1 : 1 ≤ s.th) (hw : 1 ≤ s.tw) (hx : 0 ≤ c.x ∧ c.x < s.tw) (hy : 0 ≤ c.y ∧ c.y < s.th) :
    0 ≤ (vdRight s c).x ∧ (vdRight s c).x < s.tw ∧ 0 ≤ (vdRight s c).y ∧ (vdRight s c).y < s.th := by
  unfold vdRight
  split
  · exact vdDown_page s _ h1 (by simp only; omega) hy
  · simp only; omega
theorem vdLeft_page (s : Scr) (c : Car) (h1 : 1 ≤ s.th) (hw : 1 ≤ s.tw) (hx : 0 ≤ c.x ∧ c.x < s.tw) (hy : 0 ≤ c.y ∧ c.y < s.th) :
    0 ≤ (vdLeft s c).x ∧ (vdLeft s c).x < s.tw ∧ 0 ≤ (vdLeft s c).y ∧ (vdLeft s c).y < s.th := by
  unfold vdLeft satSub sat
  split
  · simp only; omega
  · exact vdUp_page s _ h1 (by simp only; omega) hy

theorem goodF_of_page (st : OSt) (c' : Car) (b : Bool) (h : GoodF st)
    (hp : 0 ≤ c'.x ∧ c'.x < st.s.tw ∧ 0 ≤ c'.y ∧ c'.y < st.s.th) : GoodF { s := st.s, c := c', esc := b } :=
  goodF_cur st c' b h hp.1 hp.2.1 hp.2.2.1 hp.2.2.2

/-- form feed of the page emulations: `reset_terminal`, cursor home; sizes untouched -/
theorem goodF_reset (st : OSt) (b : Bool) (h : GoodF st) :
    GoodF { s := resetTerminal st.s, c := { x := 0, y := 0, ins := st.c.ins }, esc := b } := by
  obtain ⟨⟨g1, g2, g3⟩, ⟨f1, f2⟩⟩ := h
  have := g1.tw1; have := g1.th1; have := g1.th2
  refine ⟨⟨resetTerminal_ok _ g1, ?_, ?_⟩, ⟨f1, f2⟩⟩
  · simp only [CurOk, resetTerminal]; omega
  · simp only [InScr, Scr.fv, satSub, sat, resetTerminal, f1]; omega

theorem goodF_x0 (st : OSt) (b : Bool) (h : GoodF st) :
    GoodF { s := st.s, c := { x := 0, y := st.c.y, ins := st.c.ins }, esc := b } := by
  have hp := cur_in_page st h
  have := h.1.1.tw1
  exact goodF_cur st _ b h (Int.le_refl 0) (by show (0 : Int) < st.s.tw; omega) hp.2.2.1 hp.2.2.2

theorem goodF_home (st : OSt) (b : Bool) (h : GoodF st) :
    GoodF { s := st.s, c := { x := st.s.upperLeft.1, y := st.s.upperLeft.2, ins := st.c.ins }, esc := b } := by
  have hfv := fixed_fv st h
  have := h.1.1.tw1; have := h.1.1.th1
  exact goodF_cur st _ b h (Int.le_refl 0) (by show (0 : Int) < st.s.tw; omega)
    (by show 0 ≤ st.s.fv; omega) (by show st.s.fv < st.s.th; omega)

theorem viewdataStep_good (st : OSt) (ch : Char) (h : GoodF st) : okOrOv (viewdataStep st ch) GoodFR := by
  have hp := cur_in_page st h
  have hfv := fixed_fv st h
  have g1 := h.1.1
  have := g1.tw1; have := g1.th1
  unfold viewdataStep
  simp only []
  repeat' (first | (apply okOrOv_ite <;> intro _))
  all_goals first
    | exact h
    | exact goodF_of_page st _ st.esc h (vdLeft_page _ _ g1.th1 g1.tw1 ⟨hp.1, hp.2.1⟩ ⟨hp.2.2.1, hp.2.2.2⟩)
    | exact goodF_of_page st _ st.esc h (vdRight_page _ _ g1.th1 g1.tw1 ⟨hp.1, hp.2.1⟩ ⟨hp.2.2.1, hp.2.2.2⟩)
    | exact goodF_of_page st _ st.esc h (vdDown_page _ _ g1.th1 ⟨hp.1, hp.2.1⟩ ⟨hp.2.2.1, hp.2.2.2⟩)
    | exact goodF_of_page st _ st.esc h (vdUp_page _ _ g1.th1 ⟨hp.1, hp.2.1⟩ ⟨hp.2.2.1, hp.2.2.2⟩)
    | exact goodF_reset st st.esc h
    | exact goodF_x0 st st.esc h
    | exact goodF_home st st.esc h

theorem oliftC_limit_goodF (st : OSt) (c0 : Car) (h : GoodF st) (hb : st.s.bh ≤ 1073741854) :
    okOrOv (oliftC st (limit st.s c0)) GoodFR := by
  have hl := oliftC_limit_good st c0 h.1 hb
  cases hlc : limit st.s c0 with
  | error e => simp only [oliftC, hlc] at hl ⊢; exact hl
  | ok c' => simp only [oliftC, hlc] at hl ⊢; exact ⟨hl, h.2⟩

theorem mode7Step_good (st : OSt) (ch : Char) (h : GoodF st) (hb : st.s.bh ≤ 1073741854) :
    okOrOv (mode7Step st ch) GoodFR := by
  have hp := cur_in_page st h
  have hfv := fixed_fv st h
  have g1 := h.1.1
  have := g1.tw1; have := g1.th1
  unfold mode7Step m7Right m7Left
  simp only [index]
  repeat' (first | (apply okOrOv_ite <;> intro _) | split)
  all_goals first
    | exact h
    | exact oliftC_limit_goodF st _ h hb
    | exact goodF_of_page st _ st.esc h (vdUp_page _ _ g1.th1 ⟨hp.1, hp.2.1⟩ ⟨hp.2.2.1, hp.2.2.2⟩)
    | exact goodF_of_page st _ st.esc h (vdUp_page _ _ g1.th1 (by simp only; omega) ⟨hp.2.2.1, hp.2.2.2⟩)
    | exact goodF_reset st st.esc h
    | exact goodF_of_page st _ st.esc h ⟨by simp only [satSub, sat]; omega, by simp only [satSub, sat]; omega, hp.2.2.1, hp.2.2.2⟩
    | exact goodF_of_page st _ st.esc h ⟨by simp only; omega, by simp only; omega, hp.2.2.1, hp.2.2.2⟩
    | exact goodF_x0 st st.esc h
    | exact goodF_home st st.esc h

theorem ostep_good (e : Emu2) (st : OSt) (ch : Char) (h : GoodO st) (hf : e = .viewdata ∨ e = .mode7 → Fixed st) :
    okOrOv (ostep e st ch) (fun r => GoodO r.1 ∧ (e = .viewdata ∨ e = .mode7 → Fixed r.1)) := by
  unfold ostep
  apply okOrOv_ite
  · intro _; exact ⟨_, rfl⟩
  · intro hr
    have hb := rangeOk_bh st.s st.c h.1 (Classical.not_not.mp hr)
    cases e with
    | ascii => exact okOrOv_mono (asciiStep_good st ch h hb) (fun r hr => ⟨hr, fun hh => by cases hh <;> contradiction⟩)
    | atascii => exact okOrOv_mono (atasciiStep_good st ch h hb) (fun r hr => ⟨hr, fun hh => by cases hh <;> contradiction⟩)
    | petscii => exact okOrOv_mono (petsciiStep_good st ch h hb) (fun r hr => ⟨hr, fun hh => by cases hh <;> contradiction⟩)
    | viewdata => exact okOrOv_mono (viewdataStep_good st ch ⟨h, hf (Or.inl rfl)⟩) (fun r hr => ⟨hr.1, fun _ => hr.2⟩)
    | mode7 => exact okOrOv_mono (mode7Step_good st ch ⟨h, hf (Or.inr rfl)⟩ hb) (fun r hr => ⟨hr.1, fun _ => hr.2⟩)

theorem orun_good (e : Emu2) : ∀ (cs : List Char) (st : OSt), GoodO st → (e = .viewdata ∨ e = .mode7 → Fixed st) →
    okOrOv (orun e st cs) (fun st' => GoodO st' ∧ (e = .viewdata ∨ e = .mode7 → Fixed st')) := by
  intro cs
  induction cs with
  | nil => intro st h hf; exact ⟨h, hf⟩
  | cons ch rest ih =>
    intro st h hf
    unfold orun
    have h2 := ostep_good e st ch h hf
    cases hs : ostep e st ch with
    | error e => rw [hs] at h2; exact h2
    | ok r => rw [hs] at h2; obtain ⟨st', out⟩ := r; exact ih st' h2.1 h2.2

theorem initO_good (w h : Int) (hw1 : 1 ≤ w) (hw2 : w ≤ 132) (hh1 : 1 ≤ h) (hh2 : h ≤ 60) :
    GoodO (initO w h) ∧ Fixed (initO w h) := by
  have hg := initSt_good w h hw1 hw2 hh1 hh2
  exact ⟨⟨hg.1, hg.2.1, hg.2.2 rfl⟩, ⟨rfl, rfl⟩⟩

/-! ## the page emulations never touch the terminal size -/
def okThen {α : Type} (r : Res α) (P : α → Prop) : Prop :=
  match r with
  | .ok a => P a
  | .error _ => True
theorem okThen_ite {α : Type} {c : Prop} [Decidable c] {a b : Res α} {P : α → Prop}
    (ha : c → okThen a P) (hb : ¬ c → okThen b P) : okThen (if c then a else b) P := by
  by_cases h : c
  · rw [if_pos h]; exact ha h
  · rw [if_neg h]; exact hb h

def SameSize (st : OSt) (r : OSt × Out) : Prop := r.1.s.tw = st.s.tw ∧ r.1.s.th = st.s.th

theorem oliftC_same (st : OSt) (r : Res Car) : okThen (oliftC st r) (SameSize st) := by
  cases r with
  | ok c => exact ⟨rfl, rfl⟩
  | error e => trivial

theorem page_step_same (e : Emu2) (he : e = .viewdata ∨ e = .mode7) (st : OSt) (ch : Char) :
    okThen (ostep e st ch) (SameSize st) := by
  unfold ostep
  apply okThen_ite
  · intro _; trivial
  · intro _
    rcases he with he | he <;> subst he
    · unfold viewdataStep
      simp only []
      repeat' (first | (apply okThen_ite <;> intro _))
      all_goals exact ⟨rfl, rfl⟩
    · unfold mode7Step
      simp only []
      repeat' (first | (apply okThen_ite <;> intro _))
      all_goals first | exact ⟨rfl, rfl⟩ | exact oliftC_same _ _

theorem page_run_same (e : Emu2) (he : e = .viewdata ∨ e = .mode7) : ∀ (cs : List Char) (st : OSt),
    okThen (orun e st cs) (fun st' => st'.s.tw = st.s.tw ∧ st'.s.th = st.s.th) := by
  intro cs
  induction cs with
  | nil => intro st; exact ⟨rfl, rfl⟩
  | cons ch rest ih =>
    intro st
    unfold orun
    have h2 := page_step_same e he st ch
    cases hs : ostep e st ch with
    | error e => trivial
    | ok r =>
      rw [hs] at h2
      obtain ⟨st', out⟩ := r
      have h3 := ih st'
      show okThen (orun e st' rest) _
      cases hr : orun e st' rest with
      | error e => trivial
      | ok st'' =>
        rw [hr] at h3
        exact ⟨h3.1.trans h2.1, h3.2.trans h2.2⟩

end IcyVerif.Term
