import IcyVerif.Lemmas.ArtAnsiXComp
import IcyVerif.Lemmas.ArtAnsiRows
/-! # The ANSI writer row by row against the reader, for ALL colours (C04, `ansi_rt_partial₄`)

As `ArtAnsiRows.lean`, with the reader's palette threaded through the rows.  `RowsOkX … Pf` speaks about the palette `Pf`
the reader ends with; facts established earlier survive because the palette only grows. -/
set_option linter.unusedSimpArgs false
namespace IcyVerif.ArtIO
open IcyVerif.Gen.Art

/-- a cell that reads back as a default blank without changing what is displayed: blank on black, not blinking -/
def TrimCellX (pal : List Rgb) (c : Cell) : Prop := Blank c.ch ∧ getRgb pal c.attr.bg = black ∧ c.attr.fl.blink = false

theorem skip_trimX {pal : List Rgb} {c : Cell} (h : SkipCellX pal c) : TrimCellX pal c := ⟨Or.inl h.1, h.2.1, h.2.2⟩

/-- `trim_sound` on an arbitrary palette: the row keeps all its cells, or at least two fewer, and then everything dropped
    is a blank on a black background that does not blink -/
theorem ansiRowLen_specX (o : AnsiOpts) (pal : List Rgb) (w : Nat) (hw : 0 < w) (row : List Cell) :
    1 ≤ ansiRowLen o pal w row ∧ ansiRowLen o pal w row ≤ w ∧
    (ansiRowLen o pal w row = w ∨
      (ansiRowLen o pal w row + 2 ≤ w ∧ ∀ i, ansiRowLen o pal w row ≤ i → i < w → TrimCellX pal (row.getD i defaultCell))) := by
  obtain ⟨h1, h2, h3⟩ := ansiRowLen_spec' o pal w hw row
  refine ⟨h1, h2, h3.elim Or.inl (fun h => Or.inr ⟨h.1, ?_⟩)⟩
  intro i hi1 hi2
  obtain ⟨t1, t2, t3⟩ := h.2.2 i hi1 hi2
  exact ⟨t1, by rw [t2]; exact h.2.1, t3⟩

/-- the rows of a picture next to the item rows the reader performs for them; `Pf` = the reader's final palette -/
inductive RowsOkX (o : AnsiOpts) (pal Pf : List Rgb) (w : Nat) : List (List Cell) → List (List (Option Cell)) → Prop
  | nil : RowsOkX o pal Pf w [] []
  | cons (row : List Cell) (items : List (Option Cell)) (rows : List (List Cell)) (irows : List (List (Option Cell))) :
      items.length = ansiRowLen o pal w row → ItemsOkX pal Pf 0 w (row.take (ansiRowLen o pal w row)) items →
      RowsOkX o pal Pf w rows irows → RowsOkX o pal Pf w (row :: rows) (items :: irows)

theorem RowsOkX.mono {o : AnsiOpts} {pal P Q : List Rgb} {w : Nat} {rows : List (List Cell)} {irows : List (List (Option Cell))}
    (h : RowsOkX o pal P w rows irows) (hq : P <+: Q) : RowsOkX o pal Q w rows irows := by
  induction h with
  | nil => exact RowsOkX.nil
  | cons row items rows irows h1 h2 _ ih => exact RowsOkX.cons row items rows irows h1 (h2.mono hq) ih

theorem RowsOkX.length_eq {o : AnsiOpts} {pal Pf : List Rgb} {w : Nat} {rows : List (List Cell)} {irows : List (List (Option Cell))}
    (h : RowsOkX o pal Pf w rows irows) : irows.length = rows.length := by
  induction h with
  | nil => rfl
  | cons _ _ _ _ _ _ _ ih => simp [ih]

theorem RowsOkX.get {o : AnsiOpts} {pal Pf : List Rgb} {w : Nat} {rows : List (List Cell)} {irows : List (List (Option Cell))}
    (h : RowsOkX o pal Pf w rows irows) : ∀ y, y < rows.length →
      (irows.getD y []).length = ansiRowLen o pal w (rows.getD y []) ∧
      ItemsOkX pal Pf 0 w ((rows.getD y []).take (ansiRowLen o pal w (rows.getD y []))) (irows.getD y []) := by
  induction h with
  | nil => intro y hy; simp at hy
  | cons row items rows irows h1 h2 _ ih =>
    intro y hy
    cases y with
    | zero => exact ⟨by simpa using h1, by simpa using h2⟩
    | succ y' => simpa using ih y' (by simp at hy; omega)

theorem itemsOk_skipsX {pal Pf : List Rgb} {x w : Nat} {cells : List Cell} {items : List (Option Cell)} (hl : items.length = cells.length)
    (h : ItemsOkX pal Pf x w cells items) : ∀ i, i < items.length → items.getD i none = none → x + i + 1 < w := by
  intro i hi hn
  rcases h i (by omega) with ⟨l, h', _⟩ | ⟨_, _, h3⟩
  · rw [hn] at h'; cases h'
  · exact h3

theorem RowsOkX.fits {o : AnsiOpts} {pal Pf : List Rgb} {w : Nat} (hw : 0 < w) {rows : List (List Cell)} {irows : List (List (Option Cell))}
    (h : RowsOkX o pal Pf w rows irows) (hfull : ∀ r ∈ rows, r.length = w) :
    ∀ r ∈ irows, r.length ≤ w ∧ RowSkipsInside w r := by
  induction h with
  | nil => intro r hr; cases hr
  | cons row items rows irows h1 h2 _ ih =>
    intro r hr
    rcases List.mem_cons.1 hr with e | hm
    · subst e
      obtain ⟨l1, l2, _⟩ := ansiRowLen_specX o pal w hw row
      have hrow : row.length = w := hfull row List.mem_cons_self
      have htl : (row.take (ansiRowLen o pal w row)).length = ansiRowLen o pal w row := by simp; omega
      refine ⟨by omega, ?_⟩
      intro i hi hn
      have := itemsOk_skipsX (by rw [htl]; exact h1) h2 i hi hn
      omega
    · exact ih (fun q hq => hfull q (List.mem_cons_of_mem _ hq)) r hm

/-- all rows of the compressing writer: the reader performs the item rows; its palette grows by at most two colours per cell -/
theorem rows_compX (o : AnsiOpts) (pal : List Rgb) (hpal : PalBytes pal) (im : IceMode) (ic : Bool) (hic : ic = decide (im = .ice))
    (w ht : Nat) (hw0 : 0 < w) (hw : w ≤ 999) (hl : o.longerTerminalOutput = false) :
    ∀ (rows : List (List Cell)) (st : AnsiState) (R : RdSt) (y : Nat) (first : Bool) (p : AnsiP) (core : Core),
    (∀ r ∈ rows, r.length = w) → (∀ r ∈ rows, ∀ c ∈ r, CellDomX o ic c) → RelX ic st.isBlink st R.1 R.2 → CInvX ic R w p core →
    (rows ≠ [] → core.scr.cx = 0) → y + rows.length = ht →
    ∃ (irows : List (List (Option Cell))) (Rf : RdSt), RowsOkX o pal Rf.2 w rows irows ∧ R.2 <+: Rf.2 ∧ Rf.2.length ≤ R.2.length + 2 * w * rows.length ∧
      (ansiRun p core (genLines o w ht (genCells o pal im w rows st) y first)).2.scr = picItems w irows core.scr ∧
      (ansiRun p core (genLines o w ht (genCells o pal im w rows st) y first)).2.stuck = false ∧
      (ansiRun p core (genLines o w ht (genCells o pal im w rows st) y first)).2.pal = Rf.2 ∧
      (ansiRun p core (genLines o w ht (genCells o pal im w rows st) y first)).1.st = .ground := by
  intro rows
  induction rows with
  | nil =>
    intro st R y first p core _ _ _ hinv _ _
    exact ⟨[], R, RowsOkX.nil, List.prefix_refl _, by simp, rfl, hinv.base.ns, hinv.pal, hinv.base.ag⟩
  | cons row rest ih =>
    intro st R y first p core hfull hd hrel hinv hcx hy
    have hrow : row.length = w := hfull row List.mem_cons_self
    obtain ⟨l1, l2, l3⟩ := ansiRowLen_specX o pal w hw0 row
    have htl : (row.take (ansiRowLen o pal w row)).length = ansiRowLen o pal w row := by simp; omega
    obtain ⟨Re, G1, G2⟩ := lineOk_genX o pal hpal im ic hic row (hd row List.mem_cons_self) (ansiRowLen o pal w row) 0 st R (by omega) hrel
    unfold genCells
    generalize hg : genCellsRow o pal im row (ansiRowLen o pal w row) 0 st = res at G1 G2
    obtain ⟨line, st1⟩ := res
    simp only [List.drop_zero] at G1 G2 ⊢
    have hll : line.length = ansiRowLen o pal w row := by rw [G1.length_eq, htl]
    have hx0 : core.scr.cx = 0 := hcx (by simp)
    obtain ⟨gr1, gr2⟩ := G1.grow
    obtain ⟨items, I1, I2, I3, I4⟩ := genLine_itemsX o ic pal w hw line.length (row.take (ansiRowLen o pal w row)) line R Re 0 p core (Nat.le_refl _) G1
      (by rw [htl]; omega) hinv (fun _ => hx0)
    have hil : items.length = ansiRowLen o pal w row := by rw [I1, htl]
    unfold genLines
    simp only [hl, Bool.false_eq_true, if_false, List.nil_append, Bool.not_false, true_and]
    have hsk : RowSkipsInside w items := by
      intro i hi hn
      have := itemsOk_skipsX (by rw [I1]) I2 i hi hn
      omega
    have hmore : (y + 1 < ht) ↔ (!rest.isEmpty) = true := by
      cases rest with
      | nil => simp at hy ⊢; omega
      | cons a b => simp at hy ⊢; omega
    have hrowscr : ∃ p2 core2, ansiRun p core (genLine o w line.length 0 line ++
          (if line.length < w ∧ y + 1 < ht then (if o.compress = true ∧ w ≤ line.length + 1 then [32] else [13, 10]) else [])) = (p2, core2) ∧
        core2.scr = rowItems w items (!rest.isEmpty) core.scr ∧ CInvX ic Re w p2 core2 := by
      rw [ansiRun_append]
      generalize hr : ansiRun p core (genLine o w line.length 0 line) = res at I3 I4
      obtain ⟨p1, core1⟩ := res
      simp only [] at I3 I4 ⊢
      unfold rowItems
      by_cases hshort : line.length < w ∧ y + 1 < ht
      · rw [if_pos hshort]
        have hnot : ¬ (o.compress = true ∧ w ≤ line.length + 1) := by
          intro ⟨_, h2⟩
          rcases l3 with e | ⟨e, _⟩ <;> omega
        rw [if_neg hnot, ansiRun_crlf p1 core1 I4.base.ns I4.base.ag]
        have hc : items.length < w ∧ (!rest.isEmpty) = true := ⟨by omega, hmore.1 hshort.2⟩
        rw [if_pos hc]
        refine ⟨_, _, rfl, by show core1.scr.exec Op.nl = _; rw [I3], ?_⟩
        exact ⟨⟨I4.base.ns, I4.base.ag, I4.base.ice, I4.base.attr, by show (core1.scr.exec Op.nl).w = w; rw [exec_w]; exact I4.base.sw, I4.base.th⟩, I4.pal⟩
      · rw [if_neg hshort, ansiRun_nil]
        have hc : ¬ (items.length < w ∧ (!rest.isEmpty) = true) := by
          intro ⟨h1, h2⟩; exact hshort ⟨by omega, hmore.2 h2⟩
        rw [if_neg hc]
        exact ⟨_, _, rfl, I3, I4⟩
    obtain ⟨p2, core2, e2, s2, inv2⟩ := hrowscr
    rw [ansiRun_append, e2]
    simp only []
    have hsw : core.scr.w = w := hinv.base.sw
    have Rs := rowItems_spec core.scr items (!rest.isEmpty) hx0 (by rw [hsw]; exact hw0) (by rw [hsw]; omega)
      (by rw [hsw]; omega) (by rw [hsw]; exact hsk)
    rw [hsw] at Rs
    have hcx2 : rest ≠ [] → core2.scr.cx = 0 := by
      intro hne
      rw [s2]
      have : (!rest.isEmpty) = true := by cases rest <;> simp_all
      exact (Rs.pos this).1
    obtain ⟨irows, Rf, J1, J2, J3, J4, J5, J6, J7⟩ := ih st1 Re (y + 1) false p2 core2
      (fun r hr => hfull r (List.mem_cons_of_mem _ hr)) (fun r hr => hd r (List.mem_cons_of_mem _ hr)) G2 inv2 hcx2
      (by simp at hy; omega)
    refine ⟨items :: irows, Rf, RowsOkX.cons row items rest irows hil (I2.mono J2) J1, List.IsPrefix.trans gr1 J2, ?_, ?_, J5, J6, J7⟩
    · rw [htl] at gr2
      have : 2 * ansiRowLen o pal w row ≤ 2 * w := by omega
      simp only [List.length_cons]
      rw [Nat.mul_add]
      omega
    · rw [J4, s2]
      have hemp : irows.isEmpty = rest.isEmpty := by
        have := J1.length_eq
        cases irows <;> cases rest <;> simp_all
      show _ = picItems w irows (rowItems w items (!irows.isEmpty) core.scr)
      rw [hemp]

/-! ### longer-terminal output -/

theorem head_readX (ic : Bool) (R : RdSt) (w : Nat) (p : AnsiP) (core : Core) (y : Nat) (first : Bool) (hinv : CInvX ic R w p core)
    (hA : first = true → R.1 = defaultAttr) (hy : y + 1 < 1000) :
    ∃ p1 core1, ansiRun p core ((if first = true then csi [0] 109 else []) ++ csi [y + 1] 72) = (p1, core1) ∧
      core1.scr = core.scr.gotoRow y ∧ CInvX ic R w p1 core1 := by
  obtain ⟨hb, hp⟩ := hinv
  rw [ansiRun_append]
  cases first with
  | false =>
    simp only [Bool.false_eq_true, if_false, ansiRun_nil]
    rw [ansiRun_cupRow p core y hb.ns hb.ag hy]
    exact ⟨_, _, rfl, rfl, ⟨hb.ns, rfl, hb.ice, hb.attr, hb.sw, hb.th⟩, hp⟩
  | true =>
    simp only [if_true]
    rw [ansiRun_sgr0 p core hb.ns hb.ag]
    have ha : core.attr = defaultAttr := by rw [hb.attr]; exact hA rfl
    have e : sgr core [0] = { core with attr := defaultAttr } := by
      simp [sgr, sgrLoop, sgrOne]
    rw [e]
    simp only []
    have hc := ansiRun_cupRow { p with st := .ground } { core with attr := defaultAttr } y hb.ns rfl hy
    rw [hc]
    exact ⟨_, _, rfl, rfl, ⟨hb.ns, rfl, hb.ice, (hA rfl).symm, hb.sw, hb.th⟩, hp⟩

/-- all rows in longer-terminal mode: the reader performs the item rows, each at column 0 of its own row -/
theorem rows_longerX (o : AnsiOpts) (pal : List Rgb) (hpal : PalBytes pal) (im : IceMode) (ic : Bool) (hic : ic = decide (im = .ice))
    (w ht : Nat) (hw0 : 0 < w) (hw : w ≤ 999) (hht : ht ≤ 999) (hl : o.longerTerminalOutput = true) :
    ∀ (rows : List (List Cell)) (st : AnsiState) (R : RdSt) (y : Nat) (first : Bool) (p : AnsiP) (core : Core),
    (∀ r ∈ rows, r.length = w) → (∀ r ∈ rows, ∀ c ∈ r, CellDomX o ic c) → RelX ic st.isBlink st R.1 R.2 → CInvX ic R w p core →
    (first = true → R.1 = defaultAttr) → y + rows.length = ht →
    ∃ (irows : List (List (Option Cell))) (Rf : RdSt), RowsOkX o pal Rf.2 w rows irows ∧ R.2 <+: Rf.2 ∧ Rf.2.length ≤ R.2.length + 2 * w * rows.length ∧
      (ansiRun p core (genLines o w ht (genCells o pal im w rows st) y first)).2.scr = picItemsL irows y core.scr ∧
      (ansiRun p core (genLines o w ht (genCells o pal im w rows st) y first)).2.stuck = false ∧
      (ansiRun p core (genLines o w ht (genCells o pal im w rows st) y first)).2.pal = Rf.2 ∧
      (ansiRun p core (genLines o w ht (genCells o pal im w rows st) y first)).1.st = .ground := by
  intro rows
  induction rows with
  | nil =>
    intro st R y first p core _ _ _ hinv _ _
    exact ⟨[], R, RowsOkX.nil, List.prefix_refl _, by simp, rfl, hinv.base.ns, hinv.pal, hinv.base.ag⟩
  | cons row rest ih =>
    intro st R y first p core hfull hd hrel hinv hA hy
    have hrow : row.length = w := hfull row List.mem_cons_self
    obtain ⟨l1, l2, l3⟩ := ansiRowLen_specX o pal w hw0 row
    have htl : (row.take (ansiRowLen o pal w row)).length = ansiRowLen o pal w row := by simp; omega
    obtain ⟨Re, G1, G2⟩ := lineOk_genX o pal hpal im ic hic row (hd row List.mem_cons_self) (ansiRowLen o pal w row) 0 st R (by omega) hrel
    unfold genCells
    generalize hg : genCellsRow o pal im row (ansiRowLen o pal w row) 0 st = res at G1 G2
    obtain ⟨line, st1⟩ := res
    simp only [List.drop_zero] at G1 G2 ⊢
    have hll : line.length = ansiRowLen o pal w row := by rw [G1.length_eq, htl]
    have hylt : y + 1 < 1000 := by simp at hy; omega
    obtain ⟨gr1, gr2⟩ := G1.grow
    obtain ⟨p1, core1, e1, s1, inv1⟩ := head_readX ic R w p core y first hinv hA hylt
    have hx0 : core1.scr.cx = 0 := by rw [s1]; rfl
    obtain ⟨items, I1, I2, I3, I4⟩ := genLine_itemsX o ic pal w hw line.length (row.take (ansiRowLen o pal w row)) line R Re 0 p1 core1 (Nat.le_refl _) G1
      (by rw [htl]; omega) inv1 (fun _ => hx0)
    have hil : items.length = ansiRowLen o pal w row := by rw [I1, htl]
    unfold genLines
    simp only [hl, if_true, Bool.not_true, Bool.false_eq_true, false_and, if_false, List.append_nil]
    rw [List.append_assoc, ansiRun_append, e1]
    simp only []
    rw [ansiRun_append]
    generalize hr : ansiRun p1 core1 (genLine o w line.length 0 line) = res at I3 I4
    obtain ⟨p2, core2⟩ := res
    simp only [] at I3 I4 ⊢
    obtain ⟨irows, Rf, J1, J2, J3, J4, J5, J6, J7⟩ := ih st1 Re (y + 1) false p2 core2
      (fun r hr => hfull r (List.mem_cons_of_mem _ hr)) (fun r hr => hd r (List.mem_cons_of_mem _ hr)) G2 I4 (fun h => by cases h)
      (by simp at hy; omega)
    refine ⟨items :: irows, Rf, RowsOkX.cons row items rest irows hil (I2.mono J2) J1, List.IsPrefix.trans gr1 J2, ?_, ?_, J5, J6, J7⟩
    · rw [htl] at gr2
      have : 2 * ansiRowLen o pal w row ≤ 2 * w := by omega
      simp only [List.length_cons]
      rw [Nat.mul_add]
      omega
    · rw [J4, I3, s1]
      rfl

end IcyVerif.ArtIO
