import IcyVerif.Lemmas.LoadersBase
set_option linter.unusedSimpArgs false
set_option linter.unusedVariables false
/-! XBin loader never panics (C02). -/
namespace IcyVerif.Loaders
open IcyVerif.Bytes IcyVerif.Bytes.Res IcyVerif.Gen IcyVerif.Gen.Loaders

/-- invariant of the XBin readers: column in `[0, 4096)`, row `>= 0` -/
def XbPos (p : Pos) : Prop := 0 ≤ p.x ∧ p.x < 4096 ∧ 0 ≤ p.y

theorem xbOffRun_sat (d : Bytes) (bw : Int) (hbw : bw ≤ 4096) :
    ∀ (n o : Nat) (p : Pos) (g : Geo), XbPos p → p.y + n < 2147483647 →
      (xbOffRun d bw n o p g).Sat (fun r => o ≤ r.1 ∧ XbPos r.2.1 ∧ r.2.1.y ≤ p.y + n) := by
  intro n
  induction n with
  | zero => intro o p g hp hy; simp only [xbOffRun, sat_ok]; exact ⟨Nat.le_refl _, hp, by omega⟩
  | succ n ih =>
    intro o p g hp hy
    obtain ⟨hx0, hx1, hy0⟩ := hp
    unfold xbOffRun
    split
    · simp only [sat_ok]; exact ⟨Nat.le_refl _, ⟨hx0, hx1, hy0⟩, by omega⟩
    · rename_i hlen
      apply Sat.bind (rd_sat (by omega)); intro _ _
      apply Sat.bind (rd_sat (by omega)); intro _ _
      apply Sat.bind (advance_sat (B := 4096) (by omega) hbw (by omega) (by omega)); intro q hq
      obtain ⟨q1, q2, q3, q4, q5⟩ := hq
      apply Sat.mono (ih (o + 2) q _ ⟨q3 hx0, q2, by omega⟩ (by omega))
      intro r hr
      exact ⟨by omega, hr.2.1, by omega⟩

theorem xbOneRun_sat (d : Bytes) (bw : Int) (hbw : bw ≤ 4096) :
    ∀ (n o : Nat) (p : Pos) (g : Geo), XbPos p → p.y + n < 2147483647 →
      (xbOneRun d bw n o p g).Sat (fun r => o ≤ r.1 ∧ XbPos r.2.1 ∧ r.2.1.y ≤ p.y + n) := by
  intro n
  induction n with
  | zero => intro o p g hp hy; simp only [xbOneRun, sat_ok]; exact ⟨Nat.le_refl _, hp, by omega⟩
  | succ n ih =>
    intro o p g hp hy
    obtain ⟨hx0, hx1, hy0⟩ := hp
    unfold xbOneRun
    split
    · simp only [sat_ok]; exact ⟨Nat.le_refl _, ⟨hx0, hx1, hy0⟩, by omega⟩
    · rename_i hlen
      apply Sat.bind (rd_sat (by omega)); intro _ _
      apply Sat.bind (advance_sat (B := 4096) (by omega) hbw (by omega) (by omega)); intro q hq
      obtain ⟨q1, q2, q3, q4, q5⟩ := hq
      apply Sat.mono (ih (o + 1) q _ ⟨q3 hx0, q2, by omega⟩ (by omega))
      intro r hr
      exact ⟨by omega, hr.2.1, by omega⟩

theorem xbFullRun_sat (bw : Int) (hbw : bw ≤ 4096) :
    ∀ (n : Nat) (p : Pos) (g : Geo), XbPos p → p.y + n < 2147483647 →
      (xbFullRun bw n p g).Sat (fun r => XbPos r.1 ∧ r.1.y ≤ p.y + n) := by
  intro n
  induction n with
  | zero => intro p g hp hy; simp only [xbFullRun, sat_ok]; exact ⟨hp, by omega⟩
  | succ n ih =>
    intro p g hp hy
    obtain ⟨hx0, hx1, hy0⟩ := hp
    unfold xbFullRun
    apply Sat.bind (advance_sat (B := 4096) (by omega) hbw (by omega) (by omega)); intro q hq
    obtain ⟨q1, q2, q3, q4, q5⟩ := hq
    apply Sat.mono (ih q _ ⟨q3 hx0, q2, by omega⟩ (by omega))
    intro r hr
    exact ⟨hr.1, by omega⟩

theorem count_le (c : Nat) : (c &&& Xb.readCountMask) + 1 ≤ 64 := by
  have : c &&& Xb.readCountMask ≤ Xb.readCountMask := Nat.and_le_right
  have h63 : Xb.readCountMask = 63 := rfl
  omega

theorem xbCompressed_sat (d : Bytes) (bw bh : Int) (hbw : bw ≤ 4096) (hbh : bh ≤ 65535) :
    ∀ (fuel o : Nat) (p : Pos) (g : Geo), d.size < fuel + o → XbPos p →
      (xbCompressed d bw bh fuel o p g).Sat (fun _ => True) := by
  intro fuel
  induction fuel with
  | zero =>
    intro o p g hf hp
    unfold xbCompressed
    split
    · simp only [sat_ok]
    · rename_i hc
      have hc' : o < d.size ∧ p.y < bh := Decidable.not_not.mp hc
      omega
  | succ fuel ih =>
    intro o p g hf hp
    unfold xbCompressed
    split
    · simp only [sat_ok]
    · rename_i hc
      obtain ⟨ho, hy⟩ : o < d.size ∧ p.y < bh := Decidable.not_not.mp hc
      apply Sat.bind (rd_sat ho); intro c _
      have hcnt := count_le c
      dsimp only
      split
      · apply Sat.bind (xbOffRun_sat d bw hbw _ (o + 1) p g hp (by omega)); intro r hr
        exact ih r.1 r.2.1 r.2.2 (by omega) hr.2.1
      · split
        · split
          · simp only [sat_ok]
          · rename_i ho2
            apply Sat.bind (rd_sat (by omega)); intro _ _
            apply Sat.bind (xbOneRun_sat d bw hbw _ (o + 1 + 1) p g hp (by omega)); intro r hr
            exact ih r.1 r.2.1 r.2.2 (by omega) hr.2.1
        · split
          · simp only [sat_ok]
          · rename_i ho2
            apply Sat.bind (rd_sat (by omega)); intro _ _
            skip
            split
            · simp only [sat_ok]
            · rename_i ho3
              apply Sat.bind (rd_sat (by omega)); intro _ _
              apply Sat.bind (xbFullRun_sat bw hbw _ p g hp (by omega)); intro r hr
              exact ih (o + 1 + 1 + 1) r.1 r.2 (by omega) hr.1

theorem xbUncompressed_sat (d : Bytes) (bw bh : Int) (hbw : bw ≤ 4096) (hbh : bh ≤ 65535) :
    ∀ (fuel o : Nat) (p : Pos) (g : Geo), d.size < fuel + o → XbPos p →
      (xbUncompressed d bw bh fuel o p g).Sat (fun _ => True) := by
  intro fuel
  induction fuel with
  | zero =>
    intro o p g hf hp
    unfold xbUncompressed
    split
    · simp only [sat_ok]
    · rename_i hc
      have hc' : o < d.size ∧ p.y < bh := Decidable.not_not.mp hc
      omega
  | succ fuel ih =>
    intro o p g hf hp
    unfold xbUncompressed
    split
    · simp only [sat_ok]
    · rename_i hc
      obtain ⟨ho, hy⟩ : o < d.size ∧ p.y < bh := Decidable.not_not.mp hc
      split
      · simp only [sat_ok]
      · rename_i h1
        obtain ⟨hx0, hx1, hy0⟩ := hp
        apply Sat.bind (rd_sat (by omega)); intro _ _
        apply Sat.bind (rd_sat (by omega)); intro _ _
        apply Sat.bind (advance_sat (B := 4096) (by omega) hbw (by omega) (by omega)); intro q hq
        obtain ⟨q1, q2, q3, q4, q5⟩ := hq
        exact ih (o + 2) q _ (by omega) ⟨q3 hx0, q2, by omega⟩

theorem xbPalette_sat (d : Bytes) (o : Nat) (has : Bool) (ho : o ≤ d.size) :
    (xbPalette d o has).Sat (fun o' => o' ≤ d.size) := by
  unfold xbPalette
  split
  · simpa using ho
  · split
    · simp only [sat_err]
    · rename_i h
      apply Sat.bind (slice_sat (by omega)); intro _ _
      simp only [sat_pure]; omega

theorem xbFonts_sat (d : Bytes) (o fs : Nat) (has ext : Bool) (ho : o ≤ d.size) :
    (xbFonts d o fs has ext).Sat (fun o' => o' ≤ d.size) := by
  unfold xbFonts
  split
  · simpa using ho
  · cases ext with
    | false =>
      simp only [Bool.false_eq_true, if_false]
      split
      · exact True.intro
      · rename_i h
        apply Sat.bind (slice_sat (by omega)); intro _ _
        simp only [sat_pure]; omega
    | true =>
      simp only [if_true]
      split
      · exact True.intro
      · rename_i h
        apply Sat.bind (slice_sat (by omega)); intro _ _
        apply Sat.bind (slice_sat (by omega)); intro _ _
        simp only [sat_pure]; omega

theorem loadXb_sat (d : Bytes) (sauce : Option (Nat × Nat)) : (loadXb d sauce).Sat (fun _ => True) := by
  unfold loadXb
  dsimp only
  have hH : Xb.headerSize = 11 := rfl
  have hMax : xbMaxWidth = 4096 := rfl
  split
  · simp only [sat_err]
  · rename_i hlen
    apply Sat.bind (slice_sat (by omega)); intro _ _
    split
    · simp only [sat_err]
    · apply Sat.bind (rdU16_sat (by omega)); intro w hw
      split
      · simp only [sat_err]
      · rename_i hwr
        apply Sat.bind (rdU16_sat (by omega)); intro h hh
        apply Sat.bind (rd_sat (by omega)); intro fs _
        try dsimp only
        generalize (if fs = 0 then xbDefaultFontSize else fs) = fs'
        split
        · exact True.intro
        · apply Sat.bind (rd_sat (by omega)); intro flags _
          split
          · exact True.intro
          · apply Sat.bind (xbPalette_sat d _ _ (by omega)); intro o1 ho1
            apply Sat.bind (xbFonts_sat d o1 _ _ _ ho1); intro o2 ho2
            apply Sat.bind (slice_sat (by omega)); intro _ _
            have hw' : (w : Int) ≤ 4096 := by omega
            have hh' : (h : Int) ≤ 65535 := by omega
            split
            · apply Sat.bind (xbCompressed_sat _ _ _ hw' hh' _ 0 ⟨0, 0⟩ _ (by omega) ⟨by decide, by decide, by decide⟩)
              intro _ _; trivial
            · apply Sat.bind (xbUncompressed_sat _ _ _ hw' hh' _ 0 ⟨0, 0⟩ _ (by omega) ⟨by decide, by decide, by decide⟩)
              intro _ _; trivial

end IcyVerif.Loaders
