import IcyVerif.Lemmas.Sixel
import IcyVerif.Lemmas.SixelRaster
set_option linter.unusedSimpArgs false
set_option linter.unusedVariables false
/-! The sixel cursor moves by at most one per `parse_sixel_data` call, so as long as the repeat counts
    are bounded the three cursor-arithmetic panic sites are out of reach. -/
namespace IcyVerif.Sixel

/-- outcome of a step from a good state whose cursor is far enough from `i32::MAX`:
    the cursor moved by at most `k`, and no panic at all -/
def CapOut (s : St) (k : Nat) : Out St → Prop
  | .ok s' => Good s' ∧ s'.x ≤ s.x + k ∧ s'.y ≤ s.y + k
  | .panic _ => False
  | _ => True

theorem translate_cap {s : St} (g : Good s) (hx : s.x + 1 ≤ i32Max) (hy : s.y * 6 + 6 ≤ i32Max) (ch : Char) :
    CapOut s 1 (translate s ch) := by
  unfold translate
  by_cases h1 : ch.toNat < 63
  · simp only [h1, if_true]; trivial
  simp only [h1, if_false]
  by_cases h2 : s.palLen % 4294967296 = 0
  · have := g.palPos; have := g.palLe; simp only [hugeLimit] at *; omega
  simp only [h2, if_false]
  have h3 : ¬ s.y * 6 + 6 > i32Max := by omega
  simp only [h3, if_false]
  have hg := growRows_spec g.rows g.height (lastLineOf s)
  revert hg
  cases growRows s.rows (lastLineOf s) with
  | ok rows =>
    intro ⟨hr, hl, hlen, _⟩
    simp only [Out.andThen]
    have := pixelLoop_spec (ch.toNat - 63) (s.y * 6) (lastLineOf s) s.x [0, 1, 2, 3, 4, 5] rows hr hl
    revert this
    cases pixelLoop (ch.toNat - 63) (s.y * 6) (lastLineOf s) s.x [0, 1, 2, 3, 4, 5] rows with
    | ok rows' =>
      intro ⟨h1, h2⟩
      simp only
      have h4 : ¬ s.x + 1 > i32Max := by omega
      simp only [h4, if_false]
      exact ⟨⟨h1, by simp only; omega, g.palPos, g.palLe⟩, Nat.le_refl _, by simp only; omega⟩
    | err e => intro h; exact h.elim
    | panic p => intro h; exact h.elim
    | huge => intro _; trivial
  | err e => intro h; exact h.elim
  | panic p => intro h; exact h.elim
  | huge => intro _; trivial

theorem sixelData_cap {s : St} (g : Good s) (hx : s.x + 1 ≤ i32Max) (hy : s.y * 6 + 6 ≤ i32Max) (ch : Char) :
    CapOut s 1 (sixelData s ch) := by
  unfold sixelData
  split
  · exact ⟨⟨g.rows, g.height, g.palPos, g.palLe⟩, by simp only; omega, by simp only; omega⟩
  split
  · exact ⟨⟨g.rows, g.height, g.palPos, g.palLe⟩, by simp only; omega, by simp only; omega⟩
  split
  · have : ¬ s.y + 1 > i32Max := by omega
    simp only [this, if_false]
    exact ⟨⟨g.rows, g.height, g.palPos, g.palLe⟩, by simp only; omega, by simp only; omega⟩
  split
  · exact ⟨⟨g.rows, g.height, g.palPos, g.palLe⟩, by simp only; omega, by simp only; omega⟩
  split
  · exact ⟨⟨g.rows, g.height, g.palPos, g.palLe⟩, by simp only; omega, by simp only; omega⟩
  split
  · exact ⟨g, by omega, by omega⟩
  · exact translate_cap g hx hy ch

theorem repeatN_cap (ch : Char) (n : Nat) {s : St} (g : Good s) (hx : s.x + n ≤ i32Max)
    (hy : (s.y + n) * 6 ≤ i32Max) : CapOut s n (repeatN (fun t => sixelData t ch) n s) := by
  induction n generalizing s with
  | zero => exact ⟨g, Nat.le_refl _, Nat.le_refl _⟩
  | succ n ih =>
    rw [repeatN_succ]
    have h1 := sixelData_cap g (by omega) (by omega) ch
    revert h1
    cases sixelData s ch with
    | ok s1 =>
      intro ⟨g1, hx1, hy1⟩
      simp only [Out.andThen]
      have h2 := ih g1 (by omega) (by omega)
      revert h2
      cases repeatN (fun t => sixelData t ch) n s1 with
      | ok s2 => intro ⟨g2, hx2, hy2⟩; exact ⟨g2, by omega, by omega⟩
      | err e => intro _; trivial
      | panic p => intro h; exact h
      | huge => intro _; trivial
    | err e => intro _; trivial
    | panic p => intro h; exact h.elim
    | huge => intro _; trivial

theorem capOut_mono {s : St} {k k' : Nat} {o : Out St} (h : CapOut s k o) (hk : k ≤ k') : CapOut s k' o := by
  cases o with
  | ok s' => exact ⟨h.1, by have := h.2.1; omega, by have := h.2.2; omega⟩
  | err e => trivial
  | panic p => exact h
  | huge => trivial

/-- continue with a step that does not move the cursor further than `k2` -/
theorem andThen_cap {s : St} {k1 k2 : Nat} {o : Out St} {f : St → Out St} (ho : CapOut s k1 o)
    (hf : ∀ t, Good t → t.x ≤ s.x + k1 → t.y ≤ s.y + k1 → CapOut t k2 (f t)) : CapOut s (k1 + k2) (o.andThen f) := by
  cases o with
  | ok t =>
    have := hf t ho.1 ho.2.1 ho.2.2
    simp only [Out.andThen]
    revert this
    cases f t with
    | ok u => intro ⟨g, hx, hy⟩; exact ⟨g, by have := ho.2.1; omega, by have := ho.2.2; omega⟩
    | err e => intro _; trivial
    | panic p => intro h; exact h
    | huge => intro _; trivial
  | err e => trivial
  | panic p => exact ho
  | huge => trivial

theorem armOK_cap {s : St} {o : Out St} (h : ArmOK s o) : CapOut s 0 o := by
  cases o with
  | ok s' => exact ⟨h.1, by have := h.2.1; omega, by have := h.2.2; omega⟩
  | err e => trivial
  | panic p => exact h
  | huge => trivial

theorem colorArm_cap {s : St} (g : Good s) : CapOut s 0 (colorArm s) := armOK_cap (colorArm_arm g)
theorem sizeArm_cap {s : St} (g : Good s) : CapOut s 0 (sizeArm s) := armOK_cap (sizeArm_arm g)

/-- one `parse_char` moves the cursor by at most `max R 1` when the pending repeat count is ≤ R -/
theorem parseChar_cap {s : St} (g : Good s) (R : Nat) (hn : ∀ n ∈ s.nums, n ≤ R) (hx : s.x + max R 1 ≤ i32Max)
    (hy : (s.y + max R 1) * 6 ≤ i32Max) (ch : Char) : CapOut s (max R 1) (parseChar s ch) := by
  have hR : 1 ≤ max R 1 := by omega
  unfold parseChar
  split
  · exact capOut_mono (sixelData_cap g (by omega) (by omega) ch) hR
  · split
    · exact ⟨⟨g.rows, g.height, g.palPos, g.palLe⟩, by simp only; omega, by simp only; omega⟩
    split
    · exact ⟨⟨g.rows, g.height, g.palPos, g.palLe⟩, by simp only; omega, by simp only; omega⟩
    · have := andThen_cap (f := fun s' => sixelData s' ch) (k2 := 1) (colorArm_cap g)
        (fun t gt h1 h2 => sixelData_cap gt (by omega) (by omega) ch)
      exact capOut_mono this (by omega)
  · split
    · exact ⟨⟨g.rows, g.height, g.palPos, g.palLe⟩, by simp only; omega, by simp only; omega⟩
    split
    · exact ⟨⟨g.rows, g.height, g.palPos, g.palLe⟩, by simp only; omega, by simp only; omega⟩
    · have := andThen_cap (f := fun s' => sixelData s' ch) (k2 := 1) (sizeArm_cap g)
        (fun t gt h1 h2 => sixelData_cap gt (by omega) (by omega) ch)
      exact capOut_mono this (by omega)
  · split
    · exact ⟨⟨g.rows, g.height, g.palPos, g.palLe⟩, by simp only; omega, by simp only; omega⟩
    · split
      · rename_i n hh
        have hnR : n ≤ R := hn n (List.mem_of_mem_head? hh)
        have h1 := repeatN_cap ch n g (by omega) (by omega)
        have := andThen_cap (f := fun s' => Out.ok { s' with state := PState.read }) (k2 := 0) h1
          (fun t gt h1 h2 => ⟨⟨gt.rows, gt.height, gt.palPos, gt.palLe⟩, by simp only; omega, by simp only; omega⟩)
        exact capOut_mono this (by omega)
      · trivial

/-- monitor: at every point of the run all pending `parsed_numbers` (repeat counts, colour registers
    and components, raster sizes) are ≤ R -/
def numsLe (R : Nat) : St → List Char → Bool
  | s, [] => s.nums.all (· ≤ R)
  | s, c :: cs => s.nums.all (· ≤ R) && (match parseChar s c with | .ok s' => numsLe R s' cs | _ => true)

theorem run_cap (R : Nat) (cs : List Char) {s : St} (g : Good s) (hm : numsLe R s cs = true)
    (hx : s.x + cs.length * max R 1 ≤ i32Max) (hy : (s.y + cs.length * max R 1) * 6 ≤ i32Max) :
    CapOut s (cs.length * max R 1) (run s cs) := by
  induction cs generalizing s with
  | nil => exact ⟨g, by simp, by simp⟩
  | cons c cs ih =>
    rw [run_cons]
    simp only [numsLe, Bool.and_eq_true, List.all_eq_true, decide_eq_true_eq] at hm
    simp only [List.length_cons, Nat.succ_mul] at hx hy ⊢
    have h1 := parseChar_cap g R hm.1 (by omega) (by omega) c
    have hm2 := hm.2
    revert h1 hm2
    cases parseChar s c with
    | ok s1 =>
      intro ⟨g1, hx1, hy1⟩ hm2
      simp only [Out.andThen]
      have h2 := ih g1 hm2 (by omega) (by omega)
      revert h2
      cases run s1 cs with
      | ok s2 => intro ⟨g2, hx2, hy2⟩; exact ⟨g2, by omega, by omega⟩
      | err e => intro _; trivial
      | panic p => intro h; exact h
      | huge => intro _; trivial
    | err e => intro _ _; trivial
    | panic p => intro h; exact h.elim
    | huge => intro _ _; trivial

/-! ### the cursor overflow is real: a closed form of `!<m>-` -/
theorem sixelData_dash (s : St) (h : s.y + 1 ≤ i32Max) : sixelData s '-' = .ok { s with x := 0, y := s.y + 1 } := by
  have : ¬ s.y + 1 > i32Max := by omega
  simp [sixelData, this]

theorem repeat_dash (n : Nat) (s : St) (h : s.y + (n + 1) ≤ i32Max) :
    repeatN (fun t => sixelData t '-') (n + 1) s = .ok { s with x := 0, y := s.y + (n + 1) } := by
  induction n generalizing s with
  | zero => rw [repeatN_succ, sixelData_dash s (by omega)]; rfl
  | succ n ih =>
    rw [repeatN_succ, sixelData_dash s (by omega)]
    simp only [Out.andThen]
    rw [ih _ (by simp only; omega)]
    simp only [Nat.add_assoc, Nat.add_comm 1]

/-- `!<m>-~` from the start state: `m` cursor-down moves, then a data character -/
theorem cursor_panic (m : Nat) (hm : 0 < m) (h1 : m ≤ i32Max) (h2 : m * 6 + 6 > i32Max) (cs : List Char) :
    run { state := .repeat_, nums := [m] } ('-' :: '~' :: cs) = .panic .cursorY6 := by
  obtain ⟨n, rfl⟩ : ∃ n, m = n + 1 := ⟨m - 1, by omega⟩
  rw [run_cons]
  have hp : parseChar { state := .repeat_, nums := [n + 1] } '-' = .ok { y := n + 1, nums := [n + 1] } := by
    have := repeat_dash n { state := .repeat_, nums := [n + 1] } (by simp only; omega)
    simp only [parseChar, List.head?_cons]
    rw [if_neg (by decide)]
    simp only [this, Out.andThen, Nat.zero_add]
  rw [hp]
  simp only [Out.andThen]
  rw [run_cons]
  have h3 : parseChar { y := n + 1, nums := [n + 1] } '~' = .panic .cursorY6 := by
    simp only [parseChar, sixelData, translate]
    rw [if_neg (by decide), if_neg (by decide), if_neg (by decide), if_neg (by decide), if_neg (by decide), if_neg (by decide),
      if_neg (by decide), if_neg (by decide), if_pos h2]
  rw [h3]; rfl

theorem ok_andThen {α β : Type} (a : α) (f : α → Out β) : (Out.ok a).andThen f = f a := rfl
theorem panic_andThen {α β : Type} (p : Site) (f : α → Out β) : (Out.panic p : Out α).andThen f = .panic p := rfl


end IcyVerif.Sixel
