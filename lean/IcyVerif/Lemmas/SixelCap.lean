import IcyVerif.Lemmas.Sixel
set_option linter.unusedSimpArgs false
set_option linter.unusedVariables false
/-! The cursor overflow is reachable — and is an error since the three `fix:` commits: a closed form of `!<m>-`
    (the repeat loop really runs `m` times; `decide` cannot evaluate 357 913 942 iterations). -/
namespace IcyVerif.Sixel

theorem sixelData_dash (s : St) (h : s.y + 1 ≤ i32Max) : sixelData s '-' = .ok { s with x := 0, y := s.y + 1 } := by
  have : ¬ s.y + 1 > i32Max := by omega
  simp [sixelData, this]

theorem repeat_dash (n : Nat) (s : St) (h : s.y + (n + 1) ≤ i32Max) :
    repeatN (fun t => sixelData t '-') (n + 1) s = .ok { s with x := 0, y := s.y + (n + 1) } := by
  induction n generalizing s with
  | zero => rw [repeatN_succ, sixelData_dash s (by omega)]; rfl
  | succ n ih =>
    rw [repeatN_succ, sixelData_dash s (by omega)]
    simp only [Out.andThen]
    rw [ih _ (by simp only; omega)]
    simp only [Nat.add_assoc, Nat.add_comm 1]

/-- `!<m>-~` from the start state: `m` cursor-down moves, then a data character -/
theorem cursor_overflow_err (m : Nat) (hm : 0 < m) (h1 : m ≤ i32Max) (h2 : m * 6 + 6 > i32Max) (cs : List Char) :
    run { state := .repeat_, nums := [m] } ('-' :: '~' :: cs) = .err .invalidPictureSize := by
  obtain ⟨n, rfl⟩ : ∃ n, m = n + 1 := ⟨m - 1, by omega⟩
  rw [run_cons]
  have hp : parseChar { state := .repeat_, nums := [n + 1] } '-' = .ok { y := n + 1, nums := [n + 1] } := by
    have := repeat_dash n { state := .repeat_, nums := [n + 1] } (by simp only; omega)
    simp only [parseChar, List.head?_cons]
    rw [if_neg (by decide)]
    simp only [this, Out.andThen, Nat.zero_add]
  rw [hp]
  simp only [Out.andThen]
  rw [run_cons]
  have h3 : parseChar { y := n + 1, nums := [n + 1] } '~' = .err .invalidPictureSize := by
    simp only [parseChar, sixelData, translate]
    rw [if_neg (by decide), if_neg (by decide), if_neg (by decide), if_neg (by decide), if_neg (by decide), if_neg (by decide),
      if_neg (by decide), if_neg (by decide), if_pos h2]
  rw [h3]; rfl

theorem ok_andThen {α β : Type} (a : α) (f : α → Out β) : (Out.ok a).andThen f = f a := rfl
theorem err_andThen {α β : Type} (e : Err) (f : α → Out β) : (Out.err e : Out α).andThen f = .err e := rfl


end IcyVerif.Sixel
