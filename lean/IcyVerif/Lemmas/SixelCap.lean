import IcyVerif.Lemmas.Sixel
set_option linter.unusedSimpArgs false
set_option linter.unusedVariables false
/-! The cursor overflow is reachable — and is an error since the three `fix:` commits: a closed form of `!<m>-`
    (the repeat loop really runs `m` times; `decide` cannot evaluate 357 913 942 iterations). -/
namespace IcyVerif.Sixel

theorem sixelData_dash (s : St) (h : s.y + 1 ≤ i32Max) : sixelData s '-' = .ok { s with x := 0, y := s.y + 1 } := by
  have : ¬ s.y + 1 > i32Max := by omega
  simp [sixelData, this]

theorem repeat_dash (n : Nat) (s : St) (h : s.y + (n + 1) ≤ i32Max) :
    repeatN (fun t => sixelData t '-') (n + 1) s = .ok { s with x := 0, y := s.y + (n + 1) } := by
  induction n generalizing s with
  | zero => rw [repeatN_succ, sixelData_dash s (by omega)]; rfl
  | succ n ih =>
    rw [repeatN_succ, sixelData_dash s (by omega)]
    simp only [Out.andThen]
    rw [ih _ (by simp only; omega)]
    simp only [Nat.add_assoc, Nat.add_comm 1]

/-- `!<m>-~` from the start state with `m` large enough to overflow the band arithmetic: an error.  (Since the size-limit repair
    the repeat count itself is rejected first — `m * 6 + 6 > i32::MAX` implies `m > MAX_SIXEL_SIZE`; the cursor overflow checks
    stay reachable through long runs of `-`.) -/
theorem cursor_overflow_err (m : Nat) (hm : 0 < m) (h1 : m ≤ i32Max) (h2 : m * 6 + 6 > i32Max) (cs : List Char) :
    run { state := .repeat_, nums := [m] } ('-' :: '~' :: cs) = .err .invalidPictureSize := by
  rw [run_cons]
  have hgt : m > maxSize := by
    simp only [maxSize, Gen.Sixel.maxSixelSize]
    simp only [i32Max] at h2
    omega
  have hp : parseChar { state := .repeat_, nums := [m] } '-' = .err .invalidPictureSize := by
    simp only [parseChar, List.head?_cons]
    rw [if_neg (by decide), if_pos hgt]
  rw [hp]; rfl

theorem ok_andThen {α β : Type} (a : α) (f : α → Out β) : (Out.ok a).andThen f = f a := rfl
theorem err_andThen {α β : Type} (e : Err) (f : α → Out β) : (Out.err e : Out α).andThen f = .err e := rfl


end IcyVerif.Sixel
