import IcyVerif.Lemmas.PalLoad
set_option linter.unusedSimpArgs false
set_option linter.unusedVariables false
/-! A palette file never yields more colours than it has bytes, whatever numbers it announces (C03): the importers
    allocate per colour FOUND (one per regex match, each match consuming at least one character), never from the count
    line. -/
namespace IcyVerif.PalLoad
open IcyVerif.Bytes IcyVerif.Bytes.Res IcyVerif.Palette IcyVerif.Gen.FontPal IcyVerif.Gen.Palette

/-- total number of characters in a list of lines -/
def tot : List (List Nat) → Nat
  | [] => 0
  | l :: ls => l.length + tot ls

theorem scanWith_length {α : Type} (m : List Nat → Option (α × List Nat)) :
    ∀ (s : List Nat) (k : Nat), (scanWith m s k).length ≤ s.length := by
  intro s
  induction s with
  | nil => intro k; simp [scanWith]
  | cons c cs ih =>
    intro k
    cases k with
    | succ k => simp only [scanWith, List.length_cons]; have := ih k; omega
    | zero =>
      simp only [scanWith]
      split
      · simp only [List.length_cons]; have := ih (cs.length - (by assumption : List Nat).length); omega
      · simp only [List.length_cons]; have := ih 0; omega

theorem findFirst_some_nonempty {α : Type} (m : List Nat → Option (α × List Nat)) (s : List Nat) (r : α × List Nat)
    (h : findFirst m s = some r) : 1 ≤ s.length := by
  cases s with
  | nil => simp [findFirst] at h
  | cons c cs => simp

theorem stripCrRev_length (l : List Nat) : (stripCrRev l).length ≤ l.length := by
  unfold stripCrRev
  split <;> simp

theorem linesGo_tot : ∀ (s cur : List Nat), tot (linesGo s cur) ≤ s.length + cur.length := by
  intro s
  induction s with
  | nil =>
    intro cur
    unfold linesGo
    split
    · simp [tot]
    · simp [tot]
  | cons c rest ih =>
    intro cur
    unfold linesGo
    split
    · simp only [tot, List.length_cons]
      have h1 := stripCrRev_length cur
      have h2 := ih []
      simp only [List.length_nil] at h2
      omega
    · have h2 := ih (c :: cur)
      simp only [List.length_cons] at h2 ⊢
      omega

theorem splitLines_tot (s : List Nat) : tot (splitLines s) ≤ s.length := by
  have := linesGo_tot s []
  simpa [splitLines] using this

theorem lossyAux_length : ∀ (fuel : Nat) (bs : List Nat), (IcyVerif.Uni.lossyAux fuel bs).length ≤ bs.length := by
  intro fuel
  induction fuel with
  | zero => intro bs; simp [IcyVerif.Uni.lossyAux]
  | succ fuel ih =>
    intro bs
    cases bs with
    | nil => simp [IcyVerif.Uni.lossyAux]
    | cons b rest =>
      simp only [IcyVerif.Uni.lossyAux]
      split
      · rename_i cp n _
        have h1 := ih (rest.drop (n - 1))
        have h2 : (rest.drop (n - 1)).length ≤ rest.length := by simp
        simp only [List.length_cons]; omega
      · rename_i n _
        have h1 := ih (rest.drop (n - 1))
        have h2 : (rest.drop (n - 1)).length ≤ rest.length := by simp
        simp only [List.length_cons]; omega

theorem lossy_length (bs : List Nat) : (IcyVerif.Uni.lossy bs).length ≤ bs.length := lossyAux_length _ _

theorem mapRes_length {α β : Type} (f : α → Res β) (hf : ∀ a, (f a).Sat (fun _ => True)) :
    ∀ l : List α, (mapRes f l).Sat (fun bs => bs.length = l.length) := by
  intro l
  induction l with
  | nil => unfold mapRes; rfl
  | cons a as ih =>
    unfold mapRes
    apply Sat.bind (hf a); intro b _
    apply Sat.bind ih; intro bs hbs
    simp only [sat_pure, List.length_cons, hbs]

theorem palLineColors_length (line : List Nat) : (palLineColors line).Sat (fun cs => cs.length ≤ line.length) := by
  unfold palLineColors
  apply Sat.mono (mapRes_length rgbOfDec (fun t => Sat.mono (rgbOfDec_sat t) (fun _ _ => trivial)) _)
  intro cs h
  rw [h]; exact scanWith_length _ _ _

theorem palLoop_length : ∀ (ls : List (List Nat)) (i : Nat) (acc : List Rgb),
    (palLoop ls i acc).Sat (fun r => r.length ≤ acc.length + tot ls) := by
  intro ls
  induction ls with
  | nil => intro i acc; unfold palLoop; simp [tot]
  | cons l ls ih =>
    intro i acc
    unfold palLoop
    split
    · split
      · apply Sat.mono (ih 1 acc); intro r hr; simp only [tot]; omega
      · trivial
    · split
      · apply Sat.mono (ih _ acc); intro r hr; simp only [tot]; omega
      · apply Sat.bind (palLineColors_length l); intro cs hcs
        apply Sat.mono (ih _ _); intro r hr
        simp only [tot, List.length_append] at hr ⊢; omega

theorem gplLine_length (acc : List Rgb) (line : List Nat) :
    (gplLine acc line).Sat (fun r => r.length ≤ acc.length + line.length) := by
  unfold gplLine
  split
  · show acc.length ≤ _; omega
  · split
    · show acc.length ≤ _; omega
    · rename_i t rest hff
      have hne := findFirst_some_nonempty _ _ _ hff
      apply Sat.bind (rgbOfDec_sat _); intro c _
      simp only [sat_pure, List.length_append, List.length_cons, List.length_nil]
      omega

theorem foldRes_gpl_length : ∀ (ls : List (List Nat)) (acc : List Rgb),
    (foldRes gplLine acc ls).Sat (fun r => r.length ≤ acc.length + tot ls) := by
  intro ls
  induction ls with
  | nil => intro acc; unfold foldRes; simp [tot]
  | cons l ls ih =>
    intro acc
    unfold foldRes
    apply Sat.bind (gplLine_length acc l); intro a ha
    apply Sat.mono (ih a); intro r hr
    simp only [tot]; omega

theorem gplLoad_length (s : List Nat) : (gplLoad s).Sat (fun r => r.length ≤ s.length) := by
  unfold gplLoad
  have ht := splitLines_tot s
  split
  · show 0 ≤ _; omega
  · rename_i l0 rest heq
    rw [heq] at ht
    split
    · apply Sat.mono (foldRes_gpl_length rest []); intro r hr
      simp only [tot, List.length_nil] at ht hr; omega
    · trivial

/-! the three importers taken over from C16 -/

theorem importHex_length (s : List Nat) (p : Pal) (h : importHex s = some p) : p.colors.length ≤ s.length := by
  unfold importHex at h
  cases h
  simp only [colorsOfHexText, List.length_map]
  exact scanWith_length _ _ _

theorem iceStep_length (st st' : Pal × List Nat) (line : List Nat) (h : iceStep st line = some st') :
    st'.1.colors.length ≤ st.1.colors.length + line.length := by
  unfold iceStep at h
  simp only [] at h
  split at h
  · cases h; simp
  · split at h
    · cases h; omega
    · rename_i m rest hff
      have hne := findFirst_some_nonempty _ _ _ hff
      cases h
      simp only [List.length_append, List.length_cons, List.length_nil]; omega

theorem foldOpt_ice_length : ∀ (ls : List (List Nat)) (st st' : Pal × List Nat), foldOpt iceStep st ls = some st' →
    st'.1.colors.length ≤ st.1.colors.length + tot ls := by
  intro ls
  induction ls with
  | nil => intro st st' h; simp only [foldOpt] at h; cases h; simp [tot]
  | cons l ls ih =>
    intro st st' h
    simp only [foldOpt] at h
    split at h
    · rename_i s1 hs1
      have h1 := iceStep_length st s1 l hs1
      have h2 := ih s1 st' h
      simp only [tot]; omega
    · cases h

theorem importIce_length (s : List Nat) (p : Pal) (h : importIce s = some p) : p.colors.length ≤ s.length := by
  unfold importIce at h
  have ht := splitLines_tot s
  split at h
  · cases h; simp [Pal.empty]
  · rename_i l0 rest heq
    rw [heq] at ht
    split at h
    · cases hf : foldOpt iceStep (Pal.empty, []) rest with
      | none => rw [hf] at h; cases h
      | some st' =>
        rw [hf] at h
        cases h
        have := foldOpt_ice_length rest _ st' hf
        simp only [tot, Pal.empty, List.length_nil] at ht this ⊢; omega
    · cases h

theorem txtStep_length (p p' : Pal) (line : List Nat) (h : txtStep p line = some p') :
    p'.colors.length ≤ p.colors.length + line.length := by
  unfold txtStep at h
  split at h
  · cases h; simp
  · split at h
    · cases h; omega
    · rename_i m rest hff
      have hne := findFirst_some_nonempty _ _ _ hff
      cases h
      simp only [List.length_append, List.length_cons, List.length_nil]; omega

theorem foldOpt_txt_length : ∀ (ls : List (List Nat)) (p p' : Pal), foldOpt txtStep p ls = some p' →
    p'.colors.length ≤ p.colors.length + tot ls := by
  intro ls
  induction ls with
  | nil => intro p p' h; simp only [foldOpt] at h; cases h; simp [tot]
  | cons l ls ih =>
    intro p p' h
    simp only [foldOpt] at h
    split at h
    · rename_i s1 hs1
      have h1 := txtStep_length p s1 l hs1
      have h2 := ih s1 p' h
      simp only [tot]; omega
    · cases h

theorem importTxt_length (s : List Nat) (p : Pal) (h : importTxt s = some p) : p.colors.length ≤ s.length := by
  unfold importTxt at h
  have := foldOpt_txt_length _ _ _ h
  have ht := splitLines_tot s
  simp only [Pal.empty, List.length_nil] at this; omega

theorem ofOption_length (o : Option Pal) (n : Nat) (h : ∀ p, o = some p → p.colors.length ≤ n) :
    (ofOption o).Sat (fun r => r.length ≤ n) := by
  unfold ofOption
  split
  · rename_i p
    simp only [sat_ok, Pal.rgbs, List.length_map]
    exact h p rfl
  · trivial

theorem loadText_length (f : Fmt) (s : List Nat) : (loadText f s).Sat (fun r => r.length ≤ s.length) := by
  cases f
  · exact ofOption_length (importHex s) _ (importHex_length s)
  · apply Sat.mono (palLoop_length (splitLines s) 0 []); intro r hr
    have := splitLines_tot s
    simp only [List.length_nil] at hr; omega
  · exact gplLoad_length s
  · exact ofOption_length (importIce s) _ (importIce_length s)
  · exact ofOption_length (importTxt s) _ (importTxt_length s)

/-- `load_palette`: at most one colour per byte of the file, in every format, whatever the file says about itself -/
theorem palLoad_length (f : Fmt) (bytes : List Nat) : (palLoad f bytes).Sat (fun r => r.length ≤ bytes.length) := by
  unfold palLoad
  split
  · apply Sat.mono (loadText_length f _); intro r hr
    have := lossy_length bytes; omega
  · trivial

end IcyVerif.PalLoad
