import IcyVerif.Lemmas.BinFormatsXb
set_option linter.unusedSimpArgs false
set_option linter.unusedVariables false
/-!
# C05, XBin: the round trip theorem
-/
namespace IcyVerif.BinFormats
open IcyVerif.XbCompress IcyVerif.Gen

/-- the bytes `XBin::to_bytes` writes before the SAUCE record, for a picture with one (`two = false`) or two fonts -/
def xbBody (p : Pic) (compress two : Bool) (f0 f1 : Font) (img : List Nat) : List Nat :=
  88 :: 66 :: 73 :: 78 :: 0x1A :: (p.w % 256) :: ((p.w / 256) % 256) :: (p.h % 256) :: ((p.h / 256) % 256) :: (f0.height % 256) ::
    xbFlags (!f0.isDefault || two) (!palIsDefault p.pal) compress (p.ice == .ice) two ::
    ((if (!palIsDefault p.pal) then asVec63 p.pal else []) ++ ((if (!f0.isDefault || two) then f0.data else []) ++
      ((if two then f1.data else []) ++ img)))

theorem flagProp (fl bit : Nat) : (fl &&& bit = bit) ↔ ((fl &&& bit == bit) = true) := by simp

/-- the writer, one font -/
theorem xbSave_single (o : Opts) (date : List Nat) (p : Pic) (f0 : Font) (img : List Nat)
    (hpages : analyzeFontUsage p.rows.flatten = [0]) (hf0 : lookupFont p.fonts 0 = some f0) (hfok : fontOk f0 = true)
    (hpl : p.pal.length = 16) (himg : imageData p.ice o.compress p.rows = some img) :
    xbSave o.compress o.sauce date p =
      if o.sauce then writeSauce .xbin p date (xbBody p o.compress false f0 f0 img) else .ok (xbBody p o.compress false f0 f0 img) := by
  obtain ⟨h1, h2, h3, _⟩ := fontOk_parts f0 hfok
  obtain ⟨b1, b2, _, _, _⟩ := xbFlags_bits (!f0.isDefault || decide ([0].length > 1)) (!palIsDefault p.pal) o.compress (p.ice == .ice) ([0].length == 2)
  unfold xbSave
  rw [hpages]
  simp only [List.headD_cons, hf0, himg]
  have c1 : ¬ ([0].length > 2) := by decide
  have c2 : ¬ (f0.height < 1 ∨ f0.height > 32) := by omega
  have hpb : (asVec63 (fillTo16 p.pal)).length = Xb.paletteLength := by
    rw [fillTo16_16 _ hpl, asVec63_length, hpl]; rfl
  have c3 : ¬ (xbFlags (!f0.isDefault || decide ([0].length > 1)) (!palIsDefault p.pal) o.compress (p.ice == .ice) ([0].length == 2) &&& Xb.flagPalette = Xb.flagPalette ∧
      (asVec63 (fillTo16 p.pal)).length ≠ Xb.paletteLength) := by
    intro h; exact h.2 hpb
  have c4 : ¬ (xbFlags (!f0.isDefault || decide ([0].length > 1)) (!palIsDefault p.pal) o.compress (p.ice == .ice) ([0].length == 2) &&& Xb.flagFont = Xb.flagFont ∧
      f0.data.length ≠ 256 * f0.height) := by
    intro h; exact h.2 h3
  simp only [c1, c2, c3, c4, if_false]
  have e2 : ([0].length == 2) = false := by decide
  have e1 : decide ([0].length > 1) = false := by decide
  obtain ⟨b1', b2', _, _, _⟩ := xbFlags_bits (!f0.isDefault) (!palIsDefault p.pal) o.compress (p.ice == .ice) false
  simp only [e2, Bool.false_eq_true, if_false, flagProp, fillTo16_16 _ hpl, e1, Bool.or_false, b1', b2']
  unfold xbBody
  simp only [Bool.or_false, Bool.false_eq_true, if_false, List.nil_append, List.cons_append, List.append_assoc]

/-- the writer, two fonts -/
theorem xbSave_two (o : Opts) (date : List Nat) (p : Pic) (f0 f1 : Font) (img : List Nat)
    (hpages : analyzeFontUsage p.rows.flatten = [0, 1]) (hf0 : lookupFont p.fonts 0 = some f0) (hf1 : lookupFont p.fonts 1 = some f1)
    (hfok : fontOk f0 = true) (hfok1 : fontOk f1 = true) (hhe : f1.height = f0.height)
    (hpl : p.pal.length = 16) (himg : imageData p.ice o.compress p.rows = some img) :
    xbSave o.compress o.sauce date p =
      if o.sauce then writeSauce .xbin p date (xbBody p o.compress true f0 f1 img) else .ok (xbBody p o.compress true f0 f1 img) := by
  obtain ⟨h1, h2, h3, _⟩ := fontOk_parts f0 hfok
  obtain ⟨_, _, h3', _⟩ := fontOk_parts f1 hfok1
  obtain ⟨b1, b2, _, _, _⟩ := xbFlags_bits (!f0.isDefault || decide ([0, 1].length > 1)) (!palIsDefault p.pal) o.compress (p.ice == .ice) ([0, 1].length == 2)
  unfold xbSave
  rw [hpages]
  simp only [List.headD_cons, hf0, himg]
  have c1 : ¬ ([0, 1].length > 2) := by decide
  have c2 : ¬ (f0.height < 1 ∨ f0.height > 32) := by omega
  have hpb : (asVec63 (fillTo16 p.pal)).length = Xb.paletteLength := by
    rw [fillTo16_16 _ hpl, asVec63_length, hpl]; rfl
  have c3 : ¬ (xbFlags (!f0.isDefault || decide ([0, 1].length > 1)) (!palIsDefault p.pal) o.compress (p.ice == .ice) ([0, 1].length == 2) &&& Xb.flagPalette = Xb.flagPalette ∧
      (asVec63 (fillTo16 p.pal)).length ≠ Xb.paletteLength) := by
    intro h; exact h.2 hpb
  have c4 : ¬ (xbFlags (!f0.isDefault || decide ([0, 1].length > 1)) (!palIsDefault p.pal) o.compress (p.ice == .ice) ([0, 1].length == 2) &&& Xb.flagFont = Xb.flagFont ∧
      f0.data.length ≠ 256 * f0.height) := by
    intro h; exact h.2 h3
  simp only [c1, c2, c3, c4, if_false]
  have e2 : ([0, 1].length == 2) = true := by decide
  have e1 : decide ([0, 1].length > 1) = true := by decide
  have e3 : [0, 1].getD 1 0 = 1 := rfl
  have c5 : ¬ (f1.data.length ≠ f0.data.length) := by rw [h3, h3', hhe]; simp
  obtain ⟨b1', b2', _, _, _⟩ := xbFlags_bits true (!palIsDefault p.pal) o.compress (p.ice == .ice) true
  simp only [e2, if_true, e3, hf1, c5, if_false, flagProp, fillTo16_16 _ hpl, e1, Bool.or_true, b1', b2']
  unfold xbBody
  simp only [Bool.or_true, if_true, List.nil_append, List.cons_append, List.append_assoc]

theorem lookupFont_two0 (a b : Font) : lookupFont [(0, a), (1, b)] 0 = some a := by
  unfold lookupFont; simp [List.lookup]

theorem lookupFont_two1 (a b : Font) : lookupFont [(0, a), (1, b)] 1 = some b := by
  unfold lookupFont; simp [List.lookup]

theorem palIsDefault_false (pal : List Rgb) (h : (!palIsDefault pal) = false) : pal = dosPalette := by
  unfold palIsDefault at h
  simpa using h

/-- the buffer the XBin loader produces for a representable picture -/
def xbLoaded (p : Pic) (two : Bool) (f0 f1 : Font) (m : Option Sauce.Meta) : LBuf :=
  { xbBase p.w p.h f0.height (!f0.isDefault || two) (!palIsDefault p.pal) (p.ice == .ice) two (asVec63 p.pal) f0.data f1.data
      [(0, defaultFont)] m with
    lines := (p.rows.map fun r => r.map shownCell).map (partRow p.w) }

theorem xb_core (o : Opts) (date : List Nat) (p : Pic) (f0 f1 : Font) (two : Bool) (img : List Nat)
    (hwf : wellFormed p = true) (hw1 : 1 ≤ p.w) (hw2 : p.w ≤ 4096) (hh : p.h ≤ 65535)
    (him : p.ice = .blink ∨ p.ice = .ice) (hcells : allCells p (attrCell (p.ice == .ice)) = true) (hpal : pal16 p.pal = true)
    (hpages : analyzeFontUsage p.rows.flatten = if two then [0, 1] else [0])
    (hf0 : lookupFont p.fonts 0 = some f0) (hfok : fontOk f0 = true)
    (hf1 : lookupFont p.fonts 1 = some f1 ∨ two = false) (hf1l : f1.data.length = f0.height * 256)
    (hf1h : two = true → f1.height = f0.height)
    (htwo : two = true → allCells p (fun c => decide (c.attr.fg < 8) && !isBold c.attr) = true)
    (himg : imageData p.ice o.compress p.rows = some img) (s : Option Sauce.Sauce) (hsf : sauceFonts0 s = [(0, defaultFont)]) :
    xbLoad (xbBody p o.compress two f0 f1 img) s = .ok (xbLoaded p two f0 f1 (s.map metaOf)) ∧
      SamePicture .xb p (xbLoaded p two f0 f1 (s.map metaOf)) := by
  obtain ⟨hne, hrows, hwid⟩ := rows_nonempty p hwf
  obtain ⟨h1, h2, h3, hdef⟩ := fontOk_parts f0 hfok
  have hpl : p.pal.length = 16 := by
    unfold pal16 at hpal; simp only [Bool.and_eq_true, beq_iff_eq] at hpal; exact hpal.1
  have hp6 : p.pal.all (fun c => sixBit c.1 && sixBit c.2.1 && sixBit c.2.2) = true := by
    unfold pal16 at hpal; simp only [Bool.and_eq_true, beq_iff_eq] at hpal; exact hpal.2
  have hlen2 : (analyzeFontUsage p.rows.flatten).length ≤ 2 := by rw [hpages]; cases two <;> decide
  have hfit := fits8_of_cells p _ hcells
  let rows' := p.rows.map fun r => r.map shownCell
  -- cells
  have hdec : (p.rows.flatten.map (encCell (encodeAttr p.ice (analyzeFontUsage p.rows.flatten)))).map (decodeChar (p.ice == .ice) two) =
      rows'.flatten := by
    rw [List.map_map, hpages]
    have : p.rows.flatten.map (decodeChar (p.ice == .ice) two ∘ encCell (encodeAttr p.ice (if two then [0, 1] else [0]))) =
        p.rows.flatten.map shownCell := by
      apply List.map_congr_left
      intro c hc
      obtain ⟨r, hr, hcr⟩ := List.mem_flatten.mp hc
      have hac : attrCell (p.ice == IceMode.ice) c = true := by
        unfold allCells at hcells
        exact List.all_eq_true.mp (List.all_eq_true.mp hcells r hr) c hcr
      have hpg := page_of_usage p.rows.flatten c hc
      rw [hpages] at hpg
      cases two with
      | false =>
        simp only [Bool.false_eq_true, if_false] at hpg ⊢
        have hp0 : c.attr.page = 0 := by simpa using hpg
        exact dec_xb_single p.ice him c hac hp0
      | true =>
        simp only [if_true] at hpg ⊢
        have hp01 : c.attr.page = 0 ∨ c.attr.page = 1 := by simpa using hpg
        have h8 := htwo rfl
        unfold allCells at h8
        have := List.all_eq_true.mp (List.all_eq_true.mp h8 r hr) c hcr
        simp only [Bool.and_eq_true, decide_eq_true_eq, Bool.not_eq_true'] at this
        exact dec_xb_two p.ice him c hac hp01 this.1 this.2
    rw [this, map_flatten_rows]
  have hrl : rows'.length = p.h := by simp [rows', hrows]
  have hrw : ∀ r ∈ rows', r.length = p.w := by
    intro r hr
    obtain ⟨r0, hr0, rfl⟩ := List.mem_map.mp hr
    rw [List.length_map]; exact hwid r0 hr0
  constructor
  · unfold xbBody
    rw [xb_load s p.w p.h f0.height (!f0.isDefault || two) (!palIsDefault p.pal) o.compress (p.ice == .ice) two (asVec63 p.pal)
      f0.data f1.data img hw1 hw2 hh h1 h2 (by rw [asVec63_length, hpl]) (by rw [h3]; omega) hf1l (by intro h; simp [h])]
    rw [xb_pairs p.ice o.compress p.rows img hlen2 hfit himg, hsf]
    simp only
    rw [hdec]
    have hplace := placeAll_rows false false p.w (by omega) rows'
      (xbBase p.w p.h f0.height (!f0.isDefault || two) (!palIsDefault p.pal) (p.ice == .ice) two (asVec63 p.pal) f0.data f1.data
        [(0, defaultFont)] (s.map metaOf))
      hrw (Nat.le_refl _) (Or.inr (by show ((0 : Nat) : Int) + rows'.length ≤ (p.h : Int); rw [hrl]; omega))
    have hl0 : (xbBase p.w p.h f0.height (!f0.isDefault || two) (!palIsDefault p.pal) (p.ice == .ice) two (asVec63 p.pal) f0.data f1.data
        [(0, defaultFont)] (s.map metaOf)).lines = [] := rfl
    rw [hl0] at hplace
    simp only [List.length_nil, List.nil_append, Bool.false_eq_true, false_and, if_false] at hplace
    rw [hplace]
    unfold LBuf.crop
    rw [popEmpty_nonempty]
    · unfold xbLoaded xbBase
      simp [hrl, rows', hrows]
    · intro r hr
      obtain ⟨r0, hr0, rfl⟩ := List.mem_map.mp hr
      apply partRow_nonempty
      have := hrw r0 hr0
      intro he; rw [he] at this; simp at this; omega
  · have hgp : (xbLoaded p two f0 f1 (s.map metaOf)).pal = p.pal := by
      show (if (!palIsDefault p.pal) = true then from63 (asVec63 p.pal) else dosPalette) = p.pal
      by_cases hpd : (!palIsDefault p.pal) = true
      · simp only [hpd, if_true]; exact from63_asVec63 p.pal hp6
      · have : (!palIsDefault p.pal) = false := by simpa using hpd
        simp only [this, Bool.false_eq_true, if_false]
        exact (palIsDefault_false p.pal this).symm
    refine ⟨rfl, rfl, ?_, ?_, ?_, ?_, ?_⟩
    · show (((p.rows.map fun r => r.map shownCell).map (partRow p.w)).length : Int) ≤ (p.h : Int)
      simp [hrows]
    · show isIce (if (p.ice == IceMode.ice) = true then IceMode.ice else IceMode.blink) = isIce p.ice
      rcases him with h | h <;> rw [h] <;> rfl
    · exact cells_of_rows p (xbLoaded p two f0 f1 (s.map metaOf)) hwf (Nat.le_refl _) rfl hgp rfl
    · intro _
      unfold fontsSame
      rw [hpages]
      have hg0 : ∃ fa, lookupFont (xbLoaded p two f0 f1 (s.map metaOf)).fonts 0 = some fa ∧ fa.height = f0.height ∧ fa.data = f0.data := by
        show ∃ fa, lookupFont (if (!f0.isDefault || two) = true then (if two = true then [(0, mkFont f0.height f0.data), (1, mkFont f0.height f1.data)]
          else [(0, mkFont f0.height f0.data)]) else [(0, defaultFont)]) 0 = some fa ∧ _
        by_cases hff : (!f0.isDefault || two) = true
        · simp only [hff, if_true]
          cases two
          · exact ⟨_, lookupFont_single _, rfl, rfl⟩
          · exact ⟨_, lookupFont_two0 _ _, rfl, rfl⟩
        · have hff' : (!f0.isDefault || two) = false := by simpa using hff
          simp only [hff', Bool.false_eq_true, if_false]
          have hd : f0.isDefault = true := by
            cases hx : f0.isDefault
            · rw [hx] at hff'; simp at hff'
            · rfl
          exact ⟨_, lookupFont_single _, by rw [hdef hd], by rw [hdef hd]⟩
      obtain ⟨fa, hfa, hfah, hfad⟩ := hg0
      cases two with
      | false =>
        simp only [Bool.false_eq_true, if_false, List.all_cons, List.all_nil, Bool.and_true, hf0, hfa]
        simp [hfah, hfad]
      | true =>
        have hf1' : lookupFont p.fonts 1 = some f1 := by
          rcases hf1 with h | h
          · exact h
          · exact absurd h (by decide)
        have hg1 : lookupFont (xbLoaded p true f0 f1 (s.map metaOf)).fonts 1 = some (mkFont f0.height f1.data) := by
          show lookupFont (if (!f0.isDefault || true) = true then (if true = true then [(0, mkFont f0.height f0.data), (1, mkFont f0.height f1.data)]
            else [(0, mkFont f0.height f0.data)]) else [(0, defaultFont)]) 1 = _
          simp only [Bool.or_true, if_true]
          exact lookupFont_two1 _ _
        simp only [if_true, List.all_cons, List.all_nil, Bool.and_true, hf0, hfa, hf1', hg1]
        have hh1 : f1.height = f0.height := hf1h rfl
        simp [hfah, hfad, mkFont, hh1]
    · intro _; exact palSame_of_eq p _ hgp


theorem sauceFonts0_none : sauceFonts0 none = [(0, defaultFont)] := rfl

theorem sauceFonts0_nofont (s : Sauce.Sauce) (h : s.font = none) : sauceFonts0 (some s) = [(0, defaultFont)] := by
  unfold sauceFonts0 startFonts
  simp [h]

/-- XBin: every representable picture is written, and — unless it was saved without a SAUCE record and its tail reads as
    one — loaded back as the same picture -/
theorem xb_roundtrip (o : Opts) (date : List Nat) (p : Pic) (hrep : Representable .xb o p = true) (hdate : dateOk date = true) :
    ∃ bytes, save .xb o date p = .ok bytes ∧
      ((o.sauce = true ∨ tailReadsAsSauce bytes = false) → ∃ g, fromBytes .xb bytes = .ok g ∧ SamePicture .xb p g) := by
  unfold Representable at hrep
  simp only [Bool.and_eq_true, beq_iff_eq, decide_eq_true_eq, Bool.or_eq_true] at hrep
  obtain ⟨⟨hmeta, hwf⟩, ⟨⟨⟨⟨⟨⟨⟨hw1, hw2⟩, hh⟩, him⟩, hcells⟩, hpal⟩, hpg⟩, hfonts⟩⟩ := hrep
  have hpl : p.pal.length = 16 := by
    unfold pal16 at hpal; simp only [Bool.and_eq_true, beq_iff_eq] at hpal; exact hpal.1
  have hfit := fits8_of_cells p _ hcells
  cases hf0 : lookupFont p.fonts 0 with
  | none => rw [hf0] at hfonts; exact absurd hfonts (by simp)
  | some f0 =>
    rw [hf0] at hfonts
    simp only [Bool.and_eq_true, Bool.or_eq_true, bne_iff_ne, ne_eq] at hfonts
    obtain ⟨hfok, hsecond⟩ := hfonts
    obtain ⟨h1, h2, h3, hdef⟩ := fontOk_parts f0 hfok
    have hlen2 : (analyzeFontUsage p.rows.flatten).length ≤ 2 := by
      rcases hpg with h | h <;> rw [h] <;> decide
    obtain ⟨img, himg⟩ : ∃ img, imageData p.ice o.compress p.rows = some img := ⟨_, imageData_some p.ice o.compress p.rows hlen2 hfit⟩
    -- the shared tail: from the writer's output form to the conclusion
    have finish : ∀ (two : Bool) (f1 : Font),
        (xbSave o.compress o.sauce date p =
          if o.sauce then writeSauce .xbin p date (xbBody p o.compress two f0 f1 img) else .ok (xbBody p o.compress two f0 f1 img)) →
        (∀ s, sauceFonts0 s = [(0, defaultFont)] → xbLoad (xbBody p o.compress two f0 f1 img) s = .ok (xbLoaded p two f0 f1 (s.map metaOf)) ∧
          SamePicture .xb p (xbLoaded p two f0 f1 (s.map metaOf))) →
        ∃ bytes, save .xb o date p = .ok bytes ∧
          ((o.sauce = true ∨ tailReadsAsSauce bytes = false) → ∃ g, fromBytes .xb bytes = .ok g ∧ SamePicture .xb p g) := by
      intro two f1 hsv hcore
      cases hsa : o.sauce with
      | true =>
        obtain ⟨bytes, hw, _, hfb⟩ := fromBytes_sauced .xb .xbin p date (xbBody p o.compress two f0 f1 img) f0 hf0 hmeta (fun h => by cases h) hdate
        obtain ⟨_, _, _, c4⟩ := carry_xbin p f0.name (bytes.length - (xbBody p o.compress two f0 f1 img).length) (by omega) (by omega)
        have hc := hcore (some (Sauce.carry SauceKind.xbin.idx (bufInfo p f0.name) (bytes.length - (xbBody p o.compress two f0 f1 img).length)))
          (sauceFonts0_nofont _ c4)
        refine ⟨bytes, ?_, fun _ => ⟨_, ?_, hc.2⟩⟩
        · show xbSave o.compress o.sauce date p = _
          rw [hsv, hsa]; exact hw
        · rw [hfb]
          exact hc.1
      | false =>
        refine ⟨xbBody p o.compress two f0 f1 img, ?_, fun hor => ?_⟩
        · show xbSave o.compress o.sauce date p = _
          rw [hsv, hsa]; rfl
        · have hl : tailReadsAsSauce (xbBody p o.compress two f0 f1 img) = false := by
            rcases hor with h | h
            · exact absurd h (by simp)
            · exact h
          refine ⟨_, ?_, (hcore none sauceFonts0_none).2⟩
          rw [fromBytes_plain' .xb _ hl]
          exact (hcore none sauceFonts0_none).1
    rcases hpg with hp1 | hp2
    · -- one font
      apply finish false f0
      · exact xbSave_single o date p f0 img hp1 hf0 hfok hpl himg
      · intro s hsf
        exact xb_core o date p f0 f0 false img hwf hw1 hw2 hh him hcells hpal (by simpa using hp1) hf0 hfok (Or.inr rfl)
          (by rw [h3]; omega) (by intro h; exact absurd h (by decide)) (by intro h; exact absurd h (by decide)) himg s hsf
    · -- two fonts
      have hsec := hsecond
      rcases hsec with hne | hsec
      · exact absurd hp2 hne
      · cases hf1 : lookupFont p.fonts 1 with
        | none => rw [hf1] at hsec; exact absurd hsec (by simp)
        | some f1 =>
          rw [hf1] at hsec
          simp only [Bool.and_eq_true, beq_iff_eq] at hsec
          obtain ⟨⟨hfok1, hhe⟩, hc8⟩ := hsec
          obtain ⟨_, _, h3', _⟩ := fontOk_parts f1 hfok1
          apply finish true f1
          · exact xbSave_two o date p f0 f1 img hp2 hf0 hf1 hfok hfok1 hhe hpl himg
          · intro s hsf
            exact xb_core o date p f0 f1 true img hwf hw1 hw2 hh him hcells hpal (by simpa using hp2) hf0 hfok (Or.inl hf1)
              (by rw [h3', hhe]; omega) (fun _ => hhe) (fun _ => hc8) himg s hsf

end IcyVerif.BinFormats
