import IcyVerif.Model.Igs
set_option linter.unusedSimpArgs false
set_option linter.unusedVariables false
/-! The IGS lexer: invariant, totality of `step` (the only panic is the explicit `i += step` overflow of the loop),
the delay of every loop the lexer creates is 0, termination of the loop. -/
namespace IcyVerif.Igs

def idxLoop : Nat := Gen.Igs.idxLoopCommand

theorem loop_ne_writeText : Gen.Igs.idxLoopCommand ≠ Gen.Igs.idxWriteText := by decide

theorem fromChar_ne_loop : ∀ ch c, fromChar ch = some c → c ≠ Gen.Igs.idxLoopCommand := by
  have h : Gen.Igs.fromChar.all (fun p => decide (p.2 ≠ Gen.Igs.idxLoopCommand)) = true := by decide
  intro ch c hc
  unfold fromChar at hc
  cases hf : Gen.Igs.fromChar.find? (fun p => p.1 = ch) with
  | none => simp [hf] at hc
  | some p =>
    simp [hf] at hc
    have hm := List.mem_of_find?_eq_some hf
    rw [List.all_eq_true] at h
    have := h p hm
    simp at this
    rw [← hc]; exact this

/-- invariant of the loop sub-machine while `ReadCommand(LoopCommand)` is the lexer state -/
def LoopInv (s : Igs) : Prop :=
  (s.nums.length < 4 → s.loopSt = .start) ∧
  (4 ≤ s.nums.length → s.nums[3]? = some 0) ∧
  ((s.loopSt = .readCount ∨ s.loopSt = .readParameter) → 5 ≤ s.nums.length) ∧
  (s.loopSt = .readParameter → ∃ g, s.loopParams.getLast? = some g ∧ g ≠ [])

def IGood (s : Igs) : Prop :=
  (s.st = .readCommand Gen.Igs.idxLoopCommand → LoopInv s) ∧ (∀ l, s.cur = some l → l.delay = 0)

theorem igood_init : IGood Igs.init := by
  constructor
  · intro h; simp [Igs.init] at h
  · intro l h; simp [Igs.init] at h

theorem igood_of_not_loop {s : Igs} (h1 : s.st ≠ .readCommand Gen.Igs.idxLoopCommand) (h2 : ∀ l, s.cur = some l → l.delay = 0) : IGood s :=
  ⟨fun h => absurd h h1, h2⟩

theorem advance_some {l l' : Loop} (h : l.advance = some l') : l' = { l with i := l.nextI } := by
  unfold Loop.advance at h
  by_cases hc : i32Min ≤ l.nextI ∧ l.nextI ≤ i32Max
  · simp [hc] at h; exact h.symm
  · simp [hc] at h

macro "lenfix" : tactic => `(tactic| first | omega | (dsimp only at *; omega) | (simp at *; omega) | (simp at *; done))

/-- the only panic `step` can produce -/
def overflowSite : String := "Loop::next_step: i += step"

/-- what the right-hand outcome of the totality lemmas says: the panic is the counter overflow of the loop that
starts here -/
def Overflows (s : Igs) (r : StepRes) : Prop := r = .panic overflowSite ∧ ∃ c, (mkLoop s c).advance = none

theorem startLoop_good (s : Igs) (hcur : ∀ l, s.cur = some l → l.delay = 0) (h3 : s.nums[3]? = some 0) (hp : s.loopParams ≠ []) :
    (∃ s' o, startLoop s = .ok s' o ∧ IGood s') ∨ Overflows s (startLoop s) := by
  unfold startLoop
  cases hf : fromChar s.loopCmd with
  | none =>
    left
    exact ⟨_, _, rfl, igood_of_not_loop (by simp) hcur⟩
  | some c =>
    simp only []
    by_cases hr : (mkLoop s c).running = true
    · simp only [hr, if_true]
      have : s.loopParams.isEmpty = false := by
        cases hl : s.loopParams with
        | nil => exact absurd hl hp
        | cons a b => rfl
      simp only [this]
      cases ha : (mkLoop s c).advance with
      | none => right; exact ⟨by simp [overflowSite], c, ha⟩
      | some l' =>
        left
        simp only []
        refine ⟨_, _, rfl, igood_of_not_loop (by simp) ?_⟩
        intro l hl
        simp at hl
        subst hl
        rw [advance_some ha]
        simp [mkLoop, List.getD, h3]
    · left
      simp only [hr]
      exact ⟨_, _, rfl, igood_of_not_loop (by simp) hcur⟩

theorem loopChar_good (s : Igs) (ch : Nat) (hst : s.st = .readCommand Gen.Igs.idxLoopCommand) (hlen : 4 ≤ s.nums.length)
    (hg : IGood s) :
    (∃ s' o, loopChar s ch = .ok s' o ∧ IGood s') ∨ Overflows s (loopChar s ch) := by
  obtain ⟨hinv, hcur⟩ := hg
  obtain ⟨_, h3, h5, hrp⟩ := hinv hst
  have h3' := h3 hlen
  unfold loopChar
  cases hls : s.loopSt with
  | start =>
    left
    simp only []
    by_cases hc : ch = 44
    · simp only [hc, if_true]
      refine ⟨_, _, rfl, ?_, hcur⟩
      intro _
      exact ⟨fun h => by lenfix, fun _ => h3', fun h => by simp at h, fun h => by simp at h⟩
    · simp only [hc, if_false]
      refine ⟨_, _, rfl, ?_, hcur⟩
      intro _
      exact ⟨fun h => by lenfix, fun _ => h3', fun h => by simp [hls] at h, fun h => by simp [hls] at h⟩
  | readCommand =>
    left
    simp only []
    by_cases hc : ch = 64 ∨ ch = 124 ∨ ch = 44
    · simp only [hc, if_true]
      refine ⟨_, _, rfl, ?_, hcur⟩
      intro _
      refine ⟨fun h => by lenfix, fun _ => ?_, fun _ => by lenfix, fun h => by simp at h⟩
      simp only []
      rw [List.getElem?_append_left (by lenfix)]
      exact h3'
    · simp only [hc, if_false]
      refine ⟨_, _, rfl, ?_, hcur⟩
      intro _
      exact ⟨fun h => by lenfix, fun _ => h3', fun h => by simp [hls] at h, fun h => by simp [hls] at h⟩
  | readCount =>
    left
    simp only []
    have hl5 := h5 (Or.inl hls)
    by_cases hd : 48 ≤ ch ∧ ch ≤ 57
    · simp only [hd, and_self, if_true]
      refine ⟨_, _, rfl, ?_, hcur⟩
      intro _
      have hlen' : (s.nums.dropLast ++ [parseNextNumber (s.nums.getLast?.getD 0) ch]).length = s.nums.length := by
        simp [List.length_dropLast]; omega
      refine ⟨fun h => by simp only [] at h; rw [hlen'] at h; omega, fun _ => ?_, fun _ => by simp only []; rw [hlen']; exact hl5, fun h => by simp [hls] at h⟩
      simp only []
      rw [List.getElem?_append_left (by simp [List.length_dropLast]; omega)]
      rw [List.getElem?_dropLast]
      have : 3 < s.nums.length - 1 := by lenfix
      simp [this, h3']
    · simp only [hd, if_false]
      by_cases hc : ch = 44
      · simp only [hc, if_true]
        refine ⟨_, _, rfl, ?_, hcur⟩
        intro _
        exact ⟨fun h => by lenfix, fun _ => h3', fun _ => hl5, fun _ => ⟨[[]], by simp, by simp⟩⟩
      · simp only [hc, if_false]
        exact ⟨_, _, rfl, igood_of_not_loop (by simp) hcur⟩
  | readParameter =>
    simp only []
    have hl5 := h5 (Or.inr hls)
    obtain ⟨g, hg1, hg2⟩ := hrp hls
    have hpne : s.loopParams ≠ [] := by
      intro h; rw [h] at hg1; simp at hg1
    by_cases hi : ch = 95 ∨ ch = 10 ∨ ch = 13
    · left
      simp only [hi, if_true]
      refine ⟨_, _, rfl, ?_, hcur⟩
      intro _
      exact ⟨fun h => by lenfix, fun _ => h3', fun _ => hl5, fun _ => ⟨g, hg1, hg2⟩⟩
    · simp only [hi, if_false]
      by_cases hsep : ch = 44 ∨ ch = 58
      · simp only [hsep, if_true]
        have h4 : ∃ n4, s.nums[4]? = some n4 := ⟨s.nums[4]'(by omega), by simp⟩
        obtain ⟨n4, hn4⟩ := h4
        simp only [hn4]
        by_cases hcnt : n4 ≤ paramCount s.loopParams
        · simp only [hcnt, if_true]
          exact startLoop_good s hcur h3' hpne
        · simp only [hcnt, if_false]
          left
          by_cases hc : ch = 44
          · simp only [hc, if_true, pushLast, hg1]
            refine ⟨_, _, rfl, ?_, hcur⟩
            intro _
            refine ⟨fun h => by lenfix, fun _ => h3', fun _ => hl5, fun _ => ⟨g ++ [[]], by simp, by simp⟩⟩
          · simp only [hc, if_false]
            refine ⟨_, _, rfl, ?_, hcur⟩
            intro _
            refine ⟨fun h => by lenfix, fun _ => h3', fun _ => hl5, fun _ => ⟨[[]], by simp, by simp⟩⟩
      · simp only [hsep, if_false, hg1]
        left
        cases hgl : g.getLast? with
        | none =>
          rw [List.getLast?_eq_none_iff] at hgl
          exact absurd hgl hg2
        | some p =>
          simp only []
          refine ⟨_, _, rfl, ?_, hcur⟩
          intro _
          refine ⟨fun h => by lenfix, fun _ => h3', fun _ => hl5, fun _ => ⟨g.dropLast ++ [p ++ [ch]], by simp, by simp⟩⟩

/-- `print_char` never gets stuck; it keeps the invariant; its only panic is the loop counter overflow -/
theorem step_good (s : Igs) (ch : Nat) (hg : IGood s) :
    (∃ s' o, step s ch = .ok s' o ∧ IGood s') ∨ Overflows s (step s ch) := by
  have hcur := hg.2
  unfold step
  cases hst : s.st with
  | dflt =>
    left
    simp only []
    split
    · exact ⟨_, _, rfl, igood_of_not_loop (by simp) hcur⟩
    · exact ⟨_, _, rfl, igood_of_not_loop (by simp [hst]) hcur⟩
  | gotIgsStart =>
    left
    simp only []
    split
    · exact ⟨_, _, rfl, igood_of_not_loop (by simp) hcur⟩
    · exact ⟨_, _, rfl, igood_of_not_loop (by simp) hcur⟩
  | skipNewLine =>
    left
    simp only []
    split
    · exact ⟨_, _, rfl, igood_of_not_loop (by simp) hcur⟩
    · split
      · exact ⟨_, _, rfl, igood_of_not_loop (by simp) hcur⟩
      · exact ⟨_, _, rfl, igood_of_not_loop (by simp) hcur⟩
  | readCommandStart =>
    left
    simp only []
    by_cases h13 : ch = 13
    · simp only [h13, if_true]
      exact ⟨_, _, rfl, igood_of_not_loop (by simp [hst]) hcur⟩
    · simp only [h13, if_false]
      by_cases h10 : ch = 10
      · simp only [h10, if_true]
        exact ⟨_, _, rfl, igood_of_not_loop (by simp) hcur⟩
      · simp only [h10, if_false]
        by_cases hl : ch = Gen.Igs.loopChar
        · simp only [hl, if_true]
          refine ⟨_, _, rfl, ?_, hcur⟩
          intro _
          exact ⟨fun _ => rfl, fun h => by simp at h, fun h => by simp at h, fun h => by simp at h⟩
        · simp only [hl, if_false]
          cases hf : fromChar ch with
          | none => exact ⟨_, _, rfl, igood_of_not_loop (by simp) hcur⟩
          | some c =>
            simp only []
            have := fromChar_ne_loop ch c hf
            exact ⟨_, _, rfl, igood_of_not_loop (by simp; exact this) hcur⟩
  | readCommand c =>
    simp only []
    by_cases hw : c = Gen.Igs.idxWriteText ∧ s.nums.length ≥ 3
    · left
      have hne : c ≠ Gen.Igs.idxLoopCommand := by
        rw [hw.1]; exact fun h => loop_ne_writeText h.symm
      simp only [hw, and_self, if_true]
      split
      · exact ⟨_, _, rfl, igood_of_not_loop (by simp) hcur⟩
      · split
        · exact ⟨_, _, rfl, igood_of_not_loop (by simp) hcur⟩
        · exact ⟨_, _, rfl, igood_of_not_loop (by simp [hst]; rw [← hw.1]; exact hne) hcur⟩
    · rw [if_neg hw]
      by_cases hlp : c = Gen.Igs.idxLoopCommand ∧ s.nums.length ≥ 4
      · rw [if_pos hlp]
        exact loopChar_good s ch (by rw [hst, hlp.1]) hlp.2 hg
      · rw [if_neg hlp]
        left
        -- plain number handling; for the loop command this is the phase before the fourth number
        have hnl : c = Gen.Igs.idxLoopCommand → s.nums.length < 4 := by
          intro h; by_cases h4 : s.nums.length ≥ 4
          · exact absurd ⟨h, h4⟩ hlp
          · omega
        have hstart : c = Gen.Igs.idxLoopCommand → s.loopSt = .start := by
          intro h
          exact (hg.1 (by rw [hst, h])).1 (hnl h)
        by_cases hsp : ch = 32 ∨ ch = 62 ∨ ch = 13
        · simp only [hsp, if_true]
          refine ⟨_, _, rfl, ?_, hcur⟩
          intro h
          exact hg.1 h
        · simp only [hsp, if_false]
          by_cases h95 : ch = 95
          · simp only [h95, if_true]
            refine ⟨_, _, rfl, ?_, hcur⟩
            intro h
            simp only [hst] at h
            have := hg.1 (by rw [hst]; exact h)
            exact this
          · simp only [h95, if_false]
            by_cases h10 : ch = 10
            · simp only [h10, if_true]
              split
              · exact ⟨_, _, rfl, igood_of_not_loop (by simp) hcur⟩
              · exact ⟨_, _, rfl, hg⟩
            · simp only [h10, if_false]
              by_cases hd : 48 ≤ ch ∧ ch ≤ 57
              · simp only [hd, and_self, if_true]
                refine ⟨_, _, rfl, ?_, hcur⟩
                intro h
                simp only [hst] at h
                have hc : c = Gen.Igs.idxLoopCommand := by
                  injection h
                have hl4 := hnl hc
                have hlen' : (s.nums.dropLast ++ [parseNextNumber (s.nums.getLast?.getD 0) ch]).length < 4 := by
                  simp [List.length_dropLast]; omega
                refine ⟨fun _ => hstart hc, fun h4 => by simp only [] at h4; omega, fun h => ?_, fun h => ?_⟩
                · simp only [] at h; rw [hstart hc] at h; simp at h
                · simp only [] at h; rw [hstart hc] at h; simp at h
              · simp only [hd, if_false]
                by_cases h44 : ch = 44
                · simp only [h44, if_true]
                  refine ⟨_, _, rfl, ?_, hcur⟩
                  intro h
                  simp only [hst] at h
                  have hc : c = Gen.Igs.idxLoopCommand := by
                    injection h
                  have hl4 := hnl hc
                  refine ⟨fun _ => hstart hc, fun h4 => ?_, fun h => ?_, fun h => ?_⟩
                  · simp only [] at h4 ⊢
                    simp at h4
                    have : s.nums.length = 3 := by lenfix
                    rw [List.getElem?_append_right (by lenfix)]
                    simp [this]
                  · simp only [] at h; rw [hstart hc] at h; simp at h
                  · simp only [] at h; rw [hstart hc] at h; simp at h
                · simp only [h44, if_false]
                  by_cases h58 : ch = 58
                  · simp only [h58, if_true]
                    exact ⟨_, _, rfl, igood_of_not_loop (by simp) hcur⟩
                  · simp only [h58, if_false]
                    exact ⟨_, _, rfl, igood_of_not_loop (by simp) hcur⟩

/-- `get_next_action` -/
theorem nextAction_good (s : Igs) (hg : IGood s) :
    (∃ s' o, nextAction s = .ok s' o ∧ IGood s') ∨ nextAction s = .panic overflowSite := by
  unfold nextAction
  cases hc : s.cur with
  | none => left; exact ⟨_, _, rfl, hg⟩
  | some l =>
    simp only []
    split
    · cases ha : l.advance with
      | none => right; rfl
      | some l' =>
        left
        simp only []
        refine ⟨_, _, rfl, ?_, ?_⟩
        · intro h; exact hg.1 h
        · intro l2 hl2
          simp at hl2
          subst hl2
          rw [advance_some ha]
          exact hg.2 l hc
    · left
      refine ⟨_, _, rfl, ?_, ?_⟩
      · intro h; exact hg.1 h
      · intro l2 hl2; simp at hl2

/-- the loop counter cannot overflow when its numbers are below 2^30 (every value the property quantifies
over is at most 99999) -/
theorem advance_safe (l : Loop) (h1 : -1073741823 ≤ l.i ∧ l.i ≤ 1073741823) (h2 : -1073741823 ≤ l.step ∧ l.step ≤ 1073741823) :
    ∃ l', l.advance = some l' := by
  unfold Loop.advance
  have : i32Min ≤ l.nextI ∧ l.nextI ≤ i32Max := by
    unfold Loop.nextI
    simp only [i32Min, i32Max]
    split <;> omega
  simp [this]

-- ------------------------------------------------------------------------------------------------ termination of the loop
/-- the loop after `n` further calls of `next_step` (overflow aside) -/
def Loop.iter (l : Loop) : Nat → Loop
  | 0 => l
  | n + 1 => if l.running then Loop.iter { l with i := l.nextI } n else l

/-- `get_next_action` eventually answers `None` -/
def Loop.Terminates (l : Loop) : Prop := ∃ n, (l.iter n).running = false

theorem running_iff (l : Loop) : l.running = true ↔ ((if l.from_ < l.to then l.i < l.to else l.i > l.to) ∧ l.step ≠ 0) := by
  unfold Loop.running
  split <;> simp

theorem iter_stops (m : Nat) : ∀ l : Loop, 0 < l.step →
    (l.from_ < l.to → l.to - l.i ≤ m) → (¬ l.from_ < l.to → l.i - l.to ≤ m) → (l.iter m).running = false := by
  induction m with
  | zero =>
    intro l hs h1 h2
    simp only [Loop.iter]
    cases hr : l.running with
    | false => rfl
    | true =>
      rw [running_iff] at hr
      by_cases hf : l.from_ < l.to
      · simp only [hf, if_true] at hr; have := h1 hf; omega
      · simp only [hf, if_false] at hr; have := h2 hf; omega
  | succ k ih =>
    intro l hs h1 h2
    simp only [Loop.iter]
    cases hr : l.running with
    | false => simp [hr]
    | true =>
      simp only [if_true]
      rw [running_iff] at hr
      apply ih
      · exact hs
      · intro hf
        have := h1 hf
        simp only [Loop.nextI, hf, if_true]
        omega
      · intro hf
        have := h2 hf
        have hf' : ¬ l.from_ < l.to := hf
        simp only [Loop.nextI, hf', if_false]
        omega

theorem iter_runs_forever (n : Nat) : ∀ l : Loop, l.step ≤ 0 → l.running = true → (l.iter n).running = true := by
  induction n with
  | zero => intro l _ hr; exact hr
  | succ k ih =>
    intro l hs hr
    simp only [Loop.iter, hr, if_true]
    apply ih
    · exact hs
    · rw [running_iff] at hr ⊢
      by_cases hf : l.from_ < l.to
      · simp only [hf, if_true] at hr ⊢
        simp only [Loop.nextI, hf, if_true]
        omega
      · simp only [hf, if_false] at hr ⊢
        simp only [Loop.nextI, hf, if_false]
        omega

theorem loop_terminates_iff (l : Loop) : l.Terminates ↔ (l.running = false ∨ 0 < l.step) := by
  constructor
  · intro ⟨n, hn⟩
    by_cases hr : l.running = true
    · by_cases hs : 0 < l.step
      · exact Or.inr hs
      · have := iter_runs_forever n l (by omega) hr
        rw [this] at hn; cases hn
    · left; simpa using hr
  · intro h
    rcases h with h | h
    · exact ⟨0, h⟩
    · refine ⟨(if l.from_ < l.to then l.to - l.i else l.i - l.to).toNat, ?_⟩
      apply iter_stops _ l h
      · intro hf; simp only [hf, if_true]; omega
      · intro hf; simp only [hf, if_false]; omega

end IcyVerif.Igs
