import IcyVerif.Lemmas.IcyDraw
/-! Lemmas about the IcyDraw model (C07): what `Layer::set_char` does to the visible content of a layer, and the
visible content after applying all the cells the reader produced. -/
set_option linter.unusedSimpArgs false
namespace IcyVerif.IcyDraw
open IcyVerif.Gen.Icy

/-- the layer takes every `set_char` (as the freshly created layer does while it is being loaded) -/
def Plain (l : Layer) : Prop := l.isLocked = false ∧ l.isVisible = true ∧ l.hasAlpha = false

theorem optCell_invisibleCell (p : Nat) : optCell (invisibleCell p) = none := by
  simp [optCell, invisibleCell, Cell.visible, attrInvisible]

/-- the stored cell at a position, if the line and the cell exist -/
def cellAt (lines : List (List Cell)) (x y : Nat) : Option Cell := (lines[y]?).bind (·[x]?)

/-- visible content stored at a position -/
def visIn (lines : List (List Cell)) (x y : Nat) : Option Cell := (cellAt lines x y).bind optCell

theorem visAt_eq (l : Layer) (x y : Nat) :
    visAt l x y = if x < l.width ∧ y < l.height then visIn l.lines x y else none := by
  unfold visAt getChar visIn cellAt
  by_cases hb : x < l.width ∧ y < l.height
  · simp only [hb, and_self, if_true]
    cases h1 : l.lines[y]? with
    | none => simp [optCell, invisibleCell, Cell.visible, attrInvisible]
    | some line =>
      cases h2 : line[x]? with
      | none => simp [h2, optCell, invisibleCell, Cell.visible, attrInvisible]
      | some c => simp [h2, optCell]
  · simp only [hb, if_false]
    simp [invisibleCell, Cell.visible, attrInvisible]

def padLines (lines : List (List Cell)) (w y : Nat) : List (List Cell) :=
  if y ≥ lines.length then lines ++ List.replicate (y + 1 - lines.length) (lineCreate w) else lines

def setLines (lines : List (List Cell)) (w x y : Nat) (c : Cell) : List (List Cell) :=
  (padLines lines w y).set y (lineSet ((padLines lines w y).getD y []) x c)

theorem setChar_plain (l : Layer) (x y : Nat) (c : Cell) (hp : Plain l) (hx : x < l.width) (hy : y < l.height) :
    setChar l x y c = { l with lines := setLines l.lines l.width x y c } := by
  obtain ⟨h1, h2, h3⟩ := hp
  simp [setChar, hx, hy, h1, h2, h3, setLines, padLines]

theorem lineSet_get (line : List Cell) (x : Nat) (c : Cell) (x' : Nat) :
    ((lineSet line x c)[x']?).bind optCell = if x' = x then optCell c else (line[x']?).bind optCell := by
  unfold lineSet
  by_cases hx : x ≥ line.length
  · simp only [hx, if_true]
    by_cases e : x' = x
    · subst e
      rw [List.getElem?_set_self (by simp; omega)]; simp
    · simp only [e, if_false]
      rw [List.getElem?_set_ne (Ne.symm e)]
      by_cases hl : x' < line.length
      · rw [List.getElem?_append_left hl]
      · rw [List.getElem?_append_right (by omega), List.getElem?_replicate]
        have : line[x']? = none := by simp; omega
        rw [this]
        split <;> simp [optCell_invisibleCell]
  · simp only [hx, if_false]
    by_cases e : x' = x
    · subst e
      rw [List.getElem?_set_self (by omega)]; simp
    · simp only [e, if_false]
      rw [List.getElem?_set_ne (Ne.symm e)]

theorem lineCreate_get (w x' : Nat) : ((lineCreate w)[x']?).bind optCell = none := by
  unfold lineCreate
  rw [List.getElem?_replicate]
  split <;> simp [optCell_invisibleCell]

theorem visIn_padLines (lines : List (List Cell)) (w y x' y' : Nat) :
    visIn (padLines lines w y) x' y' = visIn lines x' y' := by
  unfold visIn cellAt padLines
  by_cases hy : y ≥ lines.length
  · simp only [hy, if_true]
    by_cases hl : y' < lines.length
    · rw [List.getElem?_append_left hl]
    · rw [List.getElem?_append_right (by omega), List.getElem?_replicate]
      have : lines[y']? = none := by simp; omega
      rw [this]
      split
      · simp only [Option.bind_some, Option.bind_none]; exact lineCreate_get _ _
      · simp
  · simp [hy]

theorem padLines_length (lines : List (List Cell)) (w y : Nat) : y < (padLines lines w y).length := by
  unfold padLines
  by_cases h : y ≥ lines.length
  · simp only [h, if_true, List.length_append, List.length_replicate]; omega
  · simp only [h, if_false]; omega

theorem visIn_setLines (lines : List (List Cell)) (w x y : Nat) (c : Cell) (x' y' : Nat) :
    visIn (setLines lines w x y c) x' y' = if x' = x ∧ y' = y then optCell c else visIn lines x' y' := by
  have hlen := padLines_length lines w y
  rw [← visIn_padLines lines w y x' y']
  unfold setLines
  generalize padLines lines w y = pl at hlen ⊢
  unfold visIn cellAt
  by_cases ey : y' = y
  · subst ey
    rw [List.getElem?_set_self hlen]
    simp only [Option.bind_some]
    rw [lineSet_get]
    have : pl[y']? = some (pl.getD y' []) := by simp [List.getD, hlen]
    rw [this]
    simp
  · rw [List.getElem?_set_ne (Ne.symm ey)]
    simp [ey]

theorem visAt_setChar (l : Layer) (x y : Nat) (c : Cell) (hp : Plain l) (hx : x < l.width) (hy : y < l.height)
    (x' y' : Nat) :
    visAt (setChar l x y c) x' y' = if x' = x ∧ y' = y then optCell c else visAt l x' y' := by
  rw [setChar_plain l x y c hp hx hy]
  simp only [visAt_eq, visIn_setLines]
  by_cases hb : x' < l.width ∧ y' < l.height
  · simp [hb]
  · simp only [hb, if_false]
    split
    · rename_i h; obtain ⟨rfl, rfl⟩ := h; exact absurd ⟨hx, hy⟩ hb
    · rfl


/-! ## applying the cells that were read -/

/-- same layer except for the stored lines -/
def SameFields (a b : Layer) : Prop := ∃ ls, a = { b with lines := ls }

theorem SameFields.refl (l : Layer) : SameFields l l := ⟨l.lines, rfl⟩
theorem SameFields.trans {a b c : Layer} (h1 : SameFields a b) (h2 : SameFields b c) : SameFields a c := by
  obtain ⟨l1, rfl⟩ := h1; obtain ⟨l2, rfl⟩ := h2; exact ⟨l1, rfl⟩
theorem SameFields.plain {a b : Layer} (h : SameFields a b) (hp : Plain b) : Plain a := by
  obtain ⟨ls, rfl⟩ := h; exact hp
theorem SameFields.width {a b : Layer} (h : SameFields a b) : a.width = b.width := by
  obtain ⟨ls, rfl⟩ := h; rfl
theorem SameFields.height {a b : Layer} (h : SameFields a b) : a.height = b.height := by
  obtain ⟨ls, rfl⟩ := h; rfl

theorem setChar_same (l : Layer) (x y : Nat) (c : Cell) : SameFields (setChar l x y c) l := by
  unfold setChar
  simp only []
  repeat' split
  all_goals first | exact SameFields.refl l | exact ⟨_, rfl⟩

/-- the cell a row of reader outcomes writes at column `x'` when its first entry is column `x0` -/
def lookupRow : List (Option Cell) → Nat → Nat → Option Cell
  | [], _, _ => none
  | o :: cs, x0, x' => if x' = x0 then o else lookupRow cs (x0 + 1) x'

theorem lookupRow_lt (cs : List (Option Cell)) (x0 x' : Nat) (h : x' < x0) : lookupRow cs x0 x' = none := by
  induction cs generalizing x0 with
  | nil => rfl
  | cons o cs ih =>
    simp only [lookupRow]
    rw [if_neg (by omega), ih (x0 + 1) (by omega)]

theorem applyRow_spec (cs : List (Option Cell)) (l : Layer) (y x0 : Nat) (hp : Plain l) (hy : y < l.height)
    (hx : x0 + cs.length ≤ l.width) :
    SameFields (applyRow l y x0 cs) l ∧
    ∀ x' y', visAt (applyRow l y x0 cs) x' y' =
      if y' = y then (match lookupRow cs x0 x' with | some c => optCell c | none => visAt l x' y') else visAt l x' y' := by
  induction cs generalizing l x0 with
  | nil => simp [applyRow, lookupRow, SameFields.refl]
  | cons o cs ih =>
    simp only [List.length_cons] at hx
    cases o with
    | none =>
      obtain ⟨s, v⟩ := ih l (x0 + 1) hp hy (by omega)
      refine ⟨by simpa [applyRow] using s, ?_⟩
      intro x' y'
      simp only [applyRow, v, lookupRow]
      by_cases e : x' = x0
      · subst e; simp [lookupRow_lt]
      · simp [e]
    | some c =>
      have hs := setChar_same l x0 y c
      obtain ⟨s, v⟩ := ih (setChar l x0 y c) (x0 + 1) (hs.plain hp) (by rw [hs.height]; exact hy) (by rw [hs.width]; omega)
      refine ⟨by simpa [applyRow] using s.trans hs, ?_⟩
      intro x' y'
      simp only [applyRow, v, lookupRow, visAt_setChar l x0 y c hp (by omega) hy]
      by_cases ey : y' = y
      · by_cases e : x' = x0
        · subst e; simp [ey, lookupRow_lt]
        · simp [e, ey]
      · simp [ey]

/-- the cell a list of rows writes at `(x', y')` when its first row is row `y0` -/
def gridAt : List (List (Option Cell)) → Nat → Nat → Nat → Option Cell
  | [], _, _, _ => none
  | r :: rs, y0, x', y' => if y' = y0 then lookupRow r 0 x' else gridAt rs (y0 + 1) x' y'

theorem gridAt_lt (rs : List (List (Option Cell))) (y0 x' y' : Nat) (h : y' < y0) : gridAt rs y0 x' y' = none := by
  induction rs generalizing y0 with
  | nil => rfl
  | cons r rs ih =>
    simp only [gridAt]
    rw [if_neg (by omega), ih (y0 + 1) (by omega)]

theorem applyRows_spec (rows : List (List (Option Cell))) (l : Layer) (y0 : Nat) (hp : Plain l)
    (hy : y0 + rows.length ≤ l.height) (hx : ∀ r ∈ rows, r.length ≤ l.width) :
    SameFields (applyRows l y0 rows) l ∧
    ∀ x' y', visAt (applyRows l y0 rows) x' y' =
      match gridAt rows y0 x' y' with | some c => optCell c | none => visAt l x' y' := by
  induction rows generalizing l y0 with
  | nil => simp [applyRows, gridAt, SameFields.refl]
  | cons r rs ih =>
    simp only [List.length_cons] at hy
    have hr := hx r (List.mem_cons_self ..)
    obtain ⟨s1, v1⟩ := applyRow_spec r l y0 0 hp (by omega) (by omega)
    obtain ⟨s2, v2⟩ := ih (applyRow l y0 0 r) (y0 + 1) (s1.plain hp) (by rw [s1.height]; omega)
      (fun r' hr' => by rw [s1.width]; exact hx r' (List.mem_cons_of_mem _ hr'))
    refine ⟨by simpa [applyRows] using s2.trans s1, ?_⟩
    intro x' y'
    simp only [applyRows, v2, v1, gridAt]
    by_cases ey : y' = y0
    · subst ey; simp [gridAt_lt]
    · simp [ey]

end IcyVerif.IcyDraw
