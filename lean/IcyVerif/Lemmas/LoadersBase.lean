import IcyVerif.Model.Loaders
set_option linter.unusedSimpArgs false
set_option linter.unusedVariables false
/-! Weakest-precondition style lemmas for `Res` (C02).

`r.Sat P` : `r` is not a panic, and if it is `ok a` then `P a`.  One lemma per primitive; loader lemmas are
assembled with `Sat.bind`. -/
namespace IcyVerif.Bytes
namespace Res
variable {α β : Type}

/-- not a panic; a value satisfies `P` -/
def Sat (P : α → Prop) : Res α → Prop
  | .ok a => P a
  | .err => True
  | .panic _ => False

@[simp] theorem sat_ok {P : α → Prop} {a : α} : (Res.ok a).Sat P ↔ P a := Iff.rfl
@[simp] theorem sat_err {P : α → Prop} : (Res.err : Res α).Sat P ↔ True := Iff.rfl
@[simp] theorem sat_panic {P : α → Prop} {s : String} : (Res.panic s : Res α).Sat P ↔ False := Iff.rfl
@[simp] theorem sat_pure {P : α → Prop} {a : α} : (pure a : Res α).Sat P ↔ P a := Iff.rfl

theorem Sat.bind {P : α → Prop} {Q : β → Prop} {x : Res α} {f : α → Res β}
    (hx : x.Sat P) (hf : ∀ a, P a → (f a).Sat Q) : (x >>= f).Sat Q := by
  cases x with
  | ok a => exact hf a hx
  | err => trivial
  | panic s => exact hx.elim

theorem Sat.map {P : α → Prop} {Q : β → Prop} {x : Res α} {f : α → β}
    (hx : x.Sat P) (hf : ∀ a, P a → Q (f a)) : (f <$> x).Sat Q := by
  cases x with
  | ok a => exact hf a hx
  | err => trivial
  | panic s => exact hx.elim

theorem Sat.mono {P Q : α → Prop} {x : Res α} (hx : x.Sat P) (h : ∀ a, P a → Q a) : x.Sat Q := by
  cases x with
  | ok a => exact h a hx
  | err => trivial
  | panic s => exact hx.elim

theorem Sat.noPanic {P : α → Prop} {x : Res α} (hx : x.Sat P) : x.NoPanic := by
  intro s h; subst h; exact hx

theorem noPanic_iff_sat {x : Res α} : x.NoPanic ↔ x.Sat (fun _ => True) := by
  constructor
  · intro h
    cases x with
    | ok a => trivial
    | err => trivial
    | panic s => exact (h s rfl).elim
  · exact Sat.noPanic

/-- like `Sat`, but panics at sites satisfying `S` are tolerated (sites owned by other properties) -/
def SatS (S : String → Prop) (P : α → Prop) : Res α → Prop
  | .ok a => P a
  | .err => True
  | .panic s => S s

theorem SatS.bind {S : String → Prop} {P : α → Prop} {Q : β → Prop} {x : Res α} {f : α → Res β}
    (hx : x.SatS S P) (hf : ∀ a, P a → (f a).SatS S Q) : (x >>= f).SatS S Q := by
  cases x with
  | ok a => exact hf a hx
  | err => trivial
  | panic s => exact hx

theorem SatS.map {S : String → Prop} {P : α → Prop} {Q : β → Prop} {x : Res α} {f : α → β}
    (hx : x.SatS S P) (hf : ∀ a, P a → Q (f a)) : (f <$> x).SatS S Q := by
  cases x with
  | ok a => exact hf a hx
  | err => trivial
  | panic s => exact hx

theorem SatS.mono {S : String → Prop} {P Q : α → Prop} {x : Res α} (hx : x.SatS S P) (h : ∀ a, P a → Q a) : x.SatS S Q := by
  cases x with
  | ok a => exact h a hx
  | err => trivial
  | panic s => exact hx

theorem Sat.toSatS {S : String → Prop} {P : α → Prop} {x : Res α} (hx : x.Sat P) : x.SatS S P := by
  cases x with
  | ok a => exact hx
  | err => trivial
  | panic s => exact hx.elim

theorem SatS.panic_site {S : String → Prop} {P : α → Prop} {x : Res α} (hx : x.SatS S P) {s : String} (h : x = .panic s) : S s := by
  subst h; exact hx

theorem SatS.toSat {S : String → Prop} {P : α → Prop} {x : Res α} (hx : x.SatS S P) (hS : ∀ s, ¬ S s) : x.Sat P := by
  cases x with
  | ok a => exact hx
  | err => trivial
  | panic s => exact (hS s hx).elim

end Res

open Res

theorem rd_sat {s : String} {d : Bytes} {o : Nat} (h : o < d.size) : (rd s d o).Sat (fun v => v < 256) := by
  simp only [rd, h, if_true, sat_ok, byteAt]; omega

theorem rd_sat_eq {s : String} {d : Bytes} {o : Nat} (h : o < d.size) : (rd s d o).Sat (fun v => v = byteAt d o) := by
  simp only [rd, h, if_true, sat_ok]

theorem byteAt_lt (d : Bytes) (o : Nat) : byteAt d o < 256 := by
  simp only [byteAt]; omega

theorem slice_sat {s : String} {d : Bytes} {a b : Nat} (h : a ≤ b ∧ b ≤ d.size) : (slice s d a b).Sat (fun _ => True) := by
  simp only [slice, h, and_self, if_true, sat_ok]

theorem usub_sat {s : String} {a b : Nat} (h : b ≤ a) : (usub s a b).Sat (fun v => v = a - b) := by
  simp only [usub, h, if_true, sat_ok]

theorem chk32_sat {s : String} {v : Int} (h : -2147483648 ≤ v ∧ v ≤ 2147483647) : (chk32 s v).Sat (fun w => w = v) := by
  simp only [chk32, i32Min, i32Max, h, and_self, if_true, sat_ok]

theorem rdU16_sat {s : String} {d : Bytes} {o : Nat} (h : o + 1 < d.size) : (rdU16 s d o).Sat (fun v => v < 65536) := by
  have h0 : o < d.size := by omega
  simp only [rdU16, rd, h0, h, if_true, sat_ok]
  have := byteAt_lt d o; have := byteAt_lt d (o + 1); omega

theorem rdU16s_sat {s : String} {d : Bytes} {o : Nat} (h : o + 2 ≤ d.size) : (rdU16s s d o).Sat (fun v => v < 65536) := by
  have hs : o ≤ o + 2 ∧ o + 2 ≤ d.size := by omega
  simp only [rdU16s, slice, hs, and_self, if_true, sat_ok]
  have := byteAt_lt d o; have := byteAt_lt d (o + 1); omega

theorem rdU32_sat {s : String} {d : Bytes} {o : Nat} (h : o + 4 ≤ d.size) : (rdU32 s d o).Sat (fun v => v < 4294967296) := by
  have hs : o ≤ o + 4 ∧ o + 4 ≤ d.size := by omega
  simp only [rdU32, slice, hs, and_self, if_true, sat_ok]
  have := byteAt_lt d o; have := byteAt_lt d (o + 1); have := byteAt_lt d (o + 2); have := byteAt_lt d (o + 3); omega

theorem rdU64_sat {s : String} {d : Bytes} {o : Nat} (h : o + 8 ≤ d.size) : (rdU64 s d o).Sat (fun _ => True) := by
  have hs : o ≤ o + 8 ∧ o + 8 ≤ d.size := by omega
  simp only [rdU64, slice, hs, and_self, if_true, sat_ok]

/-- unconditional versions: the operation can only panic at its own site -/
theorem rd_site {s : String} {d : Bytes} {o : Nat} : (rd s d o).SatS (· = s) (fun v => v < 256) := by
  unfold rd; split
  · exact byteAt_lt d o
  · rfl

theorem slice_site {s : String} {d : Bytes} {a b : Nat} : (slice s d a b).SatS (· = s) (fun _ => a ≤ b ∧ b ≤ d.size) := by
  unfold slice; split
  · rename_i h; exact h
  · rfl

theorem usub_site {s : String} {a b : Nat} : (usub s a b).SatS (· = s) (fun v => v = a - b ∧ b ≤ a) := by
  unfold usub; split
  · rename_i h; exact ⟨rfl, h⟩
  · rfl

theorem chk32_site {s : String} {v : Int} : (chk32 s v).SatS (· = s) (fun w => w = v) := by
  unfold chk32; split
  · rfl
  · rfl

theorem rdU16_site {s : String} {d : Bytes} {o : Nat} : (rdU16 s d o).SatS (· = s) (fun v => v < 65536) := by
  unfold rdU16 rd
  by_cases h0 : o < d.size
  · by_cases h1 : o + 1 < d.size
    · simp only [h0, h1, if_true]
      have := byteAt_lt d o; have := byteAt_lt d (o + 1)
      show _ < 65536
      omega
    · simp only [h0, h1, if_true, if_false]; rfl
  · simp only [h0, if_false]; rfl

theorem asI32_range (x : Nat) : -2147483648 ≤ asI32 x ∧ asI32 x ≤ 2147483647 := by
  simp only [asI32]; split <;> omega

theorem asI32_small {x : Nat} (h : x < 2147483648) : asI32 x = (x : Int) := by
  simp only [asI32]
  have : x % 4294967296 = x := Nat.mod_eq_of_lt (by omega)
  rw [this]; simp [h]

end IcyVerif.Bytes

namespace IcyVerif.Loaders
open IcyVerif.Bytes IcyVerif.Bytes.Res

/-- `advance_pos`: with the column below a bound `B` that also bounds the width, and the row below
    `i32::MAX`, no overflow; the column stays in `[0, B)` (or below its old value + 1), the row grows by <= 1 -/
theorem advance_sat {s : String} {bw : Int} {p : Pos} {B : Int} (hB : 0 < B ∧ B ≤ 2147483647) (hbw : bw ≤ B)
    (hx : -2147483648 ≤ p.x ∧ p.x < B) (hy : -2147483648 ≤ p.y ∧ p.y < 2147483647) :
    (advance s bw p).Sat (fun q => -2147483648 ≤ q.x ∧ q.x < B ∧ (0 ≤ p.x → 0 ≤ q.x) ∧ p.y ≤ q.y ∧ q.y ≤ p.y + 1) := by
  unfold advance
  apply Sat.bind (chk32_sat (by omega)); intro x hx'
  subst hx'
  split
  · apply Sat.bind (chk32_sat (by omega)); intro y hy'
    subst hy'
    simp only [sat_pure]; omega
  · simp only [sat_pure]; omega

end IcyVerif.Loaders
