import IcyVerif.Lemmas.IgsPaint2
set_option linter.unusedSimpArgs false
set_option linter.unusedVariables false
/-! Lemmas about the IGS `DrawExecutor` model, part 3: `execute_command` keeps the invariant `Good` for every command
and every parameter list, whether it answers `Ok` or `Err`. -/
namespace IcyVerif.IgsPaint

/-- the executor state after a command that returned (`Ok` or `Err`) -/
def XOut.state? : XOut → Option Paint
  | .ok p _ => some p
  | .err p => some p
  | _ => none

theorem lift_state {r : Res Paint} {c : Char} {p' : Paint} (h : (lift r c).state? = some p') : r = .ok p' := by
  unfold lift at h
  cases r with
  | ok a => simp only [XOut.state?] at h; cases h; rfl
  | panic => simp [XOut.state?] at h
  | stall => simp [XOut.state?] at h

theorem mem_replicate_one {n v : Nat} (h : v ∈ (Array.replicate n 1).toList) : v < 16 := by
  rw [Array.toList_replicate] at h
  have := List.eq_of_mem_replicate h
  omega

theorem resetScreen_good {p : Paint} (hg : Good p) (pens : List Nat) (hp : pens.length = 16) : Good { resetScreen p with pens := pens } := by
  refine ⟨hg.res, ?_, ?_, hp, hg.line, hg.fill, hg.mem⟩
  · show (Array.replicate (resW p * resH p).toNat 1).size = _
    simp
    rfl
  · intro v hv
    exact mem_replicate_one hv

theorem resetScreen_good' {p : Paint} (hg : Good p) : Good (resetScreen p) := by
  have := resetScreen_good hg p.pens hg.pens
  exact this

theorem rbind_ok {α β : Type} {r : Res α} {f : α → Res β} {b : β} (h : r.bind f = Res.ok b) :
    ∃ a, r = .ok a ∧ f a = .ok b := by
  cases r with
  | ok a => exact ⟨a, rfl, h⟩
  | panic => cases h
  | stall => cases h

theorem resizeScreen_size (p : Paint) : (resizeScreen p).screen.size = (resW p * resH p).toNat := by
  unfold resizeScreen
  simp only []
  split
  · simp only [Array.size_extract]; omega
  · simp only [Array.size_append, Array.size_replicate]; omega

theorem resizeScreen_good {p : Paint} (hg : Good p) (r : Nat) (hr : r < 3) : Good (resizeScreen { p with res := r }) := by
  refine ⟨hr, ?_, ?_, hg.pens, hg.line, hg.fill, hg.mem⟩
  · exact resizeScreen_size _
  · intro v hv
    unfold resizeScreen at hv
    simp only [] at hv
    split at hv
    · have : v ∈ p.screen.toList := by
        rw [Array.toList_extract] at hv
        exact List.mem_of_mem_drop (List.mem_of_mem_take hv)
      exact hg.pix v this
    · rw [Array.toList_append] at hv
      rcases List.mem_append.mp hv with h1 | h1
      · exact hg.pix v h1
      · exact mem_replicate_one h1

theorem systemPalette_len : Gen.IgsPaint.systemPalette.length = 16 := by decide
theorem igsPalette_len : Gen.IgsPaint.igsPalette.length = 16 := by decide

theorem set_pens_good {p : Paint} (hg : Good p) (pens : List Nat) (hp : pens.length = 16) : Good { p with pens := pens } :=
  ⟨hg.res, hg.size, hg.pix, hp, hg.line, hg.fill, hg.mem⟩

/-- `execute_command` keeps the invariant: every command, every parameter list, `Ok` or `Err` -/
theorem exec_good {p p' : Paint} {name : String} {ps : List Int} (hg : Good p) (h : (exec p name ps).state? = some p') : Good p' := by
  have herr : ∀ {q : Paint}, (XOut.err q).state? = some p' → q = p' := by intro q hq; simp only [XOut.state?] at hq; cases hq; rfl
  have hok : ∀ {q : Paint} {c : Char}, (XOut.ok q c).state? = some p' → q = p' := by intro q c hq; simp only [XOut.state?] at hq; cases hq; rfl
  unfold exec at h
  simp only [] at h
  split at h
  · split at h
    · rw [← herr h]; exact hg
    · split at h
      · -- Initialize
        split at h
        · rw [← hok h]; exact resetScreen_good hg _ systemPalette_len
        · split at h
          · rw [← hok h]; exact hg
          · split at h
            · rw [← hok h]; exact resetScreen_good hg _ igsPalette_len
            · rw [← herr h]; exact hg
      · -- AskIG
        split at h
        · rw [← hok h]; exact hg
        · rw [← herr h]; exact hg
      · -- Cursor
        split at h
        · rw [← hok h]; exact hg
        · rw [← herr h]; exact hg
      · -- ColorSet
        split at h
        · rw [← herr h]; exact hg
        · rename_i hr
          have h15 : (ps.getD 1 0).toNat < 16 := by omega
          split at h
          · rw [← hok h]; exact ⟨hg.res, hg.size, hg.pix, hg.pens, hg.line, hg.fill, hg.mem⟩
          · split at h
            · rw [← hok h]; exact ⟨hg.res, hg.size, hg.pix, hg.pens, h15, hg.fill, hg.mem⟩
            · split at h
              · rw [← hok h]; exact ⟨hg.res, hg.size, hg.pix, hg.pens, hg.line, h15, hg.mem⟩
              · split at h
                · rw [← hok h]; exact ⟨hg.res, hg.size, hg.pix, hg.pens, hg.line, hg.fill, hg.mem⟩
                · rw [← herr h]; exact hg
      · -- SetPenColor
        split at h
        · rw [← herr h]; exact hg
        · split at h
          · rw [← hok h]
            exact ⟨hg.res, hg.size, hg.pix, by simp [hg.pens], hg.line, hg.fill, hg.mem⟩
          · simp [XOut.state?] at h
      · -- DrawLine
        have := lift_state h
        obtain ⟨p1, h1, h2⟩ := rbind_ok this
        cases h2
        have g1 := hg.of_keeps (drawLine_keeps hg.line h1)
        exact ⟨g1.res, g1.size, g1.pix, g1.pens, g1.line, g1.fill, g1.mem⟩
      · -- LineDrawTo
        have := lift_state h
        obtain ⟨p1, h1, h2⟩ := rbind_ok this
        cases h2
        have g1 := hg.of_keeps (drawLine_keeps hg.line h1)
        exact ⟨g1.res, g1.size, g1.pix, g1.pens, g1.line, g1.fill, g1.mem⟩
      · -- Box
        have := lift_state h
        obtain ⟨p1, h1, h2⟩ := bind_ok this
        have k1 := fillRect_keeps hg.fill h1
        have f1 : p1.fillColor < 16 := by rw [k1.1.fillColor]; exact hg.fill
        split at h2
        · obtain ⟨p2, e2, h2⟩ := bind_ok h2
          obtain ⟨p3, e3, h2⟩ := bind_ok h2
          obtain ⟨p4, e4, h2⟩ := bind_ok h2
          exact hg.of_keeps (k1.trans ((drawLine_keeps f1 e2).trans ((drawLine_keeps f1 e3).trans ((drawLine_keeps f1 e4).trans (drawLine_keeps f1 h2)))))
        · have := pure_ok h2; subst this; exact hg.of_keeps k1
      · -- RoundedRectangles
        exact hg.of_keeps (roundRect_keeps hg.fill (lift_state h))
      · -- HollowSet
        split at h
        · rw [← hok h]; exact hg
        · rw [← herr h]; exact hg
      · -- Pieslice
        rw [← hok h]; exact hg
      · -- Circle
        have := lift_state h
        obtain ⟨p1, h1, h2⟩ := bind_ok this
        have k1 := ellipse_keeps hg.fill hg.line h1
        split at h2
        · exact hg.of_keeps (k1.trans (drawCircle_keeps (by rw [k1.1.lineColor]; exact hg.line) h2))
        · have := pure_ok h2; subst this; exact hg.of_keeps k1
      · -- Ellipse
        have := lift_state h
        obtain ⟨p1, h1, h2⟩ := bind_ok this
        have k1 := ellipse_keeps hg.fill hg.line h1
        split at h2
        · exact hg.of_keeps (k1.trans (ellipse_keeps (by rw [k1.1.fillColor]; exact hg.fill) (by rw [k1.1.lineColor]; exact hg.line) h2))
        · have := pure_ok h2; subst this; exact hg.of_keeps k1
      · -- EllipticalArc
        rw [← hok h]; exact hg
      · -- QuickPause
        split at h
        · rw [← hok h]; exact ⟨hg.res, hg.size, hg.pix, hg.pens, hg.line, hg.fill, hg.mem⟩
        · split at h
          · rw [← hok h]; exact ⟨hg.res, hg.size, hg.pix, hg.pens, hg.line, hg.fill, hg.mem⟩
          · split at h
            · rw [← hok h]; exact hg
            · rw [← herr h]; exact hg
      · -- AttributeForFills
        split at h
        · rw [← herr h]; exact hg
        · split at h
          · rw [← hok h]; exact ⟨hg.res, hg.size, hg.pix, hg.pens, hg.line, hg.fill, hg.mem⟩
          · split at h
            · rw [← hok h]; exact ⟨hg.res, hg.size, hg.pix, hg.pens, hg.line, hg.fill, hg.mem⟩
            · rw [← herr h]; exact ⟨hg.res, hg.size, hg.pix, hg.pens, hg.line, hg.fill, hg.mem⟩
      · -- FilledRectangle
        exact hg.of_keeps (fillRect_keeps hg.fill (lift_state h))
      · -- TimeAPause
        rw [← hok h]; exact hg
      · -- PolymarkerPlot
        exact hg.of_keeps (drawPolyMarker_keeps hg.line (lift_state h))
      · -- TextEffects
        split at h
        · rw [← herr h]; exact hg
        · split at h
          · rw [← herr h]; exact hg
          · split at h
            · rw [← herr h]; exact hg
            · rw [← hok h]; exact hg
      · -- LineMarkerTypes
        split at h
        · split at h
          · rw [← hok h]; exact ⟨hg.res, hg.size, hg.pix, hg.pens, hg.line, hg.fill, hg.mem⟩
          · rw [← herr h]; exact hg
        · split at h
          · split at h
            · rw [← hok h]; exact ⟨hg.res, hg.size, hg.pix, hg.pens, hg.line, hg.fill, hg.mem⟩
            · rw [← herr h]; exact hg
          · rw [← herr h]; exact hg
      · -- DrawingMode
        split at h
        · rw [← hok h]; exact hg
        · rw [← herr h]; exact hg
      · -- SetResolution
        split at h
        · rename_i hr
          have hr3 : (ps.getD 0 0).toNat < 3 := by omega
          have g1 := resizeScreen_good hg (ps.getD 0 0).toNat hr3
          split at h
          · rw [← hok h]; exact g1
          · split at h
            · rw [← hok h]; exact set_pens_good g1 _ systemPalette_len
            · split at h
              · rw [← hok h]; exact set_pens_good g1 _ igsPalette_len
              · rw [← herr h]; exact g1
        · rw [← herr h]; exact hg
      · -- WriteText
        simp [XOut.state?] at h
      · -- FloodFill
        exact hg.of_keeps (floodFill_keeps hg.fill (lift_state h))
      · -- VTColor
        split at h
        · split at h
          · split at h
            · rw [← hok h]; exact hg
            · rw [← herr h]; exact hg
          · simp [XOut.state?] at h
        · rw [← herr h]; exact hg
      · -- VTPosition
        rw [← hok h]; exact hg
      · simp [XOut.state?] at h
  · split at h
    · -- ScreenClear
      rw [← hok h]; exact resetScreen_good' hg
    · -- PolyFill
      split at h
      · simp [XOut.state?] at h
      · rw [← herr h]; exact hg
      · have := lift_state h
        obtain ⟨p1, h1, h2⟩ := bind_ok this
        have k1 := fillPoly_keeps hg.fill h1
        split at h2
        · exact hg.of_keeps (k1.trans (drawPoly_keeps (by rw [k1.1.fillColor]; exact hg.fill) h2))
        · have := pure_ok h2; subst this; exact hg.of_keeps k1
    · -- PolyLine
      split at h
      · simp [XOut.state?] at h
      · rw [← herr h]; exact hg
      · have := lift_state h
        obtain ⟨p1, h1, h2⟩ := rbind_ok this
        cases h2
        have g1 := hg.of_keeps (drawPolyline_keeps hg.fill h1)
        exact ⟨g1.res, g1.size, g1.pix, g1.pens, g1.line, g1.fill, g1.mem⟩
    · -- GrabScreen
      split at h
      · rw [← herr h]; exact hg
      · split at h
        · split at h
          · rw [← herr h]; exact hg
          · exact hg.of_keeps (blitScreenToScreen_keeps (lift_state h))
        · split at h
          · split at h
            · rw [← herr h]; exact hg
            · exact blitScreenToMemory_good hg (lift_state h)
          · split at h
            · split at h
              · rw [← herr h]; exact hg
              · exact hg.of_keeps (blitMemoryToScreen_keeps hg.mem (lift_state h))
            · split at h
              · split at h
                · rw [← herr h]; exact hg
                · exact hg.of_keeps (blitMemoryToScreen_keeps hg.mem (lift_state h))
              · rw [← herr h]; exact hg
    · rw [← herr h]; exact hg

end IcyVerif.IgsPaint
