import IcyVerif.Lemmas.Crc
set_option linter.unusedSimpArgs false
namespace IcyVerif.Crc
open IcyVerif.Gen.Crc

theorem mask8_16 (j : Nat) : (255#16).getLsbD j = decide (j < 8) := by
  have : (255 : Nat) = 2^8 - 1 := by decide
  simp only [BitVec.getLsbD_ofNat, this, Nat.testBit_two_pow_sub_one]
  by_cases h : j < 8 <;> simp [h]; omega

theorem id16_1 (c : BitVec 16) (b : BitVec 8) :
    c ^^^ (b.setWidth 16 <<< 8) = ((((c >>> 8).setWidth 8) ^^^ b).setWidth 16 <<< 8) ^^^ (c &&& 0xFF#16) := by
  apply BitVec.eq_of_getLsbD_eq
  intro j hj
  simp only [BitVec.getLsbD_xor, BitVec.getLsbD_and, BitVec.getLsbD_shiftLeft, BitVec.getLsbD_setWidth,
    BitVec.getLsbD_ushiftRight, mask8_16]
  by_cases h : j < 8
  · simp [h]
  · have e : 8 + (j - 8) = j := by omega
    have e2 : j - 8 < 8 := by omega
    have e3 : j - 8 < 16 := by omega
    simp [h, e, e2, e3, hj]

theorem id16_2 (c : BitVec 16) : (c &&& 0xFF#16) <<< 8 = c <<< 8 := by
  apply BitVec.eq_of_getLsbD_eq
  intro j hj
  simp only [BitVec.getLsbD_shiftLeft, BitVec.getLsbD_and, mask8_16]
  by_cases h : j < 8
  · simp [h]
  · have e2 : j - 8 < 8 := by omega
    simp [h, e2]

theorem ofNat_shl8 (x : BitVec 8) : BitVec.ofNat 16 (x.toNat <<< 8) = (x.setWidth 16) <<< 8 := by
  apply BitVec.eq_of_toNat_eq
  simp [BitVec.toNat_shiftLeft, Nat.shiftLeft_eq]

theorem update_crc16_eq (c : BitVec 16) (b : BitVec 8) : updateCrc16 c b = bitUpd16 c b := by
  unfold updateCrc16 bitUpd16
  rw [id16_1, ← Z16, Z16_linear, tab16_eq _ (BitVec.isLt _), ofNat_shl8]
  have : Z16 (c &&& 0xFF#16) = c <<< 8 := by
    unfold Z16
    rw [step16_clean _ 8 (by omega), id16_2]
    intro j hj
    have : ¬ (15 - j < 8) := by omega
    simp [mask8_16, this]
  rw [this]
  exact BitVec.xor_comm _ _

theorem get_crc16_eq' (bs : List (BitVec 8)) (c : BitVec 16) :
    bs.foldl updateCrc16 c = bs.foldl bitUpd16 c := by
  induction bs generalizing c with
  | nil => rfl
  | cons b bs ih => simp only [List.foldl]; rw [update_crc16_eq, ih]

end IcyVerif.Crc
