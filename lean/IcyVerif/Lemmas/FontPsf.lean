import IcyVerif.Lemmas.FontRaw
set_option linter.unusedSimpArgs false
set_option linter.unusedVariables false
/-!
# C17: what the PSF1 / PSF2 loaders accept and ignore (`load_psf1`, `load_psf2` of src/fonts.rs)

* `glyphsFromU8_flat_tail` — the glyph loop takes every complete `h`-byte chunk and ignores a shorter rest;
* `fromBytes_psf1` — a PSF1 file is rejected only for character size 0 (repair of `BitFont::from_bytes`): mode bit 0 picks the nominal length 256 / 512, every other mode bit
  (HASTAB, HASSEQ) is ignored, and EVERYTHING behind the 4-byte header is cut into glyphs (a unicode table is read as
  further glyphs, missing glyphs are not noticed);
* `fromBytes_psf2` — the PSF2 header fields: the exact acceptance condition and the result, for every value of every
  field (`psf2File`), in particular `flags` (never read) and `headersize` (only used as the offset of the glyph data and in
  the length equation).
-/
namespace IcyVerif.Font
open IcyVerif.Uni

theorem glyphLoop_flat_tail (h : Nat) (hh : 1 ≤ h) (t : List Nat) (ht : t.length < h) (gs : List (Option Glyph))
    (hr : AllRows h gs) :
    ∀ (ch fuel : Nat), ch + gs.length ≤ 55296 → (flat gs ++ t).length ≤ fuel → glyphLoop h fuel ch (flat gs ++ t) = gs := by
  induction gs with
  | nil =>
    intro ch fuel _ _
    cases fuel with
    | zero => rfl
    | succ n =>
      simp only [glyphLoop, flat, List.nil_append]
      cases hs : splitExact h t with
      | none => rfl
      | some p =>
        obtain ⟨g, rest⟩ := p
        obtain ⟨hl, he⟩ := splitExact_some h t g rest hs
        rw [he] at ht; simp at ht; omega
  | cons g gs ih =>
    intro ch fuel hch hf
    obtain ⟨r, rfl, hl⟩ := hr g (List.mem_cons_self ..)
    simp only [flat, List.length_append] at hf
    cases fuel with
    | zero => omega
    | succ n =>
      simp only [glyphLoop, flat, List.append_assoc]
      rw [← hl, splitExact_append]
      simp only
      have hs : isScalar ch = true := by rw [isScalar_iff]; simp at hch; omega
      rw [hs]
      simp only [if_true]
      congr 1
      rw [hl]
      apply ih hr.tail
      · simp at hch; omega
      · simp only [List.length_append]; omega

/-- every complete `h`-byte chunk becomes a glyph, a shorter rest is ignored -/
theorem glyphsFromU8_flat_tail (h : Nat) (hh : 1 ≤ h) (gs : List (Option Glyph)) (hr : AllRows h gs)
    (hn : gs.length ≤ 55296) (t : List Nat) (ht : t.length < h) : glyphsFromU8 h (flat gs ++ t) = gs := by
  unfold glyphsFromU8
  rw [if_neg (by omega)]
  exact glyphLoop_flat_tail h hh t ht gs hr 0 _ (by omega) (Nat.le_refl _)

/-- **PSF1**: behind the magic number only the character size is checked (0 is rejected) -/
theorem fromBytes_psf1 (mode charsize : Nat) (hcs : charsize ≠ 0) (rest : List Nat) :
    fromBytes (0x36 :: 0x04 :: mode :: charsize :: rest) =
      .ok { w := 8, h := charsize, length := if mode % 2 = 1 then 512 else 256, glyphs := glyphsFromU8 charsize rest } := by
  unfold fromBytes
  simp [loadPsf1, hcs]

/-- a PSF1 header with character size 0 is not a font -/
theorem fromBytes_psf1_zero (mode : Nat) (rest : List Nat) :
    fromBytes (0x36 :: 0x04 :: mode :: 0 :: rest) = .err := by
  unfold fromBytes
  simp

/-- a PSF2 file with arbitrary header fields -/
def psf2File (version hs flags len cs height width : Nat) (body : List Nat) : List Nat :=
  u32le psf2Magic ++ u32le version ++ u32le hs ++ u32le flags ++ u32le len ++ u32le cs ++ u32le height ++ u32le width ++ body

theorem psf2File_length (version hs flags len cs height width : Nat) (body : List Nat) :
    (psf2File version hs flags len cs height width body).length = 32 + body.length := by
  simp [psf2File, u32le]; omega

/-- **PSF2**: the loader's decision and result for EVERY value of every header field (all fields below 2^32) -/
theorem fromBytes_psf2 (version hs flags len cs height width : Nat) (body : List Nat)
    (hv : version < 4294967296) (hhs : hs < 4294967296) (hl : len < 4294967296) (hc : cs < 4294967296)
    (hht : height < 4294967296) (hw : width < 4294967296) :
    fromBytes (psf2File version hs flags len cs height width body) =
      (if version > 0 then .err
       else if asI32 len < 0 ∨ asI32 cs ≤ 0 ∨ asI32 len * asI32 cs + (hs : Int) ≠ ((32 + body.length : Nat) : Int) ∨
           asI32 cs ≠ ((height * ((width + 7) / 8) : Nat) : Int) then .err
       else .ok { w := asI32 width, h := asI32 height, length := asI32 len,
                  glyphs := glyphsFromU8 height ((psf2File version hs flags len cs height width body).drop hs) }) := by
  have hlen := psf2File_length version hs flags len cs height width body
  generalize hF : psf2File version hs flags len cs height width body = F at hlen
  have hF' := hF
  unfold psf2File at hF
  simp only [u32le, psf2Magic, List.cons_append, List.nil_append] at hF
  rw [← hF]
  unfold fromBytes
  simp only
  rw [if_neg (by decide), if_pos (by decide)]
  unfold loadPsf2
  rw [hF, hlen]
  rw [if_neg (by omega)]
  rw [← hF]
  simp only [rd32, List.drop_succ_cons, List.drop_zero]
  rw [le32_u32le, le32_u32le, le32_u32le, le32_u32le, le32_u32le, le32_u32le]
  rw [Nat.mod_eq_of_lt hv, Nat.mod_eq_of_lt hhs, Nat.mod_eq_of_lt hl, Nat.mod_eq_of_lt hc, Nat.mod_eq_of_lt hht, Nat.mod_eq_of_lt hw]

theorem u32le_small (n : Nat) (h : n < 256) : u32le n = [n, 0, 0, 0] := by
  unfold u32le
  have e1 : n % 256 = n := Nat.mod_eq_of_lt h
  have e2 : n / 256 % 256 = 0 := by omega
  have e3 : n / 65536 % 256 = 0 := by omega
  have e4 : n / 16777216 % 256 = 0 := by omega
  rw [e1, e2, e3, e4]

end IcyVerif.Font
