import IcyVerif.Lemmas.Crc32
set_option linter.unusedSimpArgs false
namespace IcyVerif.Crc
open IcyVerif.Gen.Crc

def Zn (k : Nat) (x : BitVec 32) : BitVec 32 := iter Z k x
theorem Zn_linear (k : Nat) (a b : BitVec 32) : Zn k (a ^^^ b) = Zn k a ^^^ Zn k b := iter_linear _ Z_linear k a b
theorem Zn_succ (k : Nat) (x : BitVec 32) : Zn (k+1) x = Z (Zn k x) := iter_succ' _ _ _
theorem Zn_succ_in (k : Nat) (x : BitVec 32) : Zn (k+1) x = Zn k (Z x) := rfl
theorem Z_zero : Z 0 = 0 := by decide +kernel
theorem Zn_zero (k : Nat) : Zn k 0 = 0 := by
  induction k with
  | zero => rfl
  | succ k ih => rw [Zn_succ, ih, Z_zero]

theorem okChain_spec (L : List (List Nat)) (h : okChain L = true) (k : Nat) (hk : k + 1 < L.length) :
    ok2 P32next (L.getD k []) (L.getD (k+1) []) = true ∧ (L.getD k []).length = 256 := by
  induction L generalizing k with
  | nil => simp at hk
  | cons a L ih =>
    cases L with
    | nil => simp at hk
    | cons b rest =>
      simp only [okChain, Bool.and_eq_true, beq_iff_eq] at h
      cases k with
      | zero => simpa using h.1
      | succ k =>
        have := ih h.2 k (by simpa using hk)
        simpa using this

theorem tab32_succ (k i : Nat) (hk : k + 1 < 16) (hi : i < 256) : tab32 (k+1) i = Z (tab32 k i) := by
  have h := okChain_spec t32 t32_chain_ok.1 k (by rw [t32_chain_ok.2]; exact hk)
  have := ok2_spec P32next _ _ h.1 i (by rw [h.2]; exact hi)
  simp only [P32next, beq_iff_eq] at this
  unfold tab32
  rw [this, Z_eq, BitVec.xor_comm]

theorem tab32_eq (k i : Nat) (hk : k < 16) (hi : i < 256) : tab32 k i = Zn (k+1) (BitVec.ofNat 32 i) := by
  induction k with
  | zero => rw [tab32_0_eq i hi]; rfl
  | succ k ih => rw [tab32_succ k i hk hi, ih (by omega), ← Zn_succ]

theorem term_plain (k : Nat) (hk : k < 16) (b : BitVec 8) : tab32 k b.toNat = Zn (k+1) (b.setWidth 32) := by
  rw [tab32_eq k _ hk (BitVec.isLt _)]
  congr 1
  apply BitVec.eq_of_toNat_eq
  simp

theorem byte_lt (r : BitVec 32) : (r &&& 0xFF#32).toNat < 256 := by
  have : (r &&& 0xFF#32).toNat ≤ 255 := by
    rw [BitVec.toNat_and]; exact Nat.and_le_right
  omega

theorem term_mixed (k : Nat) (hk : k < 16) (b : BitVec 8) (r : BitVec 32) :
    tab32 k (b.toNat ^^^ (r &&& 0xFF#32).toNat) = Zn (k+1) (b.setWidth 32) ^^^ Zn (k+1) (r &&& 0xFF#32) := by
  have hlt : b.toNat ^^^ (r &&& 0xFF#32).toNat < 256 :=
    Nat.xor_lt_two_pow (n := 8) (BitVec.isLt _) (byte_lt r)
  rw [tab32_eq k _ hk hlt, ← Zn_linear]
  congr 1
  apply BitVec.eq_of_toNat_eq
  have h2 : (r &&& 0xFF#32).toNat < 2 ^ 32 := BitVec.isLt _
  have h1 : b.toNat < 2 ^ 32 := Nat.lt_trans (BitVec.isLt _) (by decide)
  simp

/-- contribution of the data bytes when `bs` is pushed through the register -/
def contrib : List (BitVec 8) → BitVec 32
  | [] => 0
  | b :: bs => Zn (bs.length + 1) (b.setWidth 32) ^^^ contrib bs

theorem foldl_bitUpd (bs : List (BitVec 8)) (r : BitVec 32) :
    bs.foldl bitUpd32 r = Zn bs.length r ^^^ contrib bs := by
  induction bs generalizing r with
  | nil => simp [contrib, Zn, iter]
  | cons b bs ih =>
    simp only [List.foldl, contrib, List.length_cons]
    rw [ih]
    have : bitUpd32 r b = Z (r ^^^ b.setWidth 32) := rfl
    rw [this, ← Zn_succ_in, Zn_linear, BitVec.xor_assoc]

theorem Z_split (x : BitVec 32) : Z x = Z (x &&& 0xFF#32) ^^^ (x >>> 8) := by
  have e : (x.setWidth 8).setWidth 32 = x &&& 0xFF#32 := by
    apply BitVec.eq_of_getLsbD_eq
    intro j hj
    simp only [BitVec.getLsbD_setWidth, BitVec.getLsbD_and, mask8_32]
    by_cases h : j < 8 <;> simp [h, hj]
  conv => lhs; rw [split32 x]
  rw [Z_linear, hi_clean, e]

theorem Zn16_split (r : BitVec 32) :
    Zn 16 r = Zn 16 (r &&& 0xFF#32) ^^^ Zn 15 ((r >>> 8) &&& 0xFF#32) ^^^ Zn 14 ((r >>> 16) &&& 0xFF#32)
      ^^^ Zn 13 ((r >>> 24) &&& 0xFF#32) := by
  have h32 : r >>> 8 >>> 8 >>> 8 >>> 8 = 0 := by
    apply BitVec.eq_of_getLsbD_eq
    intro j hj
    simp only [BitVec.getLsbD_ushiftRight]
    have : r.getLsbD (8 + (8 + (8 + (8 + j)))) = false := BitVec.getLsbD_of_ge _ _ (by omega)
    simp [this]
  have e16 : r >>> 16 = r >>> 8 >>> 8 := by rw [← BitVec.shiftRight_add]
  have e24 : r >>> 24 = r >>> 8 >>> 8 >>> 8 := by rw [← BitVec.shiftRight_add, ← BitVec.shiftRight_add]
  rw [e16, e24]
  rw [Zn_succ_in 15 r, Z_split r, Zn_linear]
  rw [Zn_succ_in 14 (r >>> 8), Z_split (r >>> 8), Zn_linear]
  rw [Zn_succ_in 13 (r >>> 8 >>> 8), Z_split (r >>> 8 >>> 8), Zn_linear]
  rw [Zn_succ_in 12 (r >>> 8 >>> 8 >>> 8), Z_split (r >>> 8 >>> 8 >>> 8), Zn_linear, h32, Zn_zero]
  simp only [← Zn_succ_in]
  ac_rfl

end IcyVerif.Crc

namespace IcyVerif.Crc
open IcyVerif.Gen.Crc

theorem slice_eq (r : BitVec 32) (b0 b1 b2 b3 b4 b5 b6 b7 b8 b9 b10 b11 b12 b13 b14 b15 : BitVec 8)
    (rest : List (BitVec 8)) :
    sliceStep r (b0 :: b1 :: b2 :: b3 :: b4 :: b5 :: b6 :: b7 :: b8 :: b9 :: b10 :: b11 :: b12 :: b13 :: b14 :: b15 :: rest)
      = [b0, b1, b2, b3, b4, b5, b6, b7, b8, b9, b10, b11, b12, b13, b14, b15].foldl bitUpd32 r := by
  rw [foldl_bitUpd]
  simp only [sliceStep, crc32Chain, List.foldl, chainTerm, List.getD_cons_zero, List.getD_cons_succ,
    contrib, List.length_cons, List.length_nil, BitVec.zero_xor, if_pos, if_neg, Nat.zero_ne_one,
    ite_true, ite_false, reduceCtorEq, Nat.reduceEqDiff, Nat.reduceAdd]
  rw [term_plain 0 (by decide), term_plain 1 (by decide), term_plain 2 (by decide), term_plain 3 (by decide),
    term_plain 4 (by decide), term_plain 5 (by decide), term_plain 6 (by decide), term_plain 7 (by decide),
    term_plain 8 (by decide), term_plain 9 (by decide), term_plain 10 (by decide), term_plain 11 (by decide),
    term_mixed 12 (by decide), term_mixed 13 (by decide), term_mixed 14 (by decide)]
  have e0 : r >>> 0 = r := by simp
  rw [e0, term_mixed 15 (by decide), Zn16_split r]
  ac_rfl

end IcyVerif.Crc
