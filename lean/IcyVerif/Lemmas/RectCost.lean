import IcyVerif.Model.RectCost
set_option linter.unusedSimpArgs false
set_option linter.unusedVariables false
/-! The rectangle-area commands visit at most one screenful of cells, whatever their parameters (C03). -/
namespace IcyVerif.RectCost

theorem sat_le (v : Int) : sat v ≤ 2147483647 := by unfold sat i32Max i32Min; split <;> (try split) <;> omega
theorem sat_ge (v : Int) : -2147483648 ≤ sat v := by unfold sat i32Max i32Min; split <;> (try split) <;> omega

theorem parseNextNumber_le (x : Int) (ch : Nat) : parseNextNumber x ch ≤ 2147483647 := sat_le _

/-- a parameter never exceeds `i32::MAX`, however many digits were sent -/
theorem foldl_parse_le : ∀ (ds : List Nat) (acc : Int), acc ≤ 2147483647 → ds.foldl parseNextNumber acc ≤ 2147483647 := by
  intro ds
  induction ds with
  | nil => intro acc h; exact h
  | cons d ds ih => intro acc _; exact ih _ (parseNextNumber_le acc d)

theorem paramOf_le (ds : List Nat) : paramOf ds ≤ 2147483647 := foldl_parse_le ds 0 (by omega)

theorem rqcraOk_bounds {nums : List Int} {tw th : Int} (h : rqcraOk nums tw th = true) :
    0 ≤ num nums 2 ∧ num nums 2 ≤ num nums 4 ∧ num nums 4 ≤ th ∧ 0 ≤ num nums 3 ∧ num nums 3 ≤ num nums 5 ∧ num nums 5 ≤ tw := by
  unfold rqcraOk at h
  simp only [Bool.and_eq_true, Bool.not_eq_true', Bool.or_eq_false_iff, decide_eq_false_iff_not] at h
  omega

/-- DECRQCRA visits at most width x height cells (and none when the rectangle is rejected) -/
theorem rqcraCount_le (nums : List Int) (tw th : Int) : rqcraCount nums tw th ≤ tw.toNat * th.toNat := by
  unfold rqcraCount
  split
  · rename_i h
    have hb := rqcraOk_bounds h
    rw [Nat.mul_comm tw.toNat th.toNat]
    exact Nat.mul_le_mul (by omega) (by omega)
  · exact Nat.zero_le _

/-- the accepted rectangle lies inside the screen: this is what the guard is for -/
theorem rqcra_inside (nums : List Int) (tw th : Int) (h : rqcraOk nums tw th = true) :
    0 ≤ num nums 2 ∧ num nums 4 ≤ th ∧ 0 ≤ num nums 3 ∧ num nums 5 ≤ tw := by
  have := rqcraOk_bounds h; omega

theorem areaCount_le (nums : List Int) (off : Nat) (lines tw th : Int) (h1 : 1 ≤ tw) (h2 : 1 ≤ th) :
    areaCount (rectArea nums off lines tw th) ≤ tw.toNat * (max lines th).toNat := by
  unfold areaCount rectArea
  simp only []
  rw [Nat.mul_comm tw.toNat]
  apply Nat.mul_le_mul
  · omega
  · omega

/-- DECFRA / DECERA / DECSERA write at most width x max(rows present, height) cells, whatever the parameters -/
theorem rectCount_le (nums : List Int) (off : Nat) (lines tw th : Int) (h1 : 1 ≤ tw) (h2 : 1 ≤ th) :
    rectCount nums off lines tw th ≤ tw.toNat * (max lines th).toNat := by
  unfold rectCount
  split
  · exact areaCount_le nums off lines tw th h1 h2
  · exact Nat.zero_le _

end IcyVerif.RectCost
