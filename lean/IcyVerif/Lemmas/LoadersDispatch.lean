import IcyVerif.Lemmas.LoadersXb
import IcyVerif.Lemmas.LoadersIdfTnd
set_option linter.unusedSimpArgs false
set_option linter.unusedVariables false
/-! `Buffer::from_bytes`: SAUCE length arithmetic and dispatch never panic (C02). -/
namespace IcyVerif.Loaders
open IcyVerif.Bytes IcyVerif.Bytes.Res IcyVerif.Gen IcyVerif.Gen.Loaders

/-- the only site `from_bytes` can panic at: inside `SauceData::extract` (owned by C11) -/
def SauceSite (s : String) : Prop := s = sSauce

/-- the comment-block part of `extract`: only its own site -/
theorem sauceComments_site (d : Bytes) (comments : Nat) :
    (if comments > 0 then do
        let rest ← usub sSauce d.size sauceLen
        if sauceCommentCheckUsize then
          if rest < comments * 64 + 5 then Res.err else do
            let cs ← usub sSauce rest (comments * 64 + 5)
            slice sSauce d cs (cs + 5)
            if !matchAt d cs sauceCommentId then Res.err else pure cs
        else do
          let a ← chk32 sSauce (asI32 rest - (comments : Int) * 64)
          let b ← chk32 sSauce (a - 5)
          if b < 0 then Res.err else do
            let c1 ← usub sSauce rest (comments * 64)
            let cs ← usub sSauce c1 5
            slice sSauce d cs (cs + 5)
            if !matchAt d cs sauceCommentId then Res.err else pure cs
      else usub sSauce d.size sauceLen : Res Nat).SatS SauceSite (fun _ => True) := by
  split
  · apply SatS.bind usub_site; intro rest _
    split
    · split
      · exact True.intro
      · apply SatS.bind usub_site; intro cs _
        apply SatS.bind slice_site; intro _ _
        split
        · exact True.intro
        · exact True.intro
    · apply SatS.bind chk32_site; intro a _
      apply SatS.bind chk32_site; intro b _
      split
      · exact True.intro
      · apply SatS.bind usub_site; intro c1 _
        apply SatS.bind usub_site; intro cs _
        apply SatS.bind slice_site; intro _ _
        split
        · exact True.intro
        · exact True.intro
  · exact SatS.mono usub_site (fun _ _ => True.intro)

/-- whatever `extract` returns, the header length it reports does not exceed the file length, and it can
    only panic at its own site -/
theorem sauceInfo_site (d : Bytes) (dateOk : Bool) :
    (sauceInfo d dateOk).SatS SauceSite (fun r => ∀ si, r = some si → si.headerLen ≤ d.size ∧ si.w < 65536) := by
  unfold sauceInfo
  split
  · intro si h; cases h
  · apply SatS.bind usub_site; intro o _
    apply SatS.bind slice_site; intro _ _
    split
    · intro si h; cases h
    · apply SatS.bind slice_site; intro _ _
      split
      · exact True.intro
      · split
        · exact True.intro
        · apply SatS.bind rd_site; intro dataType _
          apply SatS.bind rd_site; intro fileType _
          apply SatS.bind rdU16_site; intro t1 ht1
          apply SatS.bind rdU16_site; intro t2 _
          apply SatS.bind rd_site; intro comments _
          dsimp only
          apply SatS.bind (sauceComments_site d comments); intro len _
          refine SatS.bind (P := fun _ => True) ?_ ?_
          · split
            · exact True.intro
            · exact SatS.mono usub_site (fun _ _ => True.intro)
          · intro offset _
            apply SatS.bind usub_site; intro hl hhl
            intro si h
            cases h
            refine ⟨by show hl ≤ d.size; omega, ?_⟩
            show (if dataType = sauceTypeBinaryText then ((fileType * 2) % 65536, 25)
                  else if dataType = sauceTypeXBin then (t1, t2)
                  else if dataType = sauceTypeCharacter ∧ sauceCharTypes.contains fileType then (t1, t2)
                  else ((80 : Nat), (25 : Nat))).1 < 65536
            split
            · show fileType * 2 % 65536 < 65536; omega
            · split
              · exact ht1
              · split
                · exact ht1
                · show (80 : Nat) < 65536; omega

/-- `len -= sauce.sauce_header_len` and `&bytes[..len]` never panic -/
theorem dispatchLen_site (d : Bytes) (dateOk : Bool) :
    (dispatchLen d dateOk).SatS SauceSite (fun r => r.1 ≤ d.size ∧ ∀ sw sh, r.2 = some (sw, sh) → sw < 65536) := by
  unfold dispatchLen
  have h := sauceInfo_site d dateOk
  cases hs : sauceInfo d dateOk with
  | panic s => rw [hs] at h; exact h
  | err => exact ⟨Nat.le_refl _, fun _ _ h => by cases h⟩
  | ok r =>
    rw [hs] at h
    cases r with
    | none => exact ⟨Nat.le_refl _, fun _ _ h => by cases h⟩
    | some si =>
      have hle : si.headerLen ≤ d.size := (h si rfl).1
      have hw16 : si.w < 65536 := (h si rfl).2
      dsimp only
      apply SatS.bind (Sat.toSatS (usub_sat hle)); intro len hlen
      apply SatS.bind (Sat.toSatS (slice_sat (by omega))); intro _ _
      refine ⟨by show len ≤ d.size; omega, ?_⟩
      intro sw sh h2
      have : si.w = sw := by
        have := Option.some.inj h2
        exact congrArg Prod.fst this
      omega

/-- with the two SAUCE repairs of C11 in the tree (`saturating_sub`, comparison in `usize`), `extract`'s
    length arithmetic cannot panic at all -/
theorem sauceInfo_total (hs : sauceOffsetSaturating = true) (hc : sauceCommentCheckUsize = true) (d : Bytes) (dateOk : Bool) :
    (sauceInfo d dateOk).Sat (fun _ => True) := by
  unfold sauceInfo
  have e : sauceLen = 128 := rfl
  split
  · exact True.intro
  · rename_i hlen
    apply Sat.bind (usub_sat (by omega)); intro o ho
    apply Sat.bind (slice_sat (by omega)); intro _ _
    split
    · exact True.intro
    · apply Sat.bind (slice_sat (by omega)); intro _ _
      split
      · exact True.intro
      · split
        · exact True.intro
        · apply Sat.bind (rd_sat (by omega)); intro dataType _
          apply Sat.bind (rd_sat (by omega)); intro fileType _
          apply Sat.bind (rdU16_sat (by omega)); intro t1 _
          apply Sat.bind (rdU16_sat (by omega)); intro t2 _
          apply Sat.bind (rd_sat (by omega)); intro comments _
          dsimp only
          apply Sat.bind (P := fun len => len ≤ d.size)
          · split
            · apply Sat.bind (usub_sat (by omega)); intro rest hrest
              try rw [if_pos hc]
              split
              · exact True.intro
              · rename_i hr
                apply Sat.bind (usub_sat (by omega)); intro cs hcs
                apply Sat.bind (slice_sat (by omega)); intro _ _
                split
                · exact True.intro
                · show cs ≤ d.size
                  omega
            · apply Sat.mono (usub_sat (by omega)); intro v hv; omega
          · intro len hlen
            try rw [if_pos hs]
            apply Sat.bind (P := fun v => v ≤ d.size) (by show len - 1 ≤ d.size; omega); intro offset hoff
            apply Sat.bind (usub_sat hoff); intro hl _
            exact True.intro

theorem extract_size_le (d : Bytes) (n : Nat) : (d.extract 0 n).size ≤ d.size := by
  simp only [Array.size_extract]; omega

/-- the whole of `Buffer::from_bytes` for the binary formats: the only possible panic site is `extract` -/
theorem fromBytes_site (d : Bytes) (hd : FitsI32 d) (ext : String) (dateOk : Bool) :
    (fromBytes d ext dateOk).SatS SauceSite (fun _ => True) := by
  unfold fromBytes
  apply SatS.bind (dispatchLen_site d dateOk); intro r hr
  obtain ⟨hr, hr16⟩ := hr
  have hsz := extract_size_le d r.1
  have hfit : FitsI32 (d.extract 0 r.1) := by
    unfold FitsI32 at hd ⊢; omega
  dsimp only
  split
  · exact SatS.map (Sat.toSatS (loadXb_sat _ _)) (fun _ _ => True.intro)
  · split
    · exact SatS.map (Sat.toSatS (loadBin_sat _ hfit _)) (fun _ _ => True.intro)
    · split
      · exact SatS.map (Sat.toSatS (loadAdf_sat _ hfit _)) (fun _ _ => True.intro)
      · split
        · exact SatS.map (Sat.toSatS (loadIdf_sat _ _)) (fun _ _ => True.intro)
        · split
          · exact SatS.map (Sat.toSatS (loadTnd_sat _ hfit _ (fun sw sh h => by have := hr16 sw sh h; omega))) (fun _ _ => True.intro)
          · exact True.intro

end IcyVerif.Loaders
