import IcyVerif.Lemmas.ColorOptDoc
set_option linter.unusedSimpArgs false
set_option linter.unusedVariables false
/-! Lemmas for C12, third part: `FontOk` for fonts of ANY width.

* `popcount8 b ≤ 8`, so a font wider than 8 columns never has a glyph classified `Block` (`wide_never_block`):
  `get_shape` compares the bit count of `height` bytes with `width·height`.
* a font of exactly 8 columns: bit count `8·height` forces every byte to have its 8 counted bits set
  (`eight_wide_full`).
* a font narrower than 8 columns: the same under `NoStray` (no set bit outside the `width` leftmost columns — the
  padding bits of a well-formed PSF2 font); without it `get_shape` counts bits that are never rendered
  (`stray_bits_changes_picture`). -/
namespace IcyVerif.ColorOpt
open IcyVerif.Comp IcyVerif.Gen.Fonts

/-! ### the renderer's bit test is `testBit (7 - cx)` -/

theorem and_two_pow_ne_zero (b k : Nat) : (b &&& 2 ^ k != 0) = b.testBit k := by
  cases h : b.testBit k
  · have : b &&& 2 ^ k = 0 := by
      apply Nat.eq_of_testBit_eq
      intro i
      rw [Nat.testBit_and, Nat.testBit_two_pow, Nat.zero_testBit]
      by_cases hi : k = i
      · subst hi; rw [h]; rfl
      · simp [hi]
    rw [this]; rfl
  · have : (b &&& 2 ^ k).testBit k = true := by
      rw [Nat.testBit_and, Nat.testBit_two_pow, h]; simp
    have hne : b &&& 2 ^ k ≠ 0 := by
      intro h0; rw [h0, Nat.zero_testBit] at this; cases this
    simp [hne]

theorem bitSet_eq_testBit (b : Nat) {cx : Nat} (hcx : cx < 8) : bitSet b cx = b.testBit (7 - cx) := by
  have hpow : msbMask >>> cx = 2 ^ (7 - cx) := by
    have : ∀ cx < 8, msbMask >>> cx = 2 ^ (7 - cx) := by decide
    exact this cx hcx
  unfold bitSet
  rw [hpow]
  exact and_two_pow_ne_zero b (7 - cx)

/-! ### everything the optimiser and the renderer read of a data byte is in its low 8 bits -/

theorem popcount8_mod (b : Nat) : popcount8 (b % 256) = popcount8 b := by
  unfold popcount8
  congr 1
  apply List.filter_congr
  intro i hi
  have hi8 : i < 8 := List.mem_range.mp hi
  have : (256 : Nat) = 2 ^ 8 := rfl
  rw [this, Nat.testBit_mod_two_pow]
  simp [hi8]

theorem bitSet_mod (b : Nat) {cx : Nat} (hcx : cx < 8) : bitSet (b % 256) cx = bitSet b cx := by
  rw [bitSet_eq_testBit _ hcx, bitSet_eq_testBit _ hcx]
  have : (256 : Nat) = 2 ^ 8 := rfl
  rw [this, Nat.testBit_mod_two_pow]
  have : 7 - cx < 8 := by omega
  simp [this]

/-- no set bit among the `8 - w` rightmost of the 8 counted bits (the columns a `w`-wide font never renders) -/
def noStrayByte (w b : Nat) : Bool := (List.range (8 - w)).all fun i => !b.testBit i

theorem noStrayByte_iff (w b : Nat) : noStrayByte w b = true ↔ ∀ i, i < 8 - w → b.testBit i = false := by
  unfold noStrayByte
  rw [List.all_eq_true]
  constructor
  · intro h i hi
    have := h i (List.mem_range.mpr hi)
    simpa using this
  · intro h i hi
    have := h i (List.mem_range.mp hi)
    simp [this]

theorem noStrayByte_mod (w b : Nat) : noStrayByte w (b % 256) = noStrayByte w b := by
  rw [Bool.eq_iff_iff, noStrayByte_iff, noStrayByte_iff]
  have h256 : (256 : Nat) = 2 ^ 8 := rfl
  constructor
  · intro h i hi
    have := h i hi
    rw [h256, Nat.testBit_mod_two_pow] at this
    have hi8 : i < 8 := by omega
    simpa [hi8] using this
  · intro h i hi
    rw [h256, Nat.testBit_mod_two_pow, h i hi]
    simp

/-- the finite fact, by evaluation over the 9 widths and the 256 byte values -/
theorem byte_table : ∀ w < 9, ∀ b < 256, popcount8 b ≤ 8 ∧
    (noStrayByte w b = true → popcount8 b ≤ w ∧
      (popcount8 b = w → ((List.range w).all fun cx => bitSet b cx) = true)) := by
  decide +kernel

theorem popcount8_le (b : Nat) : popcount8 b ≤ 8 := by
  rw [← popcount8_mod]
  exact (byte_table 8 (by omega) (b % 256) (Nat.mod_lt _ (by omega))).1

theorem noStray_byte {w b : Nat} (hw : w ≤ 8) (hs : noStrayByte w b = true) :
    popcount8 b ≤ w ∧ (popcount8 b = w → ∀ cx < w, bitSet b cx = true) := by
  have h := (byte_table w (by omega) (b % 256) (Nat.mod_lt _ (by omega))).2 (by rw [noStrayByte_mod]; exact hs)
  rw [popcount8_mod] at h
  refine ⟨h.1, fun he cx hcx => ?_⟩
  have := (List.all_eq_true.mp (h.2 he)) cx (List.mem_range.mpr hcx)
  rw [bitSet_mod b (by omega)] at this
  exact this

theorem noStrayByte_eight (b : Nat) : noStrayByte 8 b = true := by
  unfold noStrayByte; rfl

/-! ### sums -/

theorem ones_le (rows : List Nat) : ones rows ≤ 8 * rows.length := by
  unfold ones
  induction rows with
  | nil => simp
  | cons a rows ih =>
    simp only [List.map_cons, List.sum_cons, List.length_cons]
    have := popcount8_le a
    omega

/-- every byte has no stray bit -/
def NoStray (w : Nat) (rows : List Nat) : Prop := ∀ b ∈ rows, noStrayByte w b = true

theorem ones_le_of_noStray {w : Nat} (hw : w ≤ 8) {rows : List Nat} (hs : NoStray w rows) :
    ones rows ≤ w * rows.length ∧ (ones rows = w * rows.length → ∀ b ∈ rows, popcount8 b = w) := by
  unfold ones
  induction rows with
  | nil => simp
  | cons a rows ih =>
    have ha := (noStray_byte hw (hs a (List.mem_cons_self))).1
    obtain ⟨h1, h2⟩ := ih (fun b hb => hs b (List.mem_cons_of_mem _ hb))
    simp only [List.map_cons, List.sum_cons, List.length_cons, Nat.mul_succ]
    refine ⟨by omega, ?_⟩
    intro he b hb
    rcases List.mem_cons.mp hb with rfl | hb
    · omega
    · exact h2 (by omega) b hb

/-- a glyph of `h` bytes without stray bits whose bit count is `w·h` has every in-range bit set -/
theorem full_of_noStray {w h : Nat} (hw : w ≤ 8) {rows : List Nat} (hl : rows.length = h) (hs : NoStray w rows)
    (ho : ones rows = w * h) : isFull w h rows = true := by
  obtain ⟨_, hall⟩ := ones_le_of_noStray hw hs
  have hp := hall (by rw [hl]; exact ho)
  unfold isFull
  apply List.all_eq_true.mpr
  intro cy hcy
  have hcy := List.mem_range.mp hcy
  have hlt : cy < rows.length := by omega
  rw [List.getElem?_eq_getElem hlt]
  simp only
  apply List.all_eq_true.mpr
  intro cx hcx
  have hmem : rows[cy] ∈ rows := List.getElem_mem hlt
  exact (noStray_byte hw (hs _ hmem)).2 (hp _ hmem) cx (List.mem_range.mp hcx)

/-- a font wider than 8 columns: no non-blank glyph of `h` bytes has bit count `w·h` — `get_shape` never answers
    `Block` -/
theorem wide_never_block {w h : Nat} (hw : 8 < w) {rows : List Nat} (hl : rows.length = h) (hne : ones rows ≠ 0) :
    ones rows ≠ w * h := by
  have h1 := ones_le rows
  rw [hl] at h1
  intro he
  have hh : h ≠ 0 := by
    intro h0; subst h0
    have : ones rows = 0 := by omega
    exact hne this
  have : 8 * h < w * h := Nat.mul_lt_mul_of_pos_right hw (Nat.pos_of_ne_zero hh)
  omega

/-! ### `FontOk` from what a font loader guarantees -/

/-- every glyph has `height` data bytes (what `glyphs_from_u8_data(height, …)` produces) -/
def RowsLen (f : Font) : Prop := ∀ ch rows, f.glyph ch = some rows → rows.length = f.h
/-- when the font has a blank glyph, the glyph of `' '` (if there is one) is blank too -/
def SpaceBlank (f : Font) : Prop :=
  ∀ ch rows rows', f.glyph ch = some rows → ones rows = 0 → f.glyph spaceCh = some rows' → ones rows' = 0
/-- no glyph has a set bit outside the `width` leftmost columns -/
def FontNoStray (f : Font) : Prop := ∀ ch rows, f.glyph ch = some rows → NoStray f.w rows

theorem fontOk_wide {f : Font} (hw : 8 < f.w) (hl : RowsLen f) (hs : SpaceBlank f) : FontOk f :=
  ⟨hl, fun ch rows hg hne he => absurd he (wide_never_block hw (hl ch rows hg) hne), hs⟩

theorem fontOk_narrow {f : Font} (hw : f.w ≤ 8) (hl : RowsLen f) (hn : FontNoStray f) (hs : SpaceBlank f) : FontOk f :=
  ⟨hl, fun ch rows hg _ he => ⟨hw, full_of_noStray hw (hl ch rows hg) (hn ch rows hg) he⟩, hs⟩

theorem fontOk_eight {f : Font} (hw : f.w = 8) (hl : RowsLen f) (hs : SpaceBlank f) : FontOk f :=
  fontOk_narrow (by omega) hl (fun ch rows _ b _ => by rw [hw]; exact noStrayByte_eight b) hs

end IcyVerif.ColorOpt
