import IcyVerif.Model.TermAnsi
set_option linter.unusedSimpArgs false
set_option linter.unusedVariables false
namespace IcyVerif.Term

/-- sizes and margins are sane (holds in every reachable state, also after a resize) -/
structure ScrOk (s : Scr) : Prop where
  tw1 : 1 ≤ s.tw
  tw2 : s.tw ≤ 132
  th1 : 1 ≤ s.th
  th2 : s.th ≤ 60
  bh0 : 1 ≤ s.bh
  mtb : ∀ t b, s.mtb = some (t, b) → 0 ≤ t ∧ t ≤ b ∧ b < s.th
  mlr : ∀ l r, s.mlr = some (l, r) → 0 ≤ l ∧ l ≤ r ∧ r < s.tw

/-- the weak cursor invariant that survives a resize: non-negative and not far outside -/
def CurOk (s : Scr) (c : Car) : Prop := 0 ≤ c.x ∧ c.x ≤ 132 ∧ 0 ≤ c.y ∧ c.y ≤ s.bh + 60
/-- C09: the cursor is inside the visible screen (and the buffer is at least a screen high) -/
def InScr (s : Scr) (c : Car) : Prop := s.th ≤ s.bh ∧ c.x < s.tw ∧ s.fv ≤ c.y ∧ c.y < s.fv + s.th
/-- the row part of `InScr` -/
def InScrY (s : Scr) (c : Car) : Prop := s.th ≤ s.bh ∧ s.fv ≤ c.y ∧ c.y < s.fv + s.th

/-- the result is `ok` and satisfies `P` -/
def okAnd {α : Type} (r : Res α) (P : α → Prop) : Prop :=
  match r with
  | .ok a => P a
  | .error _ => False
@[simp] theorem okAnd_ok {α : Type} (a : α) (P : α → Prop) : okAnd (.ok a : Res α) P = P a := rfl
theorem okAnd_mono {α : Type} {r : Res α} {P Q : α → Prop} (h : okAnd r P) (hpq : ∀ a, P a → Q a) : okAnd r Q := by
  cases r with
  | ok a => exact hpq a h
  | error e => exact h

theorem sat_id (v : Int) (h1 : -2147483648 ≤ v) (h2 : v ≤ 2147483647) : sat v = v := by
  unfold sat; omega

theorem fv_eq (s : Scr) (h : ScrOk s) (hs : s.bh ≤ 2147483647) : s.fv = max 0 (s.bh - s.th) := by
  have := h.th1; have := h.th2; have := h.bh0
  unfold Scr.fv satSub sat; omega

theorem fv_nonneg (s : Scr) : 0 ≤ s.fv := by unfold Scr.fv; omega

theorem scrOk_bh (s : Scr) (b : Int) (h : ScrOk s) (hb : 1 ≤ b) : ScrOk { s with bh := b } :=
  ⟨h.tw1, h.tw2, h.th1, h.th2, hb, h.mtb, h.mlr⟩

theorem fv_bh (s : Scr) (B : Int) (h : ScrOk s) (h1 : 1 ≤ B) (h2 : B ≤ 2147483647) :
    ({ s with bh := B } : Scr).fv = max 0 (B - s.th) := fv_eq _ (scrOk_bh s B h h1) h2

theorem limit_spec (s : Scr) (c : Car) (h : ScrOk s) :
    ∃ c', limit s c = .ok c' ∧ 0 ≤ c'.x ∧ c'.x < s.tw ∧ s.fv ≤ c'.y ∧ c'.y < s.fv + s.th ∧ c'.ins = c.ins := by
  have := h.tw1; have := h.th1
  unfold limit
  have hn : ¬ (s.fv > s.fv + s.th - 1) := by omega
  simp only [hn, if_false]
  refine ⟨_, rfl, ?_, ?_, ?_, ?_, rfl⟩ <;> simp only [clampI] <;> omega

theorem limit_bh (s : Scr) (B : Int) (c : Car) (h : ScrOk s) (h1 : 1 ≤ B) :
    ∃ c', limit { s with bh := B } c = .ok c' ∧ 0 ≤ c'.x ∧ c'.x < s.tw ∧ ({ s with bh := B } : Scr).fv ≤ c'.y ∧
      c'.y < ({ s with bh := B } : Scr).fv + s.th ∧ c'.ins = c.ins := limit_spec _ c (scrOk_bh s B h h1)

/-- after `limit` the cursor is on the screen, whatever it was before -/
theorem limit_full (s : Scr) (c : Car) (h : ScrOk s) (hb : s.bh ≤ 2147483647) :
    okAnd (limit s c) (fun c' => CurOk s c' ∧ c'.ins = c.ins ∧ (s.th ≤ s.bh → InScr s c')) := by
  obtain ⟨c', hl, l0, l1, l2, l3, l4⟩ := limit_spec s c h
  have := h.tw2; have := h.th1; have := h.th2; have := h.bh0
  have hfv := fv_eq s h hb
  rw [hl]
  simp only [okAnd_ok, CurOk, InScr]
  refine ⟨⟨?_, ?_, ?_, ?_⟩, l4, ?_⟩ <;> first | omega | (intro _; refine ⟨?_, ?_, ?_, ?_⟩ <;> omega)

theorem lf_spec (s : Scr) (c : Car) (hk : ScrOk s) (hy0 : 0 ≤ c.y) (hy1 : c.y ≤ s.bh + 60) (hs : s.bh ≤ 1073742000) :
    okAnd (lf s c) (fun r => r.1 = { s with bh := r.1.bh } ∧ s.bh ≤ r.1.bh ∧ r.1.bh ≤ s.bh + 62 ∧
      CurOk r.1 r.2 ∧ r.2.ins = c.ins ∧ (InScrY s c → InScr r.1 r.2)) := by
  have := hk.tw1; have := hk.tw2; have := hk.th1; have := hk.th2; have := hk.bh0
  have hmt := hk.mtb
  obtain ⟨tw, th, bw, bh, mtb, mlr, dm, aw, tabs⟩ := s
  simp only at *
  cases mtb with
  | none =>
    have hfv := fv_eq _ hk (by simp only; omega)
    have hfv' := fv_bh _ (max bh (c.y + 1 + 1)) hk (by omega) (by omega)
    obtain ⟨c', hl, l0, l1, l2, l3, l4⟩ := limit_bh _ (max bh (c.y + 1 + 1)) { c with x := 0, y := c.y + 1 } hk (by omega)
    simp only at hfv hfv' hl l0 l1 l2 l3 l4
    simp only [lf, hl, checkScrollDown, Scr.lastEditable, Scr.needsScrolling, Option.isSome_none,
      Bool.false_eq_true, false_or, false_and, if_false, satSub, sat]
    split <;> simp only [okAnd_ok, CurOk, InScr, InScrY] <;> refine ⟨?_, ?_, ?_, ?_, ?_, ?_⟩ <;>
      first | rfl | trivial | assumption | omega | (intro ⟨_, _, _⟩; refine ⟨?_, ?_, ?_, ?_⟩ <;> omega)
  | some p =>
    obtain ⟨t, e⟩ := p
    have := hmt t e rfl
    have hfv := fv_eq _ hk (by simp only; omega)
    have hfv' := fv_bh _ (max bh (c.y + 1 + 1)) hk (by omega) (by omega)
    obtain ⟨c', hl, l0, l1, l2, l3, l4⟩ := limit_bh _ (max bh (c.y + 1 + 1)) { c with x := 0, y := c.y + 1 } hk (by omega)
    simp only at hfv hfv' hl l0 l1 l2 l3 l4
    simp only [lf, hl, checkScrollDown, Scr.lastEditable, Scr.needsScrolling, Option.isSome_some,
      true_or, true_and, satSub, sat]
    repeat' split
    all_goals simp only [okAnd_ok, CurOk, InScr, InScrY]
    all_goals refine ⟨?_, ?_, ?_, ?_, ?_, ?_⟩
    all_goals first | rfl | trivial | assumption | omega | (intro ⟨_, _, _⟩; refine ⟨?_, ?_, ?_, ?_⟩ <;> omega)

theorem rangeOk_bh (s : Scr) (c : Car) (hk : ScrOk s) (h : RangeOk s c) : s.bh ≤ 1073741854 := by
  have := hk.th1; have := hk.th2; have := hk.bh0
  obtain ⟨⟨_, h1⟩, _⟩ := h
  unfold Scr.fv satSub sat at h1
  omega

theorem rangeOk_of_small (s : Scr) (c : Car) (hk : ScrOk s) (hc : CurOk s c) (hb : s.bh ≤ 1073741000) :
    RangeOk s c := by
  have := hk.tw1; have := hk.tw2; have := hk.th1; have := hk.th2; have := hk.bh0
  obtain ⟨hx0, hx1, hy0, hy1⟩ := hc
  have hfv := fv_eq s hk (by omega)
  simp only [RangeOk, InI32]
  omega

/-- the row/column indexing of the content operations is safe for a non-negative cursor and sane margins -/
theorem not_echPanics (s : Scr) (c : Car) (n : Int) (hx : 0 ≤ c.x) : ¬ EchPanics s c n := by
  unfold EchPanics; omega
theorem mtbBottom_nonneg (s : Scr) (hk : ScrOk s) : 0 ≤ mtbBottom s := by
  unfold mtbBottom
  split
  · rename_i t e he; have := hk.mtb t e he; omega
  · exact Int.le_refl 0
theorem not_lineOpPanics (s : Scr) (y : Int) (hk : ScrOk s) (hy : 0 ≤ y) : ¬ LineOpPanics s y := by
  have := mtbBottom_nonneg s hk
  unfold LineOpPanics; omega

theorem printChar_spec (s : Scr) (c : Car) (hk : ScrOk s) (hc : CurOk s c) (hs : s.bh ≤ 1073741900) :
    okAnd (printChar s c) (fun r => r.1 = { s with bh := r.1.bh } ∧ s.bh ≤ r.1.bh ∧ r.1.bh ≤ s.bh + 124 ∧
      CurOk r.1 r.2 ∧ r.2.ins = c.ins ∧ (InScr s c → InScr r.1 r.2)) := by
  have := hk.tw1; have := hk.tw2; have := hk.th1; have := hk.th2; have := hk.bh0
  obtain ⟨hx0, hx1, hy0, hy1⟩ := hc
  have hn : ¬ (c.ins = true ∧ c.y < 0) := by omega
  have hn2 : ¬ (c.ins = true ∧ c.x < 0) := by omega
  simp only [printChar, hn, hn2, if_false]
  have hk1 : ScrOk { s with bh := max s.bh (c.y + 1) } := scrOk_bh s _ hk (by omega)
  have hfv := fv_eq s hk (by omega)
  have hfv1 := fv_bh s (max s.bh (c.y + 1)) hk (by omega) (by omega)
  split
  · split
    · have hl := lf_spec { s with bh := max s.bh (c.y + 1) } { c with x := c.x + 1 } hk1 (by simpa using hy0)
        (by simp only; omega) (by simp only; omega)
      refine okAnd_mono hl ?_
      intro r ⟨h1, h2, h3, h4, h5, h6⟩
      simp only at h1 h2 h3 h5 h6
      refine ⟨?_, by omega, by omega, h4, h5, ?_⟩
      · rw [h1]
      · intro ⟨i1, i2, i3, i4⟩
        apply h6
        simp only [InScrY]
        refine ⟨?_, ?_, ?_⟩ <;> omega
    · simp only [okAnd_ok, CurOk, InScr]
      refine ⟨?_, ?_, ?_, ⟨?_, ?_, ?_, ?_⟩, ?_, ?_⟩ <;>
        first | rfl | trivial | omega | (intro ⟨_, _, _, _⟩; refine ⟨?_, ?_, ?_, ?_⟩ <;> omega)
  · simp only [okAnd_ok, CurOk, InScr]
    refine ⟨?_, ?_, ?_, ⟨?_, ?_, ?_, ?_⟩, ?_, ?_⟩ <;>
      first | rfl | trivial | omega | (intro ⟨_, _, _, _⟩; refine ⟨?_, ?_, ?_, ?_⟩ <;> omega)


/-- `print_char` n times: every intermediate state passes the `i32` guard or the run stops with `overflow` -/
def okOrOv {α : Type} (r : Res α) (P : α → Prop) : Prop :=
  match r with
  | .ok a => P a
  | .error e => ∃ site, e = Panic.overflow site
@[simp] theorem okOrOv_ok {α : Type} (a : α) (P : α → Prop) : okOrOv (.ok a : Res α) P = P a := rfl
theorem okOrOv_of_okAnd {α : Type} {r : Res α} {P : α → Prop} (h : okAnd r P) : okOrOv r P := by
  cases r with
  | ok a => exact h
  | error e => exact h.elim
theorem okOrOv_mono {α : Type} {r : Res α} {P Q : α → Prop} (h : okOrOv r P) (hpq : ∀ a, P a → Q a) : okOrOv r Q := by
  cases r with
  | ok a => exact hpq a h
  | error e => exact h

/-- what every geometry-changing primitive guarantees about the screen part -/
def ScrStep (s s' : Scr) : Prop := s' = { s with bh := s'.bh } ∧ s.bh ≤ s'.bh

theorem printN_spec (n : Nat) (s : Scr) (c : Car) (hk : ScrOk s) (hc : CurOk s c) :
    okOrOv (printN n s c) (fun r => ScrStep s r.1 ∧ CurOk r.1 r.2 ∧ r.2.ins = c.ins ∧ (InScr s c → InScr r.1 r.2)) := by
  induction n generalizing s c with
  | zero =>
    show okOrOv (.ok (s, c)) _
    rw [okOrOv_ok]
    exact ⟨⟨rfl, Int.le_refl _⟩, hc, rfl, id⟩
  | succ n ih =>
    simp only [printN]
    by_cases hr : RangeOk s c
    · simp only [hr, not_true_eq_false, if_false]
      have hb := rangeOk_bh s c hk hr
      have hp := printChar_spec s c hk hc (by omega)
      cases hpc : printChar s c with
      | error e => rw [hpc] at hp; exact hp.elim
      | ok r =>
        rw [hpc] at hp
        obtain ⟨s1, c1⟩ := r
        obtain ⟨h1, h2, h3, h4, h5, h6⟩ := hp
        simp only at h1 h2 h3 h4 h5 h6
        have hk1 : ScrOk s1 := by rw [h1]; exact scrOk_bh s _ hk (by have := hk.bh0; omega)
        refine okOrOv_mono (ih s1 c1 hk1 h4) ?_
        intro r ⟨⟨g1, g2⟩, g3, g4, g5⟩
        refine ⟨⟨?_, by omega⟩, g3, by rw [g4, h5], fun hi => g5 (h6 hi)⟩
        rw [g1, h1]
    · simp only [hr, not_false_eq_true, if_true, okOrOv]
      exact ⟨_, rfl⟩

end IcyVerif.Term
