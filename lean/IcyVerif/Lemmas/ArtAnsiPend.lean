import IcyVerif.Lemmas.ArtAnsiFLine
import IcyVerif.Lemmas.ArtAnsiXRows
/-! # `generate` pushes everything it collects (C04, `output_line_length`)

`generate` keeps bytes in its local `result` between two calls of `push_result`; what is still there when the function
returns is lost.  `pend evs r` is that remainder.  For the writer's events it is empty (`pend_ansi`): every cell ends with
a push, and the end-of-row bytes (which are NOT pushed on their own) are only written when another row follows.  Hence
the chunks handed to `push_result` are, put together, exactly the bytes of the events (`chunks_flat`). -/
set_option linter.unusedSimpArgs false
namespace IcyVerif.ArtIO
open IcyVerif.Gen.Art

/-- the local `result` after the events -/
def pend : List Ev → List Nat → List Nat
  | [], r => r
  | .ext bs :: es, r => pend es (r ++ bs)
  | .push :: es, _ => pend es []
  | .eol :: es, r => pend es r
  | .drop :: es, _ => pend es []

theorem pend_append (a b : List Ev) : ∀ r, pend (a ++ b) r = pend b (pend a r) := by
  induction a with
  | nil => intro r; rfl
  | cons e es ih => intro r; cases e <;> simp [pend, ih]

theorem chunksOf_append (a b : List Ev) : ∀ r, chunksOf (a ++ b) r = chunksOf a r ++ chunksOf b (pend a r) := by
  induction a with
  | nil => intro r; rfl
  | cons e es ih => intro r; cases e <;> simp [pend, chunksOf, ih]

/-- as long as `result` is not dropped: what was pushed, then what is pending, is what was collected -/
theorem chunks_pend (evs : List Ev) (hd : Ev.drop ∉ evs) : ∀ r, (chunksOf evs r).flatten ++ pend evs r = r ++ bytesOf evs := by
  induction evs with
  | nil => intro r; simp [chunksOf, pend, bytesOf]
  | cons e es ih =>
    intro r
    have hd' : Ev.drop ∉ es := fun h => hd (List.mem_cons_of_mem _ h)
    cases e with
    | ext bs => simp [chunksOf, pend, bytesOf, ih hd']
    | push => simp [chunksOf, pend, bytesOf]; have := ih hd' []; simpa using this
    | eol => simp [chunksOf, pend, bytesOf, ih hd']
    | drop => exact absurd List.mem_cons_self hd

theorem pend_push_last (evs : List Ev) (h : evs.getLast? = some .push) : ∀ r, pend evs r = [] := by
  induction evs with
  | nil => simp at h
  | cons e es ih =>
    intro r
    cases es with
    | nil =>
      simp at h; subst h; rfl
    | cons e2 es2 =>
      have h' : (e2 :: es2).getLast? = some .push := by
        rw [List.getLast?_cons_cons] at h; exact h
      cases e <;> simp only [pend] <;> exact ih h' _

/-- a list of events that is empty or ends with a push -/
def PushEnd (evs : List Ev) : Prop := evs = [] ∨ evs.getLast? = some .push

theorem PushEnd.append {a b : List Ev} (ha : PushEnd a) (hb : PushEnd b) : PushEnd (a ++ b) := by
  rcases hb with e | e
  · rw [e, List.append_nil]; exact ha
  · right
    rw [List.getLast?_append, e]; rfl

theorem pushEnd_pend {evs : List Ev} (h : PushEnd evs) : pend evs [] = [] := by
  rcases h with e | e
  · rw [e]; rfl
  · exact pend_push_last evs e []

theorem pushEnd_tc : ∀ (fuel : Nat) (tc : List Nat), PushEnd (tcEvs fuel tc) := by
  intro fuel
  induction fuel with
  | zero => intro tc; left; simp [tcEvs]
  | succ f ih =>
    intro tc
    match tc with
    | [] => left; simp [tcEvs]
    | [_] => left; simp [tcEvs]
    | [_, _] => left; simp [tcEvs]
    | [_, _, _] => left; simp [tcEvs]
    | a :: b :: c :: d :: rest =>
      unfold tcEvs
      exact PushEnd.append (Or.inr rfl) (ih rest)

theorem pushEnd_sgr (cell : CharCell) : PushEnd (sgrEvs cell) := by
  unfold sgrEvs
  refine PushEnd.append ?_ (pushEnd_tc _ _)
  split
  · left; rfl
  · right; rfl

/-- the events of a line end with a push; a line with cells has events -/
theorem genLineEv_last (o : AnsiOpts) (w : Nat) : ∀ (fuel x cur : Nat) (line : List CharCell) (fonts : List Nat),
    PushEnd (genLineEv o w fuel x cur line fonts).1 ∧ (line ≠ [] → fuel ≠ 0 → (genLineEv o w fuel x cur line fonts).1.getLast? = some .push) := by
  intro fuel
  induction fuel with
  | zero => intro x cur line fonts; unfold genLineEv; exact ⟨Or.inl rfl, fun _ h => absurd rfl h⟩
  | succ f ih =>
    intro x cur line fonts
    match line with
    | [] => unfold genLineEv; exact ⟨Or.inl rfl, fun h _ => absurd rfl h⟩
    | cell :: rest =>
      have key : ∀ (mid : List Ev) (r : List Ev × Nat), mid.getLast? = some .push → PushEnd r.1 →
          (((if cur ≠ fonts.headD 0 then [Ev.ext (fontSeq (fonts.headD 0)), Ev.push] else []) ++ sgrEvs cell) ++ mid ++ r.1).getLast? = some .push := by
        intro mid r hm hr
        rcases hr with e | e
        · rw [e, List.append_nil, List.getLast?_append, hm]; rfl
        · rw [List.getLast?_append, e]; rfl
      have goal : (genLineEv o w (f + 1) x cur (cell :: rest) fonts).1.getLast? = some .push := by
        unfold genLineEv
        simp only []
        split
        · split
          · exact key [.push, .ext _, .push] _ rfl (ih _ _ _ _).1
          · split
            · exact key [.push, .ext _, .ext _, .push] _ rfl (ih _ _ _ _).1
            · exact key [.ext _, .push] _ rfl (ih _ _ _ _).1
        · exact key [.ext _, .push] _ rfl (ih _ _ _ _).1
      exact ⟨Or.inr goal, fun _ _ => goal⟩

theorem genCellsRow_length (o : AnsiOpts) (pal : List Rgb) (im : IceMode) (row : List Cell) :
    ∀ (n x : Nat) (st : AnsiState), (genCellsRow o pal im row n x st).1.length = n := by
  intro n
  induction n with
  | zero => intro x st; rfl
  | succ k ih =>
    intro x st
    unfold genCellsRow
    simp only []
    split
    · simp [ih]
    · simp [ih]

/-- every line `generate_cells` makes for a row that is not skipped has a cell -/
theorem genCellsS_nonempty (o : AnsiOpts) (skip : Nat → Bool) (pal : List Rgb) (im : IceMode) (w : Nat) (hw : 0 < w)
    (hl : o.longerTerminalOutput = false) : ∀ (rows : List (List Cell)) (y : Nat) (st : AnsiState),
    ∀ line ∈ genCellsS o skip pal im w rows y st, line ≠ [] := by
  intro rows
  induction rows with
  | nil => intro y st line h; simp [genCellsS] at h
  | cons row rest ih =>
    intro y st line h
    unfold genCellsS at h
    simp only [hl, Bool.false_eq_true, false_and, if_false] at h
    rcases List.mem_cons.1 h with e | e
    · have hlen : line.length = ansiRowLen o pal w row := by rw [e]; exact genCellsRow_length o pal im row _ _ _
      have h1 : 1 ≤ ansiRowLen o pal w row := (ansiRowLen_specX o pal w hw row).1
      intro hn; rw [hn] at hlen; simp at hlen; omega
    · exact ih _ _ line e

theorem genCellsS_length (o : AnsiOpts) (skip : Nat → Bool) (pal : List Rgb) (im : IceMode) (w : Nat) :
    ∀ (rows : List (List Cell)) (y : Nat) (st : AnsiState), (genCellsS o skip pal im w rows y st).length = rows.length := by
  intro rows
  induction rows with
  | nil => intro y st; rfl
  | cons row rest ih =>
    intro y st
    unfold genCellsS
    split
    · simp [ih]
    · simp [ih]

/-- the row loop leaves nothing pending — without longer-terminal positioning because the last row gets no line break -/
theorem pend_genLines_comp (o : AnsiOpts) (skip : Nat → Bool) (w h : Nat) (hl : o.longerTerminalOutput = false) :
    ∀ (lines : List (List CharCell)) (frows : List (List Nat)) (y : Nat) (first : Bool) (cur : Nat) (r : List Nat),
    (∀ line ∈ lines, line ≠ []) → y + lines.length = h → lines ≠ [] →
    pend (genLinesEv o skip w h lines frows y first cur) r = [] := by
  intro lines
  induction lines with
  | nil => intro frows y first cur r _ _ hne; exact absurd rfl hne
  | cons line rest ih =>
    intro frows y first cur r hne hy _
    have hline : line ≠ [] := hne line List.mem_cons_self
    have hflen : line.length ≠ 0 := by
      intro e; exact hline (List.length_eq_zero_iff.1 e)
    unfold genLinesEv
    simp only [hl, Bool.false_eq_true, false_and, if_false, List.nil_append, Bool.not_false, true_and]
    rw [pend_append, pend_append]
    have hbody : pend (genLineEv o w line.length 0 cur line (frows.headD [])).1 r = [] :=
      pend_push_last _ ((genLineEv_last o w line.length 0 cur line (frows.headD [])).2 hline hflen) r
    rw [hbody]
    cases rest with
    | nil =>
      have : ¬ (line.length < w ∧ y + 1 < h) := by simp at hy; omega
      rw [if_neg this]
      simp [genLinesEv, pend]
    | cons l2 rest2 =>
      refine ih frows.tail (y + 1) false _ _ (fun l hl' => hne l (List.mem_cons_of_mem _ hl')) (by simp at hy ⊢; omega) (by simp)

theorem pend_genLines_longer (o : AnsiOpts) (skip : Nat → Bool) (w h : Nat) (hl : o.longerTerminalOutput = true) :
    ∀ (lines : List (List CharCell)) (frows : List (List Nat)) (y : Nat) (first : Bool) (cur : Nat),
    pend (genLinesEv o skip w h lines frows y first cur) [] = [] := by
  intro lines
  induction lines with
  | nil => intro frows y first cur; rfl
  | cons line rest ih =>
    intro frows y first cur
    unfold genLinesEv
    by_cases hs : skip y = true
    · simp only [hl, hs, and_self, if_true]; exact ih _ _ _ _
    · simp only [hl, hs, Bool.false_eq_true, and_false, if_false, if_true, Bool.not_true, false_and, List.append_nil]
      rw [pend_append, pend_append]
      have hhead : pend ((if first = true then [Ev.ext (csi [0] 109)] else []) ++ [Ev.ext (csi [y + 1] 72), Ev.push]) [] = [] :=
        pend_push_last _ (by cases first <;> rfl) []
      rw [hhead, pushEnd_pend (genLineEv_last o w line.length 0 cur line (frows.headD [])).1]
      exact ih _ _ _ _

theorem pend_prep (o : AnsiOpts) (im : IceMode) : pend (prepEvs o im) [] = [] := by
  apply pushEnd_pend
  unfold prepEvs
  refine PushEnd.append ?_ ?_
  · split
    · right; rfl
    · left; rfl
  · cases o.prep with
    | none => left; rfl
    | clear => right; rfl
    | home => right; rfl

end IcyVerif.ArtIO
