import IcyVerif.Lemmas.Unicode
import IcyVerif.Model.Font
set_option linter.unusedSimpArgs false
/-! lemmas behind the per-site theorems of C10: hex macros, clipboard records, glyph tables -/
namespace IcyVerif.Uni

theorem position_lt (v : Nat) (t : List Nat) (i : Nat) (h : position v t = some i) : i < t.length := by
  induction t generalizing i with
  | nil => simp [position] at h
  | cons x xs ih =>
    unfold position at h
    split at h
    · injection h with h; subst h; simp
    · cases hp : position v xs with
      | none => rw [hp] at h; simp at h
      | some j =>
        rw [hp] at h; simp at h; subst h
        have := ih j hp
        simp; omega

def HexGood (s : HexM) : Prop := (∀ c ∈ s.macroRec, c < 256) ∧ (∀ c ∈ s.repeatRec, c < 256)

theorem mem_replicate_flatten (n : Nat) (r : List Nat) (c : Nat) (h : c ∈ (List.replicate n r).flatten) : c ∈ r := by
  induction n with
  | zero => simp at h
  | succ n ih =>
    rw [List.replicate_succ, List.flatten_cons] at h
    rcases List.mem_append.mp h with h | h
    · exact h
    · exact ih h

theorem repeatAppend_lt (m r : List Nat) (n : Int) (hm : ∀ c ∈ m, c < 256) (hr : ∀ c ∈ r, c < 256) :
    ∀ c ∈ repeatAppend m n r, c < 256 := by
  intro c hc
  unfold repeatAppend at hc
  split at hc
  · exact hm c hc
  · rcases List.mem_append.mp hc with h | h
    · exact hm c h
    · exact hr c (mem_replicate_flatten _ _ _ h)

theorem hexStep_good (table : List Nat) (ht : table.length ≤ 16) (s s' : HexM) (ch : Nat)
    (hg : HexGood s) (h : hexStep table s ch = some s') : HexGood s' := by
  obtain ⟨hm, hr⟩ := hg
  unfold hexStep at h
  cases hst : s.state with
  | firstHex =>
    simp only [hst] at h
    split at h
    · injection h with h; subst h
      exact ⟨repeatAppend_lt _ _ _ hm hr, hr⟩
    · split at h <;> (injection h with h; subst h; exact ⟨hm, hr⟩)
  | secondHex first =>
    simp only [hst] at h
    split at h
    · rename_i f sec hf hsec
      have h1 := position_lt _ _ _ hf
      have h2 := position_lt _ _ _ hsec
      have hc : f * 16 + sec < 256 := by omega
      split at h
      · injection h with h; subst h
        refine ⟨hm, ?_⟩
        intro c hc'
        rcases List.mem_append.mp hc' with h | h
        · exact hr c h
        · simp at h; subst h; exact hc
      · injection h with h; subst h
        refine ⟨?_, hr⟩
        intro c hc'
        rcases List.mem_append.mp hc' with h | h
        · exact hm c h
        · simp at h; subst h; exact hc
    · cases h
  | repeatNumber n =>
    simp only [hst] at h
    split at h
    · injection h with h; subst h; exact ⟨hm, hr⟩
    · split at h
      · injection h with h; subst h; exact ⟨hm, by simp⟩
      · cases h

theorem hexRun_good (table : List Nat) (ht : table.length ≤ 16) (body : List Nat) (s s' : HexM)
    (hg : HexGood s) (h : hexRun table s body = some s') : HexGood s' := by
  induction body generalizing s with
  | nil => simp [hexRun] at h; subst h; exact hg
  | cons c cs ih =>
    unfold hexRun at h
    split at h
    · rename_i s1 hs1
      exact ih s1 (hexStep_good table ht s s1 c hg hs1) h
    · cases h

theorem hexMacro_lt (table : List Nat) (ht : table.length ≤ 16) (body m : List Nat)
    (h : hexMacro table body = some m) : ∀ c ∈ m, c < 256 := by
  unfold hexMacro at h
  split at h
  · rename_i s hs
    have hg : HexGood s := hexRun_good table ht body {} s ⟨by simp, by simp⟩ hs
    injection h with h; subst h
    split
    · exact repeatAppend_lt _ _ _ hg.1 hg.2
    · exact hg.1
  · cases h

theorem lt256_scalar (c : Nat) (h : c < 256) : isScalar c = true := by
  rw [isScalar_iff]; omega

/-! clipboard -/
theorem charFromU32_scalar (v c : Nat) (h : charFromU32 v = some c) : isScalar c = true ∧ c = v := by
  unfold charFromU32 at h
  split at h
  · injection h with h; subst h; exact ⟨by assumption, rfl⟩
  · cases h

theorem clipChar_scalar (lo hi : Nat) : isScalar (clipChar lo hi) = true := by
  unfold clipChar
  cases h : charFromU32 (lo + 256 * hi) with
  | none => exact scalar_fffd
  | some c => exact (charFromU32_scalar _ _ h).1

theorem clipCells_scalar (n : Nat) (data cs : List Nat) (h : clipCells n data = some cs) :
    ∀ c ∈ cs, isScalar c = true := by
  induction n generalizing data cs with
  | zero => simp [clipCells] at h; subst h; simp
  | succ n ih =>
    unfold clipCells at h
    split at h
    · split at h
      · cases h
      · simp only [Option.map_eq_some_iff] at h
        obtain ⟨r, hr, rfl⟩ := h
        intro c hc
        rcases List.mem_cons.mp hc with h | h
        · subst h; exact clipChar_scalar _ _
        · exact ih _ _ hr c h
    · cases h

/-- the scalar predicate is constant on every 0x800-aligned block: 0xD800, 0xE000 and 0x110000 are multiples of 0x800 -/
theorem scalar_block_constant (v : Nat) : isScalar v = isScalar (v / 2048 * 2048) := by
  have h1 := isScalar_iff v
  have h2 := isScalar_iff (v / 2048 * 2048)
  apply Bool.eq_iff_iff.mpr
  rw [h1, h2]
  omega

theorem asU32_nat (v : Nat) (h : v < 4294967296) : asU32 (v : Int) = v := by
  unfold asU32
  omega

end IcyVerif.Uni

namespace IcyVerif.Font
open IcyVerif.Uni

/-- every index of the table that holds a glyph is a scalar value, shifted by the loop's start index -/
def KeysScalarFrom (ch : Nat) (gs : List (Option Glyph)) : Prop :=
  ∀ i g, gs[i]? = some (some g) → isScalar (ch + i) = true

theorem glyphLoop_keys (h fuel ch : Nat) (data : List Nat) : KeysScalarFrom ch (glyphLoop h fuel ch data) := by
  induction fuel generalizing ch data with
  | zero => intro i g hi; simp [glyphLoop] at hi
  | succ fuel ih =>
    unfold glyphLoop
    split
    · intro i g hi; simp at hi
    · rename_i g rest _
      intro i g' hi
      cases i with
      | zero =>
        simp at hi
        simpa using hi.1
      | succ j =>
        simp at hi
        have := ih (ch + 1) rest j g' hi
        rw [show ch + (j + 1) = ch + 1 + j by omega]; exact this

theorem glyphsFromU8_keys (h : Nat) (data : List Nat) : KeysScalarFrom 0 (glyphsFromU8 h data) := by
  unfold glyphsFromU8
  split
  · intro i g hi; simp at hi
  · exact glyphLoop_keys _ _ _ _

def KeysScalar (f : BitFont) : Prop := ∀ k g, f.get k = some g → isScalar k = true

theorem keysScalar_of_from (f : BitFont) (h : KeysScalarFrom 0 f.glyphs) : KeysScalar f := by
  intro k g hk
  unfold BitFont.get at hk
  have := h k g
  simp only [Nat.zero_add] at this
  apply this
  cases hh : f.glyphs[k]? with
  | none => rw [hh] at hk; simp at hk
  | some o => rw [hh] at hk; simp at hk; rw [hk]

end IcyVerif.Font
