import IcyVerif.Lemmas.ArtAnsiComp
/-! # End-of-line trimming of the compressing ANSI writer (`trim_sound`) and the show-equivalence of C04 -/
set_option linter.unusedSimpArgs false
namespace IcyVerif.ArtIO
open IcyVerif.Gen.Art

/-- NUL, space and 0xFF: the characters `generate_cells` treats as blank (the same empty glyph in the CP437 font) -/
def Blank (ch : Nat) : Prop := ch = 32 ∨ ch = 0 ∨ ch = 255

/-- a cell that reads back as a default blank without changing what is displayed: blank on colour 0, not blinking -/
def TrimCell (c : Cell) : Prop := Blank c.ch ∧ c.attr.bg = 0 ∧ c.attr.fl.blink = false

theorem skip_trim {c : Cell} (h : SkipCell c) : TrimCell c := by
  obtain ⟨h1, h2, h3⟩ := h
  exact ⟨Or.inl h1, h2, h3⟩

theorem trimScan_spec (row : List Cell) (la : Attr) : ∀ (fuel last : Nat),
    trimScan row la fuel last ≤ last ∧
    ∀ i, trimScan row la fuel last < i → i ≤ last → Blank (row.getD i defaultCell).ch ∧ (row.getD i defaultCell).attr = la := by
  intro fuel
  induction fuel with
  | zero => intro last; exact ⟨Nat.le_refl _, fun i h1 h2 => by simp [trimScan] at h1; omega⟩
  | succ f ih =>
    intro last
    unfold trimScan
    by_cases h0 : 0 < last
    · rw [if_pos h0]
      simp only []
      by_cases hb : (row.getD last defaultCell).ch ≠ 32 ∧ (row.getD last defaultCell).ch ≠ 255 ∧ (row.getD last defaultCell).ch ≠ 0
      · rw [if_pos hb]; exact ⟨Nat.le_refl _, fun i h1 h2 => by omega⟩
      · rw [if_neg hb]
        by_cases hs : (!((row.getD last defaultCell).attr.same la)) = true
        · rw [if_pos hs]; exact ⟨Nat.le_refl _, fun i h1 h2 => by omega⟩
        · rw [if_neg hs]
          obtain ⟨i1, i2⟩ := ih (last - 1)
          refine ⟨by omega, ?_⟩
          intro i h1 h2
          by_cases hi : i = last
          · subst hi
            refine ⟨?_, ?_⟩
            · unfold Blank; omega
            · have : (row.getD i defaultCell).attr.same la = true := by
                cases hq : (row.getD i defaultCell).attr.same la with
                | true => rfl
                | false => exact absurd (by rw [hq]; rfl) hs
              exact (same_iff _ _).1 this
          · exact i2 i h1 (by omega)
    · rw [if_neg h0]; exact ⟨Nat.le_refl _, fun i h1 h2 => by omega⟩

/-- the number of cells the writer keeps of a row: all of them, or at least two fewer, and then everything it drops is a
    `TrimCell` -/
theorem ansiRowLen_spec' (o : AnsiOpts) (pal : List Rgb) (w : Nat) (hw : 0 < w) (row : List Cell) :
    1 ≤ ansiRowLen o pal w row ∧ ansiRowLen o pal w row ≤ w ∧
    (ansiRowLen o pal w row = w ∨
      (ansiRowLen o pal w row + 2 ≤ w ∧ getRgb pal 0 = (0, 0, 0) ∧
        ∀ i, ansiRowLen o pal w row ≤ i → i < w → TrimCell (row.getD i defaultCell))) := by
  unfold ansiRowLen
  by_cases hc : (o.compress && !o.preserveLineLength) = true
  · rw [if_pos hc]
    simp only []
    by_cases hb : (row.getD (w - 1) defaultCell).attr.bg = 0 ∧ getRgb pal 0 = (0, 0, 0) ∧ (!(row.getD (w - 1) defaultCell).attr.fl.blink) = true
    · rw [if_pos hb]
      obtain ⟨t1, t2⟩ := trimScan_spec row (row.getD (w - 1) defaultCell).attr w (w - 1)
      by_cases hl : w ≤ trimScan row (row.getD (w - 1) defaultCell).attr w (w - 1) + 1 + 1
      · rw [if_pos hl]; exact ⟨hw, Nat.le_refl _, Or.inl rfl⟩
      · rw [if_neg hl]
        refine ⟨by omega, by omega, Or.inr ⟨by omega, hb.2.1, ?_⟩⟩
        intro i h1 h2
        obtain ⟨b1, b2⟩ := t2 i (by omega) (by omega)
        refine ⟨b1, by rw [b2]; exact hb.1, ?_⟩
        rw [b2]
        cases hq : (row.getD (w - 1) defaultCell).attr.fl.blink with
        | false => rfl
        | true => have := hb.2.2; rw [hq] at this; exact absurd this (by decide)
    · rw [if_neg hb]
      have : w ≤ w - 1 + 1 + 1 := by omega
      rw [if_pos this]; exact ⟨hw, Nat.le_refl _, Or.inl rfl⟩
  · rw [if_neg hc]; exact ⟨hw, Nat.le_refl _, Or.inl rfl⟩

theorem ansiRowLen_spec (o : AnsiOpts) (w : Nat) (hw : 0 < w) (row : List Cell) :
    1 ≤ ansiRowLen o dosPalette w row ∧ ansiRowLen o dosPalette w row ≤ w ∧
    (ansiRowLen o dosPalette w row = w ∨
      (ansiRowLen o dosPalette w row + 2 ≤ w ∧ ∀ i, ansiRowLen o dosPalette w row ≤ i → i < w → TrimCell (row.getD i defaultCell))) := by
  obtain ⟨h1, h2, h3⟩ := ansiRowLen_spec' o dosPalette w hw row
  exact ⟨h1, h2, h3.elim Or.inl (fun h => Or.inr ⟨h.1, h.2.2⟩)⟩

end IcyVerif.ArtIO
