import IcyVerif.Model.TermFile
import IcyVerif.Lemmas.TermPrim
set_option linter.unusedSimpArgs false
set_option linter.unusedVariables false
/-! # Invariant of the file-buffer model and its preservation by the primitives
`FGood`: terminal size 1..=1000 x 0..=65535 (what `set_sauce` and `CSI 8;h;w t` can produce), margins inside it, cursor
column 0..=1000, cursor row 0..=`capY` (`MAX_FILE_BUFFER_HEIGHT - 1`), layer width ≤ 1000, open hyperlinks started at
such positions, parser not in a music state (music is off in every loader).  From it every `add1` / `hyperLen` /
`clamp` / negative-index site is shown unreachable. -/
namespace IcyVerif.TermFile
open IcyVerif.Term

/-- the facts about the regenerated constants the proofs use: the row clamps are present and the bound is small
    enough for `(cp.y - p.y) * width` to stay inside `i32` (a tree without the clamps, or with a bound above 2·10^6,
    breaks these and with them every theorem below) -/
theorem limitRowClamped_true : limitRowClamped = true := by decide
theorem lfClamped_true : lfClamped = true := by decide
theorem capY_lo : 0 ≤ capY := by decide
theorem capY_hi : capY ≤ 2000000 := by decide

structure ScrF (s : Scr) : Prop where
  tw1 : 1 ≤ s.tw
  tw2 : s.tw ≤ 1000
  th0 : 0 ≤ s.th
  th2 : s.th ≤ 65535
  mtb : ∀ t b, s.mtb = some (t, b) → 0 ≤ t ∧ t ≤ b ∧ b < s.th
  mlr : ∀ l r, s.mlr = some (l, r) → 0 ≤ l ∧ l ≤ r ∧ r < s.tw

def CarF (c : Car) : Prop := 0 ≤ c.x ∧ c.x ≤ 1000 ∧ 0 ≤ c.y ∧ c.y ≤ capY
def RowsF (r : Rows) : Prop := r.lw ≤ 1000
def HlF (hl : List (Int × Int)) : Prop := ∀ p ∈ hl, 0 ≤ p.1 ∧ p.1 ≤ 1000 ∧ 0 ≤ p.2 ∧ p.2 ≤ capY
def NoMusic (ps : PSt) : Prop := ∀ m, ps ≠ .music m

def FGood (st : FSt) : Prop := ScrF st.s ∧ CarF st.c ∧ RowsF st.r ∧ HlF st.hl ∧ NoMusic st.p.st
abbrev FGoodR (r : FSt × Out) : Prop := FGood r.1

/-! ## screens -/
theorem scrF_mtb (s : Scr) (m : Option (Int × Int)) (h : ScrF s)
    (hm : ∀ t b, m = some (t, b) → 0 ≤ t ∧ t ≤ b ∧ b < s.th) : ScrF { s with mtb := m } :=
  ⟨h.tw1, h.tw2, h.th0, h.th2, hm, h.mlr⟩
theorem scrF_mlr (s : Scr) (m : Option (Int × Int)) (h : ScrF s)
    (hm : ∀ l r, m = some (l, r) → 0 ≤ l ∧ l ≤ r ∧ r < s.tw) : ScrF { s with mlr := m } :=
  ⟨h.tw1, h.tw2, h.th0, h.th2, h.mtb, hm⟩
theorem setMarginsTB_F (s : Scr) (a b : Int) (h : ScrF s) : ScrF (setMarginsTB s a b) := by
  unfold setMarginsTB
  apply scrF_mtb s _ h
  intro t e he
  split at he
  · cases he
  · simp only [Option.some.injEq, Prod.mk.injEq] at he
    omega
theorem setMarginsLR_F (s : Scr) (a b : Int) (h : ScrF s) : ScrF (setMarginsLR s a b) := by
  unfold setMarginsLR
  apply scrF_mlr s _ h
  intro t e he
  split at he
  · cases he
  · simp only [Option.some.injEq, Prod.mk.injEq] at he
    omega
theorem resetTerminal_F (s : Scr) (h : ScrF s) : ScrF (resetTerminal s) :=
  ⟨h.tw1, h.tw2, h.th0, h.th2, fun t b hh => by simp [resetTerminal] at hh, fun t b hh => by simp [resetTerminal] at hh⟩
theorem scrF_modes (s : Scr) (aw dm : Bool) (tabs : List Int) (h : ScrF s) :
    ScrF { s with autowrap := aw, declrmm := dm, tabs := tabs } :=
  ⟨h.tw1, h.tw2, h.th0, h.th2, h.mtb, h.mlr⟩
theorem scrF_nomargins (s : Scr) (aw dm : Bool) (tabs : List Int) (h : ScrF s) :
    ScrF { s with autowrap := aw, declrmm := dm, tabs := tabs, mtb := none, mlr := none } :=
  ⟨h.tw1, h.tw2, h.th0, h.th2, fun t b hh => by simp at hh, fun t b hh => by simp at hh⟩
theorem scrF_nolr (s : Scr) (aw dm : Bool) (tabs : List Int) (h : ScrF s) :
    ScrF { s with autowrap := aw, declrmm := dm, tabs := tabs, mlr := none } :=
  ⟨h.tw1, h.tw2, h.th0, h.th2, h.mtb, fun t b hh => by simp at hh⟩
theorem scrF_resize (s : Scr) (w h' : Int) (tabs : List Int) (h : ScrF s) :
    ScrF { s with tw := max (min w 132) 1, th := max (min h' 60) 1, tabs := tabs, mtb := none, mlr := none } :=
  ⟨by simp only; omega, by simp only; omega, by simp only; omega, by simp only; omega,
    fun t b hh => by simp at hh, fun t b hh => by simp at hh⟩

/-! ## row table: the layer width never changes -/
@[simp] theorem setChar_lw (r : Rows) (x y : Int) : (r.setChar x y).lw = r.lw := by
  unfold Rows.setChar; split <;> rfl
@[simp] theorem touchRect_lw (r : Rows) (a b c d : Int) : (r.touchRect a b c d).lw = r.lw := by
  unfold Rows.touchRect; simp only []; split <;> rfl
@[simp] theorem insertLine_lw (r : Rows) (i : Int) : (r.insertLine i).lw = r.lw := rfl
@[simp] theorem del_lw (r : Rows) (x y : Int) : (r.del x y).lw = r.lw := by
  unfold Rows.del; split <;> rfl
@[simp] theorem ins_lw (r : Rows) (x y : Int) : (r.ins x y).lw = r.lw := by
  unfold Rows.ins; split <;> rfl
@[simp] theorem ech_lw (r : Rows) (a b c d : Int) : (r.ech a b c d).lw = r.lw := by
  unfold Rows.ech; simp only []; split <;> rfl
@[simp] theorem scrollUpF_lw (s : Scr) (r : Rows) : (scrollUpF s r).lw = r.lw := by simp [scrollUpF]
@[simp] theorem scrollDownF_lw (s : Scr) (r : Rows) : (scrollDownF s r).lw = r.lw := by simp [scrollDownF]
@[simp] theorem scrollLeftF_lw (s : Scr) (r : Rows) : (scrollLeftF s r).lw = r.lw := rfl
@[simp] theorem scrollRightF_lw (s : Scr) (r : Rows) : (scrollRightF s r).lw = r.lw := rfl
@[simp] theorem removeTermLine_lw (s : Scr) (r : Rows) (y : Int) : (removeTermLine s r y).lw = r.lw := by
  unfold removeTermLine; split
  · rfl
  · simp only []; split <;> simp
@[simp] theorem insertTermLine_lw (s : Scr) (r : Rows) (y : Int) : (insertTermLine s r y).lw = r.lw := by
  unfold insertTermLine; simp only [insertLine_lw]
  split
  · split <;> rfl
  · rfl
@[simp] theorem rectF_lw (s : Scr) (r : Rows) (a b c d : Int) : (rectF s r a b c d).lw = r.lw := by
  unfold rectF; simp only []; split <;> simp
theorem iterN_lw (f : Rows → Rows) (hf : ∀ r, (f r).lw = r.lw) : ∀ (n : Nat) (r : Rows), (iterN f n r).lw = r.lw := by
  intro n
  induction n with
  | zero => intro r; rfl
  | succ n ih => intro r; simp only [iterN]; rw [ih, hf]

@[simp] theorem removeTermLines_lw (s : Scr) (r : Rows) (y : Int) (k : Nat) : (removeTermLines s r y k).lw = r.lw := by
  unfold removeTermLines; split
  · split <;> rfl
  · exact iterN_lw _ (fun r => removeTermLine_lw s r y) _ _

theorem rowsF_of_lw (r r' : Rows) (h : RowsF r) (hl : r'.lw = r.lw) : RowsF r' := by
  unfold RowsF at *; omega

/-! ## `limit_caret_pos` and the caret primitives -/
theorem limitF_spec (s : Scr) (c : Car) (hs : ScrF s) : okAnd (limitF s c) (fun c' => CarF c' ∧ c'.ins = c.ins) := by
  have := hs.tw1; have := hs.tw2; have := capY_lo; have := capY_hi
  unfold limitF
  rw [limitRowClamped_true]
  have hn : ¬ (0 > capY) := by omega
  simp only [if_true, hn, if_false, okAnd_ok, CarF, clampI]
  refine ⟨⟨?_, ?_, ?_, ?_⟩, ?_⟩ <;> first | omega | trivial

theorem add1_ok (site : String) (v : Int) (h : v ≤ 2147483646) : add1 site v = .ok (v + 1) := by
  unfold add1; rw [if_pos (by omega)]

theorem lfF_spec (s : Scr) (c : Car) (r : Rows) (hs : ScrF s) (y0 : 0 ≤ c.y) (y1 : c.y ≤ capY) (hr : RowsF r) :
    okAnd (lfF s c r) (fun p => CarF p.1 ∧ RowsF p.2 ∧ p.1.ins = c.ins) := by
  have := capY_hi
  unfold lfF
  rw [add1_ok _ _ (by omega), lfClamped_true]
  simp only [if_true]
  have hl := limitF_spec s { c with x := 0, y := c.y + 1 } hs
  cases hlc : limitF s { c with x := 0, y := c.y + 1 } with
  | error e => rw [hlc] at hl; exact hl.elim
  | ok c' =>
    rw [hlc] at hl
    simp only [okAnd_ok] at hl ⊢
    exact ⟨hl.1, hr, hl.2⟩

theorem ite_lw {c : Prop} [Decidable c] {a b : Rows} {w : Int} (ha : a.lw = w) (hb : b.lw = w) :
    (if c then a else b).lw = w := by split <;> assumption

/-- the row-table part of `print_char` keeps the layer width -/
theorem printRows_lw (c : Car) (r : Rows) (y1 : Int) (l : Array Nat) :
    ((if y1 > (if c.ins = true then ({ r with lens := l } : Rows) else r).lh
        then { (if c.ins = true then ({ r with lens := l } : Rows) else r) with lh := y1 }
        else (if c.ins = true then ({ r with lens := l } : Rows) else r)).setChar c.x c.y).lw = r.lw := by
  rw [setChar_lw]
  have hin : (if c.ins = true then ({ r with lens := l } : Rows) else r).lw = r.lw := ite_lw rfl rfl
  exact ite_lw hin hin

theorem printCharF_spec (s : Scr) (c : Car) (r : Rows) (hs : ScrF s) (hc : CarF c) (hr : RowsF r) :
    okAnd (printCharF s c r) (fun p => CarF p.1 ∧ RowsF p.2 ∧ p.1.ins = c.ins) := by
  have := capY_hi
  obtain ⟨x0, x1, y0, y1⟩ := hc
  have hr' : r.lw ≤ 1000 := hr
  unfold printCharF
  have hn1 : ¬ (c.ins = true ∧ c.y < 0) := by omega
  have hn2 : ¬ (c.ins = true ∧ c.x < 0) := by omega
  rw [if_neg hn1, if_neg hn2, add1_ok _ _ (by omega), add1_ok _ _ (by omega)]
  simp only []
  have hrows := printRows_lw c r (c.y + 1) ((growEmpty r.lens (c.y.toNat + 1)).modify c.y.toNat (fun len => max len c.x.toNat + 1))
  split
  · split
    · refine okAnd_mono (lfF_spec s { c with x := c.x + 1 } _ hs y0 y1 (rowsF_of_lw r _ hr hrows)) ?_
      intro p hp; exact hp
    · exact ⟨⟨by simp only; omega, by simp only; omega, y0, y1⟩, rowsF_of_lw r _ hr hrows, rfl⟩
  · exact ⟨⟨by simp only; omega, by simp only; omega, y0, y1⟩, rowsF_of_lw r _ hr hrows, rfl⟩

theorem printNF_spec : ∀ (n : Nat) (s : Scr) (c : Car) (r : Rows), ScrF s → CarF c → RowsF r →
    okAnd (printNF n s c r) (fun p => CarF p.1 ∧ RowsF p.2 ∧ p.1.ins = c.ins) := by
  intro n
  induction n with
  | zero => intro s c r _ hc hr; exact ⟨hc, hr, rfl⟩
  | succ n ih =>
    intro s c r hs hc hr
    simp only [printNF]
    have hp := printCharF_spec s c r hs hc hr
    cases hpc : printCharF s c r with
    | error e => rw [hpc] at hp; exact hp.elim
    | ok p =>
      rw [hpc] at hp
      obtain ⟨c1, r1⟩ := p
      obtain ⟨h1, h2, h3⟩ := hp
      refine okAnd_mono (ih s c1 r1 hs h1 h2) ?_
      intro q ⟨q1, q2, q3⟩
      exact ⟨q1, q2, by rw [q3, h3]⟩

theorem liftLim_spec (s : Scr) (c : Car) (r : Rows) (hs : ScrF s) (hr : RowsF r) :
    okAnd (liftLim (limitF s c) r) (fun p => CarF p.1 ∧ RowsF p.2 ∧ p.1.ins = c.ins) := by
  have hl := limitF_spec s c hs
  cases hlc : limitF s c with
  | error e => rw [hlc] at hl; exact hl.elim
  | ok c' => rw [hlc] at hl; exact ⟨hl.1, hr, hl.2⟩

theorem scrollDownForce_lw (s : Scr) (c : Car) (r : Rows) : (scrollDownForce s c r).2.lw = r.lw := by
  unfold scrollDownForce; split <;> simp
theorem scrollDownForce_ins (s : Scr) (c : Car) (r : Rows) : (scrollDownForce s c r).1.ins = c.ins := by
  unfold scrollDownForce; split <;> rfl
theorem scrollUpForce_lw (s : Scr) (c : Car) (r : Rows) : (scrollUpForce s c r).2.lw = r.lw := by
  unfold scrollUpForce; split
  · exact iterN_lw _ (scrollDownF_lw s) _ _
  · rfl
theorem scrollUpForce_ins (s : Scr) (c : Car) (r : Rows) : (scrollUpForce s c r).1.ins = c.ins := by
  unfold scrollUpForce; split <;> rfl

theorem indexF_spec (s : Scr) (c : Car) (r : Rows) (hs : ScrF s) (hc : CarF c) (hr : RowsF r) :
    okAnd (indexF s c r) (fun p => CarF p.1 ∧ RowsF p.2 ∧ p.1.ins = c.ins) := by
  have := capY_hi
  obtain ⟨x0, x1, y0, y1⟩ := hc
  unfold indexF
  rw [add1_ok _ _ (by omega)]
  simp only []
  refine okAnd_mono (liftLim_spec s _ _ hs (rowsF_of_lw r _ hr (scrollDownForce_lw s _ r))) ?_
  intro p ⟨p1, p2, p3⟩
  exact ⟨p1, p2, by rw [p3, scrollDownForce_ins]⟩

theorem nextLineF_spec (s : Scr) (c : Car) (r : Rows) (hs : ScrF s) (hc : CarF c) (hr : RowsF r) :
    okAnd (nextLineF s c r) (fun p => CarF p.1 ∧ RowsF p.2 ∧ p.1.ins = c.ins) := by
  have := capY_hi
  obtain ⟨x0, x1, y0, y1⟩ := hc
  unfold nextLineF
  rw [add1_ok _ _ (by omega)]
  simp only []
  refine okAnd_mono (liftLim_spec s _ _ hs (rowsF_of_lw r _ hr (scrollDownForce_lw s _ r))) ?_
  intro p ⟨p1, p2, p3⟩
  exact ⟨p1, p2, by rw [p3, scrollDownForce_ins]⟩

theorem reverseIndexF_spec (s : Scr) (c : Car) (r : Rows) (hs : ScrF s) (hc : CarF c) (hr : RowsF r) :
    okAnd (reverseIndexF s c r) (fun p => CarF p.1 ∧ RowsF p.2 ∧ p.1.ins = c.ins) := by
  obtain ⟨x0, x1, y0, y1⟩ := hc
  unfold reverseIndexF
  rw [if_neg (by omega)]
  simp only []
  refine okAnd_mono (liftLim_spec s _ _ hs (rowsF_of_lw r _ hr (scrollUpForce_lw s _ r))) ?_
  intro p ⟨p1, p2, p3⟩
  exact ⟨p1, p2, by rw [p3, scrollUpForce_ins]⟩

/-- closing a hyperlink that was opened at a reachable position, at a reachable position: no `i32` overflow -/
theorem hyperLen_ok (tw cx cy px py : Int) (ht1 : 1 ≤ tw) (ht2 : tw ≤ 1000) (hcx : 0 ≤ cx ∧ cx ≤ 1000) (hcy : 0 ≤ cy ∧ cy ≤ capY)
    (hpx : 0 ≤ px ∧ px ≤ 1000) (hpy : 0 ≤ py ∧ py ≤ capY) : ∃ v, hyperLen tw cx cy px py = .ok v := by
  have := capY_hi
  have hd1 : -2000000 ≤ cy - py := by omega
  have hd2 : cy - py ≤ 2000000 := by omega
  have hm1 : -2000000000 ≤ (cy - py) * tw := by
    have : (cy - py) * tw ≥ -2000000 * tw := Int.mul_le_mul_of_nonneg_right hd1 (by omega)
    omega
  have hm2 : (cy - py) * tw ≤ 2000000000 := by
    have : (cy - py) * tw ≤ 2000000 * tw := Int.mul_le_mul_of_nonneg_right hd2 (by omega)
    omega
  have i0 : InI32 (cx - px) := by unfold InI32; omega
  have i1 : InI32 (tw - px) := by unfold InI32; omega
  have i2 : InI32 (cy - py) := by unfold InI32; omega
  have i3 : InI32 ((cy - py) * tw) := by unfold InI32; omega
  have i4 : InI32 (tw - px + (cy - py) * tw) := by unfold InI32; omega
  have i5 : InI32 (tw - px + (cy - py) * tw + px) := by unfold InI32; omega
  unfold hyperLen
  split
  · exact ⟨_, rfl⟩
  · exact ⟨_, rfl⟩

/-! ## DL without margins: the closed form of the model is the loop of the code -/
theorem list_erase_closed (l : List Nat) (n k : Nat) (hn : n < l.length) :
    (l.eraseIdx n).take n ++ (l.eraseIdx n).drop (n + k) = l.take n ++ l.drop (n + (k + 1)) := by
  rw [List.eraseIdx_eq_take_drop_succ]
  have hl : (l.take n).length = n := by rw [List.length_take]; omega
  rw [List.take_append_of_le_length (by omega), List.take_of_length_le (by omega)]
  congr 1
  rw [List.drop_append, List.drop_eq_nil_of_le (by omega), hl, List.nil_append, List.drop_drop]
  congr 1
  omega

/-- the row table after `take n ++ drop (n + k)` written with `Array.extract` -/
theorem extract_toList (a : Array Nat) (n k : Nat) :
    (a.extract 0 n ++ a.extract (n + k) a.size).toList = a.toList.take n ++ a.toList.drop (n + k) := by
  simp only [Array.toList_append, Array.toList_extract, List.extract, Nat.sub_zero, List.drop_zero]
  congr 1
  rw [List.take_of_length_le]
  simp

/-- **DL without margins**: `k` times `remove_terminal_line(y)` = the rows `y .. y + k` disappear -/
theorem removeTermLines_eq_iter (s : Scr) (y : Int) (hy : 0 ≤ y) : ∀ (k : Nat) (r : Rows),
    removeTermLines s r y k = iterN (fun r => removeTermLine s r y) k r := by
  intro k r
  unfold removeTermLines
  cases hm : s.mtb with
  | some p => rfl
  | none =>
    simp only [if_neg (show ¬ y < 0 by omega)]
    induction k generalizing r with
    | zero =>
      simp only [iterN]
      have : r.lens.extract 0 y.toNat ++ r.lens.extract (y.toNat + 0) r.lens.size = r.lens := by
        apply Array.ext'
        rw [extract_toList]; simp
      rw [this]
    | succ k ih =>
      simp only [iterN]
      rw [← ih]
      unfold removeTermLine
      rw [hm]
      by_cases hge : y ≥ r.nl
      · simp only [hge, if_true]
        congr 1
        apply Array.ext'
        rw [extract_toList, extract_toList]
        have : r.lens.toList.length ≤ y.toNat := by
          have : (r.lens.size : Int) ≤ y := hge
          simp only [Array.length_toList]; omega
        rw [List.drop_eq_nil_of_le (by omega), List.drop_eq_nil_of_le (by omega)]
      · simp only [hge, if_false]
        congr 1
        apply Array.ext'
        have hlt : y.toNat < r.lens.toList.length := by
          have : ¬ ((r.lens.size : Int) ≤ y) := hge
          simp only [Array.length_toList]; omega
        rw [extract_toList, extract_toList, Array.toList_eraseIdxIfInBounds]
        exact (list_erase_closed r.lens.toList y.toNat k hlt).symm

end IcyVerif.TermFile
