import IcyVerif.Lemmas.IcyDrawApply
/-! Lemmas about the IcyDraw model (C07): the writer never splits a layer of the quantifier, the fixed-size
header fields read back, and the whole `LAYER_n` payload decodes to the layer that was encoded. -/
set_option linter.unusedSimpArgs false
namespace IcyVerif.IcyDraw
open IcyVerif.Gen.Icy

/-! ## the rows the writer sees -/

theorem rowView_length (l : Layer) (y : Nat) : (rowView l y).length = l.width := by simp [rowView]

theorem rowView_get (l : Layer) (y x : Nat) (hx : x < l.width) : (rowView l y)[x]? = some (getChar l x y) := by
  simp [rowView, hx]

theorem allRows_length (l : Layer) : (allRows l).length = l.height := by simp [allRows]

theorem allRows_get (l : Layer) (y : Nat) (hy : y < l.height) : (allRows l)[y]? = some (rowView l y) := by
  simp [allRows, hy]

theorem allRows_row_length (l : Layer) : ∀ r ∈ allRows l, r.length = l.width := by
  intro r hr
  simp only [allRows, List.mem_map] at hr
  obtain ⟨y, _, rfl⟩ := hr
  exact rowView_length l y

/-! ## everything fits the first chunk -/

theorem encodeCell_length_le (c : Cell) : (encodeCell c).length ≤ 16 := by
  unfold encodeCell
  split
  · split <;> simp [leBytes_length]
  · simp [leBytes_length]

theorem flatMap_encodeCell_length_le (cs : List Cell) : (cs.flatMap encodeCell).length ≤ 16 * cs.length := by
  induction cs with
  | nil => simp
  | cons c cs ih =>
    have := encodeCell_length_le c
    simp only [List.flatMap_cons, List.length_append, List.length_cons]; omega

theorem encodeRow_length_le (w : Nat) (cells : List Cell) (h : cells.length = w) : (encodeRow w cells).length ≤ 16 * w := by
  unfold encodeRow
  simp only []
  have h1 := flatMap_encodeCell_length_le (stripInv cells)
  have h2 := stripInv_length_le cells
  by_cases hfull : w > (stripInv cells).length
  · simp only [hfull, if_true, List.length_append, leBytes_length]; omega
  · simp only [hfull, if_false, List.append_nil]; omega

theorem flatMap_encodeRow_length_le (w : Nat) (rows : List (List Cell)) (hlen : ∀ r ∈ rows, r.length = w) :
    (rows.flatMap (encodeRow w)).length ≤ 16 * w * rows.length := by
  induction rows with
  | nil => simp
  | cons r rs ih =>
    have h1 := encodeRow_length_le w r (hlen r (List.mem_cons_self ..))
    have h2 := ih (fun r hr => hlen r (List.mem_cons_of_mem _ hr))
    simp only [List.flatMap_cons, List.length_append, List.length_cons, Nat.mul_succ]; omega

theorem budget_all (w : Nat) (rows : List (List Cell)) (len : Nat) (hlen : ∀ r ∈ rows, r.length = w)
    (h : len + 16 * w * rows.length ≤ maxChunk) :
    encodeRowsBudget w len rows = (rows.flatMap (encodeRow w), []) := by
  induction rows generalizing len with
  | nil => rfl
  | cons r rs ih =>
    have h1 := encodeRow_length_le w r (hlen r (List.mem_cons_self ..))
    simp only [List.length_cons, Nat.mul_succ] at h
    have hb : rowBudgetFactor = 16 := rfl
    simp only [encodeRowsBudget, hb]
    rw [if_neg (by omega)]
    rw [ih (len + (encodeRow w r).length) (fun r hr => hlen r (List.mem_cons_of_mem _ hr)) (by omega)]
    simp


theorem rdString_enc (t rest : Bytes) (h : t.length < 4294967296) :
    rdString (leBytes 4 t.length ++ (t ++ rest)) = .ok (t, rest) := by
  unfold rdString
  rw [lenLt_false _ _ (by simp [leBytes_length])]
  simp only [Bool.false_eq_true, if_false]
  rw [rdLE_leBytes]
  have : t.length % 256 ^ 4 = t.length := Nat.mod_eq_of_lt (by simpa using h)
  simp only [this]
  rw [lenLt_false _ _ (by simp)]
  simp only [Bool.false_eq_true, if_false]
  exact rdSlice_append t rest

@[simp] theorem Res.bind_ok' {α β : Type} (a : α) (f : α → Res β) : (Res.ok a >>= f) = f a := rfl
@[simp] theorem Res.pure_eq {α : Type} (a : α) : (pure a : Res α) = Res.ok a := rfl

theorem rdFields_enc (role mode r g b a flags tr ox oy w h dp len : Nat) (rest : Bytes) (hmode : mode ≤ 2) :
    rdFields (role :: 0 :: 0 :: 0 :: 0 :: mode :: r :: g :: b :: a :: (leBytes 4 flags ++ (tr :: (leBytes 4 ox ++ (leBytes 4 oy ++
      (leBytes 4 w ++ (leBytes 4 h ++ (leBytes 2 dp ++ (leBytes 8 len ++ rest))))))))) =
    .ok (⟨role, mode, r, g, b, a, flags % 256 ^ 4, tr, ox % 256 ^ 4, oy % 256 ^ 4, w % 256 ^ 4, h % 256 ^ 4, dp % 256 ^ 2, len % 256 ^ 8⟩, rest) := by
  unfold rdFields
  rw [lenLt_false _ _ (by simp only [List.length_cons, List.length_append, leBytes_length]; omega)]
  simp only [Bool.false_eq_true, if_false, rdU8, List.drop, Res.bind_ok', rdLE_leBytes, Res.pure_eq]
  rw [if_neg (by omega)]


theorem lookupRow_get (cs : List (Option Cell)) (x0 x' : Nat) :
    lookupRow cs x0 x' = if x0 ≤ x' then (cs[x' - x0]?).join else none := by
  induction cs generalizing x0 with
  | nil => simp [lookupRow]
  | cons o cs ih =>
    simp only [lookupRow, ih]
    by_cases e : x' = x0
    · subst e; simp
    · by_cases h : x0 ≤ x'
      · have : x' - x0 = (x' - (x0 + 1)) + 1 := by omega
        rw [if_neg e, if_pos (by omega), if_pos h, this, List.getElem?_cons_succ]
      · rw [if_neg e, if_neg (by omega), if_neg h]

theorem gridAt_get (rows : List (List (Option Cell))) (y0 x' y' : Nat) :
    gridAt rows y0 x' y' = if y0 ≤ y' then (match rows[y' - y0]? with | some r => lookupRow r 0 x' | none => none) else none := by
  induction rows generalizing y0 with
  | nil => simp [gridAt]
  | cons r rs ih =>
    simp only [gridAt, ih]
    by_cases e : y' = y0
    · subst e; simp
    · by_cases h : y0 ≤ y'
      · have : y' - y0 = (y' - (y0 + 1)) + 1 := by omega
        rw [if_neg e, if_pos (by omega), if_pos h, this, List.getElem?_cons_succ]
      · rw [if_neg e, if_neg (by omega), if_neg h]

/-- the reader's outcome for row `y`, looked up at column `x`, is the visible content the writer saw there -/
theorem lookup_stripInv (row : List Cell) (x : Nat) (g : Cell) (hg : row[x]? = some g) :
    (match lookupRow (optRow (stripInv row)) 0 x with | some c => optCell c | none => none) = optCell g := by
  obtain ⟨t, ht, hinv⟩ := stripInv_prefix row
  rw [lookupRow_get]
  simp only [Nat.zero_le, if_true, Nat.sub_zero, optRow, List.getElem?_map]
  by_cases hx : x < (stripInv row).length
  · have : (stripInv row)[x]? = some g := by
      rw [ht, List.getElem?_append_left hx] at hg; exact hg
    rw [this]
    simp only [Option.map_some, Option.join_some]
    cases hv : optCell g with
    | none => rfl
    | some c =>
      simp only [optCell] at hv
      split at hv
      · cases hv; simp [optCell, *]
      · cases hv
  · have : (stripInv row)[x]? = none := by simp; omega
    rw [this]
    simp only [Option.map_none, Option.join_none]
    rw [ht, List.getElem?_append_right (by omega)] at hg
    have hm : g ∈ t := List.mem_of_getElem? hg
    simp [optCell, hinv g hm]


theorem encodeLayerHeader_length (l : Layer) : (encodeLayerHeader l).length = l.title.length + 37 := by
  unfold encodeLayerHeader leI32
  cases l.color with
  | none => simp [leBytes_length]; omega
  | some c => obtain ⟨r, g, b⟩ := c; simp [leBytes_length]; omega

theorem encodeFlags_lt (l : Layer) : encodeFlags l < 32 := by
  unfold encodeFlags
  cases l.isVisible <;> cases l.isLocked <;> cases l.isPosLocked <;> cases l.hasAlpha <;> cases l.isAlphaLocked <;> decide

theorem decodeFlags_encodeFlags (a l : Layer) :
    decodeFlags a (encodeFlags l) =
      { a with isVisible := l.isVisible, isLocked := l.isLocked, isPosLocked := l.isPosLocked,
               hasAlpha := l.hasAlpha, isAlphaLocked := l.isAlphaLocked } := by
  unfold decodeFlags encodeFlags
  cases l.isVisible <;> cases l.isLocked <;> cases l.isPosLocked <;> cases l.hasAlpha <;> cases l.isAlphaLocked <;> rfl

theorem visAt_flags (a : Layer) (v lk p h al : Bool) (x y : Nat) :
    visAt { a with isVisible := v, isLocked := lk, isPosLocked := p, hasAlpha := h, isAlphaLocked := al } x y = visAt a x y := rfl

theorem toI32_leI32 (x : Int) (h1 : -2147483648 ≤ x) (h2 : x < 2147483648) :
    toI32 ((x % 4294967296).toNat % 256 ^ 4) = x := by
  unfold toI32
  have : (256 : Nat) ^ 4 = 4294967296 := by decide
  rw [this]
  omega

/-- what a well-formed layer is written as: one chunk -/
theorem encodeLayer_wf (l : Layer) (hrole : l.role = 0) (hfits : l.fits = true) :
    encodeLayer l = some [encodeLayerHeader l ++ (leBytes 8 ((allRows l).flatMap (encodeRow l.width)).length ++
      (allRows l).flatMap (encodeRow l.width))] := by
  unfold encodeLayer
  simp only [hrole, Nat.reduceEqDiff, if_false]
  have hb := budget_all l.width (allRows l) ((encodeLayerHeader l).length + 8) (allRows_row_length l) (by
    rw [encodeLayerHeader_length, allRows_length]
    simp only [Layer.fits, decide_eq_true_eq] at hfits
    omega)
  simp only [hb, List.length_nil, encodeCont, Option.map_some, List.append_assoc]


theorem modeBytes_getD (m : Nat) (h : m < 3) : modeBytes.getD m 0 = m := by
  have : m = 0 ∨ m = 1 ∨ m = 2 := by omega
  rcases this with rfl | rfl | rfl <;> rfl

theorem readRows_width0 (h : Nat) : readRows 0 h [] = .ok [] := by
  cases h <;> simp [readRows]

theorem flatMap_encodeRow_width0 (rows : List (List Cell)) (h : ∀ r ∈ rows, r.length = 0) :
    rows.flatMap (encodeRow 0) = [] := by
  induction rows with
  | nil => rfl
  | cons r rs ih =>
    have hr : r = [] := List.eq_nil_of_length_eq_zero (h r (List.mem_cons_self ..))
    subst hr
    simp only [List.flatMap_cons, ih (fun r hr => h r (List.mem_cons_of_mem _ hr))]
    simp [encodeRow, stripInv]

theorem decodeLayer_encode (l : Layer) (hw : l.wf = true) :
    ∃ l', decodeLayer [encodeLayerHeader l ++ (leBytes 8 ((allRows l).flatMap (encodeRow l.width)).length ++
      (allRows l).flatMap (encodeRow l.width))] = .ok l' ∧ l' ≈doc l := by
  simp only [Layer.wf, Bool.and_eq_true, decide_eq_true_eq, beq_iff_eq] at hw
  obtain ⟨⟨⟨⟨⟨⟨⟨⟨⟨⟨⟨⟨⟨_htitle, hrole⟩, hmode⟩, hcolor⟩, htr⟩, hox1⟩, hox2⟩, hoy1⟩, hoy2⟩, hwd⟩, hht⟩, hdp⟩, hfits⟩, hcells⟩ := hw
  have hfits' := hfits
  simp only [Layer.fits, decide_eq_true_eq] at hfits'
  have hmax : maxChunk = 3000000 := rfl
  have hdata := flatMap_encodeRow_length_le l.width (allRows l) (allRows_row_length l)
  rw [allRows_length] at hdata
  generalize hD : (allRows l).flatMap (encodeRow l.width) = data at hdata
  -- the cells of every row are well-formed
  have hcw : ∀ r ∈ allRows l, ∀ c ∈ r, c.wf = true := by
    intro r hr c hc
    rw [List.all_eq_true] at hcells
    have := hcells r hr
    rw [List.all_eq_true] at this
    exact this c hc
  -- reading the rows
  have hrows : ∃ rows', readRows l.width l.height data = .ok rows' ∧ rows'.length ≤ l.height ∧
      (∀ r ∈ rows', r.length ≤ l.width) ∧
      ∀ x y, x < l.width → y < l.height →
        (match gridAt rows' 0 x y with | some c => optCell c | none => none) = visAt l x y := by
    by_cases hw0 : l.width = 0
    · refine ⟨[], ?_, by simp, by simp, ?_⟩
      · have : data = [] := by
          rw [← hD, hw0]
          exact flatMap_encodeRow_width0 _ (by intro r hr; rw [allRows_row_length l r hr, hw0])
        rw [this, hw0]; exact readRows_width0 _
      · intro x y hx; omega
    · refine ⟨(allRows l).map fun r => optRow (stripInv r), ?_, by simp [allRows_length], ?_, ?_⟩
      · have := readRows_rows l.width (by omega) (allRows l) (allRows_row_length l) hcw
        rw [allRows_length, hD] at this
        exact this
      · intro r hr
        simp only [List.mem_map] at hr
        obtain ⟨r0, hr0, rfl⟩ := hr
        have := stripInv_length_le r0
        rw [allRows_row_length l r0 hr0] at this
        simpa [optRow] using this
      · intro x y hx hy
        rw [gridAt_get]
        simp only [Nat.zero_le, if_true, Nat.sub_zero, List.getElem?_map, allRows_get l y hy, Option.map_some]
        exact lookup_stripInv (rowView l y) x (getChar l x y) (rowView_get l y x hx)
  obtain ⟨rows', hread, hlen', hwid', hgrid⟩ := hrows
  -- the header fields
  have htl : l.title.length < 4294967296 := by omega
  have hdl : data.length % 256 ^ 8 = data.length := Nat.mod_eq_of_lt (by
    have : (256 : Nat) ^ 8 = 18446744073709551616 := by decide
    rw [this]
    have : 16 * l.width * l.height ≤ 3000000 := by omega
    omega)
  have hfl : encodeFlags l % 256 ^ 4 = encodeFlags l := Nat.mod_eq_of_lt (by
    have := encodeFlags_lt l
    have : (256 : Nat) ^ 4 = 4294967296 := by decide
    omega)
  have hp4 : (256 : Nat) ^ 4 = 4294967296 := by decide
  have hp2 : (256 : Nat) ^ 2 = 65536 := by decide
  simp only [decodeLayer, decodeLayerMain, encodeLayerHeader, List.append_assoc, List.cons_append, List.nil_append]
  rw [rdString_enc _ _ htl]
  simp only [hrole, Nat.reduceEqDiff, if_false, roleNormalByte]
  have key : ∀ (r g b a : Nat), (a ≠ 0 → l.color = some (r, g, b)) → (a = 0 → l.color = none) →
      ∃ l', (match
        (match rdFields (0 :: 0 :: 0 :: 0 :: 0 :: modeBytes.getD l.mode 0 :: r :: g :: b :: a :: (leBytes 4 (encodeFlags l) ++
            (l.transparency % 256 :: (leI32 l.offX ++ (leI32 l.offY ++ (leBytes 4 l.width ++ (leBytes 4 l.height ++
            (leBytes 2 l.defaultPage ++ (leBytes 8 data.length ++ data))))))))) with
        | Res.fail e => Res.fail e
        | Res.ok (f, data) =>
          if f.roleByte = 1 then
            (if lenLt data 16 = true then Res.fail Fail.errCodec else
             if f.width ≥ 2147483648 ∨ f.height ≥ 2147483648 then Res.fail Fail.negSize else
             Res.ok (decodeFlags (freshLayer l.title f) f.flags))
          else if lenLt data f.length = true then Res.fail Fail.errLength
          else if f.width ≥ 2147483648 ∨ f.height ≥ 2147483648 then Res.fail Fail.negSize
          else match readRows f.width f.height data with
            | Res.fail e => Res.fail e
            | Res.ok rows => Res.ok (decodeFlags (applyRows (freshLayer l.title f) 0 rows) f.flags)) with
        | Res.fail e => Res.fail e
        | Res.ok l => decodeConts l []) = Res.ok l' ∧ l' ≈doc l := by
    intro r g b a hc1 hc0
    unfold leI32
    rw [rdFields_enc _ _ _ _ _ _ _ _ _ _ _ _ _ _ _ (by rw [modeBytes_getD _ hmode]; omega)]
    have hwd' : l.width % 4294967296 = l.width := by omega
    have hht' : l.height % 4294967296 = l.height := by omega
    simp only [hdl, hfl, hp4, hp2, hwd', hht', Nat.mod_eq_of_lt hdp]
    rw [if_neg (by decide), lenLt_false _ _ (Nat.le_refl _)]
    simp only [Bool.false_eq_true, if_false]
    rw [if_neg (by omega)]
    simp only [hread, decodeConts]
    refine ⟨_, rfl, ?_⟩
    have hfresh : Plain (freshLayer l.title ⟨0, modeBytes.getD l.mode 0, r, g, b, a, encodeFlags l, l.transparency % 256,
        (l.offX % 4294967296).toNat % 4294967296, (l.offY % 4294967296).toNat % 4294967296, l.width, l.height, l.defaultPage, data.length⟩) :=
      ⟨rfl, rfl, rfl⟩
    obtain ⟨same, vis⟩ := applyRows_spec rows' _ 0 hfresh (by simpa [freshLayer] using hlen') (by simpa [freshLayer] using hwid')
    obtain ⟨ls, hls⟩ := same
    rw [hls, decodeFlags_encodeFlags]
    have hx := toI32_leI32 l.offX hox1 hox2
    have hy := toI32_leI32 l.offY hoy1 hoy2
    rw [hp4] at hx hy
    refine ⟨rfl, by simp [freshLayer, hrole], (by show modeBytes.getD l.mode 0 = l.mode; exact modeBytes_getD _ hmode), ?_, rfl, rfl, rfl, rfl, rfl,
      by simp [freshLayer]; omega, by simp [freshLayer, hx], by simp [freshLayer, hy], rfl, rfl, rfl, ?_⟩
    · simp only [freshLayer]
      by_cases ha : a = 0
      · simp [ha, hc0 ha]
      · simp [ha, hc1 ha]
    · intro x y hx' hy'
      rw [visAt_flags, ← hls, vis, ← hgrid x y hx' hy']
      have : visAt (freshLayer l.title ⟨0, modeBytes.getD l.mode 0, r, g, b, a, encodeFlags l, l.transparency % 256,
        (l.offX % 4294967296).toNat % 4294967296, (l.offY % 4294967296).toNat % 4294967296, l.width, l.height, l.defaultPage, data.length⟩) x y = none := by
        rw [visAt_eq]; simp [freshLayer, visIn, cellAt]
      rw [this]
      cases gridAt rows' 0 x y <;> rfl
  cases hc : l.color with
  | none =>
    simp only []
    exact key 0 0 0 0 (by simp) (fun _ => hc)
  | some c =>
    obtain ⟨r, g, b⟩ := c
    simp only [hc, Bool.and_eq_true, decide_eq_true_eq] at hcolor
    obtain ⟨⟨hr, hg⟩, hb⟩ := hcolor
    simp only [Nat.mod_eq_of_lt hr, Nat.mod_eq_of_lt hg, Nat.mod_eq_of_lt hb, colorAlphaByte]
    exact key r g b 255 (fun _ => hc) (by simp)

end IcyVerif.IcyDraw
