import IcyVerif.Lemmas.TermSize
set_option linter.unusedSimpArgs false
set_option linter.unusedVariables false
/-! # ANSI music: the parser's music fields stay in range, so the arithmetic of `sound.rs` cannot overflow
`cur_tempo` is always within 32..=255 (initially 120, later `x.clamp(32, 255)`), `cur_octave` within 0..=6,
`cur_length` within 1..=64.  Hence `self.cur_tempo * pause` (the only plain `i32` multiplication; `pause` is clamped
to 1..=64) stays below 2^31, and the note index `min(n + 12 * octave, 83)` is inside `FREQ`. -/
namespace IcyVerif.Term

structure MusOk (m : Mus) : Prop where
  t1 : 32 ≤ m.tempo
  t2 : m.tempo ≤ 255
  o : m.oct ≤ 6
  l1 : 1 ≤ m.mlen
  l2 : m.mlen ≤ 64

theorem musOk_init : MusOk ({} : Mus) := ⟨by decide, by decide, by decide, by decide, by decide⟩

theorem freqIdx_lt (n oct : Nat) : freqIdx n oct < FREQ_LEN := by
  unfold freqIdx FREQ_LEN; omega

theorem musicSafe_of_ok (ps : PSt) (mus : Mus) (ch : Char) (h : MusOk mus) : MusicSafe ps mus ch := by
  unfold MusicSafe
  split
  · rename_i x
    refine Or.inr (Or.inr ?_)
    have h1 := h.t1; have h2 := h.t2
    have c1 : 1 ≤ clampI x 1 64 := by unfold clampI; omega
    have c2 : clampI x 1 64 ≤ 64 := by unfold clampI; omega
    have lo : 0 ≤ mus.tempo * clampI x 1 64 := Int.mul_nonneg (by omega) (by omega)
    have hi : mus.tempo * clampI x 1 64 ≤ 255 * 64 := Int.mul_le_mul h2 c2 (by omega) (by omega)
    unfold InI32; omega
  · trivial

theorem ite_pred {α : Type} (P : α → Prop) {c : Prop} [Decidable c] {a b : α} (ha : c → P a) (hb : ¬ c → P b) :
    P (if c then a else b) := by
  by_cases h : c
  · rw [if_pos h]; exact ha h
  · rw [if_neg h]; exact hb h

theorem musicDefault_ok (cur : MusicSt) (mus : Mus) (ch : Char) (h : MusOk mus) : MusOk (musicDefault cur mus ch).2 := by
  unfold musicDefault
  repeat' (apply ite_pred (fun r : PSt × Mus => MusOk r.2) <;> intro _)
  all_goals first
    | exact h
    | exact ⟨h.t1, h.t2, (by show (3 : Nat) ≤ 6; omega), h.l1, h.l2⟩
    | exact ⟨h.t1, h.t2, by have := h.o; show mus.oct - 1 ≤ 6; omega, h.l1, h.l2⟩
    | (refine ⟨h.t1, h.t2, ?_, h.l1, h.l2⟩
       have := h.o
       show (if mus.oct < 6 then mus.oct + 1 else mus.oct) ≤ 6
       by_cases hh : mus.oct < 6
       · rw [if_pos hh]; omega
       · rw [if_neg hh]; omega)

theorem musOk_acts (mus : Mus) (a : List MAct) (d : Bool) (h : MusOk mus) : MusOk { mus with acts := a, dotted := d } :=
  ⟨h.t1, h.t2, h.o, h.l1, h.l2⟩

theorem musicStep_ok (m : MusicSt) (mus : Mus) (ch : Char) (h : MusOk mus) : MusOk (musicStep m mus ch).2.1 := by
  unfold musicStep
  split
  · -- style
    repeat' split
    all_goals first
      | exact musOk_acts mus _ _ h
      | exact musicDefault_ok _ _ _ h
  · -- tempo
    split
    · exact h
    · apply musicDefault_ok
      exact ⟨by show 32 ≤ clampI _ 32 255; unfold clampI; omega, by show clampI _ 32 255 ≤ 255; unfold clampI; omega, h.o, h.l1, h.l2⟩
  · -- octave
    split
    · rename_i hc
      refine ⟨h.t1, h.t2, ?_, h.l1, h.l2⟩
      show ch.toNat - 48 ≤ 6
      have : ch.toNat ≤ 54 := hc.2
      omega
    · exact h
  · -- note
    repeat' split
    all_goals first
      | exact h
      | exact musOk_acts mus _ _ h
      | exact musicDefault_ok _ _ _ (musOk_acts mus _ _ h)
  · -- length
    repeat' split
    all_goals first
      | exact h
      | (apply musicDefault_ok
         exact ⟨h.t1, h.t2, h.o, by show 1 ≤ clampI _ 1 64; unfold clampI; omega, by show clampI _ 1 64 ≤ 64; unfold clampI; omega⟩)
  · -- pause
    repeat' split
    all_goals first
      | exact h
      | exact musicDefault_ok _ _ _ (musOk_acts mus _ _ h)
  · exact musicDefault_ok _ _ _ h

/-! ## the invariant along a run: every arm outside music mode leaves the music fields alone -/
def MusStep (st st' : St) : Prop := MusOk st.p.mus → MusOk st'.p.mus
abbrev MusR (st : St) (r : St × Out) : Prop := MusStep st r.1

theorem musStep_refl (st : St) : MusStep st st := id
theorem musStep_trans {a b c : St} (h1 : MusStep a b) (h2 : MusStep b c) : MusStep a c := fun h => h2 (h1 h)
theorem musStep_same (st x : St) (h : x.p.mus = st.p.mus) : MusStep st x := fun hh => by rw [h]; exact hh

theorem ret_mus (st x : St) (o : Out) (h : x.p.mus = st.p.mus) : okThen (ret x o) (MusR st) := musStep_same st x h
theorem liftC_mus (st d : St) (r : Res Car) (o : Out) (h : d.p.mus = st.p.mus) : okThen (liftC d r o) (MusR st) := by
  cases r with
  | ok c => exact musStep_same st _ h
  | error e => trivial
theorem liftSC_mus (st d : St) (r : Res (Scr × Car)) (o : Out) (h : d.p.mus = st.p.mus) : okThen (liftSC d r o) (MusR st) := by
  cases r with
  | ok p => exact musStep_same st _ h
  | error e => trivial
theorem numChar_mus (st st' : St) (ch : Char) (he : numChar st ch = some st') : MusStep st st' := by
  unfold numChar at he
  split at he
  · cases he; exact musStep_refl _
  · split at he
    · cases he; exact musStep_refl _
    · cases he
theorem executeDcs_mus (p : Par) (o : Orc) : (executeDcs p o).1.mus = p.mus := by
  unfold executeDcs
  repeat' split
  all_goals rfl
theorem ret_enter (st x : St) (o : Out) (h : x.p.mus = musicEnter st.p.mus) : okThen (ret x o) (MusR st) := by
  intro hh
  show MusOk x.p.mus
  rw [h]; exact musOk_acts _ _ _ hh

macro "marm" : tactic => `(tactic| first
  | exact ret_mus _ _ _ rfl
  | exact liftC_mus _ _ _ _ rfl
  | exact liftSC_mus _ _ _ _ rfl
  | exact ret_enter _ _ _ rfl
  | (rename_i hh; exact numChar_mus _ _ _ hh)
  | trivial)

theorem csiFinal_mus (cfg : Cfg) (o : Orc) (st : St) (isStart : Bool) (ch : Char) :
    okThen (csiFinal cfg o st isStart ch) (MusR st) := by
  unfold csiFinal
  simp only [left, right, up, down]
  repeat' (first | (apply okThen_ite <;> intro _) | split)
  all_goals marm

theorem escChar_mus (st : St) (ch : Char) : okThen (escChar st ch) (MusR st) := by
  unfold escChar
  simp only [index, reverseIndex, nextLine]
  repeat' (first | (apply okThen_ite <;> intro _) | split)
  all_goals marm

theorem dfltChar_mus (cfg : Cfg) (st d : St) (ch : Char) (h : d.p.mus = st.p.mus) :
    okThen (dfltChar cfg d ch) (MusR st) := by
  unfold dfltChar
  simp only []
  repeat' (first | (apply okThen_ite <;> intro _) | split)
  all_goals first
    | exact ret_mus _ _ _ h
    | exact liftC_mus _ _ _ _ h
    | exact liftSC_mus _ _ _ _ h
    | trivial

theorem csiCmd_mus (st : St) (ch : Char) : okThen (csiCmd st ch) (MusR st) := by
  unfold csiCmd
  simp only []
  repeat' (first | (apply okThen_ite <;> intro _) | split)
  all_goals marm

theorem csiReq_mus (st : St) (ch : Char) : okThen (csiReq st ch) (MusR st) := by
  unfold csiReq setSpecificMargin
  simp only []
  repeat' (first | (apply okThen_ite <;> intro _) | split)
  all_goals marm

theorem devAttr_mus (st : St) (ch : Char) : okThen (devAttr st ch) (MusR st) := by
  unfold devAttr
  repeat' (first | (apply okThen_ite <;> intro _) | split)
  all_goals marm

def InvMus (inv : Int → St → Res St) : Prop := ∀ id d st', inv id d = .ok st' → MusStep d st'

theorem endCsi_mus (o : Orc) (inv : Int → St → Res St) (st : St) (f ch : Char) (hinv : InvMus inv) :
    okThen (endCsi o inv st f ch) (MusR st) := by
  unfold endCsi
  simp only []
  repeat' (first | (apply okThen_ite <;> intro _) | split)
  all_goals first
    | marm
    | (rename_i hh; have h2 := hinv _ _ _ hh; exact musStep_trans (musStep_same st _ rfl) h2)

theorem stepCore_mus (cfg : Cfg) (o : Orc) (inv : Int → St → Res St) (st : St) (ch : Char) (hinv : InvMus inv) :
    okThen (stepCore cfg o inv st ch) (MusR st) := by
  unfold stepCore
  apply okThen_ite
  · intro _; trivial
  · intro _
    split
    · -- music mode
      intro hh
      exact musicStep_ok _ _ _ hh
    · exact escChar_mus st ch
    · repeat' (first | (apply okThen_ite <;> intro _) | split)
      all_goals marm
    · repeat' (first | (apply okThen_ite <;> intro _) | split)
      all_goals marm
    · simp only []
      repeat' (first | (apply okThen_ite <;> intro _) | split)
      all_goals first
        | marm
        | (rename_i hh; have h2 := hinv _ _ _ hh; exact musStep_trans (musStep_same st _ rfl) h2)
    · repeat' (first | (apply okThen_ite <;> intro _) | split)
      all_goals marm
    · apply okThen_ite
      · intro _
        have hx := executeDcs_mus { st.p with st := .dflt } o
        generalize executeDcs { st.p with st := .dflt } o = r at hx
        obtain ⟨p, out⟩ := r
        exact ret_mus _ _ _ hx
      · intro _
        repeat' (first | (apply okThen_ite <;> intro _) | split)
        all_goals marm
    · repeat' (first | (apply okThen_ite <;> intro _) | split)
      all_goals marm
    · repeat' (first | (apply okThen_ite <;> intro _) | split)
      all_goals marm
    · exact csiCmd_mus st ch
    · exact csiReq_mus st ch
    · apply okThen_ite
      · intro _; exact ret_mus _ _ _ rfl
      · intro _; exact dfltChar_mus cfg st (dflt st) ch rfl
    · exact devAttr_mus st ch
    · exact endCsi_mus o inv st _ ch hinv
    · exact csiFinal_mus cfg o st _ ch
    · exact dfltChar_mus cfg st st ch rfl

theorem replay_mus (stepf : St → Char → R) (hstep : ∀ st ch, okThen (stepf st ch) (MusR st)) :
    ∀ (body : List Char) (st st' : St), replay stepf body st = .ok st' → MusStep st st' := by
  intro body
  induction body with
  | nil => intro st st' h; simp only [replay] at h; cases h; exact musStep_refl _
  | cons ch rest ih =>
    intro st st' h
    unfold replay at h
    split at h
    · cases h; exact musStep_refl _
    · have h2 := hstep { st with p := { st.p with budget := st.p.budget - 1 } } ch
      simp only [] at h
      cases hs : stepf { st with p := { st.p with budget := st.p.budget - 1 } } ch with
      | error e => rw [hs] at h; cases h
      | ok r =>
        rw [hs] at h h2
        obtain ⟨st1, out⟩ := r
        exact musStep_trans (musStep_trans (musStep_same st _ rfl) h2) (ih st1 st' h)

theorem invoker_mus (stepf : St → Char → R) (top : Bool) (hstep : ∀ st ch, okThen (stepf st ch) (MusR st)) :
    InvMus (invoker stepf top) := by
  intro id d st' h
  unfold invoker at h
  split at h
  · cases h; exact musStep_refl _
  · split at h
    · have h2 := replay_mus stepf hstep _ _ _ h
      exact musStep_trans (musStep_same d _ rfl) h2
    · exact replay_mus stepf hstep _ _ _ h

theorem stepD_mus : ∀ (d : Nat) (cfg : Cfg) (o : Nat → Orc) (st : St) (ch : Char),
    okThen (stepD d cfg o st ch) (MusR st) := by
  intro d
  induction d with
  | zero =>
    intro cfg o st ch
    unfold stepD
    have h := stepCore_mus cfg (o st.p.tick) (fun _ st => .ok st) (tickSt st) ch
      (fun id d st' hh => by cases hh; exact musStep_refl _)
    cases hs : stepCore cfg (o st.p.tick) (fun _ st => .ok st) (tickSt st) ch with
    | error e => trivial
    | ok r => rw [hs] at h; exact musStep_trans (musStep_same st (tickSt st) rfl) h
  | succ d ih =>
    intro cfg o st ch
    unfold stepD
    have h := stepCore_mus cfg (o st.p.tick) (invoker (stepD d cfg o) (decide (d + 1 = MAX_MACRO_DEPTH))) (tickSt st) ch
      (invoker_mus _ _ (fun st ch => ih cfg o st ch))
    cases hs : stepCore cfg (o st.p.tick) (invoker (stepD d cfg o) (decide (d + 1 = MAX_MACRO_DEPTH))) (tickSt st) ch with
    | error e => trivial
    | ok r => rw [hs] at h; exact musStep_trans (musStep_same st (tickSt st) rfl) h

theorem step_mus (cfg : Cfg) (o : Nat → Orc) (st : St) (ch : Char) : okThen (step cfg o st ch) (MusR st) :=
  stepD_mus _ cfg o st ch

theorem run_mus (cfg : Cfg) (o : Nat → Orc) : ∀ (cs : List Char) (st st' : St), run cfg o st cs = .ok st' → MusStep st st' := by
  intro cs
  induction cs with
  | nil => intro st st' h; simp only [run] at h; cases h; exact musStep_refl _
  | cons ch rest ih =>
    intro st st' h
    unfold run at h
    have h2 := step_mus cfg o st ch
    cases hs : step cfg o st ch with
    | error e => rw [hs] at h; cases h
    | ok r =>
      rw [hs] at h h2
      obtain ⟨st1, out⟩ := r
      exact musStep_trans h2 (ih st1 st' h)

end IcyVerif.Term
