import IcyVerif.Lemmas.ArtAnsiSplit
/-! # The pieces the ANSI writer hands to `push_result` are `ChunkOk` (C04, `output_line_length`)

Control sequences `ESC [ params final` (any numbers — the parser's state, not the values, matters here), the iCE switch
`ESC [ ? 33 h/l`, the font switch `ESC [ 0 ; n SP D`, the cell characters (raw or with the `ESC` prefix), space, CR LF:
each keeps the two runs related (`run_cong`: no byte is `u`, except a printed `u`) and leaves the parser in its ground
state unless it left the modelled sub-language (`stuck`, on both sides alike). -/
set_option linter.unusedSimpArgs false
namespace IcyVerif.ArtIO
open IcyVerif.Gen.Art

/-- read from the ground state (not stuck), the bytes end in the ground state unless the reader got stuck -/
def EndsGround (k : List Nat) : Prop :=
  ∀ (p : AnsiP) (c : Core), p.st = .ground → c.stuck = false → (ansiRun p c k).2.stuck = false → (ansiRun p c k).1.st = .ground

theorem chunkOk_of {k : List Nat} (hk : ∀ b ∈ k, b ≠ 117) (he : EndsGround k) : ChunkOk k := by
  intro p p0 c c0 h hg
  refine ⟨run_cong k hk p p0 c c0 h, ?_⟩
  cases hs : c.stuck with
  | true => rw [ansiRun_stuck k p c hs]; intro e; rw [hs] at e; cases e
  | false => exact he p c (hg hs) hs

/-! ### numbers -/

theorem digitsAux_bytes : ∀ (fuel n : Nat) (acc : List Nat), (∀ b ∈ acc, isDigit b = true) → ∀ b ∈ digitsAux fuel n acc, isDigit b = true := by
  intro fuel
  induction fuel with
  | zero => intro n acc h b hb; exact h b hb
  | succ f ih =>
    intro n acc h b hb
    unfold digitsAux at hb
    by_cases hn : n < 10
    · rw [if_pos hn] at hb
      rcases List.mem_cons.1 hb with e | e
      · rw [e]; simp [isDigit]; omega
      · exact h b e
    · rw [if_neg hn] at hb
      refine ih (n / 10) _ ?_ b hb
      intro x hx
      rcases List.mem_cons.1 hx with e | e
      · rw [e]; simp [isDigit]; omega
      · exact h x e

theorem digits_bytes (n : Nat) : ∀ b ∈ digits n, isDigit b = true := by
  intro b hb
  unfold digits at hb
  by_cases h1 : n < 10
  · rw [if_pos h1] at hb; simp at hb; rw [hb]; simp [isDigit]; omega
  · rw [if_neg h1] at hb
    by_cases h2 : n < 100
    · rw [if_pos h2] at hb; simp at hb
      rcases hb with e | e <;> rw [e] <;> simp [isDigit] <;> omega
    · rw [if_neg h2] at hb
      by_cases h3 : n < 1000
      · rw [if_pos h3] at hb; simp at hb
        rcases hb with e | e | e <;> rw [e] <;> simp [isDigit] <;> omega
      · rw [if_neg h3] at hb
        exact digitsAux_bytes _ _ [] (fun _ h => by simp at h) b hb

theorem params_bytes : ∀ (ps : List Nat), ∀ b ∈ params ps, isDigit b = true ∨ b = 59 := by
  intro ps
  induction ps with
  | nil => intro b hb; simp [params] at hb
  | cons n rest ih =>
    intro b hb
    cases rest with
    | nil => exact Or.inl (digits_bytes n b hb)
    | cons m rest2 =>
      have : params (n :: m :: rest2) = digits n ++ [59] ++ params (m :: rest2) := rfl
      rw [this] at hb
      simp only [List.mem_append, List.mem_singleton] at hb
      rcases hb with (h | h) | h
      · exact Or.inl (digits_bytes n b h)
      · exact Or.inr h
      · exact ih b h

theorem isDigit_ne {b : Nat} (h : isDigit b = true) : 48 ≤ b ∧ b ≤ 57 := by
  simp [isDigit] at h; exact h

/-- digits and semicolons keep the parser in the CSI state and leave the core alone -/
theorem csi_body_run (body : List Nat) (hb : ∀ b ∈ body, isDigit b = true ∨ b = 59) : ∀ (p : AnsiP) (c : Core) (nums : List Nat) (st : Bool),
    p.st = .csi nums st → c.stuck = false →
    ∃ nums' st', (ansiRun p c body).1.st = .csi nums' st' ∧ (ansiRun p c body).2 = c := by
  induction body with
  | nil => intro p c nums st hp _; exact ⟨nums, st, hp, rfl⟩
  | cons b bs ih =>
    intro p c nums st hp hs
    have hb' : ∀ x ∈ bs, isDigit x = true ∨ x = 59 := fun x hx => hb x (List.mem_cons_of_mem _ hx)
    rw [ansiRun_cons]
    rcases hb b List.mem_cons_self with hd | h59
    · obtain ⟨l, u⟩ := isDigit_ne hd
      have e : ansiStep p c b = ({ p with st := .csi (numsDigit nums b) false }, c) := by
        unfold ansiStep
        have n1 : b ≠ 109 := by omega
        have n2 : ¬ (b = 72 ∨ b = 102) := by omega
        have n3 : b ≠ 67 := by omega
        have n4 : b ≠ 115 := by omega
        have n5 : b ≠ 117 := by omega
        have n6 : b ≠ 74 := by omega
        have n7 : b ≠ 116 := by omega
        have n8 : b ≠ 98 := by omega
        have n9 : b ≠ 63 := by omega
        have n10 : b ≠ 32 := by omega
        simp [hs, hp, n1, n2, n3, n4, n5, n6, n7, n8, n9, n10, hd]
      rw [e]
      exact ih hb' _ c _ false rfl hs
    · subst h59
      rw [csi_semicolon p c nums st hs hp]
      exact ih hb' _ c _ false rfl hs

/-- the same in the `CSI ?` state -/
theorem csiQ_body_run (body : List Nat) (hb : ∀ b ∈ body, isDigit b = true) : ∀ (p : AnsiP) (c : Core) (nums : List Nat),
    p.st = .csiQ nums → c.stuck = false →
    ∃ nums', (ansiRun p c body).1.st = .csiQ nums' ∧ (ansiRun p c body).2 = c := by
  induction body with
  | nil => intro p c nums hp _; exact ⟨nums, hp, rfl⟩
  | cons b bs ih =>
    intro p c nums hp hs
    have hb' : ∀ x ∈ bs, isDigit x = true := fun x hx => hb x (List.mem_cons_of_mem _ hx)
    rw [ansiRun_cons]
    have hd := hb b List.mem_cons_self
    have e : ansiStep p c b = ({ p with st := .csiQ (numsDigit nums b) }, c) := by
      unfold ansiStep
      simp [hs, hp, hd]
    rw [e]
    exact ih hb' _ c _ rfl hs

/-- the final bytes of the sequences the writer emits -/
def WriterFinal (f : Nat) : Prop := f = 109 ∨ f = 72 ∨ f = 67 ∨ f = 98 ∨ f = 116 ∨ f = 74

theorem csi_final_ground (p : AnsiP) (c : Core) (nums : List Nat) (st : Bool) (f : Nat) (hp : p.st = .csi nums st)
    (hs : c.stuck = false) (hf : WriterFinal f) : (ansiStep p c f).2.stuck = false → (ansiStep p c f).1.st = .ground := by
  unfold ansiStep
  rcases hf with e | e | e | e | e | e <;> subst e
  · simp [hs, hp]
  · simp [hs, hp]
  · simp [hs, hp]
  · simp [hs, hp]
  · simp only [hs, hp]
    by_cases h4 : nums.length = 4
    · simp [h4]
    · by_cases h3 : nums.length = 3
      · simp [h3, Core.stick]
      · simp [h4, h3]
  · simp only [hs, hp]
    cases hh : nums.head? with
    | none => simp [Core.stick]
    | some k =>
      by_cases h2 : k = 2
      · simp [h2]
      · by_cases h3 : k = 3
        · simp [h3]
        · simp [h2, h3, Core.stick]

theorem endsGround_csi (ps : List Nat) (f : Nat) (hf : WriterFinal f) : EndsGround (csi ps f) := by
  intro p c hg hs
  unfold csi
  have e1 : ansiRun p c [27, 91] = ({ p with st := .csi [] true }, c) := by
    simp [ansiRun, ansiStep, hs, hg]
  rw [List.append_assoc, ansiRun_append, e1]
  simp only []
  rw [ansiRun_append]
  obtain ⟨nums', st', q1, q2⟩ := csi_body_run (params ps) (params_bytes ps) { p with st := .csi [] true } c [] true rfl hs
  rw [ansiRun_cons, ansiRun_nil, q2]
  exact csi_final_ground _ c nums' st' f q1 hs hf

theorem csi_no_u (ps : List Nat) (f : Nat) (hf : WriterFinal f) : ∀ b ∈ csi ps f, b ≠ 117 := by
  intro b hb
  unfold csi at hb
  simp only [List.mem_append, List.mem_cons, List.mem_singleton, List.not_mem_nil, or_false] at hb
  rcases hb with ((h | h) | h) | h
  · omega
  · omega
  · rcases params_bytes ps b h with d | d
    · have := isDigit_ne d; omega
    · omega
  · rcases hf with e | e | e | e | e | e <;> omega

theorem chunkOk_csi (ps : List Nat) (f : Nat) (hf : WriterFinal f) : ChunkOk (csi ps f) :=
  chunkOk_of (csi_no_u ps f hf) (endsGround_csi ps f hf)

/-! ### the iCE switch, the font switch -/

theorem chunkOk_iceOn : ChunkOk [27, 91, 63, 51, 51, 104] := by
  apply chunkOk_of (by decide)
  intro p c hg hs
  simp [ansiRun, ansiStep, hs, hg, isDigit, numsDigit, parseNextNumber, i32Max]

theorem chunkOk_iceOff : ChunkOk [27, 91, 63, 51, 51, 108] := by
  apply chunkOk_of (by decide)
  intro p c hg hs
  simp [ansiRun, ansiStep, hs, hg, isDigit, numsDigit, parseNextNumber, i32Max]

theorem csiSp_final (q : AnsiP) (c : Core) (nums : List Nat) (hq : q.st = .csiSp nums) (hs : c.stuck = false) :
    (ansiStep q c 68).2.stuck = false → (ansiStep q c 68).1.st = .ground := by
  unfold ansiStep
  have hs' : ¬ c.stuck = true := by rw [hs]; simp
  rw [if_neg hs', hq]
  simp only [if_true]
  split
  · intro _; rfl
  · intro e; simp [Core.stick] at e

theorem fontSeq_eq (n : Nat) : fontSeq n = [27, 91] ++ ([48, 59] ++ digits n) ++ [32, 68] := by
  unfold fontSeq
  have h1 : ansiFontSeqHead = [27, 91, 48, 59] := by decide
  have h2 : ansiFontSeqTail = [32, 68] := by decide
  rw [h1, h2]; simp

theorem chunkOk_fontSeq (n : Nat) : ChunkOk (fontSeq n) := by
  have hbody : ∀ b ∈ ([48, 59] ++ digits n : List Nat), isDigit b = true ∨ b = 59 := by
    intro b hb
    simp only [List.mem_append, List.mem_cons, List.mem_singleton, List.not_mem_nil, or_false] at hb
    rcases hb with (h | h) | h
    · left; rw [h]; decide
    · right; exact h
    · left; exact digits_bytes n b h
  apply chunkOk_of
  · intro b hb
    rw [fontSeq_eq] at hb
    simp only [List.mem_append, List.mem_cons, List.mem_singleton, List.not_mem_nil, or_false] at hb
    rcases hb with ((h | h) | (h | h) | h) | (h | h)
    · omega
    · omega
    · omega
    · omega
    · have := isDigit_ne (digits_bytes n b h); omega
    · omega
    · omega
  · intro p c hg hs
    rw [fontSeq_eq]
    have e1 : ansiRun p c [27, 91] = ({ p with st := .csi [] true }, c) := by
      simp [ansiRun, ansiStep, hs, hg]
    rw [List.append_assoc, ansiRun_append, e1]
    simp only []
    rw [ansiRun_append]
    obtain ⟨nums', st', q1, q2⟩ := csi_body_run _ hbody { p with st := .csi [] true } c [] true rfl hs
    rw [q2]
    generalize (ansiRun { p with st := AState.csi [] true } c ([48, 59] ++ digits n)).1 = q at q1
    rw [ansiRun_cons, ansiRun_cons, ansiRun_nil]
    have e2 : ansiStep q c 32 = ({ q with st := .csiSp nums' }, c) := by
      unfold ansiStep; simp [hs, q1, isDigit]
    rw [e2]
    exact csiSp_final _ c nums' rfl hs

/-! ### characters -/

theorem chunkOk_cellChar (o : AnsiOpts) (ch : Nat) (hd : EncDom o ch) : ChunkOk (cellChar o ch) := by
  intro p p0 c c0 h hg
  cases hs : c.stuck with
  | true =>
    have hs0 : c0.stuck = true := by rw [← h.core.stuck]; exact hs
    rw [ansiRun_stuck _ p c hs, ansiRun_stuck _ p0 c0 hs0]
    exact ⟨h, fun e => by rw [hs] at e; cases e⟩
  | false =>
    have hs0 : c0.stuck = false := by rw [← h.core.stuck]; exact hs
    have hg' := hg hs
    have hg0 : p0.st = .ground := by rw [← h.st]; exact hg'
    rw [cellChar_read o p c ch hs hg' hd, cellChar_read o p0 c0 ch hs0 hg0 hd]
    exact ⟨⟨h.st, rfl, h.core.printAnsi ch⟩, fun _ => hg'⟩

theorem chunkOk_space : ChunkOk [32] := by
  apply chunkOk_of (by decide)
  intro p c hg hs
  simp [ansiRun, ansiStep, hs, hg]

theorem chunkOk_crlf : ChunkOk [13, 10] := by
  apply chunkOk_of (by decide)
  intro p c hg hs
  simp [ansiRun, ansiStep, hs, hg]

end IcyVerif.ArtIO
