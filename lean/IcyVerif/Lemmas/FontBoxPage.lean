import IcyVerif.Lemmas.FontBoxRt
import IcyVerif.Gen.FontSlot
set_option linter.unusedSimpArgs false
set_option linter.unusedVariables false
/-!
# C17: ADF and IDF pictures whose cells are on a font page k ≠ 0 ("which font goes where")

`Artworx::to_bytes` / `IceDraw::to_bytes` embed the font of the ONE page the cells are on (`analyze_font_usage`), the loaders
install it as slot 0.  The file such a picture is written to is byte for byte the file of the picture `toPage0 p f0 fk`: the same
cells moved to page 0, with ONE font in slot 0 — the glyphs of the font in slot k under the name of the font in slot 0 (the SAUCE
record names slot 0).  Nothing the writers look at depends on the page number (`as_u8`, the run lengths of the IDF coder — Rust's
`PartialEq` of `TextAttribute` ignores the page —, the 8-bit test, and — since the two repairs `fix: ArtWorx writer tests the
font height of slot 0 …` / `fix: iCE Draw writer …` — the 8x16 test, which now looks at the font that is embedded; slot 0 only
lends its NAME to the SAUCE record).  The round trip then is `adf_font_roundtrip` / `idf_font_roundtrip` of the page-0 picture.
-/
namespace IcyVerif.FontBox
open IcyVerif.Font IcyVerif.BinFormats IcyVerif.XbCompress IcyVerif.Gen

/-- tie: the 16 source sites of the slot / page indirection (which font the writers embed, that the ADF / IDF size test reads
    THAT font, which slot the loaders fill, one IcyDraw chunk per slot) are pinned by `tools/gens/fontslot.py` on every run -/
example : IcyVerif.Gen.FontSlot.pinnedSites.length = 16 ∧ IcyVerif.Gen.FontSlot.testsEmbeddedFont = 1 ∧
    IcyVerif.Gen.FontSlot.loadedSlot = 0 := by decide

/-- the cell on font page 0 -/
def zeroPage (c : Cell) : Cell := { c with attr := { c.attr with page := 0 } }

def zeroRows (rows : List (List Cell)) : List (List Cell) := rows.map fun r => r.map zeroPage

/-- the picture an ADF / IDF file of `p` (cells on page k, font `fk` in slot k, font `f0` in slot 0) is also the file of -/
def toPage0 (p : Pic) (f0 fk : BinFormats.Font) : Pic :=
  { p with rows := zeroRows p.rows, fonts := [(0, ⟨f0.name, fk.height, fk.data⟩)] }

theorem zeroRows_flatten (rows : List (List Cell)) : (zeroRows rows).flatten = rows.flatten.map zeroPage := by
  unfold zeroRows; rw [List.map_flatten]

theorem usage_from_zero : ∀ (cells : List Cell), (∀ c ∈ cells, c.attr.page = 0) →
    cells.foldl (fun acc c => insertSorted c.attr.page acc) [0] = [0] := by
  intro cells
  induction cells with
  | nil => intro _; rfl
  | cons c cs ih =>
    intro h
    have hc : c.attr.page = 0 := h c (List.mem_cons_self ..)
    simp only [List.foldl_cons, hc]
    have : insertSorted 0 [0] = [0] := by decide
    rw [this]
    exact ih fun d hd => h d (List.mem_cons_of_mem _ hd)

theorem usage_all_zero (cells : List Cell) (hne : cells ≠ []) (h : ∀ c ∈ cells, c.attr.page = 0) :
    analyzeFontUsage cells = [0] := by
  cases cells with
  | nil => exact absurd rfl hne
  | cons c cs =>
    unfold analyzeFontUsage
    have hc : c.attr.page = 0 := h c (List.mem_cons_self ..)
    simp only [List.foldl_cons, hc]
    have : insertSorted 0 [] = [0] := by decide
    rw [this]
    exact usage_from_zero cs fun d hd => h d (List.mem_cons_of_mem _ hd)

theorem usage_zeroRows (rows : List (List Cell)) (k : Nat) (hu : analyzeFontUsage rows.flatten = [k]) :
    analyzeFontUsage (zeroRows rows).flatten = [0] := by
  rw [zeroRows_flatten]
  apply usage_all_zero
  · intro he
    have : rows.flatten = [] := by simpa using he
    rw [this] at hu
    cases hu
  · intro c hc
    obtain ⟨d, _, rfl⟩ := List.mem_map.mp hc
    rfl

theorem zeroPage_asU8 (im : IceMode) (c : Cell) : asU8 im (zeroPage c).attr = asU8 im c.attr := rfl
theorem zeroPage_ch (c : Cell) : (zeroPage c).ch = c.ch := rfl
theorem zeroPage_eqv (c d : Cell) : (zeroPage c).eqv (zeroPage d) = c.eqv d := rfl

theorem adf_cells_zero (rows : List (List Cell)) :
    (zeroRows rows).flatMap (fun row => row.flatMap fun c => [c.ch, asU8 .ice c.attr]) =
      rows.flatMap (fun row => row.flatMap fun c => [c.ch, asU8 .ice c.attr]) := by
  unfold zeroRows
  rw [List.flatMap_map]
  congr 1
  funext row
  rw [List.flatMap_map]
  rfl

theorem fits8_zero (rows : List (List Cell)) : rowsFit8 (zeroRows rows) = rowsFit8 rows := by
  unfold rowsFit8 fits8 zeroRows
  rw [List.all_map]
  congr 1
  funext row
  simp only [Function.comp, List.all_map]
  rfl

theorem runLen_zero (c : Cell) : ∀ rest : List Cell, runLen (zeroPage c) (rest.map zeroPage) = runLen c rest := by
  intro rest
  induction rest with
  | nil => rfl
  | cons d ds ih => simp only [List.map_cons, runLen, zeroPage_eqv, ih]

theorem idfRow_zero (compress : Bool) : ∀ (fuel : Nat) (row : List Cell),
    idfRow compress fuel (row.map zeroPage) = idfRow compress fuel row := by
  intro fuel
  induction fuel with
  | zero => intro row; simp [idfRow]
  | succ fuel ih =>
    intro row
    cases row with
    | nil => simp [idfRow]
    | cons c rest =>
      simp only [List.map_cons, idfRow, runLen_zero, zeroPage_ch, zeroPage_asU8, ← List.map_drop, ih]

theorem idfRows_zero (compress : Bool) : ∀ rows : List (List Cell), idfRows compress (zeroRows rows) = idfRows compress rows := by
  intro rows
  induction rows with
  | nil => rfl
  | cons r rs ih =>
    have ih' : idfRows compress (List.map (fun r => List.map zeroPage r) rs) = idfRows compress rs := ih
    simp only [zeroRows, List.map_cons, idfRows, List.length_map, idfRow_zero, ih']

theorem writeSauce_toPage0 (k : SauceKind) (p : Pic) (f0 fk : BinFormats.Font) (h0 : lookupFont p.fonts 0 = some f0)
    (date body : List Nat) : writeSauce k (toPage0 p f0 fk) date body = writeSauce k p date body := by
  unfold writeSauce
  have h1 : lookupFont (toPage0 p f0 fk).fonts 0 = some ⟨f0.name, fk.height, fk.data⟩ := rfl
  have h2 : bufInfo (toPage0 p f0 fk) f0.name = bufInfo p f0.name := rfl
  have h3 : (toPage0 p f0 fk).sauce = p.sauce := rfl
  rw [h0, h1, h3]
  simp only [h2]

/-- ADF: the file of a picture on page k is the file of its page-0 picture (whatever the two fonts are) -/
theorem adfSave_toPage0 (sauce : Bool) (date : List Nat) (p : Pic) (k : Nat) (f0 fk : BinFormats.Font)
    (hu : analyzeFontUsage p.rows.flatten = [k]) (h0 : lookupFont p.fonts 0 = some f0) (hk : lookupFont p.fonts k = some fk) :
    adfSave sauce date p = adfSave sauce date (toPage0 p f0 fk) := by
  have hu' := usage_zeroRows p.rows k hu
  have e1 : (toPage0 p f0 fk).rows = zeroRows p.rows := rfl
  have e2 : (toPage0 p f0 fk).ice = p.ice := rfl
  have e3 : (toPage0 p f0 fk).w = p.w := rfl
  have e4 : (toPage0 p f0 fk).pal = p.pal := rfl
  have e5 : lookupFont (toPage0 p f0 fk).fonts 0 = some ⟨f0.name, fk.height, fk.data⟩ := rfl
  unfold adfSave
  simp only [e1, e2, e3, e4, hu, hu', List.length_singleton, List.headD_cons, hk, e5, fits8_zero, adf_cells_zero,
    writeSauce_toPage0 _ p f0 fk h0]

/-- IDF: the same -/
theorem idfSave_toPage0 (compress sauce : Bool) (date : List Nat) (p : Pic) (k : Nat) (f0 fk : BinFormats.Font)
    (hu : analyzeFontUsage p.rows.flatten = [k]) (h0 : lookupFont p.fonts 0 = some f0) (hk : lookupFont p.fonts k = some fk) :
    idfSave compress sauce date p = idfSave compress sauce date (toPage0 p f0 fk) := by
  have hu' := usage_zeroRows p.rows k hu
  have e1 : (toPage0 p f0 fk).rows = zeroRows p.rows := rfl
  have e2 : (toPage0 p f0 fk).ice = p.ice := rfl
  have e3 : (toPage0 p f0 fk).w = p.w := rfl
  have e4 : (toPage0 p f0 fk).pal = p.pal := rfl
  have e5 : lookupFont (toPage0 p f0 fk).fonts 0 = some ⟨f0.name, fk.height, fk.data⟩ := rfl
  have e6 : (toPage0 p f0 fk).h = p.h := rfl
  unfold idfSave
  simp only [e1, e2, e3, e4, e6, hu, hu', List.length_singleton, List.headD_cons, hk, e5, idfRows_zero,
    writeSauce_toPage0 _ p f0 fk h0]

/-- the domain of the page-k theorems: `boxOk` with the cells on page `k` and an 8x16 font in slot `k`; slot 0 holds SOME font
    (every `Buffer::new` has one; `write_sauce_info` takes the record's font name from it), of any size.  (Merge note: like `boxOk` / C05's `Representable` it now starts with `metaOk p.sauce` —
    the picture carries the buffer's own SAUCE data since the C05 work package; `none`, the case the definition covered
    before, satisfies it.) -/
def boxOkPage (f : Fmt) (k : Nat) (p : Pic) : Bool :=
  metaOk p.sauce && wellFormed p && p.ice == .ice && allCells p (attrCell true) && pal16 p.pal && analyzeFontUsage p.rows.flatten == [k] &&
  (match lookupFont p.fonts 0 with
   | none => false
   | some _ => true) &&
  (match lookupFont p.fonts k with
   | none => false
   | some fk => fk.height == 16 && fk.data.length == 4096) &&
  (match f with
   | .adf => p.w == 80 && decide (p.h ≤ 65535)
   | .idf => decide (1 ≤ p.w) && decide (p.w ≤ 80) && decide (p.h ≤ 200)
   | _ => false)

theorem allCells_zero (p : Pic) (f0 fk : BinFormats.Font) (h : allCells p (attrCell true) = true) :
    allCells (toPage0 p f0 fk) (attrCell true) = true := by
  unfold allCells at h ⊢
  show (zeroRows p.rows).all _ = true
  unfold zeroRows
  rw [List.all_map]
  rw [List.all_eq_true] at h ⊢
  intro r hr
  have := h r hr
  simp only [Function.comp, List.all_map]
  rw [List.all_eq_true] at this ⊢
  intro c hc
  exact this c hc

theorem wellFormed_zero (p : Pic) (f0 fk : BinFormats.Font) (h : wellFormed p = true) : wellFormed (toPage0 p f0 fk) = true := by
  unfold wellFormed at h ⊢
  show ((zeroRows p.rows).length == p.h && (zeroRows p.rows).all (fun r => r.length == p.w) && decide (p.h ≥ 1)) = true
  unfold zeroRows
  simpa [List.all_map, Function.comp] using h

/-- a page-k picture of the domain has a page-0 picture of C17's page-0 domain `boxOk`, and the same file -/
theorem boxOkPage_reduce (f : Fmt) (hf : f = .adf ∨ f = .idf) (k : Nat) (p : Pic) (h : boxOkPage f k p = true) :
    ∃ f0 fk, lookupFont p.fonts 0 = some f0 ∧ lookupFont p.fonts k = some fk ∧ fk.height = 16 ∧
      boxOk f (toPage0 p f0 fk) = true ∧ ∀ o date, save f o date p = save f o date (toPage0 p f0 fk) := by
  unfold boxOkPage at h
  simp only [Bool.and_eq_true, beq_iff_eq] at h
  obtain ⟨⟨⟨⟨⟨⟨⟨⟨hm, h1⟩, h2⟩, h3⟩, h4⟩, h5⟩, h6⟩, h7⟩, h8⟩ := h
  cases h0 : lookupFont p.fonts 0 with
  | none => rw [h0] at h6; cases h6
  | some f0 =>
    cases hk : lookupFont p.fonts k with
    | none => rw [hk] at h7; cases h7
    | some fk =>
      rw [h0] at h6
      rw [hk] at h7
      simp only [Bool.and_eq_true, beq_iff_eq] at h6 h7
      refine ⟨f0, fk, rfl, rfl, h7.1, ?_, ?_⟩
      · unfold boxOk
        have a1 := wellFormed_zero p f0 fk h1
        have a3 := allCells_zero p f0 fk h3
        have a5 : analyzeFontUsage (toPage0 p f0 fk).rows.flatten = [0] := usage_zeroRows p.rows k h5
        have a6 : lookupFont (toPage0 p f0 fk).fonts 0 = some ⟨f0.name, fk.height, fk.data⟩ := rfl
        have a2 : (toPage0 p f0 fk).ice = p.ice := rfl
        have a4 : (toPage0 p f0 fk).pal = p.pal := rfl
        have a7 : (toPage0 p f0 fk).w = p.w := rfl
        have a8 : (toPage0 p f0 fk).h = p.h := rfl
        have a9 : (toPage0 p f0 fk).sauce = p.sauce := rfl
        rw [a1, a3, a5, a6, a2, a4, a7, a8, a9, hm, h2, h4]
        simp only [h7.1, h7.2, beq_self_eq_true, Bool.and_self, Bool.true_and]
        exact h8
      · intro o date
        rcases hf with rfl | rfl
        · exact adfSave_toPage0 o.sauce date p k f0 fk h5 h0 hk
        · exact idfSave_toPage0 o.compress o.sauce date p k f0 fk h5 h0 hk

/-- ADF / IDF, cells on page `k`: the writer accepts the picture and the loader installs the font of SLOT `k` as slot 0 -/
theorem page_font_roundtrip (f : Fmt) (hf : f = .adf ∨ f = .idf) (o : Opts) (date : List Nat) (k : Nat) (p : Pic)
    (hok : boxOkPage f k p = true) (hdate : dateOk date = true) :
    ∃ bytes fk, lookupFont p.fonts k = some fk ∧ fk.height = 16 ∧ save f o date p = .ok bytes ∧
      ((o.sauce = true ∨ looksLikeSauce bytes = false) → ∃ g, fromBytes f bytes = .ok g ∧ g.fonts = [(0, mkFont 16 fk.data)]) := by
  obtain ⟨f0, fk, h0, hk, hk16, hbox, hsave⟩ := boxOkPage_reduce f hf k p hok
  rcases hf with rfl | rfl
  · obtain ⟨bytes, f0', hf0', h1, h2⟩ := adf_font_roundtrip o date (toPage0 p f0 fk) hbox hdate
    have : f0' = ⟨f0.name, fk.height, fk.data⟩ := by
      have e : lookupFont (toPage0 p f0 fk).fonts 0 = some ⟨f0.name, fk.height, fk.data⟩ := rfl
      rw [e] at hf0'; injection hf0' with e'; exact e'.symm
    subst this
    exact ⟨bytes, fk, hk, hk16, by rw [hsave]; exact h1, h2⟩
  · obtain ⟨bytes, f0', hf0', h1, h2⟩ := idf_font_roundtrip o date (toPage0 p f0 fk) hbox hdate
    have : f0' = ⟨f0.name, fk.height, fk.data⟩ := by
      have e : lookupFont (toPage0 p f0 fk).fonts 0 = some ⟨f0.name, fk.height, fk.data⟩ := rfl
      rw [e] at hf0'; injection hf0' with e'; exact e'.symm
    subst this
    exact ⟨bytes, fk, hk, hk16, by rw [hsave]; exact h1, h2⟩

end IcyVerif.FontBox
