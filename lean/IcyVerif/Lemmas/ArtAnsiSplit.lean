import IcyVerif.Lemmas.ArtAnsiCong
import IcyVerif.Lemmas.ArtAnsiCells
import IcyVerif.Model.ArtAnsiX
/-! # Line splitting is invisible (C04, `output_line_length`)

`push_result` writes `ESC [ s  CR LF  ESC [ u` in front of a piece of output when the line would become too long.  The
pieces ("chunks") are whole control sequences and characters: each chunk takes the parser from its ground state back to
its ground state and contains no `CSI u` (`ChunkOk`).  Then the reader's run over the output WITH splits and its run over
the same chunks WITHOUT splits stay related by `SimR` (`split_elim`): same rendition, palette, caret, and lines that show
the same.  `run_out` says that the output of `WSt.run` is the chunk list of the events with a split in front of some
chunks, whatever `max_output_line_length` is. -/
set_option linter.unusedSimpArgs false
namespace IcyVerif.ArtIO
open IcyVerif.Gen.Art

/-- `ESC [ s CR LF ESC [ u` -/
def splitSeq : List Nat := ansiSplitPre ++ ansiSplitPost

theorem splitSeq_eq : splitSeq = [27, 91, 115, 13, 10, 27, 91, 117] := by decide

theorem ansiStep_stuck (p : AnsiP) (c : Core) (ch : Nat) (h : c.stuck = true) : ansiStep p c ch = (p, c) := by
  unfold ansiStep; rw [if_pos h]

theorem ansiRun_stuck (k : List Nat) : ∀ (p : AnsiP) (c : Core), c.stuck = true → ansiRun p c k = (p, c) := by
  induction k with
  | nil => intro p c _; rfl
  | cons b bs ih => intro p c h; rw [ansiRun_cons, ansiStep_stuck p c b h]; exact ih p c h

/-- the split sequence read from the ground state: the caret comes back, only empty rows may have been appended -/
theorem split_sim {p p0 : AnsiP} {c c0 : Core} (h : SimR p c p0 c0) (hg : c.stuck = false → p.st = .ground) :
    SimR (ansiRun p c splitSeq).1 (ansiRun p c splitSeq).2 p0 c0 ∧
      ((ansiRun p c splitSeq).2.stuck = false → (ansiRun p c splitSeq).1.st = .ground) := by
  cases hs : c.stuck with
  | true => rw [ansiRun_stuck _ p c hs]; exact ⟨h, fun e => by rw [hs] at e; cases e⟩
  | false =>
    have hg' := hg hs
    obtain ⟨hst, hlc, hc⟩ := h
    have e : ansiRun p c splitSeq =
        ({ p with st := .ground, saved := (c.scr.cx, c.scr.cy) },
         { c with scr := ({ c.scr.cr.lf with cx := c.scr.cx, cy := c.scr.cy } : Screen).limit }) := by
      rw [splitSeq_eq]
      simp [ansiRun, ansiStep, hs, hg', Screen.cr, Screen.lf]
    rw [e]
    refine ⟨⟨by rw [← hst, hg'], hlc, ?_⟩, fun _ => rfl⟩
    obtain ⟨h1, h2, h3, h4, h5, h6⟩ := hc.scr
    refine ⟨⟨h1, h2, ?_, h4, ?_, ?_⟩, hc.attr, hc.caretIce, hc.bufIce, hc.pal, hc.termH, hc.stuck⟩
    · show min c.scr.cx (c.scr.w - 1) = c0.scr.cx
      rw [← h3]; omega
    · intro x y
      show shownAt (linesExtend c.scr.lines (c.scr.cy + 1)) x y = shownAt c0.scr.lines x y
      rw [shownAt_linesExtend]; exact h5 x y
    · show min c.scr.cx (c.scr.w - 1) < c.scr.w
      omega

/-- a piece of output that both runs read alike and that ends where it began: in the parser's ground state -/
def ChunkOk (k : List Nat) : Prop :=
  ∀ (p p0 : AnsiP) (c c0 : Core), SimR p c p0 c0 → (c.stuck = false → p.st = .ground) →
    SimR (ansiRun p c k).1 (ansiRun p c k).2 (ansiRun p0 c0 k).1 (ansiRun p0 c0 k).2 ∧
    ((ansiRun p c k).2.stuck = false → (ansiRun p c k).1.st = .ground)

theorem chunkOk_nil : ChunkOk [] := fun _ _ _ _ h hg => ⟨h, hg⟩

theorem ChunkOk.append {a b : List Nat} (ha : ChunkOk a) (hb : ChunkOk b) : ChunkOk (a ++ b) := by
  intro p p0 c c0 h hg
  rw [ansiRun_append, ansiRun_append]
  obtain ⟨r1, g1⟩ := ha p p0 c c0 h hg
  exact hb _ _ _ _ r1 g1

theorem chunkOk_flatten (ks : List (List Nat)) (h : ∀ k ∈ ks, ChunkOk k) : ChunkOk ks.flatten := by
  induction ks with
  | nil => exact chunkOk_nil
  | cons k ks ih =>
    rw [List.flatten_cons]
    exact (h k List.mem_cons_self).append (ih fun k' hk' => h k' (List.mem_cons_of_mem _ hk'))

/-- bytes other than `u` keep the two runs related -/
theorem run_cong (k : List Nat) (hk : ∀ b ∈ k, b ≠ 117) : ∀ (p p0 : AnsiP) (c c0 : Core), SimR p c p0 c0 →
    SimR (ansiRun p c k).1 (ansiRun p c k).2 (ansiRun p0 c0 k).1 (ansiRun p0 c0 k).2 := by
  induction k with
  | nil => intro p p0 c c0 h; exact h
  | cons b bs ih =>
    intro p p0 c c0 h
    rw [ansiRun_cons, ansiRun_cons]
    exact ih (fun x hx => hk x (List.mem_cons_of_mem _ hx)) _ _ _ _
      (step_cong h b (fun e => absurd e (hk b List.mem_cons_self)))

/-! ### the chunks with splits in front of some of them -/

/-- the chunks, each with the split sequence in front when its mark is set -/
def joinMarked : List Bool → List (List Nat) → List Nat
  | _, [] => []
  | [], k :: ks => k ++ joinMarked [] ks
  | b :: bs, k :: ks => (if b then splitSeq else []) ++ k ++ joinMarked bs ks

theorem joinMarked_cons (b : Bool) (bs : List Bool) (k : List Nat) (ks : List (List Nat)) :
    joinMarked (b :: bs) (k :: ks) = (if b then splitSeq else []) ++ k ++ joinMarked bs ks := rfl

theorem split_elim (ks : List (List Nat)) (hk : ∀ k ∈ ks, ChunkOk k) : ∀ (marks : List Bool) (p p0 : AnsiP) (c c0 : Core),
    SimR p c p0 c0 → (c.stuck = false → p.st = .ground) →
    SimR (ansiRun p c (joinMarked marks ks)).1 (ansiRun p c (joinMarked marks ks)).2
      (ansiRun p0 c0 ks.flatten).1 (ansiRun p0 c0 ks.flatten).2 := by
  induction ks with
  | nil => intro marks p p0 c c0 h _; cases marks <;> exact h
  | cons k ks ih =>
    intro marks p p0 c c0 h hg
    have hk1 := hk k List.mem_cons_self
    have hk2 : ∀ k' ∈ ks, ChunkOk k' := fun k' hk' => hk k' (List.mem_cons_of_mem _ hk')
    rw [List.flatten_cons, ansiRun_append]
    cases marks with
    | nil =>
      have e : joinMarked [] (k :: ks) = k ++ joinMarked [] ks := rfl
      rw [e, ansiRun_append]
      obtain ⟨r1, g1⟩ := hk1 p p0 c c0 h hg
      exact ih hk2 [] _ _ _ _ r1 g1
    | cons b bs =>
      rw [joinMarked_cons, List.append_assoc, ansiRun_append, ansiRun_append]
      have hsplit : SimR (ansiRun p c (if b then splitSeq else [])).1 (ansiRun p c (if b then splitSeq else [])).2 p0 c0 ∧
          ((ansiRun p c (if b then splitSeq else [])).2.stuck = false → (ansiRun p c (if b then splitSeq else [])).1.st = .ground) := by
        cases b with
        | true => exact split_sim h hg
        | false => exact ⟨h, hg⟩
      obtain ⟨r0, g0⟩ := hsplit
      obtain ⟨r1, g1⟩ := hk1 _ p0 _ c0 r0 g0
      exact ih hk2 bs _ _ _ _ r1 g1

/-! ### from events to chunks -/

/-- the pieces `push_result` is called with: `r` = the local `result` so far -/
def chunksOf : List Ev → List Nat → List (List Nat)
  | [], _ => []
  | .ext bs :: es, r => chunksOf es (r ++ bs)
  | .push :: es, r => r :: chunksOf es []
  | .eol :: es, r => chunksOf es r
  | .drop :: es, _ => chunksOf es []

/-- whatever the line length: the output is the chunks, some of them with a split in front -/
theorem run_out (max : Option Nat) : ∀ (evs : List Ev) (s : WSt),
    ∃ marks : List Bool, (WSt.run max s evs).out = s.out ++ joinMarked marks (chunksOf evs s.res) := by
  intro evs
  induction evs with
  | nil => intro s; exact ⟨[], by simp [WSt.run, chunksOf, joinMarked]⟩
  | cons e es ih =>
    intro s
    cases e with
    | ext bs =>
      obtain ⟨m, hm⟩ := ih (s.step max (.ext bs))
      exact ⟨m, by rw [show WSt.run max s (.ext bs :: es) = WSt.run max (s.step max (.ext bs)) es from rfl, hm]; rfl⟩
    | eol =>
      obtain ⟨m, hm⟩ := ih (s.step max .eol)
      exact ⟨m, by rw [show WSt.run max s (.eol :: es) = WSt.run max (s.step max .eol) es from rfl, hm]; rfl⟩
    | drop =>
      obtain ⟨m, hm⟩ := ih (s.step max .drop)
      exact ⟨m, by rw [show WSt.run max s (.drop :: es) = WSt.run max (s.step max .drop) es from rfl, hm]; rfl⟩
    | push =>
      obtain ⟨m, hm⟩ := ih (s.step max .push)
      have hrun : WSt.run max s (.push :: es) = WSt.run max (s.step max .push) es := rfl
      have hres : (s.step max .push).res = [] := by
        by_cases h1 : s.out.length + s.res.length < s.llb
        · simp [WSt.step, h1]
        · by_cases h2 : overMax max (s.out.length + s.res.length - s.llb) = true <;> simp [WSt.step, h1, h2]
      rw [hres] at hm
      show ∃ marks, (WSt.run max s (.push :: es)).out = s.out ++ joinMarked marks (s.res :: chunksOf es [])
      rw [hrun, hm]
      by_cases h1 : s.out.length + s.res.length < s.llb
      · refine ⟨false :: m, ?_⟩
        have : (s.step max .push).out = s.out ++ s.res := by simp [WSt.step, h1]
        rw [this, joinMarked_cons]; simp
      · by_cases h2 : overMax max (s.out.length + s.res.length - s.llb) = true
        · refine ⟨true :: m, ?_⟩
          have : (s.step max .push).out = s.out ++ ansiSplitPre ++ ansiSplitPost ++ s.res := by
            simp [WSt.step, h1, h2]
          rw [this, joinMarked_cons]; simp [splitSeq]
        · refine ⟨false :: m, ?_⟩
          have : (s.step max .push).out = s.out ++ s.res := by simp [WSt.step, h1, h2]
          rw [this, joinMarked_cons]; simp

/-- every chunk is made of the payloads of `ext` events -/
theorem chunksOf_ok : ∀ (evs : List Ev) (r : List Nat), ChunkOk r → (∀ bs, Ev.ext bs ∈ evs → ChunkOk bs) →
    ∀ k ∈ chunksOf evs r, ChunkOk k := by
  intro evs
  induction evs with
  | nil => intro r _ _ k hk; simp [chunksOf] at hk
  | cons e es ih =>
    intro r hr he k hk
    have he' : ∀ bs, Ev.ext bs ∈ es → ChunkOk bs := fun bs h => he bs (List.mem_cons_of_mem _ h)
    cases e with
    | ext bs => exact ih (r ++ bs) (hr.append (he bs List.mem_cons_self)) he' k hk
    | eol => exact ih r hr he' k hk
    | drop => exact ih [] chunkOk_nil he' k hk
    | push =>
      simp only [chunksOf, List.mem_cons] at hk
      rcases hk with e | hk
      · rw [e]; exact hr
      · exact ih [] chunkOk_nil he' k hk

/-- without a line-length limit nothing is split: the output is the chunks -/
theorem joinMarked_nil (ks : List (List Nat)) : joinMarked [] ks = ks.flatten := by
  induction ks with
  | nil => rfl
  | cons k ks ih => show k ++ joinMarked [] ks = _; rw [ih]; rfl

end IcyVerif.ArtIO
