import IcyVerif.Lemmas.LoaderCostBin
import IcyVerif.Lemmas.LoadersIdfTnd
set_option linter.unusedSimpArgs false
set_option linter.unusedVariables false
/-! IceDraw (IDF) and Tundra loaders: the cost-instrumented models forget to the C02 models, and their budgets (C03). -/
namespace IcyVerif.LoaderCost
open IcyVerif.Bytes IcyVerif.Bytes.Res IcyVerif.Loaders IcyVerif.Gen IcyVerif.Gen.Loaders RC

-- ------------------------------------------------------------------------------------------------ IDF: forgetting the counters
theorem idfRunC_res (x1 x2 : Int) : ∀ n p g, (idfRunC x1 x2 n p g).res = idfRun x1 x2 n p g := by
  intro n
  induction n with
  | zero => intro p g; rfl
  | succ n ih =>
    intro p g
    simp only [idfRunC, idfRun, res_bind, res_tick, res_fail, ok_bind, apply_ite RC.res, res_pure, res_lift, res_setCharC, ih]

theorem idfLoopC_res (d : Bytes) (ds : Nat) (x1 x2 : Int) : ∀ fuel o p g, (idfLoopC d ds x1 x2 fuel o p g).res = idfLoop d ds x1 x2 fuel o p g := by
  intro fuel
  induction fuel with
  | zero =>
    intro o p g
    unfold idfLoopC idfLoop
    split <;> rfl
  | succ fuel ih =>
    intro o p g
    unfold idfLoopC idfLoop
    simp only [res_bind, res_tick, ok_bind, apply_ite RC.res, res_pure, res_lift, idfRunC_res, ih]

theorem loadIdfC_res (d : Bytes) (sauce : Option (Nat × Nat)) : (loadIdfC d sauce).res = loadIdf d sauce := by
  unfold loadIdfC loadIdf
  simp only [res_bind, res_spend, res_fail, ok_bind, apply_ite RC.res, res_pure, res_lift, idfLoopC_res]
  rfl

-- ------------------------------------------------------------------------------------------------ IDF: budgets
/-- an RLE run: `n` iterations; rows only up to the 16-bit row limit the loop checks (`pos.y > u16::MAX` -> error) -/
theorem idfRunC_pot (x1 x2 : Int) :
    ∀ (n : Nat) (p : Pos) (g : Geo), g.lines ≤ 65536 →
      (idfRunC x1 x2 n p g).Pot n (65536 - g.lines) 0 (fun r => r.2.lines ≤ 65536 ∧ g.lines ≤ r.2.lines)
        (fun _ => 0) (fun r => 65536 - r.2.lines) (fun _ => 0) := by
  intro n
  induction n with
  | zero => intro p g hg; exact Pot.pure ⟨hg, Nat.le_refl _⟩ (by somega) (by somega) (by somega)
  | succ n ih =>
    intro p g hg
    unfold idfRunC
    apply Pot.bind_le pot_tick (by somega) (by somega) (by somega); intro _ _
    split
    · exact pot_fail
    · rename_i hy
      apply Pot.bind_le (pot_lift_any _) (by somega) (by somega) (by somega); intro h _
      have hy' : p.y < ((65536 : Nat) : Int) := by omega
      apply Pot.bind_le (pot_setCharC { g with lh := h, bh := h } p.x p.y 65536 hg hy') (by somega) (by somega) (by somega); intro g' hg'
      have hl1 := setChar_lines_ge { g with lh := h, bh := h } p.x p.y
      have hl2 := setChar_lines_le { g with lh := h, bh := h } p.x p.y 65536 hg hy'
      subst hg'
      apply Pot.bind_le (pot_lift_any _) (by somega) (by somega) (by somega); intro q _
      apply Pot.mono (ih q _ hl2) (by somega) (by somega) (by somega)
      intro r hr
      exact ⟨⟨hr.1, Nat.le_trans hl1 hr.2⟩, by omega, by omega, by omega⟩

theorem rdU16_ok {s : String} {d : Bytes} {o v : Nat} (h : rdU16 s d o = .ok v) : v < 65536 := by
  have := rdU16_site (s := s) (d := d) (o := o)
  rw [h] at this
  exact this

/-- `while o + 1 < data_size`: every iteration consumes at least two bytes and runs at most 65535 cells -/
theorem idfLoopC_pot (d : Bytes) (ds : Nat) (x1 x2 : Int) :
    ∀ (fuel o : Nat) (p : Pos) (g : Geo), g.lines ≤ 65536 →
      (idfLoopC d ds x1 x2 fuel o p g).Pot (10923 * (ds - o)) (65536 - g.lines) 0 (fun _ => True)
        (fun _ => 0) (fun _ => 0) (fun _ => 0) := by
  intro fuel
  induction fuel with
  | zero =>
    intro o p g hg
    unfold idfLoopC
    split
    · exact Pot.pure trivial (by somega) (by somega) (by somega)
    · exact Pot.mono (pot_lift_any _) (by somega) (by somega) (by somega) (fun _ _ => ⟨trivial, by somega, by somega, by somega⟩)
  | succ fuel ih =>
    intro o p g hg
    unfold idfLoopC
    split
    · exact Pot.pure trivial (by somega) (by somega) (by somega)
    · rename_i hc
      have hc' : o + 1 < ds := Decidable.not_not.mp hc
      apply Pot.bind_le pot_tick (by somega) (by somega) (by somega); intro _ _
      apply Pot.bind_le (pot_lift_any _) (by somega) (by somega) (by somega); intro ch _
      apply Pot.bind_le (pot_lift_any _) (by somega) (by somega) (by somega); intro attr _
      dsimp only
      split
      · apply Pot.bind_le (pot_lift_ok (fun a h => rdU16_ok h)) (by somega) (by somega) (by somega); intro rle hrle
        split
        · exact Pot.pure trivial (by somega) (by somega) (by somega)
        · rename_i h3
          apply Pot.bind_le (pot_lift_any _) (by somega) (by somega) (by somega); intro _ _
          apply Pot.bind_le (pot_lift_any _) (by somega) (by somega) (by somega); intro _ _
          apply Pot.bind_le (idfRunC_pot x1 x2 rle p g hg) (by somega) (by somega) (by somega); intro r hr
          apply Pot.mono (ih (o + 2 + 2 + 2) r.1 r.2 hr.1) (by somega) (by somega) (by somega)
          intro _ _
          exact ⟨trivial, by somega, by somega, by somega⟩
      · apply Pot.bind_le (idfRunC_pot x1 x2 1 p g hg) (by somega) (by somega) (by somega); intro r hr
        apply Pot.mono (ih (o + 2) r.1 r.2 hr.1) (by somega) (by somega) (by somega)
        intro _ _
        exact ⟨trivial, by somega, by somega, by somega⟩

/-- IDF: at most 10923 loop iterations per byte (an RLE record of 6 bytes repeats a cell up to 65535 times), never more than
    65536 rows (16-bit row limit), 4144 bytes of font and palette copied -/
theorem loadIdfC_pot (d : Bytes) (sauce : Option (Nat × Nat)) :
    (loadIdfC d sauce).Pot (10923 * d.size) 65536 4144 (fun _ => True) (fun _ => 0) (fun _ => 0) (fun _ => 0) := by
  unfold loadIdfC
  dsimp only
  have h1 : idfHeaderSize = 12 := rfl
  have h2 : idfFontSize = 4096 := rfl
  have h3 : idfPaletteSize = 48 := rfl
  split
  · exact pot_fail
  · rename_i hlen
    apply Pot.bind_le (pot_lift_any _) (by somega) (by somega) (by somega); intro _ _
    split
    · exact pot_fail
    · apply Pot.bind_le (pot_lift_any _) (by somega) (by somega) (by somega); intro x1 _
      apply Pot.bind_le (pot_lift_any _) (by somega) (by somega) (by somega); intro y1 _
      apply Pot.bind_le (pot_lift_any _) (by somega) (by somega) (by somega); intro x2 _
      split
      · exact pot_fail
      · apply Pot.bind_le (pot_lift_any _) (by somega) (by somega) (by somega); intro w _
        apply Pot.bind_le (pot_lift_ok (fun a h => (SatS.panic_ok usub_site h))) (by somega) (by somega) (by somega); intro ds1 hds1
        apply Pot.bind_le (pot_lift_ok (fun a h => (SatS.panic_ok usub_site h))) (by somega) (by somega) (by somega); intro ds hds
        have hg0 : (initGeo 80 25 idfLinesCleared (if idfResizeToSauce then sauce else none)).lines = 0 := by
          rw [initGeo_lines]; simp [idfLinesCleared]
        apply Pot.bind_le (idfLoopC_pot d ds x1 x2 (d.size + 1) 12 ⟨x1, y1⟩ _ (by show (initGeo _ _ _ _).lines ≤ _; rw [hg0]; omega))
          (by have := hds.1; have := hds1.1; somega) (by show 65536 - (initGeo _ _ _ _).lines ≤ _; rw [hg0]; omega) (by somega); intro r _
        apply Pot.bind_le (pot_lift_any _) (by somega) (by somega) (by somega); intro _ _
        apply Pot.bind_le (pot_lift_any _) (by somega) (by somega) (by somega); intro _ _
        apply Pot.bind_le (pot_spend _) (by somega) (by somega) (by somega); intro _ _
        exact Pot.pure trivial (by somega) (by somega) (by somega)

-- ------------------------------------------------------------------------------------------------ Tundra: forgetting the counters
theorem tndColorC_res (d : Bytes) (o : Nat) (has : Bool) (pal : Nat) : ((tndColorC d o has pal).res.bind fun r => Res.ok r.1) = tndColor d o has := by
  unfold tndColorC tndColor
  cases has with
  | true =>
    simp only [Bool.not_true, Bool.false_eq_true, if_false]
    split
    · rfl
    · simp only [res_bind, res_lift, res_spend, res_pure]
      cases rd sTnd d (o + 1) <;> try rfl
      cases rd sTnd d (o + 2) <;> try rfl
      cases rd sTnd d (o + 3) <;> rfl
  | false => rfl

/-- `bind` whose first part carries an extra component the C02 model does not have -/
theorem res_bind_fst {α β γ : Type} {x : RC (α × β)} {y : Res α} (h : (x.res.bind fun r => Res.ok r.1) = y)
    (f : α × β → RC γ) (f' : α → Res γ) (hf : ∀ r, (f r).res = f' r.1) : (x >>= f).res = y >>= f' := by
  rw [res_bind, ← h]
  cases x.res with
  | ok r => exact hf r
  | err => rfl
  | panic s => rfl

theorem tndArgsC_res (d : Bytes) (o cmd pal : Nat) :
    ((tndArgsC d o cmd pal).res.bind fun r => Res.ok r.1) =
      (if cmd > tndCmdLo ∧ cmd ≤ tndCmdHi then
          if o ≥ d.size then Res.err else do
            let _ ← rd sTnd d o
            let o ← tndColor d (o + 1) (cmd &&& tndColorFg != 0)
            tndColor d o (cmd &&& tndColorBg != 0)
        else Res.ok o) := by
  unfold tndArgsC
  split
  · split
    · rfl
    · simp only [res_bind, res_lift]
      cases rd sTnd d o with
      | ok v =>
        simp only [ok_bind]
        have h1 := tndColorC_res d (o + 1) (cmd &&& tndColorFg != 0) pal
        rw [← h1]
        cases (tndColorC d (o + 1) (cmd &&& tndColorFg != 0) pal).res with
        | ok r => exact tndColorC_res d r.1 _ r.2
        | err => rfl
        | panic s => rfl
      | err => rfl
      | panic s => rfl
  · rfl

theorem tndLoopC_res (d : Bytes) (bw : Int) : ∀ fuel o p g pal, (tndLoopC d bw fuel o p g pal).res = tndLoop d bw fuel o p g := by
  intro fuel
  induction fuel with
  | zero =>
    intro o p g pal
    unfold tndLoopC tndLoop
    split <;> rfl
  | succ fuel ih =>
    intro o p g pal
    unfold tndLoopC tndLoop
    split
    · rfl
    · simp only [res_bind, res_tick, ok_bind, res_lift]
      congr 1; funext cmd
      split
      · simp only [res_bind, res_fail, ok_bind, apply_ite RC.res, res_lift, ih]
      · refine (res_bind_fst (tndArgsC_res d (o + 1) cmd pal) _ _ ?_)
        intro r
        simp only [res_bind, res_lift, res_setCharC, ok_bind, ih]

theorem loadTndC_res (d : Bytes) (sauce : Option (Nat × Nat)) : (loadTndC d sauce).res = loadTnd d sauce := by
  unfold loadTndC loadTnd
  simp only [res_bind, res_fail, ok_bind, apply_ite RC.res, res_lift, tndLoopC_res]

-- ------------------------------------------------------------------------------------------------ Tundra: budgets
theorem mul_budget (P a b c : Nat) (h : b + c ≤ a) : P * b + P * c ≤ P * a := by
  rw [← Nat.mul_add]; exact Nat.mul_le_mul_left P h

/-- a colour record: the palette search costs at most `pal <= P` comparisons and is paid for by the 4 bytes it consumes -/
theorem tndColorC_pot (d : Bytes) (P o : Nat) (has : Bool) (pal : Nat) (hP : d.size ≤ P) (hpal : pal ≤ o) (ho : o ≤ d.size) :
    (tndColorC d o has pal).Pot 0 0 (P * (d.size - o)) (fun r => o ≤ r.1 ∧ r.1 ≤ d.size ∧ r.2 ≤ r.1)
      (fun _ => 0) (fun _ => 0) (fun r => P * (d.size - r.1)) := by
  unfold tndColorC
  split
  · exact Pot.pure ⟨Nat.le_refl _, ho, hpal⟩ (by somega) (by somega) (Nat.le_refl _)
  · split
    · exact pot_fail
    · rename_i hlen
      have hb := mul_budget P (d.size - o) (d.size - (o + 4)) 4 (by omega)
      apply Pot.bind_le (pot_lift_any _) (by somega) (by somega) (by somega); intro _ _
      apply Pot.bind_le (pot_lift_any _) (by somega) (by somega) (by somega); intro _ _
      apply Pot.bind_le (pot_lift_any _) (by somega) (by somega) (by somega); intro _ _
      apply Pot.bind_le (pot_spend pal) (by somega) (by somega) (by generalize P * (d.size - o) = X at hb ⊢; generalize P * (d.size - (o + 4)) = Y at hb; omega); intro _ _
      refine Pot.pure ⟨by somega, by somega, by somega⟩ (by somega) (by somega) ?_
      show P * (d.size - (o + 4)) ≤ 0 + (0 + (0 + (0 + (P * (d.size - o) - 0) - 0) - 0) - pal)
      generalize P * (d.size - o) = X at hb ⊢; generalize P * (d.size - (o + 4)) = Y at hb ⊢; omega

theorem tndArgsC_pot (d : Bytes) (P o cmd pal : Nat) (hP : d.size ≤ P) (hpal : pal ≤ o) (ho : o ≤ d.size) :
    (tndArgsC d o cmd pal).Pot 0 0 (P * (d.size - o)) (fun r => o ≤ r.1 ∧ r.1 ≤ d.size ∧ r.2 ≤ r.1)
      (fun _ => 0) (fun _ => 0) (fun r => P * (d.size - r.1)) := by
  unfold tndArgsC
  split
  · split
    · exact pot_fail
    · rename_i hlen
      have hb := mul_budget P (d.size - o) (d.size - (o + 1)) 1 (by omega)
      apply Pot.bind_le (pot_lift_any _) (by somega) (by somega) (by somega); intro _ _
      apply Pot.bind_le (tndColorC_pot d P (o + 1) _ pal hP (by omega) (by omega)) (by somega) (by somega)
        (by generalize P * (d.size - o) = X at hb ⊢; generalize P * (d.size - (o + 1)) = Y at hb ⊢; omega); intro r hr
      apply Pot.mono (tndColorC_pot d P r.1 _ r.2 hP hr.2.2 hr.2.1) (by somega) (by somega) (by somega)
      intro r2 hr2
      exact ⟨⟨by omega, hr2.2.1, hr2.2.2⟩, by somega, by somega, by somega⟩
  · exact Pot.pure ⟨Nat.le_refl _, ho, hpal⟩ (by somega) (by somega) (Nat.le_refl _)

theorem advance_ok {s : String} {bw : Int} {p q : Pos} (h : advance s bw p = .ok q) : q.y ≤ p.y + 1 := by
  unfold advance at h
  cases h1 : chk32 s (p.x + 1) with
  | ok x =>
    rw [h1] at h
    simp only [ok_bind] at h
    split at h
    · cases h2 : chk32 s (p.y + 1) with
      | ok y =>
        rw [h2] at h
        have := chk32_ok h2
        cases h; simp only; omega
      | err => rw [h2] at h; cases h
      | panic t => rw [h2] at h; cases h
    · cases h; simp only; omega
  | err => rw [h1] at h; cases h
  | panic t => rw [h1] at h; cases h

theorem tndU32_ok_any {d : Bytes} {o : Nat} {v : Int} (h : tndU32 d o = .ok v) : True := trivial

/-- the Tundra loop: one iteration per byte at least; a position record jumps at most to row 65534, after that rows grow
    one by one with the cells written; palette searches are paid by the colour bytes (`extra <= P * |d|`) -/
theorem tndLoopC_pot (d : Bytes) (bw : Int) (B P : Nat) (hB : 65535 + d.size ≤ B) (hP : d.size ≤ P) :
    ∀ (fuel o : Nat) (p : Pos) (g : Geo) (pal : Nat), pal ≤ o → p.y + ((d.size - o : Nat) : Int) < (B : Int) → g.lines ≤ B →
      (tndLoopC d bw fuel o p g pal).Pot (d.size - o) (B - g.lines) (P * (d.size - o)) (fun _ => True)
        (fun _ => 0) (fun _ => 0) (fun _ => 0) := by
  intro fuel
  induction fuel with
  | zero =>
    intro o p g pal hpal hy hg
    unfold tndLoopC
    split
    · exact Pot.pure trivial (by somega) (by somega) (by somega)
    · exact Pot.mono (pot_lift_any _) (by somega) (by somega) (by somega) (fun _ _ => ⟨trivial, by somega, by somega, by somega⟩)
  | succ fuel ih =>
    intro o p g pal hpal hy hg
    unfold tndLoopC
    split
    · exact Pot.pure trivial (by somega) (by somega) (by somega)
    · rename_i hc
      have ho : o < d.size := Decidable.not_not.mp hc
      have hb1 := mul_budget P (d.size - o) (d.size - (o + 1)) 1 (by omega)
      apply Pot.bind_le pot_tick (by somega) (by somega) (by somega); intro _ _
      apply Pot.bind_le (pot_lift_any _) (by somega) (by somega) (by somega); intro cmd _
      dsimp only
      split
      · split
        · exact pot_fail
        · rename_i h8
          have hb9 := mul_budget P (d.size - o) (d.size - (o + 1 + 8)) 9 (by omega)
          apply Pot.bind_le (pot_lift_any _) (by somega) (by somega) (by somega); intro y _
          split
          · exact pot_fail
          · rename_i hy65
            apply Pot.bind_le (pot_lift_any _) (by somega) (by somega) (by somega); intro x _
            split
            · exact pot_fail
            · apply Pot.mono (ih (o + 1 + 8) ⟨x, y⟩ g pal (by omega) (by show y + _ < _; omega) hg) (by somega) (by somega)
                (by generalize P * (d.size - o) = X at hb9 ⊢; generalize P * (d.size - (o + 1 + 8)) = Y at hb9 ⊢; omega)
              intro _ _
              exact ⟨trivial, by somega, by somega, by somega⟩
      · apply Pot.bind_le (tndArgsC_pot d P (o + 1) cmd pal hP (by omega) (by omega)) (by somega) (by somega)
          (by generalize P * (d.size - o) = X at hb1 ⊢; generalize P * (d.size - (o + 1)) = Y at hb1 ⊢; omega); intro op hop
        obtain ⟨hop1, hop2, hop3⟩ := hop
        apply Pot.bind_le (pot_lift_any _) (by somega) (by somega) (by somega); intro h _
        have hrow : p.y < (B : Int) := by omega
        apply Pot.bind_le (pot_setCharC { g with lh := h } p.x p.y B hg hrow) (by somega) (by somega) (by somega); intro g' hg'
        have hl1 := setChar_lines_ge { g with lh := h } p.x p.y
        have hl2 := setChar_lines_le { g with lh := h } p.x p.y B hg hrow
        subst hg'
        apply Pot.bind_le (pot_lift_ok (fun a h => advance_ok h)) (by somega) (by somega) (by somega); intro q hq
        apply Pot.mono (ih op.1 q _ op.2 hop3 (by omega) hl2) (by somega) (by somega) (by somega)
        intro _ _
        exact ⟨trivial, by somega, by somega, by somega⟩

/-- Tundra: one loop iteration per byte, at most 65535 + |d| rows, at most |d|^2 palette comparisons -/
theorem loadTndC_pot (d : Bytes) (sauce : Option (Nat × Nat)) :
    (loadTndC d sauce).Pot d.size (65535 + d.size) (d.size * d.size) (fun _ => True) (fun _ => 0) (fun _ => 0) (fun _ => 0) := by
  unfold loadTndC
  dsimp only
  have h1 : tndHeader.length = 8 := rfl
  split
  · exact pot_fail
  · rename_i hlen
    apply Pot.bind_le (pot_lift_any _) (by somega) (by somega) (by somega); intro _ _
    split
    · exact pot_fail
    · have hg00 : (initGeo 80 25 tndLinesCleared sauce).lines = 0 := by rw [initGeo_lines]; simp [tndLinesCleared]
      -- the wide-SAUCE rule of the start buffer (C05 repair) changes the widths only
      have hg0 : (tndGeo sauce).lines = 0 := by
        unfold tndGeo
        dsimp only
        split
        · split
          · exact hg00
          · exact hg00
        · exact hg00
      have hm : d.size * (d.size - (1 + tndHeader.length)) ≤ d.size * d.size := Nat.mul_le_mul_left _ (by omega)
      apply Pot.mono (tndLoopC_pot d _ (65535 + d.size) d.size (Nat.le_refl _) (Nat.le_refl _) (d.size + 1) (1 + tndHeader.length) ⟨0, 0⟩ _ 1
        (by omega) (by show (0 : Int) + _ < _; omega) (by rw [hg0]; omega)) (by somega) (by rw [hg0]; omega) (by somega)
      intro _ _
      exact ⟨trivial, by somega, by somega, by somega⟩
